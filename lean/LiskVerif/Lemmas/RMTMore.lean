/-
More lemmas about the regular Merkle tree model: the exact layer structure, the node store kept by
`Append` (every proper aligned block of leaves is stored at its location), right witnesses.
-/
import LiskVerif.Lemmas.RMTProof
import LiskVerif.Lemmas.Sort
import Mathlib.Tactic.Ring
import Mathlib.Tactic.Linarith
namespace LiskVerif.RMT

/-! ### the layer structure, exactly -/

theorem ceil_half (T j : Nat) : ((T + 1) / 2 + 2 ^ j - 1) / 2 ^ j = (T + 2 ^ (j + 1) - 1) / 2 ^ (j + 1) := by
  have e : 2 ^ (j + 1) = 2 * 2 ^ j := by rw [Nat.pow_succ]; omega
  rw [e, ← Nat.div_div_eq_div_mul]
  congr 1
  have hp : 0 < 2 ^ j := Nat.pow_pos (by decide)
  omega

/-- with `T = m + r % 2` entries at the current layer (the proper nodes and possibly one lifted
subtree), `j + 1` layers higher there are `ceil(T / 2^j) / 2` proper nodes -/
theorem layerMax_closed (j : Nat) : ∀ m r, layerMax (j + 1) m r = ((m + r % 2 + 2 ^ j - 1) / 2 ^ j) / 2 := by
  induction j with
  | zero =>
    intro m r
    simp only [layerMax]
    split <;> rename_i h <;> simp at h <;> simp <;> omega
  | succ j ih =>
    intro m r
    rw [layerMax, ih]
    have key : ∀ T, (if r % 2 == 0 then m / 2 else (m + 1) / 2) = T / 2 ∧ (r + m % 2) % 2 = T % 2 →
        T = m + r % 2 →
        ((if r % 2 == 0 then m / 2 else (m + 1) / 2) + (r + m % 2) % 2 + 2 ^ j - 1) / 2 ^ j / 2
          = (T + 2 ^ (j + 1) - 1) / 2 ^ (j + 1) / 2 := by
      intro T h hT
      rw [h.1, h.2, ← ceil_half T j]
      have : T / 2 + T % 2 = (T + 1) / 2 := by omega
      rw [this]
    apply key (m + r % 2) _ rfl
    split <;> rename_i h <;> simp at h <;> constructor <;> omega

/-- a node `(layer, k)` that is stored: a leaf, or a block whose right half is not empty -/
def proper (n layer k : Nat) : Prop :=
  (layer = 0 ∧ k < n) ∨ (1 ≤ layer ∧ (2 * k + 1) * 2 ^ (layer - 1) < n)

theorem lt_layerStructure_iff (n l k : Nat) (hl : 1 ≤ l) :
    k < (layerStructure n).getD l 0 ↔ (2 * k + 1) * 2 ^ (l - 1) < n := by
  obtain ⟨j, rfl⟩ : ∃ j, l = j + 1 := ⟨l - 1, by omega⟩
  simp only [Nat.add_sub_cancel]
  have hp : 0 < 2 ^ j := Nat.pow_pos (by decide)
  have hcl : ∀ x, x < ((n + 2 ^ j - 1) / 2 ^ j) ↔ x * 2 ^ j < n := by
    intro x
    rw [Nat.lt_div_iff_mul_lt hp]  
    constructor <;> intro h <;> omega
  unfold layerStructure
  by_cases hlt : j + 1 < getHeight n
  · have : ((List.range (getHeight n)).map fun layer => layerMax layer n 0).getD (j + 1) 0 = layerMax (j + 1) n 0 := by
      simp [List.getD, hlt]
    rw [this, layerMax_closed]
    simp only [Nat.zero_mod, Nat.add_zero]
    rw [← hcl]
    omega
  · have : ((List.range (getHeight n)).map fun layer => layerMax layer n 0).getD (j + 1) 0 = 0 := by
      simp only [List.getD]
      rw [List.getElem?_eq_none (by simp; omega)]; rfl
    rw [this]
    constructor
    · intro h; omega
    · intro h
      exfalso
      by_cases hn : n = 0
      · omega
      · have h1 := le_two_pow_clog2 n (by omega)
        have h2 : 2 ^ clog2 n ≤ 2 ^ j := Nat.pow_le_pow_right (by decide) (by unfold getHeight at hlt; omega)
        have : 2 ^ j ≤ (2 * k + 1) * 2 ^ j := Nat.le_mul_of_pos_left _ (by omega)
        omega

/-! ### aligned blocks of leaves -/

/-- the leaves below the node `(layer, k)` -/
def blk (l : List Bytes) (layer k : Nat) : List Bytes := (l.drop (k * 2 ^ layer)).take (2 ^ layer)

theorem two_mul_pow_pred {layer : Nat} (h : 1 ≤ layer) : 2 * 2 ^ (layer - 1) = 2 ^ layer := by
  obtain ⟨j, rfl⟩ : ∃ j, layer = j + 1 := ⟨layer - 1, by omega⟩
  rw [Nat.pow_succ]; simp; omega

/-- a block whose right half is empty is its left half -/
theorem blk_down (l : List Bytes) (layer k : Nat) (h1 : 1 ≤ layer)
    (h : l.length ≤ (2 * k + 1) * 2 ^ (layer - 1)) : blk l layer k = blk l (layer - 1) (k * 2) := by
  have e := two_mul_pow_pred h1
  have e2 : k * 2 * 2 ^ (layer - 1) = k * 2 ^ layer := by rw [← e, Nat.mul_assoc]
  unfold blk
  rw [e2]
  have hlen : (l.drop (k * 2 ^ layer)).length ≤ 2 ^ (layer - 1) := by
    rw [List.length_drop, ← e2]
    have : (2 * k + 1) * 2 ^ (layer - 1) = k * 2 * 2 ^ (layer - 1) + 2 ^ (layer - 1) := by
      rw [Nat.add_mul, Nat.mul_comm 2 k]; simp
    omega
  rw [List.take_of_length_le (by omega), List.take_of_length_le hlen]

theorem proper_lt {n layer k : Nat} (h : proper n layer k) : k * 2 ^ layer < n := by
  rcases h with ⟨h0, h⟩ | ⟨h1, h⟩
  · subst h0; simpa using h
  · have e := two_mul_pow_pred h1
    have : (2 * k + 1) * 2 ^ (layer - 1) = k * 2 ^ layer + 2 ^ (layer - 1) := by
      rw [Nat.add_mul, ← e, Nat.mul_comm 2 k, Nat.mul_assoc]; simp
    omega

/-- `descend` walks down the left spine to the node that is stored for the block -/
theorem descend_blk (l : List Bytes) : ∀ (f layer k : Nat), layer < f →
    ∃ l', l' ≤ layer ∧ descend (layerStructure l.length) f k layer = (l', k * 2 ^ (layer - l')) ∧
      blk l l' (k * 2 ^ (layer - l')) = blk l layer k ∧
      (k * 2 ^ layer < l.length → proper l.length l' (k * 2 ^ (layer - l'))) ∧
      (l.length ≤ k * 2 ^ layer → l.length ≤ k * 2 ^ (layer - l')) := by
  intro f
  induction f with
  | zero => intro layer k h; omega
  | succ f ih =>
    intro layer k hl
    simp only [descend]
    have hiff := lt_layerStructure_iff l.length layer k
    generalize (layerStructure l.length).getD layer 0 = s at hiff ⊢
    by_cases hc : k ≥ s ∧ layer > 0
    · have hcb : (decide (k ≥ s) && decide (layer > 0)) = true := by
        rw [Bool.and_eq_true]; exact ⟨decide_eq_true hc.1, decide_eq_true hc.2⟩
      rw [if_pos hcb]
      have hnp : l.length ≤ (2 * k + 1) * 2 ^ (layer - 1) := by
        rcases Nat.lt_or_ge ((2 * k + 1) * 2 ^ (layer - 1)) l.length with h | h
        · have := (hiff (by omega)).2 h; omega
        · exact h
      obtain ⟨l', h1, h2, h3, h4, h5⟩ := ih (layer - 1) (k * 2) (by omega)
      have e := two_mul_pow_pred (show 1 ≤ layer by omega)
      have e2 : k * 2 * 2 ^ (layer - 1) = k * 2 ^ layer := by rw [← e, Nat.mul_assoc]
      have e3 : k * 2 * 2 ^ (layer - 1 - l') = k * 2 ^ (layer - l') := by
        rw [show layer - l' = (layer - 1 - l') + 1 by omega, Nat.pow_succ, Nat.mul_assoc, Nat.mul_comm 2]
      rw [e3] at h2 h3 h4 h5
      rw [e2] at h4 h5
      exact ⟨l', by omega, h2, by rw [h3, ← blk_down l layer k (by omega) hnp], h4, h5⟩
    · have hcb : ¬ ((decide (k ≥ s) && decide (layer > 0)) = true) := by
        rw [Bool.and_eq_true]
        intro h; exact hc ⟨of_decide_eq_true h.1, of_decide_eq_true h.2⟩
      rw [if_neg hcb]
      have hz : k * 2 ^ (layer - layer) = k := by rw [Nat.sub_self, Nat.pow_zero, Nat.mul_one]
      refine ⟨layer, Nat.le_refl _, ?_⟩
      rw [hz]
      by_cases h0 : layer = 0
      · subst h0
        refine ⟨rfl, rfl, ?_, ?_⟩
        · intro hlt; left; exact ⟨rfl, by simpa using hlt⟩
        · intro h; simpa using h
      · have hks : k < s := by
          rcases Nat.lt_or_ge k s with h | h
          · exact h
          · exact absurd ⟨h, by omega⟩ hc
        have hp : proper l.length layer k := Or.inr ⟨by omega, (hiff (by omega)).1 hks⟩
        refine ⟨rfl, rfl, fun _ => hp, ?_⟩
        intro h
        have := proper_lt hp
        omega

/-- `getRightSiblingInfo`: the location at which the sibling block is stored -/
theorem rsi_some (l : List Bytes) (k layer : Nat) (h : sibOf k * 2 ^ layer < l.length) :
    ∃ l', l' ≤ layer ∧
      rightSiblingInfo (layerStructure l.length) k layer l.length = some (l', sibOf k * 2 ^ (layer - l')) ∧
      proper l.length l' (sibOf k * 2 ^ (layer - l')) ∧
      blk l l' (sibOf k * 2 ^ (layer - l')) = blk l layer (sibOf k) := by
  obtain ⟨l', h1, h2, h3, h4, _⟩ := descend_blk l (layer + 1) layer (sibOf k) (by omega)
  refine ⟨l', h1, ?_, h4 h, h3⟩
  unfold rightSiblingInfo
  rw [sib_eq]
  simp only [h2]
  have := proper_lt (h4 h)
  have hp : 0 < 2 ^ l' := Nat.pow_pos (by decide)
  have : sibOf k * 2 ^ (layer - l') < l.length := by
    have : sibOf k * 2 ^ (layer - l') ≤ sibOf k * 2 ^ (layer - l') * 2 ^ l' := Nat.le_mul_of_pos_right _ hp
    omega
  rw [if_neg (by omega)]

theorem rsi_none (n k layer : Nat) (h : n ≤ sibOf k * 2 ^ layer) :
    rightSiblingInfo (layerStructure n) k layer n = none := by
  rcases rightSiblingInfo_char n k layer with ⟨h1, _⟩ | ⟨_, _, _, h2⟩
  · exact h1
  · omega

/-! ### the node store -/

/-- every proper block of the leaf hashes `l` is stored at its location -/
def Stored (hf : HashFns) (t : Tree) (l : List Bytes) : Prop :=
  ∀ layer k, proper l.length layer k → t.getHash (layer, k) = some (rootH hf (blk l layer k))

theorem getHash_saveNode (t : Tree) (h : Bytes) (l loc : Loc) :
    (t.saveNode h l).getHash loc = if loc = l then some h else t.getHash loc := by
  simp only [Tree.getHash, Tree.saveNode, List.lookup]
  by_cases e : loc = l
  · subst e; simp
  · have : (loc == l) = false := by simpa using e
    simp [this, e]

theorem Ctr.length_flat {k : Nat} {c : Ctr} (h : Ctr.WF k c) : (Ctr.flat c).length = Ctr.toNat c * 2 ^ k := by
  induction c generalizing k with
  | nil => simp [Ctr.flat, Ctr.toNat]
  | cons o r ih =>
    have := ih h.2
    cases o with
    | none =>
      simp only [Ctr.flat, Ctr.toNat, Option.getD_none, List.append_nil, this, Nat.pow_succ]
      simp; ring
    | some p =>
      have hp := h.1 p rfl
      simp only [Ctr.flat, Ctr.toNat, Option.getD_some, List.length_append, this, hp, Nat.pow_succ]
      simp; ring

theorem blk_top (a b : List Bytes) (layer k : Nat) (ha : a.length = k * 2 ^ layer) (hb : b.length ≤ 2 ^ layer) :
    blk (a ++ b) layer k = b := by
  unfold blk
  rw [← ha, List.drop_left, List.take_of_length_le hb]

theorem Ctr.toNat_cons_div (o : Option (List Bytes)) (r : Ctr) : Ctr.toNat (o :: r) / 2 = Ctr.toNat r := by
  simp only [Ctr.toNat]; split <;> omega

/-- what the first loop of `Append` writes: for every set bit `layer - 1` of the size above `h`, the
block of the new last leaf at `layer` -/
theorem storeLoop_ctr (hf : HashFns) (height size : Nat) : ∀ (f : Nat) (c : Ctr) (h : Nat) (tl : List Bytes)
    (t0 t2 : Tree),
    Ctr.WF h c → size >>> h = Ctr.toNat c → 0 < tl.length → tl.length ≤ 2 ^ h →
    storeLoop hf height size f h (Ctr.path hf c) (rootH hf tl) t0 = (t2, true) →
    ∀ layer k,
      t2.getHash (layer, k) =
        if h < layer ∧ layer ≤ h + f ∧ (size >>> (layer - 1)) % 2 = 1 ∧ k = size >>> layer then
          some (rootH hf (blk (Ctr.flat c ++ tl) layer k)) else t0.getHash (layer, k) := by
  intro f
  induction f with
  | zero =>
    intro c h tl t0 t2 _ _ _ _ hs layer k
    simp only [storeLoop] at hs
    cases hs
    rw [if_neg (by omega)]
  | succ f ih =>
    intro c h tl t0 t2 hw hsz htl0 htl hs layer k
    have hshift : size >>> (h + 1) = Ctr.toNat c / 2 := by rw [Nat.shiftRight_succ, hsz]
    have htl' : tl.length ≤ 2 ^ (h + 1) := by rw [Nat.pow_succ]; omega
    -- the case of a clear bit
    have hclear : ∀ (c' : Ctr), Ctr.WF (h + 1) c' → Ctr.toNat c' = Ctr.toNat c / 2 → Ctr.toNat c % 2 = 0 →
        Ctr.path hf c' = Ctr.path hf c → Ctr.flat c' = Ctr.flat c →
        t2.getHash (layer, k) =
        if h < layer ∧ layer ≤ h + (f + 1) ∧ (size >>> (layer - 1)) % 2 = 1 ∧ k = size >>> layer then
          some (rootH hf (blk (Ctr.flat c ++ tl) layer k)) else t0.getHash (layer, k) := by
      intro c' hw' hn' hbit hpath hflat
      have hb : ((size >>> h) % 2 == 1) = false := by rw [hsz, hbit]; rfl
      simp only [storeLoop, hb, Bool.false_eq_true, if_false] at hs
      rw [← hpath] at hs
      have := ih c' (h + 1) tl t0 t2 hw' (by rw [hshift, hn']) htl0 htl' hs layer k
      rw [this, hflat]
      by_cases hl : layer = h + 1
      · subst hl
        rw [if_neg (by omega), if_neg]
        intro hh
        have := hh.2.2.1
        rw [Nat.add_sub_cancel, hsz, hbit] at this
        cases this
      · by_cases hc : h < layer ∧ layer ≤ h + (f + 1) ∧ (size >>> (layer - 1)) % 2 = 1 ∧ k = size >>> layer
        · rw [if_pos hc, if_pos ⟨by omega, by omega, hc.2.2⟩]
        · rw [if_neg hc, if_neg]
          intro hh; exact hc ⟨by omega, by omega, hh.2.2⟩
    cases c with
    | nil =>
      exact hclear [] (by simp [Ctr.WF]) (by simp [Ctr.toNat]) (by simp [Ctr.toNat]) rfl rfl
    | cons o r =>
      cases o with
      | none =>
        exact hclear r hw.2 (Ctr.toNat_cons_div none r).symm (by simp [Ctr.toNat]) (by simp [Ctr.path])
          (by simp [Ctr.flat])
      | some p =>
        have hp := hw.1 p rfl
        have hbit : Ctr.toNat (some p :: r) % 2 = 1 := by simp [Ctr.toNat]
        have hb : ((size >>> h) % 2 == 1) = true := by rw [hsz, hbit]; rfl
        have hcur : hf.branch (rootH hf p) (rootH hf tl) = rootH hf (p ++ tl) :=
          (rootH_split hf h p tl hp htl0 htl).symm
        have hs' : storeLoop hf height size f (h + 1) (Ctr.path hf r) (rootH hf (p ++ tl))
            (t0.saveNode (rootH hf (p ++ tl)) (h + 1, size >>> (h + 1))) = (t2, true) := by
          simp only [storeLoop, hb, if_true, Ctr.path, hcur] at hs
          split at hs
          · split at hs
            · cases hs
            · exact hs
          · exact hs
        have hn' : size >>> (h + 1) = Ctr.toNat r := by rw [hshift, Ctr.toNat_cons_div]
        have := ih r (h + 1) (p ++ tl) _ t2 hw.2 hn' (by simp; omega)
          (by simp [hp, Nat.pow_succ]; omega) hs' layer k
        rw [this]
        have hflat : Ctr.flat (some p :: r) ++ tl = Ctr.flat r ++ (p ++ tl) := by simp [Ctr.flat]
        rw [hflat, getHash_saveNode]
        by_cases hl : layer = h + 1
        · subst hl
          rw [if_neg (by omega)]
          by_cases hk : k = size >>> (h + 1)
          · rw [if_pos (by rw [hk]), if_pos ⟨by omega, by omega, by rw [Nat.add_sub_cancel, hsz, hbit], hk⟩]
            rw [hk, hn', blk_top _ _ _ _ (Ctr.length_flat hw.2) (by simp [hp, Nat.pow_succ]; omega)]
          · rw [if_neg (by intro e; exact hk (Prod.mk.inj e).2), if_neg (fun hh => hk hh.2.2.2)]
        · have hne : ¬ ((layer, k) = (h + 1, size >>> (h + 1))) := fun e => hl (Prod.mk.inj e).1
          rw [if_neg hne]
          by_cases hc : h < layer ∧ layer ≤ h + (f + 1) ∧ (size >>> (layer - 1)) % 2 = 1 ∧ k = size >>> layer
          · rw [if_pos hc, if_pos ⟨by omega, by omega, hc.2.2⟩]
          · rw [if_neg hc, if_neg]
            intro hh; exact hc ⟨by omega, by omega, hh.2.2⟩

theorem block_of_last {n layer k : Nat} (h1 : 1 ≤ layer) (h2 : (2 * k + 1) * 2 ^ (layer - 1) ≤ n)
    (h3 : n < (k + 1) * 2 ^ layer) : n / 2 ^ layer = k ∧ (n / 2 ^ (layer - 1)) % 2 = 1 := by
  have e := two_mul_pow_pred h1
  have hq : n / 2 ^ (layer - 1) = 2 * k + 1 := by
    apply Nat.div_eq_of_lt_le h2
    rw [← e] at h3
    have : (k + 1) * (2 * 2 ^ (layer - 1)) = (2 * k + 1 + 1) * 2 ^ (layer - 1) := by ring
    omega
  constructor
  · rw [← e, Nat.mul_comm, ← Nat.div_div_eq_div_mul, hq]; omega
  · rw [hq]; omega

theorem blk_append_left (l x : List Bytes) (layer k : Nat) (h : (k + 1) * 2 ^ layer ≤ l.length) :
    blk (l ++ x) layer k = blk l layer k := by
  unfold blk
  have h' : k * 2 ^ layer + 2 ^ layer ≤ l.length := by rw [Nat.add_mul, Nat.one_mul] at h; omega
  have hp : 0 < 2 ^ layer := Nat.pow_pos (by decide)
  rw [List.drop_append_of_le_length (by omega), List.take_append_of_le_length (by simp; omega)]

theorem rootH_nil (hf : HashFns) : rootH hf [] = hf.empty := by rw [rootH]

/-- one successful `Append`: (root, path, size) follow the counter and the store stays exact -/
theorem append_step (hf : HashFns) (t : Tree) (c : Ctr) (v : Bytes) (hw : Ctr.WF 0 c) (hc : Ctr.Canon c)
    (hcore : t.core = coreOf hf c) (hst : Stored hf t (Ctr.flat c)) (hok : (append hf t v).2 = true) :
    (append hf t v).1.core = coreOf hf (Ctr.inc [hf.leaf v] c) ∧
    Stored hf (append hf t v).1 (Ctr.flat c ++ [hf.leaf v]) := by
  have hac := appendCore_ctr hf c hw hc v
  rw [← hcore] at hac
  have hsize : t.core.size = Ctr.toNat c := by rw [hcore]; rfl
  have hpath : t.core.path = Ctr.path hf c := by rw [hcore]; rfl
  have hlen : (Ctr.flat c).length = Ctr.toNat c := by rw [Ctr.length_flat hw]; simp
  unfold append at hok ⊢
  by_cases hz : t.core.size = 0
  · simp only [hz, if_true, hac] at hok ⊢
    refine ⟨by first | trivial | rfl, ?_⟩
    have hnil : c = [] := Ctr.eq_nil_of_toNat_zero hc (by omega)
    subst hnil
    intro layer k hp
    simp only [Ctr.flat, List.nil_append, List.length_cons, List.length_nil] at hp ⊢
    rcases hp with ⟨h0, hk⟩ | ⟨h1, hk⟩
    · subst h0
      have : k = 0 := by omega
      subst this
      show (t.saveNode (hf.leaf v) (0, 0)).getHash (0, 0) = _
      rw [getHash_saveNode, if_pos rfl]
      have e : blk [hf.leaf v] 0 0 = [hf.leaf v] := rfl
      rw [e, rootH_singleton]
    · exfalso
      have : 0 < 2 ^ (layer - 1) := Nat.pow_pos (by decide)
      have : 2 ^ (layer - 1) ≤ (2 * k + 1) * 2 ^ (layer - 1) := Nat.le_mul_of_pos_left _ (by omega)
      omega
  · simp only [hz, if_false, hac] at hok ⊢
    cases hsl : storeLoop hf (getHeight t.core.size) t.core.size (getHeight t.core.size) 0 t.core.path
        (hf.leaf v) (t.saveNode (hf.leaf v) (0, t.core.size)) with
    | mk t2 b =>
      rw [hsl] at hok
      cases b with
      | false => simp at hok
      | true =>
        simp only
        refine ⟨by first | trivial | rfl, ?_⟩
        rw [hpath, ← rootH_singleton hf (hf.leaf v)] at hsl
        have hall := storeLoop_ctr hf _ _ _ c 0 [hf.leaf v] _ t2 hw (by rw [hsize]; rfl) (by simp) (by simp) hsl
        rw [rootH_singleton] at hall
        intro layer k hp
        show t2.getHash (layer, k) = _
        rw [hall layer k]
        have hn : (Ctr.flat c ++ [hf.leaf v]).length = t.core.size + 1 := by simp [hlen, hsize]
        rw [hn] at hp
        split
        · rfl
        · rename_i hcond
          rw [getHash_saveNode]
          by_cases hloc : (layer, k) = (0, t.core.size)
          · rw [if_pos hloc]
            obtain ⟨e1, e2⟩ := Prod.mk.inj hloc
            subst e1; subst e2
            rw [blk_top _ _ _ _ (by simp [hlen, hsize]) (by simp), rootH_singleton]
          · rw [if_neg hloc]
            have hfull : (k + 1) * 2 ^ layer ≤ t.core.size := by
              rcases hp with ⟨h0, hk⟩ | ⟨h1, hk⟩
              · subst h0
                have : k ≠ t.core.size := fun e => hloc (by rw [e])
                simp; omega
              · rcases Nat.lt_or_ge t.core.size ((k + 1) * 2 ^ layer) with hlt | hge
                · exfalso
                  obtain ⟨b1, b2⟩ := block_of_last h1 (by omega) hlt
                  apply hcond
                  refine ⟨by omega, ?_, ?_, ?_⟩
                  · have h3 := lt_two_pow_getHeight t.core.size (by omega)
                    have h4 : 2 ^ (layer - 1) ≤ (2 * k + 1) * 2 ^ (layer - 1) := Nat.le_mul_of_pos_left _ (by omega)
                    have : 2 ^ (layer - 1) < 2 ^ getHeight t.core.size := by omega
                    have := (Nat.pow_lt_pow_iff_right (a := 2) (by decide)).1 this
                    omega
                  · rw [Nat.shiftRight_eq_div_pow]; exact b2
                  · rw [Nat.shiftRight_eq_div_pow]; exact b1.symm
                · exact hge
            rw [blk_append_left _ _ _ _ (by rw [hlen, ← hsize]; exact hfull)]
            apply hst
            rw [hlen, ← hsize]
            rcases hp with ⟨h0, hk⟩ | ⟨h1, hk⟩
            · left; subst h0; simp at hfull; exact ⟨rfl, by omega⟩
            · right
              refine ⟨h1, ?_⟩
              have e := two_mul_pow_pred h1
              have : (k + 1) * (2 * 2 ^ (layer - 1)) = (2 * k + 1) * 2 ^ (layer - 1) + 2 ^ (layer - 1) := by ring
              have : 0 < 2 ^ (layer - 1) := Nat.pow_pos (by decide)
              rw [← e] at hfull
              omega

/-! ### the right witness -/

/-- the right witness of the first `inc` leaves, from `layer` on (`inc` is a multiple of `2^layer`):
the sibling blocks to the right, bottom-up -/
def witSpec (hf : HashFns) (L : List Bytes) : Nat → Nat → Nat → List Bytes
  | 0, _, _ => []
  | f + 1, layer, inc =>
    if L.length ≤ inc then []
    else if (inc / 2 ^ layer) % 2 = 0 then witSpec hf L f (layer + 1) inc
    else rootH hf (blk L layer (inc / 2 ^ layer)) :: witSpec hf L f (layer + 1) (inc + 2 ^ layer)

theorem witSpec_ge (hf : HashFns) (L : List Bytes) (f layer inc : Nat) (h : L.length ≤ inc) :
    witSpec hf L f layer inc = [] := by
  cases f with
  | zero => rfl
  | succ f => simp only [witSpec, if_pos h]

theorem dvd_step_even {layer inc : Nat} (h : 2 ^ layer ∣ inc) (hb : (inc / 2 ^ layer) % 2 = 0) :
    2 ^ (layer + 1) ∣ inc := by
  obtain ⟨q, rfl⟩ := h
  rw [Nat.mul_div_cancel_left _ (Nat.pow_pos (by decide))] at hb
  exact ⟨q / 2, by rw [Nat.pow_succ, Nat.mul_assoc]; congr 1; omega⟩

theorem dvd_step_odd {layer inc : Nat} (h : 2 ^ layer ∣ inc) (hb : ¬ (inc / 2 ^ layer) % 2 = 0) :
    2 ^ (layer + 1) ∣ inc + 2 ^ layer := by
  obtain ⟨q, rfl⟩ := h
  rw [Nat.mul_div_cancel_left _ (Nat.pow_pos (by decide))] at hb
  refine ⟨(q + 1) / 2, ?_⟩
  rw [Nat.pow_succ, Nat.mul_assoc]
  have : 2 * ((q + 1) / 2) = q + 1 := by omega
  rw [this]; ring

theorem le_of_dvd_pow {layer inc : Nat} (h : 2 ^ layer ∣ inc) (h0 : 0 < inc) : 2 ^ layer ≤ inc :=
  Nat.le_of_dvd h0 h

/-- the fuel does not matter once it covers the height -/
theorem witSpec_fuel (hf : HashFns) (L : List Bytes) : ∀ (f f' layer inc : Nat), 2 ^ layer ∣ inc → 0 < inc →
    L.length ≤ 2 ^ (layer + f) → L.length ≤ 2 ^ (layer + f') →
    witSpec hf L f layer inc = witSpec hf L f' layer inc := by
  intro f
  induction f with
  | zero =>
    intro f' layer inc hd h0 h1 _
    have := le_of_dvd_pow hd h0
    have hge : L.length ≤ inc := by simpa using Nat.le_trans h1 this
    rw [witSpec_ge hf L 0 _ _ hge, witSpec_ge hf L f' _ _ hge]
  | succ f ih =>
    intro f' layer inc hd h0 h1 h2
    cases f' with
    | zero =>
      have := le_of_dvd_pow hd h0
      have hge : L.length ≤ inc := by simpa using Nat.le_trans h2 this
      rw [witSpec_ge hf L 0 _ _ hge, witSpec_ge hf L (f + 1) _ _ hge]
    | succ f' =>
      simp only [witSpec]
      have e1 : layer + (f + 1) = layer + 1 + f := by omega
      have e2 : layer + (f' + 1) = layer + 1 + f' := by omega
      rw [e1] at h1; rw [e2] at h2
      by_cases hge : L.length ≤ inc
      · rw [if_pos hge, if_pos hge]
      · rw [if_neg hge, if_neg hge]
        by_cases hb : (inc / 2 ^ layer) % 2 = 0
        · rw [if_pos hb, if_pos hb]
          exact ih f' (layer + 1) inc (dvd_step_even hd hb) h0 h1 h2
        · rw [if_neg hb, if_neg hb]
          rw [ih f' (layer + 1) (inc + 2 ^ layer) (dvd_step_odd hd hb) (by omega) h1 h2]

/-- at most one entry per layer below `B` when there are at most `2^B` leaves -/
theorem witSpec_length (hf : HashFns) (L : List Bytes) (B : Nat) (hB : L.length ≤ 2 ^ B) :
    ∀ (f layer inc : Nat), 2 ^ layer ∣ inc → 0 < inc → (witSpec hf L f layer inc).length ≤ B - layer := by
  intro f
  induction f with
  | zero => intro layer inc _ _; simp [witSpec]
  | succ f ih =>
    intro layer inc hd h0
    simp only [witSpec]
    by_cases hge : L.length ≤ inc
    · rw [if_pos hge]; simp
    · rw [if_neg hge]
      have h1 := le_of_dvd_pow hd h0
      have hlB : layer < B := by
        have : 2 ^ layer < 2 ^ B := by omega
        exact (Nat.pow_lt_pow_iff_right (a := 2) (by decide)).1 this
      by_cases hb : (inc / 2 ^ layer) % 2 = 0
      · rw [if_pos hb]
        have := ih (layer + 1) inc (dvd_step_even hd hb) h0
        omega
      · rw [if_neg hb]
        have := ih (layer + 1) (inc + 2 ^ layer) (dvd_step_odd hd hb) (by omega)
        simp only [List.length_cons]
        omega

/-- layers at which the bit is clear are skipped -/
theorem witSpec_skip (hf : HashFns) (L : List Bytes) : ∀ (d f layer inc : Nat), 2 ^ (layer + d) ∣ inc → 0 < inc →
    witSpec hf L (d + f) layer inc = witSpec hf L f (layer + d) inc := by
  intro d
  induction d with
  | zero => intro f layer inc _ _; simp
  | succ d ih =>
    intro f layer inc hd h0
    rw [show d + 1 + f = (d + f) + 1 by omega]
    simp only [witSpec]
    by_cases hge : L.length ≤ inc
    · rw [if_pos hge, witSpec_ge hf L _ _ _ hge]
    · rw [if_neg hge]
      have hb : (inc / 2 ^ layer) % 2 = 0 := by
        obtain ⟨q, rfl⟩ := hd
        rw [show layer + (d + 1) = layer + 1 + d by omega, Nat.pow_add, Nat.pow_succ, Nat.mul_assoc, Nat.mul_assoc,
          Nat.mul_div_cancel_left _ (Nat.pow_pos (by decide))]
        omega
      rw [if_pos hb, ih f (layer + 1) inc (by rw [show layer + 1 + d = layer + (d + 1) by omega]; exact hd) h0]
      rw [show layer + 1 + d = layer + (d + 1) by omega]

theorem div_of_between {x q P : Nat} (h1 : (q - 1) * P ≤ x) (h2 : x < q * P) (hq : 1 ≤ q) : x / P = q - 1 := by
  apply Nat.div_eq_of_lt_le h1
  rw [show q - 1 + 1 = q by omega]; exact h2

/-- `GenerateRightWitness` reads the sibling blocks from the store -/
theorem witnessLoop_spec (hf : HashFns) (t : Tree) (L : List Bytes) (hst : Stored hf t L) (i : Nat) (hi : 0 < i) :
    ∀ (f layer inc : Nat) (acc : List Bytes), 2 ^ layer ∣ inc → inc < i + 2 ^ layer → i ≤ inc →
      witnessLoop t (layerStructure L.length) L.length (i - 1) f layer inc acc
        = some (acc ++ witSpec hf L f layer inc) := by
  intro f
  induction f with
  | zero => intro layer inc acc _ _ _; simp [witnessLoop, witSpec]
  | succ f ih =>
    intro layer inc acc hd h1 h2
    have hp : 0 < 2 ^ layer := Nat.pow_pos (by decide)
    simp only [witnessLoop, witSpec, Nat.shiftRight_eq_div_pow]
    by_cases hb : (inc / 2 ^ layer) % 2 = 0
    · have hb' : ((inc / 2 ^ layer) % 2 == 0) = true := by simpa using hb
      rw [if_pos hb', ih (layer + 1) inc acc (dvd_step_even hd hb) (by rw [Nat.pow_succ]; omega) h2]
      by_cases hge : L.length ≤ inc
      · rw [if_pos hge, witSpec_ge hf L _ _ _ hge]
      · rw [if_neg hge, if_pos hb]
    · have hb' : ¬ (((inc / 2 ^ layer) % 2 == 0) = true) := by simpa using hb
      rw [if_neg hb']
      -- the node of the last leaf is the left sibling of the block that starts at `inc`
      obtain ⟨q, rfl⟩ := hd
      rw [Nat.mul_div_cancel_left _ hp] at hb ⊢
      have hq : 1 ≤ q := by omega
      have hnode : (i - 1) / 2 ^ layer = q - 1 := by
        apply div_of_between _ _ hq
        · have : (q - 1) * 2 ^ layer + 2 ^ layer = 2 ^ layer * q := by
            rw [← Nat.succ_mul]; rw [show (q - 1).succ = q by omega, Nat.mul_comm]
          omega
        · rw [Nat.mul_comm]; omega
      have hsib : sibOf ((i - 1) / 2 ^ layer) = q := by rw [hnode]; unfold sibOf; split <;> omega
      by_cases hge : L.length ≤ 2 ^ layer * q
      · rw [if_pos hge, rsi_none _ _ _ (by rw [hsib, Nat.mul_comm]; exact hge)]
        simp
      · rw [if_neg hge, if_neg hb]
        obtain ⟨l', _, hr, hpr, hblk⟩ := rsi_some L ((i - 1) / 2 ^ layer) layer (by rw [hsib, Nat.mul_comm]; omega)
        rw [hr]
        simp only
        rw [hst _ _ hpr, hblk, hsib]
        simp only
        rw [ih (layer + 1) _ _ (dvd_step_odd ⟨q, rfl⟩ (by rw [Nat.mul_div_cancel_left _ hp]; exact hb))
          (by rw [Nat.pow_succ]; omega) (by omega)]
        simp

/-! ### `CalculateRootFromRightWitness`: the loop, step by step -/

theorem rwLoop_done (hf : HashFns) (i f layer inc : Nat) (init : Bool) (cur : Bytes) :
    rwLoop hf i f layer inc init [] [] cur = some cur := by
  cases f <;> simp [rwLoop]

/-- nothing to merge at this layer -/
theorem rwLoop_idle (hf : HashFns) (i f layer inc : Nat) (init : Bool) (ap rw : List Bytes) (cur : Bytes)
    (h1 : ap = [] ∨ (i / 2 ^ layer) % 2 = 0) (h2 : rw = [] ∨ (inc / 2 ^ layer) % 2 = 0) :
    rwLoop hf i (f + 1) layer inc init ap rw cur = rwLoop hf i f (layer + 1) inc init ap rw cur := by
  by_cases he : ap = [] ∧ rw = []
  · obtain ⟨rfl, rfl⟩ := he
    rw [rwLoop_done, rwLoop_done]
  · have hemp : (ap.isEmpty && rw.isEmpty) = false := by
      cases ap <;> cases rw <;> simp at he ⊢
    have c1 : (!ap.isEmpty && (i / 2 ^ layer) % 2 == 1) = false := by
      rcases h1 with h | h
      · subst h; simp
      · simp [h]
    have c2 : (!rw.isEmpty && (inc / 2 ^ layer) % 2 == 1) = false := by
      rcases h2 with h | h
      · subst h; simp
      · simp [h]
    simp only [rwLoop, hemp, Nat.shiftRight_eq_div_pow, c1, c2, Bool.false_eq_true, if_false]

theorem rwLoop_left (hf : HashFns) (i f layer inc : Nat) (a : Bytes) (ap rw : List Bytes) (cur : Bytes)
    (h1 : (i / 2 ^ layer) % 2 = 1) (h2 : rw = [] ∨ (inc / 2 ^ layer) % 2 = 0) :
    rwLoop hf i (f + 1) layer inc true (a :: ap) rw cur = rwLoop hf i f (layer + 1) inc true ap rw (hf.branch a cur) := by
  have c2 : (!rw.isEmpty && (inc / 2 ^ layer) % 2 == 1) = false := by
    rcases h2 with h | h
    · subst h; simp
    · simp [h]
  simp [rwLoop, Nat.shiftRight_eq_div_pow, h1, c2]

theorem rwLoop_right (hf : HashFns) (i f layer inc : Nat) (init : Bool) (w : Bytes) (ap rw : List Bytes) (cur : Bytes)
    (h1 : ap = [] ∨ (i / 2 ^ layer) % 2 = 0) (h2 : (inc / 2 ^ layer) % 2 = 1) :
    rwLoop hf i (f + 1) layer inc init ap (w :: rw) cur
      = rwLoop hf i f (layer + 1) ((inc + 2 ^ layer) % 2 ^ 64) init ap rw (hf.branch cur w) := by
  have c1 : (!ap.isEmpty && (i / 2 ^ layer) % 2 == 1) = false := by
    rcases h1 with h | h
    · subst h; simp
    · simp [h]
  simp [rwLoop, Nat.shiftRight_eq_div_pow, c1, h2]

theorem rwLoop_init (hf : HashFns) (i f layer inc inc' : Nat) (a : Bytes) (ap rw : List Bytes) (cur : Bytes)
    (h1 : (i / 2 ^ layer) % 2 = 1) (hinc : (inc + 2 ^ layer) % 2 ^ 64 = inc')
    (h2 : rw = [] ∨ (inc' / 2 ^ layer) % 2 = 0) :
    rwLoop hf i (f + 1) layer inc false (a :: ap) rw cur
      = rwLoop hf i f (layer + 1) inc' true (a :: ap) rw cur := by
  have c2 : (!rw.isEmpty && (inc' / 2 ^ layer) % 2 == 1) = false := by
    rcases h2 with h | h
    · subst h; simp
    · simp [h]
  have c1 : (!(a :: ap).isEmpty && (i / 2 ^ layer) % 2 == 1) = true := by simp [h1]
  have c0 : ((a :: ap).isEmpty && rw.isEmpty) = false := by simp
  rw [rwLoop]
  simp only [c0, Nat.shiftRight_eq_div_pow, c1, Bool.false_eq_true, if_false, if_true, Bool.not_false, hinc, c2]

theorem rwLoop_right' (hf : HashFns) (i f layer inc inc' : Nat) (init : Bool) (w : Bytes) (ap rw : List Bytes) (cur : Bytes)
    (h1 : ap = [] ∨ (i / 2 ^ layer) % 2 = 0) (h2 : (inc / 2 ^ layer) % 2 = 1) (hinc : (inc + 2 ^ layer) % 2 ^ 64 = inc') :
    rwLoop hf i (f + 1) layer inc init ap (w :: rw) cur
      = rwLoop hf i f (layer + 1) inc' init ap rw (hf.branch cur w) := by
  rw [rwLoop_right hf i f layer inc init w ap rw cur h1 h2, hinc]

/-- layers below the lowest set bit of the split point are skipped -/
theorem rwLoop_skip (hf : HashFns) (i : Nat) (ap rw : List Bytes) (cur : Bytes) : ∀ (d f layer : Nat),
    2 ^ (layer + d) ∣ i →
    rwLoop hf i (d + f) layer i false ap rw cur = rwLoop hf i f (layer + d) i false ap rw cur := by
  intro d
  induction d with
  | zero => intro f layer _; simp
  | succ d ih =>
    intro f layer hd
    have hb : (i / 2 ^ layer) % 2 = 0 := by
      obtain ⟨q, rfl⟩ := hd
      rw [show layer + (d + 1) = layer + 1 + d by omega, Nat.pow_add, Nat.pow_succ, Nat.mul_assoc, Nat.mul_assoc,
        Nat.mul_div_cancel_left _ (Nat.pow_pos (by decide))]
      omega
    rw [show d + 1 + f = (d + f) + 1 by omega, rwLoop_idle hf i _ layer i false ap rw cur (Or.inr hb) (Or.inr hb)]
    rw [ih f (layer + 1) (by rw [show layer + 1 + d = layer + (d + 1) by omega]; exact hd)]
    rw [show layer + 1 + d = layer + (d + 1) by omega]

theorem pow_div_self_mod (layer : Nat) : (2 ^ layer / 2 ^ layer) % 2 = 1 := by
  rw [Nat.div_self (Nat.pow_pos (by decide))]

/-- once the append path is used up, the remaining witness hashes are merged one per layer -/
theorem rwLoop_tail (hf : HashFns) (i : Nat) (init : Bool) : ∀ (rw : List Bytes) (f layer : Nat) (cur : Bytes),
    rw.length ≤ f → layer + rw.length ≤ 63 →
    rwLoop hf i f layer (2 ^ layer) init [] rw cur = some (rw.foldl hf.branch cur) := by
  intro rw
  induction rw with
  | nil => intro f layer cur _ _; rw [rwLoop_done]; rfl
  | cons w rw ih =>
    intro f layer cur hf' hl
    simp only [List.length_cons] at hf' hl
    obtain ⟨f', rfl⟩ : ∃ f', f = f' + 1 := ⟨f - 1, by omega⟩
    have hlt : 2 ^ (layer + 1) < 2 ^ 64 := Nat.pow_lt_pow_right (by decide) (by omega)
    rw [rwLoop_right' hf i f' layer (2 ^ layer) (2 ^ (layer + 1)) init w [] rw cur (Or.inl rfl) (pow_div_self_mod layer)
      (by rw [show 2 ^ layer + 2 ^ layer = 2 ^ (layer + 1) by rw [Nat.pow_succ]; omega]; exact Nat.mod_eq_of_lt hlt)]
    rw [ih f' (layer + 1) _ (by omega) (by omega)]
    rfl

/-- without witness hashes left, the rest of the append path is folded in -/
theorem rwLoop_ap (hf : HashFns) (i inc : Nat) : ∀ (c : Ctr) (f layer : Nat) (cur : Bytes),
    i / 2 ^ layer = Ctr.toNat c → c.length ≤ f →
    rwLoop hf i f layer inc true (Ctr.path hf c) [] cur = some (foldPath hf cur (Ctr.path hf c)) := by
  intro c
  induction c with
  | nil => intro f layer cur _ _; simp only [Ctr.path]; rw [rwLoop_done]; rfl
  | cons o r ih =>
    intro f layer cur hi hlen
    simp only [List.length_cons] at hlen
    obtain ⟨f', rfl⟩ : ∃ f', f = f' + 1 := ⟨f - 1, by omega⟩
    have hnext : i / 2 ^ (layer + 1) = Ctr.toNat r := by
      rw [Nat.pow_succ, ← Nat.div_div_eq_div_mul, hi, Ctr.toNat_cons_div]
    cases o with
    | none =>
      have hb : (i / 2 ^ layer) % 2 = 0 := by rw [hi]; simp [Ctr.toNat]
      simp only [Ctr.path]
      rw [rwLoop_idle hf i f' layer inc true _ [] cur (Or.inr hb) (Or.inl rfl)]
      exact ih f' (layer + 1) cur hnext (by omega)
    | some p =>
      have hb : (i / 2 ^ layer) % 2 = 1 := by rw [hi]; simp [Ctr.toNat]
      simp only [Ctr.path]
      rw [rwLoop_left hf i f' layer inc _ _ [] cur hb (Or.inl rfl)]
      rw [ih f' (layer + 1) _ hnext (by omega)]
      simp [foldPath]

/-- merging the witness of a perfect prefix from the left gives the root -/
theorem fold_wit (hf : HashFns) (L : List Bytes) : ∀ (F a : Nat), L.length ≤ 2 ^ (a + F) →
    (witSpec hf L F a (2 ^ a)).foldl hf.branch (rootH hf (L.take (2 ^ a))) = rootH hf L := by
  intro F
  induction F with
  | zero =>
    intro a h
    simp only [witSpec, List.foldl_nil]
    rw [List.take_of_length_le (by simpa using h)]
  | succ F ih =>
    intro a h
    simp only [witSpec]
    by_cases hge : L.length ≤ 2 ^ a
    · rw [if_pos hge, List.take_of_length_le hge]; rfl
    · rw [if_neg hge, if_neg (by rw [pow_div_self_mod]; omega)]
      simp only [List.foldl_cons]
      have hp : 0 < 2 ^ a := Nat.pow_pos (by decide)
      have hblk : blk L a (2 ^ a / 2 ^ a) = (L.drop (2 ^ a)).take (2 ^ a) := by
        rw [Nat.div_self hp]; simp [blk]
      rw [hblk, ← rootH_split hf a _ _ (by simp; omega) (by simp; omega) (by simp)]
      rw [← List.take_add, show 2 ^ a + 2 ^ a = 2 ^ (a + 1) by rw [Nat.pow_succ]; omega]
      exact ih (a + 1) (by rw [show a + 1 + F = a + (F + 1) by omega]; exact h)

theorem Ctr.path_nil (hf : HashFns) {c : Ctr} (h : Ctr.path hf c = []) : Ctr.toNat c = 0 ∧ Ctr.flat c = [] := by
  induction c with
  | nil => simp [Ctr.toNat, Ctr.flat]
  | cons o r ih =>
    cases o with
    | none =>
      simp only [Ctr.path] at h
      obtain ⟨h1, h2⟩ := ih h
      simp [Ctr.toNat, Ctr.flat, h1, h2]
    | some p => simp [Ctr.path] at h

theorem succ_mul_pow_div (x layer : Nat) : (x * 2 ^ layer + 2 ^ layer) / 2 ^ layer = x + 1 := by
  have hp : 0 < 2 ^ layer := Nat.pow_pos (by decide)
  rw [show x * 2 ^ layer + 2 ^ layer = (x + 1) * 2 ^ layer by ring, Nat.mul_div_cancel _ hp]

/-- the main phase of `CalculateRootFromRightWitness`: `cur` is the root of the leaves `mid` between the
consumed part of the append path (`flat c`) and the consumed part of the witness -/
theorem rwLoop_main (hf : HashFns) (L : List Bytes) (i : Nat) (hn : L.length ≤ 2 ^ 63) :
    ∀ (f : Nat) (c : Ctr) (layer F : Nat) (mid post : List Bytes),
      Ctr.WF layer c → i / 2 ^ layer = Ctr.toNat c → L = Ctr.flat c ++ (mid ++ post) → 0 < mid.length →
      mid.length ≤ 2 ^ layer → (mid.length = 2 ^ layer ∨ post = []) → layer + f = 64 → c.length ≤ f →
      L.length ≤ 2 ^ (layer + F) →
      rwLoop hf i f layer ((Ctr.flat c).length + 2 ^ layer) true (Ctr.path hf c)
        (witSpec hf L F layer ((Ctr.flat c).length + 2 ^ layer)) (rootH hf mid) = some (rootH hf L) := by
  intro f
  induction f with
  | zero =>
    intro c layer F mid post hw hi hL hm0 hm1 hm2 hlf hcl hF
    have : c = [] := List.eq_nil_of_length_eq_zero (by omega)
    subst this
    simp only [Ctr.flat, Ctr.path, List.length_nil, Nat.zero_add]
    have hp : 0 < 2 ^ layer := Nat.pow_pos (by decide)
    have h64 : 2 ^ 63 < 2 ^ layer := Nat.pow_lt_pow_right (by decide) (by omega)
    simp only [Ctr.flat, List.nil_append] at hL
    have hLlen : L.length = mid.length + post.length := by rw [hL]; simp
    rw [witSpec_ge hf L _ _ _ (by omega), rwLoop_done]
    have : post = [] := by
      rcases hm2 with h | h
      · omega
      · exact h
    rw [hL, this]; simp
  | succ f ih =>
    intro c layer F mid post hw hi hL hm0 hm1 hm2 hlf hcl hF
    have hp : 0 < 2 ^ layer := Nat.pow_pos (by decide)
    have hfl := Ctr.length_flat hw
    have hLlen : L.length = (Ctr.flat c).length + mid.length + post.length := by rw [hL]; simp; omega
    have hdvd : 2 ^ layer ∣ (Ctr.flat c).length + 2 ^ layer := by
      rw [hfl]; exact ⟨Ctr.toNat c + 1, by ring⟩
    have hincdiv : ((Ctr.flat c).length + 2 ^ layer) / 2 ^ layer = Ctr.toNat c + 1 := by
      rw [hfl]; exact succ_mul_pow_div _ _
    by_cases hge : L.length ≤ (Ctr.flat c).length + 2 ^ layer
    · -- the witness is used up
      rw [witSpec_ge hf L _ _ _ hge, rwLoop_ap hf i _ c (f + 1) layer _ hi hcl,
        foldPath_ctr hf c layer mid hw hm0 hm1]
      have : post = [] := by
        rcases hm2 with h | h
        · exact List.eq_nil_of_length_eq_zero (by omega)
        · exact h
      rw [hL, this]; simp
    · have hmfull : mid.length = 2 ^ layer := by
        rcases hm2 with h | h
        · exact h
        · subst h; simp at hLlen; omega
      have hpost : 0 < post.length := by omega
      by_cases hpath : Ctr.path hf c = []
      · -- the append path is used up
        obtain ⟨h1, h2⟩ := Ctr.path_nil hf hpath
        rw [hpath, h2]
        simp only [List.length_nil, Nat.zero_add]
        rw [h2] at hL hLlen hge
        simp only [List.nil_append, List.length_nil, Nat.zero_add] at hL hLlen hge
        have hl63 : layer < 63 := by
          have : 2 ^ layer < 2 ^ 63 := by omega
          exact (Nat.pow_lt_pow_iff_right (a := 2) (by decide)).1 this
        have hlen := witSpec_length hf L 63 hn F layer (2 ^ layer) (Nat.dvd_refl _) hp
        rw [rwLoop_tail hf i true _ (f + 1) layer _ (by omega) (by omega)]
        have : mid = L.take (2 ^ layer) := by rw [hL, ← hmfull]; simp
        rw [this, fold_wit hf L F layer hF]
      · -- one step
        have hfuel := witSpec_fuel hf L F (F + 1) layer _ hdvd (by omega) hF
          (Nat.le_trans hF (Nat.pow_le_pow_right (by decide) (by omega)))
        rw [hfuel]
        simp only [witSpec]
        rw [if_neg hge, hincdiv]
        have hF' : L.length ≤ 2 ^ (layer + 1 + F) := by
          rw [show layer + 1 + F = layer + (F + 1) by omega]
          exact Nat.le_trans hF (Nat.pow_le_pow_right (by decide) (by omega))
        cases c with
        | nil => simp [Ctr.path] at hpath
        | cons o r =>
          have hnext : i / 2 ^ (layer + 1) = Ctr.toNat r := by
            rw [Nat.pow_succ, ← Nat.div_div_eq_div_mul, hi, Ctr.toNat_cons_div]
          simp only [List.length_cons] at hcl
          have hflr := Ctr.length_flat hw.2
          cases o with
          | none =>
            have hev : Ctr.toNat (none :: r) % 2 = 0 := by simp [Ctr.toNat]
            have hbi : (i / 2 ^ layer) % 2 = 0 := by rw [hi]; exact hev
            rw [if_neg (by omega)]
            have hflat : Ctr.flat (none :: r) = Ctr.flat r := by simp [Ctr.flat]
            simp only [Ctr.path]
            rw [hflat] at hL hLlen hge hincdiv hfl ⊢
            have hlt64 : (Ctr.flat r).length + 2 ^ layer + 2 ^ layer < 2 ^ 64 := by
              have : (2:Nat) ^ 64 = 2 ^ 63 + 2 ^ 63 := by decide
              omega
            rw [rwLoop_right' hf i f layer _ _ true _ _ _ _ (Or.inr hbi) (by rw [hincdiv]; omega)
              (Nat.mod_eq_of_lt hlt64)]
            -- the block is the next `2^layer` leaves of `post`
            have hblk : blk L layer (Ctr.toNat (none :: r) + 1) = post.take (2 ^ layer) := by
              unfold blk
              have : (Ctr.toNat (none :: r) + 1) * 2 ^ layer = (Ctr.flat r ++ mid).length := by
                rw [List.length_append, hfl, hmfull]; ring
              rw [this, hL, ← List.append_assoc, List.drop_left]
            rw [hblk, ← rootH_split hf layer mid _ hmfull (by simp; omega) (by simp)]
            have hinc' : (Ctr.flat r).length + 2 ^ layer + 2 ^ layer = (Ctr.flat r).length + 2 ^ (layer + 1) := by
              rw [Nat.pow_succ]; omega
            rw [hinc']
            refine ih r (layer + 1) F (mid ++ post.take (2 ^ layer)) (post.drop (2 ^ layer)) hw.2 hnext ?_ ?_ ?_ ?_
              (by omega) (by omega) hF'
            · rw [hL]; simp
            · simp; omega
            · simp [hmfull, Nat.pow_succ]; omega
            · by_cases hq : 2 ^ layer ≤ post.length
              · left; simp [hmfull, Nat.pow_succ, Nat.min_eq_left hq]; omega
              · right; simp; omega
          | some p =>
            have hpl := hw.1 p rfl
            have hod : Ctr.toNat (some p :: r) % 2 = 1 := by simp [Ctr.toNat]
            have hbi : (i / 2 ^ layer) % 2 = 1 := by rw [hi]; exact hod
            rw [if_pos (by omega)]
            simp only [Ctr.path]
            rw [rwLoop_left hf i f layer _ _ _ _ _ hbi (Or.inr (by rw [hincdiv]; omega))]
            rw [← rootH_split hf layer p mid hpl hm0 hm1]
            have hflat : Ctr.flat (some p :: r) = Ctr.flat r ++ p := by simp [Ctr.flat]
            have hinc' : (Ctr.flat (some p :: r)).length + 2 ^ layer = (Ctr.flat r).length + 2 ^ (layer + 1) := by
              rw [hflat, List.length_append, hpl, Nat.pow_succ]; omega
            rw [hinc']
            refine ih r (layer + 1) F (p ++ mid) post hw.2 hnext ?_ ?_ ?_ ?_ (by omega) (by omega) hF'
            · rw [hL, hflat]; simp
            · simp; omega
            · simp [hpl, Nat.pow_succ]; omega
            · rcases hm2 with h | h
              · left; simp [hpl, h, Nat.pow_succ]; omega
              · right; exact h

theorem Ctr.exists_lowbit {c : Ctr} (h : Ctr.toNat c ≠ 0) :
    ∃ j p r, c = List.replicate j none ++ some p :: r := by
  induction c with
  | nil => simp [Ctr.toNat] at h
  | cons o r ih =>
    cases o with
    | none =>
      have : Ctr.toNat r ≠ 0 := by intro e; simp [Ctr.toNat, e] at h
      obtain ⟨j, p, r', e⟩ := ih this
      exact ⟨j + 1, p, r', by rw [e]; simp [List.replicate_succ]⟩
    | some p => exact ⟨0, p, r, by simp⟩

theorem Ctr.lowbit_props (hf : HashFns) : ∀ (j k : Nat) (p : List Bytes) (r : Ctr),
    Ctr.WF k (List.replicate j none ++ some p :: r) →
    p.length = 2 ^ (k + j) ∧ Ctr.WF (k + j + 1) r ∧
    Ctr.flat (List.replicate j none ++ some p :: r) = Ctr.flat r ++ p ∧
    Ctr.path hf (List.replicate j none ++ some p :: r) = rootH hf p :: Ctr.path hf r ∧
    Ctr.toNat (List.replicate j none ++ some p :: r) = 2 ^ j + Ctr.toNat r * 2 ^ (j + 1) ∧
    (List.replicate j none ++ some p :: r).length = j + 1 + r.length := by
  intro j
  induction j with
  | zero =>
    intro k p r hw
    simp only [List.replicate_zero, List.nil_append] at hw ⊢
    refine ⟨hw.1 p rfl, hw.2, by simp [Ctr.flat], by simp [Ctr.path], ?_, by simp; omega⟩
    simp [Ctr.toNat]; omega
  | succ j ih =>
    intro k p r hw
    simp only [List.replicate_succ, List.cons_append] at hw ⊢
    obtain ⟨h1, h2, h3, h4, h5, h6⟩ := ih (k + 1) p r hw.2
    refine ⟨by rw [h1]; congr 1; omega, by rw [show k + (j + 1) + 1 = k + 1 + j + 1 by omega]; exact h2, ?_, ?_, ?_, ?_⟩
    · simp [Ctr.flat, h3]
    · simp [Ctr.path, h4]
    · simp only [Ctr.toNat, h5]; simp [Nat.pow_succ]; ring
    · simp only [List.length_cons, h6]; omega


theorem peaks_nil (hf : HashFns) : peaks hf [] = [] := by unfold peaks; rw [peaksDesc]; rfl

theorem rootFromRightWitness_nil_right (hf : HashFns) (i : Nat) (ap : List Bytes) :
    rootFromRightWitness hf i ap [] = some (rootFromPath hf ap) := by
  cases ap <;> simp [rootFromRightWitness]

/-- the right witness generated from an exact store, together with the append path of the first `i`
leaves, reconstructs the root -/
theorem rightWitness_correct (hf : HashFns) (t : Tree) (L : List Bytes) (hst : Stored hf t L)
    (hsize : t.core.size = L.length) (hpath : t.core.path = peaks hf L) (hn : L.length ≤ 2 ^ 63)
    (i : Nat) (hi : i ≤ L.length) :
    ∃ w, genWitness t i = some w ∧
      rootFromRightWitness hf i (peaks hf (L.take i)) w = some (rootH hf L) := by
  unfold genWitness
  rw [hsize, if_neg (by omega)]
  by_cases hz : L.length = 0
  · rw [if_pos hz]
    have : L = [] := List.eq_nil_of_length_eq_zero hz
    subst this
    refine ⟨[], rfl, ?_⟩
    simp [peaks_nil, rootFromRightWitness, rootFromPath, rootH_nil]
  rw [if_neg hz]
  by_cases hi0 : i = 0
  · subst hi0
    rw [if_pos rfl, hpath]
    refine ⟨_, rfl, ?_⟩
    simp [peaks_nil, rootFromRightWitness, rootFromPath_peaks]
  rw [if_neg hi0]
  have hH : L.length ≤ 2 ^ getHeight L.length := Nat.le_of_lt (lt_two_pow_getHeight _ (by omega))
  generalize getHeight L.length = H at hH
  rw [witnessLoop_spec hf t L hst i (by omega) H 0 i [] (by simp) (by simp) (Nat.le_refl _)]
  refine ⟨_, rfl, ?_⟩
  simp only [List.nil_append]
  by_cases hin : L.length ≤ i
  · rw [witSpec_ge hf L _ _ _ hin, rootFromRightWitness_nil_right, rootFromPath_peaks,
      List.take_of_length_le hin]
  -- the counter of the first `i` leaves
  obtain ⟨c0, hw0, hc0, hfl0, hto0⟩ := exists_ctr (L.take i)
  have hto : Ctr.toNat c0 = i := by rw [hto0]; simp; omega
  obtain ⟨j, p, r, rfl⟩ := Ctr.exists_lowbit (c := c0) (by omega)
  obtain ⟨hp, hwr, hflat, hpathc, htoN, hlenc⟩ := Ctr.lowbit_props hf j 0 p r hw0
  simp only [Nat.zero_add] at hp hwr
  rw [← hfl0, ← Ctr.path_eq_peaks hf hw0, hpathc]
  rw [hto] at htoN
  have hpj : 0 < 2 ^ j := Nat.pow_pos (by decide)
  have hdj : 2 ^ j ∣ i := ⟨1 + 2 * Ctr.toNat r, by rw [htoN, Nat.pow_succ]; ring⟩
  have hidiv : i / 2 ^ j = 1 + 2 * Ctr.toNat r := by
    rw [htoN, show 2 ^ j + Ctr.toNat r * 2 ^ (j + 1) = 2 ^ j * (1 + 2 * Ctr.toNat r) by rw [Nat.pow_succ]; ring,
      Nat.mul_div_cancel_left _ hpj]
  have hidiv1 : i / 2 ^ (j + 1) = Ctr.toNat r := by
    rw [Nat.pow_succ, ← Nat.div_div_eq_div_mul, hidiv]; omega
  have hj63 : j < 63 := by
    have : 2 ^ j < 2 ^ 63 := by omega
    exact (Nat.pow_lt_pow_iff_right (a := 2) (by decide)).1 this
  -- the witness: nothing below layer `j`, the sibling block at layer `j`
  have hW : witSpec hf L H 0 i = rootH hf ((L.drop i).take (2 ^ j)) :: witSpec hf L H (j + 1) (i + 2 ^ j) := by
    rw [witSpec_fuel hf L H (j + (H + 1)) 0 i (by simp) (by omega) (by simpa using hH)
      (by simp only [Nat.zero_add]; exact Nat.le_trans hH (Nat.pow_le_pow_right (by decide) (by omega)))]
    rw [witSpec_skip hf L j (H + 1) 0 i (by simpa using hdj) (by omega)]
    simp only [Nat.zero_add, witSpec]
    rw [if_neg hin, hidiv, if_neg (by omega)]
    have : blk L j (1 + 2 * Ctr.toNat r) = (L.drop i).take (2 ^ j) := by
      unfold blk
      rw [← hidiv, Nat.div_mul_cancel hdj]
    rw [this]
  rw [hW]
  simp only [rootFromRightWitness]
  -- the pieces of `L`
  have hL : L = Ctr.flat r ++ ((p ++ (L.drop i).take (2 ^ j)) ++ (L.drop i).drop (2 ^ j)) := by
    conv => lhs; rw [← List.take_append_drop i L, ← hfl0, hflat]
    rw [List.append_assoc, List.append_assoc, List.take_append_drop]
  have hblk0 : 0 < ((L.drop i).take (2 ^ j)).length := by simp; omega
  have hcur : hf.branch (rootH hf p) (rootH hf ((L.drop i).take (2 ^ j)))
      = rootH hf (p ++ (L.drop i).take (2 ^ j)) :=
    (rootH_split hf j p _ hp hblk0 (by simp)).symm
  rw [hcur]
  have hHj : L.length ≤ 2 ^ (j + 1 + H) :=
    Nat.le_trans hH (Nat.pow_le_pow_right (by decide) (by omega))
  rw [show 64 = j + (64 - j) by omega, rwLoop_skip hf i _ _ _ j (64 - j) 0 (by simpa using hdj)]
  simp only [Nat.zero_add]
  by_cases hpr : Ctr.path hf r = []
  · -- the split point is a power of two
    obtain ⟨h1, h2⟩ := Ctr.path_nil hf hpr
    rw [h1] at htoN
    simp only [Nat.zero_mul, Nat.add_zero] at htoN
    rw [hpr, htoN]
    have hlen := witSpec_length hf L 63 hn H (j + 1) (2 ^ j + 2 ^ j) ⟨1, by rw [Nat.pow_succ]; omega⟩ (by omega)
    rw [rwLoop_tail hf _ false _ (64 - j) j _ (by omega) (by omega)]
    have hpL : p = L.take (2 ^ j) := by
      have := hfl0
      rw [hflat, h2, List.nil_append, htoN] at this
      exact this
    rw [hpL, ← List.take_add, show 2 ^ j + 2 ^ j = 2 ^ (j + 1) by rw [Nat.pow_succ]; omega]
    exact congrArg some (fold_wit hf L H (j + 1) hHj)
  · obtain ⟨a', ap', hap⟩ : ∃ a' ap', Ctr.path hf r = a' :: ap' := by
      cases hq : Ctr.path hf r with
      | nil => exact absurd hq hpr
      | cons a' ap' => exact ⟨a', ap', rfl⟩
    have hlt64 : i + 2 ^ j < 2 ^ 64 := by
      have : (2:Nat) ^ 64 = 2 ^ 63 + 2 ^ 63 := by decide
      have := Nat.le_of_dvd (by omega) hdj
      omega
    rw [hap, show 64 - j = (63 - j) + 1 by omega,
      rwLoop_init hf i (63 - j) j i (i + 2 ^ j) a' ap' _ _ (by rw [hidiv]; omega) (Nat.mod_eq_of_lt hlt64)
        (Or.inr (by
          rw [show i + 2 ^ j = (i / 2 ^ j) * 2 ^ j + 2 ^ j by rw [Nat.div_mul_cancel hdj], succ_mul_pow_div, hidiv]
          omega))]
    rw [← hap]
    have hinc : i + 2 ^ j = (Ctr.flat r).length + 2 ^ (j + 1) := by
      rw [Ctr.length_flat hwr, htoN, Nat.pow_succ]; omega
    rw [hinc]
    have hclen : (List.replicate j none ++ some p :: r).length ≤ 64 :=
      Ctr.length_le_of_lt hc0 (by rw [hto]; exact Nat.lt_of_le_of_lt (Nat.le_trans hi hn) (by decide))
    refine rwLoop_main hf L i hn (63 - j) r (j + 1) H _ _ hwr hidiv1 hL (by simp; omega) ?_ ?_ (by omega)
      (by omega) hHj
    · simp [hp, Nat.pow_succ]; omega
    · by_cases hq : 2 ^ j ≤ (L.drop i).length
      · left; simp only [List.length_append, hp, List.length_take, Nat.min_eq_left hq, Nat.pow_succ]; omega
      · right
        apply List.eq_nil_of_length_eq_zero
        simp only [List.length_drop] at hq ⊢
        omega


/-! ### node values and the single-leaf walk -/

theorem getElem?_blk (L : List Bytes) (l k j : Nat) :
    (blk L l k)[j]? = if j < 2 ^ l then L[k * 2 ^ l + j]? else none := by
  unfold blk
  rw [List.getElem?_take]
  split
  · rw [List.getElem?_drop]
  · rfl

theorem length_blk (L : List Bytes) (l k : Nat) : (blk L l k).length = min (2 ^ l) (L.length - k * 2 ^ l) := by
  simp [blk]

/-- a block that does not contain position `p` is not changed by an update at `p` -/
theorem blk_set_other (L : List Bytes) (l k p : Nat) (x : Bytes) (h : p < k * 2 ^ l ∨ (k + 1) * 2 ^ l ≤ p) :
    blk (L.set p x) l k = blk L l k := by
  apply List.ext_getElem?
  intro j
  rw [getElem?_blk, getElem?_blk]
  split
  · rw [List.getElem?_set]
    rw [if_neg]
    rw [Nat.add_mul, Nat.one_mul] at h
    omega
  · rfl

theorem blk_top_all (L : List Bytes) (a : Nat) (h : L.length ≤ 2 ^ a) : blk L a 0 = L := by
  simp [blk, List.take_of_length_le h]

/-- a node with a non-empty right child -/
theorem rootH_blk_pair (hf : HashFns) (L : List Bytes) (l m : Nat) (h : (2 * m + 1) * 2 ^ l < L.length) :
    rootH hf (blk L (l + 1) m) = hf.branch (rootH hf (blk L l (2 * m))) (rootH hf (blk L l (2 * m + 1))) := by
  have hp : 0 < 2 ^ l := Nat.pow_pos (by decide)
  have e1 : (2 * m + 1) * 2 ^ l = 2 * m * 2 ^ l + 2 ^ l := by ring
  have hsplit : blk L (l + 1) m = blk L l (2 * m) ++ blk L l (2 * m + 1) := by
    unfold blk
    rw [show m * 2 ^ (l + 1) = 2 * m * 2 ^ l by rw [Nat.pow_succ]; ring,
      show 2 ^ (l + 1) = 2 ^ l + 2 ^ l by rw [Nat.pow_succ]; omega, List.take_add, List.drop_drop, e1]
  rw [hsplit]
  apply rootH_split hf l
  · rw [length_blk]; omega
  · rw [length_blk]; omega
  · rw [length_blk]; omega

/-- a node whose right child is empty is its left child -/
theorem blk_carry (L : List Bytes) (l m : Nat) (h : L.length ≤ (2 * m + 1) * 2 ^ l) :
    blk L (l + 1) m = blk L l (2 * m) := by
  have := blk_down L (l + 1) m (by omega) (by simpa using h)
  rw [this, Nat.add_sub_cancel, Nat.mul_comm]

/-- the value of the parent of the node `(l, k)` in terms of the node and its sibling -/
theorem rootH_blk_parent (hf : HashFns) (L : List Bytes) (l k : Nat) (hk : k * 2 ^ l < L.length) :
    rootH hf (blk L (l + 1) (k / 2)) =
      if sibOf k * 2 ^ l < L.length then
        (if k % 2 = 0 then hf.branch (rootH hf (blk L l k)) (rootH hf (blk L l (sibOf k)))
         else hf.branch (rootH hf (blk L l (sibOf k))) (rootH hf (blk L l k)))
      else rootH hf (blk L l k) := by
  by_cases hev : k % 2 = 0
  · have hk2 : k = 2 * (k / 2) := by omega
    have hs : sibOf k = 2 * (k / 2) + 1 := by unfold sibOf; rw [if_pos hev]; omega
    rw [hs, if_pos hev]
    split
    · rename_i h
      rw [rootH_blk_pair hf L l (k / 2) h, ← hk2]
    · rename_i h
      rw [blk_carry L l (k / 2) (by omega), ← hk2]
  · have hk2 : k = 2 * (k / 2) + 1 := by omega
    have hs : sibOf k = 2 * (k / 2) := by unfold sibOf; rw [if_neg hev]; omega
    have hlt : sibOf k * 2 ^ l < L.length := by
      have : sibOf k * 2 ^ l ≤ k * 2 ^ l := Nat.mul_le_mul_right _ (by omega)
      omega
    rw [if_pos hlt, if_neg hev, hs]
    rw [rootH_blk_pair hf L l (k / 2) (by rw [← hk2]; exact hk), ← hk2]

/-- the sibling hashes of leaf `i`, bottom-up from `layer` -/
def sibsFrom (hf : HashFns) (L : List Bytes) (i : Nat) : Nat → Nat → List Bytes
  | 0, _ => []
  | f + 1, l =>
    (if sibOf (i / 2 ^ l) * 2 ^ l < L.length then [rootH hf (blk L l (sibOf (i / 2 ^ l)))] else [])
      ++ sibsFrom hf L i f (l + 1)

theorem div_pow_succ (i l : Nat) : i / 2 ^ (l + 1) = i / 2 ^ l / 2 := by
  rw [Nat.pow_succ, Nat.div_div_eq_div_mul]

theorem walk_val (hf : HashFns) (L : List Bytes) (i : Nat) (hi : i < L.length) (extra : List Bytes) :
    ∀ (f l : Nat), walk hf L.length i f l (rootH hf (blk L l (i / 2 ^ l))) (sibsFrom hf L i f l ++ extra)
      = some (rootH hf (blk L (l + f) (i / 2 ^ (l + f)))) := by
  intro f
  induction f with
  | zero => intro l; simp [walk]
  | succ f ih =>
    intro l
    have hk : i / 2 ^ l * 2 ^ l < L.length := Nat.lt_of_le_of_lt (Nat.div_mul_le_self _ _) hi
    have hpar := rootH_blk_parent hf L l (i / 2 ^ l) hk
    rw [← div_pow_succ] at hpar
    simp only [walk, sibsFrom]
    by_cases hs : sibOf (i / 2 ^ l) * 2 ^ l < L.length
    · rw [if_pos hs] at hpar ⊢
      rw [if_pos hs]
      simp only [List.cons_append, List.nil_append]
      have := ih (l + 1)
      rw [hpar] at this
      rw [show l + (f + 1) = l + 1 + f by omega, ← this]
      by_cases hev : i / 2 ^ l % 2 = 0
      · simp [hev]
      · simp [hev]
    · rw [if_neg hs] at hpar ⊢
      rw [if_neg hs]
      simp only [List.nil_append]
      have := ih (l + 1)
      rw [hpar] at this
      rw [show l + (f + 1) = l + 1 + f by omega, ← this]


/-! ### the list of all nodes -/

theorem nodeList_ge2 (hf : HashFns) (l : List Bytes) (lo : Nat) (h : 2 ≤ l.length) :
    nodeList hf l lo = nodeList hf (l.take (splitPoint l.length)) lo
      ++ nodeList hf (l.drop (splitPoint l.length)) (lo + splitPoint l.length)
      ++ [((Nat.log2 (splitPoint l.length) + 1, lo / (2 * splitPoint l.length)), rootH hf l)] := by
  match l, h with
  | a :: b :: r, _ => rw [nodeList]; simp only [List.length_cons]

theorem nodeList_singleton (hf : HashFns) (x : Bytes) (lo : Nat) : nodeList hf [x] lo = [((0, lo), x)] := by
  rw [nodeList]

theorem clog2_ge2 {n : Nat} (h : 2 ≤ n) : clog2 n = Nat.log2 (n - 1) + 1 := by
  unfold clog2; rw [if_neg (by omega)]

/-- every entry of `nodeList` is a proper block at its location -/
theorem nodeList_proper (hf : HashFns) (L : List Bytes) : ∀ (n : Nat) (s : List Bytes) (lo : Nat), s.length = n →
    1 ≤ n → (L.drop lo).take s.length = s → 2 ^ clog2 s.length ∣ lo →
    (s.length = 2 ^ clog2 s.length ∨ lo + s.length = L.length) →
    ∀ e ∈ nodeList hf s lo, ∃ layer k, e.1 = (layer, k) ∧ proper L.length layer k ∧
      e.2 = rootH hf (blk L layer k) := by
  intro n
  induction n using Nat.strongRecOn with
  | _ n ih =>
    intro s lo hn h1 hsub hal hfull e he
    have hle : lo + s.length ≤ L.length := by
      have := congrArg List.length hsub
      simp at this; omega
    by_cases hone : n = 1
    · subst hone
      match s, hn with
      | [x], _ =>
        rw [nodeList_singleton] at he
        simp only [List.mem_singleton] at he
        subst he
        refine ⟨0, lo, rfl, Or.inl ⟨rfl, by simp at hle; omega⟩, ?_⟩
        simp only [List.length_cons, List.length_nil, Nat.zero_add] at hsub
        simp only [blk, Nat.pow_zero, Nat.mul_one, hsub, rootH_singleton]
    · have hge : 2 ≤ s.length := by omega
      have hK := @splitPoint_lt s.length hge
      have hK0 := splitPoint_pos s.length
      have hcl := clog2_ge2 hge
      have hKdef : splitPoint s.length = 2 ^ Nat.log2 (s.length - 1) := rfl
      have hsK : s.length ≤ 2 * splitPoint s.length := by
        have := @Nat.lt_log2_self (s.length - 1); rw [Nat.pow_succ] at this; rw [hKdef]; omega
      generalize ha : Nat.log2 (s.length - 1) = a at hcl hKdef
      rw [hcl] at hal hfull
      rw [nodeList_ge2 hf s lo hge, hKdef] at he
      rw [hKdef] at hK hK0 hsK
      have hdvd_a : 2 ^ a ∣ lo := Nat.dvd_trans (Nat.pow_dvd_pow 2 (by omega)) hal
      simp only [List.mem_append, List.mem_singleton] at he
      rcases he with (he | he) | he
      · -- the left, perfect part
        have hlen : (s.take (2 ^ a)).length = 2 ^ a := by simp; omega
        refine ih (2 ^ a) (by omega) (s.take (2 ^ a)) lo hlen (by omega) ?_ ?_ ?_ e he
        · rw [hlen]
          conv => rhs; rw [← hsub]
          rw [List.take_take, Nat.min_eq_left (by omega)]
        · rw [hlen, clog2_two_pow]; exact hdvd_a
        · left; rw [hlen, clog2_two_pow]
      · -- the right part
        have hlen : (s.drop (2 ^ a)).length = s.length - 2 ^ a := by simp
        have hm1 : 1 ≤ s.length - 2 ^ a := by omega
        have hca : clog2 (s.length - 2 ^ a) ≤ a := clog2_le (by omega)
        refine ih (s.length - 2 ^ a) (by omega) (s.drop (2 ^ a)) (lo + 2 ^ a) hlen hm1 ?_ ?_ ?_ e he
        · rw [hlen]
          conv => rhs; rw [← hsub]
          rw [List.drop_take, List.drop_drop]
        · rw [hlen]
          have h2 : 2 ^ clog2 (s.length - 2 ^ a) ∣ 2 ^ a := Nat.pow_dvd_pow 2 hca
          exact Nat.dvd_add (Nat.dvd_trans h2 hdvd_a) h2
        · rw [hlen]
          rcases hfull with h | h
          · left
            have : s.length - 2 ^ a = 2 ^ a := by rw [h, Nat.pow_succ]; omega
            rw [this, clog2_two_pow]
          · right; omega
      · -- the root of the part
        subst he
        have hlog : Nat.log2 (2 ^ a) = a := Nat.log2_two_pow
        obtain ⟨q, hq⟩ := hal
        have hp1 : 0 < 2 ^ (a + 1) := Nat.pow_pos (by decide)
        have hpos : lo / (2 * 2 ^ a) = q := by
          rw [show 2 * 2 ^ a = 2 ^ (a + 1) by rw [Nat.pow_succ]; omega, hq, Nat.mul_div_cancel_left _ hp1]
        refine ⟨a + 1, q, by simp only [hlog, hpos], Or.inr ⟨by omega, ?_⟩, ?_⟩
        · simp only [Nat.add_sub_cancel]
          have : (2 * q + 1) * 2 ^ a = lo + 2 ^ a := by rw [hq, Nat.pow_succ]; ring
          omega
        · simp only
          congr 1
          unfold blk
          rw [Nat.mul_comm q, ← hq]
          rcases hfull with h | h
          · rw [← h, hsub]
          · rw [← hsub, List.take_of_length_le (by simp; omega), List.take_of_length_le (by simp; omega)]


/-! ### `getSiblingHashes` for one leaf -/

theorem removeIdx_single (x : Nat) : removeIdx [x] x = [] := by simp [removeIdx]

theorem sib_pos_lt {n i l l' h : Nat} (hl' : l' ≤ l) (hl : l + 1 ≤ h - 1) (hnH : n ≤ 2 ^ (h - 1))
    (hlt : sibOf (i / 2 ^ l) * 2 ^ l < n) : sibOf (i / 2 ^ l) * 2 ^ (l - l') < 2 ^ (h - 1 - l') := by
  have hp : sibOf (i / 2 ^ l) * 2 ^ (l - l') * 2 ^ l' = sibOf (i / 2 ^ l) * 2 ^ l := by
    rw [Nat.mul_assoc, ← Nat.pow_add]; congr 2; omega
  have h3 : sibOf (i / 2 ^ l) * 2 ^ (l - l') * 2 ^ l' < 2 ^ (h - 1 - l') * 2 ^ l' := by
    rw [hp, ← Nat.pow_add, show h - 1 - l' + l' = h - 1 by omega]
    omega
  exact Nat.lt_of_mul_lt_mul_right h3

/-- the (descended) index of the sibling is not one of the ancestors of the leaf -/
theorem sib_idx_ne {i l l' h s : Nat} (hl' : l' ≤ l) (hlh : l ≤ h) (hiH : i < 2 ^ h) (hs : s ≤ h)
    (hk' : sibOf (i / 2 ^ l) * 2 ^ (l - l') < 2 ^ (h - l')) :
    nodeIdx h i s ≠ 2 ^ (h - l') + sibOf (i / 2 ^ l) * 2 ^ (l - l') := by
  intro e
  obtain ⟨e1, e2⟩ := nodeIdx_inj_layer h i s l' _ hiH hs (by omega) hk' e
  subst e1
  have : i / 2 ^ s / 2 ^ (l - s) = sibOf (i / 2 ^ l) := by
    rw [e2, Nat.mul_div_cancel _ (Nat.pow_pos (by decide))]
  rw [Nat.div_div_eq_div_mul, ← Nat.pow_add, show s + (l - s) = l by omega] at this
  exact sibOf_ne _ this.symm

theorem siblingLoop_single (hf : HashFns) (t : Tree) (L : List Bytes) (hst : Stored hf t L) (i : Nat)
    (hi : i < L.length) :
    ∀ (f l : Nat) (acc : List Bytes), l ≤ getHeight L.length - 1 → getHeight L.length - 1 - l < f →
      siblingLoop t (layerStructure L.length) L.length (getHeight L.length) [nodeIdx (getHeight L.length) i 0] f
          [nodeIdx (getHeight L.length) i l] acc
        = some (acc ++ sibsFrom hf L i (getHeight L.length - 1 - l) l) ∨
      (siblingLoop t (layerStructure L.length) L.length (getHeight L.length) [nodeIdx (getHeight L.length) i 0] f
          [nodeIdx (getHeight L.length) i l] acc = none ∧ 30 < getHeight L.length) := by
  have hn : 1 ≤ L.length := by omega
  have hh1 : 1 ≤ getHeight L.length := by simp [getHeight]
  have hi1 := lt_pow_height hn hi
  have hnH : L.length ≤ 2 ^ (getHeight L.length - 1) := by
    have := le_two_pow_clog2 L.length hn
    simpa [getHeight] using this
  generalize hH : getHeight L.length = h at hh1 hi1 hnH
  have hiH : i < 2 ^ h := Nat.lt_of_lt_of_le hi1 (Nat.pow_le_pow_right (by decide) (by omega))
  intro f
  induction f with
  | zero => intro l acc _ h2; omega
  | succ f ih =>
    intro l acc hl hfuel
    simp only [siblingLoop]
    have hc1 : (nodeIdx h i l % 2 == 0 && false) = false := by simp
    rw [hc1]
    simp only [Bool.false_eq_true, if_false]
    by_cases h2 : nodeIdx h i l = 2
    · have hl' : l = h - 1 := (nodeIdx_eq_two _ i l hh1 hi1 (by omega)).1 h2
      left
      simp only [h2, beq_self_eq_true, if_true]
      rw [hl', Nat.sub_self]; simp [sibsFrom]
    · have hne : (nodeIdx h i l == 2) = false := by simpa using h2
      have hl2 : l + 1 ≤ h - 1 := by
        have : l ≠ h - 1 := fun e => h2 ((nodeIdx_eq_two _ i l hh1 hi1 (by omega)).2 e)
        omega
      simp only [hne, Bool.false_eq_true, if_false]
      have hfuelw : h - 1 - l = (h - 1 - (l + 1)) + 1 := by omega
      cases hloc : newLoc (nodeIdx h i l) h with
      | none =>
        right
        refine ⟨rfl, ?_⟩
        rcases Nat.lt_or_ge 30 h with hb | hb
        · exact hb
        · rw [newLoc_nodeIdx_some h i l hi1 (by omega) hb] at hloc; cases hloc
      | some loc =>
        have hlocv := newLoc_nodeIdx _ i l hiH (by omega) loc hloc
        subst hlocv
        simp only
        rw [removeIdx_single, nodeIdx_half _ i l (by omega), insertIdx_nil]
        by_cases hlt : sibOf (i / 2 ^ l) * 2 ^ l < L.length
        · obtain ⟨l', hl', hr, hpr, hblk⟩ := rsi_some L (i / 2 ^ l) l hlt
          rw [hr]
          simp only
          have hk' := sib_pos_lt hl' hl2 hnH hlt
          cases hsidx : locIndex (l', sibOf (i / 2 ^ l) * 2 ^ (l - l')) h with
          | none =>
            right
            refine ⟨rfl, ?_⟩
            rcases Nat.lt_or_ge 30 h with hb | hb
            · exact hb
            · rw [locIndex_some h l' _ (by omega) hk' hb] at hsidx; cases hsidx
          | some sidx =>
            have hsidxv := locIndex_eq h l' _ sidx (by omega) hk' hsidx
            subst hsidxv
            simp only
            have hk2 : sibOf (i / 2 ^ l) * 2 ^ (l - l') < 2 ^ (h - l') :=
              Nat.lt_of_lt_of_le hk' (Nat.pow_le_pow_right (by decide) (by omega))
            have hnc : ([nodeIdx h i 0].contains (2 ^ (h - l') + sibOf (i / 2 ^ l) * 2 ^ (l - l'))) = false := by
              have := sib_idx_ne (s := 0) hl' (by omega) hiH (by omega) hk2
              simp only [List.contains_cons, List.contains_nil, Bool.or_false, beq_eq_false_iff_ne]
              exact fun e => this e.symm
            rw [hnc]
            simp only [Bool.false_eq_true, if_false]
            rw [hst _ _ hpr, hblk]
            simp only
            have := ih (l + 1) (acc ++ [rootH hf (blk L l (sibOf (i / 2 ^ l)))]) hl2 (by omega)
            rw [hfuelw]
            simp only [sibsFrom, if_pos hlt]
            rcases this with h | h
            · left; rw [h]; simp
            · right; exact h
        · rw [rsi_none _ _ _ (by omega)]
          simp only
          have := ih (l + 1) acc hl2 (by omega)
          rw [hfuelw]
          simp only [sibsFrom, if_neg hlt, List.nil_append]
          exact this


/-! ### `calculatePathNodes` for one leaf: the whole result map -/

theorem lookup_none_of_forall {m : List (Nat × Bytes)} {k : Nat} (h : ∀ v, m.lookup k = some v → False) :
    m.lookup k = none := by
  cases e : m.lookup k with
  | none => rfl
  | some v => exact absurd e (fun e => h v e)

/-- the node `(s, i / 2^s)` is a full block -/
def fullAt (n i s : Nat) : Prop := (i / 2 ^ s + 1) * 2 ^ s ≤ n

theorem fullAt_succ_sib {n i l : Nat} (h : fullAt n i (l + 1)) : sibOf (i / 2 ^ l) * 2 ^ l < n := by
  unfold fullAt at h
  rw [div_pow_succ, Nat.pow_succ] at h
  generalize i / 2 ^ l = k at h ⊢
  have hp : 0 < 2 ^ l := Nat.pow_pos (by decide)
  have h1 : sibOf k + 1 ≤ (k / 2 + 1) * 2 := by unfold sibOf; split <;> omega
  have h2 : (sibOf k + 1) * 2 ^ l ≤ (k / 2 + 1) * 2 * 2 ^ l := Nat.mul_le_mul_right _ h1
  have e : (k / 2 + 1) * 2 * 2 ^ l = (k / 2 + 1) * (2 ^ l * 2) := by ring
  rw [e, Nat.add_mul, Nat.one_mul] at h2
  omega

theorem calcLoop_single_exact (hf : HashFns) (M : List Bytes) (i : Nat) (hi : i < M.length) (extra : List Bytes) :
    ∀ (f l : Nat) (result cache res : List (Nat × Bytes)), l ≤ getHeight M.length - 1 →
      (∀ key v, result.lookup key = some v →
        ∃ s, s ≤ l ∧ key = nodeIdx (getHeight M.length) i s ∧ v = rootH hf (blk M s (i / 2 ^ s))) →
      (∀ s, s ≤ l → fullAt M.length i s →
        result.lookup (nodeIdx (getHeight M.length) i s) = some (rootH hf (blk M s (i / 2 ^ s)))) →
      look result cache (nodeIdx (getHeight M.length) i l) = some (rootH hf (blk M l (i / 2 ^ l))) →
      getHeight M.length - 1 - l < f →
      calcLoop hf (layerStructure M.length) M.length (getHeight M.length) f [nodeIdx (getHeight M.length) i l]
        result cache (sibsFrom hf M i (getHeight M.length - 1 - l) l ++ extra) = some res →
      (∀ key v, res.lookup key = some v →
        ∃ s, s ≤ getHeight M.length - 1 ∧ key = nodeIdx (getHeight M.length) i s ∧ v = rootH hf (blk M s (i / 2 ^ s))) ∧
      (∀ s, s ≤ getHeight M.length - 1 → fullAt M.length i s →
        res.lookup (nodeIdx (getHeight M.length) i s) = some (rootH hf (blk M s (i / 2 ^ s)))) := by
  have hn : 1 ≤ M.length := by omega
  have hh1 : 1 ≤ getHeight M.length := by simp [getHeight]
  have hi1 := lt_pow_height hn hi
  have hnH : M.length ≤ 2 ^ (getHeight M.length - 1) := by
    have := le_two_pow_clog2 M.length hn
    simpa [getHeight] using this
  generalize hH : getHeight M.length = h at hh1 hi1 hnH
  have hiH : i < 2 ^ h := Nat.lt_of_lt_of_le hi1 (Nat.pow_le_pow_right (by decide) (by omega))
  intro f
  induction f with
  | zero => intro l result cache res _ _ _ _ hfuel _; omega
  | succ f ih =>
    intro l result cache res hl hkeys hfull hlook hfuel hcalc
    simp only [calcLoop] at hcalc
    by_cases h2 : nodeIdx h i l = 2
    · have hl' : l = h - 1 := (nodeIdx_eq_two _ i l hh1 hi1 (by omega)).1 h2
      simp only [h2, beq_self_eq_true, if_true] at hcalc
      cases hcalc
      subst hl'
      exact ⟨hkeys, hfull⟩
    · have hne : (nodeIdx h i l == 2) = false := by simpa using h2
      have hl2 : l + 1 ≤ h - 1 := by
        have : l ≠ h - 1 := fun e => h2 ((nodeIdx_eq_two _ i l hh1 hi1 (by omega)).2 e)
        omega
      simp only [hne] at hcalc
      rw [hlook] at hcalc
      simp only [Bool.false_eq_true, if_false] at hcalc
      cases hloc : newLoc (nodeIdx h i l) h with
      | none => rw [hloc] at hcalc; cases hcalc
      | some loc =>
        have hlocv := newLoc_nodeIdx _ i l hiH (by omega) loc hloc
        subst hlocv
        rw [hloc] at hcalc
        simp only at hcalc
        have hparent : nodeIdx h i l / 2 = nodeIdx h i (l + 1) := nodeIdx_half _ i l (by omega)
        have hpnone : result.lookup (nodeIdx h i (l + 1)) = none := by
          apply lookup_none_of_forall
          intro v hv
          obtain ⟨s, hs, hs2, _⟩ := hkeys _ v hv
          have := nodeIdx_lt h i l s hiH hs (by omega)
          omega
        have hfuelw : h - 1 - l = (h - 1 - (l + 1)) + 1 := by omega
        have hk : i / 2 ^ l * 2 ^ l < M.length := Nat.lt_of_le_of_lt (Nat.div_mul_le_self _ _) hi
        have hpar := rootH_blk_parent hf M l (i / 2 ^ l) hk
        rw [← div_pow_succ] at hpar
        rw [hparent, insertIdx_nil, hfuelw] at hcalc
        simp only [sibsFrom] at hcalc
        by_cases hlt : sibOf (i / 2 ^ l) * 2 ^ l < M.length
        · obtain ⟨l', hl', hr, _, _⟩ := rsi_some M (i / 2 ^ l) l hlt
          rw [hr] at hcalc
          simp only at hcalc
          have hk' := sib_pos_lt hl' hl2 hnH hlt
          cases hsidx : locIndex (l', sibOf (i / 2 ^ l) * 2 ^ (l - l')) h with
          | none => rw [hsidx] at hcalc; cases hcalc
          | some sidx =>
            have hsidxv := locIndex_eq h l' _ sidx (by omega) hk' hsidx
            subst hsidxv
            rw [hsidx] at hcalc
            simp only at hcalc
            have hk2 : sibOf (i / 2 ^ l) * 2 ^ (l - l') < 2 ^ (h - l') :=
              Nat.lt_of_lt_of_le hk' (Nat.pow_le_pow_right (by decide) (by omega))
            have hsnone : result.lookup (2 ^ (h - l') + sibOf (i / 2 ^ l) * 2 ^ (l - l')) = none := by
              apply lookup_none_of_forall
              intro v hv
              obtain ⟨s, hs, hs2, _⟩ := hkeys _ v hv
              exact sib_idx_ne hl' (by omega) hiH (by omega) hk2 hs2.symm
            rw [if_pos hlt] at hcalc hpar
            simp only [List.cons_append, List.nil_append, takeSibling, hsnone, parentConflict, hpnone,
              Bool.false_eq_true, if_false] at hcalc
            have hmod := nodeIdx_mod2 h i l (by omega)
            rw [hmod] at hcalc
            have hph : (if (i / 2 ^ l % 2 == 0) = true then
                  hf.branch (rootH hf (blk M l (i / 2 ^ l))) (rootH hf (blk M l (sibOf (i / 2 ^ l))))
                else hf.branch (rootH hf (blk M l (sibOf (i / 2 ^ l)))) (rootH hf (blk M l (i / 2 ^ l))))
                = rootH hf (blk M (l + 1) (i / 2 ^ (l + 1))) := by
              rw [hpar]; by_cases hev : i / 2 ^ l % 2 = 0 <;> simp [hev]
            rw [hph] at hcalc
            refine ih (l + 1) _ cache res hl2 ?_ ?_ ?_ (by omega) hcalc
            · intro key v hv
              by_cases hkey : key = nodeIdx h i (l + 1)
              · subst hkey
                rw [lookup_mapSet_self] at hv
                exact ⟨l + 1, Nat.le_refl _, rfl, (Option.some.inj hv).symm⟩
              · rw [lookup_mapSet_ne _ _ _ _ hkey] at hv
                obtain ⟨s, hs, hs2, hs3⟩ := hkeys key v hv
                exact ⟨s, by omega, hs2, hs3⟩
            · intro s hs hfs
              by_cases hsl : s = l + 1
              · subst hsl; exact lookup_mapSet_self _ _ _
              · have hne' : nodeIdx h i s ≠ nodeIdx h i (l + 1) := by
                  have := nodeIdx_lt h i l s hiH (by omega) (by omega)
                  omega
                rw [lookup_mapSet_ne _ _ _ _ hne']
                exact hfull s (by omega) hfs
            · simp [look, lookup_mapSet_self]
        · rw [rsi_none _ _ _ (by omega)] at hcalc
          rw [if_neg hlt] at hcalc hpar
          simp only [List.nil_append] at hcalc
          refine ih (l + 1) result _ res hl2 ?_ ?_ ?_ (by omega) hcalc
          · intro key v hv
            obtain ⟨s, hs, hs2, hs3⟩ := hkeys key v hv
            exact ⟨s, by omega, hs2, hs3⟩
          · intro s hs hfs
            by_cases hsl : s = l + 1
            · subst hsl; exact absurd (fullAt_succ_sib hfs) hlt
            · exact hfull s (by omega) hfs
          · simp [look, hpnone, lookup_mapSet_self, hpar]


/-! ### the append path by the bits of the size, and its refresh in `Update` -/

/-- the append path: for every set bit `layer` of the size, the block `(layer, (size >> layer) - 1)` -/
def peaksBits (hf : HashFns) (L : List Bytes) : Nat → Nat → List Bytes
  | 0, _ => []
  | f + 1, layer =>
    if (L.length / 2 ^ layer) % 2 = 1 then
      rootH hf (blk L layer (L.length / 2 ^ layer - 1)) :: peaksBits hf L f (layer + 1)
    else peaksBits hf L f (layer + 1)

theorem peaksBits_length (hf : HashFns) (L L' : List Bytes) (h : L'.length = L.length) :
    ∀ f layer, (peaksBits hf L' f layer).length = (peaksBits hf L f layer).length := by
  intro f
  induction f with
  | zero => intro layer; rfl
  | succ f ih =>
    intro layer
    simp only [peaksBits, h]
    split <;> simp [ih]

theorem add_lt_div {a b r : Nat} (hr : r < b) : (a * b + r) / b = a := by
  have hb : 0 < b := by omega
  rw [Nat.add_comm, Nat.add_mul_div_right _ _ hb, Nat.div_eq_of_lt hr, Nat.zero_add]

theorem Ctr.path_eq_peaksBits (hf : HashFns) (L : List Bytes) : ∀ (f : Nat) (c : Ctr) (layer : Nat) (lower : List Bytes),
    Ctr.WF layer c → c.length ≤ f → L = Ctr.flat c ++ lower → lower.length < 2 ^ layer →
    Ctr.path hf c = peaksBits hf L f layer := by
  intro f
  induction f with
  | zero =>
    intro c layer lower _ hl _ _
    have : c = [] := List.eq_nil_of_length_eq_zero (by omega)
    subst this; rfl
  | succ f ih =>
    intro c layer lower hw hl hL hlow
    have hlen : L.length = Ctr.toNat c * 2 ^ layer + lower.length := by
      rw [hL, List.length_append, Ctr.length_flat hw]
    have hdiv : L.length / 2 ^ layer = Ctr.toNat c := by rw [hlen]; exact add_lt_div hlow
    have hlow' : lower.length < 2 ^ (layer + 1) := by rw [Nat.pow_succ]; omega
    cases c with
    | nil =>
      have hdiv0 : L.length / 2 ^ layer = 0 := by rw [hdiv]; rfl
      simp only [peaksBits, hdiv0, Ctr.path]
      rw [if_neg (by omega)]
      exact ih [] (layer + 1) lower (by simp [Ctr.WF]) (by simp) hL hlow'
    | cons o r =>
      simp only [peaksBits, hdiv]
      simp only [List.length_cons] at hl
      cases o with
      | none =>
        have hev : Ctr.toNat (none :: r) % 2 = 0 := by simp [Ctr.toNat]
        rw [if_neg (by omega)]
        simp only [Ctr.path]
        exact ih r (layer + 1) lower hw.2 (by omega) (by rw [hL]; simp [Ctr.flat]) hlow'
      | some s =>
        have hs := hw.1 s rfl
        have hod : Ctr.toNat (some s :: r) % 2 = 1 := by simp [Ctr.toNat]
        rw [if_pos hod]
        simp only [Ctr.path]
        have hL' : L = Ctr.flat r ++ (s ++ lower) := by rw [hL]; simp [Ctr.flat]
        have hblk : blk L layer (Ctr.toNat (some s :: r) - 1) = s := by
          unfold blk
          have : (Ctr.toNat (some s :: r) - 1) * 2 ^ layer = (Ctr.flat r).length := by
            rw [Ctr.length_flat hw.2, Nat.pow_succ]
            simp only [Ctr.toNat, Option.isSome_some, if_true]
            rw [show 1 + 2 * Ctr.toNat r - 1 = 2 * Ctr.toNat r by omega]; ring
          rw [this, hL', List.drop_left, ← hs, List.take_left]
        rw [hblk]
        congr 1
        exact ih r (layer + 1) (s ++ lower) hw.2 (by omega) hL' (by simp [hs, Nat.pow_succ]; omega)

theorem peaks_eq_peaksBits (hf : HashFns) (L : List Bytes) (f : Nat) (hf' : L.length < 2 ^ f) :
    peaks hf L = peaksBits hf L f 0 := by
  obtain ⟨c, hw, hc, hfl, hto⟩ := exists_ctr L
  rw [← hfl, ← Ctr.path_eq_peaks hf hw, hfl]
  exact Ctr.path_eq_peaksBits hf L f c 0 [] hw (Ctr.length_le_of_lt hc (by rw [hto]; exact hf')) (by simp [hfl]) (by simp)

/-- the refresh of the append path in `Update`: an entry is replaced by the recomputed node, if there is one -/
theorem refreshPath_spec (hf : HashFns) (L L' : List Bytes) (hlen : L'.length = L.length)
    (calcd : List (Nat × Bytes)) (h : Nat)
    (hcal1 : ∀ layer idx v, (L.length / 2 ^ layer) % 2 = 1 →
      locIndex (layer, L.length / 2 ^ layer - 1) h = some idx → calcd.lookup idx = some v →
      v = rootH hf (blk L' layer (L.length / 2 ^ layer - 1)))
    (hcal2 : ∀ layer idx, (L.length / 2 ^ layer) % 2 = 1 →
      locIndex (layer, L.length / 2 ^ layer - 1) h = some idx → calcd.lookup idx = none →
      rootH hf (blk L layer (L.length / 2 ^ layer - 1)) = rootH hf (blk L' layer (L.length / 2 ^ layer - 1))) :
    ∀ (f layer : Nat) (out : List Bytes),
      refreshPath calcd L.length h f layer (peaksBits hf L f layer) = some out → out = peaksBits hf L' f layer := by
  intro f
  induction f with
  | zero =>
    intro layer out ho
    simp only [refreshPath, peaksBits, Option.some.injEq] at ho
    rw [← ho]; rfl
  | succ f ih =>
    intro layer out ho
    simp only [peaksBits, hlen] at ho ⊢
    by_cases hb : (L.length / 2 ^ layer) % 2 = 1
    · rw [if_pos hb] at ho ⊢
      have hb' : ((L.length / 2 ^ layer) % 2 == 0) = false := by
        rw [hb]; rfl
      simp only [refreshPath, hb', Bool.false_eq_true, if_false, Nat.shiftRight_eq_div_pow] at ho
      cases hli : locIndex (layer, L.length / 2 ^ layer - 1) h with
      | none => rw [hli] at ho; cases ho
      | some idx =>
        rw [hli] at ho
        simp only at ho
        cases hrest : refreshPath calcd L.length h f (layer + 1) (peaksBits hf L f (layer + 1)) with
        | none => rw [hrest] at ho; cases ho
        | some rest' =>
          rw [hrest] at ho
          simp only [Option.some.injEq] at ho
          rw [← ho, ih (layer + 1) rest' hrest]
          congr 1
          cases hlk : calcd.lookup idx with
          | none => exact hcal2 layer idx hb hli hlk
          | some v => exact hcal1 layer idx v hb hli hlk
    · rw [if_neg hb] at ho ⊢
      have hb' : ((L.length / 2 ^ layer) % 2 == 0) = true := by
        simp; omega
      cases hP : peaksBits hf L f (layer + 1) with
      | nil =>
        rw [hP] at ho
        simp only [refreshPath, Option.some.injEq] at ho
        have := peaksBits_length hf L L' hlen f (layer + 1)
        rw [hP] at this
        rw [← ho]
        exact (List.eq_nil_of_length_eq_zero this).symm
      | cons p rest =>
        rw [hP] at ho
        simp only [refreshPath, Nat.shiftRight_eq_div_pow, hb', if_true] at ho
        rw [← hP] at ho
        exact ih (layer + 1) out ho


/-! ### `Update` of one leaf -/

theorem locIndex_eq' (h l' k' sidx : Nat) (hl : l' + 1 ≤ h) (hk : k' < 2 ^ (h - 1 - l'))
    (e : locIndex (l', k') h = some sidx) : sidx = 2 ^ (h - l') + k' := by
  unfold locIndex at e
  simp only at e
  have hb : bitLen k' ≤ h - l' := by
    unfold bitLen
    split
    · omega
    · rename_i h0
      have : Nat.log2 k' < h - 1 - l' := (Nat.log2_lt h0).2 hk
      omega
  rw [Nat.max_eq_left hb] at e
  split at e
  · cases e
  · split at e
    · cases e
    · cases e; rfl

theorem sibsFrom_set (hf : HashFns) (L : List Bytes) (p : Nat) (x : Bytes) :
    ∀ f l, sibsFrom hf (L.set p x) p f l = sibsFrom hf L p f l := by
  intro f
  induction f with
  | zero => intro l; rfl
  | succ f ih =>
    intro l
    simp only [sibsFrom, ih, List.length_set]
    congr 1
    have hp : 0 < 2 ^ l := Nat.pow_pos (by decide)
    have h1 : p / 2 ^ l * 2 ^ l ≤ p := Nat.div_mul_le_self _ _
    have h2 : p < (p / 2 ^ l + 1) * 2 ^ l := by
      rw [Nat.mul_comm]; exact Nat.lt_mul_div_succ p hp
    rw [blk_set_other]
    generalize p / 2 ^ l = k at h1 h2
    unfold sibOf
    split
    · left; exact h2
    · right
      rw [show k - 1 + 1 = k by omega]; exact h1

theorem nodeIdx_zero (h i : Nat) : nodeIdx h i 0 = 2 ^ h + i := by simp [nodeIdx]

theorem sortIdx_single (x : Nat) (hx : x ≠ 0) : sortIdx ([x].filter (· != 0)) = [x] := by
  have : (x != 0) = true := by simpa using hx
  simp [List.filter, this, sortIdx, isort, insertBy]

theorem sumBitLen_single (h i : Nat) (hi : i < 2 ^ h) : sumBitLen [2 ^ h + i] = h + 1 := by
  have := nodeIdx_log2 h i 0 hi (by omega)
  rw [nodeIdx_zero] at this
  have hpos : 0 < 2 ^ h := Nat.pow_pos (by decide)
  simp [sumBitLen, bitLen, this]

theorem update_single (hf : HashFns) (t t' : Tree) (L : List Bytes) (hst : Stored hf t L)
    (hsize : t.core.size = L.length) (hpath : t.core.path = peaks hf L) (p : Nat) (hp : p < L.length) (u : Bytes)
    (hu : update hf t [2 ^ getHeight L.length + p] [u] = some t') :
    t'.core = ⟨rootH hf (L.set p (hf.leaf u)), peaks hf (L.set p (hf.leaf u)), L.length⟩ := by
  have hn : 1 ≤ L.length := by omega
  have hh1 : 1 ≤ getHeight L.length := by simp [getHeight]
  have hi1 := lt_pow_height hn hp
  have hnH : L.length ≤ 2 ^ (getHeight L.length - 1) := by
    have := le_two_pow_clog2 L.length hn
    simpa [getHeight] using this
  have hiH : p < 2 ^ getHeight L.length :=
    Nat.lt_of_lt_of_le hi1 (Nat.pow_le_pow_right (by decide) (by omega))
  have hpos : 0 < 2 ^ getHeight L.length := Nat.pow_pos (by decide)
  have hsort := sortIdx_single (2 ^ getHeight L.length + p) (by omega)
  have hfuel := sumBitLen_single (getHeight L.length) p hiH
  have hM : (L.set p (hf.leaf u)).length = L.length := List.length_set
  rw [update_eq] at hu
  split at hu
  case isFalse => cases hu
  unfold updateOrig at hu
  rw [hsize, if_neg (by omega)] at hu
  simp only at hu
  split at hu
  · cases hu
  · -- the sibling hashes
    cases hsib : siblingHashes t [2 ^ getHeight L.length + p] with
    | none => rw [hsib] at hu; cases hu
    | some sibs =>
      rw [hsib] at hu
      simp only at hu
      have hsibs : sibs = sibsFrom hf L p (getHeight L.length - 1) 0 := by
        unfold siblingHashes at hsib
        simp only [hsize, hsort, hfuel] at hsib
        have := siblingLoop_single hf t L hst p hp (getHeight L.length + 1 + 1) 0 [] (by omega) (by omega)
        rw [nodeIdx_zero] at this
        rcases this with h | h
        · rw [h] at hsib; simpa using hsib.symm
        · rw [h.1] at hsib; cases hsib
      -- the recomputed nodes
      cases hcalc : calcPathNodes hf ([u].map hf.leaf) L.length [2 ^ getHeight L.length + p] sibs with
      | none => rw [hcalc] at hu; cases hu
      | some calcd =>
        rw [hcalc] at hu
        simp only at hu
        unfold calcPathNodes at hcalc
        have h01 : ((0 + 1 : Nat) == 0) = false := rfl
        simp only [List.map_cons, List.map_nil, List.length_cons, List.length_nil, bne_self_eq_false,
          Bool.false_eq_true, if_false, hsort, hfuel, h01] at hcalc
        have hinit : initResult [hf.leaf u] [2 ^ getHeight L.length + p] [] = [(2 ^ getHeight L.length + p, hf.leaf u)] := by
          have : (2 ^ getHeight L.length + p == 0) = false := by simp
          simp [initResult, this, mapSet]
        rw [hinit, hsibs, ← sibsFrom_set hf L p (hf.leaf u), ← nodeIdx_zero, ← hM] at hcalc
        have hblk0p : rootH hf (blk (L.set p (hf.leaf u)) 0 p) = hf.leaf u := by
          have : blk (L.set p (hf.leaf u)) 0 p = [hf.leaf u] := by
            apply List.ext_getElem?
            intro j
            rw [getElem?_blk]
            cases j with
            | zero => simp [List.getElem?_set, hp]
            | succ j => simp
          rw [this, rootH_singleton]
        have hblk0 : rootH hf (blk (L.set p (hf.leaf u)) 0 (p / 2 ^ 0)) = hf.leaf u := by
          simpa using hblk0p
        have hinv1 : ∀ key v,
            List.lookup key [(nodeIdx (getHeight (L.set p (hf.leaf u)).length) p 0, hf.leaf u)] = some v →
            ∃ s, s ≤ 0 ∧ key = nodeIdx (getHeight (L.set p (hf.leaf u)).length) p s ∧
              v = rootH hf (blk (L.set p (hf.leaf u)) s (p / 2 ^ s)) := by
          intro key v hv
          simp only [List.lookup] at hv
          split at hv
          · rename_i heq
            refine ⟨0, Nat.le_refl _, by simpa using heq, ?_⟩
            rw [hblk0]; exact (Option.some.inj hv).symm
          · cases hv
        have hinv2 : ∀ s, s ≤ 0 → fullAt (L.set p (hf.leaf u)).length p s →
            List.lookup (nodeIdx (getHeight (L.set p (hf.leaf u)).length) p s)
              [(nodeIdx (getHeight (L.set p (hf.leaf u)).length) p 0, hf.leaf u)]
              = some (rootH hf (blk (L.set p (hf.leaf u)) s (p / 2 ^ s))) := by
          intro s hs _
          have : s = 0 := by omega
          subst this
          simp [List.lookup, hblk0p]
        have hinv3 : look [(nodeIdx (getHeight (L.set p (hf.leaf u)).length) p 0, hf.leaf u)] []
            (nodeIdx (getHeight (L.set p (hf.leaf u)).length) p 0)
              = some (rootH hf (blk (L.set p (hf.leaf u)) 0 (p / 2 ^ 0))) := by
          simp [look, List.lookup, hblk0p]
        obtain ⟨hA, hB⟩ := calcLoop_single_exact hf (L.set p (hf.leaf u)) p (by rw [hM]; exact hp) []
          (getHeight (L.set p (hf.leaf u)).length + 1 + 1) 0 _ [] calcd (by omega) hinv1 hinv2 hinv3 (by omega)
          (by rw [List.append_nil]; exact hcalc)
        rw [hM] at hA hB
        -- the stored nodes, the root and the append path
        cases hsave : saveCalculated (getHeight L.length) calcd t with
        | none => rw [hsave] at hu; cases hu
        | some t1 =>
          rw [hsave] at hu
          simp only at hu
          cases hroot : calcd.lookup 2 with
          | none => rw [hroot] at hu; cases hu
          | some r =>
            cases hrp : refreshPath calcd L.length (getHeight L.length) (getHeight L.length) 0 t.core.path with
            | none => rw [hroot, hrp] at hu; cases hu
            | some p' =>
              rw [hroot, hrp] at hu
              simp only [Option.some.injEq] at hu
              rw [← hu]
              simp only
              -- the root
              have hr : r = rootH hf (L.set p (hf.leaf u)) := by
                obtain ⟨s, hs, hs2, hs3⟩ := hA 2 r hroot
                have : s = getHeight L.length - 1 := (nodeIdx_eq_two _ p s hh1 hi1 (by omega)).1 hs2.symm
                subst this
                rw [hs3, Nat.div_eq_of_lt hi1, blk_top_all _ _ (by rw [hM]; exact hnH)]
              -- the append path
              have hlt := lt_two_pow_getHeight L.length hn
              have hp' : p' = peaks hf (L.set p (hf.leaf u)) := by
                rw [hpath, peaks_eq_peaksBits hf L _ hlt] at hrp
                rw [peaks_eq_peaksBits hf (L.set p (hf.leaf u)) (getHeight L.length) (by rw [hM]; exact hlt)]
                refine refreshPath_spec hf L _ hM calcd (getHeight L.length) ?_ ?_ _ 0 p' hrp
                · intro layer idx v hb hli hlk
                  have hq1 : 1 ≤ L.length / 2 ^ layer := by
                    generalize L.length / 2 ^ layer = q at hb; omega
                  have hp2 : 0 < 2 ^ layer := Nat.pow_pos (by decide)
                  have hle : 2 ^ layer ≤ L.length := by
                    have := (Nat.le_div_iff_mul_le hp2).1 hq1; omega
                  have hlay : layer ≤ getHeight L.length - 1 := by
                    have : 2 ^ layer ≤ 2 ^ (getHeight L.length - 1) := Nat.le_trans hle hnH
                    exact (Nat.pow_le_pow_iff_right (by decide)).1 this
                  have hk : L.length / 2 ^ layer - 1 < 2 ^ (getHeight L.length - 1 - layer) := by
                    have : L.length / 2 ^ layer ≤ 2 ^ (getHeight L.length - 1) / 2 ^ layer := Nat.div_le_div_right hnH
                    rw [Nat.pow_div hlay (by decide)] at this
                    omega
                  have hidx := locIndex_eq' _ _ _ idx (by omega) hk hli
                  obtain ⟨s, hs, hs2, hs3⟩ := hA idx v hlk
                  rw [hidx] at hs2
                  obtain ⟨e1, e2⟩ := nodeIdx_inj_layer _ p s layer _ hiH (by omega) (by omega)
                    (Nat.lt_of_lt_of_le hk (Nat.pow_le_pow_right (by decide) (by omega))) hs2.symm
                  subst e1
                  rw [hs3, e2]
                · intro layer idx hb hli hlk
                  have hq1 : 1 ≤ L.length / 2 ^ layer := by
                    generalize L.length / 2 ^ layer = q at hb; omega
                  have hp2 : 0 < 2 ^ layer := Nat.pow_pos (by decide)
                  have hle : 2 ^ layer ≤ L.length := by
                    have := (Nat.le_div_iff_mul_le hp2).1 hq1; omega
                  have hlay : layer ≤ getHeight L.length - 1 := by
                    have : 2 ^ layer ≤ 2 ^ (getHeight L.length - 1) := Nat.le_trans hle hnH
                    exact (Nat.pow_le_pow_iff_right (by decide)).1 this
                  have hk : L.length / 2 ^ layer - 1 < 2 ^ (getHeight L.length - 1 - layer) := by
                    have : L.length / 2 ^ layer ≤ 2 ^ (getHeight L.length - 1) / 2 ^ layer := Nat.div_le_div_right hnH
                    rw [Nat.pow_div hlay (by decide)] at this
                    omega
                  have hidx := locIndex_eq' _ _ _ idx (by omega) hk hli
                  by_cases hanc : p / 2 ^ layer = L.length / 2 ^ layer - 1
                  · exfalso
                    have hfull : fullAt L.length p layer := by
                      unfold fullAt
                      rw [hanc, show L.length / 2 ^ layer - 1 + 1 = L.length / 2 ^ layer by omega]
                      exact Nat.div_mul_le_self _ _
                    have := hB layer hlay hfull
                    rw [nodeIdx, hanc, ← hidx, hlk] at this
                    cases this
                  · rw [blk_set_other]
                    have h1 : p / 2 ^ layer * 2 ^ layer ≤ p := Nat.div_mul_le_self _ _
                    have h2 : p < (p / 2 ^ layer + 1) * 2 ^ layer := by
                      rw [Nat.mul_comm]; exact Nat.lt_mul_div_succ p hp2
                    generalize p / 2 ^ layer = a at hanc h1 h2
                    generalize L.length / 2 ^ layer - 1 = b at hanc
                    rcases Nat.lt_or_gt_of_ne hanc with hlt' | hgt'
                    · left
                      have : (a + 1) * 2 ^ layer ≤ b * 2 ^ layer := Nat.mul_le_mul_right _ (by omega)
                      omega
                    · right
                      have : (b + 1) * 2 ^ layer ≤ a * 2 ^ layer := Nat.mul_le_mul_right _ (by omega)
                      omega
              rw [hr, hp']


/-! ### the `hash -> location` index and `GenerateProof` for one leaf -/

/-- every entry of the `hash -> location` index is a leaf at its position or a branch node, and every
leaf has its entry -/
def H2L (hf : HashFns) (t : Tree) (L : List Bytes) : Prop :=
  (∀ x loc, (x, loc) ∈ t.h2l → (∃ k, loc = (0, k) ∧ L[k]? = some x) ∨ (∃ a b, x = hf.branch a b)) ∧
  (∀ k x, L[k]? = some x → (x, (0, k)) ∈ t.h2l)

theorem storeLoop_h2l (hf : HashFns) (height size : Nat) : ∀ (f h : Nat) (path : List Bytes) (cur : Bytes) (t0 : Tree),
    (∀ e, e ∈ t0.h2l → e ∈ (storeLoop hf height size f h path cur t0).1.h2l) ∧
    (∀ e, e ∈ (storeLoop hf height size f h path cur t0).1.h2l → e ∈ t0.h2l ∨ ∃ a b, e.1 = hf.branch a b) := by
  intro f
  induction f with
  | zero => intro h path cur t0; simp only [storeLoop]; exact ⟨fun e he => he, fun e he => Or.inl he⟩
  | succ f ih =>
    intro h path cur t0
    have hsave : ∀ (x : Bytes) (loc : Loc) (rest : List Bytes),
        (∀ e, e ∈ t0.h2l → e ∈ (storeLoop hf height size f (h + 1) rest (hf.branch x cur)
          (t0.saveNode (hf.branch x cur) loc)).1.h2l) ∧
        (∀ e, e ∈ (storeLoop hf height size f (h + 1) rest (hf.branch x cur)
          (t0.saveNode (hf.branch x cur) loc)).1.h2l → e ∈ t0.h2l ∨ ∃ a b, e.1 = hf.branch a b) := by
      intro x loc rest
      obtain ⟨h1, h2⟩ := ih (h + 1) rest (hf.branch x cur) (t0.saveNode (hf.branch x cur) loc)
      constructor
      · intro e he; exact h1 e (by simp [Tree.saveNode, he])
      · intro e he
        rcases h2 e he with h3 | h3
        · simp only [Tree.saveNode, List.mem_cons] at h3
          rcases h3 with h3 | h3
          · right; exact ⟨x, cur, by rw [h3]⟩
          · left; exact h3
        · right; exact h3
    simp only [storeLoop]
    split
    · split
      · exact ⟨fun e he => he, fun e he => Or.inl he⟩
      · split
        · split
          · exact ⟨fun e he => he, fun e he => Or.inl he⟩
          · exact hsave _ _ _
        · exact hsave _ _ _
    · exact ih _ _ _ _

theorem append_h2l (hf : HashFns) (t : Tree) (L : List Bytes) (v : Bytes) (hh : H2L hf t L)
    (hsize : t.core.size = L.length) : H2L hf (append hf t v).1 (L ++ [hf.leaf v]) := by
  -- the index of the result: the entries of `t`, the new leaf, branch nodes
  have key : (∀ e, e ∈ (t.saveNode (hf.leaf v) (0, t.core.size)).h2l → e ∈ (append hf t v).1.h2l) ∧
      (∀ e, e ∈ (append hf t v).1.h2l →
        e ∈ (t.saveNode (hf.leaf v) (0, t.core.size)).h2l ∨ ∃ a b, e.1 = hf.branch a b) := by
    unfold append
    by_cases hz : t.core.size = 0
    · simp only [hz, if_true]
      split <;> exact ⟨fun e he => he, fun e he => Or.inl he⟩
    · simp only [hz, if_false]
      have := storeLoop_h2l hf (getHeight t.core.size) t.core.size (getHeight t.core.size) 0 t.core.path
        (hf.leaf v) (t.saveNode (hf.leaf v) (0, t.core.size))
      revert this
      generalize storeLoop hf (getHeight t.core.size) t.core.size (getHeight t.core.size) 0 t.core.path
        (hf.leaf v) (t.saveNode (hf.leaf v) (0, t.core.size)) = sl
      intro this
      obtain ⟨t2, b⟩ := sl
      cases b <;> cases appendCore hf t.core v <;> exact this
  obtain ⟨k1, k2⟩ := key
  constructor
  · intro x loc hm
    rcases k2 _ hm with h | ⟨a, b, h⟩
    · simp only [Tree.saveNode, List.mem_cons] at h
      rcases h with h | h
      · left
        obtain ⟨e1, e2⟩ := Prod.mk.inj h
        exact ⟨t.core.size, e2, by rw [hsize, e1]; simp⟩
      · rcases hh.1 x loc h with ⟨k, e1, e2⟩ | h'
        · left
          refine ⟨k, e1, ?_⟩
          have : k < L.length := by
            rcases Nat.lt_or_ge k L.length with h | h
            · exact h
            · rw [List.getElem?_eq_none h] at e2; cases e2
          rw [List.getElem?_append_left this]; exact e2
        · right; exact h'
    · right; exact ⟨a, b, h⟩
  · intro k x hk
    apply k1
    simp only [Tree.saveNode, List.mem_cons]
    by_cases hlt : k < L.length
    · right
      rw [List.getElem?_append_left hlt] at hk
      exact hh.2 k x hk
    · left
      have hk' : k = L.length := by
        rcases Nat.lt_or_ge k (L ++ [hf.leaf v]).length with h | h
        · simp at h; omega
        · rw [List.getElem?_eq_none h] at hk; cases hk
      subst hk'
      simp at hk
      rw [hsize, hk]

theorem lookup_mem {α β : Type} [BEq α] [LawfulBEq α] (m : List (α × β)) (k : α) (v : β)
    (h : m.lookup k = some v) : (k, v) ∈ m := by
  induction m with
  | nil => simp [List.lookup] at h
  | cons a r ih =>
    obtain ⟨a1, a2⟩ := a
    simp only [List.lookup] at h
    by_cases hk : k = a1
    · subst hk; simp at h; subst h; simp
    · have : (k == a1) = false := by simpa using hk
      simp only [this] at h
      exact List.mem_cons_of_mem _ (ih h)

theorem lookup_isSome_of_mem {α β : Type} [BEq α] [LawfulBEq α] (m : List (α × β)) (k : α) (v : β)
    (h : (k, v) ∈ m) : ∃ v', m.lookup k = some v' := by
  induction m with
  | nil => cases h
  | cons a r ih =>
    obtain ⟨a1, a2⟩ := a
    simp only [List.lookup]
    by_cases hk : k = a1
    · subst hk; simp
    · have : (k == a1) = false := by simpa using hk
      simp only [this]
      simp only [List.mem_cons, Prod.mk.injEq] at h
      rcases h with h | h
      · exact absurd h.1 hk
      · exact ih h

/-- with distinct leaf hashes that are never branch hashes, the index finds every leaf -/
theorem getLoc_leaf (hf : HashFns) (t : Tree) (L : List Bytes) (hh : H2L hf t L) (hnd : L.Nodup)
    (hsep : ∀ a b x, x ∈ L → hf.branch a b ≠ x) (k : Nat) (x : Bytes) (hk : L[k]? = some x) :
    t.getLoc x = some (0, k) := by
  obtain ⟨loc, hloc⟩ := lookup_isSome_of_mem t.h2l x (0, k) (hh.2 k x hk)
  unfold Tree.getLoc
  rw [hloc]
  rcases hh.1 x loc (lookup_mem _ _ _ hloc) with ⟨k', e1, e2⟩ | ⟨a, b, e⟩
  · rw [e1]
    have hklt : k < L.length := by
      rcases Nat.lt_or_ge k L.length with h | h
      · exact h
      · rw [List.getElem?_eq_none h] at hk; cases hk
    have hk'lt : k' < L.length := by
      rcases Nat.lt_or_ge k' L.length with h | h
      · exact h
      · rw [List.getElem?_eq_none h] at e2; cases e2
    have : k' = k := by
      rw [List.getElem?_eq_getElem hklt] at hk
      rw [List.getElem?_eq_getElem hk'lt] at e2
      have h1 := Option.some.inj hk
      have h2 := Option.some.inj e2
      exact (List.getElem_inj hnd).1 (by rw [h1, h2])
    rw [this]
  · exfalso
    exact hsep a b x (List.mem_of_getElem? hk) e.symm


theorem locIndex_some' (h l' k' : Nat) (hl : l' + 1 ≤ h) (hk : k' < 2 ^ (h - 1 - l')) (hb : h ≤ 30) :
    locIndex (l', k') h = some (2 ^ (h - l') + k') := by
  have hb2 : bitLen k' ≤ h - l' := by
    unfold bitLen
    split
    · omega
    · rename_i h0
      have : Nat.log2 k' < h - 1 - l' := (Nat.log2_lt h0).2 hk
      omega
  have h1 : 2 ^ (h - 1 - l') * 2 = 2 ^ (h - l') := by
    rw [← Nat.pow_succ]; congr 1; omega
  have h30 : 2 ^ (h - l') ≤ 2 ^ 30 := Nat.pow_le_pow_right (by decide) (by omega)
  have e31 : (2:Nat) ^ 31 = 2147483648 := by decide
  have e30 : (2:Nat) ^ 30 = 1073741824 := by decide
  unfold locIndex
  simp only
  rw [if_neg (by omega), Nat.max_eq_left hb2, if_neg (by omega)]

theorem blk_leaf (L : List Bytes) (k : Nat) (x : Bytes) (hk : L[k]? = some x) : blk L 0 k = [x] := by
  apply List.ext_getElem?
  intro j
  rw [getElem?_blk]
  cases j with
  | zero => simp [hk]
  | succ j => simp

/-- `GenerateProof` for one leaf of a tree with an exact store returns its LIP-0031 sibling hashes -/
theorem generateProof_single (hf : HashFns) (t : Tree) (L : List Bytes) (hst : Stored hf t L)
    (hsize : t.core.size = L.length) (hh : H2L hf t L) (hnd : L.Nodup)
    (hsep : ∀ a b x, x ∈ L → hf.branch a b ≠ x) (k : Nat) (x : Bytes) (hk : L[k]? = some x)
    (hb : getHeight L.length ≤ 30) :
    generateProof t [x] = some ⟨L.length, [2 ^ getHeight L.length + k],
      sibsFrom hf L k (getHeight L.length - 1) 0⟩ := by
  have hkl : k < L.length := by
    rcases Nat.lt_or_ge k L.length with h | h
    · exact h
    · rw [List.getElem?_eq_none h] at hk; cases hk
  have hn : 1 ≤ L.length := by omega
  have hi1 := lt_pow_height hn hkl
  have hh1 : 1 ≤ getHeight L.length := by simp [getHeight]
  have hiH : k < 2 ^ getHeight L.length :=
    Nat.lt_of_lt_of_le hi1 (Nat.pow_le_pow_right (by decide) (by omega))
  have hpos : 0 < 2 ^ getHeight L.length := Nat.pow_pos (by decide)
  unfold generateProof
  rw [hsize, if_neg (by omega)]
  have hidx : getIndexes t (getHeight L.length) [x] = some [2 ^ getHeight L.length + k] := by
    simp only [getIndexes, getLoc_leaf hf t L hh hnd hsep k x hk]
    rw [locIndex_some' _ 0 k (by omega) (by simpa using hi1) hb]
    simp
  rw [hidx]
  simp only
  unfold siblingHashes
  simp only [hsize, sortIdx_single (2 ^ getHeight L.length + k) (by omega),
    sumBitLen_single (getHeight L.length) k hiH]
  have := siblingLoop_single hf t L hst k hkl (getHeight L.length + 1 + 1) 0 [] (by omega) (by omega)
  rw [nodeIdx_zero] at this
  rcases this with h | h
  · rw [h]; simp
  · omega

theorem verify_generated_single (hf : HashFns) (L : List Bytes) (k : Nat) (x : Bytes) (hk : L[k]? = some x)
    (hb : getHeight L.length ≤ 30) :
    verifyProof hf [x] ⟨L.length, [2 ^ getHeight L.length + k], sibsFrom hf L k (getHeight L.length - 1) 0⟩
      (rootH hf L) = true := by
  have hkl : k < L.length := by
    rcases Nat.lt_or_ge k L.length with h | h
    · exact h
    · rw [List.getElem?_eq_none h] at hk; cases hk
  have hn : 1 ≤ L.length := by omega
  have hi1 := lt_pow_height hn hkl
  have hnH : L.length ≤ 2 ^ (getHeight L.length - 1) := by
    have := le_two_pow_clog2 L.length hn
    simpa [getHeight] using this
  apply verify_single_complete hf L.length k hn hkl hb
  have := walk_val hf L k hkl [] (getHeight L.length - 1) 0
  simp only [Nat.pow_zero, Nat.div_one, Nat.zero_add, List.append_nil] at this
  rw [blk_leaf L k x hk, rootH_singleton, Nat.div_eq_of_lt hi1, blk_top_all L _ hnH] at this
  exact this


/-! ### several leaves: the layer-by-layer specification of `calculatePathNodes` -/

/-- nodes of one layer (position, value), ascending by position -/
abbrev Lay := List (Nat × Bytes)

/-- one node without its sibling in the list: the sibling hash comes from the proof, or the node is
carried up when the sibling subtree is empty -/
def stepOne (hf : HashFns) (n l k : Nat) (v : Bytes) (sibs : List Bytes) : Option (Bytes × List Bytes) :=
  if sibOf k * 2 ^ l < n then
    match sibs with
    | [] => none
    | s :: ss => some (if k % 2 = 0 then hf.branch v s else hf.branch s v, ss)
  else some (v, sibs)

/-- the parents of the nodes of one layer -/
def layerStep (hf : HashFns) (n l : Nat) : Lay → List Bytes → Option (Lay × List Bytes)
  | [], sibs => some ([], sibs)
  | (k, v) :: rest, sibs =>
    match rest with
    | (k', w) :: rest' =>
      if k % 2 = 0 ∧ k' = k + 1 then
        match layerStep hf n l rest' sibs with
        | none => none
        | some (P, s) => some ((k / 2, hf.branch v w) :: P, s)
      else
        match stepOne hf n l k v sibs with
        | none => none
        | some (pv, ss) =>
          match layerStep hf n l ((k', w) :: rest') ss with
          | none => none
          | some (P, s) => some ((k / 2, pv) :: P, s)
    | [] =>
      match stepOne hf n l k v sibs with
      | none => none
      | some (pv, ss) => some ([(k / 2, pv)], ss)

/-- the root computed from the nodes of layer `l`, `f` layers below the root -/
def calcSpec (hf : HashFns) (n : Nat) : Nat → Nat → Lay → List Bytes → Option Bytes
  | 0, _, A, _ =>
    match A with
    | [(_, r)] => some r
    | _ => none
  | f + 1, l, A, sibs =>
    match layerStep hf n l A sibs with
    | none => none
    | some (P, s) => calcSpec hf n f (l + 1) P s

theorem layerStep_pair (hf : HashFns) (n l k : Nat) (v w : Bytes) (rest : Lay) (sibs : List Bytes) (hk : k % 2 = 0) :
    layerStep hf n l ((k, v) :: (k + 1, w) :: rest) sibs =
      match layerStep hf n l rest sibs with
      | none => none
      | some (P, s) => some ((k / 2, hf.branch v w) :: P, s) := by
  rw [layerStep]; simp [hk]

theorem layerStep_single (hf : HashFns) (n l k : Nat) (v : Bytes) (rest : Lay) (sibs : List Bytes)
    (h : ∀ k' w rest', rest = (k', w) :: rest' → ¬ (k % 2 = 0 ∧ k' = k + 1)) :
    layerStep hf n l ((k, v) :: rest) sibs =
      match stepOne hf n l k v sibs with
      | none => none
      | some (pv, ss) =>
        match layerStep hf n l rest ss with
        | none => none
        | some (P, s) => some ((k / 2, pv) :: P, s) := by
  cases rest with
  | nil =>
    rw [layerStep]
    cases stepOne hf n l k v sibs with
    | none => rfl
    | some x => obtain ⟨pv, ss⟩ := x; simp [layerStep]
  | cons a rest' =>
    obtain ⟨k', w⟩ := a
    rw [layerStep]
    simp only [if_neg (h k' w rest' rfl)]

/-- positions of the layer: non-empty nodes -/
def LayOK (n l : Nat) (A : Lay) : Prop := ∀ e ∈ A, e.1 * 2 ^ l < n

theorem half_nonempty {n l k : Nat} (h : k * 2 ^ l < n) : k / 2 * 2 ^ (l + 1) < n := by
  have : k / 2 * 2 ^ (l + 1) ≤ k * 2 ^ l := by
    rw [Nat.pow_succ, Nat.mul_comm (2 ^ l) 2, ← Nat.mul_assoc]
    exact Nat.mul_le_mul_right _ (Nat.div_mul_le_self k 2)
  omega

theorem layerStep_ok (hf : HashFns) (n l : Nat) : ∀ (m : Nat) (A : Lay) (sibs : List Bytes) (P : Lay) (s : List Bytes),
    A.length = m → LayOK n l A → layerStep hf n l A sibs = some (P, s) → LayOK n (l + 1) P ∧ P.length ≤ A.length := by
  intro m
  induction m using Nat.strongRecOn with
  | _ m ih =>
    intro A sibs P s hm hok hs
    match A, hm with
    | [], _ =>
      simp only [layerStep, Option.some.injEq, Prod.mk.injEq] at hs
      rw [← hs.1]; exact ⟨(by intro e he; cases he), (by simp)⟩
    | (k, v) :: rest, hm =>
      have hk : k * 2 ^ l < n := hok (k, v) (by simp)
      have hrest : LayOK n l rest := fun e he => hok e (by simp [he])
      by_cases hp : ∃ w rest', rest = (k + 1, w) :: rest' ∧ k % 2 = 0
      · obtain ⟨w, rest', rfl, hk2⟩ := hp
        rw [layerStep_pair hf n l k v w rest' sibs hk2] at hs
        cases hr : layerStep hf n l rest' sibs with
        | none => rw [hr] at hs; cases hs
        | some x =>
          obtain ⟨P', s'⟩ := x
          rw [hr] at hs
          simp only [Option.some.injEq, Prod.mk.injEq] at hs
          have hrest' : LayOK n l rest' := fun e he => hrest e (by simp [he])
          obtain ⟨h1, h2⟩ := ih rest'.length (by simp at hm; omega) rest' sibs P' s' rfl hrest' hr
          rw [← hs.1]
          refine ⟨?_, by simp; omega⟩
          intro e he
          simp only [List.mem_cons] at he
          rcases he with rfl | he
          · exact half_nonempty hk
          · exact h1 e he
      · rw [layerStep_single hf n l k v rest sibs (by
          intro k' w rest' e hc
          exact hp ⟨w, rest', by rw [e, hc.2], hc.1⟩)] at hs
        cases ho : stepOne hf n l k v sibs with
        | none => rw [ho] at hs; cases hs
        | some y =>
          obtain ⟨pv, ss⟩ := y
          rw [ho] at hs
          simp only at hs
          cases hr : layerStep hf n l rest ss with
          | none => rw [hr] at hs; cases hs
          | some x =>
            obtain ⟨P', s'⟩ := x
            rw [hr] at hs
            simp only [Option.some.injEq, Prod.mk.injEq] at hs
            obtain ⟨h1, h2⟩ := ih rest.length (by simp at hm; omega) rest ss P' s' rfl hrest hr
            rw [← hs.1]
            refine ⟨?_, by simp; omega⟩
            intro e he
            simp only [List.mem_cons] at he
            rcases he with rfl | he
            · exact half_nonempty hk
            · exact h1 e he


theorem stepOne_sound (hf : HashFns) (hinj : BranchInj hf) (L : List Bytes) (l k : Nat) (v pv : Bytes)
    (sibs ss : List Bytes) (hk : k * 2 ^ l < L.length) (ho : stepOne hf L.length l k v sibs = some (pv, ss))
    (hpv : pv = rootH hf (blk L (l + 1) (k / 2))) : v = rootH hf (blk L l k) := by
  have hpar := rootH_blk_parent hf L l k hk
  unfold stepOne at ho
  by_cases hs : sibOf k * 2 ^ l < L.length
  · rw [if_pos hs] at ho hpar
    cases sibs with
    | nil => cases ho
    | cons s0 ss0 =>
      simp only [Option.some.injEq, Prod.mk.injEq] at ho
      rw [← ho.1, hpar] at hpv
      by_cases hev : k % 2 = 0
      · rw [if_pos hev, if_pos hev] at hpv
        exact (hinj _ _ _ _ hpv).1
      · rw [if_neg hev, if_neg hev] at hpv
        exact (hinj _ _ _ _ hpv).2
  · rw [if_neg hs] at ho hpar
    simp only [Option.some.injEq, Prod.mk.injEq] at ho
    rw [ho.1, hpv, hpar]

theorem layerStep_sound (hf : HashFns) (hinj : BranchInj hf) (L : List Bytes) (l : Nat) :
    ∀ (m : Nat) (A : Lay) (sibs : List Bytes) (P : Lay) (s : List Bytes),
    A.length = m → LayOK L.length l A → layerStep hf L.length l A sibs = some (P, s) →
    (∀ e ∈ P, e.2 = rootH hf (blk L (l + 1) e.1)) → ∀ e ∈ A, e.2 = rootH hf (blk L l e.1) := by
  intro m
  induction m using Nat.strongRecOn with
  | _ m ih =>
    intro A sibs P s hm hok hs hP e he
    match A, hm with
    | [], _ => cases he
    | (k, v) :: rest, hm =>
      have hk : k * 2 ^ l < L.length := hok (k, v) (by simp)
      have hrest : LayOK L.length l rest := fun e he => hok e (by simp [he])
      by_cases hp : ∃ w rest', rest = (k + 1, w) :: rest' ∧ k % 2 = 0
      · obtain ⟨w, rest', rfl, hk2⟩ := hp
        rw [layerStep_pair hf _ l k v w rest' sibs hk2] at hs
        cases hr : layerStep hf L.length l rest' sibs with
        | none => rw [hr] at hs; cases hs
        | some x =>
          obtain ⟨P', s'⟩ := x
          rw [hr] at hs
          simp only [Option.some.injEq, Prod.mk.injEq] at hs
          have hrest' : LayOK L.length l rest' := fun e he => hrest e (by simp [he])
          have hk1 : (k + 1) * 2 ^ l < L.length := hrest (k + 1, w) (by simp)
          have hpv := hP (k / 2, hf.branch v w) (by rw [← hs.1]; simp)
          simp only at hpv
          rw [rootH_blk_pair hf L l (k / 2) (by rw [show 2 * (k / 2) + 1 = k + 1 by omega]; exact hk1),
            show 2 * (k / 2) = k by omega] at hpv
          obtain ⟨e1, e2⟩ := hinj _ _ _ _ hpv
          simp only [List.mem_cons] at he
          rcases he with rfl | rfl | he
          · exact e1
          · exact e2
          · exact ih rest'.length (by simp at hm; omega) rest' sibs P' s' rfl hrest' hr
              (fun e he => hP e (by rw [← hs.1]; simp [he])) e he
      · rw [layerStep_single hf _ l k v rest sibs (by
          intro k' w rest' e hc
          exact hp ⟨w, rest', by rw [e, hc.2], hc.1⟩)] at hs
        cases ho : stepOne hf L.length l k v sibs with
        | none => rw [ho] at hs; cases hs
        | some y =>
          obtain ⟨pv, ss⟩ := y
          rw [ho] at hs
          simp only at hs
          cases hr : layerStep hf L.length l rest ss with
          | none => rw [hr] at hs; cases hs
          | some x =>
            obtain ⟨P', s'⟩ := x
            rw [hr] at hs
            simp only [Option.some.injEq, Prod.mk.injEq] at hs
            simp only [List.mem_cons] at he
            rcases he with rfl | he
            · exact stepOne_sound hf hinj L l k v pv sibs ss hk ho (hP (k / 2, pv) (by rw [← hs.1]; simp))
            · exact ih rest.length (by simp at hm; omega) rest ss P' s' rfl hrest hr
                (fun e he => hP e (by rw [← hs.1]; simp [he])) e he

/-- soundness of the specification: if the computed root is the root of `L`, every node of the layer
has the value it has in the tree over `L` -/
theorem calcSpec_sound (hf : HashFns) (hinj : BranchInj hf) (L : List Bytes) :
    ∀ (f l : Nat) (A : Lay) (sibs : List Bytes), L.length ≤ 2 ^ (l + f) → LayOK L.length l A →
    calcSpec hf L.length f l A sibs = some (rootH hf L) → ∀ e ∈ A, e.2 = rootH hf (blk L l e.1) := by
  intro f
  induction f with
  | zero =>
    intro l A sibs hn hok hc e he
    simp only [calcSpec] at hc
    split at hc
    · rename_i k r
      simp only [List.mem_singleton] at he
      subst he
      have hk := hok (k, r) (by simp)
      simp only [Nat.add_zero] at hn hk
      have hp : 0 < 2 ^ l := Nat.pow_pos (by decide)
      have hk0 : k = 0 := by
        rcases Nat.eq_zero_or_pos k with h | h
        · exact h
        · have : 2 ^ l ≤ k * 2 ^ l := Nat.le_mul_of_pos_left _ h
          omega
      subst hk0
      simp only [Option.some.injEq] at hc
      rw [blk_top_all L l hn]; exact hc
    · cases hc
  | succ f ih =>
    intro l A sibs hn hok hc
    simp only [calcSpec] at hc
    cases hr : layerStep hf L.length l A sibs with
    | none => rw [hr] at hc; cases hc
    | some x =>
      obtain ⟨P, s⟩ := x
      rw [hr] at hc
      simp only at hc
      have hokP := (layerStep_ok hf L.length l A.length A sibs P s rfl hok hr).1
      have := ih (l + 1) P s (by rw [show l + 1 + f = l + (f + 1) by omega]; exact hn) hokP hc
      exact layerStep_sound hf hinj L l A.length A sibs P s rfl hok hr this


/-! ### several leaves: the sibling hashes of a proof, layer by layer -/

def sibOne (hf : HashFns) (L : List Bytes) (l k : Nat) : List Bytes :=
  if sibOf k * 2 ^ l < L.length then [rootH hf (blk L l (sibOf k))] else []

/-- the sibling hashes needed at one layer and the positions of the parents -/
def sibLayer (hf : HashFns) (L : List Bytes) (l : Nat) : List Nat → List Bytes × List Nat
  | [] => ([], [])
  | k :: rest =>
    match rest with
    | k' :: rest' =>
      if k % 2 = 0 ∧ k' = k + 1 then ((sibLayer hf L l rest').1, k / 2 :: (sibLayer hf L l rest').2)
      else (sibOne hf L l k ++ (sibLayer hf L l (k' :: rest')).1, k / 2 :: (sibLayer hf L l (k' :: rest')).2)
    | [] => (sibOne hf L l k, [k / 2])

def sibSpec (hf : HashFns) (L : List Bytes) : Nat → Nat → List Nat → List Bytes
  | 0, _, _ => []
  | f + 1, l, A => (sibLayer hf L l A).1 ++ sibSpec hf L f (l + 1) (sibLayer hf L l A).2

theorem sibLayer_pair (hf : HashFns) (L : List Bytes) (l k : Nat) (rest : List Nat) (hk : k % 2 = 0) :
    sibLayer hf L l (k :: (k + 1) :: rest) = ((sibLayer hf L l rest).1, k / 2 :: (sibLayer hf L l rest).2) := by
  rw [sibLayer]; simp [hk]

theorem sibLayer_single (hf : HashFns) (L : List Bytes) (l k : Nat) (rest : List Nat)
    (h : ∀ k' rest', rest = k' :: rest' → ¬ (k % 2 = 0 ∧ k' = k + 1)) :
    sibLayer hf L l (k :: rest) = (sibOne hf L l k ++ (sibLayer hf L l rest).1, k / 2 :: (sibLayer hf L l rest).2) := by
  cases rest with
  | nil => rw [sibLayer]; simp [sibLayer]
  | cons k' rest' => rw [sibLayer]; simp only [if_neg (h k' rest' rfl)]

/-- the nodes with their values in the tree over `L` -/
def valLay (hf : HashFns) (L : List Bytes) (l : Nat) (A : List Nat) : Lay := A.map fun k => (k, rootH hf (blk L l k))

theorem stepOne_val (hf : HashFns) (L : List Bytes) (l k : Nat) (extra : List Bytes) (hk : k * 2 ^ l < L.length) :
    stepOne hf L.length l k (rootH hf (blk L l k)) (sibOne hf L l k ++ extra)
      = some (rootH hf (blk L (l + 1) (k / 2)), extra) := by
  have hpar := rootH_blk_parent hf L l k hk
  unfold stepOne sibOne
  by_cases hs : sibOf k * 2 ^ l < L.length
  · rw [if_pos hs] at hpar ⊢
    rw [if_pos hs, hpar]
    simp
  · rw [if_neg hs] at hpar ⊢
    rw [if_neg hs, hpar]
    simp

theorem layerStep_complete (hf : HashFns) (L : List Bytes) (l : Nat) : ∀ (m : Nat) (A : List Nat) (extra : List Bytes),
    A.length = m → (∀ k ∈ A, k * 2 ^ l < L.length) →
    layerStep hf L.length l (valLay hf L l A) ((sibLayer hf L l A).1 ++ extra)
      = some (valLay hf L (l + 1) (sibLayer hf L l A).2, extra) := by
  intro m
  induction m using Nat.strongRecOn with
  | _ m ih =>
    intro A extra hm hok
    match A, hm with
    | [], _ => simp [sibLayer, valLay, layerStep]
    | k :: rest, hm =>
      have hk : k * 2 ^ l < L.length := hok k (by simp)
      have hrest : ∀ k ∈ rest, k * 2 ^ l < L.length := fun e he => hok e (by simp [he])
      by_cases hp : ∃ rest', rest = (k + 1) :: rest' ∧ k % 2 = 0
      · obtain ⟨rest', rfl, hk2⟩ := hp
        have hk1 : (k + 1) * 2 ^ l < L.length := hrest (k + 1) (by simp)
        rw [sibLayer_pair hf L l k rest' hk2]
        simp only [valLay, List.map_cons]
        rw [layerStep_pair hf _ l k _ _ _ _ hk2]
        have := ih rest'.length (by simp at hm; omega) rest' extra rfl (fun e he => hrest e (by simp [he]))
        simp only [valLay] at this
        rw [this]
        simp only
        rw [rootH_blk_pair hf L l (k / 2) (by rw [show 2 * (k / 2) + 1 = k + 1 by omega]; exact hk1),
          show 2 * (k / 2) = k by omega, show k + 1 = 2 * (k / 2) + 1 by omega, show 2 * (k / 2) = k by omega]
      · have hns : ∀ k' rest', rest = k' :: rest' → ¬ (k % 2 = 0 ∧ k' = k + 1) := by
          intro k' rest' e hc
          exact hp ⟨rest', by rw [e, hc.2], hc.1⟩
        rw [sibLayer_single hf L l k rest hns]
        simp only [valLay, List.map_cons]
        rw [layerStep_single hf _ l k _ _ _ (by
          intro k' w rest' e hc
          cases rest with
          | nil => simp at e
          | cons a r =>
            simp only [List.map_cons, List.cons.injEq, Prod.mk.injEq] at e
            exact hns a r rfl ⟨hc.1, by rw [e.1.1]; exact hc.2⟩)]
        rw [List.append_assoc, stepOne_val hf L l k _ hk]
        simp only
        have := ih rest.length (by simp at hm; omega) rest extra rfl hrest
        simp only [valLay] at this
        rw [this]

theorem sibLayer_ok (hf : HashFns) (L : List Bytes) (l : Nat) : ∀ (m : Nat) (A : List Nat), A.length = m →
    (∀ k ∈ A, k * 2 ^ l < L.length) → A.Pairwise (· < ·) →
    (∀ k ∈ (sibLayer hf L l A).2, k * 2 ^ (l + 1) < L.length) ∧ (sibLayer hf L l A).2.Pairwise (· < ·) ∧
    (∀ k ∈ (sibLayer hf L l A).2, ∃ a ∈ A, k = a / 2) ∧ ((sibLayer hf L l A).2 = [] → A = []) := by
  intro m
  induction m using Nat.strongRecOn with
  | _ m ih =>
    intro A hm hok hasc
    match A, hm with
    | [], _ => simp [sibLayer]
    | k :: rest, hm =>
      have hk : k * 2 ^ l < L.length := hok k (by simp)
      have hrest : ∀ k ∈ rest, k * 2 ^ l < L.length := fun e he => hok e (by simp [he])
      have hasc' := List.pairwise_cons.mp hasc
      by_cases hp : ∃ rest', rest = (k + 1) :: rest' ∧ k % 2 = 0
      · obtain ⟨rest', rfl, hk2⟩ := hp
        rw [sibLayer_pair hf L l k rest' hk2]
        have hasc'' := List.pairwise_cons.mp hasc'.2
        obtain ⟨h1, h2, h3, _⟩ := ih rest'.length (by simp at hm; omega) rest' rfl
          (fun e he => hrest e (by simp [he])) hasc''.2
        refine ⟨?_, ?_, ?_, by simp⟩
        · intro e he
          simp only [List.mem_cons] at he
          rcases he with rfl | he
          · exact half_nonempty hk
          · exact h1 e he
        · refine List.pairwise_cons.mpr ⟨?_, h2⟩
          intro e he
          obtain ⟨a, ha, rfl⟩ := h3 e he
          have := hasc''.1 a ha
          omega
        · intro e he
          simp only [List.mem_cons] at he
          rcases he with rfl | he
          · exact ⟨k, by simp, rfl⟩
          · obtain ⟨a, ha, e'⟩ := h3 e he
            exact ⟨a, by simp [ha], e'⟩
      · have hns : ∀ k' rest', rest = k' :: rest' → ¬ (k % 2 = 0 ∧ k' = k + 1) := by
          intro k' rest' e hc
          exact hp ⟨rest', by rw [e, hc.2], hc.1⟩
        rw [sibLayer_single hf L l k rest hns]
        obtain ⟨h1, h2, h3, _⟩ := ih rest.length (by simp at hm; omega) rest rfl hrest hasc'.2
        refine ⟨?_, ?_, ?_, by simp⟩
        · intro e he
          simp only [List.mem_cons] at he
          rcases he with rfl | he
          · exact half_nonempty hk
          · exact h1 e he
        · refine List.pairwise_cons.mpr ⟨?_, h2⟩
          intro e he
          obtain ⟨a, ha, rfl⟩ := h3 e he
          have hka := hasc'.1 a ha
          -- `a` is not the right sibling of `k`
          cases rest with
          | nil => cases ha
          | cons k' r =>
            have hk' := hasc'.1 k' (by simp)
            have hnot := hns k' r rfl
            simp only [List.mem_cons] at ha
            rcases ha with rfl | ha
            · omega
            · have := (List.pairwise_cons.mp hasc'.2).1 a ha
              omega
        · intro e he
          simp only [List.mem_cons] at he
          rcases he with rfl | he
          · exact ⟨k, by simp, rfl⟩
          · obtain ⟨a, ha, e'⟩ := h3 e he
            exact ⟨a, by simp [ha], e'⟩

/-- completeness of the specification: from the values of the tree and the sibling hashes of the
specification, the root is recomputed -/
theorem calcSpec_complete (hf : HashFns) (L : List Bytes) : ∀ (f l : Nat) (A : List Nat) (extra : List Bytes),
    L.length ≤ 2 ^ (l + f) → A ≠ [] → (∀ k ∈ A, k * 2 ^ l < L.length) → A.Pairwise (· < ·) →
    calcSpec hf L.length f l (valLay hf L l A) (sibSpec hf L f l A ++ extra) = some (rootH hf L) := by
  intro f
  induction f with
  | zero =>
    intro l A extra hn hne hok hasc
    simp only [Nat.add_zero] at hn
    have hp : 0 < 2 ^ l := Nat.pow_pos (by decide)
    have hzero : ∀ k ∈ A, k = 0 := by
      intro k hk
      have := hok k hk
      rcases Nat.eq_zero_or_pos k with h | h
      · exact h
      · have : 2 ^ l ≤ k * 2 ^ l := Nat.le_mul_of_pos_left _ h
        omega
    match A, hne with
    | [k], _ =>
      have := hzero k (by simp)
      subst this
      simp [calcSpec, valLay, blk_top_all L l hn]
    | k :: k' :: r, _ =>
      have h1 := hzero k (by simp)
      have h2 := hzero k' (by simp)
      have := (List.pairwise_cons.mp hasc).1 k' (by simp)
      omega
  | succ f ih =>
    intro l A extra hn hne hok hasc
    simp only [calcSpec, sibSpec]
    rw [List.append_assoc, layerStep_complete hf L l A.length A _ rfl hok]
    simp only
    obtain ⟨h1, h2, _, h4⟩ := sibLayer_ok hf L l A.length A rfl hok hasc
    exact ih (l + 1) _ extra (by rw [show l + 1 + f = l + (f + 1) by omega]; exact hn)
      (fun e => hne (h4 e)) h1 h2


/-! ### `indexes.insert` when the new index sorts after all others -/

theorem getD_mem {arr : List Nat} {j : Nat} (h : j < arr.length) : arr.getD j 0 ∈ arr := by
  rw [List.getD_eq_getElem?_getD, List.getElem?_eq_getElem h]; simp

theorem findInsertIndex_last (arr : List Nat) (x : Nat)
    (h1 : ∀ e ∈ arr, e ≠ x → idxLt x e = false)
    (h2 : ∀ j, j + 1 < arr.length → arr.getD j 0 ≠ x) :
    ∀ (fuel lo : Nat), lo ≤ arr.length → arr.length - lo < fuel → (lo = arr.length → x ∉ arr) →
      (findInsertIndex arr x fuel lo arr.length < arr.length ∧
        arr.getD (findInsertIndex arr x fuel lo arr.length) 0 = x) ∨
      (findInsertIndex arr x fuel lo arr.length = arr.length ∧ x ∉ arr) := by
  intro fuel
  induction fuel with
  | zero => intro lo _ h _; omega
  | succ f ih =>
    intro lo hlo hfuel hend
    simp only [findInsertIndex]
    by_cases hlt : lo < arr.length
    · rw [if_pos hlt]
      have hmid : lo + (arr.length - lo + 1) / 2 - 1 < arr.length := by omega
      have hmid2 : lo ≤ lo + (arr.length - lo + 1) / 2 - 1 := by omega
      generalize lo + (arr.length - lo + 1) / 2 - 1 = middle at hmid hmid2
      by_cases heq : arr.getD middle 0 = x
      · left
        have : (arr.getD middle 0 == x) = true := by simpa using heq
        rw [if_pos this]
        exact ⟨hmid, heq⟩
      · have hne : ¬ ((arr.getD middle 0 == x) = true) := by simpa using heq
        rw [if_neg hne]
        have hlt' := h1 _ (getD_mem hmid) heq
        unfold idxLt at hlt'
        have hnext := ih (middle + 1) (by omega) (by omega) (by
          intro he hm
          obtain ⟨j, hj, hjx⟩ := List.getElem_of_mem hm
          have hjd : arr.getD j 0 = x := by
            rw [List.getD_eq_getElem?_getD, List.getElem?_eq_getElem hj]; simpa using hjx
          by_cases hj1 : j + 1 < arr.length
          · exact h2 j hj1 hjd
          · have : j = middle := by omega
            subst this; exact heq hjd)
        by_cases hb : (bitLen x == bitLen (arr.getD middle 0)) = true
        · rw [if_pos hb] at hlt' ⊢
          have : ¬ x < arr.getD middle 0 := by simpa using hlt'
          rw [if_neg this]; exact hnext
        · rw [if_neg hb] at hlt' ⊢
          have : ¬ x > arr.getD middle 0 := by simpa using hlt'
          rw [if_neg this]; exact hnext
    · rw [if_neg hlt]
      right
      exact ⟨rfl, hend (by omega)⟩

theorem insertIdx_spec (arr pre suf : List Nat) (x : Nat) (harr : arr = pre ++ suf) (hsuf : suf.length ≤ 1)
    (h1 : ∀ e ∈ arr, e ≠ x → idxLt x e = false) (hpre : x ∉ pre) :
    insertIdx arr x = if x ∈ arr then arr else arr ++ [x] := by
  have h2 : ∀ j, j + 1 < arr.length → arr.getD j 0 ≠ x := by
    intro j hj he
    have hjp : j < pre.length := by rw [harr] at hj; simp at hj; omega
    apply hpre
    rw [← he, harr, List.getD_eq_getElem?_getD, List.getElem?_append_left hjp, List.getElem?_eq_getElem hjp]
    simp
  have := findInsertIndex_last arr x h1 h2 (arr.length + 1) 0 (by omega) (by omega) (by
    intro h0
    have : arr = [] := List.eq_nil_of_length_eq_zero h0.symm
    rw [this]; simp)
  unfold insertIdx
  simp only
  rcases this with ⟨h3, h4⟩ | ⟨h3, h4⟩
  · have hmem : x ∈ arr := by rw [← h4]; exact getD_mem h3
    rw [if_neg (by omega), if_pos hmem]
    have : ¬ ((arr.getD (findInsertIndex arr x (arr.length + 1) 0 arr.length) 0 != x) = true) := by
      rw [h4]; simp
    rw [if_neg this]
  · rw [if_pos (by omega), if_neg h4]


/-! ### indexes of nodes by position -/

/-- the index of the node at position `k` of layer `l` in a tree of height `h` -/
def nIdx (h l k : Nat) : Nat := 2 ^ (h - l) + k

theorem nIdx_eq_nodeIdx (h l k : Nat) : nIdx h l k = nodeIdx h (k * 2 ^ l) l := by
  unfold nIdx nodeIdx
  rw [Nat.mul_div_cancel _ (Nat.pow_pos (by decide))]

theorem pos_lt_of_nonempty {n h l k : Nat} (hn : n ≤ 2 ^ (h - 1)) (hl : l ≤ h - 1) (hk : k * 2 ^ l < n) :
    k < 2 ^ (h - 1 - l) := by
  have : k * 2 ^ l < 2 ^ (h - 1 - l) * 2 ^ l := by rw [pow_split hl]; omega
  exact Nat.lt_of_mul_lt_mul_right this

theorem pow_pred_le {h l : Nat} : 2 ^ (h - 1 - l) ≤ 2 ^ (h - l) := Nat.pow_le_pow_right (by decide) (by omega)

theorem nIdx_log2 {h l k : Nat} (hk : k < 2 ^ (h - l)) : Nat.log2 (nIdx h l k) = h - l := by
  unfold nIdx
  apply log2_eq_of
  · omega
  · rw [Nat.pow_succ]; omega

theorem bitLen_nIdx {h l k : Nat} (hk : k < 2 ^ (h - l)) : bitLen (nIdx h l k) = h - l + 1 := by
  have hp : 0 < 2 ^ (h - l) := Nat.pow_pos (by decide)
  unfold bitLen
  rw [if_neg (by unfold nIdx; omega), nIdx_log2 hk]

theorem nIdx_inj {h l l' k k' : Nat} (hl : l ≤ h) (hl' : l' ≤ h) (hk : k < 2 ^ (h - l)) (hk' : k' < 2 ^ (h - l'))
    (e : nIdx h l k = nIdx h l' k') : l = l' ∧ k = k' := by
  have h1 := nIdx_log2 hk
  have h2 := nIdx_log2 hk'
  rw [e, h2] at h1
  have : l = l' := by omega
  subst this
  unfold nIdx at e
  exact ⟨rfl, by omega⟩

theorem nIdx_half {h l k : Nat} (hl : l + 1 ≤ h) : nIdx h l k / 2 = nIdx h (l + 1) (k / 2) := by
  unfold nIdx
  have e : 2 ^ (h - l) = 2 * 2 ^ (h - (l + 1)) := by
    rw [show h - l = (h - (l + 1)) + 1 by omega, Nat.pow_succ]; omega
  rw [e]; omega

theorem nIdx_mod2 {h l k : Nat} (hl : l + 1 ≤ h) : nIdx h l k % 2 = k % 2 := by
  unfold nIdx
  have e : 2 ^ (h - l) = 2 * 2 ^ (h - (l + 1)) := by
    rw [show h - l = (h - (l + 1)) + 1 by omega, Nat.pow_succ]; omega
  rw [e]; omega

theorem nIdx_ne_two {h l k : Nat} (hl : l + 2 ≤ h) : nIdx h l k ≠ 2 := by
  unfold nIdx
  have : 2 ^ 2 ≤ 2 ^ (h - l) := Nat.pow_le_pow_right (by decide) (by omega)
  omega

theorem newLoc_nIdx {h l k : Nat} (hl : l ≤ h) (hk : k < 2 ^ (h - l)) (loc : Loc)
    (e : newLoc (nIdx h l k) h = some loc) : loc = (l, k) := by
  rw [nIdx_eq_nodeIdx] at e
  have hi : k * 2 ^ l < 2 ^ h := by
    have : k * 2 ^ l < 2 ^ (h - l) * 2 ^ l := Nat.mul_lt_mul_of_pos_right hk (Nat.pow_pos (by decide))
    rw [pow_split hl] at this; exact this
  have := newLoc_nodeIdx h (k * 2 ^ l) l hi hl loc e
  rw [Nat.mul_div_cancel _ (Nat.pow_pos (by decide))] at this
  exact this

theorem newLoc_nIdx_some {h l k : Nat} (hl : l + 1 ≤ h) (hk : k * 2 ^ l < 2 ^ (h - 1)) (hb : h ≤ 30) :
    newLoc (nIdx h l k) h = some (l, k) := by
  rw [nIdx_eq_nodeIdx, newLoc_nodeIdx_some h (k * 2 ^ l) l hk hl hb,
    Nat.mul_div_cancel _ (Nat.pow_pos (by decide))]

/-- the location at which the block of the node `(l, k)` is stored (found by `getRightSiblingInfo`) -/
def repLoc (n l k : Nat) : Loc := descend (layerStructure n) (l + 1) k l

theorem repLoc_spec (n l k : Nat) : ∃ l', l' ≤ l ∧ repLoc n l k = (l', k * 2 ^ (l - l')) ∧
    (k * 2 ^ l < n → proper n l' (k * 2 ^ (l - l'))) := by
  obtain ⟨l', h1, h2, _, h4, _⟩ := descend_blk (List.replicate n []) (l + 1) l k (by omega)
  simp only [List.length_replicate] at h2 h4
  exact ⟨l', h1, h2, h4⟩

theorem repLoc_proper {n l k : Nat} (h : proper n l k) : repLoc n l k = (l, k) := by
  unfold repLoc
  simp only [descend]
  rcases h with ⟨h0, _⟩ | ⟨h1, h2⟩
  · subst h0; simp
  · have := (lt_layerStructure_iff n l k h1).2 h2
    rw [if_neg]
    simp only [Bool.and_eq_true, decide_eq_true_eq, not_and]
    intro h3; omega

theorem repLoc_carry {n l m : Nat} (h : ¬ proper n (l + 1) m) : repLoc n (l + 1) m = repLoc n l (m * 2) := by
  unfold repLoc
  rw [descend]
  have : ¬ m < (layerStructure n).getD (l + 1) 0 := by
    intro hlt
    exact h (Or.inr ⟨by omega, (lt_layerStructure_iff n (l + 1) m (by omega)).1 hlt⟩)
  rw [if_pos (by simp only [Bool.and_eq_true, decide_eq_true_eq]; exact ⟨by omega, by omega⟩)]
  simp

theorem rsi_eq_repLoc {n k l : Nat} (hlt : sibOf k * 2 ^ l < n) :
    rightSiblingInfo (layerStructure n) k l n = some (repLoc n l (sibOf k)) := by
  obtain ⟨l', h1, h2, h3⟩ := repLoc_spec n l (sibOf k)
  unfold rightSiblingInfo
  rw [sib_eq]
  show (if (repLoc n l (sibOf k)).2 ≥ n then none else some (repLoc n l (sibOf k))) = _
  have := proper_lt (h3 hlt)
  have hp : 0 < 2 ^ l' := Nat.pow_pos (by decide)
  have : sibOf k * 2 ^ (l - l') < n := by
    have : sibOf k * 2 ^ (l - l') ≤ sibOf k * 2 ^ (l - l') * 2 ^ l' := Nat.le_mul_of_pos_right _ hp
    omega
  rw [h2, if_neg (by simp; omega)]


/-! ### one iteration of `calculatePathNodes` -/

/-- the index of a location -/
def locIdx (h : Nat) (loc : Loc) : Nat := nIdx h loc.1 loc.2

theorem locIndex_repLoc {n h l k sidx : Nat} (hnH : n ≤ 2 ^ (h - 1)) (hl : l + 2 ≤ h) (hk : k * 2 ^ l < n)
    (e : locIndex (repLoc n l k) h = some sidx) : sidx = locIdx h (repLoc n l k) := by
  obtain ⟨l', h1, h2, h3⟩ := repLoc_spec n l k
  rw [h2] at e ⊢
  have := pos_lt_of_nonempty hnH (show l' ≤ h - 1 by omega) (proper_lt (h3 hk))
  exact locIndex_eq h l' _ sidx (by omega) this e

theorem locIndex_repLoc_some {n h l k : Nat} (hnH : n ≤ 2 ^ (h - 1)) (hl : l + 2 ≤ h) (hk : k * 2 ^ l < n)
    (hb : h ≤ 30) : locIndex (repLoc n l k) h = some (locIdx h (repLoc n l k)) := by
  obtain ⟨l', h1, h2, h3⟩ := repLoc_spec n l k
  rw [h2]
  have := pos_lt_of_nonempty hnH (show l' ≤ h - 1 by omega) (proper_lt (h3 hk))
  exact locIndex_some h l' _ (by omega) this hb

theorem calcLoop_iter (hf : HashFns) (n h : Nat) (hnH : n ≤ 2 ^ (h - 1)) (l k : Nat) (hl : l + 2 ≤ h)
    (hk : k * 2 ^ l < n) (f : Nat) (W : List Nat) (R C : List (Nat × Bytes)) (sibs : List Bytes) (v : Bytes)
    (hlook : look R C (nIdx h l k) = some v) :
    (calcLoop hf (layerStructure n) n h (f + 1) (nIdx h l k :: W) R C sibs =
      if sibOf k * 2 ^ l < n then
        match takeSibling R (locIdx h (repLoc n l (sibOf k))) sibs with
        | none => none
        | some (sh, sibs') =>
          if parentConflict R (nIdx h (l + 1) (k / 2)) (if k % 2 = 0 then hf.branch v sh else hf.branch sh v) then none
          else calcLoop hf (layerStructure n) n h f (insertIdx W (nIdx h (l + 1) (k / 2)))
            (mapSet R (nIdx h (l + 1) (k / 2)) (if k % 2 = 0 then hf.branch v sh else hf.branch sh v)) C sibs'
      else calcLoop hf (layerStructure n) n h f (insertIdx W (nIdx h (l + 1) (k / 2))) R
        (mapSet C (nIdx h (l + 1) (k / 2)) v) sibs) ∨
    (calcLoop hf (layerStructure n) n h (f + 1) (nIdx h l k :: W) R C sibs = none ∧ 30 < h) := by
  have hkb := pos_lt_of_nonempty hnH (show l ≤ h - 1 by omega) hk
  have hkb' : k < 2 ^ (h - l) := Nat.lt_of_lt_of_le hkb pow_pred_le
  have hne : (nIdx h l k == 2) = false := by simpa using nIdx_ne_two hl
  simp only [calcLoop, hne, Bool.false_eq_true, if_false, hlook]
  cases hloc : newLoc (nIdx h l k) h with
  | none =>
    right
    refine ⟨rfl, ?_⟩
    rcases Nat.lt_or_ge 30 h with hb | hb
    · exact hb
    · rw [newLoc_nIdx_some (by omega) (by omega) hb] at hloc; cases hloc
  | some loc =>
    have := newLoc_nIdx (by omega) hkb' loc hloc
    subst this
    simp only
    rw [nIdx_half (by omega)]
    by_cases hlt : sibOf k * 2 ^ l < n
    · rw [if_pos hlt, rsi_eq_repLoc hlt]
      simp only
      cases hsidx : locIndex (repLoc n l (sibOf k)) h with
      | none =>
        right
        refine ⟨rfl, ?_⟩
        rcases Nat.lt_or_ge 30 h with hb | hb
        · exact hb
        · rw [locIndex_repLoc_some hnH hl hlt hb] at hsidx; cases hsidx
      | some sidx =>
        left
        have := locIndex_repLoc hnH hl hlt hsidx
        subst this
        simp only
        cases takeSibling R (locIdx h (repLoc n l (sibOf k))) sibs with
        | none => rfl
        | some x =>
          obtain ⟨sh, sibs'⟩ := x
          simp only
          have hm : nIdx h l k % 2 = k % 2 := nIdx_mod2 (by omega)
          by_cases hev : k % 2 = 0
          · have : (nIdx h l k % 2 == 0) = true := by simp [hm, hev]
            simp only [this, if_true, hev]
          · have : (nIdx h l k % 2 == 0) = false := by simp [hm, hev]
            simp only [this, Bool.false_eq_true, if_false, hev]
    · left
      rw [if_neg hlt, rsi_none _ _ _ (by omega)]


/-! ### the invariant of `calculatePathNodes` inside a layer -/

theorem look_mapSet_R_ne (R C : List (Nat × Bytes)) (p key : Nat) (x : Bytes) (h : key ≠ p) :
    look (mapSet R p x) C key = look R C key := by
  simp only [look, lookup_mapSet_ne _ _ _ _ h]

theorem look_mapSet_C_ne (R C : List (Nat × Bytes)) (p key : Nat) (x : Bytes) (h : key ≠ p) :
    look R (mapSet C p x) key = look R C key := by
  simp only [look, lookup_mapSet_ne _ _ _ _ h]

theorem look_mapSet_R_self (R C : List (Nat × Bytes)) (p : Nat) (x : Bytes) :
    look (mapSet R p x) C p = some x := by
  simp [look, lookup_mapSet_self]

theorem look_mapSet_C_self (R C : List (Nat × Bytes)) (p : Nat) (x : Bytes) (h : R.lookup p = none) :
    look R (mapSet C p x) p = some x := by
  simp [look, h, lookup_mapSet_self]

/-- `A`: the nodes of layer `l` still to be processed, `B`: the parents found so far -/
structure CInv (n h l : Nat) (A B : Lay) (R C : List (Nat × Bytes)) : Prop where
  ascA : A.Pairwise (fun x y => x.1 < y.1)
  okA : LayOK n l A
  ascB : B.Pairwise (fun x y => x.1 < y.1)
  okB : LayOK n (l + 1) B
  sepBA : ∀ b ∈ B, ∀ a ∈ A, 2 * b.1 + 1 < a.1
  valA : ∀ e ∈ A, look R C (nIdx h l e.1) = some e.2 ∧ R.lookup (locIdx h (repLoc n l e.1)) = some e.2
  valB : ∀ e ∈ B, look R C (nIdx h (l + 1) e.1) = some e.2 ∧ R.lookup (locIdx h (repLoc n (l + 1) e.1)) = some e.2
  keys : ∀ key v, R.lookup key = some v → ∃ l' k', l' ≤ l + 1 ∧ k' * 2 ^ l' < n ∧ key = nIdx h l' k' ∧
    ((l' ≤ l ∧ ∃ e ∈ A, e.1 = k' / 2 ^ (l - l')) ∨ (∃ e ∈ B, e.1 = k' / 2 ^ (l + 1 - l')))

theorem locIdx_repLoc_ne {n h l k l2 k2 : Nat} (hnH : n ≤ 2 ^ (h - 1)) (hl : l + 1 ≤ h) (hk : k * 2 ^ l < n)
    (hl2 : l2 ≤ h) (hk2 : k2 < 2 ^ (h - l2)) (hne : l2 = l → k2 ≠ k) (hgt : l ≤ l2) :
    locIdx h (repLoc n l k) ≠ nIdx h l2 k2 := by
  obtain ⟨l', h1, h2, h3⟩ := repLoc_spec n l k
  rw [h2]
  intro e
  unfold locIdx at e
  simp only at e
  have hb := pos_lt_of_nonempty hnH (show l' ≤ h - 1 by omega) (proper_lt (h3 hk))
  obtain ⟨e1, e2⟩ := nIdx_inj (by omega) hl2 (Nat.lt_of_lt_of_le hb pow_pred_le) hk2 e
  have : l' = l := by omega
  subst this
  simp at e2
  exact hne e1.symm e2.symm

theorem CInv_advance {n h l : Nat} (hnH : n ≤ 2 ^ (h - 1)) (hl : l + 2 ≤ h) {pre rest B : Lay}
    {R C R' C' : List (Nat × Bytes)} {m : Nat} {pv : Bytes}
    (hinv : CInv n h l (pre ++ rest) B R C) (hne : pre ≠ []) (hpre : ∀ e ∈ pre, e.1 / 2 = m)
    (hsep : ∀ a ∈ rest, 2 * m + 1 < a.1)
    (P1 : ∀ key, key ≠ nIdx h (l + 1) m → R'.lookup key = R.lookup key ∧ look R' C' key = look R C key)
    (P2 : look R' C' (nIdx h (l + 1) m) = some pv ∧ R'.lookup (locIdx h (repLoc n (l + 1) m)) = some pv) :
    CInv n h l rest (B ++ [(m, pv)]) R' C' := by
  obtain ⟨e0, he0⟩ := List.exists_mem_of_ne_nil pre hne
  have he0A : e0 ∈ pre ++ rest := by simp [he0]
  have hm0 := hpre e0 he0
  have hmok : m * 2 ^ (l + 1) < n := by rw [← hm0]; exact half_nonempty (hinv.okA e0 he0A)
  have hmb := pos_lt_of_nonempty hnH (show l + 1 ≤ h - 1 by omega) hmok
  have hmb' : m < 2 ^ (h - (l + 1)) := Nat.lt_of_lt_of_le hmb pow_pred_le
  have hBlt : ∀ b ∈ B, b.1 < m := by
    intro b hb
    have := hinv.sepBA b hb e0 he0A
    omega
  refine ⟨(List.pairwise_append.mp hinv.ascA).2.1, fun e he => hinv.okA e (by simp [he]), ?_, ?_, ?_, ?_, ?_, ?_⟩
  · -- ascB
    rw [List.pairwise_append]
    refine ⟨hinv.ascB, by simp, ?_⟩
    intro b hb c hc
    simp only [List.mem_singleton] at hc
    subst hc
    exact hBlt b hb
  · -- okB
    intro e he
    simp only [List.mem_append, List.mem_singleton] at he
    rcases he with he | rfl
    · exact hinv.okB e he
    · exact hmok
  · -- sepBA
    intro b hb a ha
    simp only [List.mem_append, List.mem_singleton] at hb
    rcases hb with hb | rfl
    · exact hinv.sepBA b hb a (by simp [ha])
    · exact hsep a ha
  · -- valA
    intro e he
    have heA : e ∈ pre ++ rest := by simp [he]
    have hek := hinv.okA e heA
    have hekb := pos_lt_of_nonempty hnH (show l ≤ h - 1 by omega) hek
    obtain ⟨v1, v2⟩ := hinv.valA e heA
    have hk1 : nIdx h l e.1 ≠ nIdx h (l + 1) m := by
      intro e'
      have := (nIdx_inj (by omega) (by omega) (Nat.lt_of_lt_of_le hekb pow_pred_le) hmb' e').1
      omega
    have hk2 := locIdx_repLoc_ne hnH (show l + 1 ≤ h by omega) hek (show l + 1 ≤ h by omega) hmb'
      (by omega) (by omega)
    exact ⟨by rw [(P1 _ hk1).2]; exact v1, by rw [(P1 _ hk2).1]; exact v2⟩
  · -- valB
    intro e he
    simp only [List.mem_append, List.mem_singleton] at he
    rcases he with he | rfl
    · have hek := hinv.okB e he
      have hekb := pos_lt_of_nonempty hnH (show l + 1 ≤ h - 1 by omega) hek
      obtain ⟨v1, v2⟩ := hinv.valB e he
      have hlt := hBlt e he
      have hk1 : nIdx h (l + 1) e.1 ≠ nIdx h (l + 1) m := by
        intro e'
        have := (nIdx_inj (by omega) (by omega) (Nat.lt_of_lt_of_le hekb pow_pred_le) hmb' e').2
        omega
      have hk2 := locIdx_repLoc_ne hnH (show l + 1 + 1 ≤ h by omega) hek (show l + 1 ≤ h by omega) hmb'
        (by intro _; omega) (by omega)
      exact ⟨by rw [(P1 _ hk1).2]; exact v1, by rw [(P1 _ hk2).1]; exact v2⟩
    · exact P2
  · -- keys
    intro key v hv
    by_cases hkey : key = nIdx h (l + 1) m
    · refine ⟨l + 1, m, Nat.le_refl _, hmok, hkey, Or.inr ⟨(m, pv), by simp, ?_⟩⟩
      simp
    · rw [(P1 key hkey).1] at hv
      obtain ⟨l', k', h1, h2, h3, h4⟩ := hinv.keys key v hv
      refine ⟨l', k', h1, h2, h3, ?_⟩
      rcases h4 with ⟨h5, e, he, hek⟩ | ⟨e, he, hek⟩
      · simp only [List.mem_append] at he
        rcases he with he | he
        · right
          refine ⟨(m, pv), by simp, ?_⟩
          simp only
          rw [← hpre e he, hek, Nat.div_div_eq_div_mul, ← Nat.pow_succ]
          congr 2; omega
        · left; exact ⟨h5, e, he, hek⟩
      · right; exact ⟨e, by simp [he], hek⟩


/-- the worklist: the rest of layer `l`, then the parents found so far -/
def wl (h l : Nat) (A B : Lay) : List Nat :=
  A.map (fun e => nIdx h l e.1) ++ B.map (fun e => nIdx h (l + 1) e.1)

theorem wl_snoc (h l : Nat) (A B : Lay) (m : Nat) (pv : Bytes) :
    wl h l A (B ++ [(m, pv)]) = wl h l A B ++ [nIdx h (l + 1) m] := by
  simp [wl]

theorem idxLt_parent_false {h l m : Nat} (hl : l + 1 ≤ h) (hm : m < 2 ^ (h - (l + 1))) (A B : Lay)
    (hA : ∀ a ∈ A, a.1 < 2 ^ (h - l)) (hB : ∀ b ∈ B, b.1 < m) :
    ∀ e ∈ wl h l A B, e ≠ nIdx h (l + 1) m ∧ idxLt (nIdx h (l + 1) m) e = false := by
  intro e he
  have e2 : 2 ^ (h - l) = 2 * 2 ^ (h - (l + 1)) := by
    rw [show h - l = (h - (l + 1)) + 1 by omega, Nat.pow_succ]; omega
  simp only [wl, List.mem_append, List.mem_map] at he
  rcases he with ⟨a, ha, rfl⟩ | ⟨b, hb, rfl⟩
  · have hab := hA a ha
    have hbl1 := bitLen_nIdx hab
    have hbl2 := bitLen_nIdx hm
    constructor
    · unfold nIdx; omega
    · unfold idxLt
      rw [hbl1, hbl2]
      have : (h - (l + 1) + 1 == h - l + 1) = false := by simp; omega
      rw [this]
      simp only [Bool.false_eq_true, if_false, decide_eq_false_iff_not]
      unfold nIdx; omega
  · have hbm := hB b hb
    have hbl1 := bitLen_nIdx (show b.1 < 2 ^ (h - (l + 1)) by omega)
    have hbl2 := bitLen_nIdx hm
    constructor
    · unfold nIdx; omega
    · unfold idxLt
      rw [hbl1, hbl2]
      simp only [beq_self_eq_true, if_true, decide_eq_false_iff_not]
      unfold nIdx; omega

theorem insertIdx_wl_fresh {h l m : Nat} (hl : l + 1 ≤ h) (hm : m < 2 ^ (h - (l + 1))) (A B : Lay)
    (hA : ∀ a ∈ A, a.1 < 2 ^ (h - l)) (hB : ∀ b ∈ B, b.1 < m) (pv : Bytes) :
    insertIdx (wl h l A B) (nIdx h (l + 1) m) = wl h l A (B ++ [(m, pv)]) := by
  have hall := idxLt_parent_false hl hm A B hA hB
  have hnot : nIdx h (l + 1) m ∉ wl h l A B := fun hmem => (hall _ hmem).1 rfl
  rw [insertIdx_spec (wl h l A B) (wl h l A B) [] _ (by simp) (by simp) (fun e he _ => (hall e he).2) hnot,
    if_neg hnot, wl_snoc]

theorem insertIdx_wl_last {h l m : Nat} (hl : l + 1 ≤ h) (hm : m < 2 ^ (h - (l + 1))) (A B : Lay)
    (hA : ∀ a ∈ A, a.1 < 2 ^ (h - l)) (hB : ∀ b ∈ B, b.1 < m) :
    insertIdx (wl h l A B ++ [nIdx h (l + 1) m]) (nIdx h (l + 1) m) = wl h l A B ++ [nIdx h (l + 1) m] := by
  have hall := idxLt_parent_false hl hm A B hA hB
  have hnot : nIdx h (l + 1) m ∉ wl h l A B := fun hmem => (hall _ hmem).1 rfl
  rw [insertIdx_spec _ (wl h l A B) [nIdx h (l + 1) m] _ rfl (by simp) (by
      intro e he hne
      simp only [List.mem_append, List.mem_singleton] at he
      rcases he with he | he
      · exact (hall e he).2
      · exact absurd he hne) hnot,
    if_pos (by simp)]

theorem mapSet_idem (m : List (Nat × Bytes)) (k : Nat) (v : Bytes) : mapSet (mapSet m k v) k v = mapSet m k v := by
  simp [mapSet, List.filter_filter]


theorem mul_pow_div_succ (s a b : Nat) (hab : b = a + 1) : s * 2 ^ a / 2 ^ b = s / 2 := by
  subst hab
  rw [Nat.pow_succ, ← Nat.div_div_eq_div_mul, Nat.mul_div_cancel _ (Nat.pow_pos (by decide))]

/-- common facts about the head of the layer -/
theorem CInv_head_facts {n h l : Nat} (hnH : n ≤ 2 ^ (h - 1)) (hl : l + 2 ≤ h) {k : Nat} {v : Bytes}
    {rest B : Lay} {R C : List (Nat × Bytes)} (hinv : CInv n h l ((k, v) :: rest) B R C) :
    k * 2 ^ l < n ∧ (∀ b ∈ B, b.1 < k / 2) ∧ k / 2 < 2 ^ (h - (l + 1)) ∧ (∀ a ∈ rest, a.1 < 2 ^ (h - l)) ∧
    R.lookup (nIdx h (l + 1) (k / 2)) = none ∧
    (∀ sib, sib * 2 ^ l < n → sib / 2 = k / 2 → sib ≠ k → (∀ a ∈ rest, a.1 ≠ sib) →
      R.lookup (locIdx h (repLoc n l sib)) = none) := by
  have hk := hinv.okA (k, v) (by simp)
  have hBlt : ∀ b ∈ B, b.1 < k / 2 := by
    intro b hb
    have := hinv.sepBA b hb (k, v) (by simp)
    simp only at this; omega
  have hmok : k / 2 * 2 ^ (l + 1) < n := half_nonempty hk
  have hmb := pos_lt_of_nonempty hnH (show l + 1 ≤ h - 1 by omega) hmok
  have hmb' : k / 2 < 2 ^ (h - (l + 1)) := Nat.lt_of_lt_of_le hmb pow_pred_le
  refine ⟨hk, hBlt, hmb', ?_, ?_, ?_⟩
  · intro a ha
    have := pos_lt_of_nonempty hnH (show l ≤ h - 1 by omega) (hinv.okA a (by simp [ha]))
    exact Nat.lt_of_lt_of_le this pow_pred_le
  · apply lookup_none_of_forall
    intro v' hv'
    obtain ⟨l', k', h1, h2, h3, h4⟩ := hinv.keys _ v' hv'
    have hk'b := pos_lt_of_nonempty hnH (show l' ≤ h - 1 by omega) h2
    obtain ⟨e1, e2⟩ := nIdx_inj (by omega) (by omega) hmb' (Nat.lt_of_lt_of_le hk'b pow_pred_le) h3
    subst e1; subst e2
    rcases h4 with ⟨h5, _⟩ | ⟨b, hb, hbe⟩
    · omega
    · have := hBlt b hb
      simp at hbe; omega
  · intro sib hsib hhalf hne hnot
    apply lookup_none_of_forall
    intro v' hv'
    obtain ⟨l', k', h1, h2, h3, h4⟩ := hinv.keys _ v' hv'
    obtain ⟨l2, g1, g2, g3⟩ := repLoc_spec n l sib
    rw [g2] at h3
    unfold locIdx at h3
    simp only at h3
    have hk'b := pos_lt_of_nonempty hnH (show l' ≤ h - 1 by omega) h2
    have hsb := pos_lt_of_nonempty hnH (show l2 ≤ h - 1 by omega) (proper_lt (g3 hsib))
    obtain ⟨e1, e2⟩ := nIdx_inj (by omega) (by omega) (Nat.lt_of_lt_of_le hsb pow_pred_le)
      (Nat.lt_of_lt_of_le hk'b pow_pred_le) h3
    subst e1; subst e2
    rcases h4 with ⟨_, e, he, hek⟩ | ⟨b, hb, hbe⟩
    · rw [Nat.mul_div_cancel _ (Nat.pow_pos (by decide))] at hek
      simp only [List.mem_cons] at he
      rcases he with rfl | he
      · exact hne hek.symm
      · exact hnot e he hek
    · rw [mul_pow_div_succ _ _ _ (by omega), hhalf] at hbe
      have := hBlt b hb
      omega

/-- the result map after a layer of `calculatePathNodes` (mirrors `layerStep`) -/
def resStep (hf : HashFns) (n h l : Nat) : Lay → List (Nat × Bytes) → List Bytes → List (Nat × Bytes)
  | [], R, _ => R
  | (k, v) :: rest, R, sibs =>
    match rest with
    | (k', w) :: rest' =>
      if k % 2 = 0 ∧ k' = k + 1 then
        resStep hf n h l rest' (mapSet R (nIdx h (l + 1) (k / 2)) (hf.branch v w)) sibs
      else
        match stepOne hf n l k v sibs with
        | none => R
        | some (pv, ss) =>
          resStep hf n h l ((k', w) :: rest')
            (if sibOf k * 2 ^ l < n then mapSet R (nIdx h (l + 1) (k / 2)) pv else R) ss
    | [] =>
      match stepOne hf n l k v sibs with
      | none => R
      | some (pv, _) => if sibOf k * 2 ^ l < n then mapSet R (nIdx h (l + 1) (k / 2)) pv else R

theorem resStep_pair (hf : HashFns) (n h l k : Nat) (v w : Bytes) (rest : Lay) (R : List (Nat × Bytes))
    (sibs : List Bytes) (hk : k % 2 = 0) :
    resStep hf n h l ((k, v) :: (k + 1, w) :: rest) R sibs
      = resStep hf n h l rest (mapSet R (nIdx h (l + 1) (k / 2)) (hf.branch v w)) sibs := by
  rw [resStep]; simp [hk]

theorem resStep_single (hf : HashFns) (n h l k : Nat) (v : Bytes) (rest : Lay) (R : List (Nat × Bytes))
    (sibs : List Bytes) (hns : ∀ k' w rest', rest = (k', w) :: rest' → ¬ (k % 2 = 0 ∧ k' = k + 1)) :
    resStep hf n h l ((k, v) :: rest) R sibs =
      match stepOne hf n l k v sibs with
      | none => R
      | some (pv, ss) =>
        resStep hf n h l rest (if sibOf k * 2 ^ l < n then mapSet R (nIdx h (l + 1) (k / 2)) pv else R) ss := by
  cases rest with
  | nil =>
    rw [resStep]
    cases stepOne hf n l k v sibs with
    | none => rfl
    | some x => obtain ⟨pv, ss⟩ := x; simp [resStep]
  | cons a rest' =>
    obtain ⟨k', w⟩ := a
    rw [resStep]
    simp only [if_neg (hns k' w rest' rfl)]

/-- the result map of `calculatePathNodes` from layer `l` on (mirrors `calcSpec`) -/
def resSpec (hf : HashFns) (n h : Nat) : Nat → Nat → Lay → List (Nat × Bytes) → List Bytes → List (Nat × Bytes)
  | 0, _, _, R, _ => R
  | d + 1, l, A, R, sibs =>
    match layerStep hf n l A sibs with
    | none => R
    | some (P, s') => resSpec hf n h d (l + 1) P (resStep hf n h l A R sibs) s'

/-- one node whose sibling is not in the layer: one iteration -/
theorem calc_single_step (hf : HashFns) (n h : Nat) (hnH : n ≤ 2 ^ (h - 1)) (l : Nat) (hl : l + 2 ≤ h)
    (k : Nat) (v : Bytes) (rest B : Lay) (R C : List (Nat × Bytes)) (sibs : List Bytes) (f : Nat)
    (hinv : CInv n h l ((k, v) :: rest) B R C) (hsep : ∀ a ∈ rest, 2 * (k / 2) + 1 < a.1) :
    (match stepOne hf n l k v sibs with
      | none => calcLoop hf (layerStructure n) n h (f + 1) (wl h l ((k, v) :: rest) B) R C sibs = none
      | some (pv, ss) => ∃ C', CInv n h l rest (B ++ [(k / 2, pv)])
            (if sibOf k * 2 ^ l < n then mapSet R (nIdx h (l + 1) (k / 2)) pv else R) C' ∧
          calcLoop hf (layerStructure n) n h (f + 1) (wl h l ((k, v) :: rest) B) R C sibs
            = calcLoop hf (layerStructure n) n h f (wl h l rest (B ++ [(k / 2, pv)]))
                (if sibOf k * 2 ^ l < n then mapSet R (nIdx h (l + 1) (k / 2)) pv else R) C' ss) ∨
    (calcLoop hf (layerStructure n) n h (f + 1) (wl h l ((k, v) :: rest) B) R C sibs = none ∧ 30 < h) := by
  obtain ⟨hk, hBlt, hmb', hAb, hfresh, hsnone⟩ := CInv_head_facts hnH hl hinv
  obtain ⟨va1, va2⟩ := hinv.valA (k, v) (by simp)
  have hwl : wl h l ((k, v) :: rest) B = nIdx h l k :: wl h l rest B := by simp [wl]
  rw [hwl]
  rcases calcLoop_iter hf n h hnH l k hl hk f (wl h l rest B) R C sibs v va1 with hiter | hfail
  swap
  · right; exact hfail
  left
  rw [hiter]
  have hadv : ∀ (R' C' : List (Nat × Bytes)) (pv : Bytes),
      (∀ key, key ≠ nIdx h (l + 1) (k / 2) → R'.lookup key = R.lookup key ∧ look R' C' key = look R C key) →
      (look R' C' (nIdx h (l + 1) (k / 2)) = some pv ∧ R'.lookup (locIdx h (repLoc n (l + 1) (k / 2))) = some pv) →
      CInv n h l rest (B ++ [(k / 2, pv)]) R' C' := by
    intro R' C' pv P1 P2
    exact CInv_advance hnH hl (pre := [(k, v)]) (by simpa using hinv) (by simp) (by simp) hsep P1 P2
  unfold stepOne
  by_cases hlt : sibOf k * 2 ^ l < n
  · rw [if_pos hlt, if_pos hlt]
    -- the sibling is not in the layer
    have hsn := hsnone (sibOf k) hlt (sibOf_div k) (sibOf_ne k) (by
      intro a ha he
      have h1 := hsep a ha
      have h2 := (List.pairwise_cons.mp hinv.ascA).1 a ha
      simp only at h2
      rw [he] at h1 h2
      unfold sibOf at h1 h2
      split at h1 <;> omega)
    have hproper : proper n (l + 1) (k / 2) := by
      right
      refine ⟨by omega, ?_⟩
      simp only [Nat.add_sub_cancel]
      have : (2 * (k / 2) + 1) ≤ max k (sibOf k) := by unfold sibOf; split <;> omega
      have h2 : (2 * (k / 2) + 1) * 2 ^ l ≤ max k (sibOf k) * 2 ^ l := Nat.mul_le_mul_right _ this
      rcases Nat.le_total k (sibOf k) with h3 | h3
      · rw [Nat.max_eq_right h3] at h2; omega
      · rw [Nat.max_eq_left h3] at h2; omega
    cases sibs with
    | nil => simp [takeSibling, hsn]
    | cons s ss =>
      simp only [takeSibling, hsn, parentConflict, hfresh, Bool.false_eq_true, if_false, if_pos hlt]
      refine ⟨C, hadv _ C _ ?_ ?_, ?_⟩
      · intro key hkey
        exact ⟨lookup_mapSet_ne _ _ _ _ hkey, look_mapSet_R_ne _ _ _ _ _ hkey⟩
      · refine ⟨look_mapSet_R_self _ _ _ _, ?_⟩
        rw [repLoc_proper hproper]
        exact lookup_mapSet_self _ _ _
      · rw [insertIdx_wl_fresh (by omega) hmb' rest B hAb hBlt]
  · rw [if_neg hlt, if_neg hlt]
    have hev : k % 2 = 0 := by
      rcases Nat.mod_two_eq_zero_or_one k with h0 | h1
      · exact h0
      · exfalso
        have : sibOf k * 2 ^ l ≤ k * 2 ^ l := Nat.mul_le_mul_right _ (by unfold sibOf; split <;> omega)
        omega
    have hnp : ¬ proper n (l + 1) (k / 2) := by
      intro hp
      rcases hp with ⟨h0, _⟩ | ⟨_, h2⟩
      · omega
      · simp only [Nat.add_sub_cancel] at h2
        have : sibOf k = 2 * (k / 2) + 1 := by unfold sibOf; rw [if_pos hev]; omega
        rw [this] at hlt; omega
    simp only [if_neg hlt]
    refine ⟨mapSet C (nIdx h (l + 1) (k / 2)) v, hadv R _ _ ?_ ?_, ?_⟩
    · intro key hkey
      exact ⟨rfl, look_mapSet_C_ne _ _ _ _ _ hkey⟩
    · refine ⟨look_mapSet_C_self _ _ _ _ hfresh, ?_⟩
      rw [repLoc_carry hnp, show k / 2 * 2 = k by omega]
      exact va2
    · rw [insertIdx_wl_fresh (by omega) hmb' rest B hAb hBlt]


/-- two sibling nodes of the layer: two iterations, the second recomputes the same parent -/
theorem calc_pair_step (hf : HashFns) (n h : Nat) (hnH : n ≤ 2 ^ (h - 1)) (l : Nat) (hl : l + 2 ≤ h)
    (k : Nat) (v w : Bytes) (rest B : Lay) (R C : List (Nat × Bytes)) (sibs : List Bytes) (f : Nat)
    (hinv : CInv n h l ((k, v) :: (k + 1, w) :: rest) B R C) (hev : k % 2 = 0) :
    (∃ C', CInv n h l rest (B ++ [(k / 2, hf.branch v w)]) (mapSet R (nIdx h (l + 1) (k / 2)) (hf.branch v w)) C' ∧
        calcLoop hf (layerStructure n) n h (f + 1 + 1) (wl h l ((k, v) :: (k + 1, w) :: rest) B) R C sibs
          = calcLoop hf (layerStructure n) n h f (wl h l rest (B ++ [(k / 2, hf.branch v w)]))
              (mapSet R (nIdx h (l + 1) (k / 2)) (hf.branch v w)) C' sibs) ∨
    (calcLoop hf (layerStructure n) n h (f + 1 + 1) (wl h l ((k, v) :: (k + 1, w) :: rest) B) R C sibs = none
      ∧ 30 < h) := by
  obtain ⟨hk, hBlt, hmb', hAb, hfresh, _⟩ := CInv_head_facts hnH hl hinv
  obtain ⟨va1, va2⟩ := hinv.valA (k, v) (by simp)
  obtain ⟨vb1, vb2⟩ := hinv.valA (k + 1, w) (by simp)
  simp only at va1 va2 vb1 vb2
  have hk1 : (k + 1) * 2 ^ l < n := hinv.okA (k + 1, w) (by simp)
  have hk1b := Nat.lt_of_lt_of_le (pos_lt_of_nonempty hnH (show l ≤ h - 1 by omega) hk1) (pow_pred_le (h := h) (l := l))
  have hs0 : sibOf k = k + 1 := by unfold sibOf; rw [if_pos hev]
  have hs1 : sibOf (k + 1) = k := by unfold sibOf; rw [if_neg (by omega)]; omega
  have hhalf : (k + 1) / 2 = k / 2 := by omega
  have hwl : wl h l ((k, v) :: (k + 1, w) :: rest) B = nIdx h l k :: wl h l ((k + 1, w) :: rest) B := by simp [wl]
  have hwl2 : ∀ B', wl h l ((k + 1, w) :: rest) B' = nIdx h l (k + 1) :: wl h l rest B' := by intro B'; simp [wl]
  have hAb' : ∀ a ∈ rest, a.1 < 2 ^ (h - l) := fun a ha => hAb a (by simp [ha])
  rw [hwl]
  -- first iteration
  rcases calcLoop_iter hf n h hnH l k hl hk (f + 1) (wl h l ((k + 1, w) :: rest) B) R C sibs v va1 with hiter | hfail
  swap
  · right; exact hfail
  rw [hiter, hs0, if_pos hk1]
  simp only [takeSibling, vb2, parentConflict, hfresh, if_pos hev, Bool.false_eq_true, if_false]
  rw [insertIdx_wl_fresh (by omega) hmb' _ B hAb hBlt (hf.branch v w), hwl2, wl_snoc]
  -- second iteration
  have hkey1 : nIdx h l (k + 1) ≠ nIdx h (l + 1) (k / 2) := by
    intro e
    have := (nIdx_inj (by omega) (by omega) hk1b hmb' e).1
    omega
  have hkey2 : locIdx h (repLoc n l k) ≠ nIdx h (l + 1) (k / 2) :=
    locIdx_repLoc_ne hnH (by omega) hk (by omega) hmb' (by omega) (by omega)
  have hlook2 : look (mapSet R (nIdx h (l + 1) (k / 2)) (hf.branch v w)) C (nIdx h l (k + 1)) = some w := by
    rw [look_mapSet_R_ne _ _ _ _ _ hkey1]; exact vb1
  rcases calcLoop_iter hf n h hnH l (k + 1) hl hk1 f (wl h l rest B ++ [nIdx h (l + 1) (k / 2)])
    (mapSet R (nIdx h (l + 1) (k / 2)) (hf.branch v w)) C sibs w hlook2 with hiter2 | hfail2
  swap
  · right; exact hfail2
  left
  rw [hiter2, hs1, if_pos hk, hhalf]
  have hl2 : (mapSet R (nIdx h (l + 1) (k / 2)) (hf.branch v w)).lookup (locIdx h (repLoc n l k)) = some v := by
    rw [lookup_mapSet_ne _ _ _ _ hkey2]; exact va2
  simp only [takeSibling, hl2, parentConflict, lookup_mapSet_self, if_neg (show ¬ (k + 1) % 2 = 0 by omega),
    bne_self_eq_false, Bool.false_eq_true, if_false]
  rw [insertIdx_wl_last (by omega) hmb' rest B hAb' hBlt, mapSet_idem, ← wl_snoc h l rest B (k / 2) (hf.branch v w)]
  refine ⟨C, ?_, rfl⟩
  have hproper : proper n (l + 1) (k / 2) := by
    right
    refine ⟨by omega, ?_⟩
    simp only [Nat.add_sub_cancel]
    rw [show 2 * (k / 2) + 1 = k + 1 by omega]; exact hk1
  refine CInv_advance hnH hl (pre := [(k, v), (k + 1, w)]) (by simpa using hinv) (by simp) ?_ ?_ ?_ ?_
  · intro e he
    simp only [List.mem_cons, List.not_mem_nil, or_false] at he
    rcases he with rfl | rfl
    · rfl
    · exact hhalf
  · intro a ha
    have := (List.pairwise_cons.mp (List.pairwise_cons.mp hinv.ascA).2).1 a ha
    simp only at this; omega
  · intro key hkey
    exact ⟨lookup_mapSet_ne _ _ _ _ hkey, look_mapSet_R_ne _ _ _ _ _ hkey⟩
  · refine ⟨look_mapSet_R_self _ _ _ _, ?_⟩
    rw [repLoc_proper hproper]
    exact lookup_mapSet_self _ _ _


/-- a whole layer of `calculatePathNodes` follows `layerStep` -/
theorem calcLayer (hf : HashFns) (n h : Nat) (hnH : n ≤ 2 ^ (h - 1)) (l : Nat) (hl : l + 2 ≤ h) :
    ∀ (m : Nat) (A B : Lay) (R C : List (Nat × Bytes)) (sibs : List Bytes) (f : Nat),
      A.length = m → CInv n h l A B R C → m ≤ f →
      (match layerStep hf n l A sibs with
        | none => calcLoop hf (layerStructure n) n h f (wl h l A B) R C sibs = none
        | some (P, s') => ∃ C', CInv n h l [] (B ++ P) (resStep hf n h l A R sibs) C' ∧
            calcLoop hf (layerStructure n) n h f (wl h l A B) R C sibs
              = calcLoop hf (layerStructure n) n h (f - m) (wl h l [] (B ++ P)) (resStep hf n h l A R sibs) C' s') ∨
      (calcLoop hf (layerStructure n) n h f (wl h l A B) R C sibs = none ∧ 30 < h) := by
  intro m
  induction m using Nat.strongRecOn with
  | _ m ih =>
    intro A B R C sibs f hm hinv hf'
    match A, hm with
    | [], hm =>
      left
      simp only [layerStep]
      simp only [List.length_nil] at hm
      subst hm
      exact ⟨C, by simpa [resStep] using hinv, by simp [resStep]⟩
    | (k, v) :: rest, hm =>
      simp only [List.length_cons] at hm
      by_cases hp : ∃ w rest', rest = (k + 1, w) :: rest' ∧ k % 2 = 0
      · obtain ⟨w, rest', rfl, hev⟩ := hp
        simp only [List.length_cons] at hm
        obtain ⟨f', rfl⟩ : ∃ f', f = f' + 1 + 1 := ⟨f - 2, by omega⟩
        rw [layerStep_pair hf n l k v w rest' sibs hev, resStep_pair hf n h l k v w rest' R sibs hev]
        rcases calc_pair_step hf n h hnH l hl k v w rest' B R C sibs f' hinv hev with ⟨C1, hinv1, heq⟩ | hfail
        swap
        · right; exact hfail
        rw [heq]
        have := ih rest'.length (by omega) rest' _ _ C1 sibs f' rfl hinv1 (by omega)
        rcases this with hthis | hfail
        swap
        · right; exact hfail
        left
        cases hr : layerStep hf n l rest' sibs with
        | none => rw [hr] at hthis; exact hthis
        | some x =>
          obtain ⟨P, s'⟩ := x
          rw [hr] at hthis
          simp only at hthis ⊢
          obtain ⟨C', hinv', heq'⟩ := hthis
          refine ⟨C', by simpa using hinv', ?_⟩
          rw [heq', show f' + 1 + 1 - m = f' - rest'.length by omega]
          simp
      · have hns : ∀ k' w rest', rest = (k', w) :: rest' → ¬ (k % 2 = 0 ∧ k' = k + 1) := by
          intro k' w rest' e hc
          exact hp ⟨w, rest', by rw [e, hc.2], hc.1⟩
        obtain ⟨f', rfl⟩ : ∃ f', f = f' + 1 := ⟨f - 1, by omega⟩
        rw [layerStep_single hf n l k v rest sibs hns, resStep_single hf n h l k v rest R sibs hns]
        have hsep : ∀ a ∈ rest, 2 * (k / 2) + 1 < a.1 := by
          intro a ha
          have hasc := List.pairwise_cons.mp hinv.ascA
          have h1 := hasc.1 a ha
          simp only at h1
          cases rest with
          | nil => cases ha
          | cons b r =>
            have hnot := hns b.1 b.2 r rfl
            have hb := hasc.1 b (by simp)
            simp only at hb
            simp only [List.mem_cons] at ha
            rcases ha with rfl | ha
            · omega
            · have := (List.pairwise_cons.mp hasc.2).1 a ha
              omega
        rcases calc_single_step hf n h hnH l hl k v rest B R C sibs f' hinv hsep with hstep | hfail
        swap
        · right; exact hfail
        cases ho : stepOne hf n l k v sibs with
        | none => rw [ho] at hstep; left; exact hstep
        | some y =>
          obtain ⟨pv, ss⟩ := y
          rw [ho] at hstep
          simp only at hstep ⊢
          obtain ⟨C1, hinv1, heq⟩ := hstep
          rw [heq]
          have := ih rest.length (by omega) rest _ _ C1 ss f' rfl hinv1 (by omega)
          rcases this with hthis | hfail
          swap
          · right; exact hfail
          left
          cases hr : layerStep hf n l rest ss with
          | none => rw [hr] at hthis; exact hthis
          | some x =>
            obtain ⟨P, s'⟩ := x
            rw [hr] at hthis
            simp only at hthis ⊢
            obtain ⟨C', hinv', heq'⟩ := hthis
            refine ⟨C', by simpa using hinv', ?_⟩
            rw [heq', show f' + 1 - m = f' - rest.length by omega]
            simp


theorem CInv_next {n h l : Nat} {B : Lay} {R C : List (Nat × Bytes)} (hinv : CInv n h l [] B R C) :
    CInv n h (l + 1) B [] R C := by
  refine ⟨hinv.ascB, hinv.okB, List.Pairwise.nil, (fun e he => by cases he), (fun b hb => by cases hb),
    hinv.valB, (fun e he => by cases he), ?_⟩
  intro key v hv
  obtain ⟨l', k', h1, h2, h3, h4⟩ := hinv.keys key v hv
  refine ⟨l', k', by omega, h2, h3, ?_⟩
  rcases h4 with ⟨_, e, he, _⟩ | ⟨e, he, hek⟩
  · cases he
  · left; exact ⟨h1, e, he, hek⟩

theorem layerStep_nonempty (hf : HashFns) (n l : Nat) (A : Lay) (sibs : List Bytes) (P : Lay) (s : List Bytes)
    (hne : A ≠ []) (hs : layerStep hf n l A sibs = some (P, s)) : P ≠ [] := by
  match A, hne with
  | (k, v) :: rest, _ =>
    by_cases hp : ∃ w rest', rest = (k + 1, w) :: rest' ∧ k % 2 = 0
    · obtain ⟨w, rest', rfl, hev⟩ := hp
      rw [layerStep_pair hf n l k v w rest' sibs hev] at hs
      cases hr : layerStep hf n l rest' sibs with
      | none => rw [hr] at hs; cases hs
      | some x =>
        obtain ⟨P', s'⟩ := x
        rw [hr] at hs
        simp only [Option.some.injEq, Prod.mk.injEq] at hs
        rw [← hs.1]; simp
    · rw [layerStep_single hf n l k v rest sibs (by
        intro k' w rest' e hc
        exact hp ⟨w, rest', by rw [e, hc.2], hc.1⟩)] at hs
      cases ho : stepOne hf n l k v sibs with
      | none => rw [ho] at hs; cases hs
      | some y =>
        obtain ⟨pv, ss⟩ := y
        rw [ho] at hs
        simp only at hs
        cases hr : layerStep hf n l rest ss with
        | none => rw [hr] at hs; cases hs
        | some x =>
          obtain ⟨P', s'⟩ := x
          rw [hr] at hs
          simp only [Option.some.injEq, Prod.mk.injEq] at hs
          rw [← hs.1]; simp

/-- `calculatePathNodes` from a layer on computes what the specification computes -/
theorem calcLoop_spec (hf : HashFns) (n h : Nat) (hnH : n ≤ 2 ^ (h - 1)) (hh : 1 ≤ h)
    (htop : 2 ≤ h → 2 ^ (h - 2) < n) :
    ∀ (d l : Nat) (A : Lay) (R C : List (Nat × Bytes)) (sibs : List Bytes) (f : Nat),
      l + d = h - 1 → A ≠ [] → CInv n h l A [] R C → d * A.length + 1 ≤ f →
      (match calcSpec hf n d l A sibs with
        | none => calcLoop hf (layerStructure n) n h f (wl h l A []) R C sibs = none
        | some r => calcLoop hf (layerStructure n) n h f (wl h l A []) R C sibs
              = some (resSpec hf n h d l A R sibs) ∧ (resSpec hf n h d l A R sibs).lookup 2 = some r) ∨
      (calcLoop hf (layerStructure n) n h f (wl h l A []) R C sibs = none ∧ 30 < h) := by
  intro d
  induction d with
  | zero =>
    intro l A R C sibs f hld hne hinv hf'
    left
    have hl : l = h - 1 := by omega
    subst hl
    have hp : 0 < 2 ^ (h - 1) := Nat.pow_pos (by decide)
    have hzero : ∀ e ∈ A, e.1 = 0 := by
      intro e he
      have := hinv.okA e he
      rcases Nat.eq_zero_or_pos e.1 with h0 | h0
      · exact h0
      · have : 2 ^ (h - 1) ≤ e.1 * 2 ^ (h - 1) := Nat.le_mul_of_pos_left _ h0
        omega
    match A, hne with
    | [(k, r)], _ =>
      have hk0 := hzero (k, r) (by simp)
      simp only at hk0
      subst hk0
      obtain ⟨f', rfl⟩ : ∃ f', f = f' + 1 := ⟨f - 1, by omega⟩
      simp only [calcSpec]
      have hidx : nIdx h (h - 1) 0 = 2 := by
        unfold nIdx; rw [show h - (h - 1) = 1 by omega]; rfl
      have hprop : proper n (h - 1) 0 := by
        by_cases h1 : h = 1
        · left; subst h1; exact ⟨rfl, by have := hinv.okA (0, r) (by simp); omega⟩
        · right
          refine ⟨by omega, ?_⟩
          have := htop (by omega)
          rw [show h - 1 - 1 = h - 2 by omega]; omega
      have hv := (hinv.valA (0, r) (by simp)).2
      rw [repLoc_proper hprop] at hv
      simp only [locIdx, hidx] at hv
      refine ⟨?_, by simpa [resSpec] using hv⟩
      simp [wl, hidx, calcLoop, resSpec]
    | e1 :: e2 :: rest, _ =>
      exfalso
      have h1 := hzero e1 (by simp)
      have h2 := hzero e2 (by simp)
      have := (List.pairwise_cons.mp hinv.ascA).1 e2 (by simp)
      omega
  | succ d ih =>
    intro l A R C sibs f hld hne hinv hf'
    have hl : l + 2 ≤ h := by omega
    have hfA : A.length ≤ f := by
      have : (d + 1) * A.length = d * A.length + A.length := by ring
      omega
    rcases calcLayer hf n h hnH l hl A.length A [] R C sibs f rfl hinv hfA with hlay | hfail
    swap
    · right; exact hfail
    simp only [calcSpec, resSpec]
    cases hr : layerStep hf n l A sibs with
    | none => rw [hr] at hlay; left; exact hlay
    | some x =>
      obtain ⟨P, s'⟩ := x
      rw [hr] at hlay
      simp only at hlay ⊢
      obtain ⟨C', hinv', heq⟩ := hlay
      simp only [List.nil_append] at hinv' heq
      have hlenP := (layerStep_ok hf n l A.length A sibs P s' rfl hinv.okA hr).2
      have hPne := layerStep_nonempty hf n l A sibs P s' hne hr
      have hwl : wl h l [] P = wl h (l + 1) P [] := by simp [wl]
      rw [heq, hwl]
      have hfuel : d * P.length + 1 ≤ f - A.length := by
        have h1 : d * P.length ≤ d * A.length := Nat.mul_le_mul_left _ hlenP
        have : (d + 1) * A.length = d * A.length + A.length := by ring
        omega
      exact ih (l + 1) P _ C' s' (f - A.length) (by omega) hPne (CInv_next hinv') hfuel


/-! ### `calculatePathNodes` / `VerifyProof` for several leaves and the specification -/

theorem insertBy_map {α β : Type} (le : α → α → Bool) (le' : β → β → Bool) (f : α → β) (a : α) (l : List α)
    (h : ∀ b ∈ l, le' (f a) (f b) = le a b) : insertBy le' (f a) (l.map f) = (insertBy le a l).map f := by
  induction l with
  | nil => rfl
  | cons b r ih =>
    simp only [List.map_cons, insertBy, h b (by simp)]
    split
    · rfl
    · simp only [List.map_cons]
      rw [ih (fun c hc => h c (by simp [hc]))]

theorem isort_map {α β : Type} (le : α → α → Bool) (le' : β → β → Bool) (f : α → β) (l : List α)
    (h : ∀ a ∈ l, ∀ b ∈ l, le' (f a) (f b) = le a b) : isort le' (l.map f) = (isort le l).map f := by
  induction l with
  | nil => rfl
  | cons a r ih =>
    simp only [List.map_cons, isort]
    rw [ih (fun x hx y hy => h x (by simp [hx]) y (by simp [hy]))]
    exact insertBy_map le le' f a _ (fun b hb => h a (by simp) b (by simp [(mem_isort le r b).1 hb]))

theorem initResult_lookup : ∀ (idxs : List Nat) (q : List Bytes) (m : List (Nat × Bytes)), idxs.Nodup →
    (∀ i ∈ idxs, i ≠ 0) → q.length = idxs.length →
    (∀ key, key ∉ idxs → (initResult q idxs m).lookup key = m.lookup key) ∧
    (∀ e ∈ idxs.zip q, (initResult q idxs m).lookup e.1 = some e.2) := by
  intro idxs
  induction idxs with
  | nil =>
    intro q m _ _ hl
    have : q = [] := List.eq_nil_of_length_eq_zero (by simpa using hl)
    subst this
    simp [initResult]
  | cons i is ih =>
    intro q m hnd hnz hl
    match q, hl with
    | v :: qs, hl =>
      have hi0 : (i == 0) = false := by simpa using hnz i (by simp)
      simp only [initResult, hi0, Bool.false_eq_true, if_false]
      have hnd' := List.nodup_cons.mp hnd
      obtain ⟨h1, h2⟩ := ih qs (mapSet m i v) hnd'.2 (fun j hj => hnz j (by simp [hj])) (by simpa using hl)
      constructor
      · intro key hkey
        simp only [List.mem_cons, not_or] at hkey
        rw [h1 key hkey.2, lookup_mapSet_ne _ _ _ _ hkey.1]
      · intro e he
        simp only [List.zip_cons_cons, List.mem_cons] at he
        rcases he with rfl | he
        · rw [h1 i hnd'.1, lookup_mapSet_self]
        · exact h2 e he

theorem foldl_add_const (c : Nat) : ∀ (l : List Nat) (a : Nat), (∀ x ∈ l, x = c) →
    l.foldl (· + ·) a = a + l.length * c := by
  intro l
  induction l with
  | nil => intro a _; simp
  | cons x r ih =>
    intro a h
    simp only [List.foldl_cons, List.length_cons]
    rw [ih (a + x) (fun y hy => h y (by simp [hy])), h x (by simp)]
    ring

theorem sumBitLen_const (l : List Nat) (c : Nat) (h : ∀ x ∈ l, bitLen x = c) : sumBitLen l = l.length * c := by
  unfold sumBitLen
  rw [foldl_add_const c (l.map bitLen) 0 (by
    intro x hx
    simp only [List.mem_map] at hx
    obtain ⟨y, hy, rfl⟩ := hx
    exact h y hy)]
  simp

/-- the queried leaves with their hashes, in ascending order of position -/
def layer0 (pos : List Nat) (q : List Bytes) : Lay := isort (fun a b => decide (a.1 ≤ b.1)) (pos.zip q)

theorem layer0_perm (pos : List Nat) (q : List Bytes) : (layer0 pos q).Perm (pos.zip q) := isort_perm _ _

theorem layer0_asc (pos : List Nat) (q : List Bytes) (hnd : pos.Nodup) (hlen : q.length = pos.length) :
    (layer0 pos q).Pairwise (fun x y => x.1 < y.1) := by
  have hle : (layer0 pos q).Pairwise (fun x y => decide (x.1 ≤ y.1) = true) :=
    isort_pairwise _ (by intro a b c h1 h2; simp at h1 h2 ⊢; omega) (by intro a b; simp; omega) _
  have hnd2 : ((layer0 pos q).map (·.1)).Nodup := by
    have hp : ((layer0 pos q).map (·.1)).Perm ((pos.zip q).map (·.1)) := (layer0_perm pos q).map _
    rw [hp.nodup_iff]
    have : (pos.zip q).map (·.1) = pos := List.map_fst_zip (by omega)
    rw [this]; exact hnd
  generalize layer0 pos q = A at hle hnd2
  induction A with
  | nil => exact List.Pairwise.nil
  | cons a r ih =>
    have h1 := List.pairwise_cons.mp hle
    simp only [List.map_cons] at hnd2
    have h2 := List.nodup_cons.mp hnd2
    refine List.pairwise_cons.mpr ⟨?_, ih h1.2 h2.2⟩
    intro b hb
    have := h1.1 b hb
    simp at this
    have hne : a.1 ≠ b.1 := fun e => h2.1 (by rw [e]; exact List.mem_map_of_mem hb)
    omega


theorem nIdx_zero (h p : Nat) : nIdx h 0 p = 2 ^ h + p := by simp [nIdx]

theorem sortIdx_layer0 (n h : Nat) (pos : List Nat) (q : List Bytes) (hnH : n ≤ 2 ^ (h - 1))
    (hlt : ∀ p ∈ pos, p < n) (hlen : q.length = pos.length) :
    sortIdx ((pos.map fun p => 2 ^ h + p).filter (· != 0)) = wl h 0 (layer0 pos q) [] := by
  have hpos : 0 < 2 ^ h := Nat.pow_pos (by decide)
  have hle : 2 ^ (h - 1) ≤ 2 ^ h := Nat.pow_le_pow_right (by decide) (by omega)
  have hfil : (pos.map fun p => 2 ^ h + p).filter (· != 0) = pos.map fun p => 2 ^ h + p := by
    rw [List.filter_eq_self]
    intro a ha
    simp only [List.mem_map] at ha
    obtain ⟨p, _, rfl⟩ := ha
    simp
  have hzip : (pos.map fun p => 2 ^ h + p) = (pos.zip q).map (fun e => 2 ^ h + e.1) := by
    conv => lhs; rw [← List.map_fst_zip (l₁ := pos) (l₂ := q) (by omega)]
    rw [List.map_map]; rfl
  rw [hfil, hzip]
  unfold sortIdx layer0
  rw [isort_map (fun a b => decide (a.1 ≤ b.1)) _ (fun e : Nat × Bytes => 2 ^ h + e.1)]
  · simp [wl, nIdx_zero]
  · intro a ha b hb
    have ha' : a.1 < 2 ^ (h - 0) := by
      have := hlt a.1 (List.of_mem_zip ha).1; simp; omega
    have hb' : b.1 < 2 ^ (h - 0) := by
      have := hlt b.1 (List.of_mem_zip hb).1; simp; omega
    have h1 := bitLen_nIdx ha'
    have h2 := bitLen_nIdx hb'
    rw [nIdx_zero] at h1 h2
    unfold idxLt
    rw [h1, h2]
    simp only [beq_self_eq_true, if_true]
    by_cases hab : a.1 ≤ b.1
    · simp [hab]
    · simp [hab]; omega

theorem CInv_init (n h : Nat) (pos : List Nat) (q : List Bytes) (hnd : pos.Nodup) (hlt : ∀ p ∈ pos, p < n)
    (hlen : q.length = pos.length) :
    CInv n h 0 (layer0 pos q) [] (initResult q (pos.map fun p => 2 ^ h + p) []) [] := by
  have hpos : 0 < 2 ^ h := Nat.pow_pos (by decide)
  have hmem : ∀ e, e ∈ layer0 pos q ↔ e ∈ pos.zip q := fun e => (layer0_perm pos q).mem_iff
  have hndI : (pos.map fun p => 2 ^ h + p).Nodup :=
    List.Pairwise.map _ (fun a b (hab : a ≠ b) => by intro e; exact hab (by omega)) hnd
  obtain ⟨hi1, hi2⟩ := initResult_lookup (pos.map fun p => 2 ^ h + p) q [] hndI
    (by intro i hi; simp only [List.mem_map] at hi; obtain ⟨p, _, rfl⟩ := hi; omega) (by simpa using hlen)
  refine ⟨layer0_asc pos q hnd hlen, ?_, List.Pairwise.nil, (fun e he => by cases he), (fun b hb => by cases hb),
    ?_, (fun e he => by cases he), ?_⟩
  · intro e he
    have := hlt e.1 (List.of_mem_zip ((hmem e).1 he)).1
    simpa using this
  · intro e he
    have hez := (hmem e).1 he
    have hp := hlt e.1 (List.of_mem_zip hez).1
    have hin : (2 ^ h + e.1, e.2) ∈ (pos.map fun p => 2 ^ h + p).zip q := by
      rw [List.zip_map_left]
      exact List.mem_map.mpr ⟨e, hez, rfl⟩
    have hl := hi2 _ hin
    simp only at hl
    have hprop : proper n 0 e.1 := Or.inl ⟨rfl, hp⟩
    rw [repLoc_proper hprop]
    simp only [locIdx, nIdx_zero, look, hl, and_self]
  · intro key v hv
    have hkey : key ∈ pos.map fun p => 2 ^ h + p := by
      rcases Classical.em (key ∈ pos.map fun p => 2 ^ h + p) with h | h
      · exact h
      · rw [hi1 key h] at hv; cases hv
    simp only [List.mem_map] at hkey
    obtain ⟨p, hp, rfl⟩ := hkey
    have hpz : p ∈ (pos.zip q).map (·.1) := by rw [List.map_fst_zip (by omega)]; exact hp
    simp only [List.mem_map] at hpz
    obtain ⟨e, he, rfl⟩ := hpz
    refine ⟨0, e.1, by omega, by simpa using hlt e.1 hp, (nIdx_zero h e.1).symm, Or.inl ⟨Nat.le_refl _, e, (hmem e).2 he, by simp⟩⟩

/-- `calculatePathNodes` on distinct leaf indexes computes the root of the specification -/
theorem calcPathNodes_spec (hf : HashFns) (n : Nat) (hn : 1 ≤ n) (pos : List Nat) (q sibs : List Bytes)
    (hnd : pos.Nodup) (hlt : ∀ p ∈ pos, p < n) (hlen : q.length = pos.length) (hne : pos ≠ []) :
    (match calcSpec hf n (getHeight n - 1) 0 (layer0 pos q) sibs with
      | none => calcPathNodes hf q n (pos.map fun p => 2 ^ getHeight n + p) sibs = none
      | some r => ∃ res, res = resSpec hf n (getHeight n) (getHeight n - 1) 0 (layer0 pos q)
            (initResult q (pos.map fun p => 2 ^ getHeight n + p) []) sibs ∧
          calcPathNodes hf q n (pos.map fun p => 2 ^ getHeight n + p) sibs = some res ∧
          res.lookup 2 = some r) ∨
    (calcPathNodes hf q n (pos.map fun p => 2 ^ getHeight n + p) sibs = none ∧ 30 < getHeight n) := by
  have hh1 : 1 ≤ getHeight n := by simp [getHeight]
  have hnH : n ≤ 2 ^ (getHeight n - 1) := by
    have := le_two_pow_clog2 n hn
    simpa [getHeight] using this
  have htop : 2 ≤ getHeight n → 2 ^ (getHeight n - 2) < n := by
    intro h2
    have hn2 : 2 ≤ n := by
      rcases Nat.lt_or_ge n 2 with h | h
      · have : n = 1 := by omega
        subst this; simp [getHeight, clog2] at h2
      · exact h
    have := two_pow_clog2_lt hn2
    simpa [getHeight] using this
  have hposlen : 0 < pos.length := List.length_pos_iff.mpr hne
  unfold calcPathNodes
  have hc1 : (q.length != (pos.map fun p => 2 ^ getHeight n + p).length) = false := by simp [hlen]
  have hc2 : (q.length == 0) = false := by rw [hlen]; simpa using hne
  simp only [hc1, hc2, Bool.false_eq_true, if_false]
  rw [sortIdx_layer0 n (getHeight n) pos q hnH hlt hlen]
  have hl0 : (layer0 pos q).length = pos.length := by
    rw [(layer0_perm pos q).length_eq]; simp; omega
  have hA0ne : layer0 pos q ≠ [] := by
    intro e; rw [e] at hl0; simp at hl0; omega
  have hsum : sumBitLen (wl (getHeight n) 0 (layer0 pos q) []) = pos.length * (getHeight n + 1) := by
    rw [sumBitLen_const _ (getHeight n + 1)]
    · simp [wl, hl0]
    · intro x hx
      simp only [wl, List.map_nil, List.append_nil] at hx
      obtain ⟨e, he, rfl⟩ := List.mem_map.mp hx
      have hp := hlt e.1 (List.of_mem_zip ((layer0_perm pos q).mem_iff.1 he)).1
      have hle : 2 ^ (getHeight n - 1) ≤ 2 ^ (getHeight n - 0) := Nat.pow_le_pow_right (by decide) (by omega)
      have := bitLen_nIdx (show e.1 < 2 ^ (getHeight n - 0) by omega)
      simpa using this
  rw [hsum]
  have hmain := calcLoop_spec hf n (getHeight n) hnH hh1 htop (getHeight n - 1) 0 (layer0 pos q)
    (initResult q (pos.map fun p => 2 ^ getHeight n + p) []) [] sibs (pos.length * (getHeight n + 1) + 1) (by omega)
    hA0ne (CInv_init n (getHeight n) pos q hnd hlt hlen) ?_
  · rcases hmain with hm | hm
    · left
      cases hc : calcSpec hf n (getHeight n - 1) 0 (layer0 pos q) sibs with
      | none => rw [hc] at hm; exact hm
      | some r => rw [hc] at hm; exact ⟨_, rfl, hm.1, hm.2⟩
    · right; exact hm
  rw [hl0]
  have : (getHeight n - 1) * pos.length ≤ pos.length * (getHeight n + 1) := by
    rw [Nat.mul_comm]; exact Nat.mul_le_mul_left _ (by omega)
  omega


/-- what an accepted proof for distinct leaf indexes means in terms of the specification -/
theorem verify_calcSpec (hf : HashFns) (n : Nat) (hn : 1 ≤ n) (pos : List Nat) (q sibs : List Bytes) (root : Bytes)
    (hnd : pos.Nodup) (hlt : ∀ p ∈ pos, p < n) (hlen : q.length = pos.length) (hne : pos ≠ [])
    (hv : verifyProof hf q ⟨n, pos.map fun p => 2 ^ getHeight n + p, sibs⟩ root = true) :
    calcSpec hf n (getHeight n - 1) 0 (layer0 pos q) sibs = some root := by
  rw [verifyProof_eq, Bool.and_eq_true] at hv
  replace hv := hv.2
  unfold verifyProofOrig at hv
  simp only [show ¬ n = 0 by omega, if_false] at hv
  rcases calcPathNodes_spec hf n hn pos q sibs hnd hlt hlen hne with hs | ⟨hnone, _⟩
  · cases hc : calcSpec hf n (getHeight n - 1) 0 (layer0 pos q) sibs with
    | none => rw [hc] at hs; simp only at hs; rw [hs] at hv; cases hv
    | some r =>
      rw [hc] at hs
      simp only at hs
      obtain ⟨res, _, h1, h2⟩ := hs
      rw [h1] at hv
      simp only [h2, beq_iff_eq] at hv
      rw [hv]
  · rw [hnone] at hv; cases hv

theorem calcSpec_verify (hf : HashFns) (n : Nat) (hn : 1 ≤ n) (pos : List Nat) (q sibs : List Bytes) (root : Bytes)
    (hnd : pos.Nodup) (hlt : ∀ p ∈ pos, p < n) (hlen : q.length = pos.length) (hne : pos ≠ [])
    (hb : getHeight n ≤ 30)
    (hs : calcSpec hf n (getHeight n - 1) 0 (layer0 pos q) sibs = some root) :
    verifyProof hf q ⟨n, pos.map fun p => 2 ^ getHeight n + p, sibs⟩ root = true := by
  rw [verifyProof_eq, Bool.and_eq_true]
  refine ⟨idxsValid_leaves hn hb pos hnd hlt, ?_⟩
  unfold verifyProofOrig
  simp only [show ¬ n = 0 by omega, if_false]
  rcases calcPathNodes_spec hf n hn pos q sibs hnd hlt hlen hne with hc | ⟨_, h30⟩
  · rw [hs] at hc
    simp only at hc
    obtain ⟨res, _, h1, h2⟩ := hc
    rw [h1]
    simp [h2]
  · omega

/-- soundness of `VerifyProof` for several distinct leaf indexes -/
theorem verify_sound_multi (hf : HashFns) (hinj : BranchInj hf) (L : List Bytes) (pos : List Nat) (q sibs : List Bytes)
    (hnd : pos.Nodup) (hlt : ∀ p ∈ pos, p < L.length) (hlen : q.length = pos.length)
    (hv : verifyProof hf q ⟨L.length, pos.map fun p => 2 ^ getHeight L.length + p, sibs⟩ (rootH hf L) = true) :
    ∀ k (hk : k < pos.length), L[pos[k]]? = q[k]? := by
  intro k hk
  have hne : pos ≠ [] := by intro e; rw [e] at hk; simp at hk
  have hp0 := hlt pos[k] (List.getElem_mem hk)
  have hn : 1 ≤ L.length := by omega
  have hnH : L.length ≤ 2 ^ (getHeight L.length - 1) := by
    have := le_two_pow_clog2 L.length hn
    simpa [getHeight] using this
  have hspec := verify_calcSpec hf L.length hn pos q sibs (rootH hf L) hnd hlt hlen hne hv
  have hok : LayOK L.length 0 (layer0 pos q) := (CInv_init L.length (getHeight L.length) pos q hnd hlt hlen).okA
  have hall := calcSpec_sound hf hinj L (getHeight L.length - 1) 0 (layer0 pos q) sibs (by simpa using hnH) hok hspec
  have hkq : k < q.length := by omega
  have hmem : (pos[k], q[k]) ∈ layer0 pos q := by
    rw [(layer0_perm pos q).mem_iff]
    have : (pos.zip q)[k]'(by simp; omega) = (pos[k], q[k]) := by simp
    rw [← this]; exact List.getElem_mem _
  have := hall _ hmem
  simp only at this
  rw [List.getElem?_eq_getElem hkq, this]
  have hl : L[pos[k]]? = some L[pos[k]] := List.getElem?_eq_getElem hp0
  rw [blk_leaf L pos[k] _ hl, rootH_singleton, hl]


/-! ### `getSiblingHashes` for several leaves -/

theorem xor_succ_even (x : Nat) (h : x % 2 = 0) : x ^^^ (x + 1) = 1 := by
  apply Nat.eq_of_testBit_eq
  intro i
  rw [Nat.testBit_xor]
  cases i with
  | zero => simp [Nat.testBit_zero]; omega
  | succ i =>
    simp only [Nat.testBit_succ]
    rw [show (x + 1) / 2 = x / 2 by omega]
    simp

theorem xor_eq_one_even (x y : Nat) (h : x % 2 = 0) (e : x ^^^ y = 1) : y = x + 1 := by
  have h1 : y = x ^^^ (x ^^^ y) := by rw [← Nat.xor_assoc, Nat.xor_self, Nat.zero_xor]
  have h2 : x + 1 = x ^^^ (x ^^^ (x + 1)) := by rw [← Nat.xor_assoc, Nat.xor_self, Nat.zero_xor]
  rw [h1, e, h2, xor_succ_even x h]

theorem repLoc_blk (L : List Bytes) (l k : Nat) :
    blk L (repLoc L.length l k).1 (repLoc L.length l k).2 = blk L l k := by
  obtain ⟨l', _, h2, h3, _, _⟩ := descend_blk L (l + 1) l k (by omega)
  unfold repLoc
  rw [h2]; exact h3

theorem repLoc_proper_of_nonempty {n l k : Nat} (hk : k * 2 ^ l < n) :
    proper n (repLoc n l k).1 (repLoc n l k).2 := by
  obtain ⟨l', _, h2, h3⟩ := repLoc_spec n l k
  rw [h2]; exact h3 hk

theorem removeIdx_head (cur : Nat) (rest : List Nat) (h : cur ∉ rest) : removeIdx (cur :: rest) cur = rest := by
  unfold removeIdx
  rw [List.filter_cons_of_neg (by simp), List.filter_eq_self]
  intro a ha
  simp only [bne_iff_ne, ne_eq]
  intro e; subst e; exact h ha


/-- the worklist by positions -/
def wlp (h l : Nat) (A B : List Nat) : List Nat := A.map (nIdx h l) ++ B.map (nIdx h (l + 1))

def posLay (P : List Nat) : Lay := P.map fun m => (m, [])

theorem wl_posLay (h l : Nat) (A B : List Nat) : wl h l (posLay A) (posLay B) = wlp h l A B := by
  simp [wl, wlp, posLay, List.map_map, Function.comp_def]

theorem wl_eq_wlp (h l : Nat) (A B : Lay) : wl h l A B = wlp h l (A.map (·.1)) (B.map (·.1)) := by
  simp [wl, wlp, List.map_map, Function.comp_def]

theorem insertIdx_wlp_fresh {h l m : Nat} (hl : l + 1 ≤ h) (hm : m < 2 ^ (h - (l + 1))) (A B : List Nat)
    (hA : ∀ a ∈ A, a < 2 ^ (h - l)) (hB : ∀ b ∈ B, b < m) :
    insertIdx (wlp h l A B) (nIdx h (l + 1) m) = wlp h l A (B ++ [m]) := by
  rw [← wl_posLay, insertIdx_wl_fresh hl hm (posLay A) (posLay B)
    (by intro a ha; simp only [posLay, List.mem_map] at ha; obtain ⟨x, hx, rfl⟩ := ha; exact hA x hx)
    (by intro b hb; simp only [posLay, List.mem_map] at hb; obtain ⟨x, hx, rfl⟩ := hb; exact hB x hx) [],
    ← wl_posLay]
  simp [posLay]

/-- one iteration of `getSiblingHashes` on a node that is not the left one of a pair in the list -/
theorem siblingLoop_iter (hf : HashFns) (t : Tree) (L : List Bytes) (hst : Stored hf t L) (h : Nat)
    (hnH : L.length ≤ 2 ^ (h - 1)) (orig : List Nat) (l k : Nat) (hl : l + 2 ≤ h) (hk : k * 2 ^ l < L.length)
    (f : Nat) (W : List Nat) (acc : List Bytes)
    (hnp : k % 2 = 1 ∨ ∀ nx W', W = nx :: W' →
        (bitLen (nIdx h l k) == bitLen nx && (nIdx h l k ^^^ nx) == 1) = false)
    (hnot : nIdx h l k ∉ W)
    (horig : sibOf k * 2 ^ l < L.length → orig.contains (locIdx h (repLoc L.length l (sibOf k))) = false) :
    siblingLoop t (layerStructure L.length) L.length h orig (f + 1) (nIdx h l k :: W) acc
      = siblingLoop t (layerStructure L.length) L.length h orig f (insertIdx W (nIdx h (l + 1) (k / 2)))
          (acc ++ sibOne hf L l k) ∨
    (siblingLoop t (layerStructure L.length) L.length h orig (f + 1) (nIdx h l k :: W) acc = none ∧ 30 < h) := by
  have hkb := pos_lt_of_nonempty hnH (show l ≤ h - 1 by omega) hk
  have hkb' : k < 2 ^ (h - l) := Nat.lt_of_lt_of_le hkb pow_pred_le
  have hne : (nIdx h l k == 2) = false := by simpa using nIdx_ne_two hl
  have hm : nIdx h l k % 2 = k % 2 := nIdx_mod2 (by omega)
  have hcond : ∀ (b : Bool), (k % 2 = 1 ∨ b = false) → (nIdx h l k % 2 == 0 && b) = false := by
    intro b hb
    rcases hb with hb | hb
    · simp [hm, hb]
    · simp [hb]
  have hunf : siblingLoop t (layerStructure L.length) L.length h orig (f + 1) (nIdx h l k :: W) acc =
      match newLoc (nIdx h l k) h with
      | none => none
      | some loc =>
        match rightSiblingInfo (layerStructure L.length) loc.2 loc.1 L.length with
        | none => siblingLoop t (layerStructure L.length) L.length h orig f
            (insertIdx (removeIdx (nIdx h l k :: W) (nIdx h l k)) (nIdx h l k / 2)) acc
        | some sl =>
          match locIndex sl h with
          | none => none
          | some sidx =>
            if orig.contains sidx then siblingLoop t (layerStructure L.length) L.length h orig f
              (insertIdx (removeIdx (nIdx h l k :: W) (nIdx h l k)) (nIdx h l k / 2)) acc
            else
              match t.getHash sl with
              | none => none
              | some hh => siblingLoop t (layerStructure L.length) L.length h orig f
                  (insertIdx (removeIdx (nIdx h l k :: W) (nIdx h l k)) (nIdx h l k / 2)) (acc ++ [hh]) := by
    cases W with
    | nil =>
      simp only [siblingLoop, Bool.and_false, Bool.false_eq_true, if_false, hne]
      rfl
    | cons nx W' =>
      have := hcond (bitLen (nIdx h l k) == bitLen nx && (nIdx h l k ^^^ nx) == 1) (by
        rcases hnp with h1 | h1
        · left; exact h1
        · right; exact h1 nx W' rfl)
      simp only [siblingLoop, this, Bool.false_eq_true, if_false, hne]
      rfl
  rw [hunf]
  cases hloc : newLoc (nIdx h l k) h with
  | none =>
    right
    refine ⟨rfl, ?_⟩
    rcases Nat.lt_or_ge 30 h with hb | hb
    · exact hb
    · rw [newLoc_nIdx_some (by omega) (by omega) hb] at hloc; cases hloc
  | some loc =>
    have := newLoc_nIdx (by omega) hkb' loc hloc
    subst this
    simp only
    rw [nIdx_half (by omega), removeIdx_head _ _ hnot]
    unfold sibOne
    by_cases hlt : sibOf k * 2 ^ l < L.length
    · rw [rsi_eq_repLoc hlt, if_pos hlt]
      simp only
      cases hsidx : locIndex (repLoc L.length l (sibOf k)) h with
      | none =>
        right
        refine ⟨rfl, ?_⟩
        rcases Nat.lt_or_ge 30 h with hb | hb
        · exact hb
        · rw [locIndex_repLoc_some hnH hl hlt hb] at hsidx; cases hsidx
      | some sidx =>
        left
        have := locIndex_repLoc hnH hl hlt hsidx
        subst this
        simp only [horig hlt, Bool.false_eq_true, if_false]
        rw [hst _ _ (repLoc_proper_of_nonempty hlt), repLoc_blk]
    · left
      rw [rsi_none _ _ _ (by omega), if_neg hlt]
      simp

/-- one iteration on the left node of a pair -/
theorem siblingLoop_iter_pair (t : Tree) (n h : Nat) (orig : List Nat) (l k : Nat) (hl : l + 1 ≤ h)
    (hk1 : k + 1 < 2 ^ (h - l)) (hev : k % 2 = 0) (f : Nat) (W : List Nat) (acc : List Bytes) :
    siblingLoop t (layerStructure n) n h orig (f + 1) (nIdx h l k :: nIdx h l (k + 1) :: W) acc
      = siblingLoop t (layerStructure n) n h orig f (insertIdx W (nIdx h (l + 1) (k / 2))) acc := by
  have hm : nIdx h l k % 2 = 0 := by rw [nIdx_mod2 hl]; exact hev
  have hb1 := bitLen_nIdx (show k < 2 ^ (h - l) by omega)
  have hb2 := bitLen_nIdx hk1
  have hx : nIdx h l k ^^^ nIdx h l (k + 1) = 1 := by
    have : nIdx h l (k + 1) = nIdx h l k + 1 := by unfold nIdx; omega
    rw [this]; exact xor_succ_even _ hm
  simp only [siblingLoop, hm, hb1, hb2, hx, beq_self_eq_true, Bool.and_self, if_true, List.drop_one, List.tail_cons]
  rw [nIdx_half hl]


/-- the invariant of `getSiblingHashes` inside a layer (`S`: the queried leaf positions) -/
structure SInv (n l : Nat) (S A B : List Nat) : Prop where
  ascA : A.Pairwise (· < ·)
  okA : ∀ a ∈ A, a * 2 ^ l < n
  ascB : B.Pairwise (· < ·)
  okB : ∀ b ∈ B, b * 2 ^ (l + 1) < n
  sepBA : ∀ b ∈ B, ∀ a ∈ A, 2 * b + 1 < a
  orig : ∀ p ∈ S, p / 2 ^ l ∈ A ∨ p / 2 ^ (l + 1) ∈ B

theorem SInv_advance {n l : Nat} {S pre rest B : List Nat} {m : Nat} (hinv : SInv n l S (pre ++ rest) B)
    (hne : pre ≠ []) (hpre : ∀ e ∈ pre, e / 2 = m) (hsep : ∀ a ∈ rest, 2 * m + 1 < a) :
    SInv n l S rest (B ++ [m]) := by
  obtain ⟨e0, he0⟩ := List.exists_mem_of_ne_nil pre hne
  have he0A : e0 ∈ pre ++ rest := by simp [he0]
  have hm0 := hpre e0 he0
  refine ⟨(List.pairwise_append.mp hinv.ascA).2.1, fun a ha => hinv.okA a (by simp [ha]), ?_, ?_, ?_, ?_⟩
  · rw [List.pairwise_append]
    refine ⟨hinv.ascB, by simp, ?_⟩
    intro b hb c hc
    simp only [List.mem_singleton] at hc
    subst hc
    have := hinv.sepBA b hb e0 he0A
    omega
  · intro b hb
    simp only [List.mem_append, List.mem_singleton] at hb
    rcases hb with hb | rfl
    · exact hinv.okB b hb
    · rw [← hm0]; exact half_nonempty (hinv.okA e0 he0A)
  · intro b hb a ha
    simp only [List.mem_append, List.mem_singleton] at hb
    rcases hb with hb | rfl
    · exact hinv.sepBA b hb a (by simp [ha])
    · exact hsep a ha
  · intro p hp
    rcases hinv.orig p hp with h | h
    · simp only [List.mem_append] at h
      rcases h with h | h
      · right
        simp only [List.mem_append, List.mem_singleton]
        right
        rw [← hpre _ h, div_pow_succ]
      · left; exact h
    · right; simp [h]

theorem SInv_next {n l : Nat} {S B : List Nat} (hinv : SInv n l S [] B) : SInv n (l + 1) S B [] := by
  refine ⟨hinv.ascB, hinv.okB, List.Pairwise.nil, (fun b hb => by cases hb), (fun b hb => by cases hb), ?_⟩
  intro p hp
  rcases hinv.orig p hp with h | h
  · cases h
  · left; exact h

theorem sibLayer_length (hf : HashFns) (L : List Bytes) (l : Nat) : ∀ (m : Nat) (A : List Nat), A.length = m →
    (sibLayer hf L l A).2.length ≤ A.length := by
  intro m
  induction m using Nat.strongRecOn with
  | _ m ih =>
    intro A hm
    match A, hm with
    | [], _ => simp [sibLayer]
    | k :: rest, hm =>
      by_cases hp : ∃ rest', rest = (k + 1) :: rest' ∧ k % 2 = 0
      · obtain ⟨rest', rfl, hk2⟩ := hp
        rw [sibLayer_pair hf L l k rest' hk2]
        have := ih rest'.length (by simp at hm; omega) rest' rfl
        simp; omega
      · rw [sibLayer_single hf L l k rest (by
          intro k' rest' e hc
          exact hp ⟨rest', by rw [e, hc.2], hc.1⟩)]
        have := ih rest.length (by simp at hm; omega) rest rfl
        simp; omega

theorem wlp_cons (h l k : Nat) (rest B : List Nat) : wlp h l (k :: rest) B = nIdx h l k :: wlp h l rest B := by
  simp [wlp]

/-- a whole layer of `getSiblingHashes` follows `sibLayer` -/
theorem sibLayerLoop (hf : HashFns) (t : Tree) (L : List Bytes) (hst : Stored hf t L) (h : Nat)
    (hnH : L.length ≤ 2 ^ (h - 1)) (S : List Nat) (l : Nat) (hl : l + 2 ≤ h) :
    ∀ (m : Nat) (A B : List Nat) (acc : List Bytes) (f : Nat), A.length = m → SInv L.length l S A B → m ≤ f →
      (∃ f', f - m ≤ f' ∧ SInv L.length l S [] (B ++ (sibLayer hf L l A).2) ∧
        siblingLoop t (layerStructure L.length) L.length h (S.map fun p => 2 ^ h + p) f (wlp h l A B) acc
          = siblingLoop t (layerStructure L.length) L.length h (S.map fun p => 2 ^ h + p) f'
              (wlp h l [] (B ++ (sibLayer hf L l A).2)) (acc ++ (sibLayer hf L l A).1)) ∨
      (siblingLoop t (layerStructure L.length) L.length h (S.map fun p => 2 ^ h + p) f (wlp h l A B) acc = none
        ∧ 30 < h) := by
  intro m
  induction m using Nat.strongRecOn with
  | _ m ih =>
    intro A B acc f hm hinv hf'
    match A, hm with
    | [], hm =>
      left
      exact ⟨f, by omega, by simpa [sibLayer] using hinv, by simp [sibLayer]⟩
    | k :: rest, hm =>
      simp only [List.length_cons] at hm
      have hk := hinv.okA k (by simp)
      have hBlt : ∀ b ∈ B, b < k / 2 := by
        intro b hb
        have := hinv.sepBA b hb k (by simp); omega
      have hmb := pos_lt_of_nonempty hnH (show l + 1 ≤ h - 1 by omega) (half_nonempty hk)
      have hmb' : k / 2 < 2 ^ (h - (l + 1)) := Nat.lt_of_lt_of_le hmb pow_pred_le
      have hAb : ∀ a ∈ k :: rest, a < 2 ^ (h - l) := by
        intro a ha
        exact Nat.lt_of_lt_of_le (pos_lt_of_nonempty hnH (show l ≤ h - 1 by omega) (hinv.okA a ha)) pow_pred_le
      have hasc := List.pairwise_cons.mp hinv.ascA
      by_cases hp : ∃ rest', rest = (k + 1) :: rest' ∧ k % 2 = 0
      · obtain ⟨rest', rfl, hev⟩ := hp
        simp only [List.length_cons] at hm
        obtain ⟨f', rfl⟩ : ∃ f', f = f' + 1 := ⟨f - 1, by omega⟩
        rw [sibLayer_pair hf L l k rest' hev, wlp_cons, wlp_cons,
          siblingLoop_iter_pair t L.length h _ l k (by omega) (hAb (k + 1) (by simp)) hev f' _ acc,
          insertIdx_wlp_fresh (by omega) hmb' rest' B (fun a ha => hAb a (by simp [ha])) hBlt]
        have hinv1 : SInv L.length l S rest' (B ++ [k / 2]) :=
          SInv_advance (pre := [k, k + 1]) (by simpa using hinv) (by simp) (by
            intro e he
            simp only [List.mem_cons, List.not_mem_nil, or_false] at he
            rcases he with rfl | rfl
            · rfl
            · omega) (by
            intro a ha
            have := (List.pairwise_cons.mp hasc.2).1 a ha
            omega)
        rcases ih rest'.length (by omega) rest' _ acc f' rfl hinv1 (by omega) with ⟨f2, h1, h2, h3⟩ | hfail
        · left
          refine ⟨f2, by omega, by simpa using h2, ?_⟩
          rw [h3]; simp
        · right; exact hfail
      · have hns : ∀ k' rest', rest = k' :: rest' → ¬ (k % 2 = 0 ∧ k' = k + 1) := by
          intro k' rest' e hc
          exact hp ⟨rest', by rw [e, hc.2], hc.1⟩
        obtain ⟨f', rfl⟩ : ∃ f', f = f' + 1 := ⟨f - 1, by omega⟩
        have hsep : ∀ a ∈ rest, 2 * (k / 2) + 1 < a := by
          intro a ha
          have h1 := hasc.1 a ha
          cases rest with
          | nil => cases ha
          | cons b r =>
            have hnot := hns b r rfl
            have hb := hasc.1 b (by simp)
            simp only [List.mem_cons] at ha
            rcases ha with rfl | ha
            · omega
            · have := (List.pairwise_cons.mp hasc.2).1 a ha
              omega
        rw [sibLayer_single hf L l k rest hns, wlp_cons]
        have hkb' := hAb k (by simp)
        have hb1 := bitLen_nIdx hkb'
        have hiter := siblingLoop_iter hf t L hst h hnH (S.map fun p => 2 ^ h + p) l k hl hk f' (wlp h l rest B) acc
          (by
            rcases Nat.mod_two_eq_zero_or_one k with hev | hod
            · right
              intro nx W' hW
              cases rest with
              | nil =>
                cases B with
                | nil => simp [wlp] at hW
                | cons b B' =>
                  simp only [wlp, List.map_nil, List.nil_append, List.map_cons, List.cons.injEq] at hW
                  have hbb := hBlt b (by simp)
                  have hb2 := bitLen_nIdx (show b < 2 ^ (h - (l + 1)) by omega)
                  rw [← hW.1, hb1, hb2]
                  have : (h - l + 1 == h - (l + 1) + 1) = false := by simp; omega
                  simp [this]
              | cons a r =>
                simp only [wlp, List.map_cons, List.cons_append, List.cons.injEq] at hW
                have ha := hsep a (by simp)
                rw [← hW.1]
                have : ¬ (nIdx h l k ^^^ nIdx h l a = 1) := by
                  intro e
                  have := xor_eq_one_even _ _ (by rw [nIdx_mod2 (by omega)]; exact hev) e
                  unfold nIdx at this
                  omega
                simp [this]
            · left; exact hod)
          (by
            intro hmem
            simp only [wlp, List.mem_append, List.mem_map] at hmem
            rcases hmem with ⟨a, ha, e⟩ | ⟨b, hb, e⟩
            · have := hasc.1 a ha
              unfold nIdx at e; omega
            · have hbb := hBlt b hb
              have := (nIdx_inj (by omega) (by omega) (show b < 2 ^ (h - (l + 1)) by omega) hkb' e).1
              omega)
          (by
            intro hlt
            rw [← Bool.not_eq_true]
            intro hc
            simp only [List.contains_eq_mem, List.mem_map, decide_eq_true_eq] at hc
            obtain ⟨p, hpS, hpe⟩ := hc
            obtain ⟨l2, g1, g2, g3⟩ := repLoc_spec L.length l (sibOf k)
            rw [g2] at hpe
            unfold locIdx at hpe
            simp only at hpe
            have hsb := pos_lt_of_nonempty hnH (show l2 ≤ h - 1 by omega) (proper_lt (g3 hlt))
            have hplt : p < 2 ^ (h - 0) := by
              have : nIdx h 0 p = nIdx h l2 (sibOf k * 2 ^ (l - l2)) := by rw [nIdx_zero]; exact hpe
              have hlog := nIdx_log2 (Nat.lt_of_lt_of_le hsb pow_pred_le)
              rw [← this, nIdx_zero] at hlog
              have hp0 : 0 < 2 ^ h := Nat.pow_pos (by decide)
              have hlt2 := @Nat.lt_log2_self (2 ^ h + p)
              rw [hlog] at hlt2
              have : 2 ^ (h - l2 + 1) ≤ 2 ^ (h + 1) := Nat.pow_le_pow_right (by decide) (by omega)
              rw [Nat.pow_succ] at this
              simp; omega
            obtain ⟨e1, e2⟩ := nIdx_inj (l := 0) (by omega) (by omega) hplt
              (Nat.lt_of_lt_of_le hsb pow_pred_le) (by rw [nIdx_zero]; exact hpe)
            subst e1
            simp only [Nat.sub_zero] at e2
            have hpl : p / 2 ^ l = sibOf k := by rw [e2, Nat.mul_div_cancel _ (Nat.pow_pos (by decide))]
            have hpl1 : p / 2 ^ (l + 1) = k / 2 := by rw [div_pow_succ, hpl, sibOf_div]
            rcases hinv.orig p hpS with hA | hB
            · rw [hpl] at hA
              simp only [List.mem_cons] at hA
              rcases hA with hA | hA
              · exact sibOf_ne k hA
              · have h1 := hsep _ hA
                have h2 := hasc.1 _ hA
                unfold sibOf at h1 h2
                split at h1 <;> omega
            · rw [hpl1] at hB
              have := hBlt _ hB
              omega)
        rcases hiter with hiter | hfail
        swap
        · right; exact hfail
        rw [hiter, insertIdx_wlp_fresh (by omega) hmb' rest B (fun a ha => hAb a (by simp [ha])) hBlt]
        have hinv1 : SInv L.length l S rest (B ++ [k / 2]) :=
          SInv_advance (pre := [k]) (by simpa using hinv) (by simp) (by simp) hsep
        rcases ih rest.length (by omega) rest _ (acc ++ sibOne hf L l k) f' rfl hinv1 (by omega) with
          ⟨f2, h1, h2, h3⟩ | hfail
        · left
          refine ⟨f2, by omega, by simpa using h2, ?_⟩
          rw [h3]; simp
        · right; exact hfail


/-- `getSiblingHashes` from a layer on produces the sibling hashes of the specification -/
theorem sibLoop_spec (hf : HashFns) (t : Tree) (L : List Bytes) (hst : Stored hf t L) (h : Nat)
    (hnH : L.length ≤ 2 ^ (h - 1)) (hh : 1 ≤ h) (S : List Nat) :
    ∀ (d l : Nat) (A : List Nat) (acc : List Bytes) (f : Nat), l + d = h - 1 → A ≠ [] →
      SInv L.length l S A [] → d * A.length + 1 ≤ f →
      siblingLoop t (layerStructure L.length) L.length h (S.map fun p => 2 ^ h + p) f (wlp h l A []) acc
        = some (acc ++ sibSpec hf L d l A) ∨
      (siblingLoop t (layerStructure L.length) L.length h (S.map fun p => 2 ^ h + p) f (wlp h l A []) acc = none
        ∧ 30 < h) := by
  intro d
  induction d with
  | zero =>
    intro l A acc f hld hne hinv hf'
    left
    have hl : l = h - 1 := by omega
    subst hl
    have hp : 0 < 2 ^ (h - 1) := Nat.pow_pos (by decide)
    have hzero : ∀ a ∈ A, a = 0 := by
      intro a ha
      have := hinv.okA a ha
      rcases Nat.eq_zero_or_pos a with h0 | h0
      · exact h0
      · have : 2 ^ (h - 1) ≤ a * 2 ^ (h - 1) := Nat.le_mul_of_pos_left _ h0
        omega
    match A, hne with
    | [k], _ =>
      have hk0 := hzero k (by simp)
      subst hk0
      obtain ⟨f', rfl⟩ : ∃ f', f = f' + 1 := ⟨f - 1, by omega⟩
      have hidx : nIdx h (h - 1) 0 = 2 := by
        unfold nIdx; rw [show h - (h - 1) = 1 by omega]; rfl
      simp [wlp, hidx, siblingLoop, sibSpec]
    | e1 :: e2 :: rest, _ =>
      exfalso
      have h1 := hzero e1 (by simp)
      have h2 := hzero e2 (by simp)
      have := (List.pairwise_cons.mp hinv.ascA).1 e2 (by simp)
      omega
  | succ d ih =>
    intro l A acc f hld hne hinv hf'
    have hl : l + 2 ≤ h := by omega
    have hfA : A.length ≤ f := by
      have : (d + 1) * A.length = d * A.length + A.length := by ring
      omega
    rcases sibLayerLoop hf t L hst h hnH S l hl A.length A [] acc f rfl hinv hfA with ⟨f', h1, h2, h3⟩ | hfail
    swap
    · right; exact hfail
    simp only [List.nil_append] at h2 h3
    have hlenP := sibLayer_length hf L l A.length A rfl
    have hPne : (sibLayer hf L l A).2 ≠ [] := fun e =>
      hne ((sibLayer_ok hf L l A.length A rfl hinv.okA hinv.ascA).2.2.2 e)
    have hwl : wlp h l [] (sibLayer hf L l A).2 = wlp h (l + 1) (sibLayer hf L l A).2 [] := by simp [wlp]
    rw [h3, hwl]
    have hfuel : d * (sibLayer hf L l A).2.length + 1 ≤ f' := by
      have h4 : d * (sibLayer hf L l A).2.length ≤ d * A.length := Nat.mul_le_mul_left _ hlenP
      have : (d + 1) * A.length = d * A.length + A.length := by ring
      omega
    rcases ih (l + 1) _ (acc ++ (sibLayer hf L l A).1) f' (by omega) hPne (SInv_next h2) hfuel with hok | hfail
    · left
      rw [hok]
      simp [sibSpec]
    · right; exact hfail

/-- `getSiblingHashes` for distinct leaf positions -/
theorem siblingHashes_spec (hf : HashFns) (t : Tree) (L : List Bytes) (hst : Stored hf t L)
    (hsize : t.core.size = L.length) (pos : List Nat) (q : List Bytes) (hnd : pos.Nodup)
    (hlt : ∀ p ∈ pos, p < L.length) (hlen : q.length = pos.length) (hne : pos ≠ []) :
    siblingHashes t (pos.map fun p => 2 ^ getHeight L.length + p)
      = some (sibSpec hf L (getHeight L.length - 1) 0 ((layer0 pos q).map (·.1))) ∨
    (siblingHashes t (pos.map fun p => 2 ^ getHeight L.length + p) = none ∧ 30 < getHeight L.length) := by
  obtain ⟨p0, hp0⟩ := List.exists_mem_of_ne_nil pos hne
  have hn : 1 ≤ L.length := by have := hlt p0 hp0; omega
  have hh1 : 1 ≤ getHeight L.length := by simp [getHeight]
  have hnH : L.length ≤ 2 ^ (getHeight L.length - 1) := by
    have := le_two_pow_clog2 L.length hn
    simpa [getHeight] using this
  unfold siblingHashes
  simp only [hsize]
  rw [sortIdx_layer0 L.length (getHeight L.length) pos q hnH hlt hlen, wl_eq_wlp]
  simp only [List.map_nil]
  have hl0 : (layer0 pos q).length = pos.length := by
    rw [(layer0_perm pos q).length_eq]; simp; omega
  have hposlen : 0 < pos.length := List.length_pos_iff.mpr hne
  have hA0ne : (layer0 pos q).map (·.1) ≠ [] := by
    intro e
    have : ((layer0 pos q).map (·.1)).length = 0 := by rw [e]; rfl
    rw [List.length_map, hl0] at this; omega
  have hmem : ∀ e, e ∈ layer0 pos q ↔ e ∈ pos.zip q := fun e => (layer0_perm pos q).mem_iff
  have hinv : SInv L.length 0 pos ((layer0 pos q).map (·.1)) [] := by
    refine ⟨?_, ?_, List.Pairwise.nil, (fun b hb => by cases hb), (fun b hb => by cases hb), ?_⟩
    · exact List.Pairwise.map _ (fun a b hab => hab) (layer0_asc pos q hnd hlen)
    · intro a ha
      simp only [List.mem_map] at ha
      obtain ⟨e, he, rfl⟩ := ha
      simpa using hlt e.1 (List.of_mem_zip ((hmem e).1 he)).1
    · intro p hp
      left
      have hpz : p ∈ (pos.zip q).map (·.1) := by rw [List.map_fst_zip (by omega)]; exact hp
      simp only [List.mem_map] at hpz
      obtain ⟨e, he, rfl⟩ := hpz
      simp only [Nat.pow_zero, Nat.div_one, List.mem_map]
      exact ⟨e, (hmem e).2 he, rfl⟩
  have hsum : sumBitLen (wlp (getHeight L.length) 0 (List.map (fun x => x.1) (layer0 pos q)) [])
      = pos.length * (getHeight L.length + 1) := by
    rw [sumBitLen_const _ (getHeight L.length + 1)]
    · simp [wlp, hl0]
    · intro x hx
      simp only [wlp, List.map_nil, List.append_nil, List.map_map] at hx
      obtain ⟨e, he, rfl⟩ := List.mem_map.mp hx
      have hp := hlt e.1 (List.of_mem_zip ((hmem e).1 he)).1
      have hle : 2 ^ (getHeight L.length - 1) ≤ 2 ^ (getHeight L.length - 0) :=
        Nat.pow_le_pow_right (by decide) (by omega)
      have := bitLen_nIdx (show e.1 < 2 ^ (getHeight L.length - 0) by omega)
      simpa using this
  rw [hsum]
  have := sibLoop_spec hf t L hst (getHeight L.length) hnH hh1 pos (getHeight L.length - 1) 0
    ((layer0 pos q).map (·.1)) [] (pos.length * (getHeight L.length + 1) + 1) (by omega) hA0ne hinv (by
      rw [List.length_map, hl0]
      have : (getHeight L.length - 1) * pos.length ≤ pos.length * (getHeight L.length + 1) := by
        rw [Nat.mul_comm]; exact Nat.mul_le_mul_left _ (by omega)
      omega)
  simpa using this


/-! ### `GenerateProof` + `VerifyProof` for several leaves -/

theorem getIndexes_leaves (hf : HashFns) (t : Tree) (L : List Bytes) (hh : H2L hf t L) (hnd : L.Nodup)
    (hsep : ∀ a b x, x ∈ L → hf.branch a b ≠ x) (h : Nat) (hnH : L.length ≤ 2 ^ (h - 1)) (hh1 : 1 ≤ h)
    (hb : h ≤ 30) : ∀ (pos : List Nat) (q : List Bytes), q.length = pos.length →
    (∀ e ∈ pos.zip q, L[e.1]? = some e.2) → getIndexes t h q = some (pos.map fun p => 2 ^ h + p) := by
  intro pos
  induction pos with
  | nil =>
    intro q hl _
    have : q = [] := List.eq_nil_of_length_eq_zero (by simpa using hl)
    subst this; rfl
  | cons p ps ih =>
    intro q hl hq
    match q, hl with
    | x :: xs, hl =>
      have hx : L[p]? = some x := hq (p, x) (by simp)
      have hpl : p < L.length := by
        rcases Nat.lt_or_ge p L.length with h' | h'
        · exact h'
        · rw [List.getElem?_eq_none h'] at hx; cases hx
      simp only [getIndexes]
      rw [ih xs (by simpa using hl) (fun e he => hq e (by simp [he])), getLoc_leaf hf t L hh hnd hsep p x hx]
      simp only
      have hpb : p < 2 ^ (h - 1 - 0) := by simp; omega
      rw [locIndex_some' h 0 p (by omega) hpb hb]
      simp

/-- the generated proof for distinct leaves of a tree with an exact store verifies -/
theorem generate_verify_multi (hf : HashFns) (t : Tree) (L : List Bytes) (hst : Stored hf t L)
    (hsize : t.core.size = L.length) (hh : H2L hf t L) (hnd : L.Nodup)
    (hsep : ∀ a b x, x ∈ L → hf.branch a b ≠ x) (pos : List Nat) (q : List Bytes) (hpnd : pos.Nodup)
    (hne : pos ≠ []) (hlen : q.length = pos.length) (hq : ∀ e ∈ pos.zip q, L[e.1]? = some e.2)
    (hb : getHeight L.length ≤ 30) :
    ∃ p, generateProof t q = some p ∧ verifyProof hf q p (rootH hf L) = true := by
  have hlt : ∀ p ∈ pos, p < L.length := by
    intro p hp
    have hpz : p ∈ (pos.zip q).map (·.1) := by rw [List.map_fst_zip (by omega)]; exact hp
    simp only [List.mem_map] at hpz
    obtain ⟨e, he, rfl⟩ := hpz
    have := hq e he
    rcases Nat.lt_or_ge e.1 L.length with h' | h'
    · exact h'
    · rw [List.getElem?_eq_none h'] at this; cases this
  obtain ⟨p0, hp0⟩ := List.exists_mem_of_ne_nil pos hne
  have hn : 1 ≤ L.length := by have := hlt p0 hp0; omega
  have hh1 : 1 ≤ getHeight L.length := by simp [getHeight]
  have hnH : L.length ≤ 2 ^ (getHeight L.length - 1) := by
    have := le_two_pow_clog2 L.length hn
    simpa [getHeight] using this
  refine ⟨⟨L.length, pos.map fun p => 2 ^ getHeight L.length + p,
    sibSpec hf L (getHeight L.length - 1) 0 ((layer0 pos q).map (·.1))⟩, ?_, ?_⟩
  · unfold generateProof
    rw [hsize, if_neg (by omega), getIndexes_leaves hf t L hh hnd hsep _ hnH hh1 hb pos q hlen hq]
    simp only
    rcases siblingHashes_spec hf t L hst hsize pos q hpnd hlt hlen hne with h | ⟨_, h30⟩
    · rw [h]
    · omega
  · apply calcSpec_verify hf L.length hn pos q _ _ hpnd hlt hlen hne hb
    have hval : layer0 pos q = valLay hf L 0 ((layer0 pos q).map (·.1)) := by
      unfold valLay
      rw [List.map_map]
      conv => lhs; rw [← List.map_id (layer0 pos q)]
      apply List.map_congr_left
      intro e he
      have hez := (layer0_perm pos q).mem_iff.1 he
      have := hq e hez
      simp only [id, Function.comp]
      rw [blk_leaf L e.1 e.2 this, rootH_singleton]
    have hl0 : (layer0 pos q).length = pos.length := by
      rw [(layer0_perm pos q).length_eq]; simp; omega
    have hA0ne : (layer0 pos q).map (·.1) ≠ [] := by
      intro e
      have : ((layer0 pos q).map (·.1)).length = 0 := by rw [e]; rfl
      have hposlen : 0 < pos.length := List.length_pos_iff.mpr hne
      rw [List.length_map, hl0] at this; omega
    have := calcSpec_complete hf L (getHeight L.length - 1) 0 ((layer0 pos q).map (·.1)) []
      (by simpa using hnH) hA0ne (by
        intro k hk
        simp only [List.mem_map] at hk
        obtain ⟨e, he, rfl⟩ := hk
        simpa using hlt e.1 (List.of_mem_zip ((layer0_perm pos q).mem_iff.1 he)).1)
      (List.Pairwise.map _ (fun a b hab => hab) (layer0_asc pos q hpnd hlen))
    rw [List.append_nil, ← hval] at this
    exact this


/-! ### `Append` never fails on a tree with an exact store -/

theorem getHash_saveNode_ne_none (t : Tree) (x : Bytes) (l loc : Loc) (h : t.getHash loc ≠ none) :
    (t.saveNode x l).getHash loc ≠ none := by
  rw [getHash_saveNode]
  split
  · simp
  · exact h

theorem storeLoop_ok (hf : HashFns) (height size : Nat) : ∀ (f : Nat) (c : Ctr) (h : Nat) (cur : Bytes) (t0 : Tree),
    size >>> h = Ctr.toNat c →
    (∀ h', h' + 1 = height - 1 → (size >>> h') % 2 = 1 → t0.getHash (h' + 1, size >>> (h' + 1)) ≠ none) →
    (storeLoop hf height size f h (Ctr.path hf c) cur t0).2 = true := by
  intro f
  induction f with
  | zero => intro c h cur t0 _ _; rfl
  | succ f ih =>
    intro c h cur t0 hsz hchk
    have hshift : size >>> (h + 1) = Ctr.toNat c / 2 := by rw [Nat.shiftRight_succ, hsz]
    cases c with
    | nil =>
      have hb : ((size >>> h) % 2 == 1) = false := by rw [hsz]; rfl
      simp only [storeLoop, hb, Bool.false_eq_true, if_false]
      exact ih [] (h + 1) cur t0 (by rw [hshift]; rfl) hchk
    | cons o r =>
      cases o with
      | none =>
        have hb : ((size >>> h) % 2 == 1) = false := by rw [hsz]; simp [Ctr.toNat]
        simp only [storeLoop, hb, Bool.false_eq_true, if_false, Ctr.path]
        exact ih r (h + 1) cur t0 (by rw [hshift, Ctr.toNat_cons_div]) hchk
      | some p =>
        have hbit : (size >>> h) % 2 = 1 := by rw [hsz]; simp [Ctr.toNat]
        have hb : ((size >>> h) % 2 == 1) = true := by rw [hbit]; rfl
        have hnext : ∀ t1 : Tree, (∀ h', h' + 1 = height - 1 → (size >>> h') % 2 = 1 →
            t1.getHash (h' + 1, size >>> (h' + 1)) ≠ none) →
            (storeLoop hf height size f (h + 1) (Ctr.path hf r) (hf.branch (rootH hf p) cur) t1).2 = true :=
          fun t1 h1 => ih r (h + 1) _ t1 (by rw [hshift, Ctr.toNat_cons_div]) h1
        simp only [storeLoop, hb, if_true, Ctr.path]
        split
        · rename_i heq
          have heq' : h + 1 = height - 1 := by simpa using heq
          have := hchk h heq' hbit
          split
          · rename_i hnone; exact absurd hnone this
          · exact hnext _ (fun h' e1 e2 => getHash_saveNode_ne_none _ _ _ _ (hchk h' e1 e2))
        · exact hnext _ (fun h' e1 e2 => getHash_saveNode_ne_none _ _ _ _ (hchk h' e1 e2))

/-- `Append` on a tree that follows a counter and has an exact store succeeds -/
theorem append_ok (hf : HashFns) (t : Tree) (c : Ctr) (v : Bytes) (hw : Ctr.WF 0 c) (hc : Ctr.Canon c)
    (hcore : t.core = coreOf hf c) (hst : Stored hf t (Ctr.flat c)) : (append hf t v).2 = true := by
  have hac := appendCore_ctr hf c hw hc v
  rw [← hcore] at hac
  have hsize : t.core.size = Ctr.toNat c := by rw [hcore]; rfl
  have hpath : t.core.path = Ctr.path hf c := by rw [hcore]; rfl
  have hlen : (Ctr.flat c).length = Ctr.toNat c := by rw [Ctr.length_flat hw]; simp
  unfold append
  by_cases hz : t.core.size = 0
  · simp only [hz, if_true, hac]
  · simp only [hz, if_false, hac]
    have hn2 : 1 ≤ t.core.size := by omega
    have hok := storeLoop_ok hf (getHeight t.core.size) t.core.size (getHeight t.core.size) c 0 (hf.leaf v)
      (t.saveNode (hf.leaf v) (0, t.core.size)) (by rw [hsize]; rfl) (by
        intro h' e1 e2
        apply getHash_saveNode_ne_none
        -- the node below the root of a size that is not a power of two is stored
        have hc1 : h' + 1 = clog2 t.core.size := by simp [getHeight] at e1; omega
        have hn3 : 2 ≤ t.core.size := by
          rcases Nat.lt_or_ge t.core.size 2 with h | h
          · have : t.core.size = 1 := by omega
            rw [this] at hc1; simp [clog2] at hc1
          · exact h
        have hle := le_two_pow_clog2 t.core.size hn2
        have hlt := two_pow_clog2_lt hn3
        rw [← hc1] at hle hlt
        simp only [Nat.add_sub_cancel] at hlt
        rw [Nat.shiftRight_eq_div_pow] at e2
        have hne : t.core.size ≠ 2 ^ (h' + 1) := by
          intro e
          rw [e, Nat.pow_succ, Nat.mul_div_cancel_left _ (Nat.pow_pos (by decide))] at e2
          omega
        have hz' : t.core.size >>> (h' + 1) = 0 := by
          rw [Nat.shiftRight_eq_div_pow]; exact Nat.div_eq_of_lt (by omega)
        rw [hz']
        have := hst (h' + 1) 0 (Or.inr ⟨by omega, by simp only [Nat.add_sub_cancel]; rw [hlen, ← hsize]; omega⟩)
        rw [this]; simp)
    rw [hpath]
    revert hok
    generalize storeLoop hf (getHeight t.core.size) t.core.size (getHeight t.core.size) 0 (Ctr.path hf c)
      (hf.leaf v) (t.saveNode (hf.leaf v) (0, t.core.size)) = sl
    intro hok
    obtain ⟨t2, b⟩ := sl
    simp only at hok
    subst hok
    rfl


/-! ### recomputation from new leaf values with the sibling hashes of the old tree -/

instance (n l k : Nat) : Decidable (proper n l k) := by unfold proper; exact inferInstance

theorem stepOne_val_mixed (hf : HashFns) (L M : List Bytes) (hlen : M.length = L.length) (l k : Nat)
    (extra : List Bytes) (hk : k * 2 ^ l < L.length)
    (hU : sibOf k * 2 ^ l < L.length → rootH hf (blk L l (sibOf k)) = rootH hf (blk M l (sibOf k))) :
    stepOne hf L.length l k (rootH hf (blk M l k)) (sibOne hf L l k ++ extra)
      = some (rootH hf (blk M (l + 1) (k / 2)), extra) := by
  have hpar := rootH_blk_parent hf M l k (by rw [hlen]; exact hk)
  rw [hlen] at hpar
  unfold stepOne sibOne
  by_cases hs : sibOf k * 2 ^ l < L.length
  · rw [if_pos hs] at hpar ⊢
    rw [if_pos hs, hpar, hU hs]
    simp
  · rw [if_neg hs] at hpar ⊢
    rw [if_neg hs, hpar]
    simp

/-- the nodes of the layer with positions at least `low` cover the updated leaves from `low` on -/
def Covers (pos : List Nat) (l : Nat) (A : List Nat) (low : Nat) : Prop :=
  ∀ p ∈ pos, p / 2 ^ l ∈ A ∨ p / 2 ^ l < low

theorem layer_mixed (hf : HashFns) (L M : List Bytes) (hlen : M.length = L.length) (h : Nat) (pos : List Nat)
    (l : Nat)
    (hU : ∀ k, (∀ p ∈ pos, p / 2 ^ l ≠ k) → k * 2 ^ l < L.length → rootH hf (blk L l k) = rootH hf (blk M l k)) :
    ∀ (m : Nat) (A : List Nat) (low : Nat) (R : List (Nat × Bytes)) (extra : List Bytes), A.length = m →
      (∀ k ∈ A, k * 2 ^ l < L.length) → A.Pairwise (· < ·) → (∀ k ∈ A, low ≤ k) → low % 2 = 0 →
      Covers pos l A low →
      layerStep hf L.length l (valLay hf M l A) ((sibLayer hf L l A).1 ++ extra)
        = some (valLay hf M (l + 1) (sibLayer hf L l A).2, extra) ∧
      (∀ key, (∀ k ∈ A, key ≠ nIdx h (l + 1) (k / 2)) →
        (resStep hf L.length h l (valLay hf M l A) R ((sibLayer hf L l A).1 ++ extra)).lookup key = R.lookup key) ∧
      (∀ k ∈ A, (resStep hf L.length h l (valLay hf M l A) R ((sibLayer hf L l A).1 ++ extra)).lookup
          (nIdx h (l + 1) (k / 2)) =
        if proper L.length (l + 1) (k / 2) then some (rootH hf (blk M (l + 1) (k / 2)))
        else R.lookup (nIdx h (l + 1) (k / 2))) := by
  intro m
  induction m using Nat.strongRecOn with
  | _ m ih =>
    intro A low R extra hm hok hasc hlow hev hcov
    match A, hm with
    | [], _ =>
      refine ⟨by simp [sibLayer, valLay, layerStep], ?_, ?_⟩
      · intro key _; simp [valLay, resStep]
      · intro k hk; cases hk
    | k :: rest, hm =>
      simp only [List.length_cons] at hm
      have hk : k * 2 ^ l < L.length := hok k (by simp)
      have hrest : ∀ a ∈ rest, a * 2 ^ l < L.length := fun a ha => hok a (by simp [ha])
      have hasc' := List.pairwise_cons.mp hasc
      have hlk := hlow k (by simp)
      by_cases hp : ∃ rest', rest = (k + 1) :: rest' ∧ k % 2 = 0
      · obtain ⟨rest', rfl, hk2⟩ := hp
        have hk1 : (k + 1) * 2 ^ l < L.length := hrest (k + 1) (by simp)
        have hasc'' := List.pairwise_cons.mp hasc'.2
        have hpar : rootH hf (blk M (l + 1) (k / 2))
            = hf.branch (rootH hf (blk M l k)) (rootH hf (blk M l (k + 1))) := by
          have := rootH_blk_pair hf M l (k / 2) (by rw [hlen, show 2 * (k / 2) + 1 = k + 1 by omega]; exact hk1)
          rw [show 2 * (k / 2) = k by omega] at this
          exact this
        have hprop : proper L.length (l + 1) (k / 2) := by
          right; refine ⟨by omega, ?_⟩
          simp only [Nat.add_sub_cancel]
          rw [show 2 * (k / 2) + 1 = k + 1 by omega]; exact hk1
        obtain ⟨i1, i2, i3⟩ := ih rest'.length (by simp at hm; omega) rest' (k + 2)
          (mapSet R (nIdx h (l + 1) (k / 2)) (hf.branch (rootH hf (blk M l k)) (rootH hf (blk M l (k + 1))))) extra rfl
          (fun a ha => hrest a (by simp [ha])) hasc''.2
          (by intro a ha; have := hasc''.1 a ha; omega) (by omega)
          (by
            intro p hp
            rcases hcov p hp with hc | hc
            · simp only [List.mem_cons] at hc
              rcases hc with hc | hc | hc
              · right; omega
              · right; omega
              · left; exact hc
            · right; omega)
        rw [sibLayer_pair hf L l k rest' hk2]
        simp only [valLay, List.map_cons]
        rw [layerStep_pair hf _ l k _ _ _ _ hk2, resStep_pair hf _ h l k _ _ _ _ _ hk2]
        simp only [valLay] at i1 i2 i3
        rw [i1]
        refine ⟨by simp only [hpar], ?_, ?_⟩
        · intro key hkey
          rw [i2 key (fun a ha => hkey a (by simp [ha])), lookup_mapSet_ne _ _ _ _ (hkey k (by simp))]
        · intro a ha
          simp only [List.mem_cons] at ha
          have hfirst : ∀ a, a / 2 = k / 2 →
              (resStep hf L.length h l (List.map (fun k => (k, rootH hf (blk M l k))) rest')
                (mapSet R (nIdx h (l + 1) (k / 2)) (hf.branch (rootH hf (blk M l k)) (rootH hf (blk M l (k + 1)))))
                ((sibLayer hf L l rest').1 ++ extra)).lookup (nIdx h (l + 1) (a / 2)) =
              if proper L.length (l + 1) (a / 2) then some (rootH hf (blk M (l + 1) (a / 2)))
              else R.lookup (nIdx h (l + 1) (a / 2)) := by
            intro a hak
            rw [hak, if_pos hprop, i2 _ (by
              intro b hb e
              have := hasc''.1 b hb
              unfold nIdx at e; omega), lookup_mapSet_self, hpar]
          rcases ha with rfl | rfl | ha
          · exact hfirst _ rfl
          · exact hfirst _ (by omega)
          · rw [i3 a ha]
            have hne : nIdx h (l + 1) (a / 2) ≠ nIdx h (l + 1) (k / 2) := by
              have := hasc''.1 a ha
              unfold nIdx; omega
            rw [lookup_mapSet_ne _ _ _ _ hne]
      · have hns : ∀ k' rest', rest = k' :: rest' → ¬ (k % 2 = 0 ∧ k' = k + 1) := by
          intro k' rest' e hc
          exact hp ⟨rest', by rw [e, hc.2], hc.1⟩
        have hsep : ∀ a ∈ rest, 2 * (k / 2) + 1 < a := by
          intro a ha
          have h1 := hasc'.1 a ha
          cases rest with
          | nil => cases ha
          | cons b r =>
            have hnot := hns b r rfl
            have hb := hasc'.1 b (by simp)
            simp only [List.mem_cons] at ha
            rcases ha with rfl | ha
            · omega
            · have := (List.pairwise_cons.mp hasc'.2).1 a ha
              omega
        -- the sibling is not an ancestor of an updated leaf
        have hsibU : sibOf k * 2 ^ l < L.length → rootH hf (blk L l (sibOf k)) = rootH hf (blk M l (sibOf k)) := by
          intro hs
          apply hU _ _ hs
          intro p hp e
          rcases hcov p hp with hc | hc
          · rw [e] at hc
            simp only [List.mem_cons] at hc
            rcases hc with hc | hc
            · exact sibOf_ne k hc
            · have h1 := hsep _ hc
              have h2 := hasc'.1 _ hc
              unfold sibOf at h1 h2
              split at h1 <;> omega
          · rw [e] at hc
            unfold sibOf at hc
            split at hc <;> omega
        have hone := stepOne_val_mixed hf L M hlen l k ((sibLayer hf L l rest).1 ++ extra) hk hsibU
        obtain ⟨i1, i2, i3⟩ := ih rest.length (by omega) rest (2 * (k / 2) + 2)
          (if sibOf k * 2 ^ l < L.length then mapSet R (nIdx h (l + 1) (k / 2)) (rootH hf (blk M (l + 1) (k / 2))) else R)
          extra rfl hrest hasc'.2 (by intro a ha; have := hsep a ha; omega) (by omega)
          (by
            intro p hp
            rcases hcov p hp with hc | hc
            · simp only [List.mem_cons] at hc
              rcases hc with hc | hc
              · right; omega
              · left; exact hc
            · right; omega)
        rw [sibLayer_single hf L l k rest hns]
        simp only [valLay, List.map_cons]
        have hns' : ∀ k' w rest', List.map (fun k => (k, rootH hf (blk M l k))) rest = (k', w) :: rest' →
            ¬ (k % 2 = 0 ∧ k' = k + 1) := by
          intro k' w rest' e hc
          cases rest with
          | nil => simp at e
          | cons a r =>
            simp only [List.map_cons, List.cons.injEq, Prod.mk.injEq] at e
            exact hns a r rfl ⟨hc.1, by rw [e.1.1]; exact hc.2⟩
        rw [layerStep_single hf _ l k _ _ _ hns', resStep_single hf _ h l k _ _ _ _ hns']
        rw [List.append_assoc, hone]
        simp only [valLay] at i1 i2 i3
        simp only
        rw [i1]
        have hpropiff : proper L.length (l + 1) (k / 2) ↔ sibOf k * 2 ^ l < L.length := by
          constructor
          · intro hpr
            rcases hpr with ⟨h0, _⟩ | ⟨_, h2⟩
            · omega
            · simp only [Nat.add_sub_cancel] at h2
              have : sibOf k ≤ 2 * (k / 2) + 1 := by unfold sibOf; split <;> omega
              have := Nat.mul_le_mul_right (2 ^ l) this
              omega
          · intro hs
            right; refine ⟨by omega, ?_⟩
            simp only [Nat.add_sub_cancel]
            have : (2 * (k / 2) + 1) ≤ max k (sibOf k) := by unfold sibOf; split <;> omega
            have h2 : (2 * (k / 2) + 1) * 2 ^ l ≤ max k (sibOf k) * 2 ^ l := Nat.mul_le_mul_right _ this
            rcases Nat.le_total k (sibOf k) with h3 | h3
            · rw [Nat.max_eq_right h3] at h2; omega
            · rw [Nat.max_eq_left h3] at h2; omega
        refine ⟨rfl, ?_, ?_⟩
        · intro key hkey
          rw [i2 key (fun a ha => hkey a (by simp [ha]))]
          split
          · exact lookup_mapSet_ne _ _ _ _ (hkey k (by simp))
          · rfl
        · intro a ha
          simp only [List.mem_cons] at ha
          rcases ha with rfl | ha
          · rw [i2 _ (by
              intro b hb e
              have := hsep b hb
              unfold nIdx at e; omega)]
            by_cases hs : sibOf a * 2 ^ l < L.length
            · rw [if_pos hs, if_pos (hpropiff.2 hs), lookup_mapSet_self]
            · rw [if_neg hs, if_neg (fun hpr => hs (hpropiff.1 hpr))]
          · rw [i3 a ha]
            have hne : nIdx h (l + 1) (a / 2) ≠ nIdx h (l + 1) (k / 2) := by
              have := hsep a ha
              unfold nIdx; omega
            split
            · rfl
            · split
              · exact lookup_mapSet_ne _ _ _ _ hne
              · rfl


theorem sibLayer_parents_mem (hf : HashFns) (L : List Bytes) (l : Nat) : ∀ (m : Nat) (A : List Nat), A.length = m →
    ∀ a ∈ A, a / 2 ∈ (sibLayer hf L l A).2 := by
  intro m
  induction m using Nat.strongRecOn with
  | _ m ih =>
    intro A hm a ha
    match A, hm with
    | [], _ => cases ha
    | k :: rest, hm =>
      by_cases hp : ∃ rest', rest = (k + 1) :: rest' ∧ k % 2 = 0
      · obtain ⟨rest', rfl, hk2⟩ := hp
        rw [sibLayer_pair hf L l k rest' hk2]
        simp only [List.mem_cons] at ha ⊢
        rcases ha with rfl | rfl | ha
        · left; rfl
        · left; omega
        · right; exact ih rest'.length (by simp at hm; omega) rest' rfl a ha
      · rw [sibLayer_single hf L l k rest (by
          intro k' rest' e hc
          exact hp ⟨rest', by rw [e, hc.2], hc.1⟩)]
        simp only [List.mem_cons] at ha ⊢
        rcases ha with rfl | ha
        · left; rfl
        · right; exact ih rest.length (by simp at hm; omega) rest rfl a ha

theorem div_pow_succ' (a j : Nat) : a / 2 ^ (j + 1) = a / 2 / 2 ^ j := by
  rw [Nat.pow_succ, Nat.mul_comm, ← Nat.div_div_eq_div_mul]

theorem anc_nonempty {n l a : Nat} (j : Nat) (h : a * 2 ^ l < n) : a / 2 ^ j * 2 ^ (l + j) < n := by
  have : a / 2 ^ j * 2 ^ (l + j) ≤ a * 2 ^ l := by
    rw [Nat.pow_add, Nat.mul_comm (2 ^ l), ← Nat.mul_assoc]
    exact Nat.mul_le_mul_right _ (Nat.div_mul_le_self a (2 ^ j))
  omega

/-- recomputation over all layers: the root of the new list, and the result map holds exactly the proper
ancestors of the given nodes, with their values in the new list -/
theorem spec_mixed (hf : HashFns) (L M : List Bytes) (hlen : M.length = L.length) (h : Nat)
    (hnH : L.length ≤ 2 ^ (h - 1)) (pos : List Nat)
    (hU : ∀ l k, (∀ p ∈ pos, p / 2 ^ l ≠ k) → k * 2 ^ l < L.length → rootH hf (blk L l k) = rootH hf (blk M l k)) :
    ∀ (d l : Nat) (A : List Nat) (R : List (Nat × Bytes)) (extra : List Bytes), l + d = h - 1 → A ≠ [] →
      (∀ k ∈ A, k * 2 ^ l < L.length) → A.Pairwise (· < ·) → Covers pos l A 0 →
      calcSpec hf L.length d l (valLay hf M l A) (sibSpec hf L d l A ++ extra) = some (rootH hf M) ∧
      (∀ key, (∀ a ∈ A, ∀ j, 1 ≤ j → j ≤ d → key ≠ nIdx h (l + j) (a / 2 ^ j)) →
        (resSpec hf L.length h d l (valLay hf M l A) R (sibSpec hf L d l A ++ extra)).lookup key = R.lookup key) ∧
      (∀ a ∈ A, ∀ j, 1 ≤ j → j ≤ d →
        (resSpec hf L.length h d l (valLay hf M l A) R (sibSpec hf L d l A ++ extra)).lookup (nIdx h (l + j) (a / 2 ^ j)) =
          if proper L.length (l + j) (a / 2 ^ j) then some (rootH hf (blk M (l + j) (a / 2 ^ j)))
          else R.lookup (nIdx h (l + j) (a / 2 ^ j))) := by
  intro d
  induction d with
  | zero =>
    intro l A R extra hld hne hok hasc _
    have hl : l = h - 1 := by omega
    subst hl
    have hp : 0 < 2 ^ (h - 1) := Nat.pow_pos (by decide)
    have hzero : ∀ k ∈ A, k = 0 := by
      intro k hk
      have := hok k hk
      rcases Nat.eq_zero_or_pos k with h0 | h0
      · exact h0
      · have : 2 ^ (h - 1) ≤ k * 2 ^ (h - 1) := Nat.le_mul_of_pos_left _ h0
        omega
    refine ⟨?_, by intro key _; simp [resSpec], by intro a _ j h1 h2; omega⟩
    match A, hne with
    | [k], _ =>
      have := hzero k (by simp)
      subst this
      simp [calcSpec, valLay, blk_top_all M (h - 1) (by rw [hlen]; exact hnH)]
    | k :: k' :: r, _ =>
      have h1 := hzero k (by simp)
      have h2 := hzero k' (by simp)
      have := (List.pairwise_cons.mp hasc).1 k' (by simp)
      omega
  | succ d ih =>
    intro l A R extra hld hne hok hasc hcov
    obtain ⟨s1, s2, s3⟩ := layer_mixed hf L M hlen h pos l (hU l) A.length A 0 R
      (sibSpec hf L d (l + 1) (sibLayer hf L l A).2 ++ extra) rfl hok hasc (fun _ _ => Nat.zero_le _) rfl hcov
    obtain ⟨k1, k2, k3, k4⟩ := sibLayer_ok hf L l A.length A rfl hok hasc
    have hcov' : Covers pos (l + 1) (sibLayer hf L l A).2 0 := by
      intro p hp
      left
      rcases hcov p hp with hc | hc
      · rw [div_pow_succ]
        exact sibLayer_parents_mem hf L l A.length A rfl _ hc
      · exact absurd hc (Nat.not_lt_zero _)
    obtain ⟨i1, i2, i3⟩ := ih (l + 1) (sibLayer hf L l A).2
      (resStep hf L.length h l (valLay hf M l A) R
        ((sibLayer hf L l A).1 ++ (sibSpec hf L d (l + 1) (sibLayer hf L l A).2 ++ extra))) extra (by omega)
      (fun e => hne (k4 e)) k1 k2 hcov'
    simp only [calcSpec, resSpec, sibSpec, List.append_assoc, s1]
    have hbound : ∀ a ∈ A, ∀ j, l + j ≤ h - 1 → a / 2 ^ j < 2 ^ (h - (l + j)) := by
      intro a ha j hj
      exact Nat.lt_of_lt_of_le (pos_lt_of_nonempty hnH hj (anc_nonempty j (hok a ha))) pow_pred_le
    refine ⟨i1, ?_, ?_⟩
    · intro key hkey
      rw [i2 key (by
        intro b hb j h1 h2
        obtain ⟨a, ha, rfl⟩ := k3 b hb
        have := hkey a ha (j + 1) (by omega) (by omega)
        rw [div_pow_succ'] at this
        rw [show l + 1 + j = l + (j + 1) by omega]; exact this)]
      exact s2 key (fun a ha => by simpa using hkey a ha 1 (by omega) (by omega))
    · intro a ha j h1 h2
      have hpa := sibLayer_parents_mem hf L l A.length A rfl a ha
      rcases Nat.eq_or_lt_of_le h1 with hj1 | hj1
      · subst hj1
        simp only [Nat.pow_one]
        rw [i2 _ (by
          intro b hb j' g1 g2 e
          have hb1 := hbound a ha 1 (by omega)
          obtain ⟨a', ha', rfl⟩ := k3 b hb
          have hb2 := hbound a' ha' (j' + 1) (by omega)
          rw [div_pow_succ'] at hb2
          simp only [Nat.pow_one] at hb1
          have := (nIdx_inj (by omega) (by omega) hb1 (by rw [show l + 1 + j' = l + (j' + 1) by omega]; exact hb2) e).1
          omega)]
        exact s3 a ha
      · obtain ⟨j', rfl⟩ : ∃ j', j = j' + 1 := ⟨j - 1, by omega⟩
        have := i3 (a / 2) hpa j' (by omega) (by omega)
        rw [← div_pow_succ', show l + 1 + j' = l + (j' + 1) by omega] at this
        rw [this]
        split
        · rfl
        · apply s2
          intro b hb e
          have hb1 := hbound a ha (j' + 1) (by omega)
          have hb2 := hbound b hb 1 (by omega)
          simp only [Nat.pow_one] at hb2
          have := (nIdx_inj (by omega) (by omega) hb1 hb2 e).1
          omega


/-! ### several updates of a list -/

def setMany {α : Type} (d : List α) (ps : List (Nat × α)) : List α := ps.foldl (fun d pu => d.set pu.1 pu.2) d

theorem length_setMany {α : Type} (ps : List (Nat × α)) : ∀ d : List α, (setMany d ps).length = d.length := by
  induction ps with
  | nil => intro d; rfl
  | cons a r ih => intro d; simp only [setMany, List.foldl_cons] at ih ⊢; rw [ih]; simp

theorem getElem?_setMany_not {α : Type} (ps : List (Nat × α)) (i : Nat) : ∀ d : List α,
    (∀ e ∈ ps, e.1 ≠ i) → (setMany d ps)[i]? = d[i]? := by
  induction ps with
  | nil => intro d _; rfl
  | cons a r ih =>
    intro d h
    simp only [setMany, List.foldl_cons] at ih ⊢
    rw [ih _ (fun e he => h e (by simp [he])), List.getElem?_set_ne (h a (by simp))]

theorem getElem?_setMany_mem {α : Type} (ps : List (Nat × α)) (i : Nat) (x : α) : ∀ d : List α,
    (ps.map (·.1)).Nodup → (i, x) ∈ ps → i < d.length → (setMany d ps)[i]? = some x := by
  induction ps with
  | nil => intro d _ h; cases h
  | cons a r ih =>
    intro d hnd hm hi
    simp only [List.map_cons] at hnd
    have hnd' := List.nodup_cons.mp hnd
    simp only [setMany, List.foldl_cons] at ih ⊢
    simp only [List.mem_cons] at hm
    rcases hm with rfl | hm
    · have := getElem?_setMany_not r i (d.set i x) (by
        intro e he e1
        apply hnd'.1
        rw [← e1]; exact List.mem_map.mpr ⟨e, he, rfl⟩)
      simp only [setMany] at this
      rw [this]
      simp [hi]
    · exact ih _ hnd'.2 hm (by simpa using hi)

theorem map_setMany {α β : Type} (f : α → β) (ps : List (Nat × α)) : ∀ d : List α,
    (setMany d ps).map f = setMany (d.map f) (ps.map fun pu => (pu.1, f pu.2)) := by
  induction ps with
  | nil => intro d; rfl
  | cons a r ih =>
    intro d
    simp only [setMany, List.foldl_cons, List.map_cons] at ih ⊢
    rw [ih, List.map_set]

theorem blk_setMany_other (L : List Bytes) (ps : List (Nat × Bytes)) (l k : Nat)
    (h : ∀ e ∈ ps, e.1 / 2 ^ l ≠ k) : blk (setMany L ps) l k = blk L l k := by
  apply List.ext_getElem?
  intro j
  rw [getElem?_blk, getElem?_blk]
  split
  · rename_i hj
    apply getElem?_setMany_not
    intro e he e1
    apply h e he
    rw [e1]
    exact add_lt_div hj
  · rfl


/-! ### `Update` of several leaves -/

theorem update_multi (hf : HashFns) (t t' : Tree) (L : List Bytes) (hst : Stored hf t L)
    (hsize : t.core.size = L.length) (hpath : t.core.path = peaks hf L) (pos : List Nat) (upd : List Bytes)
    (hnd : pos.Nodup) (hlt : ∀ p ∈ pos, p < L.length) (hlen : pos.length = upd.length)
    (hu : update hf t (pos.map fun p => 2 ^ getHeight L.length + p) upd = some t') :
    t'.core = ⟨rootH hf (setMany L (pos.zip (upd.map hf.leaf))),
      peaks hf (setMany L (pos.zip (upd.map hf.leaf))), L.length⟩ := by
  -- the update list is not empty
  have hne : pos ≠ [] := by
    intro e
    subst e
    have : upd = [] := List.eq_nil_of_length_eq_zero (by simpa using hlen.symm)
    subst this
    rw [update_eq] at hu
    split at hu
    case isFalse => cases hu
    unfold updateOrig at hu
    simp only [List.map_nil, calcPathNodes] at hu
    split at hu
    · cases hu
    · split at hu
      · cases hu
      · split at hu
        · cases hu
        · simp at hu
  obtain ⟨p0, hp0⟩ := List.exists_mem_of_ne_nil pos hne
  have hn : 1 ≤ L.length := by have := hlt p0 hp0; omega
  have hh1 : 1 ≤ getHeight L.length := by simp [getHeight]
  have hnH : L.length ≤ 2 ^ (getHeight L.length - 1) := by
    have := le_two_pow_clog2 L.length hn
    simpa [getHeight] using this
  have hlenq : (upd.map hf.leaf).length = pos.length := by simp; omega
  generalize hqdef : upd.map hf.leaf = q at hlenq
  generalize hMdef : setMany L (pos.zip q) = M
  have hM : M.length = L.length := by rw [← hMdef]; exact length_setMany _ _
  have hzipnd : ((pos.zip q).map (·.1)).Nodup := by rw [List.map_fst_zip (by omega)]; exact hnd
  have hMval : ∀ e ∈ pos.zip q, M[e.1]? = some e.2 := by
    intro e he
    rw [← hMdef]
    exact getElem?_setMany_mem _ e.1 e.2 L hzipnd he (hlt e.1 (List.of_mem_zip he).1)
  have hU : ∀ l k, (∀ p ∈ pos, p / 2 ^ l ≠ k) → k * 2 ^ l < L.length →
      rootH hf (blk L l k) = rootH hf (blk M l k) := by
    intro l k hk _
    rw [← hMdef, blk_setMany_other L _ l k (fun e he => hk e.1 (List.of_mem_zip he).1)]
  -- the layer of the updated leaves
  have hl0 : (layer0 pos q).length = pos.length := by
    rw [(layer0_perm pos q).length_eq]; simp; omega
  have hposlen : 0 < pos.length := List.length_pos_iff.mpr hne
  have hmem : ∀ e, e ∈ layer0 pos q ↔ e ∈ pos.zip q := fun e => (layer0_perm pos q).mem_iff
  have hA0ne : (layer0 pos q).map (·.1) ≠ [] := by
    intro e
    have : ((layer0 pos q).map (·.1)).length = 0 := by rw [e]; rfl
    rw [List.length_map, hl0] at this; omega
  have hA0mem : ∀ p, p ∈ (layer0 pos q).map (·.1) ↔ p ∈ pos := by
    intro p
    constructor
    · intro hp
      simp only [List.mem_map] at hp
      obtain ⟨e, he, rfl⟩ := hp
      exact (List.of_mem_zip ((hmem e).1 he)).1
    · intro hp
      have hpz : p ∈ (pos.zip q).map (·.1) := by rw [List.map_fst_zip (by omega)]; exact hp
      simp only [List.mem_map] at hpz ⊢
      obtain ⟨e, he, rfl⟩ := hpz
      exact ⟨e, (hmem e).2 he, rfl⟩
  have hval : layer0 pos q = valLay hf M 0 ((layer0 pos q).map (·.1)) := by
    unfold valLay
    rw [List.map_map]
    conv => lhs; rw [← List.map_id (layer0 pos q)]
    apply List.map_congr_left
    intro e he
    simp only [id, Function.comp]
    rw [blk_leaf M e.1 e.2 (hMval e ((hmem e).1 he)), rootH_singleton]
  rw [update_eq] at hu
  split at hu
  case isFalse => cases hu
  unfold updateOrig at hu
  rw [hsize, if_neg (by omega)] at hu
  simp only at hu
  split at hu
  · cases hu
  · -- the sibling hashes
    cases hsib : siblingHashes t (pos.map fun p => 2 ^ getHeight L.length + p) with
    | none => rw [hsib] at hu; cases hu
    | some sibs =>
      rw [hsib] at hu
      simp only at hu
      have hsibs : sibs = sibSpec hf L (getHeight L.length - 1) 0 ((layer0 pos q).map (·.1)) := by
        rcases siblingHashes_spec hf t L hst hsize pos q hnd hlt hlenq hne with h | ⟨h, _⟩
        · rw [h] at hsib; exact (Option.some.inj hsib).symm
        · rw [h] at hsib; cases hsib
      -- the recomputed nodes
      rw [hqdef] at hu
      cases hcalc : calcPathNodes hf q L.length (pos.map fun p => 2 ^ getHeight L.length + p) sibs with
      | none => rw [hcalc] at hu; cases hu
      | some calcd =>
        rw [hcalc] at hu
        simp only at hu
        obtain ⟨s1, s2, s3⟩ := spec_mixed hf L M hM (getHeight L.length) hnH pos hU (getHeight L.length - 1) 0
          ((layer0 pos q).map (·.1)) (initResult q (pos.map fun p => 2 ^ getHeight L.length + p) []) []
          (by omega) hA0ne
          (by intro k hk; simpa using hlt k ((hA0mem k).1 hk))
          (List.Pairwise.map _ (fun a b hab => hab) (layer0_asc pos q hnd hlenq))
          (by intro p hp; left; simpa using (hA0mem p).2 hp)
        rw [List.append_nil, ← hval, ← hsibs] at s1 s2 s3
        have hcalcd : calcd = resSpec hf L.length (getHeight L.length) (getHeight L.length - 1) 0 (layer0 pos q)
              (initResult q (pos.map fun p => 2 ^ getHeight L.length + p) []) sibs ∧
            calcd.lookup 2 = some (rootH hf M) := by
          rcases calcPathNodes_spec hf L.length hn pos q sibs hnd hlt hlenq hne with hs | ⟨hnone, _⟩
          · rw [s1] at hs
            simp only at hs
            obtain ⟨res, e1, e2, e3⟩ := hs
            rw [hcalc] at e2
            have : calcd = res := Option.some.inj e2
            subst this
            exact ⟨e1, e3⟩
          · rw [hnone] at hcalc; cases hcalc
        obtain ⟨hcd, hroot2⟩ := hcalcd
        rw [← hcd] at s2 s3
        -- the initial result map
        have hndI : (pos.map fun p => 2 ^ getHeight L.length + p).Nodup :=
          List.Pairwise.map _ (fun a b (hab : a ≠ b) => by intro e; exact hab (by omega)) hnd
        have hpos2 : 0 < 2 ^ getHeight L.length := Nat.pow_pos (by decide)
        obtain ⟨hi1, hi2⟩ := initResult_lookup (pos.map fun p => 2 ^ getHeight L.length + p) q [] hndI
          (by intro i hi; simp only [List.mem_map] at hi; obtain ⟨p, _, rfl⟩ := hi; omega) (by simpa using hlenq)
        have hR0 : ∀ p ∈ pos, ∃ x, (initResult q (pos.map fun p => 2 ^ getHeight L.length + p) []).lookup
            (nIdx (getHeight L.length) 0 p) = some x ∧ M[p]? = some x := by
          intro p hp
          have hpz : p ∈ (pos.zip q).map (·.1) := by rw [List.map_fst_zip (by omega)]; exact hp
          simp only [List.mem_map] at hpz
          obtain ⟨e, he, rfl⟩ := hpz
          refine ⟨e.2, ?_, hMval e he⟩
          have hin : (2 ^ getHeight L.length + e.1, e.2) ∈ (pos.map fun p => 2 ^ getHeight L.length + p).zip q := by
            rw [List.zip_map_left]
            exact List.mem_map.mpr ⟨e, he, rfl⟩
          have := hi2 _ hin
          rw [nIdx_zero]; exact this
        -- the stored nodes, the root and the append path
        cases hsave : saveCalculated (getHeight L.length) calcd t with
        | none => rw [hsave] at hu; cases hu
        | some t1 =>
          rw [hsave] at hu
          simp only at hu
          cases hrp : refreshPath calcd L.length (getHeight L.length) (getHeight L.length) 0 t.core.path with
          | none => rw [hroot2, hrp] at hu; cases hu
          | some p' =>
            rw [hroot2, hrp] at hu
            simp only [Option.some.injEq] at hu
            rw [← hu]
            simp only
            have hlt2 := lt_two_pow_getHeight L.length hn
            have hp' : p' = peaks hf M := by
              rw [hpath, peaks_eq_peaksBits hf L _ hlt2] at hrp
              rw [peaks_eq_peaksBits hf M (getHeight L.length) (by rw [hM]; exact hlt2)]
              -- facts about a peak
              have hpeak : ∀ layer idx, (L.length / 2 ^ layer) % 2 = 1 →
                  locIndex (layer, L.length / 2 ^ layer - 1) (getHeight L.length) = some idx →
                  layer ≤ getHeight L.length - 1 ∧
                  L.length / 2 ^ layer - 1 < 2 ^ (getHeight L.length - 1 - layer) ∧
                  idx = nIdx (getHeight L.length) layer (L.length / 2 ^ layer - 1) ∧
                  (L.length / 2 ^ layer - 1 + 1) * 2 ^ layer ≤ L.length := by
                intro layer idx hb hli
                have hq1 : 1 ≤ L.length / 2 ^ layer := by
                  generalize L.length / 2 ^ layer = q at hb; omega
                have hp2 : 0 < 2 ^ layer := Nat.pow_pos (by decide)
                have hle : 2 ^ layer ≤ L.length := by
                  have := (Nat.le_div_iff_mul_le hp2).1 hq1; omega
                have hlay : layer ≤ getHeight L.length - 1 := by
                  have : 2 ^ layer ≤ 2 ^ (getHeight L.length - 1) := Nat.le_trans hle hnH
                  exact (Nat.pow_le_pow_iff_right (by decide)).1 this
                have hk : L.length / 2 ^ layer - 1 < 2 ^ (getHeight L.length - 1 - layer) := by
                  have : L.length / 2 ^ layer ≤ 2 ^ (getHeight L.length - 1) / 2 ^ layer := Nat.div_le_div_right hnH
                  rw [Nat.pow_div hlay (by decide)] at this
                  omega
                refine ⟨hlay, hk, locIndex_eq' _ _ _ idx (by omega) hk hli, ?_⟩
                rw [show L.length / 2 ^ layer - 1 + 1 = L.length / 2 ^ layer by omega]
                exact Nat.div_mul_le_self _ _
              -- a peak that contains an updated leaf has been recomputed
              have hanc : ∀ layer idx, (L.length / 2 ^ layer) % 2 = 1 →
                  locIndex (layer, L.length / 2 ^ layer - 1) (getHeight L.length) = some idx →
                  ∀ p ∈ pos, p / 2 ^ layer = L.length / 2 ^ layer - 1 →
                  calcd.lookup idx = some (rootH hf (blk M layer (L.length / 2 ^ layer - 1))) := by
                intro layer idx hb hli p hp hpk
                obtain ⟨hlay, hk, hidx, hfull⟩ := hpeak layer idx hb hli
                rw [hidx]
                by_cases hl0' : layer = 0
                · subst hl0'
                  simp only [Nat.pow_zero, Nat.div_one] at hpk ⊢
                  rw [← hpk]
                  obtain ⟨x, hx1, hx2⟩ := hR0 p hp
                  rw [s2 _ (by
                    intro a ha j h1 h2 e
                    have hpb : p < 2 ^ (getHeight L.length - 0) := by
                      have := hlt p hp
                      have : 2 ^ (getHeight L.length - 1) ≤ 2 ^ (getHeight L.length - 0) :=
                        Nat.pow_le_pow_right (by decide) (by omega)
                      omega
                    have hab := Nat.lt_of_lt_of_le (pos_lt_of_nonempty hnH (show 0 + j ≤ getHeight L.length - 1 by omega)
                      (anc_nonempty j (show a * 2 ^ 0 < L.length by simpa using hlt a ((hA0mem a).1 ha))))
                      (pow_pred_le (h := getHeight L.length) (l := 0 + j))
                    have := (nIdx_inj (by omega) (by omega) hpb hab e).1
                    omega), hx1, blk_leaf M p x hx2, rootH_singleton]
                · have := s3 p ((hA0mem p).2 hp) layer (by omega) hlay
                  rw [Nat.zero_add, hpk] at this
                  rw [this, if_pos]
                  right
                  refine ⟨by omega, ?_⟩
                  have e := two_mul_pow_pred (show 1 ≤ layer by omega)
                  have hp2 : 0 < 2 ^ (layer - 1) := Nat.pow_pos (by decide)
                  generalize L.length / 2 ^ layer - 1 = kk at hfull ⊢
                  rw [← e] at hfull
                  have : (kk + 1) * (2 * 2 ^ (layer - 1)) = (2 * kk + 1) * 2 ^ (layer - 1) + 2 ^ (layer - 1) := by ring
                  omega
              refine refreshPath_spec hf L M hM calcd (getHeight L.length) ?_ ?_ _ 0 p' hrp
              · -- a recomputed entry has the value of the new list
                intro layer idx v hb hli hlk
                obtain ⟨hlay, hk, hidx, hfull⟩ := hpeak layer idx hb hli
                by_cases hex : ∃ p ∈ pos, p / 2 ^ layer = L.length / 2 ^ layer - 1
                · obtain ⟨p, hp, hpk⟩ := hex
                  rw [hanc layer idx hb hli p hp hpk] at hlk
                  exact (Option.some.inj hlk).symm
                · -- no updated leaf below: the key is not in the map
                  exfalso
                  have hkb := Nat.lt_of_lt_of_le hk (pow_pred_le (h := getHeight L.length) (l := layer))
                  rw [hidx, s2 _ (by
                    intro a ha j h1 h2 e
                    have hab := Nat.lt_of_lt_of_le (pos_lt_of_nonempty hnH (show 0 + j ≤ getHeight L.length - 1 by omega)
                      (anc_nonempty j (show a * 2 ^ 0 < L.length by simpa using hlt a ((hA0mem a).1 ha))))
                      (pow_pred_le (h := getHeight L.length) (l := 0 + j))
                    obtain ⟨e1, e2⟩ := nIdx_inj (by omega) (by omega) hkb hab e
                    apply hex
                    refine ⟨a, (hA0mem a).1 ha, ?_⟩
                    simp only [Nat.zero_add] at e1
                    subst e1
                    exact e2.symm)] at hlk
                  have hkey : nIdx (getHeight L.length) layer (L.length / 2 ^ layer - 1)
                      ∈ pos.map fun p => 2 ^ getHeight L.length + p := by
                    rcases Classical.em (nIdx (getHeight L.length) layer (L.length / 2 ^ layer - 1)
                      ∈ pos.map fun p => 2 ^ getHeight L.length + p) with h | h
                    · exact h
                    · rw [hi1 _ h] at hlk; cases hlk
                  simp only [List.mem_map] at hkey
                  obtain ⟨p, hp, hpe⟩ := hkey
                  have hpb : p < 2 ^ (getHeight L.length - 0) := by
                    have := hlt p hp
                    have : 2 ^ (getHeight L.length - 1) ≤ 2 ^ (getHeight L.length - 0) :=
                      Nat.pow_le_pow_right (by decide) (by omega)
                    omega
                  obtain ⟨e1, e2⟩ := nIdx_inj (l := 0) (by omega) (by omega) hpb hkb (by rw [nIdx_zero]; exact hpe)
                  apply hex
                  subst e1
                  exact ⟨p, hp, by simpa using e2⟩
              · -- an entry that is not recomputed has no updated leaf below
                intro layer idx hb hli hlk
                obtain ⟨hlay, hk, hidx, hfull⟩ := hpeak layer idx hb hli
                apply hU
                · intro p hp hpk
                  rw [hanc layer idx hb hli p hp hpk] at hlk
                  cases hlk
                · have hp2 : 0 < 2 ^ layer := Nat.pow_pos (by decide)
                  rw [Nat.add_mul, Nat.one_mul] at hfull
                  omega
            rw [hp']


/-! ### the right witness beyond 64 layers -/

/-- `GenerateRightWitness` on a tree with an exact store -/
theorem genWitness_eq (hf : HashFns) (t : Tree) (L : List Bytes) (hst : Stored hf t L)
    (hsize : t.core.size = L.length) (i : Nat) (hi0 : 0 < i) (hi : i ≤ L.length) :
    genWitness t i = some (witSpec hf L (getHeight L.length) 0 i) := by
  unfold genWitness
  rw [hsize, if_neg (by omega), if_neg (by omega), if_neg (by omega),
    witnessLoop_spec hf t L hst i hi0 _ 0 i [] (by simp) (by simp) (Nat.le_refl _)]
  simp

/-- when the fuel runs out before the witness is used up, no root is returned -/
theorem rwLoop_tail_none (hf : HashFns) (i : Nat) (init : Bool) : ∀ (f : Nat) (rw : List Bytes) (layer : Nat) (cur : Bytes),
    f < rw.length → layer + f = 64 → rwLoop hf i f layer (2 ^ layer) init [] rw cur = none := by
  intro f
  induction f with
  | zero =>
    intro rw layer cur h _
    cases rw with
    | nil => simp at h
    | cons w rw' => simp [rwLoop]
  | succ f ih =>
    intro rw layer cur h hl
    cases rw with
    | nil => simp at h
    | cons w rw' =>
      simp only [List.length_cons] at h
      by_cases hf0 : f = 0
      · subst hf0
        rw [rwLoop_right' hf i 0 layer (2 ^ layer) _ init w [] rw' cur (Or.inl rfl) (pow_div_self_mod layer) rfl]
        cases rw' with
        | nil => simp at h
        | cons w2 rw2 => simp [rwLoop]
      · have hlt : 2 ^ (layer + 1) < 2 ^ 64 := Nat.pow_lt_pow_right (by decide) (by omega)
        rw [rwLoop_right' hf i f layer (2 ^ layer) (2 ^ (layer + 1)) init w [] rw' cur (Or.inl rfl)
          (pow_div_self_mod layer)
          (by rw [show 2 ^ layer + 2 ^ layer = 2 ^ (layer + 1) by rw [Nat.pow_succ]; omega]; exact Nat.mod_eq_of_lt hlt)]
        exact ih rw' (layer + 1) _ (by omega) (by omega)

theorem witSpec_pow_length (hf : HashFns) (L : List Bytes) (hL : L.length = 2 ^ 64 + 1) :
    ∀ (F j : Nat), j ≤ 64 → 65 - j ≤ F → (witSpec hf L F j (2 ^ j)).length = 65 - j := by
  intro F
  induction F with
  | zero => intro j h1 h2; omega
  | succ F ih =>
    intro j h1 h2
    have hp : 2 ^ j ≤ 2 ^ 64 := Nat.pow_le_pow_right (by decide) h1
    simp only [witSpec]
    rw [if_neg (by omega), if_neg (by rw [pow_div_self_mod]; omega)]
    simp only [List.length_cons]
    rw [show 2 ^ j + 2 ^ j = 2 ^ (j + 1) by rw [Nat.pow_succ]; omega]
    by_cases hj : j = 64
    · subst hj
      rw [witSpec_ge hf L _ _ _ (by rw [hL]; decide)]
      rfl
    · rw [ih (j + 1) (by omega) (by omega)]
      omega

theorem witSpec_succ_odd (hf : HashFns) (L : List Bytes) (F layer inc : Nat) (h1 : ¬ L.length ≤ inc)
    (h2 : ¬ (inc / 2 ^ layer) % 2 = 0) :
    witSpec hf L (F + 1) layer inc
      = rootH hf (blk L layer (inc / 2 ^ layer)) :: witSpec hf L F (layer + 1) (inc + 2 ^ layer) := by
  simp only [witSpec, if_neg h1, if_neg h2]

theorem witSpec_succ_even (hf : HashFns) (L : List Bytes) (F layer inc : Nat) (h1 : ¬ L.length ≤ inc)
    (h2 : (inc / 2 ^ layer) % 2 = 0) :
    witSpec hf L (F + 1) layer inc = witSpec hf L F (layer + 1) inc := by
  simp only [witSpec, if_neg h1, if_pos h2]

theorem list_length_three {α : Type} (l : List α) (h : l.length = 3) : ∃ a b c, l = [a, b, c] := by
  match l, h with
  | [a, b, c], _ => exact ⟨a, b, c, rfl⟩

theorem peaks_three (hf : HashFns) (a b c : Bytes) : peaks hf [a, b, c] = [c, rootH hf [a, b]] := by
  have h3 : Nat.log2 3 = 1 := log2_eq_of (by decide) (by decide)
  have h1 : Nat.log2 1 = 0 := log2_eq_of (by decide) (by decide)
  unfold peaks
  rw [peaksDesc_cons hf [a, b, c] (by simp)]
  simp only [List.length_cons, List.length_nil, Nat.zero_add, Nat.reduceAdd, h3, Nat.pow_one]
  rw [show List.drop 2 [a, b, c] = [c] from rfl, show List.take 2 [a, b, c] = [a, b] from rfl,
    peaksDesc_cons hf [c] (by simp)]
  simp only [List.length_cons, List.length_nil, Nat.zero_add, h1, Nat.pow_zero]
  rw [show List.drop 1 [c] = [] from rfl, show List.take 1 [c] = [c] from rfl, rootH_singleton]
  simp [peaksDesc]

/-- for `2^64 + 1` leaves the split point 3 is not reconstructed: the 64 layers of
`CalculateRootFromRightWitness` do not consume the 64 hashes of the right witness -/
theorem rightWitness_fails (hf : HashFns) (t : Tree) (L : List Bytes) (hst : Stored hf t L)
    (hsize : t.core.size = L.length) (hL : L.length = 2 ^ 64 + 1) :
    ∃ w, genWitness t 3 = some w ∧ rootFromRightWitness hf 3 (peaks hf (L.take 3)) w = none := by
  refine ⟨_, genWitness_eq hf t L hst hsize 3 (by omega) (by rw [hL]; decide), ?_⟩
  have hH : getHeight L.length = 66 := by
    rw [hL]
    unfold getHeight clog2
    rw [if_neg (by decide), Nat.add_sub_cancel, Nat.log2_two_pow]
  rw [hH]
  obtain ⟨a, b, c, habc⟩ := list_length_three (L.take 3) (by simp; rw [hL]; decide)
  rw [habc, peaks_three]
  -- the witness: the block at layer 0, nothing at layer 1, then one block per layer
  have hW : witSpec hf L 66 0 3 = rootH hf (blk L 0 3) :: witSpec hf L 64 2 (2 ^ 2) := by
    rw [witSpec_succ_odd hf L 65 0 3 (by rw [hL]; decide) (by decide),
      witSpec_succ_even hf L 64 1 (3 + 2 ^ 0) (by rw [hL]; decide) (by decide)]
    rfl
  have hlen := witSpec_pow_length hf L hL 64 2 (by decide) (by decide)
  rw [hW]
  simp only [rootFromRightWitness]
  generalize witSpec hf L 64 2 (2 ^ 2) = W' at hlen
  rw [show (64 : Nat) = 63 + 1 from rfl,
    rwLoop_init hf 3 63 0 3 4 _ [] W' _ (by decide) (by decide) (Or.inr (by decide)),
    show (63 : Nat) = 62 + 1 from rfl,
    rwLoop_left hf 3 62 1 4 _ [] W' _ (by decide) (Or.inr (by decide))]
  exact rwLoop_tail_none hf 3 true 62 W' 2 _ (by omega) (by decide)


end LiskVerif.RMT
