/-
`bcmp` (Go `bytes.Compare`) is a total order on byte strings.
-/
import LiskVerif.Model.Util

namespace LiskVerif

theorem u8_eq_of_not_lt {x y : UInt8} (h1 : ¬ x < y) (h2 : ¬ y < x) : x = y := by
  apply UInt8.toNat_inj.mp
  rw [UInt8.lt_iff_toNat_lt] at h1 h2
  omega

theorem bcmp_self (a : Bytes) : bcmp a a = .eq := by
  induction a with
  | nil => rfl
  | cons x xs ih => simp [bcmp, ih, UInt8.lt_irrefl]

theorem bcmp_eq_iff (a b : Bytes) : bcmp a b = .eq ↔ a = b := by
  induction a generalizing b with
  | nil => cases b <;> simp [bcmp]
  | cons x xs ih =>
    cases b with
    | nil => simp [bcmp]
    | cons y ys =>
      simp only [bcmp, List.cons.injEq]
      by_cases h1 : x < y
      · simp only [h1, if_true]
        constructor
        · intro h; cases h
        · intro ⟨h, _⟩; subst h; exact absurd h1 (UInt8.lt_irrefl _)
      · by_cases h2 : y < x
        · simp only [h1, h2, if_false, if_true]
          constructor
          · intro h; cases h
          · intro ⟨h, _⟩; subst h; exact absurd h2 (UInt8.lt_irrefl _)
        · simp only [h1, h2, if_false, ih]
          have : x = y := u8_eq_of_not_lt h1 h2
          simp [this]

theorem bcmp_swap (a b : Bytes) : bcmp a b = .lt ↔ bcmp b a = .gt := by
  induction a generalizing b with
  | nil => cases b <;> simp [bcmp]
  | cons x xs ih =>
    cases b with
    | nil => simp [bcmp]
    | cons y ys =>
      simp only [bcmp]
      by_cases h1 : x < y
      · have h2 : ¬ y < x := fun h => absurd (UInt8.lt_trans h1 h) (UInt8.lt_irrefl _)
        simp [h1, h2]
      · by_cases h2 : y < x
        · simp [h1, h2]
        · simp [h1, h2, ih]

theorem ble_total (a b : Bytes) : ble a b || ble b a := by
  unfold ble
  cases h : bcmp a b <;> simp
  · -- gt
    cases h2 : bcmp b a <;> simp
    have := (bcmp_swap b a).mpr h
    rw [this] at h2; cases h2

theorem ble_antisymm (a b : Bytes) (h1 : ble a b = true) (h2 : ble b a = true) : a = b := by
  unfold ble at *
  cases h : bcmp a b
  · have := (bcmp_swap a b).mp h
    simp [this] at h2
  · exact (bcmp_eq_iff a b).mp h
  · simp [h] at h1

theorem bcmp_lt_trans (a b c : Bytes) (h1 : bcmp a b = .lt) (h2 : bcmp b c = .lt) : bcmp a c = .lt := by
  induction a generalizing b c with
  | nil =>
    cases b with
    | nil => simp [bcmp] at h1
    | cons y ys => cases c <;> simp_all [bcmp]
  | cons x xs ih =>
    cases b with
    | nil => simp [bcmp] at h1
    | cons y ys =>
      cases c with
      | nil => simp [bcmp] at h2
      | cons z zs =>
        simp only [bcmp] at *
        by_cases hxy : x < y
        · by_cases hyz : y < z
          · simp [UInt8.lt_trans hxy hyz]
          · by_cases hzy : z < y
            · simp [hyz, hzy] at h2
            · have : y = z := u8_eq_of_not_lt hyz hzy
              subst this; simp [hxy]
        · by_cases hyx : y < x
          · simp [hxy, hyx] at h1
          · have : x = y := u8_eq_of_not_lt hxy hyx
            subst this
            simp only [hxy, if_false] at h1
            by_cases hxz : x < z
            · simp [hxz]
            · by_cases hzx : z < x
              · simp [hxz, hzx] at h2
              · simp only [hxz, hzx, if_false] at h2 ⊢
                exact ih _ _ h1 h2

theorem ble_trans (a b c : Bytes) (h1 : ble a b = true) (h2 : ble b c = true) : ble a c = true := by
  unfold ble at *
  cases hab : bcmp a b
  · cases hbc : bcmp b c
    · simp [bcmp_lt_trans a b c hab hbc]
    · have := (bcmp_eq_iff b c).mp hbc; subst this; simp [hab]
    · simp [hbc] at h2
  · have := (bcmp_eq_iff a b).mp hab; subst this; exact h2
  · simp [hab] at h1

end LiskVerif
