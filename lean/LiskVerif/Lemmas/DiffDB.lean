/-
Helper lemmas for the diffdb model (association-list lookups, effective map after each operation).
-/
import LiskVerif.Model.DiffDB

namespace LiskVerif.DiffDB

/-! ### association lists -/

theorem slookup_filter_ne (s : Store) (k k' : Bytes) :
    slookup (s.filter (fun e => e.1 ≠ k)) k' = if k = k' then none else slookup s k' := by
  induction s with
  | nil => simp [slookup]
  | cons e r ih =>
    obtain ⟨a, b⟩ := e
    by_cases h : a = k
    · subst h
      simp only [List.filter, ne_eq, not_true_eq_false, decide_false, ih, slookup]
      by_cases h2 : a = k' <;> simp [h2]
    · simp only [List.filter, ne_eq, h, not_false_eq_true, decide_true, slookup, ih]
      by_cases h2 : a = k'
      · subst h2; simp [Ne.symm h]
      · simp [h2]

@[simp] theorem slookup_sset (s : Store) (k v k' : Bytes) :
    slookup (sset s k v) k' = if k = k' then some v else slookup s k' := by
  unfold sset
  simp only [slookup, slookup_filter_ne]
  by_cases h : k = k' <;> simp [h]

@[simp] theorem slookup_sdel (s : Store) (k k' : Bytes) :
    slookup (sdel s k) k' = if k = k' then none else slookup s k' := by
  unfold sdel; exact slookup_filter_ne s k k'

theorem clookup_filter_ne (c : Cache) (k k' : Bytes) :
    clookup (c.filter (fun e => e.1 ≠ k)) k' = if k = k' then none else clookup c k' := by
  induction c with
  | nil => simp [clookup]
  | cons e r ih =>
    obtain ⟨a, b⟩ := e
    by_cases h : a = k
    · subst h
      simp only [List.filter, ne_eq, not_true_eq_false, decide_false, ih, clookup]
      by_cases h2 : a = k' <;> simp [h2]
    · simp only [List.filter, ne_eq, h, not_false_eq_true, decide_true, clookup, ih]
      by_cases h2 : a = k'
      · subst h2; simp [Ne.symm h]
      · simp [h2]

@[simp] theorem clookup_cput (c : Cache) (k : Bytes) (v : CV) (k' : Bytes) :
    clookup (cput c k v) k' = if k = k' then some v else clookup c k' := by
  unfold cput
  simp only [clookup, clookup_filter_ne]
  by_cases h : k = k' <;> simp [h]

@[simp] theorem clookup_cerase (c : Cache) (k k' : Bytes) :
    clookup (cerase c k) k' = if k = k' then none else clookup c k' := by
  unfold cerase; exact clookup_filter_ne c k k'

/-- keys of an association list are pairwise distinct -/
def NoDupKeys {β : Type} (l : List (Bytes × β)) : Prop := (l.map (·.1)).Nodup

theorem nodup_filter {β : Type} (l : List (Bytes × β)) (p : Bytes × β → Bool) (h : NoDupKeys l) :
    NoDupKeys (l.filter p) := by
  unfold NoDupKeys at *
  induction l with
  | nil => simp
  | cons e r ih =>
    simp only [List.map_cons, List.nodup_cons] at h
    by_cases hp : p e = true
    · simp only [List.filter, hp, List.map_cons, List.nodup_cons]
      refine ⟨?_, ih h.2⟩
      intro hm
      apply h.1
      simp only [List.mem_map] at hm ⊢
      obtain ⟨x, hx, hx2⟩ := hm
      exact ⟨x, (List.mem_filter.mp hx).1, hx2⟩
    · have : p e = false := by simpa using hp
      simp only [List.filter, this]
      exact ih h.2

theorem nodup_put {β : Type} (l : List (Bytes × β)) (k : Bytes) (v : β) (h : NoDupKeys l) :
    NoDupKeys ((k, v) :: l.filter (fun e => e.1 ≠ k)) := by
  have h2 := nodup_filter l (fun e => e.1 ≠ k) h
  unfold NoDupKeys at *
  simp only [List.map_cons, List.nodup_cons]
  refine ⟨?_, h2⟩
  intro hm
  simp only [List.mem_map, List.mem_filter] at hm
  obtain ⟨x, ⟨_, hx⟩, hx2⟩ := hm
  simp [hx2] at hx

/-- membership in an association list with distinct keys is lookup -/
theorem slookup_iff_mem (s : Store) (h : NoDupKeys s) (k v : Bytes) :
    slookup s k = some v ↔ (k, v) ∈ s := by
  induction s with
  | nil => simp [slookup]
  | cons e r ih =>
    obtain ⟨a, b⟩ := e
    unfold NoDupKeys at h
    simp only [List.map_cons, List.nodup_cons] at h
    simp only [slookup, List.mem_cons, Prod.mk.injEq]
    by_cases ha : a = k
    · subst ha
      simp only [if_true, Option.some.injEq, true_and]
      constructor
      · intro hb; left; exact hb.symm
      · intro hb
        rcases hb with hb | hb
        · exact hb.symm
        · exfalso; apply h.1; simp only [List.mem_map]; exact ⟨(a, v), hb, rfl⟩
    · simp only [ha, if_false]
      rw [ih h.2]
      constructor
      · intro hm; right; exact hm
      · intro hm
        rcases hm with ⟨hk, _⟩ | hm
        · exact absurd hk.symm ha
        · exact hm

theorem clookup_iff_mem (c : Cache) (h : NoDupKeys c) (k : Bytes) (v : CV) :
    clookup c k = some v ↔ (k, v) ∈ c := by
  induction c with
  | nil => simp [clookup]
  | cons e r ih =>
    obtain ⟨a, b⟩ := e
    unfold NoDupKeys at h
    simp only [List.map_cons, List.nodup_cons] at h
    simp only [clookup, List.mem_cons, Prod.mk.injEq]
    by_cases ha : a = k
    · subst ha
      simp only [if_true, Option.some.injEq, true_and]
      constructor
      · intro hb; left; exact hb.symm
      · intro hb
        rcases hb with hb | hb
        · exact hb.symm
        · exfalso; apply h.1; simp only [List.mem_map]; exact ⟨(a, v), hb, rfl⟩
    · simp only [ha, if_false]
      rw [ih h.2]
      constructor
      · intro hm; right; exact hm
      · intro hm
        rcases hm with ⟨hk, _⟩ | hm
        · exact absurd hk.symm ha
        · exact hm

end LiskVerif.DiffDB
