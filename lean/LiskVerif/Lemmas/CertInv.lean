/-
Invariants used by the C06 theorems (shared by Props/C06.lean, Props/C06_Pool.lean and
Props/C06_EndToEnd.lean).

The certificate pool outlives changes of the chain (new blocks, deleted blocks, reorganisations),
so its invariant must not refer to "the current chain".  A block id commits to the whole history of
the block; `BlockCtx` is the (fork independent) function from block ids to the height of the block
and the BFT parameters valid at that height.  A chain state is `Consistent` with it when the
parameters it reports for its own blocks are the ones of the context.
-/
import LiskVerif.Model.Cert

namespace LiskVerif.Cert

/-- well-formed BFT parameters: distinct BLS keys and distinct addresses -/
def ParamsWf (p : Params) : Prop :=
  (p.validators.map (·.key)).Nodup ∧ (p.validators.map (·.addr)).Nodup

/-- every stored parameter set is well-formed -/
def StoreWf (ps : ParamStore) : Prop := ∀ e ∈ ps, ParamsWf e.2

/-- for every block id (of any fork): the height of the block and the BFT parameters valid at it -/
abbrev BlockCtx := Nat → Option (Nat × Params)

/-- the chain state agrees with the block context: the parameters the state reports for the height
of one of its blocks are the ones of that block, and they are available for every height above
`maxHeightCertified` (older parameters may have been pruned) -/
def Consistent (st : State) (ctx : BlockCtx) : Prop :=
  ∀ h hd, st.blockAt h = some hd →
    (∀ p, getParams st.params h = some p → ctx hd.id = some (h, p)) ∧
    (st.mhc < h → ∀ p, ctx hd.id = some (h, p) → getParams st.params h = some p)

/-- a commit verified against the CURRENT chain: by a validator active at its height, the signature
verifies for the certificate of the node's own block at that height -/
def VerifiedOnChain (st : State) (c : Commit) : Prop :=
  ∃ hd p v, st.blockAt c.height = some hd ∧ hd.id = c.block ∧
    getParams st.params c.height = some p ∧ findValidator p.validators c.signer = some v ∧
    c.sig = sign v.key (certMsg st hd)

/-- a pool entry is a commit for SOME block (id `c.block`, of the stated height) signed by a
validator active at that block's height, with a valid signature over its certificate -/
def EntryOk (ctx : BlockCtx) (chainId : Nat) (c : Commit) : Prop :=
  ∃ p v, ctx c.block = some (c.height, p) ∧ findValidator p.validators c.signer = some v ∧
    c.sig = sign v.key ⟨chainId, c.block⟩

/-- the pool invariant: every entry is `EntryOk`, at most one entry per (block, signer) -/
def PoolInv (ctx : BlockCtx) (chainId : Nat) (pool : Pool) : Prop :=
  (∀ c ∈ pool.all, EntryOk ctx chainId c) ∧
  pool.all.Pairwise (fun a b => ¬ (a.block = b.block ∧ a.signer = b.signer))

theorem VerifiedOnChain.entryOk {st : State} {ctx : BlockCtx} {c : Commit} (hc : Consistent st ctx)
    (h : VerifiedOnChain st c) : EntryOk ctx st.chainId c := by
  obtain ⟨hd, p, v, hb, hid, hp, hf, hs⟩ := h
  refine ⟨p, v, ?_, hf, ?_⟩
  · rw [← hid]; exact (hc _ _ hb).1 p hp
  · rw [hs, ← hid]; rfl

end LiskVerif.Cert
