/-
From layout trees to the LIP-0039 specification (Model/SMTSpec.lean `root`): if a layout tree is an (uncollapsed)
arrangement of a set of entries – empty tips hold nothing, leaf tips one entry, stub tips the root of at least two
entries, a branch splits the entries by their next key bit – then the recursively collapsed tree
(`LT.collapse`, the recursive form of `calculateSubTree`) hashes to the specification root of the entries.
No property of the hash function is used.
-/
import LiskVerif.Lemmas.SMTImplTree
import LiskVerif.Lemmas.SMT

namespace LiskVerif.SMTImpl
open LiskVerif LiskVerif.SMT

/-- `Exp H d t es`: the layout tree `t`, below a node with `d` key bits left, arranges exactly the entries `es` -/
inductive Exp (H : HashFn) : Nat → LT → List Entry → Prop
  | empty (d : Nat) (n : Node) : n.kind = .empty → n.hash = emptyHash H → Exp H d (.tip n) []
  | leaf (d : Nat) (n : Node) (e : Entry) : n.kind = .leaf → n.hash = leafHash H e.key e.value → Exp H d (.tip n) [e]
  | stub (d : Nat) (n : Node) (es : List Entry) : n.kind = .stub → 2 ≤ es.length → n.hash = root H d es →
      Exp H d (.tip n) es
  | br (d : Nat) (l r : LT) (es : List Entry) : Exp H d l (goL es) → Exp H d r (goR es) → Exp H (d + 1) (.br l r) es

/-- kind of the top of a tree; a branch counts as a stub (an inner node) -/
def LT.topKind : LT → Kind
  | .tip n => n.kind
  | .br _ _ => .stub

def kindOfLen : Nat → Kind
  | 0 => .empty
  | 1 => .leaf
  | _ => .stub

theorem kindOfLen_empty {n : Nat} : kindOfLen n = .empty ↔ n = 0 := by
  match n with
  | 0 => simp [kindOfLen]
  | 1 => simp [kindOfLen]
  | n + 2 => simp [kindOfLen]

theorem kindOfLen_leaf {n : Nat} : kindOfLen n = .leaf ↔ n = 1 := by
  match n with
  | 0 => simp [kindOfLen]
  | 1 => simp [kindOfLen]
  | n + 2 => simp [kindOfLen]

theorem kindOfLen_stub {n : Nat} : kindOfLen n = .stub ↔ 2 ≤ n := by
  match n with
  | 0 => simp [kindOfLen]
  | 1 => simp [kindOfLen]
  | n + 2 => simp [kindOfLen]

theorem goL_single_kv {e e' : Entry} (h : goL [e] = [e']) : e'.key = e.key ∧ e'.value = e.value := by
  have : e' ∈ goL [e] := by rw [h]; simp
  obtain ⟨x, hx, _, hk, hv⟩ := mem_goL.mp this
  simp at hx; subst hx; exact ⟨hk, hv⟩

theorem goR_single_kv {e e' : Entry} (h : goR [e] = [e']) : e'.key = e.key ∧ e'.value = e.value := by
  have : e' ∈ goR [e] := by rw [h]; simp
  obtain ⟨x, hx, _, hk, hv⟩ := mem_goR.mp this
  simp at hx; subst hx; exact ⟨hk, hv⟩

theorem branchHash_eq (H : HashFn) (l r : Bytes) : newBranchHash H l r = branchHash H l r := rfl

/-- the collapsed tree hashes to the specification root, and its top says how many entries there are -/
theorem collapse_exp (H : HashFn) : ∀ (d : Nat) (t : LT) (es : List Entry), WFE d es → Exp H d t es →
    t.collapse.hash H = root H d es ∧ t.collapse.topKind = kindOfLen es.length := by
  intro d t es hw he
  induction he with
  | empty d n hk hh => simp [LT.collapse, LT.hash, LT.topKind, kindOfLen, hk, hh]
  | leaf d n e hk hh => simp [LT.collapse, LT.hash, LT.topKind, kindOfLen, hk, hh]
  | stub d n es hk h2 hh =>
    refine ⟨by simp [LT.collapse, LT.hash, hh], ?_⟩
    simp [LT.collapse, LT.topKind, hk]
    exact (kindOfLen_stub.mpr h2).symm
  | br d l r es _ _ ihl ihr =>
    obtain ⟨hl1, hl2⟩ := ihl (wfe_goL hw)
    obtain ⟨hr1, hr2⟩ := ihr (wfe_goR hw)
    have hsum := length_goL_add_goR es (wfe_path_ne_nil hw)
    have hbig : 2 ≤ es.length →
        newBranchHash H (l.collapse.hash H) (r.collapse.hash H) = root H (d + 1) es := by
      intro h2; rw [root_succ_two H d es h2, hl1, hr1]; rfl
    cases hcl : l.collapse with
    | br la lb =>
      rw [hcl] at hl2
      have : 2 ≤ (goL es).length := kindOfLen_stub.mp (by simpa [LT.topKind] using hl2.symm)
      have h2 : 2 ≤ es.length := by omega
      have hb := hbig h2
      rw [hcl] at hb
      simp only [LT.collapse, hcl]
      exact ⟨by simpa [LT.hash] using hb, by simpa [LT.topKind] using (kindOfLen_stub.mpr h2).symm⟩
    | tip x =>
      cases hcr : r.collapse with
      | br ra rb =>
        rw [hcr] at hr2
        have : 2 ≤ (goR es).length := kindOfLen_stub.mp (by simpa [LT.topKind] using hr2.symm)
        have h2 : 2 ≤ es.length := by omega
        have hb := hbig h2
        rw [hcl, hcr] at hb
        simp only [LT.collapse, hcl, hcr]
        exact ⟨by simpa [LT.hash] using hb, by simpa [LT.topKind] using (kindOfLen_stub.mpr h2).symm⟩
      | tip y =>
        rw [hcl] at hl1 hl2
        rw [hcr] at hr1 hr2
        simp only [LT.topKind] at hl2 hr2
        simp only [LT.hash] at hl1 hr1
        simp only [LT.collapse, hcl, hcr, mergeTips]
        by_cases hee : x.kind = .empty ∧ y.kind = .empty
        · rw [if_pos hee]
          have ha : (goL es).length = 0 := kindOfLen_empty.mp (by rw [← hl2]; exact hee.1)
          have hb : (goR es).length = 0 := kindOfLen_empty.mp (by rw [← hr2]; exact hee.2)
          have h0 : es.length = 0 := by omega
          have hes : es = [] := List.length_eq_zero_iff.mp h0
          have hgl : goL es = [] := List.length_eq_zero_iff.mp ha
          subst hes
          rw [hgl] at hl1
          simp [LT.hash, LT.topKind, kindOfLen, hl1, hee.1]
        · rw [if_neg hee]
          by_cases hel : x.kind = .empty ∧ y.kind = .leaf
          · rw [if_pos hel]
            have ha : (goL es).length = 0 := kindOfLen_empty.mp (by rw [← hl2]; exact hel.1)
            have hb : (goR es).length = 1 := kindOfLen_leaf.mp (by rw [← hr2]; exact hel.2)
            have h1 : es.length = 1 := by omega
            obtain ⟨e, rfl⟩ := List.length_eq_one_iff.mp h1
            obtain ⟨e', hge⟩ := List.length_eq_one_iff.mp hb
            obtain ⟨hk, hv⟩ := goR_single_kv hge
            rw [hge] at hr1
            simp [LT.hash, LT.topKind, kindOfLen, hr1, hel.2, hk, hv]
          · rw [if_neg hel]
            by_cases hle : x.kind = .leaf ∧ y.kind = .empty
            · rw [if_pos hle]
              have ha : (goL es).length = 1 := kindOfLen_leaf.mp (by rw [← hl2]; exact hle.1)
              have hb : (goR es).length = 0 := kindOfLen_empty.mp (by rw [← hr2]; exact hle.2)
              have h1 : es.length = 1 := by omega
              obtain ⟨e, rfl⟩ := List.length_eq_one_iff.mp h1
              obtain ⟨e', hge⟩ := List.length_eq_one_iff.mp ha
              obtain ⟨hk, hv⟩ := goL_single_kv hge
              rw [hge] at hl1
              simp [LT.hash, LT.topKind, kindOfLen, hl1, hle.1, hk, hv]
            · rw [if_neg hle]
              have h2 : 2 ≤ es.length := by
                have e1 := @kindOfLen_empty (goL es).length
                have e2 := @kindOfLen_empty (goR es).length
                have l1 := @kindOfLen_leaf (goL es).length
                have l2 := @kindOfLen_leaf (goR es).length
                rw [← hl2] at e1 l1
                rw [← hr2] at e2 l2
                by_cases c1 : (goL es).length = 0
                · by_cases c2 : (goR es).length = 0
                  · exact absurd ⟨e1.mpr c1, e2.mpr c2⟩ hee
                  · by_cases c3 : (goR es).length = 1
                    · exact absurd ⟨e1.mpr c1, l2.mpr c3⟩ hel
                    · omega
                · by_cases c2 : (goR es).length = 0
                  · by_cases c3 : (goL es).length = 1
                    · exact absurd ⟨l1.mpr c3, e2.mpr c2⟩ hle
                    · omega
                  · omega
              have hb := hbig h2
              rw [hcl, hcr] at hb
              exact ⟨by simpa [LT.hash] using hb, by simpa [LT.topKind] using (kindOfLen_stub.mpr h2).symm⟩

end LiskVerif.SMTImpl
