/-
Layout trees for the subtree transcription (Model/SMTImpl.lean): a stored subtree is the list of its nodes with
their depths (`structure`), that is the left-to-right flattening of a binary tree whose tips are the nodes.
`LT.hash` is the recursive Merkle hash and `LT.collapse` the recursive form of `calculateSubTree`
(an (empty, empty) pair becomes empty, an (empty, leaf) / (leaf, empty) pair becomes the leaf, lifted).
-/
import LiskVerif.Model.SMTImpl

namespace LiskVerif.SMTImpl
open LiskVerif LiskVerif.SMT

inductive LT where
  | tip (n : Node)
  | br (l r : LT)
deriving Repr

/-- the nodes, left to right -/
def LT.nodes : LT → List Node
  | .tip n => [n]
  | .br l r => l.nodes ++ r.nodes

/-- the depths of the tips, left to right, when the root of the tree is at depth `d` (`structure`) -/
def LT.depths (d : Nat) : LT → List Nat
  | .tip _ => [d]
  | .br l r => l.depths (d + 1) ++ r.depths (d + 1)

def LT.maxDepth (d : Nat) : LT → Nat
  | .tip _ => d
  | .br l r => max (l.maxDepth (d + 1)) (r.maxDepth (d + 1))

/-- recursive Merkle hash -/
def LT.hash (H : HashFn) : LT → Bytes
  | .tip n => n.hash
  | .br l r => newBranchHash H (l.hash H) (r.hash H)

/-- no tip is a temp node -/
def LT.noTemp : LT → Prop
  | .tip n => n.kind ≠ .temp
  | .br l r => l.noTemp ∧ r.noTemp

/-- what `calculateSubTree` does to a pair of sibling nodes -/
def mergeTips (a b : Node) : LT :=
  if a.kind = .empty ∧ b.kind = .empty then .tip a
  else if a.kind = .empty ∧ b.kind = .leaf then .tip b
  else if a.kind = .leaf ∧ b.kind = .empty then .tip a
  else .br (.tip a) (.tip b)

/-- recursive form of `calculateSubTree` -/
def LT.collapse : LT → LT
  | .tip n => .tip n
  | .br l r =>
    match l.collapse, r.collapse with
    | .tip a, .tip b => mergeTips a b
    | l', r' => .br l' r'

end LiskVerif.SMTImpl
