/-
Helper lemmas about `LiskVerif.Model.BFT` used by `Props/C02_Inv.lean`:

* `All2` — pointwise relation between two lists (the window before / after a loop);
* `DescN` — consecutive descending heights, and the strict ordering it implies;
* `lookupLE` / `prune` — the result of `lookupLE` is the first entry with the largest key `≤ h`;
  pruning at `h` and filtering out keys above the queried height do not change lookups;
* the vote loops only change weights (`precommitLoop_rel`, `prevoteLoop_rel`, `updateVotes_rel`);
* `process_facts` — decomposition of a successful `process`;
* `firstWith_spec` — what `firstWith` returns on a strictly descending window;
* `HInvL_step` — the list-level preservation argument behind height monotonicity.
-/
import LiskVerif.Model.BFT

namespace LiskVerif.BFT

/-! ### pointwise relation on lists -/

def All2 {α β : Type} (R : α → β → Prop) : List α → List β → Prop
  | [], [] => True
  | a :: l, b :: l' => R a b ∧ All2 R l l'
  | [], _ :: _ => False
  | _ :: _, [] => False

@[simp] theorem All2_nil {α β : Type} (R : α → β → Prop) : All2 R [] [] := trivial
@[simp] theorem All2_cons {α β : Type} (R : α → β → Prop) (a : α) (b : β) (l : List α) (l' : List β) :
    All2 R (a :: l) (b :: l') ↔ R a b ∧ All2 R l l' := Iff.rfl
@[simp] theorem All2_nil_cons {α β : Type} (R : α → β → Prop) (b : β) (l' : List β) :
    All2 R [] (b :: l') ↔ False := Iff.rfl
@[simp] theorem All2_cons_nil {α β : Type} (R : α → β → Prop) (a : α) (l : List α) :
    All2 R (a :: l) ([] : List β) ↔ False := Iff.rfl

theorem All2.refl {α : Type} {R : α → α → Prop} (hR : ∀ a, R a a) : ∀ l : List α, All2 R l l
  | [] => trivial
  | a :: l => ⟨hR a, All2.refl hR l⟩

theorem All2.imp {α β : Type} {R S : α → β → Prop} (h : ∀ a b, R a b → S a b) :
    ∀ {l : List α} {l' : List β}, All2 R l l' → All2 S l l'
  | [], [], _ => trivial
  | _ :: _, _ :: _, ⟨h1, h2⟩ => ⟨h _ _ h1, All2.imp h h2⟩
  | [], _ :: _, h => h.elim
  | _ :: _, [], h => h.elim

theorem All2.comp {α β γ : Type} {R : α → β → Prop} {S : β → γ → Prop} {T : α → γ → Prop}
    (h : ∀ a b c, R a b → S b c → T a c) :
    ∀ {l : List α} {l' : List β} {l'' : List γ}, All2 R l l' → All2 S l' l'' → All2 T l l''
  | [], [], [], _, _ => trivial
  | _ :: _, _ :: _, _ :: _, ⟨h1, h2⟩, ⟨h3, h4⟩ => ⟨h _ _ _ h1 h3, All2.comp h h2 h4⟩
  | [], _ :: _, _, h, _ => h.elim
  | _ :: _, [], _, h, _ => h.elim
  | [], [], _ :: _, _, h => h.elim
  | _ :: _, _ :: _, [], _, h => h.elim

theorem All2.length_eq {α β : Type} {R : α → β → Prop} :
    ∀ {l : List α} {l' : List β}, All2 R l l' → l.length = l'.length
  | [], [], _ => rfl
  | _ :: _, _ :: _, ⟨_, h2⟩ => by simp [All2.length_eq h2]
  | [], _ :: _, h => h.elim
  | _ :: _, [], h => h.elim

theorem All2.mem_right {α β : Type} {R : α → β → Prop} :
    ∀ {l : List α} {l' : List β}, All2 R l l' → ∀ b ∈ l', ∃ a ∈ l, R a b
  | [], [], _, b, hb => by cases hb
  | a :: l, b' :: l', ⟨h1, h2⟩, b, hb => by
    rcases List.mem_cons.1 hb with rfl | hb
    · exact ⟨a, List.mem_cons_self, h1⟩
    · obtain ⟨x, hx, hr⟩ := All2.mem_right h2 b hb
      exact ⟨x, List.mem_cons_of_mem _ hx, hr⟩
  | [], _ :: _, h, _, _ => h.elim
  | _ :: _, [], h, _, _ => h.elim

theorem All2.mem_left {α β : Type} {R : α → β → Prop} :
    ∀ {l : List α} {l' : List β}, All2 R l l' → ∀ a ∈ l, ∃ b ∈ l', R a b
  | [], [], _, b, hb => by cases hb
  | a' :: l, b :: l', ⟨h1, h2⟩, a, ha => by
    rcases List.mem_cons.1 ha with rfl | ha
    · exact ⟨b, List.mem_cons_self, h1⟩
    · obtain ⟨x, hx, hr⟩ := All2.mem_left h2 a ha
      exact ⟨x, List.mem_cons_of_mem _ hx, hr⟩
  | [], _ :: _, h, _, _ => h.elim
  | _ :: _, [], h, _, _ => h.elim

theorem All2.map_eq {α β γ : Type} {R : α → β → Prop} {f : α → γ} {g : β → γ}
    (h : ∀ a b, R a b → f a = g b) :
    ∀ {l : List α} {l' : List β}, All2 R l l' → l.map f = l'.map g
  | [], [], _ => rfl
  | _ :: _, _ :: _, ⟨h1, h2⟩ => by simp [h _ _ h1, All2.map_eq h h2]
  | [], _ :: _, h => h.elim
  | _ :: _, [], h => h.elim

theorem All2.getLast? {α β : Type} {R : α → β → Prop} :
    ∀ {l : List α} {l' : List β}, All2 R l l' → ∀ b, l'.getLast? = some b → ∃ a, l.getLast? = some a ∧ R a b
  | [], [], _, b, hb => by cases hb
  | [a], [b'], ⟨h1, _⟩, b, hb => by
    simp at hb; subst hb; exact ⟨a, by simp, h1⟩
  | a :: a2 :: l, b' :: b2 :: l', ⟨_, h2⟩, b, hb => by
    rw [List.getLast?_cons_cons] at hb ⊢
    exact All2.getLast? h2 b hb
  | [_], _ :: _ :: _, ⟨_, h⟩, _, _ => h.elim
  | _ :: _ :: _, [_], ⟨_, h⟩, _, _ => h.elim
  | [], _ :: _, h, _, _ => h.elim
  | _ :: _, [], h, _, _ => h.elim

/-! ### consecutive descending heights -/

/-- `l = [t, t-1, t-2, …]` without truncation -/
def DescN : List Nat → Prop
  | [] => True
  | [_] => True
  | a :: b :: l => a = b + 1 ∧ DescN (b :: l)

def decDescN : (l : List Nat) → Decidable (DescN l)
  | [] => isTrue trivial
  | [_] => isTrue trivial
  | a :: b :: l =>
    match (inferInstance : Decidable (a = b + 1)), decDescN (b :: l) with
    | isTrue h1, isTrue h2 => isTrue ⟨h1, h2⟩
    | isFalse h1, _ => isFalse fun h => h1 h.1
    | _, isFalse h2 => isFalse fun h => h2 h.2

instance (l : List Nat) : Decidable (DescN l) := decDescN l

theorem DescN.tail : ∀ {a : Nat} {l : List Nat}, DescN (a :: l) → DescN l
  | _, [], _ => trivial
  | _, _ :: _, h => h.2

theorem DescN.cons {a : Nat} : ∀ {l : List Nat}, DescN l → (∀ t, l.head? = some t → a = t + 1) → DescN (a :: l)
  | [], _, _ => trivial
  | b :: _, h, ht => ⟨ht b rfl, h⟩

theorem DescN.take : ∀ {l : List Nat} (k : Nat), DescN l → DescN (l.take k)
  | [], k, _ => by simp [DescN]
  | [_], k, _ => by cases k <;> simp [DescN]
  | _ :: _ :: _, 0, _ => by simp [DescN]
  | a :: b :: l, 1, _ => by simp [DescN]
  | a :: b :: l, k + 2, h => by
    have ih := DescN.take (k + 1) h.2
    rw [List.take_succ_cons] at ih ⊢
    rw [List.take_succ_cons]
    exact ⟨h.1, ih⟩

theorem DescN.lt_head : ∀ {a : Nat} {l : List Nat}, DescN (a :: l) → ∀ x ∈ l, x < a
  | _, [], _, x, hx => by cases hx
  | a, b :: l, h, x, hx => by
    rcases List.mem_cons.1 hx with rfl | hx
    · have := h.1; omega
    · have := DescN.lt_head h.2 x hx
      have := h.1; omega

theorem DescN.pairwise : ∀ {l : List Nat}, DescN l → l.Pairwise (fun a b => b < a)
  | [], _ => List.Pairwise.nil
  | _ :: _, h => List.pairwise_cons.2 ⟨DescN.lt_head h, DescN.pairwise (DescN.tail h)⟩

/-- index form: the `i`-th entry is `top - i` (stated additively, so without truncation) -/
theorem DescN.index : ∀ {l : List Nat}, DescN l → ∀ (i x t : Nat), l[i]? = some x → l.head? = some t → x + i = t
  | [], _, i, x, t, hx, _ => by simp at hx
  | [a], _, i, x, t, hx, ht => by
    cases i with
    | zero => simp at hx ht; omega
    | succ i => simp at hx
  | a :: b :: l, h, i, x, t, hx, ht => by
    cases i with
    | zero => simp at hx ht; omega
    | succ i =>
      simp only [List.getElem?_cons_succ] at hx
      have := DescN.index h.2 i x b hx rfl
      simp at ht
      have := h.1; omega

/-- window lists: strictly descending heights -/
abbrev SortedDesc (l : List BlockInfo) : Prop := l.Pairwise (fun a b => b.height < a.height)

theorem sortedDesc_of_descN {l : List BlockInfo} (h : DescN (l.map (·.height))) : SortedDesc l := by
  have := DescN.pairwise h
  rwa [List.pairwise_map] at this

theorem SortedDesc.getLast_le : ∀ {l : List BlockInfo}, SortedDesc l → ∀ o, l.getLast? = some o →
    ∀ b ∈ l, o.height ≤ b.height
  | [], _, o, ho, _, _ => by cases ho
  | [a], _, o, ho, b, hb => by
    simp at ho hb; subst ho; subst hb; exact Nat.le_refl _
  | a :: a2 :: l, h, o, ho, b, hb => by
    rw [List.getLast?_cons_cons] at ho
    have h' := List.pairwise_cons.1 h
    rcases List.mem_cons.1 hb with rfl | hb
    · exact Nat.le_of_lt (h'.1 o (List.mem_of_getLast? ho))
    · exact SortedDesc.getLast_le h'.2 o ho b hb

/-! ### `lookupLE`, `prune` -/

def lkStep {α : Type} (h : Nat) (best : Option (Nat × α)) (e : Nat × α) : Option (Nat × α) :=
  if e.1 ≤ h then
    match best with
    | none => some e
    | some b => if b.1 < e.1 then some e else some b
  else best

theorem lookupLE_eq_foldl {α : Type} (l : List (Nat × α)) (h : Nat) :
    lookupLE l h = l.foldl (lkStep h) none := rfl

/-- entries with a key above the queried height are irrelevant -/
theorem foldl_lkStep_filter {α : Type} (k : Nat) (q : Nat × α → Bool) :
    ∀ (l : List (Nat × α)) (best : Option (Nat × α)), (∀ e ∈ l, q e = false → ¬ e.1 ≤ k) →
      (l.filter q).foldl (lkStep k) best = l.foldl (lkStep k) best
  | [], _, _ => rfl
  | e :: l, best, h => by
    have ih := fun b => foldl_lkStep_filter k q l b (fun e he => h e (List.mem_cons_of_mem _ he))
    cases hq : q e with
    | true => simp [hq, ih]
    | false =>
      have : ¬ e.1 ≤ k := h e List.mem_cons_self hq
      simp [hq, ih, lkStep, this]

theorem foldl_lkStep_some {α : Type} (h : Nat) :
    ∀ (l : List (Nat × α)) (best : Option (Nat × α)) (e : Nat × α),
      l.foldl (lkStep h) best = some e → (∀ b, best = some b → b.1 ≤ h) →
      e.1 ≤ h ∧ (e ∈ l ∨ best = some e) ∧ (∀ x ∈ l, x.1 ≤ h → x.1 ≤ e.1) ∧ (∀ b, best = some b → b.1 ≤ e.1)
  | [], best, e, he, hb => by
    simp at he; subst he
    exact ⟨hb e rfl, Or.inr rfl, by simp, by intro b hb'; cases hb'; exact Nat.le_refl _⟩
  | x :: l, best, e, he, hb => by
    rw [List.foldl_cons] at he
    by_cases hx : x.1 ≤ h
    · cases best with
      | none =>
        have hs : lkStep h none x = some x := by simp [lkStep, hx]
        rw [hs] at he
        obtain ⟨h1, h2, h3, h4⟩ := foldl_lkStep_some h l (some x) e he (by intro b hb'; cases hb'; exact hx)
        refine ⟨h1, ?_, ?_, by simp⟩
        · rcases h2 with h2 | h2
          · exact Or.inl (List.mem_cons_of_mem _ h2)
          · cases h2; exact Or.inl List.mem_cons_self
        · intro y hy hyh
          rcases List.mem_cons.1 hy with rfl | hy
          · exact h4 _ rfl
          · exact h3 y hy hyh
      | some b =>
        by_cases hlt : b.1 < x.1
        · have hs : lkStep h (some b) x = some x := by simp [lkStep, hx, hlt]
          rw [hs] at he
          obtain ⟨h1, h2, h3, h4⟩ := foldl_lkStep_some h l (some x) e he (by intro b hb'; cases hb'; exact hx)
          refine ⟨h1, ?_, ?_, ?_⟩
          · rcases h2 with h2 | h2
            · exact Or.inl (List.mem_cons_of_mem _ h2)
            · cases h2; exact Or.inl List.mem_cons_self
          · intro y hy hyh
            rcases List.mem_cons.1 hy with rfl | hy
            · exact h4 _ rfl
            · exact h3 y hy hyh
          · intro b' hb'; cases hb'
            have := h4 x rfl; omega
        · have hs : lkStep h (some b) x = some b := by simp [lkStep, hx, hlt]
          rw [hs] at he
          obtain ⟨h1, h2, h3, h4⟩ := foldl_lkStep_some h l (some b) e he hb
          refine ⟨h1, ?_, ?_, h4⟩
          · rcases h2 with h2 | h2
            · exact Or.inl (List.mem_cons_of_mem _ h2)
            · exact Or.inr h2
          · intro y hy hyh
            rcases List.mem_cons.1 hy with rfl | hy
            · have := h4 b rfl; omega
            · exact h3 y hy hyh
    · have hs : lkStep h best x = best := by simp [lkStep, hx]
      rw [hs] at he
      obtain ⟨h1, h2, h3, h4⟩ := foldl_lkStep_some h l best e he hb
      refine ⟨h1, ?_, ?_, h4⟩
      · rcases h2 with h2 | h2
        · exact Or.inl (List.mem_cons_of_mem _ h2)
        · exact Or.inr h2
      · intro y hy hyh
        rcases List.mem_cons.1 hy with rfl | hy
        · exact absurd hyh hx
        · exact h3 y hy hyh

/-- the result of `lookupLE` is an entry of the list with the largest key `≤ h` -/
theorem lookupLE_some {α : Type} {l : List (Nat × α)} {h : Nat} {e : Nat × α} (he : lookupLE l h = some e) :
    e.1 ≤ h ∧ e ∈ l ∧ ∀ x ∈ l, x.1 ≤ h → x.1 ≤ e.1 := by
  obtain ⟨h1, h2, h3, _⟩ := foldl_lkStep_some h l none e he (by simp)
  refine ⟨h1, ?_, h3⟩
  rcases h2 with h2 | h2
  · exact h2
  · cases h2

private theorem prune_aux_some {α : Type} (h k m : Nat) (hmh : m ≤ h) (hhk : h ≤ k) :
    ∀ (l : List (Nat × α)) (b : Nat × α), m ≤ b.1 → (∀ x ∈ l, x.1 ≤ h → x.1 ≤ m) →
      (l.filter fun e => decide (e.1 > h ∨ e.1 = m)).foldl (lkStep k) (some b) = l.foldl (lkStep k) (some b)
  | [], _, _, _ => rfl
  | e :: l, b, hb, hmax => by
    have hmax' : ∀ x ∈ l, x.1 ≤ h → x.1 ≤ m := fun x hx => hmax x (List.mem_cons_of_mem _ hx)
    by_cases hp : e.1 > h ∨ e.1 = m
    · have hme : m ≤ e.1 := by omega
      simp only [List.filter_cons, hp, decide_true, if_true, List.foldl_cons]
      have hcases : lkStep k (some b) e = some b ∨ lkStep k (some b) e = some e := by
        by_cases hek : e.1 ≤ k
        · by_cases hlt : b.1 < e.1
          · right; simp [lkStep, hek, hlt]
          · left; simp [lkStep, hek, hlt]
        · left; simp [lkStep, hek]
      rcases hcases with hs | hs <;> rw [hs]
      · exact prune_aux_some h k m hmh hhk l b hb hmax'
      · exact prune_aux_some h k m hmh hhk l e hme hmax'
    · have he1 : e.1 ≤ h := by omega
      have he2 : e.1 < m := by
        have := hmax e List.mem_cons_self he1
        omega
      have hs : lkStep k (some b) e = some b := by
        have h1 : e.1 ≤ k := by omega
        have h2 : ¬ b.1 < e.1 := by omega
        simp [lkStep, h1, h2]
      simp only [List.filter_cons, hp, decide_false, List.foldl_cons, hs]
      exact prune_aux_some h k m hmh hhk l b hb hmax'

private theorem prune_aux_none {α : Type} (h k m : Nat) (hmh : m ≤ h) (hhk : h ≤ k) :
    ∀ (l : List (Nat × α)) (bo : Option (Nat × α)), (∀ b, bo = some b → b.1 < m) →
      (∃ x ∈ l, x.1 = m) → (∀ x ∈ l, x.1 ≤ h → x.1 ≤ m) →
      (l.filter fun e => decide (e.1 > h ∨ e.1 = m)).foldl (lkStep k) none = l.foldl (lkStep k) bo
  | [], _, _, hex, _ => by obtain ⟨x, hx, _⟩ := hex; cases hx
  | e :: l, bo, hbo, hex, hmax => by
    have hmax' : ∀ x ∈ l, x.1 ≤ h → x.1 ≤ m := fun x hx => hmax x (List.mem_cons_of_mem _ hx)
    by_cases hp : e.1 > h ∨ e.1 = m
    · have hme : m ≤ e.1 := by omega
      simp only [List.filter_cons, hp, decide_true, if_true, List.foldl_cons]
      by_cases hek : e.1 ≤ k
      · have hs1 : lkStep k none e = some e := by simp [lkStep, hek]
        have hs2 : lkStep k bo e = some e := by
          cases bo with
          | none => simp [lkStep, hek]
          | some b =>
            have : b.1 < e.1 := by have := hbo b rfl; omega
            simp [lkStep, hek, this]
        rw [hs1, hs2]
        exact prune_aux_some h k m hmh hhk l e hme hmax'
      · have hs1 : lkStep k none e = none := by simp [lkStep, hek]
        have hs2 : lkStep k bo e = bo := by simp [lkStep, hek]
        rw [hs1, hs2]
        refine prune_aux_none h k m hmh hhk l bo hbo ?_ hmax'
        obtain ⟨x, hx, hxm⟩ := hex
        rcases List.mem_cons.1 hx with rfl | hx
        · omega
        · exact ⟨x, hx, hxm⟩
    · have he1 : e.1 ≤ h := by omega
      have he2 : e.1 < m := by
        have := hmax e List.mem_cons_self he1
        omega
      simp only [List.filter_cons, hp, decide_false, List.foldl_cons]
      refine prune_aux_none h k m hmh hhk l (lkStep k bo e) ?_ ?_ hmax'
      · intro b hb
        have h1 : e.1 ≤ k := by omega
        cases bo with
        | none =>
          simp [lkStep, h1] at hb; subst hb; exact he2
        | some b0 =>
          have := hbo b0 rfl
          simp only [lkStep, h1, if_true] at hb
          split at hb <;> (simp at hb; subst hb; assumption)
      · obtain ⟨x, hx, hxm⟩ := hex
        rcases List.mem_cons.1 hx with rfl | hx
        · omega
        · exact ⟨x, hx, hxm⟩

/-- `prune l h` (= `deleteBFTParams`) does not change lookups at heights `≥ h` -/
theorem lookupLE_prune {α : Type} (l : List (Nat × α)) {h k : Nat} (hk : h ≤ k) :
    lookupLE (prune l h) k = lookupLE l k := by
  unfold prune
  cases hl : lookupLE l h with
  | none => rfl
  | some keep =>
    obtain ⟨h1, h2, h3⟩ := lookupLE_some hl
    simp only [lookupLE_eq_foldl]
    exact prune_aux_none h k keep.1 h1 hk l none (by simp) ⟨keep, h2, rfl⟩ h3

theorem prune_subset {α : Type} (l : List (Nat × α)) (h : Nat) : ∀ e ∈ prune l h, e ∈ l := by
  intro e he
  unfold prune at he
  split at he
  · exact he
  · exact (List.mem_filter.1 he).1

/-- replacing / adding the entry with key `next` does not change lookups below `next` -/
theorem lookupLE_cons_filter {α : Type} (l : List (Nat × α)) (next : Nat) (v : α) {k : Nat} (hk : k < next) :
    lookupLE ((next, v) :: l.filter (·.1 ≠ next)) k = lookupLE l k := by
  simp only [lookupLE_eq_foldl, List.foldl_cons]
  have hs : lkStep k none (next, v) = none := by
    have : ¬ next ≤ k := by omega
    simp [lkStep, this]
  rw [hs]
  apply foldl_lkStep_filter
  intro e _ hq
  have : e.1 = next := by simpa using hq
  omega

/-! ### the vote loops only change weights -/

def newInfo (h : Header) : BlockInfo := { height := h.height, gen := h.gen, mhg := h.mhg, mhp := h.mhp }

/-- same block: height, generator, maxHeightGenerated, maxHeightPrevoted agree -/
def SameMeta (a b : BlockInfo) : Prop := a.height = b.height ∧ a.gen = b.gen ∧ a.mhg = b.mhg ∧ a.mhp = b.mhp

/-- same block, weights did not decrease -/
def InfoLE (a b : BlockInfo) : Prop :=
  SameMeta a b ∧ a.prevoteWeight ≤ b.prevoteWeight ∧ a.precommitWeight ≤ b.precommitWeight

/-- block `b` reaches the threshold of its height under the parameter lookup `g` -/
def Quorum (g : Nat → Option Params) (w : BlockInfo → Nat) (thr : Params → Nat) (b : BlockInfo) : Prop :=
  ∃ p, g b.height = some p ∧ thr p ≤ w b

abbrev PvQ (g : Nat → Option Params) (b : BlockInfo) : Prop := Quorum g (·.prevoteWeight) (·.prevoteThreshold) b
abbrev PcQ (g : Nat → Option Params) (b : BlockInfo) : Prop := Quorum g (·.precommitWeight) (·.precommitThreshold) b

def Rpc (g : Nat → Option Params) (a b : BlockInfo) : Prop :=
  SameMeta a b ∧ a.prevoteWeight = b.prevoteWeight ∧ a.precommitWeight ≤ b.precommitWeight ∧
    (a.precommitWeight < b.precommitWeight → PvQ g a)

def Rpv (a b : BlockInfo) : Prop :=
  SameMeta a b ∧ a.prevoteWeight ≤ b.prevoteWeight ∧ a.precommitWeight = b.precommitWeight

/-- relation between a window entry before and after `updateVotes` -/
def Ruv (g : Nat → Option Params) (a b : BlockInfo) : Prop :=
  InfoLE a b ∧ (a.precommitWeight < b.precommitWeight → PvQ g a)

theorem SameMeta.refl (a : BlockInfo) : SameMeta a a := ⟨rfl, rfl, rfl, rfl⟩
theorem Rpc.refl (g : Nat → Option Params) (a : BlockInfo) : Rpc g a a :=
  ⟨SameMeta.refl a, rfl, Nat.le_refl _, fun h => absurd h (Nat.lt_irrefl _)⟩
theorem Rpv.refl (a : BlockInfo) : Rpv a a := ⟨SameMeta.refl a, Nat.le_refl _, rfl⟩
theorem Ruv.refl (g : Nat → Option Params) (a : BlockInfo) : Ruv g a a :=
  ⟨⟨SameMeta.refl a, Nat.le_refl _, Nat.le_refl _⟩, fun h => absurd h (Nat.lt_irrefl _)⟩

theorem Ruv_of_Rpc_Rpv (g : Nat → Option Params) (a b c : BlockInfo) (h1 : Rpc g a b) (h2 : Rpv b c) : Ruv g a c := by
  obtain ⟨⟨a1, a2, a3, a4⟩, a5, a6, a7⟩ := h1
  obtain ⟨⟨b1, b2, b3, b4⟩, b5, b6⟩ := h2
  refine ⟨⟨⟨?_, ?_, ?_, ?_⟩, ?_, ?_⟩, ?_⟩
  · omega
  · exact a2.trans b2
  · omega
  · omega
  · omega
  · omega
  · intro h; exact a7 (by omega)

theorem precommitLoop_rel (s : State) (gen : Bytes) (minH : Nat) :
    ∀ (l : List BlockInfo) (done : Bool) (l' : List BlockInfo) (first : Option Nat),
      precommitLoop s gen minH l done = .ok (l', first) → All2 (Rpc (getParams s)) l l'
  | [], done, l', first, h => by
    simp only [precommitLoop] at h
    cases h; trivial
  | b :: rest, done, l', first, h => by
    simp only [precommitLoop] at h
    split at h
    · cases h; exact All2.refl (Rpc.refl _) _
    · split at h
      · cases h
      · split at h
        · split at h
          · cases h
          · split at h
            · cases h
            · rename_i hge _ p hp hq _ v _ _ rest' first' hrec
              injection h with h; injection h with h1 h2
              subst h1
              refine ⟨⟨SameMeta.refl b, rfl, Nat.le_add_right _ _, fun _ => ⟨p, hp, hq⟩⟩, ?_⟩
              exact precommitLoop_rel s gen minH rest true rest' first' hrec
        · split at h
          · cases h
          · rename_i rest' first' hrec
            injection h with h; injection h with h1 h2
            subst h1
            exact ⟨Rpc.refl _ b, precommitLoop_rel s gen minH rest done rest' first' hrec⟩

theorem prevoteLoop_rel (s : State) (gen : Bytes) (minH : Nat) :
    ∀ (l l' : List BlockInfo), prevoteLoop s gen minH l = .ok l' → All2 Rpv l l'
  | [], l', h => by
    simp only [prevoteLoop] at h
    cases h; trivial
  | b :: rest, l', h => by
    simp only [prevoteLoop] at h
    split at h
    · cases h; exact All2.refl Rpv.refl _
    · split at h
      · cases h
      · split at h
        · cases h
        · split at h
          · cases h
          · rename_i rest' hrec
            injection h with h
            subst h
            exact ⟨⟨SameMeta.refl b, Nat.le_add_right _ _, rfl⟩, prevoteLoop_rel s gen minH rest rest' hrec⟩

/-- `updatePrevotesPrecommits` only changes weights (and the vote info of the generator) -/
theorem updateVotes_rel {s s' : State} (h : updateVotes s = .ok s') :
    All2 (Ruv (getParams s)) s.infos s'.infos ∧ s'.params = s.params ∧ s'.batchSize = s.batchSize ∧
      s'.mhp = s.mhp ∧ s'.mhpc = s.mhpc ∧ s'.mhc = s.mhc ∧ s'.keys = s.keys := by
  have hrefl : All2 (Ruv (getParams s)) s.infos s.infos := All2.refl (Ruv.refl _) _
  unfold updateVotes at h
  split at h
  · cases h; exact ⟨hrefl, rfl, rfl, rfl, rfl, rfl, rfl⟩
  · split at h
    · cases h; exact ⟨hrefl, rfl, rfl, rfl, rfl, rfl, rfl⟩
    · split at h
      · cases h; exact ⟨hrefl, rfl, rfl, rfl, rfl, rfl, rfl⟩
      · simp only [] at h
        split at h
        · cases h
        · rename_i infos1 first h1
          split at h
          · cases h
          · rename_i infos2 h2
            cases h
            refine ⟨?_, rfl, rfl, rfl, rfl, rfl, rfl⟩
            exact All2.comp (Ruv_of_Rpc_Rpv _) (precommitLoop_rel _ _ _ _ _ _ _ h1) (prevoteLoop_rel _ _ _ _ _ h2)

/-! ### decomposition of `process` -/

theorem getParams_congr {s t : State} (h : s.params = t.params) : getParams s = getParams t := by
  funext k; simp [getParams, h]

theorem firstWith_congr {s t : State} (h : s.params = t.params) (w : BlockInfo → Nat) (thr : Params → Nat) :
    ∀ l, firstWith s w thr l = firstWith t w thr l
  | [] => rfl
  | b :: l => by simp only [firstWith, getParams_congr h, firstWith_congr h w thr l]

theorem process_facts {s : State} {h : Header} {s' : State} (hp : process s h = .ok s') :
    ∃ k, 3 * s.batchSize = k + 1 ∧
      All2 (Ruv (getParams s)) (newInfo h :: s.infos.take k) s'.infos ∧
      s'.batchSize = s.batchSize ∧
      (∃ p, firstWith s (·.prevoteWeight) (·.prevoteThreshold) s'.infos = .ok p ∧ s'.mhp = p.getD s.mhp) ∧
      (∃ pc, firstWith s (·.precommitWeight) (·.precommitThreshold) s'.infos = .ok pc ∧
        s'.mhpc = pc.getD s.mhpc) ∧
      s'.mhc = h.commitHeight.getD s.mhc ∧
      s'.params = prune s.params (min ((s'.infos.getLast?.map (·.height)).getD 0) (s'.mhc + 1)) ∧
      s'.keys = prune s.keys (min ((s'.infos.getLast?.map (·.height)).getD 0) (s'.mhc + 1)) := by
  unfold process at hp
  simp only [] at hp
  split at hp
  · cases hp
  rename_i hne
  split at hp
  · cases hp
  split at hp
  · cases hp
  rename_i s1 hs1
  split at hp
  · cases hp
  rename_i p hpv
  split at hp
  · cases hp
  rename_i pc hpc
  cases hp
  obtain ⟨hrel, hpar, hbs, hmhp, hmhpc, hmhc, hkeys⟩ := updateVotes_rel hs1
  simp only [] at hrel hpar hbs hmhp hmhpc hmhc hkeys ⊢
  have hg : getParams { s with infos := insertInfo s h } = getParams s := getParams_congr rfl
  rw [hg] at hrel
  cases hk : 3 * s.batchSize with
  | zero => simp [insertInfo, hk] at hne
  | succ k =>
    refine ⟨k, rfl, ?_, hbs, ⟨p, ?_, by rw [hmhp]⟩, ⟨pc, ?_, by rw [hmhpc]⟩, by rw [hmhc], by rw [hpar, hmhc],
      by rw [hkeys, hmhc]⟩
    · have : insertInfo s h = newInfo h :: s.infos.take k := by
        simp [insertInfo, hk, newInfo, List.take_succ_cons]
      rwa [this] at hrel
    · rw [← hpv]; exact firstWith_congr hpar.symm _ _ _
    · rw [← hpc]; exact firstWith_congr (by simp only [hpar]) _ _ _

/-! ### `firstWith` on a strictly descending window -/

/-- what `firstWith` computes: the height of the highest block with quorum, if any -/
def FirstSpec (g : Nat → Option Params) (w : BlockInfo → Nat) (thr : Params → Nat) (l : List BlockInfo)
    (r : Option Nat) : Prop :=
  (r = none → ∀ b ∈ l, ¬ Quorum g w thr b) ∧
  (∀ hq, r = some hq → (∃ b ∈ l, b.height = hq ∧ Quorum g w thr b) ∧ ∀ b ∈ l, Quorum g w thr b → b.height ≤ hq)

theorem firstWith_spec (s : State) (w : BlockInfo → Nat) (thr : Params → Nat) :
    ∀ (l : List BlockInfo) (r : Option Nat), firstWith s w thr l = .ok r → SortedDesc l →
      FirstSpec (getParams s) w thr l r
  | [], r, h, _ => by
    simp only [firstWith] at h; cases h; simp [FirstSpec]
  | b :: l, r, h, hs => by
    simp only [firstWith] at h
    split at h
    · cases h
    · rename_i p hp
      have hs' := List.pairwise_cons.1 hs
      split at h
      · rename_i hq
        cases h
        refine ⟨fun h => (by cases h), ?_⟩
        intro hq' he; cases he
        refine ⟨⟨b, List.mem_cons_self, rfl, p, hp, hq⟩, ?_⟩
        intro x hx _
        rcases List.mem_cons.1 hx with rfl | hx
        · exact Nat.le_refl _
        · exact Nat.le_of_lt (hs'.1 x hx)
      · rename_i hq
        have hnb : ¬ Quorum (getParams s) w thr b := by
          rintro ⟨p', hp', hq'⟩; rw [hp] at hp'; cases hp'; exact hq hq'
        obtain ⟨ih1, ih2⟩ := firstWith_spec s w thr l r h hs'.2
        refine ⟨?_, ?_⟩
        · intro hr x hx
          rcases List.mem_cons.1 hx with rfl | hx
          · exact hnb
          · exact ih1 hr x hx
        · intro hq' hr
          obtain ⟨⟨x, hx, hxh, hxq⟩, hall⟩ := ih2 hq' hr
          refine ⟨⟨x, List.mem_cons_of_mem _ hx, hxh, hxq⟩, ?_⟩
          intro y hy hyq
          rcases List.mem_cons.1 hy with rfl | hy
          · exact absurd hyq hnb
          · exact hall y hy hyq

/-- list-level invariant tying a finality height `m` to the window: `m` is at least the height of
every block with quorum, and it is either below the whole window or the height of a window block
with quorum -/
def HInvL (g : Nat → Option Params) (w : BlockInfo → Nat) (thr : Params → Nat) (L : List BlockInfo) (m : Nat) : Prop :=
  (∀ b ∈ L, Quorum g w thr b → b.height ≤ m) ∧
  ((∀ b ∈ L, m < b.height) ∨ ∃ b ∈ L, b.height = m ∧ Quorum g w thr b)

theorem Quorum.congr {g g' : Nat → Option Params} {w : BlockInfo → Nat} {thr : Params → Nat} {b : BlockInfo}
    (h : g' b.height = g b.height) : Quorum g' w thr b ↔ Quorum g w thr b := by
  unfold Quorum; rw [h]

theorem Quorum.mono {g : Nat → Option Params} {w : BlockInfo → Nat} {thr : Params → Nat} {a b : BlockInfo}
    (hh : a.height = b.height) (hw : w a ≤ w b) (hq : Quorum g w thr a) : Quorum g w thr b := by
  obtain ⟨p, hp, hq⟩ := hq
  exact ⟨p, by rw [← hh]; exact hp, Nat.le_trans hq hw⟩

theorem HInvL.congr {g g' : Nat → Option Params} {w : BlockInfo → Nat} {thr : Params → Nat} {L : List BlockInfo}
    {m : Nat} (hg : ∀ b ∈ L, g' b.height = g b.height) (h : HInvL g w thr L m) : HInvL g' w thr L m := by
  refine ⟨fun b hb hq => h.1 b hb ((Quorum.congr (hg b hb)).1 hq), ?_⟩
  rcases h.2 with h2 | ⟨b, hb, hbm, hq⟩
  · exact Or.inl h2
  · exact Or.inr ⟨b, hb, hbm, (Quorum.congr (hg b hb)).2 hq⟩

theorem HInvL_step {g g' : Nat → Option Params} {w : BlockInfo → Nat} {thr : Params → Nat}
    {L I' : List BlockInfo} {new : BlockInfo} {k m : Nat} {r : Option Nat}
    (hs : SortedDesc L) (hinv : HInvL g w thr L m)
    (hnew : ∀ b ∈ L, b.height < new.height) (hm : m < new.height)
    (hrel : All2 (fun a b => a.height = b.height ∧ w a ≤ w b) (new :: L.take k) I')
    (hfirst : FirstSpec g w thr I' r)
    (hg : ∀ b ∈ I', g' b.height = g b.height) :
    HInvL g' w thr I' (r.getD m) ∧ m ≤ r.getD m := by
  -- either the whole new window is above `m`, or the block at height `m` survived with its quorum
  have hB : (∀ x ∈ I', m < x.height) ∨ ∃ b' ∈ I', b'.height = m ∧ Quorum g w thr b' := by
    rcases hinv.2 with hall | ⟨b, hb, hbm, hbq⟩
    · left
      intro x hx
      obtain ⟨a, ha, hah, _⟩ := All2.mem_right hrel x hx
      rcases List.mem_cons.1 ha with rfl | ha
      · omega
      · have := hall a (List.mem_of_mem_take ha); omega
    · have hsplit : b ∈ L.take k ∨ b ∈ L.drop k := by
        have : b ∈ L.take k ++ L.drop k := by rw [List.take_append_drop]; exact hb
        exact List.mem_append.1 this
      rcases hsplit with hbt | hbd
      · right
        obtain ⟨b', hb', hbh, hbw⟩ := All2.mem_left hrel b (List.mem_cons_of_mem _ hbt)
        exact ⟨b', hb', by omega, Quorum.mono hbh hbw hbq⟩
      · left
        intro x hx
        obtain ⟨a, ha, hah, _⟩ := All2.mem_right hrel x hx
        rcases List.mem_cons.1 ha with rfl | ha
        · omega
        · have hs2 : SortedDesc (L.take k ++ L.drop k) := by rw [List.take_append_drop]; exact hs
          have := (List.pairwise_append.1 hs2).2.2 a ha b hbd
          omega
  have hQ : ∀ b ∈ I', Quorum g' w thr b ↔ Quorum g w thr b := fun b hb => Quorum.congr (hg b hb)
  cases r with
  | none =>
    simp only [Option.getD_none]
    refine ⟨⟨?_, ?_⟩, Nat.le_refl _⟩
    · intro b hb hq
      exact absurd ((hQ b hb).1 hq) (hfirst.1 rfl b hb)
    · rcases hB with h1 | ⟨b', hb', hbm, hbq⟩
      · exact Or.inl h1
      · exact Or.inr ⟨b', hb', hbm, (hQ b' hb').2 hbq⟩
  | some hq =>
    simp only [Option.getD_some]
    obtain ⟨⟨bq, hbq, hh, hqq⟩, hall⟩ := hfirst.2 hq rfl
    refine ⟨⟨?_, ?_⟩, ?_⟩
    · intro b hb hqb
      exact hall b hb ((hQ b hb).1 hqb)
    · exact Or.inr ⟨bq, hbq, hh, (hQ bq hbq).2 hqq⟩
    · rcases hB with h1 | ⟨b', hb', hbm, hbq'⟩
      · have := h1 bq hbq; omega
      · have := hall b' hb' hbq'; omega

/-! ### `setParams` -/

/-- the height `SetBFTParameters` considers current -/
def curHeight (s : State) : Nat :=
  match s.infos with
  | [] => s.mhp
  | n :: _ => n.height

theorem setParams_facts {s s' : State} {pc ct : Nat} {vs : List Validator} (h : setParams s pc ct vs = .ok s') :
    s'.infos = s.infos ∧ s'.batchSize = s.batchSize ∧ s'.mhp = s.mhp ∧ s'.mhpc = s.mhpc ∧ s'.mhc = s.mhc ∧
      s'.keys = s.keys ∧
      (s'.params = s.params ∨
        ∃ p : Params, s'.params = (curHeight s + 1, p) :: s.params.filter (·.1 ≠ curHeight s + 1) ∧
          1 ≤ p.precommitThreshold) := by
  unfold setParams at h
  split at h
  · cases h
  split at h
  · cases h
  split at h
  · cases h
  simp only [] at h
  split at h
  · cases h
  rename_i hpc
  split at h
  · cases h
  have hpc' : 1 ≤ pc := by omega
  split at h <;> split at h
  all_goals first
    | (cases h; exact ⟨rfl, rfl, rfl, rfl, rfl, rfl, Or.inl rfl⟩)
    | (cases h; exact ⟨rfl, rfl, rfl, rfl, rfl, rfl, Or.inr ⟨_, rfl, hpc'⟩⟩)

theorem setParams_getParams {s s' : State} {pc ct : Nat} {vs : List Validator} (h : setParams s pc ct vs = .ok s')
    {k : Nat} (hk : k ≤ curHeight s) : getParams s' k = getParams s k := by
  obtain ⟨_, _, _, _, _, _, hpar⟩ := setParams_facts h
  rcases hpar with hpar | ⟨p, hpar, _⟩
  · simp [getParams, hpar]
  · simp only [getParams, hpar]
    rw [lookupLE_cons_filter _ _ _ (by omega)]

theorem SortedDesc.le_curHeight {s : State} (hs : SortedDesc s.infos) : ∀ b ∈ s.infos, b.height ≤ curHeight s := by
  intro b hb
  unfold curHeight
  split
  · rename_i h0; rw [h0] at hb; cases hb
  · rename_i n rest h0
    rw [h0] at hb hs
    rcases List.mem_cons.1 hb with rfl | hb
    · exact Nat.le_refl _
    · exact Nat.le_of_lt ((List.pairwise_cons.1 hs).1 b hb)

end LiskVerif.BFT
