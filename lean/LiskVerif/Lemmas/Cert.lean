/-
Lemmas about the certificate model (Model/Cert.lean) used by Props/C06.lean.
-/
import LiskVerif.Lemmas.CertInv
import LiskVerif.Lemmas.Sort

namespace LiskVerif.Cert

/-! ## parameter store -/

theorem getParamsEntry_mem {ps : ParamStore} {h : Nat} {e : Nat × Params}
    (he : getParamsEntry ps h = some e) : e ∈ ps ∧ e.1 ≤ h := by
  induction ps generalizing e with
  | nil => simp [getParamsEntry] at he
  | cons x r ih =>
    obtain ⟨k, p⟩ := x
    unfold getParamsEntry at he
    split at he
    · rename_i k' p' hr
      have := ih hr
      split at he
      · rename_i hc
        cases he
        exact ⟨List.mem_cons_self, hc.1⟩
      · cases he
        exact ⟨List.mem_cons_of_mem _ this.1, this.2⟩
    · split at he
      · rename_i hc
        cases he
        exact ⟨List.mem_cons_self, hc⟩
      · cases he

theorem getParams_mem {ps : ParamStore} {h : Nat} {p : Params} (hp : getParams ps h = some p) :
    ∃ k, (k, p) ∈ ps ∧ k ≤ h := by
  unfold getParams at hp
  cases he : getParamsEntry ps h with
  | none => simp [he] at hp
  | some e =>
    simp [he] at hp
    obtain ⟨k, q⟩ := e
    simp at hp
    subst hp
    exact ⟨k, getParamsEntry_mem he⟩

theorem getParams_wf {ps : ParamStore} {h : Nat} {p : Params} (hwf : StoreWf ps)
    (hp : getParams ps h = some p) : ParamsWf p := by
  obtain ⟨k, hk, _⟩ := getParams_mem hp
  exact hwf (k, p) hk

theorem nextHeightParams_some {ps : ParamStore} {x m : Nat} (h : nextHeightParams ps x = some m) :
    x < m ∧ (∃ p, (m, p) ∈ ps) ∧ ∀ e ∈ ps, x < e.1 → m ≤ e.1 := by
  induction ps generalizing m with
  | nil => simp [nextHeightParams] at h
  | cons a r ih =>
    obtain ⟨k, p⟩ := a
    unfold nextHeightParams at h
    split at h
    · rename_i m' hr
      obtain ⟨h1, ⟨q, hq⟩, h3⟩ := ih hr
      split at h
      · rename_i hc
        cases h
        refine ⟨hc.1, ⟨p, List.mem_cons_self⟩, ?_⟩
        intro e he hx
        rcases List.mem_cons.mp he with rfl | he
        · exact Nat.le_refl _
        · have := h3 e he hx
          omega
      · rename_i hc
        cases h
        refine ⟨h1, ⟨q, List.mem_cons_of_mem _ hq⟩, ?_⟩
        intro e he hx
        rcases List.mem_cons.mp he with rfl | he
        · simp only at hx
          simp only
          omega
        · exact h3 e he hx
    · rename_i hr
      split at h
      · rename_i hc
        cases h
        refine ⟨hc, ⟨p, List.mem_cons_self⟩, ?_⟩
        intro e he hx
        rcases List.mem_cons.mp he with rfl | he
        · exact Nat.le_refl _
        · exact absurd hx (by
            have : ∀ (l : ParamStore), nextHeightParams l x = none → ∀ e ∈ l, ¬ x < e.1 := by
              intro l
              induction l with
              | nil => intro _ e he; cases he
              | cons b t iht =>
                obtain ⟨kb, pb⟩ := b
                intro hn e he
                unfold nextHeightParams at hn
                split at hn
                · split at hn <;> cases hn
                · rename_i hrt
                  split at hn
                  · cases hn
                  · rename_i hkb
                    rcases List.mem_cons.mp he with rfl | he
                    · exact hkb
                    · exact iht hrt e he
            exact this r hr e he)
      · cases h

theorem nextHeightParams_none {ps : ParamStore} {x : Nat} (h : nextHeightParams ps x = none) :
    ∀ e ∈ ps, ¬ x < e.1 := by
  induction ps with
  | nil => intro e he; cases he
  | cons b t iht =>
    obtain ⟨kb, pb⟩ := b
    intro e he
    unfold nextHeightParams at h
    split at h
    · split at h <;> cases h
    · rename_i hrt
      split at h
      · cases h
      · rename_i hkb
        rcases List.mem_cons.mp he with rfl | he
        · exact hkb
        · exact iht hrt e he

/-! ## validators -/

theorem findValidator_some {l : List Validator} {a : Nat} {v : Validator}
    (h : findValidator l a = some v) : v ∈ l ∧ v.addr = a := by
  induction l with
  | nil => simp [findValidator] at h
  | cons x r ih =>
    unfold findValidator at h
    split at h
    · rename_i hx
      cases h
      exact ⟨List.mem_cons_self, hx⟩
    · have := ih h
      exact ⟨List.mem_cons_of_mem _ this.1, this.2⟩

theorem findValidator_of_mem {l : List Validator} {v : Validator}
    (hnd : (l.map (·.addr)).Nodup) (hv : v ∈ l) : findValidator l v.addr = some v := by
  induction l with
  | nil => cases hv
  | cons x r ih =>
    simp only [List.map_cons, List.nodup_cons] at hnd
    unfold findValidator
    rcases List.mem_cons.mp hv with rfl | hv
    · simp
    · have hne : x.addr ≠ v.addr := by
        intro he
        exact hnd.1 (he ▸ List.mem_map.mpr ⟨v, hv, rfl⟩)
      simp [hne, ih hnd.2 hv]

theorem inj_of_nodup_map {α β : Type} (f : α → β) {l : List α} (hnd : (l.map f).Nodup)
    {a b : α} (ha : a ∈ l) (hb : b ∈ l) (hf : f a = f b) : a = b := by
  induction l with
  | nil => cases ha
  | cons x r ih =>
    simp only [List.map_cons, List.nodup_cons] at hnd
    rcases List.mem_cons.mp ha with ha' | ha' <;> rcases List.mem_cons.mp hb with hb' | hb'
    · rw [ha', hb']
    · subst ha'
      exact absurd (by rw [hf]; exact List.mem_map.mpr ⟨b, hb', rfl⟩) hnd.1
    · subst hb'
      exact absurd (by rw [← hf]; exact List.mem_map.mpr ⟨a, ha', rfl⟩) hnd.1
    · exact ih hnd.2 ha' hb'

theorem nodup_of_nodup_map {α β : Type} (f : α → β) {l : List α} (hnd : (l.map f).Nodup) : l.Nodup := by
  unfold List.Nodup at *
  rw [List.pairwise_map] at hnd
  exact hnd.imp (fun h he => h (by rw [he]))

theorem sortVals_perm (vs : List Validator) : (sortVals vs).Perm vs := isort_perm _ _

theorem sortVals_wf {p : Params} (h : ParamsWf p) :
    ((sortVals p.validators).map (·.key)).Nodup ∧ ((sortVals p.validators).map (·.addr)).Nodup :=
  ⟨((sortVals_perm _).map _).nodup_iff.mpr h.1, ((sortVals_perm _).map _).nodup_iff.mpr h.2⟩

/-! ## bitmap selection -/

/-- the validators selected by a bitmap (specification view of `selectedKW`) -/
def selVals : List Validator → Bits → List Validator
  | v :: vs, b :: bs => if b then v :: selVals vs bs else selVals vs bs
  | _, _ => []

theorem selVals_sublist (vs : List Validator) (bits : Bits) : (selVals vs bits).Sublist vs := by
  induction vs generalizing bits with
  | nil => simp [selVals]
  | cons v r ih =>
    cases bits with
    | nil => simp [selVals]
    | cons b bs =>
      unfold selVals
      split
      · exact (ih bs).cons_cons v
      · exact (ih bs).cons v

theorem selectedKW_map (vs : List Validator) (bits : Bits) :
    selectedKW (vs.map (·.key)) (vs.map (·.weight)) bits = (selVals vs bits).map (fun v => (v.key, v.weight)) := by
  induction vs generalizing bits with
  | nil => simp [selVals, selectedKW]
  | cons v r ih =>
    cases bits with
    | nil => simp [selVals, selectedKW]
    | cons b bs =>
      simp only [List.map_cons, selectedKW, selVals]
      split
      · simp [ih bs]
      · exact ih bs

theorem fastAggregateVerify_true {keys : List Nat} {m : Msg} {s : Sig}
    (h : fastAggregateVerify keys m s = true) : ∃ signers, s = .agg signers m ∧ signers.Perm keys := by
  cases s with
  | garbage => simp [fastAggregateVerify] at h
  | agg signers m' =>
    simp only [fastAggregateVerify, Bool.and_eq_true, decide_eq_true_eq] at h
    exact ⟨signers, by rw [h.1], List.isPerm_iff.mp h.2⟩

/-! ## key index and the bitmap of `BLSCreateAggSig` -/

theorem keyIndex_some {keys : List Nat} {k i : Nat} (h : keyIndex keys k = some i) : keys[i]? = some k := by
  induction keys generalizing i with
  | nil => simp [keyIndex] at h
  | cons x r ih =>
    unfold keyIndex at h
    split at h
    · rename_i hx
      cases h
      simp [hx]
    · cases hr : keyIndex r k with
      | none => simp [hr] at h
      | some i' =>
        simp [hr] at h
        subst h
        simpa using ih hr

theorem keyIndex_getElem {keys : List Nat} (hnd : keys.Nodup) {j : Nat} (hj : j < keys.length) :
    keyIndex keys keys[j] = some j := by
  induction keys generalizing j with
  | nil => simp at hj
  | cons x r ih =>
    rw [List.nodup_cons] at hnd
    cases j with
    | zero => simp [keyIndex]
    | succ j' =>
      have hj' : j' < r.length := by simpa using hj
      have hne : x ≠ r[j'] := by
        intro he
        exact hnd.1 (he ▸ List.getElem_mem hj')
      simp only [List.getElem_cons_succ]
      unfold keyIndex
      simp [hne, ih hnd.2 hj']

/-- one step of the bitmap loop of `BLSCreateAggSig` -/
def bitStep (keys : List Nat) (b : Bits) (k : Nat) : Bits :=
  match keyIndex keys k with
  | some i => writeBit b i
  | none => b

theorem createBits_eq (keys S : List Nat) :
    createBits keys S = S.foldl (bitStep keys) (List.replicate (8 * byteLen keys.length) false) := rfl

theorem bitStep_length (keys : List Nat) (b : Bits) (k : Nat) : (bitStep keys b k).length = b.length := by
  unfold bitStep
  split <;> simp [writeBit]

theorem foldl_bitStep_length (keys S : List Nat) (b : Bits) : (S.foldl (bitStep keys) b).length = b.length := by
  induction S generalizing b with
  | nil => rfl
  | cons k r ih => simp [List.foldl_cons, ih, bitStep_length]

theorem set_getD (b : Bits) (i j : Nat) :
    (b.set i true).getD j false = (if i = j ∧ j < b.length then true else b.getD j false) := by
  simp only [List.getD_eq_getElem?_getD, List.getElem?_set]
  by_cases hij : i = j
  · subst hij
    by_cases hl : i < b.length
    · simp [hl]
    · simp [hl]
  · simp [hij]

theorem bitStep_getD (keys : List Nat) (b : Bits) (k j : Nat) :
    (bitStep keys b k).getD j false = (b.getD j false || (decide (j < b.length) && (keyIndex keys k == some j))) := by
  unfold bitStep
  cases hk : keyIndex keys k with
  | none => simp
  | some i =>
    simp only [writeBit, set_getD]
    by_cases hij : i = j
    · subst hij
      by_cases hl : i < b.length
      · simp [hl]
      · simp [hl]
    · have : (some i == some j) = false := by simp [hij]
      simp [hij, this]

theorem foldl_bitStep_getD (keys S : List Nat) (b : Bits) (j : Nat) :
    (S.foldl (bitStep keys) b).getD j false =
      (b.getD j false || (decide (j < b.length) && S.any (fun k => keyIndex keys k == some j))) := by
  induction S generalizing b with
  | nil => simp
  | cons k r ih =>
    rw [List.foldl_cons, ih, bitStep_getD, bitStep_length]
    simp only [List.any_cons]
    cases b.getD j false <;> cases decide (j < b.length) <;> cases (keyIndex keys k == some j) <;> simp

theorem createBits_length (keys S : List Nat) : (createBits keys S).length = 8 * byteLen keys.length := by
  rw [createBits_eq, foldl_bitStep_length, List.length_replicate]

theorem le_byteLen (n : Nat) : n ≤ 8 * byteLen n := by
  unfold byteLen
  omega

theorem createBits_getD {keys : List Nat} (hnd : keys.Nodup) (S : List Nat) {j : Nat} (hj : j < keys.length) :
    (createBits keys S).getD j false = decide (keys[j] ∈ S) := by
  rw [createBits_eq, foldl_bitStep_getD]
  have hl : j < 8 * byteLen keys.length := Nat.lt_of_lt_of_le hj (le_byteLen _)
  have h0 : (List.replicate (8 * byteLen keys.length) false).getD j false = false := by
    simp [List.getD_eq_getElem?_getD, hl]
  rw [h0]
  simp only [List.length_replicate, hl, decide_true, Bool.true_and, Bool.false_or]
  rw [Bool.eq_iff_iff]
  simp only [List.any_eq_true, beq_iff_eq, decide_eq_true_eq]
  constructor
  · rintro ⟨k, hk, hi⟩
    have := keyIndex_some hi
    rw [List.getElem?_eq_getElem hj] at this
    cases this
    exact hk
  · intro hm
    exact ⟨keys[j], hm, keyIndex_getElem hnd hj⟩

theorem selectedKW_eq_filter (P : Nat → Bool) : ∀ (keys weights : List Nat) (bits : Bits),
    weights.length = keys.length → keys.length ≤ bits.length →
    (∀ j (hj : j < keys.length), bits.getD j false = P keys[j]) →
    selectedKW keys weights bits = (keys.zip weights).filter (fun kw => P kw.1) := by
  intro keys
  induction keys with
  | nil => intro weights bits _ _ _; simp [selectedKW]
  | cons k ks ih =>
    intro weights bits hw hb hP
    cases weights with
    | nil => simp at hw
    | cons w ws =>
      cases bits with
      | nil => simp at hb
      | cons b bs =>
        have h0 : b = P k := by
          have := hP 0 (by simp)
          simpa only [List.getD_cons_zero, List.getElem_cons_zero] using this
        have ht := ih ws bs (by simpa using hw) (by simpa using hb) (by
          intro j hj
          have := hP (j + 1) (by simpa using hj)
          simpa using this)
        simp only [selectedKW, List.zip_cons_cons, List.filter_cons]
        rw [← h0]
        cases b <;> simp [ht]

/-! ## aggregation of verified commits -/

theorem findValidator_perm {l1 l2 : List Validator} (hp : l1.Perm l2) (hnd : (l1.map (·.addr)).Nodup) (a : Nat) :
    findValidator l1 a = findValidator l2 a := by
  have hnd2 : (l2.map (·.addr)).Nodup := (hp.map _).nodup_iff.mp hnd
  cases h1 : findValidator l1 a with
  | some v =>
    obtain ⟨hm, ha⟩ := findValidator_some h1
    rw [← ha]
    exact (findValidator_of_mem hnd2 (hp.mem_iff.mp hm)).symm
  | none =>
    cases h2 : findValidator l2 a with
    | none => rfl
    | some v =>
      obtain ⟨hm, ha⟩ := findValidator_some h2
      have := findValidator_of_mem hnd (hp.mem_iff.mpr hm)
      rw [ha, h1] at this
      cases this

theorem signerKeys_congr {l1 l2 : List Validator} (h : ∀ a, findValidator l1 a = findValidator l2 a)
    (commits : List Commit) : signerKeys l1 commits = signerKeys l2 commits := by
  induction commits with
  | nil => rfl
  | cons c r ih => simp only [signerKeys, h, ih]

theorem foldl_combine (m : Msg) (acc ks : List Nat) :
    (ks.map (fun k => sign k m)).foldl combine (.agg acc m) = .agg (acc ++ ks) m := by
  induction ks generalizing acc with
  | nil => simp
  | cons k r ih =>
    simp only [List.map_cons, List.foldl_cons, sign, combine, if_true]
    have := ih (acc ++ [k])
    simpa [sign] using this

/-- the validators behind a list of verified commits -/
theorem commits_facts (vals : List Validator) (m : Msg) (commits : List Commit)
    (h : ∀ c ∈ commits, ∃ v, findValidator vals c.signer = some v ∧ c.sig = sign v.key m) :
    ∃ cv : List Validator,
      cv.map (·.addr) = commits.map (·.signer) ∧
      commits.map (·.sig) = cv.map (fun v => sign v.key m) ∧
      (∀ v ∈ cv, v ∈ vals) ∧
      signerKeys vals commits = some (cv.map (·.key)) ∧
      commitsWeight vals commits = some ((cv.map (·.weight)).sum) := by
  induction commits with
  | nil => exact ⟨[], by simp [signerKeys, commitsWeight]⟩
  | cons c r ih =>
    obtain ⟨v, hv, hs⟩ := h c List.mem_cons_self
    obtain ⟨cv, h1, h2, h3, h4, h5⟩ := ih (fun d hd => h d (List.mem_cons_of_mem _ hd))
    refine ⟨v :: cv, ?_, ?_, ?_, ?_, ?_⟩
    · simp [h1, (findValidator_some hv).2]
    · simp [h2, hs]
    · intro u hu
      rcases List.mem_cons.mp hu with rfl | hu
      · exact (findValidator_some hv).1
      · exact h3 u hu
    · simp [signerKeys, hv, h4]
    · simp [commitsWeight, hv, h5]

/-- Core of `C06_assembled_accepted`: the aggregate of verified commits by distinct active
validators whose weight reaches the threshold passes the weighted aggregate verification. -/
theorem aggregate_verifies (p : Params) (hwf : ParamsWf p) (m : Msg) (h : Nat) (commits : List Commit)
    (hne : commits ≠ [])
    (hh : ∀ c ∈ commits, c.height = h)
    (hok : ∀ c ∈ commits, ∃ v, findValidator p.validators c.signer = some v ∧ c.sig = sign v.key m)
    (hdist : commits.Pairwise (fun a b => a.signer ≠ b.signer))
    (w : Nat) (hw : commitsWeight p.validators commits = some w) (hthr : p.threshold ≤ w) :
    ∃ bits sig, aggregate commits p.validators = .ok ⟨h, bits, some sig⟩ ∧ bits ≠ [] ∧
      verifyWeighted ((sortVals p.validators).map (·.key)) bits sig ((sortVals p.validators).map (·.weight))
        p.threshold m = true := by
  obtain ⟨hkeys, haddrs⟩ := sortVals_wf hwf
  obtain ⟨cv, h1, h2, h3, h4, h5⟩ := commits_facts p.validators m commits hok
  have hfind : ∀ a, findValidator (sortVals p.validators) a = findValidator p.validators a :=
    findValidator_perm (sortVals_perm _) haddrs
  cases commits with
  | nil => exact absurd rfl hne
  | cons c0 rest =>
    cases cv with
    | nil => simp at h1
    | cons v0 cvr =>
      have hsk : signerKeys (isort keyLe p.validators) (c0 :: rest) = some ((v0 :: cvr).map (·.key)) := by
        rw [← h4]; exact signerKeys_congr hfind _
      have hsig : aggSigs c0.sig (rest.map (·.sig)) = .agg ((v0 :: cvr).map (·.key)) m := by
        simp only [List.map_cons, List.cons.injEq] at h2
        rw [h2.1, h2.2, aggSigs, sign]
        have := foldl_combine m [v0.key] (cvr.map (·.key))
        simpa [List.map_map, Function.comp_def] using this
      refine ⟨createBits ((sortVals p.validators).map (·.key)) ((v0 :: cvr).map (·.key)), .agg ((v0 :: cvr).map (·.key)) m, ?_, ?_, ?_⟩
      · simp only [aggregate, aggregateOrd, hsk, hsig]
        rw [hh c0 List.mem_cons_self]
        rfl
      · -- at least one validator, so at least one byte
        intro hb
        have hl := createBits_length ((sortVals p.validators).map (·.key)) ((v0 :: cvr).map (·.key))
        rw [hb] at hl
        have hv0 : v0 ∈ sortVals p.validators := (sortVals_perm _).mem_iff.mpr (h3 v0 List.mem_cons_self)
        have : 0 < (sortVals p.validators).length := List.length_pos_of_mem hv0
        simp only [List.length_nil, List.length_map, byteLen] at hl
        omega
      · -- the selection made by the bitmap
        let vs := sortVals p.validators
        let S := (v0 :: cvr).map (·.key)
        have hsel : selectedKW (vs.map (·.key)) (vs.map (·.weight)) (createBits (vs.map (·.key)) S) =
            (vs.filter (fun v => decide (v.key ∈ S))).map (fun v => (v.key, v.weight)) := by
          rw [selectedKW_eq_filter (fun k => decide (k ∈ S))]
          · rw [List.zip_map', List.filter_map]
            rfl
          · simp
          · rw [createBits_length]; simpa using le_byteLen vs.length
          · intro j hj
            exact createBits_getD hkeys S hj
        -- the selected validators are a permutation of the signers
        have hcvnd : (v0 :: cvr).Nodup := by
          apply nodup_of_nodup_map (·.addr)
          rw [h1]
          unfold List.Nodup
          rw [List.pairwise_map]
          exact hdist
        have hvsnd : vs.Nodup := nodup_of_nodup_map (·.key) hkeys
        have hperm : (vs.filter (fun v => decide (v.key ∈ S))).Perm (v0 :: cvr) := by
          rw [List.perm_ext_iff_of_nodup (List.Pairwise.filter _ hvsnd) hcvnd]
          intro v
          simp only [List.mem_filter, decide_eq_true_eq]
          constructor
          · rintro ⟨hv, hk⟩
            obtain ⟨u, hu, huk⟩ := List.mem_map.mp hk
            have huv : u ∈ vs := (sortVals_perm _).mem_iff.mpr (h3 u hu)
            have : u = v := inj_of_nodup_map (·.key) hkeys huv hv huk
            exact this ▸ hu
          · intro hv
            exact ⟨(sortVals_perm _).mem_iff.mpr (h3 v hv), List.mem_map.mpr ⟨v, hv, rfl⟩⟩
        unfold verifyWeighted
        rw [if_neg (by
          rw [createBits_length]
          simp)]
        simp only
        rw [hsel]
        have hsum : sumWeights ((vs.filter (fun v => decide (v.key ∈ S))).map (fun v => (v.key, v.weight))) = w := by
          simp only [sumWeights, List.map_map, Function.comp_def]
          rw [(hperm.map (·.weight)).sum_nat]
          rw [hw] at h5
          exact (Option.some.inj h5).symm
        rw [if_neg (by rw [hsum]; omega)]
        simp only [fastAggregateVerify, List.map_map, Function.comp_def, decide_true, Bool.true_and]
        rw [List.isPerm_iff]
        exact (hperm.map (·.key)).symm

/-! ## the candidate loop of `GetAggregateCommit` -/

theorem pool_get_eq (pool : Pool) (h : Nat) : pool.get h = pool.all.filter (fun c => c.height == h) := by
  simp [Pool.get, Pool.all, List.filter_append]

/-- what `verifyAggregateCommit` needs to know about an assembled commit -/
def Assembled (st : State) (ac : AggCommit) (bound : Nat) : Prop :=
  ∃ (sig : Sig) (hd : Header) (p : Params), ac.sig = some sig ∧ ac.bits ≠ [] ∧
    st.mhc < ac.height ∧ ac.height ≤ bound ∧
    st.blockAt ac.height = some hd ∧ getParams st.params ac.height = some p ∧
    verifyWeighted ((sortVals p.validators).map (·.key)) ac.bits sig ((sortVals p.validators).map (·.weight))
      p.threshold (certMsg st hd) = true

theorem mem_forBlock_get {pool : Pool} {h b : Nat} {c : Commit} (hc : c ∈ forBlock (pool.get h) b) :
    c ∈ pool.all ∧ c.height = h ∧ c.block = b := by
  unfold forBlock at hc
  rw [pool_get_eq] at hc
  simp only [List.mem_filter, beq_iff_eq] at hc
  exact ⟨hc.1.1, hc.1.2, hc.2⟩

theorem gacLoop_spec (st : State) (pool : Pool) (ctx : BlockCtx) (hwf : StoreWf st.params)
    (hcons : Consistent st ctx) (hinv : PoolInv ctx st.chainId pool) (d : Nat) :
    gacLoop keyLe st pool d = .ok (emptyCommit st) ∨
    (∃ ac, gacLoop keyLe st pool d = .ok ac ∧ Assembled st ac (st.mhc + d)) ∨
    (gacLoop keyLe st pool d = .err ∧ ∃ h, st.mhc < h ∧ h ≤ st.mhc + d ∧ st.blockAt h = none) := by
  induction d with
  | zero => left; rfl
  | succ d ih =>
    have ihw : gacLoop keyLe st pool d = .ok (emptyCommit st) ∨
        (∃ ac, gacLoop keyLe st pool d = .ok ac ∧ Assembled st ac (st.mhc + (d + 1))) ∨
        (gacLoop keyLe st pool d = .err ∧ ∃ h, st.mhc < h ∧ h ≤ st.mhc + (d + 1) ∧ st.blockAt h = none) := by
      rcases ih with h | ⟨ac, h1, sig, hd, p, h2, h3, h4, h5, h6⟩ | ⟨h1, h, h2, h3, h4⟩
      · exact Or.inl h
      · exact Or.inr (Or.inl ⟨ac, h1, sig, hd, p, h2, h3, h4, by omega, h6⟩)
      · exact Or.inr (Or.inr ⟨h1, h, h2, by omega, h4⟩)
    unfold gacLoop
    simp only
    split
    · rename_i hnone
      exact Or.inr (Or.inr ⟨rfl, st.mhc + d + 1, by omega, by omega, hnone⟩)
    · rename_i hd hb0
      split
      · exact ihw
      · rename_i hne
        have hne' : forBlock (pool.get (st.mhc + d + 1)) hd.id ≠ [] := by
          intro h; rw [h] at hne; simp at hne
        obtain ⟨c0, hc0⟩ := List.exists_mem_of_ne_nil _ hne'
        obtain ⟨hc0a, hc0h, hc0b⟩ := mem_forBlock_get hc0
        obtain ⟨p, v0, hctx0, _, _⟩ := hinv.1 c0 hc0a
        rw [hc0h, hc0b] at hctx0
        have hp0 : getParams st.params (st.mhc + d + 1) = some p :=
          (hcons _ _ hb0).2 (by omega) p hctx0
        have hok : ∀ c ∈ forBlock (pool.get (st.mhc + d + 1)) hd.id,
            ∃ v, findValidator p.validators c.signer = some v ∧ c.sig = sign v.key (certMsg st hd) := by
          intro c hc
          obtain ⟨hca, hch, hcb⟩ := mem_forBlock_get hc
          obtain ⟨p', v, hctx, hf, hs⟩ := hinv.1 c hca
          rw [hch, hcb, hctx0] at hctx
          cases hctx
          refine ⟨v, hf, ?_⟩
          rw [hs, hcb]
          rfl
        have hdist : (forBlock (pool.get (st.mhc + d + 1)) hd.id).Pairwise (fun a b => a.signer ≠ b.signer) := by
          unfold forBlock
          rw [pool_get_eq]
          refine (((hinv.2.filter _).filter _).imp_of_mem ?_)
          intro a b ha hb hab he
          simp only [List.mem_filter, beq_iff_eq] at ha hb
          exact hab ⟨by rw [ha.2, hb.2], he⟩
        obtain ⟨cv, _, _, _, _, hcw⟩ := commits_facts p.validators (certMsg st hd) _ hok
        rw [hp0]
        simp only
        rw [hcw]
        simp only
        split
        · exact ihw
        · rename_i hthr
          obtain ⟨bits, sig, hagg, hbits, hver⟩ := aggregate_verifies p (getParams_wf hwf hp0) (certMsg st hd)
            (st.mhc + d + 1) _ hne' (fun c hc => (mem_forBlock_get hc).2.1) hok hdist _ hcw (by omega)
          right; left
          refine ⟨⟨st.mhc + d + 1, bits, some sig⟩, hagg, sig, hd, p, rfl, hbits, ?_, ?_, hb0, hp0, hver⟩
          · simp only; omega
          · simp only; omega

end LiskVerif.Cert
