/-
Lemmas about Model/Verify.lean: the sequential functions (`validate`, `verifyAC`, `verifyBlock`,
`execTxs`, the staged machine of `processValidated`) report the first failing entry of the
declarative rule lists, and the fallible steps never touch the committed node.
-/
import LiskVerif.Model.Verify

namespace LiskVerif.Verify
open LiskVerif LiskVerif.BFT

/-! ### firstFailure -/

theorem firstFailure_cons (e : Err) (ok : Bool) (rest : List (Err × Bool)) :
    firstFailure ((e, ok) :: rest) = if ok then firstFailure rest else some e := rfl

theorem firstFailure_append (a b : List (Err × Bool)) :
    firstFailure (a ++ b) = match firstFailure a with
      | some e => some e
      | none => firstFailure b := by
  induction a with
  | nil => rfl
  | cons p rest ih =>
    obtain ⟨e, ok⟩ := p
    cases ok with
    | true => simpa [firstFailure] using ih
    | false => simp [firstFailure]

theorem firstFailure_none_iff (l : List (Err × Bool)) :
    firstFailure l = none ↔ ∀ p ∈ l, p.2 = true := by
  induction l with
  | nil => simp [firstFailure]
  | cons p rest ih =>
    obtain ⟨e, ok⟩ := p
    cases ok with
    | true => simp [firstFailure, ih]
    | false => simp [firstFailure]

/-- the reported error belongs to a failing check, and every check before it passes -/
theorem firstFailure_some_iff (l : List (Err × Bool)) (e : Err) :
    firstFailure l = some e ↔
      ∃ pre post, l = pre ++ (e, false) :: post ∧ ∀ p ∈ pre, p.2 = true := by
  induction l with
  | nil => simp [firstFailure]
  | cons p rest ih =>
    obtain ⟨e', ok⟩ := p
    cases ok with
    | true =>
      simp only [firstFailure, if_true, ih]
      constructor
      · rintro ⟨pre, post, h1, h2⟩
        refine ⟨(e', true) :: pre, post, by simp [h1], ?_⟩
        intro p hp
        rcases List.mem_cons.mp hp with h | h
        · simp [h]
        · exact h2 p h
      · rintro ⟨pre, post, h1, h2⟩
        cases pre with
        | nil => simp at h1
        | cons q pre' =>
          simp only [List.cons_append, List.cons.injEq] at h1
          exact ⟨pre', post, h1.2, fun p hp => h2 p (List.mem_cons_of_mem _ hp)⟩
    | false =>
      simp only [firstFailure, Bool.false_eq_true, if_false, Option.some.injEq]
      constructor
      · intro h
        subst h
        exact ⟨[], rest, rfl, by simp⟩
      · rintro ⟨pre, post, h1, h2⟩
        cases pre with
        | nil =>
          simp only [List.nil_append, List.cons.injEq, Prod.mk.injEq] at h1
          exact h1.1.1
        | cons q pre' =>
          simp only [List.cons_append, List.cons.injEq] at h1
          have := h2 q (by simp)
          rw [← h1.1] at this
          simp at this

/-! ### Block.Validate -/

theorem validateTxs_eq (l : List Bool) :
    validateTxs l = firstFailure (l.map fun v => (Err.txStatic, v)) := by
  induction l with
  | nil => rfl
  | cons v rest ih => cases v <;> simp [validateTxs, firstFailure, ih]

theorem validate_eq (b : Cand) : validate b = firstFailure (validateChecks b) := by
  unfold validate validateChecks
  simp only [List.cons_append, List.nil_append, firstFailure_cons, firstFailure_append,
    ← validateTxs_eq]
  by_cases h1 : b.prevID.length = 32 <;> simp [h1]
  by_cases h2 : b.gen.length = 20 <;> simp [h2]
  by_cases h3 : b.sigLen = 64 <;> simp [h3]
  by_cases h3' : b.stateRootLen = 32 <;> simp [h3']
  cases validateTxs b.txStatic with
  | some e => rfl
  | none =>
    simp only
    cases b.txRootOK <;> simp [firstFailure]
    cases b.assets <;> simp
    cases b.assetRootOK <;> simp

/-! ### verifyAggregateCommit, verifyBlock -/

theorem verifyAC_eq (n : Node) (s : BFT.State) (ac : AC) :
    verifyAC n s ac = firstFailure (acChecks n s ac) := by
  unfold verifyAC acChecks
  by_cases h0 : ac.bitsLen = 0 ∧ ac.sigLen = 0 ∧ ac.height = s.mhc
  · simp [h0, firstFailure]
  · simp only [h0, if_false, firstFailure_cons]
    by_cases h1 : ac.bitsLen = 0 ∨ ac.sigLen = 0
    · have : ¬ (ac.bitsLen ≠ 0 ∧ ac.sigLen ≠ 0) := by
        rintro ⟨a, b⟩; rcases h1 with h | h <;> contradiction
      simp [h1, this]
    · have hb : ac.bitsLen ≠ 0 := fun h => h1 (Or.inl h)
      have hs : ac.sigLen ≠ 0 := fun h => h1 (Or.inr h)
      simp only [h1, if_false, hb, hs, ne_eq, not_false_eq_true, and_self, decide_true, if_true]
      by_cases h2 : ac.height ≤ s.mhc
      · have : ¬ s.mhc < ac.height := by omega
        simp [h2, this]
      · have h2' : s.mhc < ac.height := by omega
        simp only [h2, if_false, h2', decide_true, if_true]
        by_cases h3 : ac.height > s.mhpc
        · have : ¬ ac.height ≤ s.mhpc := by omega
          simp [h3, this]
        · have h3' : ac.height ≤ s.mhpc := by omega
          simp only [h3, if_false, h3', decide_true, if_true]
          cases nextBoundViolated n.cfg.acBound s ac.height <;> simp
          by_cases h4 : ac.height > n.tipHeight
          · have : ¬ ac.height ≤ n.tipHeight := by omega
            simp [h4, this]
          · have h4' : ac.height ≤ n.tipHeight := by omega
            simp only [h4, if_false, h4', decide_true, if_true]
            cases getParams s ac.height with
            | none => simp
            | some p => cases ac.sigOK <;> simp [firstFailure]

theorem verifyBlock_eq (n : Node) (s : BFT.State) (b : Cand) :
    verifyBlock n s b = firstFailure (verifyChecks n s b) := by
  unfold verifyBlock verifyChecks
  simp only [List.cons_append, List.nil_append, firstFailure_cons, firstFailure_append, ← verifyAC_eq]
  generalize slotGenerator n s b = og
  by_cases h1 : b.version = 2 <;> simp [h1]
  by_cases h2 : b.height = n.tipHeight + 1 <;> simp [h2]
  by_cases h3 : b.prevID = n.tipID <;> simp [h3]
  by_cases h4 : b.payloadSize ≤ n.cfg.maxTxLen
  · have h4' : ¬ b.payloadSize > n.cfg.maxTxLen := by omega
    simp only [h4', if_false, h4, decide_true, if_true]
    by_cases h5 : slotOf n.cfg b.timestamp ≤ slotOf n.cfg n.cfg.now
    · have h5' : ¬ slotOf n.cfg b.timestamp > slotOf n.cfg n.cfg.now := by omega
      simp only [h5', if_false, h5, decide_true, if_true]
      by_cases h6 : slotOf n.cfg n.tipTimestamp < slotOf n.cfg b.timestamp
      · have h6' : ¬ slotOf n.cfg b.timestamp ≤ slotOf n.cfg n.tipTimestamp := by omega
        simp only [h6', if_false, h6, decide_true, if_true]
        cases og with
        | none => simp
        | some g =>
          simp only [Option.isSome_some, if_true, Option.some.injEq]
          by_cases h7 : g = b.gen
          · simp only [h7, ne_eq, not_true_eq_false, if_false, decide_true, if_true]
            by_cases h8 : b.mhp = s.mhp
            · simp only [h8, ne_eq, not_true_eq_false, if_false, decide_true, if_true]
              cases isContradicting s b <;> simp
              cases verifyAC n s b.ac with
              | some e => rfl
              | none => cases b.sigOK <;> simp [firstFailure]
            · simp [h8]
          · simp [h7]
      · have h6' : slotOf n.cfg b.timestamp ≤ slotOf n.cfg n.tipTimestamp := by omega
        simp [h6', h6]
    · have h5' : slotOf n.cfg b.timestamp > slotOf n.cfg n.cfg.now := by omega
      simp [h5', h5]
  · have h4' : b.payloadSize > n.cfg.maxTxLen := by omega
    simp [h4', h4]

/-! ### the transaction loop -/

theorem execTxs_eq (l : List (TxV × TxV)) : execTxs l = firstFailure (txChecks l) := by
  induction l with
  | nil => rfl
  | cons p rest ih =>
    obtain ⟨v, e⟩ := p
    cases v <;> cases e <;> simp [execTxs, txChecks, firstFailure, ih]

/-! ### the staged machine -/

/-- a step that never writes the committed node -/
def PreservesNode (f : Step) : Prop := ∀ s s', f s = .ok s' → s'.node = s.node

theorem guardStep_preserves (e : Err) (c : Bool) : PreservesNode (guardStep e c) := by
  intro s s' h
  unfold guardStep at h
  cases c <;> simp at h
  rw [← h]

theorem preSteps_preserve (b : Cand) : ∀ f ∈ preSteps b, PreservesNode f := by
  intro f hf
  simp only [preSteps, List.mem_cons, List.mem_nil_iff, or_false] at hf
  rcases hf with h | h | h | h | h | h | h | h | h | h | h | h | h | h <;> subst h
  · intro s s' h
    unfold stepVerify at h
    cases hv : verifyBlock s.node s.store b <;> simp [hv] at h
    rw [← h]
  · exact guardStep_preserves _ _
  · exact guardStep_preserves _ _
  · intro s s' h
    unfold stepBFT at h
    cases hp : BFT.process s.store (hdrOf b) <;> simp [hp] at h
    rw [← h]
  · intro s s' h
    unfold stepInfo at h
    cases hc : consensusInfoOK s.store b <;> simp [hc] at h
    rw [← h]
  · exact guardStep_preserves _ _
  · intro s s' h
    unfold stepTxs at h
    cases ht : execTxs b.txs <;> simp [ht] at h
    rw [← h]
  · exact guardStep_preserves _ _
  · intro s s' h
    unfold stepChange at h
    cases hc : applyChange s.store b.change <;> simp [hc] at h
    rw [← h]
  · intro s s' h
    unfold stepNextParams at h
    cases hc : (getParams s.store (b.height + 1)).isSome <;> simp [hc] at h
    rw [← h]
  · exact guardStep_preserves _ _
  · exact guardStep_preserves _ _
  · exact guardStep_preserves _ _
  · exact guardStep_preserves _ _

/-- whatever happens while running node-preserving steps, the committed node stays as it was -/
theorem runSteps_node (l : List Step) (hl : ∀ f ∈ l, PreservesNode f) (s : Staged) :
    (runSteps l s).1.node = s.node := by
  induction l generalizing s with
  | nil => rfl
  | cons f fs ih =>
    unfold runSteps
    cases hf : f s with
    | error e => rfl
    | ok s' =>
      simp only
      rw [ih (fun g hg => hl g (List.mem_cons_of_mem _ hg)) s']
      exact hl f (by simp) s s' hf

/-- the error of the staged machine, written as one pure function of the committed state -/
def execErr (n : Node) (b : Cand) : Option Err :=
  if !b.abiInit then some .abiInit
  else if !b.abiVerifyAssets then some .abiVerifyAssets
  else match storeAfterBFT n b with
    | none => some .bft
    | some s1 =>
      if !consensusInfoOK s1 b then some .bft
      else if !b.abiBefore then some .abiBefore
      else match execTxs b.txs with
        | some e => some e
        | none =>
          if !b.abiAfter then some .abiAfter
          else match applyChange s1 b.change with
            | none => some .params
            | some s2 =>
              if (getParams s2 (b.height + 1)).isNone then some .bft
              else if !b.vhOK then some .validatorsHash
              else if b.nEvents > maxEventsPerBlock then some .eventCount
              else if !b.eventRootOK then some .eventRoot
              else if !b.commitOK then some .commit
              else none

theorem execErr_eq (n : Node) (b : Cand) : execErr n b = firstFailure (execChecks n b) := by
  unfold execErr execChecks
  simp only [List.cons_append, List.nil_append, firstFailure_cons, firstFailure_append, ← execTxs_eq]
  cases b.abiInit <;> simp
  cases b.abiVerifyAssets <;> simp
  cases h1 : storeAfterBFT n b with
  | none => simp
  | some s1 =>
    have e1 : infoOKAfterBFT n b = consensusInfoOK s1 b := by simp [infoOKAfterBFT, h1]
    simp only [Option.isSome_some, if_true, e1]
    cases consensusInfoOK s1 b <;> simp
    cases b.abiBefore <;> simp
    cases execTxs b.txs with
    | some e => rfl
    | none =>
      simp only
      cases b.abiAfter <;> simp
      cases h2 : applyChange s1 b.change with
      | none =>
        have e2 : changeOK n b = false := by simp [changeOK, h1, h2]
        simp [e2]
      | some s2 =>
        have e2 : changeOK n b = true := by simp [changeOK, h1, h2]
        have e3 : nextParamsOK n b = (getParams s2 (b.height + 1)).isSome := by
          simp [nextParamsOK, storeAfterExec, h1, h2]
        simp only [e2, if_true, e3]
        cases getParams s2 (b.height + 1) with
        | none => simp
        | some p =>
          simp only [Option.isNone_some, Bool.false_eq_true, if_false, Option.isSome_some, if_true]
          cases b.vhOK <;> simp
          by_cases h4 : b.nEvents ≤ maxEventsPerBlock
          · have : ¬ b.nEvents > maxEventsPerBlock := by omega
            simp only [this, if_false, h4, decide_true, if_true]
            cases b.eventRootOK <;> simp
            cases b.commitOK <;> simp [firstFailure]
          · have : b.nEvents > maxEventsPerBlock := by omega
            simp [this, h4]

/-- the store in which a successful run of the fallible steps ends -/
theorem runSteps_pre (n : Node) (b : Cand) :
    (runSteps (preSteps b) { node := n, store := n.bft }).2 =
      (match verifyBlock n n.bft b with
       | some e => some e
       | none => execErr n b) ∧
    ((runSteps (preSteps b) { node := n, store := n.bft }).2 = none →
      some (runSteps (preSteps b) { node := n, store := n.bft }).1.store = storeAfterExec n b) := by
  unfold preSteps execErr storeAfterExec storeAfterBFT
  simp only [runSteps, stepVerify]
  cases verifyBlock n n.bft b with
  | some e => simp
  | none =>
    simp only [guardStep]
    cases b.abiInit <;> simp
    cases b.abiVerifyAssets <;> simp
    simp only [stepBFT]
    cases BFT.process n.bft (hdrOf b) with
    | error e => simp
    | ok s1 =>
      simp only [stepInfo]
      cases consensusInfoOK s1 b <;> simp
      cases b.abiBefore <;> simp
      simp only [stepTxs]
      cases execTxs b.txs with
      | some e => simp
      | none =>
        simp only
        cases b.abiAfter <;> simp
        simp only [stepChange]
        cases applyChange s1 b.change with
        | none => simp
        | some s2 =>
          simp only [stepNextParams]
          cases h3 : getParams s2 (b.height + 1) with
          | none => simp
          | some p =>
            simp only [Option.isSome_some, if_true, Option.isNone_some, Bool.false_eq_true, if_false]
            cases b.vhOK <;> simp
            by_cases h4 : b.nEvents ≤ maxEventsPerBlock
            · have : ¬ b.nEvents > maxEventsPerBlock := by omega
              simp only [h4, decide_true, if_true, this, if_false]
              cases b.eventRootOK <;> simp
              cases b.commitOK <;> simp
            · have : b.nEvents > maxEventsPerBlock := by omega
              simp [h4, this]

end LiskVerif.Verify
