/-
Byte-level lemmas for the node model: big-endian heights, key shapes.
-/
import LiskVerif.Model.Node
import LiskVerif.Lemmas.Order

namespace LiskVerif.Node
open LiskVerif

theorem decU32_encU32 (n : Nat) : decU32 (encU32 n) = n % u32 := by
  unfold decU32 encU32 u32
  simp only [UInt8.toNat_ofNat']
  omega

theorem decU32_encU32_of_lt {n : Nat} (h : n < u32) : decU32 (encU32 n) = n := by
  rw [decU32_encU32, Nat.mod_eq_of_lt h]

theorem encU32_inj {a b : Nat} (ha : a < u32) (hb : b < u32) (h : encU32 a = encU32 b) : a = b := by
  have h1 := decU32_encU32_of_lt ha
  have h2 := decU32_encU32_of_lt hb
  rw [h] at h1
  omega

theorem decU32_lt (b : Bytes) : decU32 b < u32 := by
  unfold decU32 u32
  split
  · rename_i a b c d _
    have := a.toNat_lt; have := b.toNat_lt; have := c.toNat_lt; have := d.toNat_lt
    omega
  · omega

end LiskVerif.Node

namespace LiskVerif.Node
open LiskVerif

/-- big-endian encoding preserves the order: byte order of the keys is numeric order of heights -/
theorem ble_encU32 {a b : Nat} (ha : a < u32) (hb : b < u32) :
    ble (encU32 a) (encU32 b) = true ↔ a ≤ b := by
  unfold u32 at ha hb
  unfold ble encU32
  simp only [bcmp, UInt8.lt_iff_toNat_lt, UInt8.toNat_ofNat']
  constructor
  · intro h
    apply Decidable.byContradiction
    intro hn
    repeat' split at h
    all_goals first | omega | (simp at h)
  · intro h
    repeat' split
    all_goals first | rfl | omega

theorem ble_cons_same (p : UInt8) (a b : Bytes) : ble (p :: a) (p :: b) = ble a b := by
  unfold ble
  simp [bcmp]

/-- a key between two keys that start with the byte `p` starts with `p` -/
theorem head_of_between (p : UInt8) (a b k : Bytes)
    (h1 : ble (p :: a) k = true) (h2 : ble k (p :: b) = true) : k.head? = some p := by
  cases k with
  | nil => simp [ble, bcmp] at h1
  | cons x r =>
    unfold ble at h1 h2
    simp only [bcmp] at h1 h2
    by_cases hpx : p < x
    · have hxp : ¬ x < p := by
        intro h
        exact absurd (UInt8.lt_trans hpx h) (UInt8.lt_irrefl p)
      simp [hpx, hxp] at h2
    · by_cases hxp : x < p
      · simp [hpx, hxp] at h1
      · have : p = x := u8_eq_of_not_lt hpx hxp
        simp [this]

theorem hasPrefix_one (k : Bytes) (p : UInt8) : hasPrefix k [p] = true ↔ k.head? = some p := by
  cases k with
  | nil => simp [hasPrefix]
  | cons x r =>
    simp only [hasPrefix, Bool.and_true, List.head?_cons, Option.some.injEq]
    exact beq_iff_eq

end LiskVerif.Node
