/-
Refinement: on chains that fit into the window (`length ≤ 3·batchSize`, heights `< 2^32`), the
windowed transcription `Model/BFT.lean` of the Go code computes exactly the weights and heights of
the unbounded specification `Model/BFTSpec.lean` (static parameters, all validators active from
genesis). Chains are newest first.
-/
import LiskVerif.Lemmas.BFTSafety
import LiskVerif.Lemmas.Sort

namespace LiskVerif.BFTSpec
open LiskVerif LiskVerif.BFT

/-! ### the parameter store with a single entry -/

theorem lookupLE_single {α : Type} (k : Nat) (a : α) (h : Nat) :
    lookupLE [(k, a)] h = if k ≤ h then some (k, a) else none := by
  unfold lookupLE
  simp only [List.foldl_cons, List.foldl_nil]

theorem getParams_single (s : State) (k : Nat) (P : Params) (hs : s.params = [(k, P)]) {h : Nat}
    (hk : k ≤ h) : getParams s h = some P := by
  unfold getParams
  rw [hs, lookupLE_single, if_pos hk]
  rfl

theorem prune_single {α : Type} (k : Nat) (a : α) (h : Nat) : prune [(k, a)] h = [(k, a)] := by
  unfold prune
  rw [lookupLE_single]
  by_cases hk : k ≤ h
  · simp [hk]
  · simp [hk]

/-! ### the window as a function of the chain -/

/-- block infos of the chain `l` (newest first) with weights given per height -/
def mkInfo (pv pc : Nat → Nat) (x : Header) : BlockInfo :=
  ⟨x.height, x.gen, x.mhg, x.mhp, pv x.height, pc x.height⟩

def mkInfos (pv pc : Nat → Nat) (l : List Header) : List BlockInfo := l.map (mkInfo pv pc)

theorem mkInfos_cons (pv pc : Nat → Nat) (x : Header) (l : List Header) :
    mkInfos pv pc (x :: l) = ⟨x.height, x.gen, x.mhg, x.mhp, pv x.height, pc x.height⟩ :: mkInfos pv pc l := rfl

theorem mkInfos_congr {pv pc pv' pc' : Nat → Nat} {l : List Header}
    (h : ∀ x ∈ l, pv x.height = pv' x.height ∧ pc x.height = pc' x.height) :
    mkInfos pv pc l = mkInfos pv' pc' l := by
  unfold mkInfos
  apply List.map_congr_left
  intro x hx
  unfold mkInfo
  rw [(h x hx).1, (h x hx).2]

theorem mkInfos_length (pv pc : Nat → Nat) (l : List Header) : (mkInfos pv pc l).length = l.length := by
  simp [mkInfos]

/-- heights strictly decreasing along the (newest first) chain and above genesis -/
def Desc (g : Nat) (l : List Header) : Prop :=
  l.Pairwise (fun a b => b.height < a.height) ∧ ∀ b ∈ l, g < b.height

theorem Desc.tail {g : Nat} {x : Header} {l : List Header} (h : Desc g (x :: l)) : Desc g l :=
  ⟨(List.pairwise_cons.mp h.1).2, fun b hb => h.2 b (List.mem_cons_of_mem _ hb)⟩

/-! ### the two vote loops -/

theorem precommitLoop_spec (s : State) (P : Params) (g : Nat) (gen : Bytes) (v : Validator) (minH : Nat)
    (hgp : ∀ h, g < h → getParams s h = some P) (hv : findValidator P.validators gen = some v)
    (pv pc : Nat → Nat) :
    ∀ (l : List Header) (done : Bool), Desc g l →
      precommitLoop s gen minH (mkInfos pv pc l) done =
        .ok (mkInfos pv (fun h => pc h + if minH ≤ h ∧ P.prevoteThreshold ≤ pv h then v.weight else 0) l,
             if done then none
             else (l.find? fun b => decide (minH ≤ b.height ∧ P.prevoteThreshold ≤ pv b.height)).map (·.height)) := by
  intro l
  induction l with
  | nil => intro done _; cases done <;> simp [mkInfos, precommitLoop]
  | cons x l ih =>
    intro done hd
    have hx : g < x.height := hd.2 x List.mem_cons_self
    rw [mkInfos_cons]
    unfold precommitLoop
    simp only
    by_cases hlt : x.height < minH
    · rw [if_pos hlt]
      have hall : ∀ b ∈ x :: l, ¬ (minH ≤ b.height) := by
        intro b hb
        rcases List.mem_cons.mp hb with rfl | hb
        · omega
        · have := (List.pairwise_cons.mp hd.1).1 b hb; omega
      have e1 : mkInfos pv (fun h => pc h + if minH ≤ h ∧ P.prevoteThreshold ≤ pv h then v.weight else 0) (x :: l)
          = mkInfos pv pc (x :: l) := by
        apply mkInfos_congr
        intro b hb
        simp [hall b hb]
      have e2 : ((x :: l).find? fun b => decide (minH ≤ b.height ∧ P.prevoteThreshold ≤ pv b.height)) = none := by
        rw [List.find?_eq_none]
        intro b hb
        simp [hall b hb]
      rw [e1, e2, mkInfos_cons]
      cases done <;> rfl
    · rw [if_neg hlt, hgp x.height hx]
      simp only
      by_cases hq : P.prevoteThreshold ≤ pv x.height
      · rw [if_pos (by exact hq), hv]
        simp only
        rw [ih true hd.tail]
        simp only [mkInfos_cons]
        have hc : minH ≤ x.height ∧ P.prevoteThreshold ≤ pv x.height := ⟨by omega, hq⟩
        simp only [if_pos hc, List.find?_cons, decide_eq_true hc]
        cases done <;> simp
      · rw [if_neg (by exact hq)]
        rw [ih done hd.tail]
        simp only [mkInfos_cons]
        have hc : ¬ (minH ≤ x.height ∧ P.prevoteThreshold ≤ pv x.height) := fun h => hq h.2
        simp only [if_neg hc, List.find?_cons, decide_eq_false hc, Nat.add_zero]

theorem prevoteLoop_spec (s : State) (P : Params) (g : Nat) (gen : Bytes) (v : Validator) (minH : Nat)
    (hgp : ∀ h, g < h → getParams s h = some P) (hv : findValidator P.validators gen = some v)
    (pv pc : Nat → Nat) :
    ∀ (l : List Header), Desc g l →
      prevoteLoop s gen minH (mkInfos pv pc l) =
        .ok (mkInfos (fun h => pv h + if minH ≤ h then v.weight else 0) pc l) := by
  intro l
  induction l with
  | nil => intro _; simp [mkInfos, prevoteLoop]
  | cons x l ih =>
    intro hd
    have hx : g < x.height := hd.2 x List.mem_cons_self
    rw [mkInfos_cons]
    unfold prevoteLoop
    simp only
    by_cases hlt : x.height < minH
    · rw [if_pos hlt]
      have hall : ∀ b ∈ x :: l, ¬ (minH ≤ b.height) := by
        intro b hb
        rcases List.mem_cons.mp hb with rfl | hb
        · omega
        · have := (List.pairwise_cons.mp hd.1).1 b hb; omega
      have e1 : mkInfos (fun h => pv h + if minH ≤ h then v.weight else 0) pc (x :: l)
          = mkInfos pv pc (x :: l) := by
        apply mkInfos_congr
        intro b hb
        simp [hall b hb]
      rw [e1, mkInfos_cons]
    · rw [if_neg hlt, hgp x.height hx]
      simp only
      rw [hv]
      simp only
      rw [ih hd.tail]
      simp only [mkInfos_cons]
      rw [if_pos (by omega)]

/-- `firstWith` finds the highest block whose weight reaches the threshold -/
theorem firstWith_spec (s : State) (P : Params) (g : Nat)
    (hgp : ∀ h, g < h → getParams s h = some P) (w : BlockInfo → Nat) (thr : Params → Nat)
    (pv pc : Nat → Nat) (f : Nat → Nat)
    (hw : ∀ x : Header, w ⟨x.height, x.gen, x.mhg, x.mhp, pv x.height, pc x.height⟩ = f x.height) :
    ∀ (l : List Header), Desc g l →
      firstWith s w thr (mkInfos pv pc l) =
        .ok ((l.find? fun b => decide (thr P ≤ f b.height)).map (·.height)) := by
  intro l
  induction l with
  | nil => intro _; simp [mkInfos, firstWith]
  | cons x l ih =>
    intro hd
    have hx : g < x.height := hd.2 x List.mem_cons_self
    rw [mkInfos_cons]
    unfold firstWith
    simp only
    rw [hgp x.height hx]
    simp only
    rw [hw x]
    by_cases hq : thr P ≤ f x.height
    · rw [if_pos (by exact hq)]
      simp [hq]
    · rw [if_neg (by exact hq), ih hd.tail]
      simp [hq]

/-! ### chains with consecutive heights -/

/-- heights `g + length, …, g + 1` (newest first) -/
def Consec (g : Nat) : List Header → Prop
  | [] => True
  | x :: p => x.height = g + p.length + 1 ∧ Consec g p

theorem Consec.mem_height {g : Nat} {l : List Header} (h : Consec g l) {b : Header} (hb : b ∈ l) :
    g < b.height ∧ b.height ≤ g + l.length := by
  induction l with
  | nil => simp at hb
  | cons x p ih =>
    rcases List.mem_cons.mp hb with rfl | hb
    · have := h.1; simp; omega
    · have := ih h.2 hb; simp; omega

theorem Consec.desc {g : Nat} {l : List Header} (h : Consec g l) : Desc g l := by
  induction l with
  | nil => exact ⟨List.Pairwise.nil, by simp⟩
  | cons x p ih =>
    have ih' := ih h.2
    refine ⟨List.pairwise_cons.mpr ⟨?_, ih'.1⟩, fun b hb => (h.mem_height hb).1⟩
    intro b hb
    have := (h.2.mem_height hb).2
    have := h.1
    omega

theorem valid_consec (cfg : Cfg) {l : List Header} (h : Valid cfg l) : Consec cfg.genesis l := by
  induction l with
  | nil => trivial
  | cons x p ih =>
    have hv := (valid_cons cfg x p).mp h
    exact ⟨hv.1, ih hv.2.2.2⟩

/-- on a chain with consecutive heights, the first block satisfying a predicate on heights is the
one found by `maxWith` -/
theorem find_maxWith {g : Nat} (f : Nat → Bool) {l : List Header} (h : Consec g l) :
    (l.find? fun b => f b.height).map (·.height) =
      if maxWith f g l.length = g then none else some (maxWith f g l.length) := by
  induction l with
  | nil => simp [maxWith]
  | cons x p ih =>
    have hx := h.1
    simp only [List.find?_cons, List.length_cons]
    unfold maxWith
    rw [hx]
    by_cases hf : f (g + p.length + 1) = true
    · simp [hf]; exact ⟨by omega, hx⟩
    · simp only [hf]
      rw [← hx]
      simp only [Bool.false_eq_true, ↓reduceIte]
      exact ih h.2

/-- block lookup by height = indexing from the tip -/
theorem Consec.index {g : Nat} {l : List Header} (h : Consec g l) {k : Nat} (h1 : g < k)
    (h2 : k ≤ g + l.length) :
    ∃ b, l[g + l.length - k]? = some b ∧ blockAt l k = some b ∧ b.height = k := by
  induction l with
  | nil => simp at h2; omega
  | cons x p ih =>
    by_cases hk : k = g + p.length + 1
    · refine ⟨x, ?_, ?_, by rw [h.1, hk]⟩
      · have : g + (x :: p).length - k = 0 := by simp; omega
        rw [this]; rfl
      · unfold blockAt
        simp [h.1, hk]
    · have hk2 : k ≤ g + p.length := by simp at h2; omega
      obtain ⟨b, hb1, hb2, hb3⟩ := ih h.2 hk2
      refine ⟨b, ?_, ?_, hb3⟩
      · have : g + (x :: p).length - k = (g + p.length - k) + 1 := by simp; omega
        rw [this, List.getElem?_cons_succ]; exact hb1
      · unfold blockAt at hb2 ⊢
        have : ¬ (x.height = k) := by rw [h.1]; omega
        simp [this]
        simpa using hb2

theorem Consec.blockAt_none {g : Nat} {l : List Header} (h : Consec g l) {k : Nat}
    (hk : k ≤ g ∨ g + l.length < k) : blockAt l k = none := by
  unfold blockAt
  rw [List.find?_eq_none]
  intro b hb
  have := h.mem_height hb
  simp
  omega

theorem Consec.getLast {g : Nat} {l : List Header} (h : Consec g l) (hne : l ≠ []) :
    ∃ o, l.getLast? = some o ∧ o.height = g + 1 := by
  induction l with
  | nil => exact absurd rfl hne
  | cons x p ih =>
    cases p with
    | nil => exact ⟨x, rfl, by have := h.1; simpa using this⟩
    | cons y q =>
      obtain ⟨o, ho, hh⟩ := ih h.2 (by simp)
      exact ⟨o, by rw [List.getLast?_cons_cons]; exact ho, hh⟩

/-! ### heightNotPrevoted: windowed loop vs specification loop -/

theorem hnpLoop_le (p : List Header) (gen : Bytes) : ∀ (fuel prev : Nat), hnpLoop p gen fuel prev ≤ prev := by
  intro fuel
  induction fuel with
  | zero => intro prev; simp [hnpLoop]
  | succ f ih =>
    intro prev
    unfold hnpLoop
    split
    · exact Nat.le_refl _
    · split
      · exact Nat.le_refl _
      · rename_i hc
        have := ih (by assumption : Header).mhg
        omega

/-- the two loops agree, except that past genesis the window form returns `g` where the
specification returns a value `≤ g` -/
theorem hnpLoop_refines {g : Nat} (hg : g < u32) (pv pc : Nat → Nat) (x : Header) (p : List Header)
    (hc : Consec g (x :: p)) (gen : Bytes) :
    ∀ (fs fm prev : Nat), prev < x.height → prev - g + 1 ≤ fs → prev - g + 1 ≤ fm →
      (BFT.hnpLoop (mkInfos pv pc (x :: p)) gen x.height fm prev = hnpLoop p gen fs prev ∨
       (BFT.hnpLoop (mkInfos pv pc (x :: p)) gen x.height fm prev = g ∧ hnpLoop p gen fs prev ≤ g)) := by
  intro fs
  induction fs with
  | zero => intro fm prev _ h; omega
  | succ fs ih =>
    intro fm prev hlt h1 h2
    cases fm with
    | zero => omega
    | succ fm =>
      have hxh := hc.1
      unfold BFT.hnpLoop hnpLoop
      rw [mkInfos_length]
      by_cases hpg : g < prev
      · obtain ⟨b, hb1, hb2, hb3⟩ := hc.index hpg (by simp; omega)
        have hidx : x.height - prev = g + (x :: p).length - prev := by simp; omega
        have hb2' : blockAt p prev = some b := by
          unfold blockAt at hb2 ⊢
          have : ¬ (x.height = prev) := by omega
          simpa [List.find?_cons, this] using hb2
        have hlt' : x.height - prev < (x :: p).length := by simp; omega
        rw [if_pos hlt', hb2']
        have : (mkInfos pv pc (x :: p))[x.height - prev]? = some (mkInfo pv pc b) := by
          unfold mkInfos
          rw [List.getElem?_map, hidx, hb1]; rfl
        rw [this]
        simp only
        have e1 : (mkInfo pv pc b).gen = b.gen := rfl
        have e2 : (mkInfo pv pc b).mhg = b.mhg := rfl
        rw [e1, e2]
        by_cases hcond : b.gen ≠ gen ∨ b.mhg ≥ prev
        · rw [if_pos hcond, if_pos hcond]; left; rfl
        · rw [if_neg hcond, if_neg hcond]
          have hbm : b.mhg < prev := by
            by_cases hh : b.mhg < prev
            · exact hh
            · exact absurd (Or.inr (by omega)) hcond
          exact ih fm b.mhg (by omega) (by omega) (by omega)
      · have hge : ¬ (x.height - prev < (x :: p).length) := by simp; omega
        rw [if_neg hge, hc.2.blockAt_none (Or.inl (by omega))]
        obtain ⟨o, ho, hoh⟩ := hc.getLast (by simp)
        have : (mkInfos pv pc (x :: p)).getLast? = some (mkInfo pv pc o) := by
          unfold mkInfos
          rw [List.getLast?_map, ho]; rfl
        rw [this]
        simp only
        right
        have e1 : (mkInfo pv pc o).height = o.height := rfl
        rw [e1, hoh]
        refine ⟨?_, by omega⟩
        have : g + 1 + u32 - 1 = g + u32 := by omega
        rw [this, Nat.add_mod_right, Nat.mod_eq_of_lt hg]

/-! ### small facts about the specification -/

theorem pvW_zero_above (cfg : Cfg) {p : List Header} (hc : Consec cfg.genesis p) {h : Nat}
    (hh : cfg.genesis + p.length < h) : pvW cfg p h = 0 := by
  induction p with
  | nil => rfl
  | cons x p ih =>
    rw [pvW_cons, ih hc.2 (by simp at hh; omega)]
    have : prevotes cfg x h = false := by
      cases hp : prevotes cfg x h with
      | false => rfl
      | true =>
        have := (prevotes_iff cfg x h).mp hp
        have := hc.1
        simp at hh; omega
    simp [this]

theorem pcW_zero_above (cfg : Cfg) {p : List Header} (hc : Consec cfg.genesis p) {h : Nat}
    (hh : cfg.genesis + p.length < h) : pcW cfg p h = 0 := by
  induction p with
  | nil => rfl
  | cons x p ih =>
    rw [pcW_cons, ih hc.2 (by simp at hh; omega)]
    have : precommits cfg p x h = false := by
      cases hp : precommits cfg p x h with
      | false => rfl
      | true =>
        have h1 := ((precommits_iff cfg p x h).mp hp).2.2.2.2
        rw [pvW_zero_above cfg hc.2 (by simp at hh; omega)] at h1
        have := prevoteThreshold_pos cfg
        omega
    simp [this]

theorem lhp_ge_genesis (cfg : Cfg) (r : List Header) (v : Bytes) : cfg.genesis ≤ lhp cfg r v := by
  induction r with
  | nil => exact Nat.le_refl _
  | cons x p ih =>
    rw [lhp_cons]
    split
    · exact Nat.le_trans ih (Nat.le_max_left _ _)
    · exact ih

theorem lhp_le (cfg : Cfg) (r : List Header) (v : Bytes) : lhp cfg r v ≤ cfg.genesis + r.length := by
  induction r with
  | nil => exact Nat.le_refl _
  | cons x p ih =>
    rw [lhp_cons]
    split
    · have := maxWith_le (fun h => decide (minPc cfg (hnp p x) (lhp cfg p v) ≤ h) &&
          decide (prevoteThreshold cfg ≤ pvW cfg p h)) cfg.genesis (p.length + 1)
      simp only [List.length_cons]
      omega
    · simp only [List.length_cons]; omega

theorem findActive_map (addrs : List Bytes) (m : Nat) (f : Bytes → Nat) (gen : Bytes) :
    findActive (addrs.map fun a => ⟨a, m, f a⟩) gen =
      if gen ∈ addrs then some ⟨gen, m, f gen⟩ else none := by
  induction addrs with
  | nil => simp [findActive]
  | cons a as ih =>
    unfold findActive at ih ⊢
    simp only [List.map_cons, List.find?_cons]
    by_cases h : a = gen
    · subst h; simp
    · have : ¬ (gen = a) := fun e => h e.symm
      simp only [h, decide_false, List.mem_cons, this, false_or]
      exact ih

theorem maxWith_congr (f f' : Nat → Bool) (lo n : Nat) (h : ∀ k, f k = f' k) :
    maxWith f lo n = maxWith f' lo n := by
  have : f = f' := funext h
  rw [this]

/-- what the static configuration and the parameter entry of the window model have in common -/
structure Static (cfg : Cfg) (P : Params) (addrs : List Bytes) : Prop where
  vals : P.validators = cfg.validators
  pv : P.prevoteThreshold = prevoteThreshold cfg
  pc : P.precommitThreshold = cfg.precommitThreshold
  act : ∀ a, a ∈ addrs ↔ (findValidator cfg.validators a).isSome = true

/-! ### `updatePrevotesPrecommits` -/

/-- the no-vote cases: the new header changes neither weights nor vote infos -/
theorem updateVotes_unchanged (cfg : Cfg) (addrs : List Bytes) (x : Header) (p : List Header) (s0 : State)
    (hinfos : s0.infos = mkInfos (pvW cfg p) (pcW cfg p) (x :: p))
    (hact : s0.active = addrs.map fun a => ⟨a, cfg.genesis + 1, lhp cfg p a⟩)
    (hno : x.height ≤ x.mhg ∨ (x.gen ∉ addrs ∧ weightOf cfg x.gen = 0)) :
    s0 = { s0 with infos := mkInfos (pvW cfg (x :: p)) (pcW cfg (x :: p)) (x :: p),
                   active := addrs.map fun a => ⟨a, cfg.genesis + 1, lhp cfg (x :: p) a⟩ } := by
  have e1 : mkInfos (pvW cfg (x :: p)) (pcW cfg (x :: p)) (x :: p) = s0.infos := by
    rw [hinfos]
    apply mkInfos_congr
    intro b _
    rw [pvW_cons, pcW_cons]
    rcases hno with h | h
    · have h1 : prevotes cfg x b.height = false := by
        cases hp : prevotes cfg x b.height with
        | false => rfl
        | true => have := (prevotes_iff cfg x b.height).mp hp; omega
      have h2 : precommits cfg p x b.height = false := by
        cases hp : precommits cfg p x b.height with
        | false => rfl
        | true => have := (precommits_iff cfg p x b.height).mp hp; omega
      simp [h1, h2]
    · rw [h.2]; simp
  have e2 : (addrs.map fun a => (⟨a, cfg.genesis + 1, lhp cfg (x :: p) a⟩ : ActiveVal)) = s0.active := by
    rw [hact]
    apply List.map_congr_left
    intro a ha
    rw [lhp_cons]
    have : ¬ (x.gen = a ∧ x.mhg < x.height) := by
      rcases hno with h | h
      · omega
      · intro hh; exact h.1 (hh.1 ▸ ha)
    rw [if_neg this]
  rw [e1, e2]

theorem updateVotes_refines (cfg : Cfg) (P : Params) (addrs : List Bytes) (hst : Static cfg P addrs)
    (x : Header) (p : List Header) (hc : Consec cfg.genesis (x :: p))
    (hg : cfg.genesis + p.length + 2 < u32) (s0 : State)
    (hinfos : s0.infos = mkInfos (pvW cfg p) (pcW cfg p) (x :: p))
    (hact : s0.active = addrs.map fun a => ⟨a, cfg.genesis + 1, lhp cfg p a⟩)
    (hpar : s0.params = [(cfg.genesis + 1, P)]) :
    updateVotes s0 = .ok { s0 with
      infos := mkInfos (pvW cfg (x :: p)) (pcW cfg (x :: p)) (x :: p),
      active := addrs.map fun a => ⟨a, cfg.genesis + 1, lhp cfg (x :: p) a⟩ } := by
  have hgp : ∀ h, cfg.genesis < h → getParams s0 h = some P :=
    fun h hh => getParams_single s0 _ P hpar (by omega)
  have hxh : x.height = cfg.genesis + p.length + 1 := hc.1
  unfold updateVotes
  rw [hinfos, mkInfos_cons]
  simp only
  by_cases hmhg : x.mhg ≥ x.height
  · rw [if_pos hmhg]
    exact congrArg _ (updateVotes_unchanged cfg addrs x p s0 hinfos hact (Or.inl hmhg))
  · rw [if_neg hmhg, hact, findActive_map]
    by_cases hmem : x.gen ∈ addrs
    · rw [if_pos hmem]
      simp only
      -- the validator entry
      have hsome := (hst.act x.gen).mp hmem
      obtain ⟨v, hv⟩ := Option.isSome_iff_exists.mp hsome
      have hvP : findValidator P.validators x.gen = some v := by rw [hst.vals]; exact hv
      have hw : weightOf cfg x.gen = v.weight := by unfold weightOf; rw [hv]
      -- heightNotPrevoted
      have hnpR := hnpLoop_refines (g := cfg.genesis) (by omega) (pvW cfg p) (pcW cfg p) x p hc x.gen
        (p.length + 1) ((x :: p).length + 1) x.mhg (by omega) (by omega) (by simp; omega)
      have hnpS : hnp p x ≤ x.mhg := hnpLoop_le p x.gen _ _
      have hM : heightNotPrevoted
          (⟨x.height, x.gen, x.mhg, x.mhp, pvW cfg p x.height, pcW cfg p x.height⟩ :: mkInfos (pvW cfg p) (pcW cfg p) p)
          = BFT.hnpLoop (mkInfos (pvW cfg p) (pcW cfg p) (x :: p)) x.gen x.height ((x :: p).length + 1) x.mhg := by
        unfold heightNotPrevoted
        simp only [← mkInfos_cons, mkInfos_length]
      have hl1 := lhp_le cfg p x.gen
      have hl2 := lhp_ge_genesis cfg p x.gen
      have hmin : max (cfg.genesis + 1)
          (max ((heightNotPrevoted
            (⟨x.height, x.gen, x.mhg, x.mhp, pvW cfg p x.height, pcW cfg p x.height⟩ :: mkInfos (pvW cfg p) (pcW cfg p) p) + 1) % u32)
            ((lhp cfg p x.gen + 1) % u32)) = minPc cfg (hnp p x) (lhp cfg p x.gen) := by
        rw [hM]
        unfold minPc
        have e2 : (lhp cfg p x.gen + 1) % u32 = lhp cfg p x.gen + 1 := Nat.mod_eq_of_lt (by omega)
        rw [e2]
        unfold hnp at hnpS ⊢
        rcases hnpR with h | ⟨h1, h2⟩
        · rw [h, Nat.mod_eq_of_lt (by omega)]
        · rw [h1, Nat.mod_eq_of_lt (by omega)]
          omega
      rw [hmin]
      have hd : Desc cfg.genesis (x :: p) := hc.desc
      rw [← mkInfos_cons (pvW cfg p) (pcW cfg p) x p]
      rw [precommitLoop_spec s0 P cfg.genesis x.gen v _ hgp hvP (pvW cfg p) (pcW cfg p) (x :: p) false hd]
      simp only
      rw [prevoteLoop_spec s0 P cfg.genesis x.gen v _ hgp hvP _ _ (x :: p) hd]
      simp only
      -- the resulting window
      have hmlt : x.mhg < x.height := by omega
      have e1 : mkInfos (fun h => pvW cfg p h + if max ((x.mhg + 1) % u32) (cfg.genesis + 1) ≤ h then v.weight else 0)
          (fun h => pcW cfg p h + if minPc cfg (hnp p x) (lhp cfg p x.gen) ≤ h ∧ P.prevoteThreshold ≤ pvW cfg p h
            then v.weight else 0) (x :: p) =
          mkInfos (pvW cfg (x :: p)) (pcW cfg (x :: p)) (x :: p) := by
        apply mkInfos_congr
        intro b hb
        have hbh := (hc.mem_height hb).2
        simp only [List.length_cons] at hbh
        rw [pvW_cons, pcW_cons, hw, hst.pv]
        have em : (x.mhg + 1) % u32 = x.mhg + 1 := Nat.mod_eq_of_lt (by omega)
        rw [em]
        constructor
        · by_cases hpv : prevotes cfg x b.height = true
          · have := (prevotes_iff cfg x b.height).mp hpv
            rw [if_pos hpv, if_pos (by omega)]
          · have h1 : ¬ (max (x.mhg + 1) (cfg.genesis + 1) ≤ b.height) := by
              intro hh
              exact hpv ((prevotes_iff cfg x b.height).mpr ⟨hmlt, by omega, by omega, by omega⟩)
            rw [if_neg hpv, if_neg h1]
        · by_cases hpc : precommits cfg p x b.height = true
          · have := (precommits_iff cfg p x b.height).mp hpc
            rw [if_pos hpc, if_pos ⟨(minPc_le_iff cfg _ _ _).mpr ⟨this.2.1, this.2.2.1, this.2.2.2.1⟩, this.2.2.2.2⟩]
          · have h1 : ¬ (minPc cfg (hnp p x) (lhp cfg p x.gen) ≤ b.height ∧
                prevoteThreshold cfg ≤ pvW cfg p b.height) := by
              intro hh
              have := (minPc_le_iff cfg _ _ _).mp hh.1
              exact hpc ((precommits_iff cfg p x b.height).mpr ⟨hmlt, this.1, this.2.1, this.2.2, hh.2⟩)
            rw [if_neg hpc, if_neg h1]
      rw [e1]
      -- the vote infos
      have hfm := find_maxWith (g := cfg.genesis)
        (fun h => decide (minPc cfg (hnp p x) (lhp cfg p x.gen) ≤ h ∧ P.prevoteThreshold ≤ pvW cfg p h)) hc
      simp only [Bool.false_eq_true, ↓reduceIte]
      rw [hfm]
      have hmw : maxWith (fun h => decide (minPc cfg (hnp p x) (lhp cfg p x.gen) ≤ h ∧ P.prevoteThreshold ≤ pvW cfg p h))
            cfg.genesis (x :: p).length =
          maxWith (fun h => decide (minPc cfg (hnp p x) (lhp cfg p x.gen) ≤ h) &&
            decide (prevoteThreshold cfg ≤ pvW cfg p h)) cfg.genesis (p.length + 1) := by
        apply maxWith_congr
        intro k
        rw [hst.pv, Bool.decide_and]
      rw [hmw]
      obtain ⟨m, hmdef⟩ : ∃ m, m = maxWith (fun h => decide (minPc cfg (hnp p x) (lhp cfg p x.gen) ≤ h) &&
            decide (prevoteThreshold cfg ≤ pvW cfg p h)) cfg.genesis (p.length + 1) := ⟨_, rfl⟩
      rw [← hmdef]
      have hlhp : ∀ a, lhp cfg (x :: p) a = if x.gen = a then max (lhp cfg p a) m else lhp cfg p a := by
        intro a
        rw [lhp_cons]
        by_cases ha : x.gen = a
        · subst ha
          rw [if_pos ⟨rfl, hmlt⟩, if_pos rfl, ← hmdef]
        · rw [if_neg (fun hh => ha hh.1), if_neg ha]
      by_cases hm0 : m = cfg.genesis
      · rw [if_pos hm0]
        simp only
        have : (addrs.map fun a => (⟨a, cfg.genesis + 1, lhp cfg (x :: p) a⟩ : ActiveVal)) =
            addrs.map fun a => ⟨a, cfg.genesis + 1, lhp cfg p a⟩ := by
          apply List.map_congr_left
          intro a _
          rw [hlhp a]
          by_cases ha : x.gen = a
          · subst ha; rw [if_pos rfl, hm0, Nat.max_eq_left hl2]
          · rw [if_neg ha]
        rw [this]
      · rw [if_neg hm0]
        simp only
        have hspec := maxWith_spec (fun h => decide (minPc cfg (hnp p x) (lhp cfg p x.gen) ≤ h) &&
            decide (prevoteThreshold cfg ≤ pvW cfg p h)) cfg.genesis (p.length + 1)
        rw [← hmdef] at hspec
        have hgt : lhp cfg p x.gen < m := by
          rcases hspec with h | h
          · exact absurd h hm0
          · simp only [Bool.and_eq_true, decide_eq_true_eq] at h
            exact ((minPc_le_iff cfg _ _ _).mp h.1).2.2
        have : (addrs.map fun a => (⟨a, cfg.genesis + 1, lhp cfg (x :: p) a⟩ : ActiveVal)) =
            (addrs.map fun a => (⟨a, cfg.genesis + 1, lhp cfg p a⟩ : ActiveVal)).map fun a =>
              if a.address = x.gen then { a with largestHeightPrecommit := m } else a := by
          rw [List.map_map]
          apply List.map_congr_left
          intro a _
          simp only [Function.comp]
          rw [hlhp a]
          by_cases ha : x.gen = a
          · subst ha
            rw [if_pos rfl, if_pos rfl, Nat.max_eq_right (Nat.le_of_lt hgt)]
          · have : ¬ (a = x.gen) := fun e => ha e.symm
            rw [if_neg ha, if_neg this]
        rw [this]
    · rw [if_neg hmem]
      simp only
      have hnone : findValidator cfg.validators x.gen = none := by
        cases hf : findValidator cfg.validators x.gen with
        | none => rfl
        | some v => exact absurd ((hst.act x.gen).mpr (by rw [hf]; rfl)) hmem
      have hw : weightOf cfg x.gen = 0 := by unfold weightOf; rw [hnone]
      exact congrArg _ (updateVotes_unchanged cfg addrs x p s0 hinfos hact (Or.inr ⟨hmem, hw⟩))

/-! ### one step of `BeforeTransactionsExecute` -/

/-- the windowed state after chain `r` (newest first) is the specification's view of `r` -/
structure Inv (cfg : Cfg) (bs : Nat) (P : Params) (addrs : List Bytes) (r : List Header) (s : State) : Prop where
  batch : s.batchSize = bs
  infos : s.infos = mkInfos (pvW cfg r) (pcW cfg r) r
  active : s.active = addrs.map fun a => ⟨a, cfg.genesis + 1, lhp cfg r a⟩
  mhp : s.mhp = mhp cfg r
  mhpc : s.mhpc = mhpc cfg r
  params : s.params = [(cfg.genesis + 1, P)]

theorem pcW_mono_cons (cfg : Cfg) (x : Header) (p : List Header) (h : Nat) : pcW cfg p h ≤ pcW cfg (x :: p) h := by
  rw [pcW_cons]; omega

theorem mhpc_mono_cons (cfg : Cfg) (x : Header) (p : List Header) : mhpc cfg p ≤ mhpc cfg (x :: p) := by
  apply maxWith_mono
  · intro h hh
    simp at hh ⊢
    exact Nat.le_trans hh (pcW_mono_cons cfg x p h)
  · simp

theorem process_refines (cfg : Cfg) (bs : Nat) (P : Params) (addrs : List Bytes) (hst : Static cfg P addrs)
    (x : Header) (p : List Header) (s : State) (hI : Inv cfg bs P addrs p s)
    (hc : Consec cfg.genesis (x :: p)) (hlen : p.length + 1 ≤ 3 * bs)
    (hg : cfg.genesis + p.length + 2 < u32) :
    ∃ s', process s x = .ok s' ∧ Inv cfg bs P addrs (x :: p) s' := by
  have hxh : x.height = cfg.genesis + p.length + 1 := hc.1
  have hins : insertInfo s x = mkInfos (pvW cfg p) (pcW cfg p) (x :: p) := by
    unfold insertInfo
    rw [hI.infos, hI.batch, List.take_of_length_le (by simp [mkInfos_length]; omega), mkInfos_cons,
      pvW_zero_above cfg hc.2 (by omega), pcW_zero_above cfg hc.2 (by omega)]
  have hne : (mkInfos (pvW cfg p) (pcW cfg p) (x :: p)).isEmpty = false := rfl
  obtain ⟨o, ho, hoh⟩ := hc.getLast (by simp)
  have hlast : (mkInfos (pvW cfg p) (pcW cfg p) (x :: p)).getLast? = some (mkInfo (pvW cfg p) (pcW cfg p) o) := by
    unfold mkInfos
    rw [List.getLast?_map, ho]; rfl
  have hgpS : ∀ (s' : State), s'.params = s.params → ∀ h, cfg.genesis < h → getParams s' h = some P :=
    fun s' hs' h hh => getParams_single s' _ P (hs'.trans hI.params) (by omega)
  have hcache : cacheOk { s with infos := mkInfos (pvW cfg p) (pcW cfg p) (x :: p) }
      (mkInfos (pvW cfg p) (pcW cfg p) (x :: p)) = true := by
    unfold cacheOk
    rw [hlast]
    have : (mkInfos (pvW cfg p) (pcW cfg p) (x :: p)).head? = some (mkInfo (pvW cfg p) (pcW cfg p) x) := rfl
    rw [this]
    simp only
    have h1 : getParams { s with infos := mkInfos (pvW cfg p) (pcW cfg p) (x :: p) } o.height = some P :=
      hgpS _ rfl _ (by omega)
    show (getParams _ o.height).isSome = true
    rw [h1]; rfl
  have hupd := updateVotes_refines cfg P addrs hst x p hc hg
    { s with infos := mkInfos (pvW cfg p) (pcW cfg p) (x :: p) } rfl hI.active hI.params
  have hd : Desc cfg.genesis (x :: p) := hc.desc
  have hfw1 := fun (s' : State) (hs' : s'.params = s.params) =>
    firstWith_spec s' P cfg.genesis (hgpS s' hs') (·.prevoteWeight) (·.prevoteThreshold)
      (pvW cfg (x :: p)) (pcW cfg (x :: p)) (pvW cfg (x :: p)) (fun _ => rfl) (x :: p) hd
  have hfw2 := fun (s' : State) (hs' : s'.params = s.params) =>
    firstWith_spec s' P cfg.genesis (hgpS s' hs') (·.precommitWeight) (·.precommitThreshold)
      (pvW cfg (x :: p)) (pcW cfg (x :: p)) (pcW cfg (x :: p)) (fun _ => rfl) (x :: p) hd
  have hm1 := find_maxWith (g := cfg.genesis) (fun h => decide (P.prevoteThreshold ≤ pvW cfg (x :: p) h)) hc
  have hm2 := find_maxWith (g := cfg.genesis) (fun h => decide (P.precommitThreshold ≤ pcW cfg (x :: p) h)) hc
  rw [hst.pv] at hm1
  rw [hst.pc] at hm2
  have hmhp : (if mhp cfg (x :: p) = cfg.genesis then none else some (mhp cfg (x :: p))).getD (mhp cfg p)
      = mhp cfg (x :: p) := by
    by_cases h0 : mhp cfg (x :: p) = cfg.genesis
    · rw [if_pos h0]
      have h1 := mhp_mono cfg (List.suffix_cons x p)
      have h2 := mhp_ge_genesis cfg p
      simp only [Option.getD_none]; omega
    · rw [if_neg h0]; rfl
  have hmhpc : (if mhpc cfg (x :: p) = cfg.genesis then none else some (mhpc cfg (x :: p))).getD (mhpc cfg p)
      = mhpc cfg (x :: p) := by
    by_cases h0 : mhpc cfg (x :: p) = cfg.genesis
    · rw [if_pos h0]
      have h1 := mhpc_mono_cons cfg x p
      have h2 := mhpc_ge_genesis cfg p
      simp only [Option.getD_none]; omega
    · rw [if_neg h0]; rfl
  unfold process
  simp only [hins, hne, hcache, hupd, Bool.false_eq_true, ↓reduceIte, Bool.not_true]
  rw [hfw1 { s with infos := mkInfos (pvW cfg (x :: p)) (pcW cfg (x :: p)) (x :: p), active := addrs.map fun a => ⟨a, cfg.genesis + 1, lhp cfg (x :: p) a⟩ } rfl]
  simp only
  rw [hfw2 { s with infos := mkInfos (pvW cfg (x :: p)) (pcW cfg (x :: p)) (x :: p), active := addrs.map fun a => ⟨a, cfg.genesis + 1, lhp cfg (x :: p) a⟩, mhp := Option.getD _ s.mhp } rfl]
  simp only
  refine ⟨_, rfl, ?_⟩
  constructor
  · exact hI.batch
  · rfl
  · rfl
  · show Option.getD _ s.mhp = _
    rw [hst.pv, hm1, hI.mhp]
    exact hmhp
  · show Option.getD _ s.mhpc = _
    rw [hst.pc, hm2, hI.mhpc]
    exact hmhpc
  · show prune s.params _ = _
    rw [hI.params, prune_single]

/-- `BFTVotes.contradicting` on a window that holds the whole chain is the specification's check -/
theorem contradicting_mkInfos (contra : Hdr → Hdr → Bool) (s : State) (pv pc : Nat → Nat)
    (r : List Header) (x : Header) (h : s.infos = mkInfos pv pc r) :
    contradicting contra s x = contradictingSpec contra r x := by
  unfold contradicting contradictingSpec
  rw [h]
  unfold mkInfos
  rw [List.find?_map]
  have : ((fun b : BlockInfo => decide (b.gen = x.gen)) ∘ mkInfo pv pc) = fun b : Header => decide (b.gen = x.gen) := rfl
  rw [this]
  cases r.find? (fun b => decide (b.gen = x.gen)) with
  | none => rfl
  | some b => rfl

/-! ### a whole chain, and the initial state produced by `SetBFTParameters` -/

/-- heights `k, k+1, …` along an oldest-first chain -/
def HeightsFrom : Nat → List Header → Prop
  | _, [] => True
  | k, h :: t => h.height = k ∧ HeightsFrom (k + 1) t

/-- process a chain of headers (oldest first); `none` if some header is rejected -/
def runChain (s : State) : List Header → Option State
  | [] => some s
  | h :: rest =>
    match process s h with
    | .ok s' => runChain s' rest
    | .error _ => none

theorem runChain_refines (cfg : Cfg) (bs : Nat) (P : Params) (addrs : List Bytes) (hst : Static cfg P addrs) :
    ∀ (rest p : List Header) (s : State), Inv cfg bs P addrs p s → Consec cfg.genesis p →
      HeightsFrom (cfg.genesis + p.length + 1) rest → rest.length + p.length ≤ 3 * bs →
      cfg.genesis + (rest.length + p.length) + 1 < u32 →
      ∃ s', runChain s rest = some s' ∧ Inv cfg bs P addrs (rest.reverse ++ p) s' := by
  intro rest
  induction rest with
  | nil => intro p s hI _ _ _ _; exact ⟨s, rfl, by simpa using hI⟩
  | cons h t ih =>
    intro p s hI hc hh hlen hu
    simp only [List.length_cons] at hlen hu
    have hc' : Consec cfg.genesis (h :: p) := ⟨hh.1, hc⟩
    obtain ⟨s1, hs1, hI1⟩ := process_refines cfg bs P addrs hst h p s hI hc' (by omega) (by omega)
    obtain ⟨s2, hs2, hI2⟩ := ih (h :: p) s1 hI1 hc' (by simpa [Nat.add_assoc] using hh.2)
      (by simp only [List.length_cons]; omega) (by simp only [List.length_cons]; omega)
    refine ⟨s2, ?_, by simpa using hI2⟩
    unfold runChain
    rw [hs1]
    exact hs2

theorem Consec.of_append {g : Nat} {a b : List Header} (h : Consec g (a ++ b)) : Consec g b := by
  induction a with
  | nil => exact h
  | cons x a ih => exact ih h.2

theorem heightsFrom_of_consec {g : Nat} : ∀ (rest p : List Header), Consec g (rest.reverse ++ p) →
    HeightsFrom (g + p.length + 1) rest := by
  intro rest
  induction rest with
  | nil => intro _ _; trivial
  | cons h t ih =>
    intro p hc
    have hc' : Consec g (t.reverse ++ (h :: p)) := by simpa using hc
    refine ⟨hc'.of_append.1, ?_⟩
    have := ih (h :: p) hc'
    simpa [Nat.add_assoc] using this

/-- the state produced by `SetBFTParameters` on the genesis state is the specification's view of the
empty chain, for the configuration with the validators in the (sorted) order the module stores -/
theorem setParams_init_inv (bs g pcThr certThr : Nat) (vs : List Validator) (s0 : State)
    (h : setParams (initGenesis bs g) pcThr certThr vs = .ok s0) :
    ∃ P addrs,
      Static ⟨g, isort (fun a b => addrGE a.address b.address) vs, pcThr⟩ P addrs ∧
      Inv ⟨g, isort (fun a b => addrGE a.address b.address) vs, pcThr⟩ bs P addrs [] s0 := by
  unfold setParams at h
  split at h
  · cases h
  · split at h
    · cases h
    · split at h
      · cases h
      simp only at h
      split at h
      · cases h
      · split at h
        · cases h
        · have hgp : getParams (initGenesis bs g) g = none := rfl
          simp only [initGenesis, List.filter_nil] at h hgp
          simp only [hgp, Bool.false_eq_true, ↓reduceIte, findActive, List.find?_nil] at h
          injection h with h
          subst h
          refine ⟨⟨(vs.map (·.weight)).sum * 2 / 3 + 1, pcThr, certThr, isort (fun a b => addrGE a.address b.address) vs⟩,
            (isort (fun a b => addrGE a.address b.address)
            ((isort (fun a b => addrGE a.address b.address) vs).map fun v =>
              (⟨v.address, g + 1, g + 1 - 1⟩ : ActiveVal))).map (·.address), ?_, ?_⟩
          · constructor
            · rfl
            · show (vs.map (·.weight)).sum * 2 / 3 + 1 = _
              unfold prevoteThreshold totalWeight
              simp only
              rw [((isort_perm _ vs).map (·.weight)).sum_nat]
            · rfl
            · intro a
              simp only [List.mem_map, mem_isort]
              unfold findValidator
              rw [List.find?_isSome]
              constructor
              · rintro ⟨av, ⟨v, hv, rfl⟩, rfl⟩
                exact ⟨v, (mem_isort _ _ _).mpr hv, by simp⟩
              · rintro ⟨v, hv, hva⟩
                exact ⟨_, ⟨v, (mem_isort _ _ _).mp hv, rfl⟩, by simpa using hva⟩
          · constructor
            · rfl
            · rfl
            · simp only [List.map_map]
              symm
              have : ∀ a ∈ isort (fun a b => addrGE a.address b.address)
                  ((isort (fun a b => addrGE a.address b.address) vs).map fun v =>
                    (⟨v.address, g + 1, g + 1 - 1⟩ : ActiveVal)),
                  ((fun a => (⟨a, g + 1, lhp ⟨g, isort (fun a b => addrGE a.address b.address) vs, pcThr⟩ [] a⟩ : ActiveVal)) ∘
                    (·.address)) a = a := by
                intro a ha
                rw [mem_isort, List.mem_map] at ha
                obtain ⟨v, _, rfl⟩ := ha
                simp [lhp]
              rw [List.map_congr_left this, List.map_id']
            · rfl
            · rfl
            · rfl

end LiskVerif.BFTSpec
