/-
Write batches, commit and revert of the consensus store — pointwise (per key) characterisations.
-/
import LiskVerif.Lemmas.NodeBytes
import LiskVerif.Lemmas.DiffDB
import LiskVerif.Props.C12

namespace LiskVerif.Node
open LiskVerif LiskVerif.DiffDB

/-! ### batches -/

/-- the effect of a batch on one key: the last operation on it (`some none` = deleted) -/
def bval : List BOp → Bytes → Option (Option Bytes)
  | [], _ => none
  | op :: r, k =>
    match bval r k with
    | some v => some v
    | none => if op.key = k then some op.val else none

theorem slookup_applyOp (s : Store) (op : BOp) (k : Bytes) :
    slookup (applyOp s op) k = if op.key = k then op.val else slookup s k := by
  cases op with
  | set a v => simp only [applyOp, BOp.key, BOp.val, slookup_sset]; by_cases h : a = k <;> simp [h]
  | del a => simp only [applyOp, BOp.key, BOp.val, slookup_sdel]; by_cases h : a = k <;> simp [h]

theorem slookup_applyBatch (ops : List BOp) : ∀ (s : Store) (k : Bytes),
    slookup (applyBatch s ops) k = match bval ops k with | some v => v | none => slookup s k := by
  induction ops with
  | nil => intro s k; rfl
  | cons op r ih =>
    intro s k
    show slookup (applyBatch (applyOp s op) r) k = _
    rw [ih, slookup_applyOp]
    simp only [bval]
    cases bval r k <;> simp
    split <;> simp_all

theorem bval_append (a b : List BOp) (k : Bytes) :
    bval (a ++ b) k = match bval b k with | some v => some v | none => bval a k := by
  induction a with
  | nil => simp [bval]; cases bval b k <;> rfl
  | cons op r ih =>
    simp only [List.cons_append, bval, ih]
    cases bval b k <;> simp

theorem bval_none (ops : List BOp) (k : Bytes) (h : ∀ op ∈ ops, op.key ≠ k) : bval ops k = none := by
  induction ops with
  | nil => rfl
  | cons op r ih =>
    simp only [bval, ih (fun o ho => h o (List.mem_cons_of_mem _ ho))]
    simp [h op List.mem_cons_self]

theorem bval_some_mem (ops : List BOp) (k : Bytes) (v : Option Bytes) (h : bval ops k = some v) :
    ∃ op ∈ ops, op.key = k ∧ op.val = v := by
  induction ops with
  | nil => simp [bval] at h
  | cons op r ih =>
    simp only [bval] at h
    cases hr : bval r k with
    | some w =>
      rw [hr] at h
      obtain ⟨o, ho, h1, h2⟩ := ih (by rw [hr]; exact h)
      exact ⟨o, List.mem_cons_of_mem _ ho, h1, h2⟩
    | none =>
      rw [hr] at h
      by_cases hk : op.key = k
      · simp [hk] at h; exact ⟨op, List.mem_cons_self, hk, h⟩
      · simp [hk] at h

/-- a batch of deletions: every listed key is gone, the others are untouched -/
theorem bval_dels (ks : List Bytes) (k : Bytes) :
    bval (ks.map BOp.del) k = if k ∈ ks then some none else none := by
  induction ks with
  | nil => rfl
  | cons a r ih =>
    simp only [List.map_cons, bval, ih, BOp.key, BOp.val, List.mem_cons]
    by_cases h1 : k ∈ r
    · simp [h1]
    · by_cases h2 : a = k
      · simp [h1, h2]
      · simp [h1, h2, Ne.symm h2]

/-! ### distinct keys are preserved -/

theorem nodup_sset (s : Store) (k v : Bytes) (h : NoDupKeys s) : NoDupKeys (sset s k v) :=
  nodup_put s k v h

theorem nodup_sdel (s : Store) (k : Bytes) (h : NoDupKeys s) : NoDupKeys (sdel s k) :=
  nodup_filter s _ h

theorem nodup_applyBatch (ops : List BOp) : ∀ (s : Store), NoDupKeys s → NoDupKeys (applyBatch s ops) := by
  induction ops with
  | nil => intro s h; exact h
  | cons op r ih =>
    intro s h
    apply ih
    cases op with
    | set k v => exact nodup_sset s k v h
    | del k => exact nodup_sdel s k h

theorem nodup_commitCache (c : Cache) : ∀ (s : Store) (d : Diff), NoDupKeys s →
    NoDupKeys (commitCache c s d).1 := by
  induction c with
  | nil => intro s d h; exact h
  | cons e r ih =>
    intro s d h
    obtain ⟨k, cv⟩ := e
    unfold commitCache
    cases hi : cv.init with
    | none => exact ih _ _ (nodup_sset s k _ h)
    | some i =>
      simp only
      split
      · exact ih _ _ (nodup_sdel s k h)
      · split
        · exact ih _ _ (nodup_sset s k _ h)
        · exact ih _ _ h

theorem nodup_foldl_sdel (ks : List Bytes) : ∀ (s : Store), NoDupKeys s →
    NoDupKeys (ks.foldl (fun s k => sdel s k) s) := by
  induction ks with
  | nil => intro s h; exact h
  | cons a r ih => intro s h; exact ih _ (nodup_sdel s a h)

theorem nodup_foldl_sset (kvs : List KV) : ∀ (s : Store), NoDupKeys s →
    NoDupKeys (kvs.foldl (fun s kv => sset s kv.1 kv.2) s) := by
  induction kvs with
  | nil => intro s h; exact h
  | cons a r ih => intro s h; exact ih _ (nodup_sset s a.1 a.2 h)

theorem nodup_revertDiff (s : Store) (d : Diff) (h : NoDupKeys s) : NoDupKeys (revertDiff s d) := by
  unfold revertDiff
  exact nodup_foldl_sset _ _ (nodup_foldl_sset _ _ (nodup_foldl_sdel _ _ h))

/-! ### commit -/

/-- what `cacheDB.commit` does to one key (`none`: the key is not written) -/
def stateVal (ov : Cache) (k : Bytes) : Option (Option Bytes) :=
  match clookup ov k with
  | none => none
  | some cv =>
    match cv.init with
    | none => some (some cv.value)
    | some _ => if cv.deleted then some none else if cv.dirty then some (some cv.value) else none

private theorem clookup_none_of_not_mem' (c : Cache) (k : Bytes) (h : k ∉ c.map (·.1)) :
    clookup c k = none := by
  induction c with
  | nil => rfl
  | cons e r ih =>
    obtain ⟨a, b⟩ := e
    simp only [List.map_cons, List.mem_cons, not_or] at h
    simp only [clookup]
    rw [if_neg (Ne.symm h.1)]
    exact ih h.2

theorem commitCache_lookup (c : Cache) : ∀ (s : Store) (d : Diff), NoDupKeys c → ∀ k,
    slookup (commitCache c s d).1 k =
      match stateVal c k with
      | some v => v
      | none => slookup s k := by
  induction c with
  | nil => intro s d _ k; rfl
  | cons e r ih =>
    intro s d hnd k
    obtain ⟨k0, cv⟩ := e
    unfold NoDupKeys at hnd
    simp only [List.map_cons, List.nodup_cons] at hnd
    have hr : NoDupKeys r := hnd.2
    by_cases hk : k0 = k
    · subst hk
      have hnone : clookup r k0 = none := clookup_none_of_not_mem' r k0 hnd.1
      have hsv : stateVal r k0 = none := by simp [stateVal, hnone]
      unfold commitCache
      simp only [stateVal, clookup, if_true]
      cases hi : cv.init with
      | none => simp only; rw [ih _ _ hr k0, hsv]; simp
      | some i =>
        simp only
        cases hd : cv.deleted <;> cases hdi : cv.dirty <;>
          simp only [Bool.false_eq_true, if_false, if_true] <;>
          rw [ih _ _ hr k0, hsv] <;> simp
    · have hsv : stateVal ((k0, cv) :: r) k = stateVal r k := by
        simp [stateVal, clookup, hk]
      rw [hsv]
      unfold commitCache
      cases hi : cv.init with
      | none => simp only; rw [ih _ _ hr k]; cases stateVal r k <;> simp [hk]
      | some i =>
        simp only
        cases hd : cv.deleted <;> cases hdi : cv.dirty <;>
          simp only [Bool.false_eq_true, if_false, if_true] <;>
          rw [ih _ _ hr k] <;> cases stateVal r k <;> simp [hk]

/-- the diff returned by commit does not depend on the store -/
theorem commitCache_diff_indep (c : Cache) : ∀ (s s' : Store) (d : Diff),
    (commitCache c s d).2 = (commitCache c s' d).2 := by
  induction c with
  | nil => intro s s' d; rfl
  | cons e r ih =>
    intro s s' d
    obtain ⟨k, cv⟩ := e
    unfold commitCache
    cases hi : cv.init with
    | none => exact ih _ _ _
    | some i =>
      simp only
      split
      · exact ih _ _ _
      · split
        · exact ih _ _ _
        · exact ih _ _ _

theorem diffOf_eq (c : Cache) (s : Store) : (commitCache c s {}).2 = diffOf c :=
  commitCache_diff_indep c s [] {}

theorem stateVal_none_of_not_key (ov : Cache) (k : Bytes) (h : clookup ov k = none) :
    stateVal ov k = none := by
  simp [stateVal, h]

/-! ### revert is pointwise -/

theorem foldl_sdel_congr (ks : List Bytes) : ∀ (s t : Store) (k : Bytes),
    slookup s k = slookup t k →
    slookup (ks.foldl (fun s k => sdel s k) s) k = slookup (ks.foldl (fun s k => sdel s k) t) k := by
  induction ks with
  | nil => intro s t k h; exact h
  | cons a r ih =>
    intro s t k h
    apply ih
    simp [h]

theorem foldl_sset_congr (kvs : List KV) : ∀ (s t : Store) (k : Bytes),
    slookup s k = slookup t k →
    slookup (kvs.foldl (fun s kv => sset s kv.1 kv.2) s) k =
      slookup (kvs.foldl (fun s kv => sset s kv.1 kv.2) t) k := by
  induction kvs with
  | nil => intro s t k h; exact h
  | cons a r ih =>
    intro s t k h
    apply ih
    simp [h]

/-- `RevertDiff` acts key by key: its result at `k` depends only on the diff and the value at `k` -/
theorem revertDiff_congr (s t : Store) (d : Diff) (k : Bytes) (h : slookup s k = slookup t k) :
    slookup (revertDiff s d) k = slookup (revertDiff t d) k := by
  unfold revertDiff
  exact foldl_sset_congr _ _ _ _ (foldl_sset_congr _ _ _ _ (foldl_sdel_congr _ _ _ _ h))

/-- the store that holds, for every key of the overlay, the value the overlay read (`init`), and
agrees with `s` elsewhere -/
def preStore (ov : Cache) (s : Store) : Store :=
  ov.foldl (fun st e => match e.2.init with | some i => sset st e.1 i | none => sdel st e.1) s

theorem nodup_preStore (ov : Cache) : ∀ (s : Store), NoDupKeys s → NoDupKeys (preStore ov s) := by
  induction ov with
  | nil => intro s h; exact h
  | cons e r ih =>
    intro s h
    unfold preStore
    simp only [List.foldl_cons]
    apply ih
    cases e.2.init with
    | none => exact nodup_sdel s _ h
    | some i => exact nodup_sset s _ _ h

theorem slookup_preStore (ov : Cache) : ∀ (s : Store), NoDupKeys ov → ∀ k,
    slookup (preStore ov s) k =
      match clookup ov k with
      | some cv => cv.init
      | none => slookup s k := by
  induction ov with
  | nil => intro s _ k; rfl
  | cons e r ih =>
    intro s hnd k
    obtain ⟨k0, cv⟩ := e
    unfold NoDupKeys at hnd
    simp only [List.map_cons, List.nodup_cons] at hnd
    have step : preStore ((k0, cv) :: r) s =
        preStore r (match cv.init with | some i => sset s k0 i | none => sdel s k0) := by
      unfold preStore; simp only [List.foldl_cons]
    rw [step, ih _ hnd.2 k]
    simp only [clookup]
    by_cases hk : k0 = k
    · subst hk
      rw [clookup_none_of_not_mem' r k0 hnd.1]
      cases hi : cv.init <;> simp [hi]
    · simp only [hk, if_false]
      cases clookup r k with
      | some cv' => rfl
      | none => cases hi : cv.init <;> simp [hk]

/-- intrinsic well-formedness of an overlay (the store-independent part of `C12CacheInv`) -/
structure OverlayOK (ov : Cache) : Prop where
  nodup : NoDupKeys ov
  delOk : ∀ k cv, clookup ov k = some cv → cv.deleted = true → cv.init ≠ none
  cleanOk : ∀ k cv, clookup ov k = some cv → cv.dirty = false → cv.deleted = false →
    cv.init = none ∨ cv.init = some cv.value

theorem overlayOK_of_inv {s : Store} {ov : Cache} (h : C12CacheInv s ov) : OverlayOK ov :=
  ⟨h.nodupC, h.delOk, h.cleanOk⟩

theorem preStore_inv (ov : Cache) (s : Store) (hs : NoDupKeys s) (h : OverlayOK ov) :
    C12Inv ({ store := preStore ov s, cache := ov } : DiffDB.St) := by
  refine ⟨nodup_preStore ov s hs, ⟨h.nodup, ?_, h.delOk, h.cleanOk⟩, by simp⟩
  intro k cv hl
  simp only
  rw [slookup_preStore ov s h.nodup k, hl]

/-- **Revert after commit, pointwise** (from `C12_commit_exact` / `C12_revert_exact`): if the
database `X` holds, for every key, what committing the overlay `ov` over `preStore ov X` wrote,
then reverting the committed diff gives every overlay key the value the overlay had read and
leaves the other keys alone. -/
theorem revert_after_commit (X : Store) (ov : Cache) (hX : NoDupKeys X) (h : OverlayOK ov)
    (hagree : ∀ k, slookup X k =
      match stateVal ov k with
      | some v => v
      | none => match clookup ov k with | some cv => cv.init | none => slookup X k) (k : Bytes) :
    slookup (revertDiff X (diffOf ov)) k =
      match clookup ov k with
      | some cv => cv.init
      | none => slookup X k := by
  let st : DiffDB.St := { store := preStore ov X, cache := ov }
  have hinv : C12Inv st := preStore_inv ov X hX h
  have hrev := C12_revert_exact st hinv k
  have hdiff : (commit st).2 = diffOf ov := by
    simp only [commit, st]; exact diffOf_eq ov _
  have hstore : ∀ k, slookup (commit st).1.store k = slookup X k := by
    intro k
    simp only [commit, st]
    rw [commitCache_lookup ov _ _ h.nodup k, hagree k, slookup_preStore ov X h.nodup k]
  rw [hdiff] at hrev
  rw [revertDiff_congr X (commit st).1.store (diffOf ov) k (hstore k).symm, hrev]
  exact slookup_preStore ov X h.nodup k

end LiskVerif.Node
