/-
Lemmas about the transcription of Go's `container/heap` (Model/GoHeap.lean): swaps permute, the sift loops
stay inside their index range, and the sift invariants ("heap except at one position").
-/
import LiskVerif.Model.GoHeap

namespace LiskVerif.GoHeap

variable {α : Type}

/-! ### swaps -/

/-- the transposition of `i` and `j` -/
def sw (i j k : Nat) : Nat := if k = i then j else if k = j then i else k

theorem get_swap (a : Array α) {i j : Nat} (hi : i < a.size) (hj : j < a.size) (k : Nat) :
    (a.swapIfInBounds i j)[k]? = a[sw i j k]? := by
  simp only [Array.swapIfInBounds_def, hi, hj, dite_true, Array.getElem?_swap, sw]
  by_cases h1 : k = i
  · subst h1
    by_cases h2 : j = k
    · subst h2; simp
    · simp [h2, hj]
  · by_cases h2 : k = j
    · subst h2; simp [hi, h1]
    · have h1' : ¬ i = k := fun h => h1 h.symm
      have h2' : ¬ j = k := fun h => h2 h.symm
      simp [h1, h2, h1', h2']

theorem lessAt_swap (less : α → α → Bool) (a : Array α) {i j : Nat} (hi : i < a.size) (hj : j < a.size)
    (p q : Nat) : lessAt less (a.swapIfInBounds i j) p q = lessAt less a (sw i j p) (sw i j q) := by
  simp only [lessAt, get_swap a hi hj]

theorem swap_perm (a : Array α) (i j : Nat) : (a.swapIfInBounds i j).toList.Perm a.toList := by
  rw [Array.swapIfInBounds_def]
  split
  · split
    · exact Array.perm_iff_toList_perm.mp (Array.swap_perm _ _)
    · exact List.Perm.refl _
  · exact List.Perm.refl _

/-! ### multiset -/

theorem upF_perm (less : α → α → Bool) (f : Nat) (a : Array α) (j : Nat) :
    (upF less f a j).toList.Perm a.toList := by
  induction f generalizing a j with
  | zero => exact List.Perm.refl _
  | succ f ih =>
    simp only [upF]
    split
    · exact List.Perm.refl _
    · split
      · exact (ih _ _).trans (swap_perm _ _ _)
      · exact List.Perm.refl _

theorem upF_size (less : α → α → Bool) (f : Nat) (a : Array α) (j : Nat) :
    (upF less f a j).size = a.size := by
  induction f generalizing a j with
  | zero => rfl
  | succ f ih =>
    simp only [upF]
    split
    · rfl
    · split
      · rw [ih]; simp
      · rfl

/-- the child chosen by one iteration of `down` -/
def minChild (less : α → α → Bool) (a : Array α) (i n : Nat) : Nat :=
  if 2 * i + 1 + 1 < n && lessAt less a (2 * i + 1 + 1) (2 * i + 1) then 2 * i + 1 + 1 else 2 * i + 1

theorem downF_succ (less : α → α → Bool) (f : Nat) (a : Array α) (i n : Nat) :
    downF less (f + 1) a i n =
      if 2 * i + 1 ≥ n then (a, i)
      else if lessAt less a (minChild less a i n) i then
        downF less f (a.swapIfInBounds i (minChild less a i n)) (minChild less a i n) n
      else (a, i) := by
  have e : minChild less a i n = (if 2 * i + 1 + 1 < n && lessAt less a (2 * i + 1 + 1) (2 * i + 1)
      then 2 * i + 1 + 1 else 2 * i + 1) := rfl
  simp only [downF, ← e]
  split
  · rfl
  · cases lessAt less a (minChild less a i n) i <;> simp

theorem minChild_cases (less : α → α → Bool) (a : Array α) (i n : Nat) :
    minChild less a i n = 2 * i + 1 ∨ (minChild less a i n = 2 * i + 2 ∧ 2 * i + 2 < n) := by
  unfold minChild
  split
  · rename_i h; simp at h; right; exact ⟨rfl, h.1⟩
  · left; rfl

theorem downF_perm (less : α → α → Bool) (f : Nat) (a : Array α) (i n : Nat) :
    (downF less f a i n).1.toList.Perm a.toList := by
  induction f generalizing a i with
  | zero => exact List.Perm.refl _
  | succ f ih =>
    rw [downF_succ]
    split
    · exact List.Perm.refl _
    · split
      · exact (ih _ _).trans (swap_perm _ _ _)
      · exact List.Perm.refl _

theorem downF_size (less : α → α → Bool) (f : Nat) (a : Array α) (i n : Nat) :
    (downF less f a i n).1.size = a.size := by
  induction f generalizing a i with
  | zero => rfl
  | succ f ih =>
    rw [downF_succ]
    split
    · rfl
    · split
      · rw [ih]; simp
      · rfl

/-- the position returned by `down` is `≥ i`; if it is `i` the array is unchanged -/
theorem downF_pos (less : α → α → Bool) (f : Nat) (a : Array α) (i n : Nat) :
    i ≤ (downF less f a i n).2 ∧ ((downF less f a i n).2 = i → (downF less f a i n).1 = a) := by
  induction f generalizing a i with
  | zero => exact ⟨Nat.le_refl _, fun _ => rfl⟩
  | succ f ih =>
    rw [downF_succ]
    split
    · exact ⟨Nat.le_refl _, fun _ => rfl⟩
    · split
      · have := (ih (a.swapIfInBounds i (minChild less a i n)) (minChild less a i n)).1
        have hc := minChild_cases less a i n
        constructor
        · omega
        · intro h; omega
      · exact ⟨Nat.le_refl _, fun _ => rfl⟩

/-- `down` on the prefix `n` does not touch positions `≥ n` -/
theorem downF_frame (less : α → α → Bool) (f : Nat) (a : Array α) (i n : Nat) (hn : n ≤ a.size)
    (k : Nat) (hk : n ≤ k) : (downF less f a i n).1[k]? = a[k]? := by
  induction f generalizing a i with
  | zero => rfl
  | succ f ih =>
    rw [downF_succ]
    split
    · rfl
    · split
      · have hc := minChild_cases less a i n
        rw [ih _ _ (by simpa using hn)]
        rw [get_swap a (by omega) (by omega)]
        unfold sw
        rw [if_neg (by omega), if_neg (by omega)]
      · rfl

/-- `up` from `j` does not touch positions `> j` -/
theorem upF_frame (less : α → α → Bool) (f : Nat) (a : Array α) (j : Nat) (hj : j < a.size)
    (k : Nat) (hk : j < k) : (upF less f a j)[k]? = a[k]? := by
  induction f generalizing a j with
  | zero => rfl
  | succ f ih =>
    simp only [upF]
    split
    · rfl
    · split
      · rw [ih _ _ (by simp; omega) (by omega)]
        rw [get_swap a (by omega) hj]
        unfold sw
        rw [if_neg (by omega), if_neg (by omega)]
      · rfl

/-! ### order -/

/-- the hypotheses on `less`: asymmetric and negatively transitive (a strict weak order; asymmetry follows from
irreflexivity and transitivity) -/
structure SWO (less : α → α → Bool) : Prop where
  asym : ∀ x y, less x y = true → less y x = false
  neg : ∀ x y z, less x z = true → less x y = true ∨ less y z = true

theorem SWO.of_irr_trans {less : α → α → Bool} (hirr : ∀ x, less x x = false)
    (htr : ∀ x y z, less x y = true → less y z = true → less x z = true)
    (hneg : ∀ x y z, less x z = true → less x y = true ∨ less y z = true) : SWO less where
  asym := by
    intro x y h
    cases h2 : less y x with
    | false => rfl
    | true => have := htr x y x h h2; rw [hirr] at this; cases this
  neg := hneg

theorem SWO.irr {less : α → α → Bool} (h : SWO less) (x : α) : less x x = false := by
  cases h2 : less x x with
  | false => rfl
  | true => have := h.asym x x h2; rw [h2] at this; cases this

theorem sw_left (i j : Nat) : sw i j i = j := by simp [sw]
theorem sw_right (i j : Nat) : sw i j j = i := by
  unfold sw; split
  · omega
  · simp
theorem sw_ne {i j k : Nat} (h1 : k ≠ i) (h2 : k ≠ j) : sw i j k = k := by simp [sw, h1, h2]

theorem lessAt_asym {less : α → α → Bool} (h : SWO less) (a : Array α) (i j : Nat)
    (hl : lessAt less a j i = true) : lessAt less a i j = false := by
  unfold lessAt at *
  cases hj : a[j]? <;> cases hi : a[i]? <;> simp_all
  exact h.asym _ _ hl

theorem lessAt_irr {less : α → α → Bool} (h : SWO less) (a : Array α) (i : Nat) :
    lessAt less a i i = false := by
  unfold lessAt
  cases hi : a[i]? <;> simp
  exact h.irr _

/-- `a[i] ≤ a[j] ≤ a[k]` gives `a[i] ≤ a[k]` (where `x ≤ y` is `¬ less y x`); the middle index must be in range -/
theorem lessAt_trans {less : α → α → Bool} (h : SWO less) (a : Array α) {i j k : Nat} (hj : j < a.size)
    (h1 : lessAt less a j i = false) (h2 : lessAt less a k j = false) : lessAt less a k i = false := by
  unfold lessAt at *
  cases hk : a[k]? <;> cases hi : a[i]? <;> simp
  rename_i x z
  have hjs : a[j]? = some a[j] := by simp [hj]
  rw [hjs, hi] at h1
  rw [hk, hjs] at h2
  simp at h1 h2
  cases hl : less x z with
  | false => rfl
  | true => rcases h.neg x a[j] z hl with h3 | h3 <;> simp_all

/-- the heap invariant on the prefix `n`, for the edges whose parent is `≥ m` -/
def HeapFrom (less : α → α → Bool) (a : Array α) (n m : Nat) : Prop :=
  ∀ k, 0 < k → k < n → m ≤ (k - 1) / 2 → lessAt less a k ((k - 1) / 2) = false

/-- the heap invariant on the prefix `n` -/
def HeapN (less : α → α → Bool) (a : Array α) (n : Nat) : Prop :=
  ∀ k, 0 < k → k < n → lessAt less a k ((k - 1) / 2) = false

theorem heapN_iff_from (less : α → α → Bool) (a : Array α) (n : Nat) : HeapN less a n ↔ HeapFrom less a n 0 :=
  ⟨fun h k h1 h2 _ => h k h1 h2, fun h k h1 h2 => h k h1 h2 (Nat.zero_le _)⟩

/-- heap except for the edge from `j` to its parent; the children of `j` are not below the grandparent -/
def UpInv (less : α → α → Bool) (a : Array α) (n j : Nat) : Prop :=
  (∀ k, 0 < k → k < n → k ≠ j → lessAt less a k ((k - 1) / 2) = false) ∧
  (∀ k, 0 < k → k < n → (k - 1) / 2 = j → 0 < j → lessAt less a k ((j - 1) / 2) = false)

/-- heap (edges with parent `≥ m`) except for the edges from `i` to its children; the children of `i` are not
below the parent of `i` -/
def DownInv (less : α → α → Bool) (a : Array α) (n m i : Nat) : Prop :=
  (∀ k, 0 < k → k < n → m ≤ (k - 1) / 2 → (k - 1) / 2 ≠ i → lessAt less a k ((k - 1) / 2) = false) ∧
  (∀ k, 0 < k → k < n → (k - 1) / 2 = i → 0 < i → m ≤ (i - 1) / 2 → lessAt less a k ((i - 1) / 2) = false)

theorem upF_heap {less : α → α → Bool} (h : SWO less) (f : Nat) (a : Array α) (n j : Nat)
    (hn : n ≤ a.size) (hj : j < n) (hf : j ≤ f) (inv : UpInv less a n j) :
    HeapN less (upF less f a j) n := by
  induction f generalizing a j with
  | zero =>
    intro k h1 h2
    exact inv.1 k h1 h2 (by omega)
  | succ f ih =>
    simp only [upF]
    split
    · intro k h1 h2
      exact inv.1 k h1 h2 (by omega)
    · rename_i hj0
      split
      · rename_i hl
        have hi : (j - 1) / 2 < a.size := by omega
        have hjs : j < a.size := by omega
        have hij : (j - 1) / 2 ≠ j := by omega
        apply ih _ _ (by simpa using hn) (by omega) (by omega)
        constructor
        · intro k h1 h2 h3
          rw [lessAt_swap less a hi hjs]
          by_cases hkj : k = j
          · subst hkj
            rw [sw_right, sw_left]
            exact lessAt_asym h a _ _ hl
          · rw [sw_ne h3 hkj]
            by_cases hp : (k - 1) / 2 = (j - 1) / 2
            · rw [hp, sw_left]
              exact lessAt_trans h a hi (lessAt_asym h a _ _ hl) (hp ▸ inv.1 k h1 h2 hkj)
            · by_cases hp2 : (k - 1) / 2 = j
              · rw [hp2, sw_right]
                exact inv.2 k h1 h2 hp2 (by omega)
              · rw [sw_ne hp hp2]
                exact inv.1 k h1 h2 hkj
        · intro k h1 h2 h3 h4
          rw [lessAt_swap less a hi hjs]
          have hpi : sw ((j - 1) / 2) j (((j - 1) / 2 - 1) / 2) = ((j - 1) / 2 - 1) / 2 :=
            sw_ne (by omega) (by omega)
          rw [hpi]
          have hii := inv.1 ((j - 1) / 2) h4 (by omega) hij
          by_cases hkj : k = j
          · subst hkj
            rw [sw_right]
            exact hii
          · rw [sw_ne (by omega) hkj]
            exact lessAt_trans h a hi hii (h3 ▸ inv.1 k h1 h2 hkj)
      · rename_i hl
        intro k h1 h2
        by_cases hkj : k = j
        · subst hkj; simpa using hl
        · exact inv.1 k h1 h2 hkj

theorem minChild_le {less : α → α → Bool} (h : SWO less) (a : Array α) (i n c : Nat)
    (hc : c = 2 * i + 1 ∨ c = 2 * i + 2) (hcn : c < n) :
    lessAt less a c (minChild less a i n) = false := by
  unfold minChild
  split
  · rename_i hb
    simp at hb
    rcases hc with hc | hc
    · subst hc; exact lessAt_asym h a _ _ hb.2
    · subst hc; exact lessAt_irr h a _
  · rename_i hb
    rcases hc with hc | hc
    · subst hc; exact lessAt_irr h a _
    · subst hc
      simp at hb
      have := hb hcn
      simpa using this

theorem downF_heap {less : α → α → Bool} (h : SWO less) (f : Nat) (a : Array α) (n m i : Nat)
    (hn : n ≤ a.size) (hf : n ≤ f + i) (inv : DownInv less a n m i) :
    HeapFrom less (downF less f a i n).1 n m := by
  induction f generalizing a i with
  | zero =>
    intro k h1 h2 h3
    exact inv.1 k h1 h2 h3 (by omega)
  | succ f ih =>
    rw [downF_succ]
    split
    · intro k h1 h2 h3
      exact inv.1 k h1 h2 h3 (by omega)
    · rename_i hch
      have hc := minChild_cases less a i n
      have hjn : minChild less a i n < n := by omega
      have hjs : minChild less a i n < a.size := by omega
      have his : i < a.size := by omega
      split
      · rename_i hl
        apply ih _ _ (by simpa using hn) (by omega)
        generalize hj : minChild less a i n = j at *
        have hpj : (j - 1) / 2 = i := by omega
        constructor
        · intro k h1 h2 h3 h4
          rw [lessAt_swap less a his hjs]
          by_cases hkj : k = j
          · subst hkj
            rw [sw_right, hpj, sw_left]
            exact lessAt_asym h a _ _ hl
          · by_cases hki : k = i
            · subst hki
              rw [sw_left, sw_ne (by omega) (by omega)]
              exact inv.2 j (by omega) hjn hpj h1 h3
            · rw [sw_ne hki hkj]
              by_cases hp : (k - 1) / 2 = i
              · rw [hp, sw_left, ← hj]
                exact minChild_le h a i n k (by omega) h2
              · rw [sw_ne hp h4]
                exact inv.1 k h1 h2 h3 hp
        · intro k h1 h2 h3 h4 h5
          rw [lessAt_swap less a his hjs, hpj, sw_left, sw_ne (by omega) (by omega)]
          have := inv.1 k h1 h2 (by omega) (by omega)
          rw [h3] at this
          exact this
      · rename_i hl
        intro k h1 h2 h3
        by_cases hp : (k - 1) / 2 = i
        · rw [hp]
          have h5 := minChild_le h a i n k (by omega) h2
          exact lessAt_trans h a hjs (by simpa using hl) h5
        · exact inv.1 k h1 h2 h3 hp

/-! ### invariant: Bool form, root, replacement of one element -/

theorem isHeapUpTo_iff (less : α → α → Bool) (a : Array α) (n : Nat) :
    isHeapUpTo less a n = true ↔ HeapN less a n := by
  unfold isHeapUpTo HeapN
  simp only [List.all_eq_true, List.mem_range, Bool.or_eq_true, decide_eq_true_eq, Bool.not_eq_true']
  constructor
  · intro h k h1 h2
    rcases h k h2 with h3 | h3
    · omega
    · exact h3
  · intro h k h2
    by_cases h0 : k = 0
    · left; exact h0
    · right; exact h k (by omega) h2

theorem heapN_mono {less : α → α → Bool} {a : Array α} {n n' : Nat} (h : HeapN less a n) (hle : n' ≤ n) :
    HeapN less a n' := fun k h1 h2 => h k h1 (by omega)

theorem heapN_root {less : α → α → Bool} (h : SWO less) (a : Array α) (n : Nat) (hn : n ≤ a.size)
    (hh : HeapN less a n) : ∀ k, k < n → lessAt less a k 0 = false := by
  have : ∀ b k, k ≤ b → k < n → lessAt less a k 0 = false := by
    intro b
    induction b with
    | zero => intro k h1 _; have : k = 0 := by omega
              subst this; exact lessAt_irr h a 0
    | succ b ih =>
      intro k h1 h2
      by_cases h0 : k = 0
      · subst h0; exact lessAt_irr h a 0
      · have h3 := ih ((k - 1) / 2) (by omega) (by omega)
        exact lessAt_trans h a (j := (k - 1) / 2) (by omega) h3 (hh k (by omega) h2)
  intro k hk
  exact this k k (Nat.le_refl _) hk

theorem lessAt_congr (less : α → α → Bool) (a a' : Array α) (p q : Nat) (hp : a'[p]? = a[p]?)
    (hq : a'[q]? = a[q]?) : lessAt less a' p q = lessAt less a p q := by
  unfold lessAt; rw [hp, hq]

theorem upInv_of_heap {less : α → α → Bool} (h : SWO less) (a : Array α) (n i : Nat) (hn : n ≤ a.size)
    (hi : i < n) (hh : HeapN less a n) : UpInv less a n i := by
  constructor
  · intro k h1 h2 _; exact hh k h1 h2
  · intro k h1 h2 h3 h4
    exact lessAt_trans h a (j := i) (by omega) (hh i h4 hi) (h3 ▸ hh k h1 h2)

theorem downF_noop (less : α → α → Bool) (f : Nat) (a : Array α) (i n : Nat)
    (hc : ∀ k, 0 < k → k < n → (k - 1) / 2 = i → lessAt less a k i = false) :
    downF less f a i n = (a, i) := by
  cases f with
  | zero => rfl
  | succ f =>
    rw [downF_succ]
    split
    · rfl
    · split
      · rename_i hl
        have hm := minChild_cases less a i n
        have := hc (minChild less a i n) (by omega) (by omega) (by omega)
        rw [this] at hl; cases hl
      · rfl

/-- element `i` of a heap replaced by anything (`a'` agrees with the heap `a` elsewhere on the prefix) -/
theorem hole_cases {less : α → α → Bool} (h : SWO less) (a a' : Array α) (n i : Nat) (hn : n ≤ a.size)
    (hn' : n ≤ a'.size) (hi : i < n) (heq : ∀ k, k < n → k ≠ i → a'[k]? = a[k]?) (hh : HeapN less a n) :
    ((i = 0 ∨ lessAt less a' i ((i - 1) / 2) = false) → DownInv less a' n 0 i) ∧
    (0 < i → lessAt less a' i ((i - 1) / 2) = true →
      UpInv less a' n i ∧ ∀ k, 0 < k → k < n → (k - 1) / 2 = i → lessAt less a' k i = false) := by
  have hgc : ∀ k, 0 < k → k < n → (k - 1) / 2 = i → 0 < i → lessAt less a' k ((i - 1) / 2) = false := by
    intro k h1 h2 h3 h4
    rw [lessAt_congr less a a' _ _ (heq k h2 (by omega)) (heq _ (by omega) (by omega))]
    exact lessAt_trans h a (j := i) (by omega) (hh i h4 hi) (h3 ▸ hh k h1 h2)
  have hother : ∀ k, 0 < k → k < n → k ≠ i → (k - 1) / 2 ≠ i → lessAt less a' k ((k - 1) / 2) = false := by
    intro k h1 h2 h3 h4
    rw [lessAt_congr less a a' _ _ (heq k h2 h3) (heq _ (by omega) h4)]
    exact hh k h1 h2
  constructor
  · intro hc
    constructor
    · intro k h1 h2 _ h4
      by_cases hki : k = i
      · subst hki
        rcases hc with hc | hc
        · omega
        · exact hc
      · exact hother k h1 h2 hki h4
    · intro k h1 h2 h3 h4 _
      exact hgc k h1 h2 h3 h4
  · intro h0 hl
    have hch : ∀ k, 0 < k → k < n → (k - 1) / 2 = i → lessAt less a' k i = false := by
      intro k h1 h2 h3
      exact lessAt_trans h a' (j := (i - 1) / 2) (by omega) (lessAt_asym h a' _ _ hl) (hgc k h1 h2 h3 h0)
    refine ⟨⟨?_, ?_⟩, hch⟩
    · intro k h1 h2 h3
      by_cases hp : (k - 1) / 2 = i
      · rw [hp]; exact hch k h1 h2 hp
      · exact hother k h1 h2 h3 hp
    · intro k h1 h2 h3 h4
      exact hgc k h1 h2 h3 h4

/-- the body of `Fix` / `Remove`: `if !down(h, i, n) { up(h, i) }` restores the invariant -/
theorem fix_heap {less : α → α → Bool} (h : SWO less) (a a' : Array α) (n i : Nat) (hn : n ≤ a.size)
    (hn' : n ≤ a'.size) (hi : i < n) (heq : ∀ k, k < n → k ≠ i → a'[k]? = a[k]?) (hh : HeapN less a n) :
    HeapN less (if (down less a' i n).2 = true then (down less a' i n).1 else up less (down less a' i n).1 i) n := by
  have hc := hole_cases h a a' n i hn hn' hi heq hh
  by_cases hcase : i = 0 ∨ lessAt less a' i ((i - 1) / 2) = false
  · have hd := (heapN_iff_from less _ n).mpr (downF_heap h n a' n 0 i hn' (by omega) (hc.1 hcase))
    split
    · exact hd
    · rename_i hflag
      simp only [down, decide_eq_true_eq] at hflag
      have hp := downF_pos less n a' i n
      have he : (downF less n a' i n).1 = a' := hp.2 (by omega)
      simp only [down]
      rw [he]
      exact upF_heap h i a' n i hn' hi (Nat.le_refl _) (upInv_of_heap h a' n i hn' hi (he ▸ hd))
  · have h0 : 0 < i := by omega
    have hl : lessAt less a' i ((i - 1) / 2) = true := by
      cases hx : lessAt less a' i ((i - 1) / 2) with
      | true => rfl
      | false => exact absurd (Or.inr hx) hcase
    have hu := hc.2 h0 hl
    have hno := downF_noop less n a' i n hu.2
    simp only [down, hno]
    simp
    exact upF_heap h i a' n i hn' hi (Nat.le_refl _) hu.1

theorem heapN_pop {less : α → α → Bool} (a : Array α) (hh : HeapN less a (a.size - 1)) :
    HeapN less a.pop a.pop.size := by
  intro k h1 h2
  simp only [Array.size_pop] at h2
  rw [lessAt_congr less a a.pop k _ (by rw [Array.getElem?_pop, if_pos h2])
    (by rw [Array.getElem?_pop, if_pos (by omega)])]
  exact hh k h1 h2

theorem back_pop_toList (a : Array α) (x : α) (hb : a.back? = some x) : a.toList = a.pop.toList ++ [x] := by
  obtain ⟨ys, rfl⟩ := Array.back?_eq_some_iff.mp hb
  simp

theorem foldl_down_perm (less : α → α → Bool) (n : Nat) (l : List Nat) (a : Array α) :
    (l.foldl (fun acc i => (down less acc i n).1) a).toList.Perm a.toList := by
  induction l generalizing a with
  | nil => exact List.Perm.refl _
  | cons i l ih =>
    simp only [List.foldl_cons]
    exact (ih _).trans (downF_perm less n a i n)

theorem init_loop {less : α → α → Bool} (h : SWO less) (n m : Nat) (a : Array α) (hs : a.size = n)
    (hh : HeapFrom less a n m) :
    HeapFrom less ((List.range m).reverse.foldl (fun acc i => (down less acc i n).1) a) n 0 := by
  induction m generalizing a with
  | zero => simpa using hh
  | succ m ih =>
    rw [List.range_succ, List.reverse_append]
    simp only [List.reverse_cons, List.reverse_nil, List.nil_append, List.singleton_append, List.foldl_cons]
    apply ih
    · simp only [down]; rw [downF_size]; exact hs
    · simp only [down]
      apply downF_heap h n a n m m (by omega) (by omega)
      constructor
      · intro k h1 h2 h3 h4
        exact hh k h1 h2 (by omega)
      · intro k h1 h2 h3 h4 h5
        omega

end LiskVerif.GoHeap
