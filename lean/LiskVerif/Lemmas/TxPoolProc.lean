/- C14: who can become processable (only `reorg`, only after verification), and the replacement fee rule. -/
import LiskVerif.Lemmas.TxPoolReorg

namespace LiskVerif.TxPool

/-- `t` is pooled and its nonce is in the processable set of its sender list -/
def isProc (p : Pool) (t : Tx) : Prop := ∃ a, (t.sender, a) ∈ p.accts ∧ t ∈ a.txs ∧ t.nonce ∈ a.proc

theorem inv_unique_slot {cfg : Cfg} {p : Pool} (h : C14Inv cfg p) {x y : Tx} (hx : x ∈ p.all) (hy : y ∈ p.all)
    (hs : x.sender = y.sender) (hn : x.nonce = y.nonce) : x = y := by
  obtain ⟨ax, hax, hxa⟩ := h.allInAcct x hx
  obtain ⟨ay, hay, hya⟩ := h.allInAcct y hy
  rw [hs] at hax
  have := inj_of_nodup_map _ _ h.acctsNodup _ hax _ hay rfl
  rw [(Prod.mk.inj this).2] at hxa
  exact inj_of_nodup_map _ _ (h.acctOk _ hay).nodup x hxa y hya hn

theorem remove_isProc (p : Pool) (id : Nat) (t : Tx) (h : isProc (remove p id).1 t) : isProc p t := by
  unfold remove at h
  cases hfind : p.all.find? (fun t => t.id == id) with
  | none => rw [hfind] at h; exact h
  | some t0 =>
    rw [hfind] at h
    simp only at h
    cases ha : findAcct p.accts t0.sender with
    | none => rw [ha] at h; exact h
    | some a =>
      rw [ha] at h
      simp only at h
      obtain ⟨ax, hax, htx, htn⟩ := h
      have hold : ∀ e, e ∈ p.accts ∧ e.1 ≠ t0.sender → e = (t.sender, ax) → isProc p t := by
        rintro e ⟨he, _⟩ rfl; exact ⟨ax, he, htx, htn⟩
      have hnew : (t.sender, ax) = (t0.sender, (a.remove t0.nonce).1) → isProc p t := by
        intro heq
        obtain ⟨hs, hax⟩ := Prod.mk.inj heq
        have hmem := findAcct_some ha
        rw [← hs] at hmem
        rcases acct_remove_spec a t0.nonce with ⟨_, hr⟩ | ⟨_, _, hr⟩
        · rw [hr] at hax; simp only at hax; rw [hax] at htx htn; exact ⟨a, hmem, htx, htn⟩
        · rw [hr] at hax; simp only at hax; rw [hax] at htx htn
          exact ⟨a, hmem, (List.mem_filter.1 htx).1, ((mem_demote _ _ _).1 htn).1⟩
      split at hax
      · exact hold _ (mem_delAcct.1 hax) rfl
      · rcases mem_setAcct.1 hax with heq | hax
        · exact hnew heq
        · exact hold _ hax rfl

theorem foldl_remove_isProc (l : List Tx) : ∀ (p : Pool) (t : Tx),
    isProc (l.foldl (fun q x => (remove q x.id).1) p) t → isProc p t := by
  induction l with
  | nil => intro p t h; exact h
  | cons x r ih => intro p t h; exact remove_isProc p x.id t (ih _ t h)

theorem evict_isProc (p : Pool) (tie : Nat) (t : Tx) (h : isProc (evict p tie) t) : isProc p t := by
  unfold evict at h
  split at h
  · exact remove_isProc p _ t h
  · exact h

theorem addCore_isProc {cfg : Cfg} (hper : 1 ≤ cfg.maxPerAcct) {p1 : Pool} (h1 : C14Inv cfg p1) (tx : Tx)
    (pubOk : Bool) (t : Tx) (h : isProc (addCore cfg p1 tx pubOk).1 t) : isProc p1 t := by
  unfold addCore at h
  have hf := acct_facts h1 tx.sender
  generalize ha : (findAcct p1.accts tx.sender).getD {} = a at h hf
  have hnoproc : a.get tx.nonce = none → tx.nonce ∉ a.proc := by
    intro hg hn
    obtain ⟨x, hx, hxn⟩ := hf.procIn _ hn
    exact get_none hg x hx hxn
  -- a transaction of the old list that is processable in the old list
  have hfromA : ∀ x, x ∈ a.txs → x.nonce ∈ a.proc → x.sender = tx.sender → isProc p1 x := by
    intro x hx hn hs
    have hreg := hf.reg (List.ne_nil_of_mem hx)
    exact ⟨a, by rw [hs]; exact hreg, hx, hn⟩
  rcases acct_add_spec cfg hper a tx with ⟨hr, _⟩ | ⟨hg, _, hr⟩ | ⟨old, hold, hslot, _, hr⟩
  · simp only [hr, Bool.false_eq_true, if_false] at h
    obtain ⟨ax, hax, htx, htn⟩ := h
    rcases mem_setAcct.1 hax with heq | hax
    · obtain ⟨hs, hax⟩ := Prod.mk.inj heq
      subst hax
      exact hfromA t htx htn hs
    · exact ⟨ax, hax.1, htx, htn⟩
  · simp only [hr, if_true] at h
    obtain ⟨ax, hax, htx, htn⟩ := h
    rcases mem_setAcct.1 hax with heq | hax
    · obtain ⟨hs, hax⟩ := Prod.mk.inj heq
      subst hax
      simp only at htx htn
      rcases List.mem_cons.1 htx with rfl | htx
      · exact absurd htn (hnoproc hg)
      · exact hfromA t htx htn hs
    · exact ⟨ax, hax.1, htx, htn⟩
  · simp only [hr, if_true] at h
    obtain ⟨ax, hax, htx, htn⟩ := h
    rcases mem_setAcct.1 hax with heq | hax
    · obtain ⟨hs, hax⟩ := Prod.mk.inj heq
      subst hax
      simp only at htx htn
      rw [mem_demote] at htn
      rcases List.mem_cons.1 htx with rfl | htx
      · rcases hslot with hsl | hsl
        · omega
        · exact absurd htn.1 (hnoproc hsl)
      · exact hfromA t (List.mem_filter.1 htx).1 htn.1 hs
    · exact ⟨ax, hax.1, htx, htn⟩

theorem add_isProc {cfg : Cfg} (hper : 1 ≤ cfg.maxPerAcct) {p : Pool} (h : C14Inv cfg p)
    (tx : Tx) (v : Verdict) (pubOk : Bool) (tie : Nat) (t : Tx)
    (ht : isProc (add cfg p tx v pubOk tie).1 t) : isProc p t := by
  unfold add at ht
  split at ht
  · exact ht
  split at ht
  · exact ht
  split at ht
  · exact ht
  split at ht
  · exact ht
  split at ht
  · exact evict_isProc p tie t (addCore_isProc hper (evict_inv h tie) tx pubOk t ht)
  · exact addCore_isProc hper h tx pubOk t ht

theorem promote_cases (a : Acct) (txs : List Tx) :
    a.promote txs = a ∨ a.promote txs = { a with proc := sortUniq (a.proc ++ txs.map (·.nonce)) } := by
  unfold Acct.promote
  split
  · right; rfl
  · left; rfl

theorem findIdx?_take {α : Type} (q : α → Bool) : ∀ (l : List α) (i : Nat), l.findIdx? q = some i →
    ∀ x ∈ l.take i, q x = false := by
  intro l
  induction l with
  | nil => intro i h; simp at h
  | cons a r ih =>
    intro i h x hx
    rw [List.findIdx?_cons] at h
    by_cases hq : q a = true
    · rw [if_pos hq] at h
      cases h
      simp at hx
    · rw [if_neg hq] at h
      cases hr : r.findIdx? q with
      | none => rw [hr] at h; cases h
      | some j =>
        rw [hr] at h
        simp only [Option.map_some, Option.some.injEq] at h
        subst h
        rw [List.take_succ_cons] at hx
        rcases List.mem_cons.1 hx with rfl | hx
        · simpa using hq
        · exact ih j hr x hx

/-- whatever `reorgAcct` newly marks processable was verified in this round and not answered `invalid` -/
theorem reorgAcct_isProc {cfg : Cfg} {p : Pool} (h : C14Inv cfg p) (v : Nat → Verdict) (s : Nat) (t : Tx)
    (ht : isProc (reorgAcct v p s) t) : isProc p t ∨ v t.id ≠ Verdict.invalid := by
  unfold reorgAcct at ht
  cases ha : findAcct p.accts s with
  | none => rw [ha] at ht; exact Or.inl ht
  | some a =>
    rw [ha] at ht
    simp only at ht
    have hmem := findAcct_some ha
    have hai : AcctInv cfg s a := h.acctOk _ hmem
    -- effect of promoting a prefix of the promotable transactions
    have hprom : ∀ k, isProc { p with accts := setAcct p.accts s (a.promote (a.promotable.take k)) } t →
        isProc p t ∨ t ∈ a.promotable.take k := by
      intro k ⟨ax, hax, htx, htn⟩
      rcases mem_setAcct.1 hax with heq | hax
      · obtain ⟨hs, hax⟩ := Prod.mk.inj heq
        subst hax
        rcases promote_cases a (a.promotable.take k) with hpc | hpc
        · rw [hpc] at htx htn
          left; exact ⟨a, by rw [hs]; exact hmem, htx, htn⟩
        · rw [hpc] at htx htn
          simp only at htx htn
          rw [mem_sortUniq, List.mem_append] at htn
          rcases htn with htn | htn
          · left; exact ⟨a, by rw [hs]; exact hmem, htx, htn⟩
          · right
            obtain ⟨t', ht', htn'⟩ := List.mem_map.1 htn
            have ht'a : t' ∈ a.txs := promotable_subset (List.mem_of_mem_take ht')
            rw [← inj_of_nodup_map _ _ hai.nodup t' ht'a t htx htn']; exact ht'
      · left; exact ⟨ax, hax.1, htx, htn⟩
    by_cases hempty : a.promotable.isEmpty = true
    · rw [if_pos hempty] at ht; exact Or.inl ht
    · rw [if_neg hempty] at ht
      cases hfi : firstInvalid v (a.processables ++ a.promotable) with
      | none =>
        rw [hfi] at ht
        simp only at ht
        have hfull : a.promotable = a.promotable.take a.promotable.length := (List.take_length).symm
        rw [hfull] at ht
        rcases hprom _ ht with hp | hp
        · exact Or.inl hp
        · right
          unfold firstInvalid at hfi
          have := List.findIdx?_eq_none_iff.1 hfi t
            (List.mem_append.2 (Or.inr (List.mem_of_mem_take hp)))
          simpa using this
      | some fi =>
        rw [hfi] at ht
        simp only at ht
        have ht := foldl_remove_isProc _ _ t ht
        by_cases hc : fi ≥ a.processables.length + 1
        · rw [if_pos hc] at ht
          rcases hprom _ ht with hp | hp
          · exact Or.inl hp
          · right
            unfold firstInvalid at hfi
            have hin : t ∈ (a.processables ++ a.promotable).take fi := by
              rw [List.take_append]; exact List.mem_append.2 (Or.inr hp)
            have := findIdx?_take _ _ fi hfi t hin
            simpa using this
        · rw [if_neg hc] at ht
          left
          obtain ⟨ax, hax, htx, htn⟩ := ht
          rcases mem_setAcct.1 hax with heq | hax
          · obtain ⟨hs, hax⟩ := Prod.mk.inj heq
            subst hax
            exact ⟨ax, by rw [hs]; exact hmem, htx, htn⟩
          · exact ⟨ax, hax.1, htx, htn⟩

theorem reorg_isProc {cfg : Cfg} {p : Pool} (h : C14Inv cfg p) (v : Nat → Verdict) (t : Tx)
    (ht : isProc (reorg v p) t) : isProc p t ∨ v t.id ≠ Verdict.invalid := by
  unfold reorg at ht
  generalize p.accts.map (·.1) = l at ht
  induction l generalizing p with
  | nil => exact Or.inl ht
  | cons s r ih =>
    rcases ih (reorgAcct_inv h v s) ht with h1 | h1
    · exact reorgAcct_isProc h v s t h1
    · exact Or.inr h1

/-- replacement needs the configured fee increase (when the pool is not full, i.e. no eviction ran) -/
theorem add_replacement_fee {cfg : Cfg} (hper : 1 ≤ cfg.maxPerAcct) {p : Pool} (h : C14Inv cfg p)
    (tx old : Tx) (v : Verdict) (pubOk : Bool) (tie : Nat)
    (hold : old ∈ p.all) (hs : old.sender = tx.sender) (hn : old.nonce = tx.nonce) (hne : old.id ≠ tx.id)
    (hroom : p.all.length < cfg.maxTx) (hin : tx ∈ (add cfg p tx v pubOk tie).1.all) :
    old.fee + cfg.minFeeDiff ≤ tx.fee := by
  have hnotin : tx ∉ p.all := by
    intro htx
    exact hne (congrArg Tx.id (inv_unique_slot h hold htx hs hn))
  have hfull : isFull cfg p = false := by simp [isFull]; omega
  unfold add at hin
  rw [hfull] at hin
  simp only [Bool.false_and, Bool.false_eq_true, if_false] at hin
  split at hin
  · exact absurd hin hnotin
  split at hin
  · exact absurd hin hnotin
  split at hin
  · exact absurd hin hnotin
  unfold addCore at hin
  have hf := acct_facts h tx.sender
  generalize (findAcct p.accts tx.sender).getD {} = a at hin hf
  have holdA : old ∈ a.txs := hf.owns old hold hs
  have hget : a.get tx.nonce = some old := by rw [← hn]; exact get_of_mem hf.nodup holdA
  rcases acct_add_spec cfg hper a tx with ⟨hr, _⟩ | ⟨hg, _, _⟩ | ⟨old', hold', hslot, hfee, hr⟩
  · simp only [hr, Bool.false_eq_true, if_false] at hin
    exact absurd hin hnotin
  · rw [hget] at hg; cases hg
  · rcases hslot with hsl | hsl
    · rw [hsl, hget] at hold'
      cases hold'
      exact hfee hsl
    · rw [hget] at hsl; cases hsl

end LiskVerif.TxPool
