/-
Helper lemmas for Props/C06_Pool.lean: the pool invariant under `Pool.add`, `scvOne`, `certifyAt`,
`certifyLoop`, permutations / sublists of `Pool.all`; the unchecked bitmap scan; bit/byte conversion.
-/
import LiskVerif.Lemmas.CertInv
import LiskVerif.Lemmas.Sort

namespace LiskVerif.Cert

/-! ## the invariant on lists -/

/-- `PoolInv` as a predicate of the list of all entries -/
def ListInv (ctx : BlockCtx) (chainId : Nat) (l : List Commit) : Prop :=
  (∀ c ∈ l, EntryOk ctx chainId c) ∧ l.Pairwise (fun a b => ¬ (a.block = b.block ∧ a.signer = b.signer))

theorem poolInv_iff (ctx : BlockCtx) (chainId : Nat) (pool : Pool) :
    PoolInv ctx chainId pool ↔ ListInv ctx chainId pool.all := Iff.rfl

theorem ListInv.perm {ctx : BlockCtx} {chainId : Nat} {l l' : List Commit} (h : ListInv ctx chainId l)
    (hp : l.Perm l') : ListInv ctx chainId l' :=
  ⟨fun c hc => h.1 c (hp.mem_iff.mpr hc),
   h.2.perm hp (fun hxy hh => hxy ⟨hh.1.symm, hh.2.symm⟩)⟩

theorem ListInv.sublist {ctx : BlockCtx} {chainId : Nat} {l l' : List Commit} (h : ListInv ctx chainId l)
    (hs : l'.Sublist l) : ListInv ctx chainId l' :=
  ⟨fun c hc => h.1 c (hs.subset hc), h.2.sublist hs⟩

/-! ## `hasCommit`, `Pool.has`, `Pool.add` -/

theorem hasCommit_false {l : List Commit} {c : Commit} (h : hasCommit l c = false) :
    ∀ d ∈ l, ¬ (d.block = c.block ∧ d.signer = c.signer) := by
  intro d hd hh
  unfold hasCommit at h
  have := List.any_eq_false.mp h d hd
  apply this
  simp only [Bool.and_eq_true, beq_iff_eq]
  exact hh

theorem hasCommit_true {l : List Commit} {c : Commit} (h : hasCommit l c = true) :
    ∃ d ∈ l, d.block = c.block ∧ d.signer = c.signer := by
  unfold hasCommit at h
  obtain ⟨d, hd, hh⟩ := List.any_eq_true.mp h
  simp only [Bool.and_eq_true, beq_iff_eq] at hh
  exact ⟨d, hd, hh⟩

theorem pool_has_false {pool : Pool} {c : Commit} (h : pool.has c = false) :
    ∀ d ∈ pool.all, ¬ (d.block = c.block ∧ d.signer = c.signer) := by
  unfold Pool.has at h
  simp only [Bool.or_eq_false_iff] at h
  intro d hd
  unfold Pool.all at hd
  rcases List.mem_append.mp hd with hd | hd
  · exact hasCommit_false h.1 d hd
  · exact hasCommit_false h.2 d hd

theorem pool_has_true {pool : Pool} {c : Commit} (h : pool.has c = true) :
    ∃ d ∈ pool.all, d.block = c.block ∧ d.signer = c.signer := by
  unfold Pool.has at h
  simp only [Bool.or_eq_true] at h
  rcases h with h | h
  · obtain ⟨d, hd, hh⟩ := hasCommit_true h
    exact ⟨d, List.mem_append.mpr (Or.inl hd), hh⟩
  · obtain ⟨d, hd, hh⟩ := hasCommit_true h
    exact ⟨d, List.mem_append.mpr (Or.inr hd), hh⟩

theorem pool_add_all {pool : Pool} {c : Commit} (hn : pool.has c = false) : (pool.add c).all = pool.all ++ [c] := by
  simp only [Pool.add, hn, Bool.false_eq_true, if_false, Pool.all, List.append_assoc]

/-- a commit that is already pooled is not added again (`Pool.Add` checks and inserts in one step) -/
theorem pool_add_of_has {pool : Pool} {c : Commit} (h : pool.has c = true) : pool.add c = pool := by
  simp only [Pool.add, h, if_true]

/-- adding an `EntryOk` commit that `Pool.has` does not find preserves the invariant -/
theorem poolInv_add {ctx : BlockCtx} {chainId : Nat} {pool : Pool} {c : Commit} (h : PoolInv ctx chainId pool)
    (hc : EntryOk ctx chainId c) (hn : pool.has c = false) : PoolInv ctx chainId (pool.add c) := by
  unfold PoolInv
  rw [pool_add_all hn]
  refine ⟨?_, ?_⟩
  · intro d hd
    rcases List.mem_append.mp hd with hd | hd
    · exact h.1 d hd
    · rw [List.mem_singleton.mp hd]; exact hc
  · refine List.pairwise_append.mpr ⟨h.2, List.pairwise_singleton _ _, ?_⟩
    intro a ha b hb hh
    rw [List.mem_singleton.mp hb] at hh
    exact pool_has_false hn a ha hh

/-! ## `singleCommitValidator` -/

/-- what one iteration does: the pool is unchanged, or the verified commit of a well-formed message
not found by `Pool.has` was added; the result is never `accept` -/
theorem scvOne_spec (st : State) (pool : Pool) (m : Incoming) :
    ((scvOne st pool m).1 = pool ∨
      ((scvOne st pool m).1 = pool.add m.commit ∧ VerifiedOnChain st m.commit ∧ m.wf = true ∧
        pool.has m.commit = false)) ∧
    (scvOne st pool m).2 ≠ some .accept := by
  unfold scvOne
  split
  · exact ⟨Or.inl rfl, by simp⟩
  rename_i hwf
  split
  · exact ⟨Or.inl rfl, by simp⟩
  rename_i hhas
  split
  · exact ⟨Or.inl rfl, by simp⟩
  split
  · exact ⟨Or.inl rfl, by simp⟩
  split
  · exact ⟨Or.inl rfl, by simp⟩
  split
  · exact ⟨Or.inl rfl, by simp⟩
  rename_i hd hblk
  split
  · exact ⟨Or.inl rfl, by simp⟩
  rename_i hid
  split
  · exact ⟨Or.inl rfl, by simp⟩
  rename_i p hp
  split
  · exact ⟨Or.inl rfl, by simp⟩
  rename_i v hv
  split
  · exact ⟨Or.inl rfl, by simp⟩
  rename_i hsig
  refine ⟨Or.inr ⟨rfl, ?_, ?_, ?_⟩, by simp⟩
  · refine ⟨hd, p, v, hblk, ?_, hp, hv, ?_⟩
    · exact Decidable.of_not_not hid
    · simp only [verifySingle, Bool.not_eq_true', beq_eq_false_iff_ne, ne_eq, Decidable.not_not] at hsig
      exact hsig
  · simpa using hwf
  · simpa using hhas

theorem scvOne_inv {st : State} {ctx : BlockCtx} {pool : Pool} (m : Incoming) (hc : Consistent st ctx)
    (h : PoolInv ctx st.chainId pool) : PoolInv ctx st.chainId (scvOne st pool m).1 := by
  rcases (scvOne_spec st pool m).1 with h1 | ⟨h1, hok, _, hn⟩
  · rw [h1]; exact h
  · rw [h1]; exact poolInv_add h (hok.entryOk hc) hn

theorem scvOne_mem (st : State) (pool : Pool) (m : Incoming) :
    ∀ c ∈ (scvOne st pool m).1.all, c ∈ pool.all ∨ (VerifiedOnChain st c ∧ m.wf = true ∧ c = m.commit) := by
  intro c hc
  rcases (scvOne_spec st pool m).1 with h1 | ⟨h1, hok, hwf, hn⟩
  · rw [h1] at hc; exact Or.inl hc
  · rw [h1, pool_add_all hn] at hc
    rcases List.mem_append.mp hc with hc | hc
    · exact Or.inl hc
    · have := List.mem_singleton.mp hc
      subst this
      exact Or.inr ⟨hok, hwf, rfl⟩

theorem scv_step (st : State) (pool : Pool) (m : Incoming) (r : List Incoming) :
    singleCommitValidator st pool (m :: r) =
      match (scvOne st pool m).2 with
      | none => singleCommitValidator st (scvOne st pool m).1 r
      | some v => ((scvOne st pool m).1, v) := by
  rw [singleCommitValidator]
  rcases hs : scvOne st pool m with ⟨p, _ | v⟩ <;> rfl

/-! ## `Certify` -/

/-- the description of an entry created by `Certify` for `addr` with key `sk` -/
def CertEntry (st : State) (addr sk : Nat) (c : Commit) : Prop :=
  c.signer = addr ∧ c.internal = true ∧
  ∃ hd p v, st.blockAt c.height = some hd ∧ hd.id = c.block ∧
    getParams st.params c.height = some p ∧ findValidator p.validators addr = some v ∧
    c.sig = sign sk (certMsg st hd)

theorem CertEntry.verified {st : State} {addr sk : Nat} {c : Commit}
    (hkey : ∀ h p v, getParams st.params h = some p → findValidator p.validators addr = some v → v.key = sk)
    (h : CertEntry st addr sk c) : VerifiedOnChain st c := by
  obtain ⟨hs, _, hd, p, v, h1, h2, h3, h4, h5⟩ := h
  refine ⟨hd, p, v, h1, h2, h3, ?_, ?_⟩
  · rw [hs]; exact h4
  · rw [hkey _ p v h3 h4]; exact h5

/-- `certifyAt`: unchanged pool, or one `CertEntry` of height `h` not found by `Pool.has` is added -/
theorem certifyAt_spec (st : State) (pool : Pool) (h addr sk : Nat) :
    (certifyAt st pool h addr sk).1 = pool ∨
    ∃ c, (certifyAt st pool h addr sk).1 = pool.add c ∧ CertEntry st addr sk c ∧ c.height = h ∧
      pool.has c = false := by
  unfold certifyAt
  split
  · exact Or.inl rfl
  rename_i p hp
  split
  · exact Or.inl rfl
  rename_i v hv
  split
  · exact Or.inl rfl
  rename_i hd hblk
  simp only
  split
  · exact Or.inl rfl
  · rename_i hhas
    refine Or.inr ⟨_, rfl, ⟨rfl, rfl, hd, p, v, hblk, rfl, hp, hv, rfl⟩, rfl, ?_⟩
    simpa using hhas

theorem certifyAt_inv {st : State} {ctx : BlockCtx} {pool : Pool} (h addr sk : Nat) (hcs : Consistent st ctx)
    (hkey : ∀ h p v, getParams st.params h = some p → findValidator p.validators addr = some v → v.key = sk)
    (hi : PoolInv ctx st.chainId pool) : PoolInv ctx st.chainId (certifyAt st pool h addr sk).1 := by
  rcases certifyAt_spec st pool h addr sk with h1 | ⟨c, h1, hc, _, hn⟩
  · rw [h1]; exact hi
  · rw [h1]; exact poolInv_add hi ((hc.verified hkey).entryOk hcs) hn

theorem certifyAt_mem (st : State) (pool : Pool) (h addr sk : Nat) :
    ∀ c ∈ (certifyAt st pool h addr sk).1.all, c ∈ pool.all ∨ (CertEntry st addr sk c ∧ c.height = h) := by
  intro c hc
  rcases certifyAt_spec st pool h addr sk with h1 | ⟨c', h1, hc', hh, hn⟩
  · rw [h1] at hc; exact Or.inl hc
  · rw [h1, pool_add_all hn] at hc
    rcases List.mem_append.mp hc with hc | hc
    · exact Or.inl hc
    · rw [List.mem_singleton.mp hc]; exact Or.inr ⟨hc', hh⟩

theorem certifyLoop_cons (st : State) (addr sk : Nat) (pool : Pool) (i : Nat) (r : List Nat) :
    (certifyLoop st addr sk pool (i :: r)).1 =
      (certifyLoop st addr sk
        (if existParams st.params (i + 1) then certifyAt st pool i addr sk else (pool, true)).1 r).1 := by
  rw [certifyLoop]

theorem certifyLoop_inv {st : State} {ctx : BlockCtx} (addr sk : Nat) (hcs : Consistent st ctx)
    (hkey : ∀ h p v, getParams st.params h = some p → findValidator p.validators addr = some v → v.key = sk)
    (hs : List Nat) :
    ∀ pool, PoolInv ctx st.chainId pool → PoolInv ctx st.chainId (certifyLoop st addr sk pool hs).1 := by
  induction hs with
  | nil => intro pool hi; exact hi
  | cons i r ih =>
    intro pool hi
    rw [certifyLoop_cons]
    apply ih
    split
    · exact certifyAt_inv i addr sk hcs hkey hi
    · exact hi

theorem certifyLoop_mem (st : State) (addr sk : Nat) (hs : List Nat) :
    ∀ pool, ∀ c ∈ (certifyLoop st addr sk pool hs).1.all,
      c ∈ pool.all ∨ (CertEntry st addr sk c ∧ c.height ∈ hs ∧ existParams st.params (c.height + 1) = true) := by
  induction hs with
  | nil => intro pool c hc; exact Or.inl hc
  | cons i r ih =>
    intro pool c hc
    rw [certifyLoop_cons] at hc
    rcases ih _ c hc with h1 | ⟨h1, h2, h3⟩
    · split at h1
      · rename_i hex
        rcases certifyAt_mem st pool i addr sk c h1 with h4 | ⟨h4, h5⟩
        · exact Or.inl h4
        · exact Or.inr ⟨h4, by rw [h5]; exact List.mem_cons_self, by rw [h5]; exact hex⟩
      · exact Or.inl h1
    · exact Or.inr ⟨h1, List.mem_cons_of_mem _ h2, h3⟩

/-- the pool returned by `certify` -/
theorem certify_pool (st : State) (pool : Pool) (frm to addr sk : Nat) :
    (certify st pool frm to addr sk).1 = pool ∨
    (frm ≤ to ∧
      ((certify st pool frm to addr sk).1 =
          (certifyLoop st addr sk pool (List.range' (frm + 1) (to - frm))).1 ∨
       (existParams st.params (to + 1) = false ∧
        (certify st pool frm to addr sk).1 =
          (certifyAt st (certifyLoop st addr sk pool (List.range' (frm + 1) (to - frm))).1 to addr sk).1))) := by
  unfold certify
  split
  · exact Or.inl rfl
  rename_i hle
  refine Or.inr ⟨by omega, ?_⟩
  simp only
  split
  · exact Or.inl rfl
  split
  · exact Or.inl rfl
  · rename_i hex
    exact Or.inr ⟨by simpa using hex, rfl⟩

/-! ## pool operations -/

theorem cleanup_sublist (pool : Pool) (keep : Nat → Bool) : (pool.cleanup keep).all.Sublist pool.all := by
  simp only [Pool.cleanup, Pool.all]
  exact List.Sublist.append List.filter_sublist List.filter_sublist

theorem select_pool (pool : Pool) (mhpc limit : Nat) :
    (pool.select mhpc limit).1 = ⟨isort heightLe pool.nonGossiped, pool.gossiped⟩ ∨
    (pool.select mhpc limit).1 = ⟨isort heightLe pool.nonGossiped, isort heightLe pool.gossiped⟩ := by
  unfold Pool.select
  generalize (if mhpc > commitRangeStored then mhpc - commitRangeStored else 0) = mx
  simp only
  split
  · exact Or.inl rfl
  split
  · exact Or.inr rfl
  split
  · exact Or.inr rfl
  split
  · exact Or.inr rfl
  · exact Or.inr rfl

theorem select_perm (pool : Pool) (mhpc limit : Nat) : pool.all.Perm (pool.select mhpc limit).1.all := by
  rcases select_pool pool mhpc limit with h | h <;> rw [h] <;> simp only [Pool.all]
  · exact List.Perm.append (List.Perm.refl _) (isort_perm _ _).symm
  · exact List.Perm.append (isort_perm _ _).symm (isort_perm _ _).symm

theorem upgrade_perm (pool : Pool) (sel : List Commit) : pool.all.Perm (pool.upgrade sel).all := by
  simp only [Pool.upgrade, Pool.all, List.append_assoc]
  exact List.Perm.append (List.Perm.refl _) (List.filter_append_perm _ _).symm

/-! ## bitmaps -/

theorem scanBits_in_range (bits : Bits) (keys : List Nat) :
    ∀ (weights : List Nat) (i : Nat), keys.length ≤ weights.length → i + keys.length ≤ bits.length →
      scanBits bits i keys weights = some (selectedKW keys weights (bits.drop i)) := by
  induction keys with
  | nil =>
    intro weights i _ _
    cases weights <;> simp [scanBits, selectedKW]
  | cons k ks ih =>
    intro weights i hw hb
    cases weights with
    | nil => simp at hw
    | cons w ws =>
      simp only [List.length_cons] at hw hb
      have hi : i < bits.length := by omega
      rw [scanBits, ih ws (i + 1) (by omega) (by omega)]
      simp only [readBit, List.getElem?_eq_getElem hi]
      rw [List.drop_eq_getElem_cons hi, selectedKW]

theorem scanBits_short (bits : Bits) (keys : List Nat) :
    ∀ (weights : List Nat) (i : Nat), i ≤ bits.length → bits.length < i + keys.length →
      scanBits bits i keys weights = none := by
  induction keys with
  | nil => intro weights i h1 h; simp at h; omega
  | cons k ks ih =>
    intro weights i _ hb
    cases weights with
    | nil => rw [scanBits]
    | cons w ws =>
      simp only [List.length_cons] at hb
      rw [scanBits]
      cases hr : readBit bits i with
      | none => rfl
      | some b =>
        have hi : i < bits.length := by
          simp only [readBit] at hr
          exact (List.getElem?_eq_some_iff.mp hr).1
        rw [ih ws (i + 1) (by omega) (by omega)]

theorem le_byteLen (n : Nat) : n ≤ 8 * byteLen n := by
  unfold byteLen; omega

theorem byte_roundtrip : ∀ b0 b1 b2 b3 b4 b5 b6 b7 : Bool,
    bitsOfByte (byteOfBits [b0, b1, b2, b3, b4, b5, b6, b7]) = [b0, b1, b2, b3, b4, b5, b6, b7] := by
  decide

theorem bitsOfByte_length (b : UInt8) : (bitsOfByte b).length = 8 := by
  simp [bitsOfByte]

theorem ofBytes_cons (x : UInt8) (r : Bytes) : Bits.ofBytes (x :: r) = bitsOfByte x ++ Bits.ofBytes r := by
  simp [Bits.ofBytes]

theorem bits_roundtrip_aux (n : Nat) : ∀ b : Bits, b.length = 8 * n → Bits.ofBytes (Bits.toBytes b) = b := by
  induction n with
  | zero =>
    intro b hb
    have : b = [] := List.length_eq_zero_iff.mp (by omega)
    subst this
    rfl
  | succ n ih =>
    intro b hb
    rcases b with _ | ⟨b0, _ | ⟨b1, _ | ⟨b2, _ | ⟨b3, _ | ⟨b4, _ | ⟨b5, _ | ⟨b6, _ | ⟨b7, r⟩⟩⟩⟩⟩⟩⟩⟩ <;>
      simp only [List.length_cons, List.length_nil] at hb <;> try omega
    rw [Bits.toBytes, ofBytes_cons, byte_roundtrip, ih r (by omega)]
    rfl

end LiskVerif.Cert
