/-
Round trip of nested messages of arbitrary depth for the codec model.

* `typedValDeep` / `typedWith`: the typing of a value tree against a field list, following the
  schema table through nested structs (`.msg`) and arrays of structs (`.msgArr`) down to a depth `d`;
* `TableWF`: the decidable well-formedness of a table (ranked as in `CodecTotal`, field numbers
  strictly increasing, Encode / Decode / DecodeStrict agreeing on numbers and kinds);
* `FieldsRT`: "a reader positioned before exactly the encoding of `vs` reads `vs` back, for every
  sufficiently large fuel", proved for every well-typed value tree over a well-formed table
  (`fieldsRT_deep`), and from there for `decode` / `decodeStrict` with their own fuel
  (`decode_roundtrip_deep`), using the no-panic and fuel-monotonicity results of `CodecTotal`.
-/
import LiskVerif.Lemmas.CodecMsg
import LiskVerif.Lemmas.CodecTotal

namespace LiskVerif.Codec

/-! ### typing of value trees -/

/-- a value list against a field list, `p` typing the single values (same length required) -/
def typedWith (p : Kind → Value → Bool) : List Field → List Value → Bool
  | [], [] => true
  | f :: fs, v :: vs => p f.kind v && typedWith p fs vs
  | _, _ => false

/-- One value has the Go type of a field of kind `k`, following the table to depth `d`:
scalars / byte strings / arrays of those as in `typedVal`; a nested struct must be a non-nil pointer
(`present = true`) whose fields are typed (depth `d - 1`) for the named struct of the table; an array
of structs likewise for every element. -/
def typedValDeep (t : Table) (nfc : NFC) : Nat → Kind → Value → Bool
  | 0, k, v => typedVal nfc k v
  | d + 1, .msg name, .msg true vals =>
    (match t.find name with
     | some s => typedWith (typedValDeep t nfc d) s.enc vals
     | none => false)
  | d + 1, .msgArr name, .msgArr l =>
    (match t.find name with
     | some s => l.all (typedWith (typedValDeep t nfc d) s.enc)
     | none => false)
  | _ + 1, k, v => typedVal nfc k v

theorem typedWith_congr (p : Kind → Value → Bool) : ∀ (fs fs' : List Field) (vs : List Value),
    fs.map fieldShape = fs'.map fieldShape → typedWith p fs vs = typedWith p fs' vs := by
  intro fs
  induction fs with
  | nil => intro fs' vs h; cases fs' <;> simp_all
  | cons f fs ih =>
    intro fs' vs h
    cases fs' with
    | nil => simp at h
    | cons g fs' =>
      simp only [List.map_cons, List.cons.injEq, fieldShape, Prod.mk.injEq] at h
      obtain ⟨⟨_, hk⟩, ht⟩ := h
      cases vs with
      | nil => rfl
      | cons v vs => simp only [typedWith, hk, ih fs' vs ht]

theorem forall₂_of_typedWith (p : Kind → Value → Bool) (Q : Field → Prop) :
    ∀ (fs : List Field) (vs : List Value), (∀ f ∈ fs, Q f) → typedWith p fs vs = true →
    List.Forall₂ (fun f v => Q f ∧ p f.kind v = true) fs vs := by
  intro fs
  induction fs with
  | nil => intro vs _ h; cases vs with
    | nil => exact .nil
    | cons v vs => simp [typedWith] at h
  | cons f fs ih =>
    intro vs hf h
    cases vs with
    | nil => simp [typedWith] at h
    | cons v vs =>
      simp only [typedWith, Bool.and_eq_true] at h
      exact .cons ⟨hf f (by simp), h.1⟩ (ih vs (fun g hg => hf g (by simp [hg])) h.2)

theorem forall₂_imp {α β : Type} {P Q : α → β → Prop} (hPQ : ∀ a b, P a b → Q a b) :
    ∀ {l : List α} {l' : List β}, List.Forall₂ P l l' → List.Forall₂ Q l l' := by
  intro l l' h
  induction h with
  | nil => exact .nil
  | cons h1 _ ih => exact .cons (hPQ _ _ h1) ih

/-- at every depth, a flat kind is typed as in `typedVal` -/
theorem typedValDeep_flat (t : Table) (nfc : NFC) (d : Nat) (k : Kind) (v : Value)
    (hk : flatKind k = true) : typedValDeep t nfc d k v = typedVal nfc k v := by
  cases d with
  | zero => rfl
  | succ d => cases k <;> first | rfl | simp [flatKind] at hk

theorem typedVal_flat {nfc : NFC} {k : Kind} {v : Value} (h : typedVal nfc k v = true) :
    flatKind k = true := by
  cases k <;> cases v <;> first | rfl | simp [typedVal] at h

/-- what a deep-typed value looks like -/
theorem typedValDeep_cases (t : Table) (nfc : NFC) (d : Nat) (k : Kind) (v : Value)
    (h : typedValDeep t nfc d k v = true) :
    (flatKind k = true ∧ typedVal nfc k v = true) ∨
    (∃ d' name s vals, d = d' + 1 ∧ k = .msg name ∧ v = .msg true vals ∧ t.find name = some s ∧
      typedWith (typedValDeep t nfc d') s.enc vals = true) ∨
    (∃ d' name s l, d = d' + 1 ∧ k = .msgArr name ∧ v = .msgArr l ∧ t.find name = some s ∧
      ∀ vals ∈ l, typedWith (typedValDeep t nfc d') s.enc vals = true) := by
  cases d with
  | zero => exact Or.inl ⟨typedVal_flat h, h⟩
  | succ d =>
    cases k with
    | msg name =>
      cases v with
      | msg present vals =>
        cases present with
        | false => simp [typedValDeep, typedVal] at h
        | true =>
          simp only [typedValDeep] at h
          cases hf : t.find name with
          | none => rw [hf] at h; simp at h
          | some s =>
            rw [hf] at h
            exact Or.inr (Or.inl ⟨d, name, s, vals, rfl, rfl, rfl, hf, h⟩)
      | _ => simp [typedValDeep, typedVal] at h
    | msgArr name =>
      cases v with
      | msgArr l =>
        simp only [typedValDeep] at h
        cases hf : t.find name with
        | none => rw [hf] at h; simp at h
        | some s =>
          rw [hf] at h
          exact Or.inr (Or.inr ⟨d, name, s, l, rfl, rfl, rfl, hf,
            fun vals hv => List.all_eq_true.mp h vals hv⟩)
      | _ => simp [typedValDeep, typedVal] at h
    | unknown src => cases v <;> simp [typedValDeep, typedVal] at h
    | _ =>
      refine Or.inl ⟨rfl, ?_⟩
      simpa [typedValDeep] using h

/-! ### well-formed tables -/

/-- field numbers strictly increasing from 1 and small enough for a 64-bit key; Encode, Decode and
DecodeStrict agree on numbers and kinds -/
def schemaShapeOK (s : Schema) : Bool :=
  fieldsAbove 0 s.enc && s.enc.all (fun f => decide (f.num * 8 + 2 < 2 ^ 64)) &&
  decide (s.enc.map fieldShape = s.dec.map fieldShape) &&
  decide (s.enc.map fieldShape = s.decStrict.map fieldShape)

/-- the table is ranked (`CodecTotal.Ranked`: no recursion between structs, nesting depth ≤ 8,
≤ 40 fields, no dangling names, no unknown kinds) and every struct has the shape `schemaShapeOK` -/
def TableWF (t : Table) (rank : String → Nat) : Bool := Ranked t rank && t.all schemaShapeOK

theorem numsOK_congr : ∀ (fs fs' : List Field), fs.map fieldShape = fs'.map fieldShape →
    (∀ f ∈ fs, f.num * 8 + 2 < 2 ^ 64) → ∀ f ∈ fs', f.num * 8 + 2 < 2 ^ 64 := by
  intro fs
  induction fs with
  | nil => intro fs' h _ f hf; cases fs' <;> simp_all
  | cons g fs ih =>
    intro fs' h hb f hf
    cases fs' with
    | nil => simp at hf
    | cons g' fs' =>
      simp only [List.map_cons, List.cons.injEq, fieldShape, Prod.mk.injEq] at h
      obtain ⟨⟨hn, _⟩, ht⟩ := h
      rcases List.mem_cons.mp hf with rfl | hf
      · rw [← hn]; exact hb g (by simp)
      · exact ih fs' ht (fun x hx => hb x (by simp [hx])) f hf

theorem schemaShapeOK_unpack {s : Schema} (h : schemaShapeOK s = true) :
    fieldsAbove 0 s.enc = true ∧ (∀ f ∈ s.enc, f.num * 8 + 2 < 2 ^ 64) ∧
    s.enc.map fieldShape = s.dec.map fieldShape ∧ s.enc.map fieldShape = s.decStrict.map fieldShape ∧
    fieldsAbove 0 s.dec = true ∧ (∀ f ∈ s.dec, f.num * 8 + 2 < 2 ^ 64) ∧
    fieldsAbove 0 s.decStrict = true ∧ (∀ f ∈ s.decStrict, f.num * 8 + 2 < 2 ^ 64) := by
  simp only [schemaShapeOK, Bool.and_eq_true, decide_eq_true_eq, List.all_eq_true] at h
  obtain ⟨⟨⟨h1, h2⟩, h3⟩, h4⟩ := h
  refine ⟨h1, h2, h3, h4, ?_, numsOK_congr _ _ h3 h2, ?_, numsOK_congr _ _ h4 h2⟩
  · rw [← fieldsAbove_congr _ _ 0 h3]; exact h1
  · rw [← fieldsAbove_congr _ _ 0 h4]; exact h1

theorem tableWF_ranked {t : Table} {rank : String → Nat} (h : TableWF t rank = true) :
    Ranked t rank = true := by
  simp only [TableWF, Bool.and_eq_true] at h; exact h.1

theorem tableWF_mem {t : Table} {rank : String → Nat} (h : TableWF t rank = true) {s : Schema}
    (hs : s ∈ t) : schemaShapeOK s = true := by
  simp only [TableWF, Bool.and_eq_true] at h
  exact List.all_eq_true.mp h.2 s hs

theorem find_mem {t : Table} {name : String} {s : Schema} (h : t.find name = some s) : s ∈ t := by
  unfold Table.find at h
  exact List.mem_of_find?_eq_some h

/-! ### "reads back what was written", for every sufficiently large fuel -/

/-- one field: a reader before `encField f v ++ tail` (with `tail` empty or starting with the key of
a later field) reads `v` and stops before `tail` -/
def FieldRT (t : Table) (nfc : NFC) (ef : Nat) (f : Field) (v : Value) : Prop :=
  ∀ (r : Reader) (tail : Bytes), r.data.length < 2 ^ 63 → TailOK f.num tail →
    r.Holds (encField t nfc ef f v ++ tail) →
    ∃ F, ∀ fuel, F ≤ fuel →
      decodeField t nfc fuel f r = .ok (v, r.adv (encField t nfc ef f v).length)

/-- a field list: a reader holding exactly `encodeFields fs vs` reads `vs` and reaches its end -/
def FieldsRT (t : Table) (nfc : NFC) (ef : Nat) (fs : List Field) (vs : List Value) : Prop :=
  ∀ (r : Reader), r.data.length < 2 ^ 63 → r.Holds (encodeFields t nfc ef fs vs) →
    ∃ F, ∀ fuel, F ≤ fuel →
      decodeFields t nfc fuel fs r = .ok (vs, r.adv (encodeFields t nfc ef fs vs).length)

theorem fieldsRT_of_forall₂ (t : Table) (nfc : NFC) (ef : Nat) :
    ∀ (fs : List Field) (vs : List Value) (lo : Nat), fieldsAbove lo fs = true →
    (∀ f ∈ fs, f.num * 8 + 2 < 2 ^ 64) → List.Forall₂ (FieldRT t nfc ef) fs vs →
    FieldsRT t nfc ef fs vs := by
  intro fs
  induction fs with
  | nil =>
    intro vs lo _ _ hv r _ _
    cases hv
    refine ⟨0, fun fuel _ => ?_⟩
    rw [encodeFields_nil_left]
    unfold decodeFields
    rfl
  | cons f fs ih =>
    intro vs lo hs hb hv r hd h
    cases hv with
    | cons hfv hrest =>
      rename_i v vs
      simp only [fieldsAbove, Bool.and_eq_true, decide_eq_true_eq] at hs
      rw [encodeFields_cons] at h ⊢
      have ht := tailOK_encodeFields t nfc ef fs vs f.num hs.2 (fun g hg => hb g (by simp [hg]))
      obtain ⟨F1, h1⟩ := hfv r _ hd ht h
      obtain ⟨F2, h2⟩ := ih vs f.num hs.2 (fun g hg => hb g (by simp [hg])) hrest
        (r.adv (encField t nfc ef f v).length) (by simpa using hd) h.adv
      refine ⟨max F1 F2 + 1, fun fuel hf => ?_⟩
      obtain ⟨fuel, rfl⟩ : ∃ x, fuel = x + 1 := ⟨fuel - 1, by omega⟩
      simp only [decodeFields]
      rw [h1 fuel (by omega)]
      simp only
      rw [h2 fuel (by omega)]
      simp [Reader.adv_adv]

/-- flat kinds: `decodeField_put` -/
theorem fieldRT_flat (t : Table) (nfc : NFC) (ef : Nat) (f : Field) (v : Value)
    (hk : flatKind f.kind = true) (hnum : f.num * 8 + 2 < 2 ^ 64)
    (hty : typedVal nfc f.kind v = true) : FieldRT t nfc ef f v := by
  intro r tail hd ht h
  refine ⟨1, fun fuel hf => ?_⟩
  obtain ⟨fuel, rfl⟩ : ∃ x, fuel = x + 1 := ⟨fuel - 1, by omega⟩
  exact decodeField_put t nfc ef fuel f v r tail hk hnum hty (fun _ => hd) ht h

/-- the tail of `ReadDecodable`: size prefix, then the nested struct read by a reader that holds
exactly the body -/
theorem decodeNested_put (t : Table) (nfc : NFC) (name : String) (s : Schema) (vals : List Value)
    (body tail : Bytes) (r1 : Reader) (hfind : t.find name = some s) (hd : r1.data.length < 2 ^ 63)
    (h : r1.Holds (writeBytes body ++ tail))
    (hdec : ∀ rn : Reader, rn.data = r1.data → rn.Holds body →
      ∃ F, ∀ fuel, F ≤ fuel → decodeFields t nfc fuel s.dec rn = .ok (vals, rn.adv body.length)) :
    ∃ F, ∀ fuel, F ≤ fuel →
      decodeNested t nfc fuel name r1 = .ok (.msg true vals, r1.adv (writeBytes body).length) := by
  unfold writeBytes at h ⊢
  rw [List.append_assoc] at h
  have hbl : body.length < 2 ^ 63 := by
    have := h.length_le
    simp only [List.length_append] at this
    omega
  have h2 := h.adv
  have hidx : r1.index + (putUvarint body.length).length + body.length ≤ r1.data.length := by
    by_cases hb : body = []
    · subst hb
      have := h.index_le (by
        intro hc
        have := congrArg List.length hc
        have := putUvarint_length_pos ([] : Bytes).length
        simp only [List.length_append, List.length_nil] at *
        omega)
      simp only [List.length_append, List.length_nil] at this ⊢
      omega
    · have := h2.index_le (by simp [hb])
      simp only [Reader.adv_data, Reader.adv_index, List.length_append] at this
      omega
  have hn : Reader.Holds
      { data := r1.data, index := r1.index + (putUvarint body.length).length,
        stop := ((r1.index + (putUvarint body.length).length : Nat) : Int) + (body.length : Int) }
      body := by
    obtain ⟨junk, hsuf, _⟩ := h2
    exact ⟨tail ++ junk, by simpa [Reader.suffix, List.append_assoc] using hsuf, rfl⟩
  obtain ⟨F, hF⟩ := hdec
    { data := r1.data, index := r1.index + (putUvarint body.length).length,
      stop := ((r1.index + (putUvarint body.length).length : Nat) : Int) + (body.length : Int) }
    rfl hn
  refine ⟨F + 1, fun fuel hf => ?_⟩
  obtain ⟨fuel, rfl⟩ : ∃ x, fuel = x + 1 := ⟨fuel - 1, by omega⟩
  simp only [decodeNested]
  rw [Reader.readUInt_put (by omega) h]
  simp only [hfind]
  have hnl : ¬ (body.length ≥ 2 ^ 63) := by omega
  simp only [hnl, if_false, Reader.adv_index]
  rw [wrapInt64_id _ (by omega) (by push_cast; omega)]
  have hdec' := hF fuel (by omega)
  simp only [Reader.adv] at hdec' ⊢
  push_cast at hdec' ⊢
  rw [hdec']
  simp [Nat.add_assoc]

/-- the bytes `encodeFields` writes for an array of structs -/
def encMsgArr (t : Table) (nfc : NFC) (ef : Nat) (num : Nat) (fs : List Field)
    (l : List (List Value)) : Bytes :=
  (l.map fun vals => writeKey 2 num ++ writeBytes (encodeFields t nfc ef fs vals)).flatten

theorem encField_msg (t : Table) (nfc : NFC) (ef : Nat) (num : Nat) (name : String) (st : Bool)
    (s : Schema) (vals : List Value) (hfind : t.find name = some s)
    (hshape : s.enc.map fieldShape = s.dec.map fieldShape) :
    encField t nfc (ef + 1) ⟨num, .msg name, st⟩ (.msg true vals) =
      writeKey 2 num ++ writeBytes (encodeFields t nfc ef s.dec vals) := by
  simp only [encField, hfind, Bool.not_true, Bool.false_eq_true, if_false]
  rw [encodeFields_congr t nfc ef s.enc s.dec vals hshape]

theorem encField_msgArr (t : Table) (nfc : NFC) (ef : Nat) (num : Nat) (name : String) (st : Bool)
    (s : Schema) (l : List (List Value)) (hfind : t.find name = some s)
    (hshape : s.enc.map fieldShape = s.dec.map fieldShape) :
    encField t nfc (ef + 1) ⟨num, .msgArr name, st⟩ (.msgArr l) = encMsgArr t nfc ef num s.dec l := by
  simp only [encField, hfind, encMsgArr]
  congr 1
  apply List.map_congr_left
  intro vals _
  rw [encodeFields_congr t nfc ef s.enc s.dec vals hshape]

/-- a present nested struct (`ReadDecodable`) -/
theorem fieldRT_msg (t : Table) (nfc : NFC) (ef : Nat) (f : Field) (name : String) (s : Schema)
    (vals : List Value) (hk : f.kind = .msg name) (hfind : t.find name = some s)
    (hnum : f.num * 8 + 2 < 2 ^ 64) (hshape : s.enc.map fieldShape = s.dec.map fieldShape)
    (hrt : FieldsRT t nfc ef s.dec vals) : FieldRT t nfc (ef + 1) f (.msg true vals) := by
  obtain ⟨num, kind, st⟩ := f
  simp only at hk hnum
  subst hk
  intro r tail hd ht h
  rw [encField_msg t nfc ef num name st s vals hfind hshape] at h ⊢
  simp only [List.append_assoc] at h
  obtain ⟨F, hF⟩ := decodeNested_put t nfc name s vals (encodeFields t nfc ef s.dec vals) tail
    (r.adv (writeKey 2 num).length) hfind (by simpa using hd) h.adv
    (fun rn hdata hrn => hrt rn (by rw [hdata]; simpa using hd) hrn)
  refine ⟨F + 1, fun fuel hf => ?_⟩
  obtain ⟨fuel, rfl⟩ : ∃ x, fuel = x + 1 := ⟨fuel - 1, by omega⟩
  simp only [decodeField]
  rw [Reader.enter_key st (Or.inr rfl) hnum h]
  simp only
  rw [hF fuel (by omega)]
  simp [Reader.adv_adv]

/-- `ReadDecodables`: every element is read back, the loop stops before `tail` -/
theorem decodeMsgArr_put (t : Table) (nfc : NFC) (ef : Nat) (name : String) (s : Schema) (num : Nat)
    (hfind : t.find name = some s) (hnum : num * 8 + 2 < 2 ^ 64) :
    ∀ (l : List (List Value)) (r : Reader) (acc : List (List Value)) (tail : Bytes),
    (∀ vals ∈ l, FieldsRT t nfc ef s.dec vals) → r.data.length < 2 ^ 63 → TailOK num tail →
    r.Holds (encMsgArr t nfc ef num s.dec l ++ tail) →
    ∃ F, ∀ fuel, F ≤ fuel →
      decodeMsgArr t nfc fuel name num r acc =
        .ok (acc ++ l, r.adv (encMsgArr t nfc ef num s.dec l).length) := by
  intro l
  induction l with
  | nil =>
    intro r acc tail _ _ ht h
    refine ⟨1, fun fuel hf => ?_⟩
    obtain ⟨fuel, rfl⟩ : ∃ x, fuel = x + 1 := ⟨fuel - 1, by omega⟩
    simp only [encMsgArr, List.map_nil, List.flatten_nil, List.nil_append, List.length_nil] at h ⊢
    unfold decodeMsgArr
    rw [Reader.enterArr_tail ht h]
    simp [Reader.adv_zero]
  | cons vals l ih =>
    intro r acc tail hrt hd ht h
    have e : encMsgArr t nfc ef num s.dec (vals :: l) =
        writeKey 2 num ++ (writeBytes (encodeFields t nfc ef s.dec vals) ++ encMsgArr t nfc ef num s.dec l) := by
      simp [encMsgArr]
    rw [e] at h ⊢
    simp only [List.append_assoc] at h
    have hlt := h.lt_stop (by simp [writeKey_ne_nil])
    obtain ⟨F1, hF1⟩ := decodeNested_put t nfc name s vals (encodeFields t nfc ef s.dec vals)
      (encMsgArr t nfc ef num s.dec l ++ tail)
      (r.adv (writeKey 2 num).length) hfind (by simpa using hd) h.adv
      (fun rn hdata hrn => hrt vals (by simp) rn (by rw [hdata]; simpa using hd) hrn)
    obtain ⟨F2, hF2⟩ := ih ((r.adv (writeKey 2 num).length).adv
        (writeBytes (encodeFields t nfc ef s.dec vals)).length) (acc ++ [vals]) tail
      (fun x hx => hrt x (by simp [hx])) (by simpa using hd) ht h.adv.adv
    refine ⟨max F1 F2 + 1, fun fuel hf => ?_⟩
    obtain ⟨fuel, rfl⟩ : ∃ x, fuel = x + 1 := ⟨fuel - 1, by omega⟩
    unfold decodeMsgArr
    simp only [hlt, if_true]
    rw [Reader.enterArr_key (Or.inr rfl) hnum h]
    simp only
    rw [hF1 fuel (by omega)]
    simp only
    rw [hF2 fuel (by omega)]
    simp [Reader.adv_adv, Nat.add_assoc]

/-- an array of structs -/
theorem fieldRT_msgArr (t : Table) (nfc : NFC) (ef : Nat) (f : Field) (name : String) (s : Schema)
    (l : List (List Value)) (hk : f.kind = .msgArr name) (hfind : t.find name = some s)
    (hnum : f.num * 8 + 2 < 2 ^ 64) (hshape : s.enc.map fieldShape = s.dec.map fieldShape)
    (hrt : ∀ vals ∈ l, FieldsRT t nfc ef s.dec vals) : FieldRT t nfc (ef + 1) f (.msgArr l) := by
  obtain ⟨num, kind, st⟩ := f
  simp only at hk hnum
  subst hk
  intro r tail hd ht h
  rw [encField_msgArr t nfc ef num name st s l hfind hshape] at h ⊢
  obtain ⟨F, hF⟩ := decodeMsgArr_put t nfc ef name s num hfind hnum l r [] tail hrt hd ht h
  refine ⟨F + 1, fun fuel hf => ?_⟩
  obtain ⟨fuel, rfl⟩ : ∃ x, fuel = x + 1 := ⟨fuel - 1, by omega⟩
  simp only [decodeField]
  rw [hF fuel (by omega)]
  simp

/-! ### every well-typed value tree over a well-formed table -/

theorem fieldsRT_deep (t : Table) (rank : String → Nat) (nfc : NFC) (hwf : TableWF t rank = true) :
    ∀ (d k ef : Nat) (fs : List Field) (vs : List Value), fieldsOK t rank k fs = true → k ≤ ef →
    fieldsAbove 0 fs = true → (∀ f ∈ fs, f.num * 8 + 2 < 2 ^ 64) →
    typedWith (typedValDeep t nfc d) fs vs = true → FieldsRT t nfc ef fs vs := by
  have hR := tableWF_ranked hwf
  intro d
  induction d with
  | zero =>
    intro k ef fs vs _ _ hs hb hv
    refine fieldsRT_of_forall₂ t nfc ef fs vs 0 hs hb ?_
    refine forall₂_imp ?_ (forall₂_of_typedWith _ (fun f => f.num * 8 + 2 < 2 ^ 64) fs vs hb hv)
    intro f v ⟨hnum, hty⟩
    exact fieldRT_flat t nfc ef f v (typedVal_flat hty) hnum hty
  | succ d ih =>
    intro k ef fs vs hok hk hs hb hv
    refine fieldsRT_of_forall₂ t nfc ef fs vs 0 hs hb ?_
    have hall := forall₂_of_typedWith (typedValDeep t nfc (d + 1))
      (fun f => f.num * 8 + 2 < 2 ^ 64 ∧ kindOK t rank k f.kind = true) fs vs
      (fun f hf => ⟨hb f hf, List.all_eq_true.mp hok f hf⟩) hv
    refine forall₂_imp ?_ hall
    intro f v ⟨⟨hnum, hkind⟩, hty⟩
    rcases typedValDeep_cases t nfc (d + 1) f.kind v hty with ⟨hfl, htv⟩ |
      ⟨d', name, s, vals, hd', hkd, rfl, hfind, hvals⟩ | ⟨d', name, s, l, hd', hkd, rfl, hfind, hvals⟩
    · exact fieldRT_flat t nfc ef f v hfl hnum htv
    · have hd'' : d' = d := by omega
      subst hd''
      rw [hkd] at hkind
      simp only [kindOK, Bool.and_eq_true, decide_eq_true_eq] at hkind
      obtain ⟨ef', rfl⟩ : ∃ x, ef = x + 1 := ⟨ef - 1, by omega⟩
      obtain ⟨hsok, hname⟩ := ranked_find hR hfind
      obtain ⟨_, _, _, hdecok, _⟩ := schemaOK_dec hsok
      obtain ⟨_, _, h3, _, h5, h6, _, _⟩ := schemaShapeOK_unpack (tableWF_mem hwf (find_mem hfind))
      rw [hname] at hdecok
      refine fieldRT_msg t nfc ef' f name s vals hkd hfind hnum h3 ?_
      exact ih (rank name) ef' s.dec vals hdecok (by omega) h5 h6
        (by rw [← typedWith_congr _ _ _ vals h3]; exact hvals)
    · have hd'' : d' = d := by omega
      subst hd''
      rw [hkd] at hkind
      simp only [kindOK, Bool.and_eq_true, decide_eq_true_eq] at hkind
      obtain ⟨ef', rfl⟩ : ∃ x, ef = x + 1 := ⟨ef - 1, by omega⟩
      obtain ⟨hsok, hname⟩ := ranked_find hR hfind
      obtain ⟨_, _, _, hdecok, _⟩ := schemaOK_dec hsok
      obtain ⟨_, _, h3, _, h5, h6, _, _⟩ := schemaShapeOK_unpack (tableWF_mem hwf (find_mem hfind))
      rw [hname] at hdecok
      refine fieldRT_msgArr t nfc ef' f name s l hkd hfind hnum h3 ?_
      intro vals hmem
      exact ih (rank name) ef' s.dec vals hdecok (by omega) h5 h6
        (by rw [← typedWith_congr _ _ _ vals h3]; exact hvals vals hmem)

/-! ### `decode` / `decodeStrict` with their own fuel -/

/-- a result that holds for all large fuels holds for any fuel at which the decoder does not panic -/
theorem decodeFields_ok_of_eventually (t : Table) (nfc : NFC) (fs : List Field) (r : Reader)
    (x : List Value × Reader) (fuel : Nat) (hnp : decodeFields t nfc fuel fs r ≠ .error .panic)
    (hev : ∃ F, ∀ fuel', F ≤ fuel' → decodeFields t nfc fuel' fs r = .ok x) :
    decodeFields t nfc fuel fs r = .ok x := by
  obtain ⟨F, hF⟩ := hev
  rw [← decodeFields_fuel_mono t nfc fs r (Nat.le_max_right F fuel) hnp]
  exact hF _ (Nat.le_max_left F fuel)

/-- **Round trip, any nesting depth**: on a well-formed table, for every struct of the table and every
value tree that is well-typed to some depth `d`, `decode` and `decodeStrict` return the encoded
values. -/
theorem decode_roundtrip_deep (t : Table) (rank : String → Nat) (nfc : NFC)
    (hwf : TableWF t rank = true) (s : Schema) (hs : s ∈ t) (d : Nat) (vals : List Value)
    (hv : typedWith (typedValDeep t nfc d) s.enc vals = true)
    (hlen : (encode t nfc s vals).length < 2 ^ 63) :
    decode t nfc s (encode t nfc s vals) = .ok vals ∧
    decodeStrict t nfc s (encode t nfc s vals) = .ok vals := by
  have hR := tableWF_ranked hwf
  obtain ⟨hk, hdl, hsl, hdec, hstr⟩ := schemaOK_dec (ranked_mem hR hs)
  obtain ⟨_, _, h3, h4, h5, h6, h7, h8⟩ := schemaShapeOK_unpack (tableWF_mem hwf hs)
  constructor
  · unfold decode encode at *
    rw [encodeFields_congr t nfc 8 s.enc s.dec vals h3] at hlen ⊢
    have hrt := fieldsRT_deep t rank nfc hwf d (rank s.name) 8 s.dec vals hdec hk h5 h6
      (by rw [← typedWith_congr _ _ _ vals h3]; exact hv)
      (Reader.new _) hlen (Reader.Holds.new _)
    have hnp := (decodeFields_safe t nfc rank hR (rank s.name) s.dec
      (Reader.new (encodeFields t nfc 8 s.dec vals)) hdec _ (need_le_fuelFor _ hk hdl)).ne_panic
    rw [decodeFields_ok_of_eventually t nfc _ _ _ _ hnp hrt]
  · unfold decodeStrict encode at *
    rw [encodeFields_congr t nfc 8 s.enc s.decStrict vals h4] at hlen ⊢
    have hrt := fieldsRT_deep t rank nfc hwf d (rank s.name) 8 s.decStrict vals hstr hk h7 h8
      (by rw [← typedWith_congr _ _ _ vals h4]; exact hv)
      (Reader.new _) hlen (Reader.Holds.new _)
    have hnp := (decodeFields_safe t nfc rank hR (rank s.name) s.decStrict
      (Reader.new (encodeFields t nfc 8 s.decStrict vals)) hstr _ (need_le_fuelFor _ hk hsl)).ne_panic
    rw [decodeFields_ok_of_eventually t nfc _ _ _ _ hnp hrt]
    simp [Reader.new]

/-! ### a decidable equality test for values (for concrete evaluations by the kernel)

`Value` is a nested inductive type without derived `DecidableEq`; `Value.eqb` is a structurally
recursive Boolean equality whose soundness lets `decide +kernel` establish `decode … = .ok vals` for
concrete inputs. -/

mutual
def Value.eqb : Value → Value → Bool
  | .uint a, .uint b => decide (a = b)
  | .int a, .int b => decide (a = b)
  | .bool a, .bool b => decide (a = b)
  | .bytes a, .bytes b => decide (a = b)
  | .bytesArr a, .bytesArr b => decide (a = b)
  | .uints a, .uints b => decide (a = b)
  | .msg p l, .msg q l' => decide (p = q) && Value.eqbList l l'
  | .msgArr l, .msgArr l' => Value.eqbListList l l'
  | _, _ => false
def Value.eqbList : List Value → List Value → Bool
  | [], [] => true
  | a :: as, b :: bs => Value.eqb a b && Value.eqbList as bs
  | _, _ => false
def Value.eqbListList : List (List Value) → List (List Value) → Bool
  | [], [] => true
  | a :: as, b :: bs => Value.eqbList a b && Value.eqbListList as bs
  | _, _ => false
end

mutual
theorem Value.eqb_sound : ∀ (a b : Value), Value.eqb a b = true → a = b
  | .uint a, .uint b, h => by simp [Value.eqb] at h; rw [h]
  | .int a, .int b, h => by simp [Value.eqb] at h; rw [h]
  | .bool a, .bool b, h => by simp [Value.eqb] at h; rw [h]
  | .bytes a, .bytes b, h => by simp [Value.eqb] at h; rw [h]
  | .bytesArr a, .bytesArr b, h => by simp [Value.eqb] at h; rw [h]
  | .uints a, .uints b, h => by simp [Value.eqb] at h; rw [h]
  | .msg p l, .msg q l', h => by
    simp only [Value.eqb, Bool.and_eq_true, decide_eq_true_eq] at h
    rw [h.1, Value.eqbList_sound l l' h.2]
  | .msgArr l, .msgArr l', h => by
    simp only [Value.eqb] at h
    rw [Value.eqbListList_sound l l' h]
  | .uint _, .int _, h | .uint _, .bool _, h => by simp [Value.eqb] at h
theorem Value.eqbList_sound : ∀ (a b : List Value), Value.eqbList a b = true → a = b
  | [], [], _ => rfl
  | a :: as, b :: bs, h => by
    simp only [Value.eqbList, Bool.and_eq_true] at h
    rw [Value.eqb_sound a b h.1, Value.eqbList_sound as bs h.2]
  | [], _ :: _, h => by simp [Value.eqbList] at h
  | _ :: _, [], h => by simp [Value.eqbList] at h
theorem Value.eqbListList_sound : ∀ (a b : List (List Value)), Value.eqbListList a b = true → a = b
  | [], [], _ => rfl
  | a :: as, b :: bs, h => by
    simp only [Value.eqbListList, Bool.and_eq_true] at h
    rw [Value.eqbList_sound a b h.1, Value.eqbListList_sound as bs h.2]
  | [], _ :: _, h => by simp [Value.eqbListList] at h
  | _ :: _, [], h => by simp [Value.eqbListList] at h
end

/-- "the outcome is `.ok w`" as a Bool -/
def okEqb : Except Err (List Value) → List Value → Bool
  | .ok v, w => Value.eqbList v w
  | .error _, _ => false

theorem okEqb_sound {x : Except Err (List Value)} {w : List Value} (h : okEqb x w = true) :
    x = .ok w := by
  cases x with
  | error e => simp [okEqb] at h
  | ok v => rw [Value.eqbList_sound v w h]

/-- "the outcome is the error `e`" as a Bool -/
def errEqb : Except Err (List Value) → Err → Bool
  | .error e', e => decide (e' = e)
  | .ok _, _ => false

theorem errEqb_sound {x : Except Err (List Value)} {e : Err} (h : errEqb x e = true) :
    x = .error e := by
  cases x with
  | error e' => simp [errEqb] at h; rw [h]
  | ok v => simp [errEqb] at h

/-- `decodeStrict` / `decode` use only one field list of the schema -/
theorem decodeStrict_fields (t : Table) (nfc : NFC) (s : Schema) (b : Bytes) (fs : List Field)
    (h : s.decStrict = fs) :
    decodeStrict t nfc s b = decodeStrict t nfc { name := "", enc := [], dec := [], decStrict := fs } b := by
  unfold decodeStrict; rw [h]

theorem decode_fields (t : Table) (nfc : NFC) (s : Schema) (b : Bytes) (fs : List Field)
    (h : s.dec = fs) :
    decode t nfc s b = decode t nfc { name := "", enc := [], dec := fs, decStrict := [] } b := by
  unfold decode; rw [h]

/-! ### every decoded value is well-typed

The converse direction: whatever `decodeFields` returns (from ANY byte string shorter than 2^63) is a
well-typed value tree — provided no nil pointer can arise, i.e. no absent lenient `.msg` field whose
all-default struct itself contains a nested pointer (`nilFree`). Together with the round trip this
gives: re-encoding and re-decoding a decoded value returns the same value. -/

/-- what the model needs to know about `norm.NFC`: normal strings are fixed by normalisation and the
empty string is normal -/
structure NFCLaw (nfc : NFC) : Prop where
  fix : ∀ b, nfc.normal b = true → nfc.normalize b = b
  nil : nfc.normal [] = true

theorem asciiNFC_law : NFCLaw asciiNFC := ⟨fun _ _ => rfl, rfl⟩

/-- the all-default struct `name` (what `ReadDecodable` creates for an absent field) contains no
nested struct pointer — such a pointer would be nil -/
def defaultNoNil (t : Table) (name : String) : Bool :=
  match t.find name with
  | some s => s.dec.all fun g => match g.kind with | .msg _ => false | _ => true
  | none => false

def nilFreeField (t : Table) (rec : List Field → Bool) (f : Field) : Bool :=
  match f.kind with
  | .msg n =>
    (f.strict || defaultNoNil t n) &&
      (match t.find n with | some s => rec s.dec | none => false)
  | .msgArr n => (match t.find n with | some s => rec s.dec | none => false)
  | .unknown _ => false
  | _ => true

/-- no decode of this field list (followed to depth `d`) can produce a nil pointer: every `.msg`
field is strict (cannot be absent) or has an all-default struct without nested pointers, and the same
holds inside every nested struct (whose fields are always read leniently) -/
def nilFree (t : Table) : Nat → List Field → Bool
  | 0, fs => fs.all fun f => flatKind f.kind
  | d + 1, fs => fs.all (nilFreeField t (nilFree t d))

theorem Canon.length_le {r r' : Reader} {X : Bytes} (h : Canon r r' X) :
    X.length ≤ r.data.length := by
  have := congrArg List.length h.2
  rw [Reader.suffix_length, List.length_append] at this
  omega

theorem Reader.readBytes_len {r r' : Reader} {b : Bytes} (h : r.readBytes = .ok (b, r')) :
    b.length ≤ r.data.length := by
  have := (Reader.readBytes_canon h).1.length_le
  simp only [writeBytes, List.length_append] at this
  omega

theorem Reader.readString_valid {nfc : NFC} {r r' : Reader} {b : Bytes}
    (h : r.readString nfc = .ok (b, r')) :
    b.length ≤ r.data.length ∧ utf8Valid b = true ∧ nfc.normal b = true := by
  unfold Reader.readString at h
  split at h
  · exact absurd h (by simp)
  · rename_i b1 r1 heq
    split at h
    · exact absurd h (by simp)
    · rename_i hu
      split at h
      · exact absurd h (by simp)
      · rename_i hn
        injection h with h
        injection h with hv hr
        subst hv
        exact ⟨Reader.readBytes_len heq, by simpa using hu, by simpa using hn⟩

theorem Reader.enter_data {r r1 : Reader} {fn wt : Nat} {st : Bool}
    (h : r.enter fn wt st = .ok (some r1)) : r1.data.length = r.data.length :=
  (Safe.of_ok (r.enter_safe fn wt st) h r1 rfl).1

theorem Reader.enterArr_data {r r1 : Reader} {fn wt : Nat}
    (h : r.enterArr fn wt = .ok (some r1)) : r1.data.length = r.data.length :=
  (Safe.of_ok (r.enterArr_safe fn wt) h r1 rfl).1

theorem Reader.readUInt_data {r r' : Reader} {v : Nat} (h : r.readUInt = .ok (v, r')) :
    r'.data.length = r.data.length :=
  (Safe.of_ok r.readUInt_safe h).1

/-- a strict `enter` never reports "absent" -/
theorem Reader.enter_none_lenient {r : Reader} {fn wt : Nat} {st : Bool}
    (h : r.enter fn wt st = .ok none) : st = false := by
  cases st with
  | false => rfl
  | true =>
    obtain ⟨r1, e, _⟩ := Reader.enter_strict_canon h
    simp at e

theorem readPackedUInts_canon : ∀ (fuel : Nat) (r r' : Reader) (stop : Int) (acc l : List Nat),
    readPackedUInts fuel r stop acc = .ok (l, r') →
    ∃ l', l = acc ++ l' ∧ Canon r r' (encPacked l') ∧ ∀ n ∈ l', n < 2 ^ 64 := by
  intro fuel
  induction fuel with
  | zero => intro r r' stop acc l h; simp [readPackedUInts] at h
  | succ fuel ih =>
    intro r r' stop acc l h
    unfold readPackedUInts at h
    split at h
    · split at h
      · exact absurd h (by simp)
      · rename_i v r1 heq
        obtain ⟨l', hl, hc, hb⟩ := ih r1 r' stop (acc ++ [v]) l h
        obtain ⟨hc1, hv⟩ := Reader.readUInt_canon heq
        refine ⟨v :: l', by simp [hl], ?_, ?_⟩
        · have := hc1.trans hc
          simpa [encPacked] using this
        · intro n hn
          rcases List.mem_cons.mp hn with rfl | hn
          · exact hv
          · exact hb n hn
    · injection h with h
      injection h with h1 h2
      subst h1 h2
      exact ⟨[], by simp, Canon.refl r, by simp⟩

theorem mem_encBytesArr_length (num : Nat) : ∀ (l : List Bytes) (b : Bytes), b ∈ l →
    b.length ≤ (encBytesArr num l).length := by
  intro l
  induction l with
  | nil => intro b hb; simp at hb
  | cons a l ih =>
    intro b hb
    have e : encBytesArr num (a :: l) = writeKey 2 num ++ (writeBytes a ++ encBytesArr num l) := by
      simp [encBytesArr]
    rw [e]
    simp only [List.length_append, writeBytes]
    rcases List.mem_cons.mp hb with rfl | hb
    · omega
    · have := ih b hb
      omega

/-- a flat field: whatever is read has the Go type of the field -/
theorem decodeField_typed_flat (t : Table) (nfc : NFC) (hlaw : NFCLaw nfc) (fuel : Nat) (f : Field)
    (r r' : Reader) (v : Value) (hk : flatKind f.kind = true) (hd : r.data.length < 2 ^ 63)
    (h : decodeField t nfc fuel f r = .ok (v, r')) : typedVal nfc f.kind v = true := by
  cases fuel with
  | zero => simp [decodeField] at h
  | succ fuel =>
  obtain ⟨num, kind, st⟩ := f
  cases kind <;> simp only [flatKind] at hk <;> first | (exact absurd hk (by decide)) | skip
  all_goals simp only [decodeField] at h
  · -- uint
    split at h
    · exact absurd h (by simp)
    · injection h with h; injection h with hv _; subst hv; simp [typedVal]
    · split at h
      · exact absurd h (by simp)
      · rename_i x r2 hr
        injection h with h; injection h with hv _; subst hv
        simpa [typedVal] using (Reader.readUInt_canon hr).2
  · -- uint32
    split at h
    · exact absurd h (by simp)
    · injection h with h; injection h with hv _; subst hv; simp [typedVal]
    · split at h
      · exact absurd h (by simp)
      · rename_i x r2 hr
        injection h with h; injection h with hv _; subst hv
        simp only [typedVal, decide_eq_true_eq]
        omega
  · -- int32
    split at h
    · exact absurd h (by simp)
    · injection h with h; injection h with hv _; subst hv; simp [typedVal]
    · split at h
      · exact absurd h (by simp)
      · rename_i x r2 hr
        injection h with h; injection h with hv _; subst hv
        simp only [typedVal, decide_eq_true_eq]
        split <;> omega
  · -- bool
    split at h
    · exact absurd h (by simp)
    · injection h with h; injection h with hv _; subst hv; simp [typedVal]
    · split at h
      · exact absurd h (by simp)
      · injection h with h; injection h with hv _; subst hv; simp [typedVal]
  · -- bytes
    split at h
    · exact absurd h (by simp)
    · injection h with h; injection h with hv _; subst hv; simp [typedVal]
    · rename_i r1 he
      split at h
      · exact absurd h (by simp)
      · rename_i x r2 hr
        injection h with h; injection h with hv _; subst hv
        have h1 := Reader.readBytes_len hr
        have h2 := Reader.enter_data he
        simp only [typedVal, decide_eq_true_eq]
        omega
  · -- string
    split at h
    · exact absurd h (by simp)
    · injection h with h; injection h with hv _; subst hv
      simp [typedVal, utf8Valid, hlaw.nil, hlaw.fix [] hlaw.nil]
    · rename_i r1 he
      split at h
      · exact absurd h (by simp)
      · rename_i x r2 hr
        injection h with h; injection h with hv _; subst hv
        obtain ⟨h1, hu, hn⟩ := Reader.readString_valid hr
        have h2 := Reader.enter_data he
        simp only [typedVal, Bool.and_eq_true, decide_eq_true_eq]
        exact ⟨⟨⟨by omega, hu⟩, hn⟩, hlaw.fix x hn⟩
  · -- bytesArr
    split at h
    · exact absurd h (by simp)
    · rename_i l r2 hr
      injection h with h; injection h with hv _; subst hv
      obtain ⟨l', hl, hc⟩ := readBytesArray_canon num _ _ _ _ _ hr
      simp only [List.nil_append] at hl
      rw [hl]
      simp only [typedVal, List.all_eq_true, decide_eq_true_eq]
      intro b hb
      have h1 := mem_encBytesArr_length num l' b hb
      have h2 := hc.length_le
      omega
  · -- uints
    split at h
    · exact absurd h (by simp)
    · injection h with h; injection h with hv _; subst hv; simp [typedVal, encPacked]
    · rename_i r1 he
      split at h
      · exact absurd h (by simp)
      · rename_i len r2 hr
        split at h
        · exact absurd h (by simp)
        · rename_i l r3 hp
          injection h with h; injection h with hv _; subst hv
          obtain ⟨l', hl, hc, hb⟩ := readPackedUInts_canon _ _ _ _ _ _ hp
          simp only [List.nil_append] at hl
          rw [hl]
          have h1 := hc.length_le
          have h2 := Reader.readUInt_data hr
          have h3 := Reader.enterArr_data he
          simp only [typedVal, Bool.and_eq_true, List.all_eq_true, decide_eq_true_eq]
          exact ⟨hb, by omega⟩

/-- the zero value of a flat kind is well-typed -/
theorem zeroValue_typed_flat (nfc : NFC) (hlaw : NFCLaw nfc) (k : Kind) (hk : flatKind k = true) :
    typedVal nfc k (zeroValue k) = true := by
  cases k <;> simp only [flatKind] at hk <;> first | (exact absurd hk (by decide)) | skip
  all_goals simp [zeroValue, typedVal, encPacked, utf8Valid, hlaw.nil, hlaw.fix [] hlaw.nil]

/-- a field list read field by field -/
theorem decodeFields_typed_of_field (t : Table) (rank : String → Nat) (nfc : NFC)
    (hR : Ranked t rank = true) (p : Kind → Value → Bool) (Q : Field → Prop)
    (hf : ∀ (f : Field) (fuel : Nat) (r r' : Reader) (v : Value), Q f → r.data.length < 2 ^ 63 →
      decodeField t nfc fuel f r = .ok (v, r') → p f.kind v = true) :
    ∀ (fs : List Field) (k fuel : Nat) (r r' : Reader) (vs : List Value),
    fieldsOK t rank k fs = true → (∀ f ∈ fs, Q f) → r.data.length < 2 ^ 63 →
    decodeFields t nfc fuel fs r = .ok (vs, r') → typedWith p fs vs = true := by
  intro fs
  induction fs with
  | nil =>
    intro k fuel r r' vs _ _ _ h
    unfold decodeFields at h
    injection h with h
    injection h with h1 _
    subst h1
    rfl
  | cons f fs ih =>
    intro k fuel r r' vs hok hq hd h
    cases fuel with
    | zero => simp [decodeFields] at h
    | succ fuel =>
      simp only [decodeFields] at h
      split at h
      · exact absurd h (by simp)
      · rename_i v r1 h1
        split at h
        · exact absurd h (by simp)
        · rename_i vs' r2 h2
          injection h with h
          injection h with hv _
          subst hv
          simp only [fieldsOK, List.all_cons, Bool.and_eq_true] at hok
          have hadv := decodeField_adv (nfc := nfc) hR hok.1 h1
          simp only [typedWith, Bool.and_eq_true]
          refine ⟨hf f fuel r r1 v (hq f (by simp)) hd h1, ?_⟩
          exact ih k fuel r1 r2 vs' hok.2 (fun g hg => hq g (by simp [hg])) (by rw [hadv.1]; exact hd) h2

/-- the tail of `ReadDecodable` -/
theorem decodeNested_typed (t : Table) (nfc : NFC) (p : Kind → Value → Bool) (name : String)
    (s : Schema) (hfind : t.find name = some s)
    (hs : ∀ (fuel : Nat) (r r' : Reader) (vs : List Value), r.data.length < 2 ^ 63 →
      decodeFields t nfc fuel s.dec r = .ok (vs, r') → typedWith p s.dec vs = true)
    (fuel : Nat) (r r' : Reader) (v : Value) (hd : r.data.length < 2 ^ 63)
    (h : decodeNested t nfc fuel name r = .ok (v, r')) :
    ∃ vals, v = .msg true vals ∧ typedWith p s.dec vals = true := by
  cases fuel with
  | zero => simp [decodeNested] at h
  | succ fuel =>
    simp only [decodeNested] at h
    split at h
    · exact absurd h (by simp)
    · rename_i size r2 hr
      simp only [hfind] at h
      split at h
      · exact absurd h (by simp)
      · rename_i vals rn hdec
        injection h with h
        injection h with hv _
        subst hv
        refine ⟨vals, rfl, hs fuel _ rn vals ?_ hdec⟩
        have := Reader.readUInt_data hr
        simp only
        omega

/-- `ReadDecodables` -/
theorem decodeMsgArr_typed (t : Table) (rank : String → Nat) (nfc : NFC) (hR : Ranked t rank = true)
    (p : Kind → Value → Bool) (name : String) (s : Schema) (hfind : t.find name = some s)
    (hs : ∀ (fuel : Nat) (r r' : Reader) (vs : List Value), r.data.length < 2 ^ 63 →
      decodeFields t nfc fuel s.dec r = .ok (vs, r') → typedWith p s.dec vs = true) (fn : Nat) :
    ∀ (fuel : Nat) (r r' : Reader) (acc l : List (List Value)), r.data.length < 2 ^ 63 →
    decodeMsgArr t nfc fuel name fn r acc = .ok (l, r') →
    ∃ l', l = acc ++ l' ∧ ∀ vals ∈ l', typedWith p s.dec vals = true := by
  intro fuel
  induction fuel with
  | zero => intro r r' acc l _ h; simp [decodeMsgArr] at h
  | succ fuel ih =>
    intro r r' acc l hd h
    unfold decodeMsgArr at h
    split at h
    · split at h
      · exact absurd h (by simp)
      · injection h with h
        injection h with h1 _
        subst h1
        exact ⟨[], by simp, by simp⟩
      · rename_i r1 he
        have hd1 : r1.data.length < 2 ^ 63 := by rw [Reader.enterArr_data he]; exact hd
        split at h
        · exact absurd h (by simp)
        · rename_i pres vals r2 hn
          obtain ⟨vals', hv, hty⟩ := decodeNested_typed t nfc p name s hfind hs fuel r1 r2 _ hd1 hn
          injection hv with _ hv
          subst hv
          have hadv := decodeNested_adv (nfc := nfc) hR (by rw [hfind]; rfl) hn
          obtain ⟨l', hl, hall⟩ := ih r2 r' (acc ++ [vals]) l (by rw [hadv.1]; exact hd1) h
          refine ⟨vals :: l', by simp [hl], ?_⟩
          intro x hx
          rcases List.mem_cons.mp hx with rfl | hx
          · exact hty
          · exact hall x hx
        · exact absurd h (by simp)
    · injection h with h
      injection h with h1 _
      subst h1
      exact ⟨[], by simp, by simp⟩

/-- the all-default struct is well-typed when it holds no nested pointer -/
theorem zeros_typed (t : Table) (nfc : NFC) (hlaw : NFCLaw nfc) (d : Nat) :
    ∀ (fs : List Field), (fs.all fun g => match g.kind with | .msg _ => false | _ => true) = true →
    nilFree t d fs = true →
    typedWith (typedValDeep t nfc d) fs (fs.map fun f => zeroValue f.kind) = true := by
  intro fs
  induction fs with
  | nil => intro _ _; rfl
  | cons f fs ih =>
    intro hno hnf
    simp only [List.all_cons, Bool.and_eq_true] at hno
    have hnf' : nilFree t d fs = true ∧
        (flatKind f.kind = true ∨ ∃ d' n s, d = d' + 1 ∧ f.kind = .msgArr n ∧ t.find n = some s) := by
      cases d with
      | zero =>
        simp only [nilFree, List.all_cons, Bool.and_eq_true] at hnf ⊢
        exact ⟨hnf.2, Or.inl hnf.1⟩
      | succ d' =>
        simp only [nilFree, List.all_cons, Bool.and_eq_true] at hnf ⊢
        refine ⟨hnf.2, ?_⟩
        have h1 := hnf.1
        have h0 := hno.1
        obtain ⟨num, kind, st⟩ := f
        cases kind with
        | msg n => simp at h0
        | msgArr n =>
          right
          simp only [nilFreeField] at h1
          cases hf : t.find n with
          | none => rw [hf] at h1; simp at h1
          | some s => exact ⟨d', n, s, rfl, rfl, hf⟩
        | unknown src => simp [nilFreeField] at h1
        | _ => left; rfl
    simp only [List.map_cons, typedWith, Bool.and_eq_true]
    refine ⟨?_, ih hno.2 hnf'.1⟩
    rcases hnf'.2 with hfl | ⟨d', n, s, rfl, hk, hfind⟩
    · rw [typedValDeep_flat t nfc d f.kind _ hfl]
      exact zeroValue_typed_flat nfc hlaw f.kind hfl
    · rw [hk]
      simp [zeroValue, typedValDeep, hfind]

theorem nilFree_mem_zero {t : Table} {fs : List Field} (h : nilFree t 0 fs = true) :
    ∀ f ∈ fs, flatKind f.kind = true := by
  simp only [nilFree, List.all_eq_true] at h
  exact h

theorem nilFree_mem_succ {t : Table} {d : Nat} {fs : List Field} (h : nilFree t (d + 1) fs = true) :
    ∀ f ∈ fs, nilFreeField t (nilFree t d) f = true := by
  simp only [nilFree, List.all_eq_true] at h
  exact h

/-- **Every decoded value tree is well-typed** (at the depth `d` to which `nilFree` was checked). -/
theorem decodeFields_typed (t : Table) (rank : String → Nat) (nfc : NFC) (hwf : TableWF t rank = true)
    (hlaw : NFCLaw nfc) :
    ∀ (d k : Nat) (fs : List Field) (fuel : Nat) (r r' : Reader) (vs : List Value),
    fieldsOK t rank k fs = true → nilFree t d fs = true → r.data.length < 2 ^ 63 →
    decodeFields t nfc fuel fs r = .ok (vs, r') →
    typedWith (typedValDeep t nfc d) fs vs = true := by
  have hR := tableWF_ranked hwf
  intro d
  induction d with
  | zero =>
    intro k fs fuel r r' vs hok hnf hd h
    refine decodeFields_typed_of_field t rank nfc hR (typedValDeep t nfc 0)
      (fun f => flatKind f.kind = true) ?_ fs k fuel r r' vs hok (nilFree_mem_zero hnf) hd h
    intro f fuel r r' v hfl hd h
    exact decodeField_typed_flat t nfc hlaw fuel f r r' v hfl hd h
  | succ d ih =>
    intro k fs fuel r r' vs hok hnf hd h
    refine decodeFields_typed_of_field t rank nfc hR (typedValDeep t nfc (d + 1))
      (fun f => nilFreeField t (nilFree t d) f = true) ?_ fs k fuel r r' vs hok
      (nilFree_mem_succ hnf) hd h
    intro f fuel r r' v hq hd h
    obtain ⟨num, kind, st⟩ := f
    -- nested structs of the table: their lenient field lists are typed at depth `d`
    have hsub : ∀ (n : String) (s : Schema), t.find n = some s → nilFree t d s.dec = true →
        ∀ (fuel : Nat) (r r' : Reader) (vs : List Value), r.data.length < 2 ^ 63 →
        decodeFields t nfc fuel s.dec r = .ok (vs, r') →
        typedWith (typedValDeep t nfc d) s.dec vs = true := by
      intro n s hfind hnfs fuel r r' vs hd h
      obtain ⟨hsok, _⟩ := ranked_find hR hfind
      obtain ⟨_, _, _, hdecok, _⟩ := schemaOK_dec hsok
      exact ih (rank s.name) s.dec fuel r r' vs hdecok hnfs hd h
    cases kind with
    | msg n =>
      simp only [nilFreeField, Bool.and_eq_true, Bool.or_eq_true] at hq
      obtain ⟨hstr, hrec⟩ := hq
      cases hfind : t.find n with
      | none => rw [hfind] at hrec; simp at hrec
      | some s =>
        rw [hfind] at hrec
        simp only at hrec
        obtain ⟨_, _, h3, _, _, _, _, _⟩ := schemaShapeOK_unpack (tableWF_mem hwf (find_mem hfind))
        cases fuel with
        | zero => simp [decodeField] at h
        | succ fuel =>
          simp only [decodeField] at h
          split at h
          · exact absurd h (by simp)
          · rename_i he
            injection h with h
            injection h with hv _
            subst hv
            have hst := Reader.enter_none_lenient he
            rcases hstr with hstr | hdn
            · rw [hst] at hstr; simp at hstr
            · simp only [defaultMsg, hfind, typedValDeep]
              rw [typedWith_congr _ _ _ _ h3]
              simp only [defaultNoNil, hfind] at hdn
              exact zeros_typed t nfc hlaw d s.dec hdn hrec
          · rename_i r1 he
            have hd1 : r1.data.length < 2 ^ 63 := by rw [Reader.enter_data he]; exact hd
            obtain ⟨vals, hv, hty⟩ := decodeNested_typed t nfc (typedValDeep t nfc d) n s hfind
              (hsub n s hfind hrec) fuel r1 r' v hd1 h
            subst hv
            simp only [typedValDeep, hfind]
            rw [typedWith_congr _ _ _ _ h3]
            exact hty
    | msgArr n =>
      simp only [nilFreeField] at hq
      cases hfind : t.find n with
      | none => rw [hfind] at hq; simp at hq
      | some s =>
        rw [hfind] at hq
        simp only at hq
        obtain ⟨_, _, h3, _, _, _, _, _⟩ := schemaShapeOK_unpack (tableWF_mem hwf (find_mem hfind))
        cases fuel with
        | zero => simp [decodeField] at h
        | succ fuel =>
          simp only [decodeField] at h
          split at h
          · exact absurd h (by simp)
          · rename_i l r2 hm
            injection h with h
            injection h with hv _
            subst hv
            obtain ⟨l', hl, hall⟩ := decodeMsgArr_typed t rank nfc hR (typedValDeep t nfc d) n s hfind
              (hsub n s hfind hq) num fuel r r2 [] l hd hm
            simp only [List.nil_append] at hl
            subst hl
            simp only [typedValDeep, hfind, List.all_eq_true]
            intro vals hmem
            rw [typedWith_congr _ _ _ _ h3]
            exact hall vals hmem
    | unknown src => simp [nilFreeField] at hq
    | _ =>
      rw [typedValDeep_flat t nfc (d + 1) _ v rfl]
      exact decodeField_typed_flat t nfc hlaw fuel _ r r' v rfl hd h

/-- **Re-encoding is stable for every accepted input**: if `decode` (lenient) accepts ANY byte string
`b` for a struct whose lenient field list is `nilFree`, the decoded value is well-typed, hence both
decoders return exactly that value again from its re-encoding. -/
theorem decode_reencode_stable (t : Table) (rank : String → Nat) (nfc : NFC)
    (hwf : TableWF t rank = true) (hlaw : NFCLaw nfc) (s : Schema) (hs : s ∈ t) (d : Nat)
    (hnf : nilFree t d s.dec = true) (b : Bytes) (hb : b.length < 2 ^ 63) (vals : List Value)
    (h : decode t nfc s b = .ok vals) :
    typedWith (typedValDeep t nfc d) s.enc vals = true ∧
    ((encode t nfc s vals).length < 2 ^ 63 →
      decode t nfc s (encode t nfc s vals) = .ok vals ∧
      decodeStrict t nfc s (encode t nfc s vals) = .ok vals) := by
  have hR := tableWF_ranked hwf
  obtain ⟨_, _, _, hdec, _⟩ := schemaOK_dec (ranked_mem hR hs)
  obtain ⟨_, _, h3, _, _, _, _, _⟩ := schemaShapeOK_unpack (tableWF_mem hwf hs)
  have hty : typedWith (typedValDeep t nfc d) s.enc vals = true := by
    unfold decode at h
    split at h
    · exact absurd h (by simp)
    · rename_i vs r' hd
      injection h with h
      subst h
      rw [typedWith_congr _ _ _ _ h3]
      exact decodeFields_typed t rank nfc hwf hlaw d _ s.dec _ _ r' _ hdec hnf (by simpa [Reader.new] using hb) hd
  exact ⟨hty, fun hlen => decode_roundtrip_deep t rank nfc hwf s hs d vals hty hlen⟩

/-- the same for `decodeStrict` (its top-level `.msg` fields are strict, so they need no
`defaultNoNil`) -/
theorem decodeStrict_reencode_stable (t : Table) (rank : String → Nat) (nfc : NFC)
    (hwf : TableWF t rank = true) (hlaw : NFCLaw nfc) (s : Schema) (hs : s ∈ t) (d : Nat)
    (hnf : nilFree t d s.decStrict = true) (b : Bytes) (hb : b.length < 2 ^ 63) (vals : List Value)
    (h : decodeStrict t nfc s b = .ok vals) :
    typedWith (typedValDeep t nfc d) s.enc vals = true ∧
    ((encode t nfc s vals).length < 2 ^ 63 →
      decode t nfc s (encode t nfc s vals) = .ok vals ∧
      decodeStrict t nfc s (encode t nfc s vals) = .ok vals) := by
  have hR := tableWF_ranked hwf
  obtain ⟨_, _, _, _, hstr⟩ := schemaOK_dec (ranked_mem hR hs)
  obtain ⟨_, _, _, h4, _, _, _, _⟩ := schemaShapeOK_unpack (tableWF_mem hwf hs)
  have hty : typedWith (typedValDeep t nfc d) s.enc vals = true := by
    unfold decodeStrict at h
    split at h
    · exact absurd h (by simp)
    · rename_i vs r' hd
      split at h
      · exact absurd h (by simp)
      · injection h with h
        subst h
        rw [typedWith_congr _ _ _ _ h4]
        exact decodeFields_typed t rank nfc hwf hlaw d _ s.decStrict _ _ r' _ hstr hnf
          (by simpa [Reader.new] using hb) hd
  exact ⟨hty, fun hlen => decode_roundtrip_deep t rank nfc hwf s hs d vals hty hlen⟩

/-! ### strings compared in NFC form

`WriteString` normalises, so a value tree whose strings are not yet normalised is decoded as its
normalised form. `normValDeep` normalises every string of a value tree (following the table); it does
not change the encoding when normalisation is idempotent. -/

def normWith (q : Kind → Value → Value) : List Field → List Value → List Value
  | f :: fs, v :: vs => q f.kind v :: normWith q fs vs
  | _, _ => []

/-- normalise every string field of a value, following the table to depth `d` -/
def normValDeep (t : Table) (nfc : NFC) : Nat → Kind → Value → Value
  | 0, .string, .bytes b => .bytes (nfc.normalize b)
  | 0, _, v => v
  | _ + 1, .string, .bytes b => .bytes (nfc.normalize b)
  | d + 1, .msg name, .msg true vals =>
    (match t.find name with
     | some s => .msg true (normWith (normValDeep t nfc d) s.enc vals)
     | none => .msg true vals)
  | d + 1, .msgArr name, .msgArr l =>
    (match t.find name with
     | some s => .msgArr (l.map (normWith (normValDeep t nfc d) s.enc))
     | none => .msgArr l)
  | _ + 1, _, v => v

theorem encodeFields_normWith (t : Table) (nfc : NFC) (ef : Nat) (q : Kind → Value → Value)
    (hq : ∀ (f : Field) (v : Value), encField t nfc ef f (q f.kind v) = encField t nfc ef f v) :
    ∀ (fs : List Field) (vs : List Value),
    encodeFields t nfc ef fs (normWith q fs vs) = encodeFields t nfc ef fs vs := by
  intro fs
  induction fs with
  | nil => intro vs; rw [encodeFields_nil_left, encodeFields_nil_left]
  | cons f fs ih =>
    intro vs
    cases vs with
    | nil => rfl
    | cons v vs =>
      simp only [normWith]
      rw [encodeFields_cons, encodeFields_cons, hq, ih]

theorem encField_norm (t : Table) (nfc : NFC)
    (hidem : ∀ b, nfc.normalize (nfc.normalize b) = nfc.normalize b) :
    ∀ (d ef : Nat) (f : Field) (v : Value),
    encField t nfc ef f (normValDeep t nfc d f.kind v) = encField t nfc ef f v := by
  intro d
  induction d with
  | zero =>
    intro ef f v
    obtain ⟨num, kind, st⟩ := f
    cases kind <;> cases v <;> simp [normValDeep, encField, hidem]
  | succ d ih =>
    intro ef f v
    obtain ⟨num, kind, st⟩ := f
    cases kind with
    | msg name =>
      cases v with
      | msg present vals =>
        cases present with
        | false => simp [normValDeep]
        | true =>
          simp only [normValDeep]
          cases hf : t.find name with
          | none => rfl
          | some s =>
            simp only [encField, hf]
            cases ef with
            | zero => rfl
            | succ ef' =>
              simp only
              rw [encodeFields_normWith t nfc ef' _ (fun f v => ih ef' f v)]
      | _ => simp [normValDeep]
    | msgArr name =>
      cases v with
      | msgArr l =>
        simp only [normValDeep]
        cases hf : t.find name with
        | none => rfl
        | some s =>
          simp only [encField, hf]
          cases ef with
          | zero => rfl
          | succ ef' =>
            simp only [List.map_map]
            congr 1
            apply List.map_congr_left
            intro vals _
            simp only [Function.comp]
            rw [encodeFields_normWith t nfc ef' _ (fun f v => ih ef' f v)]
      | _ => simp [normValDeep]
    | string => cases v <;> simp [normValDeep, encField, hidem]
    | _ => cases v <;> simp [normValDeep]

/-- normalising the strings of a value tree does not change its encoding -/
theorem encode_norm (t : Table) (nfc : NFC)
    (hidem : ∀ b, nfc.normalize (nfc.normalize b) = nfc.normalize b) (s : Schema) (d : Nat)
    (vals : List Value) :
    encode t nfc s (normWith (normValDeep t nfc d) s.enc vals) = encode t nfc s vals := by
  unfold encode
  exact encodeFields_normWith t nfc 8 _ (fun f v => encField_norm t nfc hidem d 8 f v) s.enc vals

/-- **Round trip up to NFC**: if the normalised value tree is well-typed, decoding the encoding of
the original tree returns the normalised tree. -/
theorem decode_roundtrip_nfc (t : Table) (rank : String → Nat) (nfc : NFC)
    (hwf : TableWF t rank = true)
    (hidem : ∀ b, nfc.normalize (nfc.normalize b) = nfc.normalize b) (s : Schema) (hs : s ∈ t)
    (d : Nat) (vals : List Value)
    (hv : typedWith (typedValDeep t nfc d) s.enc (normWith (normValDeep t nfc d) s.enc vals) = true)
    (hlen : (encode t nfc s vals).length < 2 ^ 63) :
    decode t nfc s (encode t nfc s vals) = .ok (normWith (normValDeep t nfc d) s.enc vals) ∧
    decodeStrict t nfc s (encode t nfc s vals) = .ok (normWith (normValDeep t nfc d) s.enc vals) := by
  have e := encode_norm t nfc hidem s d vals
  have := decode_roundtrip_deep t rank nfc hwf s hs d _ hv (by rw [e]; exact hlen)
  rw [e] at this
  exact this

end LiskVerif.Codec
