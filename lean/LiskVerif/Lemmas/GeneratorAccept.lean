/-
Helper lemmas for Props/C15_Accept.lean (composition of the generator model with the block
verification model).  Nothing here changes a model; the small definitions (`AllOk`, `replayTxs`)
only name properties of lists the property file talks about.
-/
import LiskVerif.Lemmas.Generator
import LiskVerif.Model.Verify

namespace LiskVerif.GenAccept
open LiskVerif LiskVerif.Generator

/-! ### selection: payload size and verdicts, for every pool (duplicates allowed) -/

theorem limitBySize_sum (maxSize : Nat) (l : List Tx) (total : Nat) (ht : total ≤ maxSize) :
    total + ((limitBySize maxSize total l).map (·.size)).sum ≤ maxSize := by
  induction l generalizing total with
  | nil => simpa [limitBySize] using ht
  | cons t r ih =>
    unfold limitBySize
    split
    · simpa using ht
    · have := ih (total + t.size) (by omega)
      simp only [List.map_cons, List.sum_cons]
      omega

/-- what `forge` puts into the block fits the limit it was given -/
theorem select_size_le (ok : List Tx → Tx → Bool) (maxSize : Nat) (txs : List Tx) :
    ((select ok maxSize txs).map (·.size)).sum ≤ maxSize := by
  have := limitBySize_sum maxSize (selectByFee ok maxSize txs) 0 (Nat.zero_le _)
  unfold select
  omega


/-! ### selection: only pool transactions are selected (no `Nodup` hypothesis) -/

/-- every transaction in a sender list belongs to `txs` -/
def GroupsIn (g : Groups) (txs : List Tx) : Prop := ∀ p ∈ g, ∀ t ∈ p.2, t ∈ txs

theorem mem_replace {s : Nat} {l' : List Tx} {g : Groups} {p : Nat × List Tx} (h : p ∈ replace s l' g) :
    p ∈ g ∨ p = (s, l') := by
  induction g with
  | nil => cases h
  | cons q r ih =>
    obtain ⟨k, l⟩ := q
    unfold replace at h
    split at h
    · rename_i hk
      rcases List.mem_cons.mp h with h1 | h1
      · right; rw [h1, hk]
      · left; exact List.mem_cons_of_mem _ h1
    · rcases List.mem_cons.mp h with h1 | h1
      · left; rw [h1]; exact List.mem_cons_self
      · rcases ih h1 with h2 | h2
        · left; exact List.mem_cons_of_mem _ h2
        · right; exact h2

theorem GroupsIn.erase {g : Groups} {txs : List Tx} (h : GroupsIn g txs) (s : Nat) : GroupsIn (erase s g) txs :=
  fun p hp => h p (mem_of_mem_erase hp)

theorem GroupsIn.advance {g : Groups} {txs : List Tx} (h : GroupsIn g txs) {s : Nat} {t : Tx} {rest : List Tx}
    (hm : (s, t :: rest) ∈ g) : GroupsIn (advance s rest g) txs := by
  unfold Generator.advance
  split
  · exact h.erase s
  · intro p hp x hx
    rcases mem_replace hp with h1 | h1
    · exact h p h1 x hx
    · subst h1
      exact h _ hm x (List.mem_cons_of_mem _ hx)

theorem selectLoop_subset (ok : List Tx → Tx → Bool) (maxSize : Nat) (txs : List Tx) :
    ∀ (fuel : Nat) (g : Groups) (total : Nat) (acc : List Tx), GroupsIn g txs →
      ∀ t ∈ selectLoop ok maxSize fuel g total acc, t ∈ txs
  | 0, _, _, _, _, t, ht => by simp [selectLoop] at ht
  | fuel + 1, g, total, acc, hg, t, ht => by
    unfold selectLoop at ht
    split at ht
    · cases ht
    · rename_i s t0 rest hpick
      have hm := (pickMax_some hpick).1
      split at ht
      · cases ht
      · split at ht
        · rcases List.mem_cons.mp ht with rfl | ht
          · exact hg _ hm _ List.mem_cons_self
          · exact selectLoop_subset ok maxSize txs fuel _ _ _ (hg.advance hm) t ht
        · exact selectLoop_subset ok maxSize txs fuel _ _ _ (hg.erase s) t ht

theorem limitBySize_subset (maxSize : Nat) : ∀ (l : List Tx) (total : Nat), ∀ t ∈ limitBySize maxSize total l, t ∈ l
  | [], _, t, ht => by simp [limitBySize] at ht
  | a :: r, total, t, ht => by
    unfold limitBySize at ht
    split at ht
    · cases ht
    · rcases List.mem_cons.mp ht with rfl | ht
      · exact List.mem_cons_self
      · exact List.mem_cons_of_mem _ (limitBySize_subset maxSize r _ t ht)

theorem initGroups_in (txs : List Tx) : GroupsIn (initGroups txs) txs := by
  rintro ⟨s, l⟩ hp t ht
  have := (initGroups_mem hp).1
  simp only at ht
  rw [this, mem_isort] at ht
  exact (List.mem_filter.mp ht).1

/-- what `forge` puts into the block comes from the pool -/
theorem select_subset (ok : List Tx → Tx → Bool) (maxSize : Nat) (txs : List Tx) :
    ∀ t ∈ select ok maxSize txs, t ∈ txs := by
  intro t ht
  exact selectLoop_subset ok maxSize txs _ _ _ _ (initGroups_in txs) t (limitBySize_subset maxSize _ _ t ht)

/-- every element of the list was answered "ok" by the application in the state reached after the
elements before it (`acc` = what was selected before the list starts) -/
def AllOk (ok : List Tx → Tx → Bool) : List Tx → List Tx → Prop
  | _, [] => True
  | acc, t :: r => ok acc t = true ∧ AllOk ok (acc ++ [t]) r

theorem selectLoop_allOk (ok : List Tx → Tx → Bool) (maxSize : Nat) :
    ∀ (fuel : Nat) (g : Groups) (total : Nat) (acc : List Tx),
      AllOk ok acc (selectLoop ok maxSize fuel g total acc)
  | 0, _, _, _ => trivial
  | fuel + 1, g, total, acc => by
    unfold selectLoop
    split
    · trivial
    · rename_i s t rest _
      split
      · trivial
      · split
        · rename_i hok
          exact ⟨hok, selectLoop_allOk ok maxSize fuel _ _ _⟩
        · exact selectLoop_allOk ok maxSize fuel _ _ _

/-- every possible result of the selection loop (any tie-break) consists of picks answered "ok" -/
theorem run_allOk {ok : List Tx → Tx → Bool} {maxSize : Nat} {g : Groups} {total : Nat} {acc R : List Tx}
    {evs : List Ev} (h : Run ok maxSize g total acc R evs) : AllOk ok acc R := by
  induction h with
  | done total acc => trivial
  | cut hmax hsz => trivial
  | skip hmax hsz hok hrun ih => exact ih
  | take hmax hsz hok hrun ih => exact ⟨hok, ih⟩

theorem limitBySize_allOk (ok : List Tx → Tx → Bool) (maxSize : Nat) :
    ∀ (l : List Tx) (total : Nat) (acc : List Tx), AllOk ok acc l → AllOk ok acc (limitBySize maxSize total l)
  | [], _, _, _ => trivial
  | t :: r, total, acc, h => by
    unfold limitBySize
    split
    · trivial
    · exact ⟨h.1, limitBySize_allOk ok maxSize r _ _ h.2⟩

theorem select_allOk (ok : List Tx → Tx → Bool) (maxSize : Nat) (txs : List Tx) :
    AllOk ok [] (select ok maxSize txs) :=
  limitBySize_allOk ok maxSize _ 0 [] (selectLoop_allOk ok maxSize _ _ _ _)

/-- the verdict pairs (VerifyTransaction, ExecuteTransaction) the verifier obtains when it replays
the list after `acc` -/
def replayTxs (verdict : List Tx → Tx → Verify.TxV × Verify.TxV) : List Tx → List Tx → List (Verify.TxV × Verify.TxV)
  | _, [] => []
  | acc, t :: r => verdict acc t :: replayTxs verdict (acc ++ [t]) r

theorem replayTxs_good (ok : List Tx → Tx → Bool) (verdict : List Tx → Tx → Verify.TxV × Verify.TxV)
    (P : Verify.TxV × Verify.TxV → Prop) (hdet : ∀ acc t, ok acc t = true → P (verdict acc t)) :
    ∀ (l acc : List Tx), AllOk ok acc l → ∀ p ∈ replayTxs verdict acc l, P p
  | [], _, _, p, hp => by cases hp
  | t :: r, acc, h, p, hp => by
    simp only [replayTxs, List.mem_cons] at hp
    rcases hp with rfl | hp
    · exact hdet acc t h.1
    · exact replayTxs_good ok verdict P hdet r _ h.2 p hp

theorem replayTxs_length (verdict : List Tx → Tx → Verify.TxV × Verify.TxV) :
    ∀ (l acc : List Tx), (replayTxs verdict acc l).length = l.length
  | [], _ => rfl
  | _ :: r, acc => by simp [replayTxs, replayTxs_length verdict r]

/-! ### parameter lookups of the BFT store -/

/-- `NextHeightBFTParameters` answers with a key of the store above the queried height -/
theorem nextHeightParams_mem {s : BFT.State} {x k : Nat} (h : BFT.nextHeightParams s x = some k) :
    x < k ∧ k ∈ s.params.map (·.1) := by
  unfold BFT.nextHeightParams at h
  have key : ∀ (l : List Nat) (best : Option Nat),
      l.foldl (fun best k =>
        if k > x then match best with
          | none => some k
          | some b => if k < b then some k else some b
        else best) best = some k → (x < k ∧ k ∈ l) ∨ best = some k := by
    intro l
    induction l with
    | nil => intro best hb; exact Or.inr hb
    | cons a r ih =>
      intro best hb
      rw [List.foldl_cons] at hb
      rcases ih _ hb with h1 | h1
      · exact Or.inl ⟨h1.1, List.mem_cons_of_mem _ h1.2⟩
      · by_cases ha : a > x
        · simp only [ha, if_true] at h1
          cases best with
          | none =>
            simp only [Option.some.injEq] at h1
            subst h1
            exact Or.inl ⟨ha, List.mem_cons_self⟩
          | some b =>
            simp only at h1
            split at h1
            · simp only [Option.some.injEq] at h1
              subst h1
              exact Or.inl ⟨ha, List.mem_cons_self⟩
            · exact Or.inr h1
        · simp only [ha, if_false] at h1
          exact Or.inr h1
  rcases key _ none h with h1 | h1
  · exact h1
  · cases h1

/-- `getBFTParams` / `getGeneratorKeys` find an entry as soon as one with a key `≤ h` exists -/
theorem lookupLE_isSome {α : Type} (l : List (Nat × α)) (h : Nat) (e : Nat × α) (he : e ∈ l)
    (hle : e.1 ≤ h) : (BFT.lookupLE l h).isSome = true := by
  unfold BFT.lookupLE
  have key : ∀ (l : List (Nat × α)) (best : Option (Nat × α)),
      (best.isSome = true ∨ ∃ e ∈ l, e.1 ≤ h) →
      (l.foldl (fun best e =>
        if e.1 ≤ h then
          match best with
          | none => some e
          | some b => if b.1 < e.1 then some e else some b
        else best) best).isSome = true := by
    intro l
    induction l with
    | nil =>
      intro best hb
      rcases hb with hb | ⟨e, he, _⟩
      · exact hb
      · cases he
    | cons a r ih =>
      intro best hb
      rw [List.foldl_cons]
      apply ih
      by_cases ha : a.1 ≤ h
      · left
        simp only [ha, if_true]
        cases best with
        | none => rfl
        | some b => simp only; split <;> rfl
      · simp only [ha, if_false]
        rcases hb with hb | ⟨e, he, hle⟩
        · exact Or.inl hb
        · rcases List.mem_cons.mp he with rfl | he
          · exact absurd hle ha
          · exact Or.inr ⟨e, he, hle⟩
  exact key l none (Or.inr ⟨e, he, hle⟩)

end LiskVerif.GenAccept

