/-
Queries over the regenerated start-up wiring table (`Gen/Wiring.lean`, tools/wiregen).  Core Lean only.
-/
import LiskVerif.Gen.Wiring

namespace LiskVerif.Wire
open LiskVerif.Gen.Wiring

/-- the expressions a function gives to `field` of a composite literal of type `typ` (or, with
`typ = "recv"`, assigns to the receiver's field) -/
def exprsOf (fn typ field : String) : List String :=
  (fieldInits.filter (fun x => x.fn == fn && x.typ == typ && x.field == field)).map (·.expr)

/-- `field` is initialised exactly once in `fn`, with `expr` -/
def wired (fn typ field expr : String) : Bool := exprsOf fn typ field == [expr]

/-- all fields a literal of type `typ` in `fn` sets, in source order -/
def fieldsOf (fn typ : String) : List String :=
  (fieldInits.filter (fun x => x.fn == fn && x.typ == typ)).map (·.field)

/-- a function of the extraction list is missing from the source -/
def missing : List String := (fieldInits.filter (fun x => x.typ == "MISSING")).map (·.fn)

def isAsync (c : Call) : Bool := c.ctx.contains "go"
def isNested (c : Call) : Bool := c.ctx.contains "funclit" || c.ctx.contains "defer"
/-- calls executed by the function's own goroutine on the straight path (not inside `go`, a function
literal or a `defer`) -/
def syncCalls (fn : String) : List Call := calls.filter (fun c => c.fn == fn && !isAsync c && !isNested c)

/-- positions (source order) of the straight-path calls of `callee` in `fn` -/
def seqsOf (fn callee : String) : List Nat := ((syncCalls fn).filter (·.callee == callee)).map (·.seq)

/-- `a` is called exactly once on the straight path of `fn`, `b` too, and `a` comes first -/
def before (fn a b : String) : Bool :=
  match seqsOf fn a, seqsOf fn b with
  | [i], [j] => decide (i < j)
  | _, _ => false

/-- the straight-path call of `callee` is unconditional (only error-return ifs may enclose later code;
the call itself sits in no if / loop body) -/
def unconditional (fn callee : String) : Bool :=
  ((syncCalls fn).filter (·.callee == callee)).all (fun c => c.ctx == [])

/-- the callees started with `go` in `fn` (direct `go f()` and the calls inside `go func(){…}` bodies) -/
def asyncCalls (fn : String) : List Call := calls.filter (fun c => c.fn == fn && isAsync c)

/-- every `go` statement of `fn` comes after the straight-path call of `callee` -/
def allAsyncAfter (fn callee : String) : Bool :=
  match seqsOf fn callee with
  | [i] => (asyncCalls fn).all (fun c => decide (i < c.seq))
  | _ => false

/-- arguments of the single straight-path call of `callee` in `fn` -/
def argsOf (fn callee : String) : Option (List String) :=
  match (syncCalls fn).filter (·.callee == callee) with
  | [c] => some c.args
  | _ => none

/-- the default a configuration method installs for `field` (zero test, resolved natural value) -/
def defaultOf (fn field : String) : List (String × Option Nat) :=
  (defaults.filter (fun d => d.fn == fn && d.field == field)).map (fun d => (d.zero, d.nat))

/-- the default is installed exactly when the field is zero (`== zero`) and is a natural ≥ 1 -/
def positiveDefault (fn field zero : String) : Bool :=
  match defaultOf fn field with
  | [(z, some n)] => z == zero && decide (1 ≤ n)
  | _ => false

end LiskVerif.Wire
