/-
Proof automation shared by property files.

`decide_fn`: for goals about a regenerated Go decision function that has already been unfolded —
turn the Bool structure into Prop, split every `if`, reduce pair projections, close each leaf by
`rfl`, linear arithmetic or simplification. It does not depend on the syntactic shape of the
function, so harmless rewrites of the Go source keep the proofs while changed comparisons break them.
-/

macro "decide_fn" : tactic => `(tactic|
  (simp only [Bool.or_eq_true, Bool.and_eq_true, decide_eq_true_eq, gt_iff_lt, ge_iff_le,
     Bool.not_eq_true', decide_eq_false_iff_not, ne_eq]
   repeat' split
   all_goals (try dsimp only at *)
   all_goals (first
     | rfl
     | (exfalso; omega)
     | omega
     | (simp_all; done)
     | (simp_all; omega)
     | (constructor <;> intro _ <;> first | omega | (simp_all; done) | (simp_all; omega)))))
