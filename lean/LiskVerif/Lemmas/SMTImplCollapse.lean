/-
`calculateSubTree` (Model/SMTImpl.lean, the level-by-level loop of utils.go with its temp-holder queue) computes
the recursive `LT.collapse` of Lemmas/SMTImplTree.lean.

The state before the pass at height `h` is described by `st h 0 t`: the original layout tree `t` in which every
subtree rooted at depth ≥ `h` has been replaced by its collapse – a node when the collapse is a tip, a temp node
(`PT.done c`) whose holder entry is the flattening of the collapsed tree `c` otherwise.  The temp holder is a queue:
new entries are prepended, consumed entries are popped from the end, so the holder is the reverse of the
left-to-right list of entries.
-/
import LiskVerif.Lemmas.SMTImplHasher

namespace LiskVerif.SMTImpl
open LiskVerif LiskVerif.SMT

/-! ### sanity checks of the statement on concrete trees -/

section Sanity
private def hid : HashFn := fun b => b
private def nE : Node := ⟨.empty, [], [2], [9]⟩
private def nL (k : UInt8) : Node := ⟨.leaf, [k], [0, k], [k]⟩
private def nS (k : UInt8) : Node := ⟨.stub, [], [1, k], [k]⟩

private def chk (t : LT) : Bool :=
  match calculateSubTree hid (t.maxDepth 0) t.nodes (t.depths 0) [],
    newSubtreeFromData hid (t.collapse.depths 0) t.collapse.nodes with
  | .ok a, .ok b => decide (a = b)
  | .error a, .error b => decide (a = b)
  | _, _ => false

-- a single tip
#guard chk (.tip (nL 1))
-- (leaf, leaf): not mergeable
#guard chk (.br (.tip (nL 1)) (.tip (nL 2)))
-- (stub, empty): not mergeable
#guard chk (.br (.tip (nS 1)) (.tip nE))
-- (empty, leaf) lifted, then paired with a stub
#guard chk (.br (.br (.tip nE) (.tip (nL 1))) (.tip (nS 2)))
-- a leaf lifted twice to the root
#guard chk (.br (.br (.tip nE) (.br (.tip (nL 1)) (.tip nE))) (.tip nE))
-- depth 3, temp on both sides, lifted leaf inside
#guard chk (.br (.br (.br (.tip (nL 1)) (.tip (nL 2))) (.br (.tip nE) (.tip (nL 3))))
    (.br (.tip (nS 4)) (.br (.br (.tip nE) (.tip nE)) (.tip (nL 5)))))
-- depth 3, temp (left) with a non temp (right) and the other way round
#guard chk (.br (.br (.tip (nL 1)) (.br (.tip (nL 2)) (.tip (nS 3))))
    (.br (.br (.tip (nS 4)) (.tip (nS 5))) (.tip nE)))
end Sanity

/-! ### `popLast` -/

theorem popLast_snoc (l : List NS) (x : NS) : popLast (l ++ [x]) = .ok (x, l) := by
  cases l with
  | nil => simp [popLast]
  | cons a l =>
    show (match ((a :: l) ++ [x]).getLast? with
      | some y => Except.ok (y, ((a :: l) ++ [x]).dropLast)
      | none => Except.error Err.panic) = _
    rw [List.getLast?_concat, List.dropLast_concat]

/-! ### `LT` facts -/

theorem mergeTips_noTemp (a b : Node) (ha : a.kind ≠ .temp) (hb : b.kind ≠ .temp) : (mergeTips a b).noTemp := by
  unfold mergeTips
  split
  · exact ha
  · split
    · exact hb
    · split
      · exact ha
      · exact ⟨ha, hb⟩

theorem LT.collapse_br_tip_tip {l r : LT} {a b : Node} (hl : l.collapse = .tip a) (hr : r.collapse = .tip b) :
    (LT.br l r).collapse = mergeTips a b := by
  simp only [LT.collapse, hl, hr]

theorem LT.collapse_br_left {l r : LT} {x y : LT} (hl : l.collapse = .br x y) :
    (LT.br l r).collapse = .br (.br x y) r.collapse := by
  simp only [LT.collapse, hl]

theorem LT.collapse_br_right {l r : LT} {x y : LT} (hr : r.collapse = .br x y) :
    (LT.br l r).collapse = .br l.collapse (.br x y) := by
  simp only [LT.collapse, hr]
  cases l.collapse <;> rfl

theorem LT.collapse_noTemp (t : LT) (ht : t.noTemp) : t.collapse.noTemp := by
  induction t with
  | tip n => exact ht
  | br l r ihl ihr =>
    have hl := ihl ht.1
    have hr := ihr ht.2
    cases hcl : l.collapse with
    | tip a =>
      cases hcr : r.collapse with
      | tip b =>
        rw [LT.collapse_br_tip_tip hcl hcr]
        rw [hcl] at hl; rw [hcr] at hr
        exact mergeTips_noTemp a b hl hr
      | br x y =>
        rw [LT.collapse_br_right hcr, hcl]
        rw [hcl] at hl; rw [hcr] at hr
        exact ⟨hl, hr⟩
    | br x y =>
      rw [LT.collapse_br_left hcl]
      rw [hcl] at hl
      exact ⟨hl, hr⟩

/-! ### partial trees: the state between two passes -/

/-- a layout tree some of whose subtrees are already collapsed: `done c` is a temp node whose holder entry is the
flattening of `c` -/
inductive PT where
  | tip (n : Node)
  | done (c : LT)
  | br (l r : PT)

def PT.nodes : PT → List Node
  | .tip n => [n]
  | .done _ => [newTempNode]
  | .br l r => l.nodes ++ r.nodes

def PT.depths (d : Nat) : PT → List Nat
  | .tip _ => [d]
  | .done _ => [d]
  | .br l r => l.depths (d + 1) ++ r.depths (d + 1)

/-- the holder entries of the temp nodes, left to right -/
def PT.holder (d : Nat) : PT → List NS
  | .tip _ => []
  | .done c => [(c.nodes, c.depths d)]
  | .br l r => l.holder (d + 1) ++ r.holder (d + 1)

/-- a collapsed tree as a single node of the next level -/
def PT.ofLT : LT → PT
  | .tip n => .tip n
  | .br l r => .done (.br l r)

/-- `t` with every subtree rooted at depth ≥ `h` collapsed (`d` = depth of the root of `t`) -/
def st (h : Nat) : Nat → LT → PT
  | _, .tip n => .tip n
  | d, .br l r => if h ≤ d then PT.ofLT (LT.br l r).collapse else .br (st h (d + 1) l) (st h (d + 1) r)

theorem st_le (h d : Nat) (t : LT) (hd : h ≤ d) : st h d t = PT.ofLT t.collapse := by
  cases t with
  | tip n => rfl
  | br l r => simp [st, hd]

theorem st_lt_br (h d : Nat) (l r : LT) (hd : d < h) :
    st h d (.br l r) = .br (st h (d + 1) l) (st h (d + 1) r) := by
  have : ¬ h ≤ d := by omega
  simp [st, this]

/-- nothing is collapsed above the maximal depth -/
theorem st_full (h : Nat) (t : LT) : ∀ d, t.maxDepth d ≤ h →
    (st h d t).nodes = t.nodes ∧ (st h d t).depths d = t.depths d ∧ (st h d t).holder d = [] := by
  induction t with
  | tip n => intro d _; simp [st, PT.nodes, PT.depths, PT.holder, LT.nodes, LT.depths]
  | br l r ihl ihr =>
    intro d hm
    simp only [LT.maxDepth] at hm
    have h1 := l.le_maxDepth (d + 1)
    have hd : d < h := by omega
    obtain ⟨l1, l2, l3⟩ := ihl (d + 1) (by omega)
    obtain ⟨r1, r2, r3⟩ := ihr (d + 1) (by omega)
    rw [st_lt_br h d l r hd]
    simp [PT.nodes, PT.depths, PT.holder, LT.nodes, LT.depths, l1, l2, l3, r1, r2, r3]

/-! ### one step of `calcPass` -/

theorem map_map_res {α β γ : Type} (f : α → β) (g : β → γ) (x : Res α) :
    (x.map f).map g = x.map (fun a => g (f a)) := by
  cases x <;> rfl

theorem calcPass_skip (H : HashFn) (h : Nat) (n : Node) (ns : List Node) (s : Nat) (ss : List Nat) (th : List NS)
    (hs : s ≠ h) :
    calcPass H h (n :: ns) (s :: ss) th =
      (calcPass H h ns ss th).map fun r => (n :: r.1, s :: r.2.1, r.2.2) := by
  cases ns <;> simp [calcPass, hs]

/-- a pair of non temp nodes at the height of the pass -/
theorem calcPass_tips (H : HashFn) (h : Nat) (a b : Node) (ns : List Node) (ss : List Nat) (th : List NS)
    (ha : a.kind ≠ .temp) (hb : b.kind ≠ .temp) :
    calcPass H (h + 1) (a :: b :: ns) ((h + 1) :: (h + 1) :: ss) th =
      (calcPass H (h + 1) ns ss (((PT.ofLT (mergeTips a b)).holder h).reverse ++ th)).map fun r =>
        ((PT.ofLT (mergeTips a b)).nodes ++ r.1, (PT.ofLT (mergeTips a b)).depths h ++ r.2.1, r.2.2) := by
  unfold mergeTips
  by_cases h1 : a.kind = .empty ∧ b.kind = .empty
  · simp [calcPass, h1, PT.ofLT, PT.nodes, PT.depths, PT.holder]
  · by_cases h2 : a.kind = .empty ∧ b.kind = .leaf
    · simp [calcPass, h2, PT.ofLT, PT.nodes, PT.depths, PT.holder]
    · by_cases h3 : a.kind = .leaf ∧ b.kind = .empty
      · simp [calcPass, h3, PT.ofLT, PT.nodes, PT.depths, PT.holder]
      · simp [calcPass, h1, h2, h3, ha, hb, PT.ofLT, PT.nodes, PT.depths, PT.holder, LT.nodes, LT.depths]
        rfl

theorem ok_bind {α β : Type} (x : α) (f : α → Res β) : ((Except.ok x : Res α) >>= f) = f x := rfl

theorem calcPass_tip_done (H : HashFn) (h : Nat) (a : Node) (ns : List Node) (ss : List Nat) (X : List NS) (e : NS)
    (ha : a.kind ≠ .temp) :
    calcPass H (h + 1) (a :: newTempNode :: ns) ((h + 1) :: (h + 1) :: ss) (X ++ [e]) =
      (calcPass H (h + 1) ns ss ((a :: e.1, (h + 1) :: e.2) :: X)).map fun r =>
        (newTempNode :: r.1, h :: r.2.1, r.2.2) := by
  simp [calcPass, newTempNode, ha, ok_bind, popLast_snoc]

theorem calcPass_done_tip (H : HashFn) (h : Nat) (b : Node) (ns : List Node) (ss : List Nat) (X : List NS) (e : NS)
    (hb : b.kind ≠ .temp) :
    calcPass H (h + 1) (newTempNode :: b :: ns) ((h + 1) :: (h + 1) :: ss) (X ++ [e]) =
      (calcPass H (h + 1) ns ss ((e.1 ++ [b], e.2 ++ [h + 1]) :: X)).map fun r =>
        (newTempNode :: r.1, h :: r.2.1, r.2.2) := by
  simp [calcPass, newTempNode, hb, ok_bind, popLast_snoc]

theorem calcPass_done_done (H : HashFn) (h : Nat) (ns : List Node) (ss : List Nat) (X : List NS) (e1 e2 : NS) :
    calcPass H (h + 1) (newTempNode :: newTempNode :: ns) ((h + 1) :: (h + 1) :: ss) (X ++ [e2, e1]) =
      (calcPass H (h + 1) ns ss ((e1.1 ++ e2.1, e1.2 ++ e2.2) :: X)).map fun r =>
        (newTempNode :: r.1, h :: r.2.1, r.2.2) := by
  have hx : X ++ [e2, e1] = X ++ [e2] ++ [e1] := by simp
  rw [hx]
  simp only [calcPass, newTempNode, ok_bind, popLast_snoc]
  simp

/-! ### one pass: from `st (h + 1)` to `st h` -/

theorem calcPass_st (H : HashFn) (h : Nat) (t : LT) : ∀ d, d ≤ h → t.noTemp →
    ∀ (rn : List Node) (rs : List Nat) (X : List NS),
    calcPass H (h + 1) ((st (h + 1) d t).nodes ++ rn) ((st (h + 1) d t).depths d ++ rs)
        (X ++ ((st (h + 1) d t).holder d).reverse) =
      (calcPass H (h + 1) rn rs (((st h d t).holder d).reverse ++ X)).map fun r =>
        ((st h d t).nodes ++ r.1, (st h d t).depths d ++ r.2.1, r.2.2) := by
  induction t with
  | tip n =>
    intro d hd ht rn rs X
    simp only [st, PT.nodes, PT.depths, PT.holder, List.reverse_nil, List.append_nil, List.nil_append,
      List.cons_append]
    rw [calcPass_skip _ _ _ _ _ _ _ (by omega)]
  | br l r ihl ihr =>
    intro d hd ht rn rs X
    by_cases hlt : d < h
    · rw [st_lt_br (h + 1) d l r (by omega), st_lt_br h d l r hlt]
      simp only [PT.nodes, PT.depths, PT.holder, List.reverse_append, List.append_assoc]
      rw [← List.append_assoc X, ihl (d + 1) (by omega) ht.1, ← List.append_assoc _ X,
        ihr (d + 1) (by omega) ht.2, map_map_res]
    · have hdh : d = h := by omega
      subst hdh
      rw [st_lt_br (d + 1) d l r (by omega), st_le d d _ (Nat.le_refl _), st_le (d + 1) (d + 1) l (Nat.le_refl _),
        st_le (d + 1) (d + 1) r (Nat.le_refl _)]
      have hl := l.collapse_noTemp ht.1
      have hr := r.collapse_noTemp ht.2
      cases hcl : l.collapse with
      | tip a =>
        cases hcr : r.collapse with
        | tip b =>
          rw [LT.collapse_br_tip_tip hcl hcr]
          rw [hcl] at hl; rw [hcr] at hr
          have e1 : ∀ n, PT.ofLT (LT.tip n) = PT.tip n := fun _ => rfl
          rw [e1 a, e1 b]
          simp only [PT.nodes, PT.depths, PT.holder, List.reverse_nil, List.append_nil, List.nil_append,
            List.cons_append]
          rw [calcPass_tips _ _ _ _ _ _ _ hl hr]
        | br x y =>
          rw [LT.collapse_br_right hcr, hcl]
          rw [hcl] at hl
          simp only [PT.ofLT, PT.nodes, PT.depths, PT.holder, List.reverse_nil, List.nil_append,
            List.cons_append, List.reverse_cons]
          rw [calcPass_tip_done _ _ _ _ _ _ _ hl]
          simp [LT.nodes, LT.depths]
      | br x y =>
        rw [LT.collapse_br_left hcl]
        cases hcr : r.collapse with
        | tip b =>
          rw [hcr] at hr
          simp only [PT.ofLT, PT.nodes, PT.depths, PT.holder, List.reverse_nil, List.nil_append,
            List.cons_append, List.reverse_cons]
          rw [calcPass_done_tip _ _ _ _ _ _ _ hr]
          simp [LT.nodes, LT.depths]
        | br u v =>
          simp only [PT.ofLT, PT.nodes, PT.depths, PT.holder, List.reverse_nil, List.nil_append,
            List.cons_append, List.reverse_cons]
          rw [calcPass_done_done]
          simp [LT.nodes, LT.depths]

/-- the whole pass, started with the holder of the state -/
theorem calcPass_st_top (H : HashFn) (h : Nat) (t : LT) (ht : t.noTemp) :
    calcPass H (h + 1) (st (h + 1) 0 t).nodes ((st (h + 1) 0 t).depths 0) ((st (h + 1) 0 t).holder 0).reverse =
      .ok ((st h 0 t).nodes, (st h 0 t).depths 0, ((st h 0 t).holder 0).reverse) := by
  have := calcPass_st H h t 0 (Nat.zero_le _) ht [] [] []
  simpa [calcPass, Except.map] using this

/-! ### all passes -/

theorem calculateSubTree_st (H : HashFn) (t : LT) (ht : t.noTemp) : ∀ h,
    calculateSubTree H (h + 1) (st (h + 1) 0 t).nodes ((st (h + 1) 0 t).depths 0)
        ((st (h + 1) 0 t).holder 0).reverse =
      newSubtreeFromData H (t.collapse.depths 0) t.collapse.nodes := by
  intro h
  induction h with
  | zero =>
    rw [calculateSubTree, calcPass_st_top H 0 t ht, st_le 0 0 t (Nat.le_refl _)]
    have hc := t.collapse_noTemp ht
    cases hcc : t.collapse with
    | tip n =>
      rw [hcc] at hc
      have hk : n.kind ≠ .temp := hc
      simp [ok_bind, PT.ofLT, PT.nodes, PT.depths, PT.holder, LT.nodes, LT.depths, hk]
    | br x y =>
      simp [ok_bind, PT.ofLT, PT.nodes, PT.depths, PT.holder, newTempNode]
  | succ h ih =>
    rw [calculateSubTree, calcPass_st_top H (h + 1) t ht]
    simpa [ok_bind] using ih

/-- `calculateSubTree` on the flattening of a layout tree (no temp tips) returns the subtree made from the
flattening of the recursively collapsed tree -/
theorem calculateSubTree_tree (H : HashFn) (t : LT) (ht : t.noTemp) :
    calculateSubTree H (t.maxDepth 0) t.nodes (t.depths 0) [] =
      newSubtreeFromData H (t.collapse.depths 0) t.collapse.nodes := by
  generalize hm : t.maxDepth 0 = m
  cases m with
  | zero =>
    cases t with
    | tip n => simp [calculateSubTree, LT.collapse, LT.nodes, LT.depths]
    | br l r =>
      have := l.le_maxDepth (0 + 1)
      simp only [LT.maxDepth] at hm
      omega
  | succ k =>
    obtain ⟨h1, h2, h3⟩ := st_full (k + 1) t 0 (by omega)
    have := calculateSubTree_st H t ht k
    rw [h1, h2, h3] at this
    exact this

#print axioms LiskVerif.SMTImpl.calculateSubTree_tree

end LiskVerif.SMTImpl
