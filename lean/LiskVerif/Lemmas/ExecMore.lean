/-
More helper lemmas for the execution model (`LiskVerif.Model.Exec`): what the staged-store
operations leave alone (store, snapshot list, snapshot counter), snapshot lookup, when the event
logger accepts an event, and the part of an `App` that survives `Clear`.
Used by `LiskVerif/Props/C16_More.lean`.
-/
import LiskVerif.Lemmas.Exec

namespace LiskVerif.Exec
open LiskVerif.DiffDB

/-! ### frames of the staged-store operations -/

theorem get_frame (st : St) (k : Bytes) :
    (DiffDB.get st k).1.store = st.store ∧ (DiffDB.get st k).1.snaps = st.snaps ∧
      (DiffDB.get st k).1.snapCount = st.snapCount := by
  unfold DiffDB.get
  split
  · split <;> exact ⟨rfl, rfl, rfl⟩
  · split <;> exact ⟨rfl, rfl, rfl⟩

theorem set_frame (st : St) (k v : Bytes) :
    (DiffDB.set st k v).store = st.store ∧ (DiffDB.set st k v).snaps = st.snaps ∧
      (DiffDB.set st k v).snapCount = st.snapCount := by
  unfold DiffDB.set
  split
  · exact ⟨rfl, rfl, rfl⟩
  · split <;> exact ⟨rfl, rfl, rfl⟩

theorem del_frame (st : St) (k : Bytes) :
    (DiffDB.del st k).store = st.store ∧ (DiffDB.del st k).snaps = st.snaps ∧
      (DiffDB.del st k).snapCount = st.snapCount := by
  unfold DiffDB.del
  split <;> exact ⟨rfl, rfl, rfl⟩

theorem restore_store (st : St) (i : Nat) : (DiffDB.restore st i).1.store = st.store := by
  unfold DiffDB.restore
  split <;> rfl

theorem findSnap_filter_ne' (l : List (Nat × Cache)) (id id' : Nat) (h : id ≠ id') :
    findSnap (l.filter (fun e => e.1 ≠ id')) id = findSnap l id := by
  induction l with
  | nil => rfl
  | cons e r ih =>
    obtain ⟨i, c⟩ := e
    by_cases hi : i = id'
    · subst hi
      simp only [List.filter, ne_eq, not_true_eq_false, decide_false, findSnap, ih]
      simp [Ne.symm h]
    · simp only [List.filter, ne_eq, hi, not_false_eq_true, decide_true, findSnap, ih]

/-- the store under the staged overlay never changes while module code runs -/
theorem runItem_store (s : SecSt) (it : Item) : (runItem s it).1.st.store = s.st.store := by
  cases it with
  | set k v => exact (set_frame s.st k v).1
  | del k => exact (del_frame s.st k).1
  | get k =>
    simp only [runItem]
    split <;> exact (get_frame s.st k).1
  | chk k v => exact (get_frame s.st k).1
  | ev u n d => simp only [runItem]; split <;> rfl
  | badEv => simp only [runItem]; split <;> rfl
  | push => rfl
  | pop =>
    simp only [runItem]
    split
    · rfl
    · exact restore_store _ _
  | fail => rfl

theorem runSection_store (items : List Item) : ∀ s : SecSt,
    (runSection s items).1.st.store = s.st.store := by
  induction items with
  | nil => intro s; rfl
  | cons it r ih =>
    intro s
    simp only [runSection]
    split
    · rw [ih, runItem_store]
    · exact runItem_store s it

/-! ### when the logger accepts an event -/

/-- `Event.Validate` for an event of the scripted module: it looks at the name, the size of the data
and the number of topics only -/
def evOk (name : String) (data : Bytes) (extra : Nat) : Bool :=
  ({ module := modName, name := name, data := data, ntopics := 1 + extra, height := 0, index := 0 } :
    Event).valid

theorem createEvent_isSome (l : EventLogger) (hT : l.hasTopic = true) (n : String) (d : Bytes) (x : Nat) :
    (createEvent l modName n d x).isSome = evOk n d x := by
  unfold createEvent evOk Event.valid
  simp only [hT, Bool.not_true, Bool.false_eq_true, if_false]
  split <;> simp_all

theorem add_isSome (l : EventLogger) (hT : l.hasTopic = true) (n : String) (d : Bytes) (x : Nat) :
    (add l modName n d x).isSome = evOk n d x := by
  rw [← createEvent_isSome l hT n d x]
  unfold add
  split <;> simp_all

theorem addUnrevertible_isSome (l : EventLogger) (hT : l.hasTopic = true) (n : String) (d : Bytes)
    (x : Nat) : (addUnrevertible l modName n d x).isSome = evOk n d x := by
  rw [← createEvent_isSome l hT n d x]
  unfold addUnrevertible
  split <;> simp_all

theorem restoreSnapshot_cfg' (l : EventLogger) :
    (restoreSnapshot l).hasTopic = l.hasTopic ∧ (restoreSnapshot l).height = l.height := by
  unfold restoreSnapshot
  split <;> exact ⟨rfl, rfl⟩

/-! ### the staged store of the execution context -/

theorem stOf_ctxOf (a : App) (c : Ctx) (st : St) (h : st.store = a.store) :
    stOf a (ctxOf c st) = st := by
  cases st
  simp only [stOf, ctxOf] at *
  rw [h]

end LiskVerif.Exec
