/-
Data-level model of the block cache (property C20, clause "concurrent readers always obtain some
complete committed tip").

`LiskVerif.CacheModel` is a direct, line-by-line transcription of
`/repo/pkg/blockchain/block_cache.go` (Go line numbers in the comments):

    newBlockCache (17-25)   last (27-38)   get (40-45)   getByHeight (47-56)
    push (58-81)            pop (83-96)    len (98-102)  replace (106-122)

The mutex is NOT part of this model: every function below is the body of one critical section
(`c.mutex.Lock()` / `c.mutex.RLocker().Lock()` … `defer Unlock()`), i.e. a function from the cache
contents before the section to the contents after it (and the returned value). That sections on these
fields are atomic is the lock discipline proved in `Props/C20.lean` (`C20_blockcache_*_ok`,
`C20_lockset_implies_race_free`, `C20_mutual_exclusion`) and restated as
`C20_critical_sections_atomic` in `Props/C20_Data.lean`.

Representation choices (all exact, so that a differential test against the Go functions is possible):
  * `map[K]V`  ↦ association list with at most one binding per key (`mget` / `mset` / `mdel` are Go's
    `m[k]` (comma-ok form), `m[k] = v`, `delete(m, k)`);
  * `string(block.Header.ID)` ↦ `ID = List UInt8`;
  * `*Block` ↦ `Blk` (id, height, and `body` standing for everything else in the block); the pair
    `(*Block, bool)` returned by `last` / `get` / `getByHeight` ↦ `Option Blk`
    (`(nil, false)` ↦ `none`, `(b, true)` ↦ `some b`; no nil pointer is ever stored: `push(nil)` and
    `replace` with a nil element panic at `block.Header`);
  * `uint32` heights ↦ `Nat` with the wrapping operations `add32` / `sub32` written out where the Go code
    computes (`c.currentHeight+1`, `c.currentHeight - uint32(c.maxSize) + 1`, `c.currentHeight--`);
  * `size int` ↦ `Int`; `maxSize int` ↦ `Nat` (a negative `maxSize` makes `replace` panic on the slice
    expression; `uint32(c.maxSize)` ↦ `c.maxSize % 2^32`).

This file is core-only (no Mathlib).
-/

namespace LiskVerif.CacheModel

/-! ## Data -/

/-- `string(block.Header.ID)` -/
abbrev ID := List UInt8

/-- a block as far as the cache is concerned -/
structure Blk where
  id : ID
  height : Nat
  body : Nat
  deriving DecidableEq, Repr

/-! ## Go maps -/

/-- `v, ok := m[k]` -/
def mget {κ ν} [DecidableEq κ] : List (κ × ν) → κ → Option ν
  | [], _ => none
  | e :: m, k => if e.1 = k then some e.2 else mget m k

/-- `delete(m, k)` -/
def mdel {κ ν} [DecidableEq κ] (m : List (κ × ν)) (k : κ) : List (κ × ν) :=
  m.filter (fun e => !decide (e.1 = k))

/-- `m[k] = v` -/
def mset {κ ν} [DecidableEq κ] (m : List (κ × ν)) (k : κ) (v : ν) : List (κ × ν) :=
  (k, v) :: mdel m k

theorem mget_mdel {κ ν} [DecidableEq κ] (m : List (κ × ν)) (k q : κ) :
    mget (mdel m k) q = if q = k then none else mget m q := by
  induction m with
  | nil => simp [mdel, mget]
  | cons e m ih =>
    unfold mdel at ih ⊢
    by_cases hek : e.1 = k
    · simp only [List.filter_cons, hek, decide_true, Bool.not_true, Bool.false_eq_true, if_false, ih]
      by_cases hq : q = k
      · simp [hq]
      · have : ¬ k = q := fun h => hq h.symm
        simp [hq, mget, hek, this]
    · simp only [List.filter_cons, hek, decide_false, Bool.not_false, if_true, mget, ih]
      by_cases hq : q = k
      · subst hq; simp [hek]
      · simp [hq]

theorem mget_mset {κ ν} [DecidableEq κ] (m : List (κ × ν)) (k q : κ) (v : ν) :
    mget (mset m k v) q = if q = k then some v else mget m q := by
  unfold mset
  simp only [mget, mget_mdel]
  by_cases hq : q = k
  · subst hq; simp
  · have : ¬ k = q := fun h => hq h.symm
    simp [hq, this]

/-! ## uint32 arithmetic -/

def u32 : Nat := 4294967296

/-- `a + b` on `uint32` -/
def add32 (a b : Nat) : Nat := (a + b) % u32

/-- `a - b` on `uint32` -/
def sub32 (a b : Nat) : Nat := (a + u32 - b % u32) % u32

/-! ## The cache: block_cache.go -/

/-- block_cache.go:8-15 (without the mutex) -/
structure Cache where
  cachedBlocks : List (ID × Blk)      -- map[string]*Block
  heightIndex : List (Nat × ID)       -- map[uint32]string
  size : Int
  maxSize : Nat
  currentHeight : Nat
  deriving DecidableEq, Repr

/-- block_cache.go:17-25 -/
def newBlockCache (maxSize : Nat) : Cache :=
  { cachedBlocks := [], heightIndex := [], size := 0, maxSize := maxSize, currentHeight := 0 }

/-- block_cache.go:27-38 `last` (body of the read section) -/
def last (c : Cache) : Option Blk :=
  match mget c.heightIndex c.currentHeight with      -- :32
  | none => none                                      -- :33-35
  | some id => mget c.cachedBlocks id                 -- :36-37

/-- block_cache.go:40-45 `get` -/
def get (c : Cache) (id : ID) : Option Blk :=
  mget c.cachedBlocks id                              -- :43-44

/-- block_cache.go:47-56 `getByHeight` -/
def getByHeight (c : Cache) (height : Nat) : Option Blk :=
  match mget c.heightIndex height with                -- :50
  | none => none                                      -- :51-53
  | some id => mget c.cachedBlocks id                 -- :54-55

/-- block_cache.go:75-79 (= 116-120): the statements that enter one block -/
def insertBlock (c : Cache) (block : Blk) : Cache :=
  { c with
    cachedBlocks := mset c.cachedBlocks block.id block,          -- :75-76
    heightIndex := mset c.heightIndex block.height block.id,     -- :77
    currentHeight := block.height,                               -- :78
    size := c.size + 1 }                                         -- :79

inductive PushErr where
  | heightMismatch     -- :62
  | oldestMissing      -- :69
  deriving DecidableEq, Repr

/-- block_cache.go:58-81 `push` (body of the write section): new contents and the returned error -/
def push (c : Cache) (block : Blk) : Cache × Option PushErr :=
  if c.size ≠ 0 ∧ block.height ≠ add32 c.currentHeight 1 then          -- :61
    (c, some .heightMismatch)                                           -- :62
  else if (c.maxSize : Int) ≤ c.size then                               -- :65
    let oldestHeight := add32 (sub32 c.currentHeight (c.maxSize % u32)) 1   -- :66
    match mget c.heightIndex oldestHeight with                          -- :67
    | none => (c, some .oldestMissing)                                  -- :68-70
    | some id =>
      (insertBlock
        { c with
          heightIndex := mdel c.heightIndex oldestHeight,               -- :71
          cachedBlocks := mdel c.cachedBlocks id,                       -- :72
          size := c.size - 1 }                                          -- :73
        block, none)                                                    -- :75-80
  else (insertBlock c block, none)                                      -- :75-80

/-- block_cache.go:83-96 `pop`: new contents and the returned `*Block` (`none` = nil) -/
def pop (c : Cache) : Cache × Option Blk :=
  if c.size = 0 then (c, none) else                                     -- :86-88
  let id := (mget c.heightIndex c.currentHeight).getD []                -- :89 (missing key: "")
  let block := mget c.cachedBlocks id                                   -- :90 (missing key: nil)
  ({ c with
     heightIndex := mdel c.heightIndex c.currentHeight,                 -- :91
     cachedBlocks := mdel c.cachedBlocks id,                            -- :92
     size := c.size - 1,                                                -- :93
     currentHeight := sub32 c.currentHeight 1 },                        -- :94
   block)                                                               -- :95

/-- block_cache.go:98-102 `len` -/
def len (c : Cache) : Int := c.size

/-- block_cache.go:106-122 `replace` -/
def replace (c : Cache) (blocks : List Blk) : Cache :=
  let blocks :=
    if blocks.length > c.maxSize then blocks.drop (blocks.length - c.maxSize) else blocks   -- :109-111
  blocks.foldl insertBlock                                                                  -- :115-121
    { c with cachedBlocks := [], heightIndex := [], size := 0 }                             -- :112-114

/-! ## Specification vocabulary -/

/-- the block at height `x` of a list of blocks -/
def byHeight (w : List Blk) (x : Nat) : Option Blk := w.find? (fun b => decide (b.height = x))

/-- the block with id `i` of a list of blocks -/
def byID (w : List Blk) (i : ID) : Option Blk := w.find? (fun b => decide (b.id = i))

/-- consecutive heights starting at `h` -/
def ContigFrom : Nat → List Blk → Prop
  | _, [] => True
  | h, b :: r => b.height = h ∧ ContigFrom (h + 1) r

/-- a well-formed (piece of a) chain: consecutive `uint32` heights starting at `g`, distinct ids -/
structure ChainOK (g : Nat) (ch : List Blk) : Prop where
  contig : ContigFrom g ch
  ids : (ch.map (·.id)).Nodup
  bound : ∀ b ∈ ch, b.height < u32

/-- the cache holds exactly the blocks `w` (its *window*), in both maps -/
structure Repr (w : List Blk) (c : Cache) : Prop where
  size : c.size = w.length
  cur : ∀ b, w.getLast? = some b → c.currentHeight = b.height
  idx : ∀ h, mget c.heightIndex h = (byHeight w h).map (·.id)
  blk : ∀ i, mget c.cachedBlocks i = byID w i

/-- **The invariant**: the cache is a non-empty suffix `w` of the chain, ending at its tip, of length at
most `maxSize`. -/
def Good (chain : List Blk) (c : Cache) : Prop :=
  ∃ pre w, chain = pre ++ w ∧ w ≠ [] ∧ w.length ≤ c.maxSize ∧ Repr w c

/-! ## Lists of blocks -/

theorem contig_append {h : Nat} {w v : List Blk} :
    ContigFrom h (w ++ v) ↔ ContigFrom h w ∧ ContigFrom (h + w.length) v := by
  induction w generalizing h with
  | nil => simp [ContigFrom]
  | cons a w ih =>
    simp only [List.cons_append, ContigFrom, ih, List.length_cons]
    rw [show h + 1 + w.length = h + (w.length + 1) by omega]
    exact and_assoc.symm

theorem contig_mem {h : Nat} {w : List Blk} (hc : ContigFrom h w) {a : Blk} (ha : a ∈ w) :
    h ≤ a.height ∧ a.height < h + w.length := by
  induction w generalizing h with
  | nil => cases ha
  | cons b w ih =>
    obtain ⟨hb, hr⟩ := hc
    rcases List.mem_cons.mp ha with rfl | ha
    · simp only [List.length_cons]; omega
    · have := ih hr ha
      simp only [List.length_cons]; omega

theorem contig_last {h : Nat} {w : List Blk} {l : Blk} (hc : ContigFrom h (w ++ [l])) :
    l.height = h + w.length := by
  have := (contig_append.mp hc).2
  exact this.1

theorem contig_getLast {h : Nat} {w : List Blk} {l : Blk} (hc : ContigFrom h w)
    (hl : w.getLast? = some l) : l.height + 1 = h + w.length := by
  obtain ⟨ys, rfl⟩ := List.getLast?_eq_some_iff.mp hl
  have := contig_last hc
  simp only [List.length_append, List.length_singleton]
  omega

theorem contig_byHeight {h : Nat} {w : List Blk} (hc : ContigFrom h w) (x : Nat) :
    byHeight w x = if h ≤ x ∧ x < h + w.length then w[x - h]? else none := by
  induction w generalizing h with
  | nil => simp [byHeight]
  | cons b w ih =>
    obtain ⟨hb, hr⟩ := hc
    have ih' := ih hr
    unfold byHeight at ih' ⊢
    by_cases hx : b.height = x
    · have h0 : x - h = 0 := by omega
      have hc : h ≤ x ∧ x < h + (w.length + 1) := by omega
      simp [hx, h0, hc]
    · simp only [List.find?_cons, hx, decide_false, ih', List.length_cons]
      by_cases hc : h + 1 ≤ x ∧ x < h + 1 + w.length
      · have hc' : h ≤ x ∧ x < h + (w.length + 1) := by omega
        have hs : x - h = (x - (h + 1)) + 1 := by omega
        simp only [hc, hc', and_self, if_true]
        rw [hs, List.getElem?_cons_succ]
      · have hc' : ¬ (h ≤ x ∧ x < h + (w.length + 1)) := by omega
        simp [hc, hc']

theorem ChainOK.nil (g : Nat) : ChainOK g [] := ⟨trivial, by simp, by simp⟩

theorem ChainOK.right {g : Nat} {p w : List Blk} (h : ChainOK g (p ++ w)) : ChainOK (g + p.length) w :=
  ⟨(contig_append.mp h.contig).2,
   by have := h.ids; rw [List.map_append] at this; exact (List.nodup_append.mp this).2.1,
   fun b hb => h.bound b (List.mem_append_right _ hb)⟩

theorem ChainOK.left {g : Nat} {p w : List Blk} (h : ChainOK g (p ++ w)) : ChainOK g p :=
  ⟨(contig_append.mp h.contig).1,
   by have := h.ids; rw [List.map_append] at this; exact (List.nodup_append.mp this).1,
   fun b hb => h.bound b (List.mem_append_left _ hb)⟩

/-- the last block of a well-formed chain differs in height and id from all earlier ones -/
theorem ChainOK.fresh_last {g : Nat} {w : List Blk} {b : Blk} (h : ChainOK g (w ++ [b])) :
    ∀ a ∈ w, a.height ≠ b.height ∧ a.id ≠ b.id := by
  intro a ha
  constructor
  · have h1 := contig_mem (contig_append.mp h.contig).1 ha
    have h2 := contig_last h.contig
    omega
  · have := h.ids
    rw [List.map_append, List.nodup_append] at this
    intro hid
    exact this.2.2 a.id (List.mem_map.mpr ⟨a, ha, rfl⟩) b.id (by simp) hid

/-- the first block of a well-formed chain differs in height and id from all later ones -/
theorem ChainOK.fresh_first {g : Nat} {w : List Blk} {a : Blk} (h : ChainOK g (a :: w)) :
    ∀ x ∈ w, x.height ≠ a.height ∧ x.id ≠ a.id := by
  intro x hx
  constructor
  · have h1 := contig_mem h.contig.2 hx
    have h2 := h.contig.1
    omega
  · have := h.ids
    rw [List.map_cons, List.nodup_cons] at this
    intro hid
    exact this.1 (hid ▸ List.mem_map.mpr ⟨x, hx, rfl⟩)

theorem find?_concat_fresh (p : Blk → Bool) (w : List Blk) (b : Blk)
    (h : p b = true → ∀ a ∈ w, p a = false) :
    (w ++ [b]).find? p = if p b = true then some b else w.find? p := by
  rw [List.find?_append]
  cases hw : w.find? p with
  | some a =>
    have hpa := List.find?_some hw
    have hmem := List.mem_of_find?_eq_some hw
    by_cases hb : p b = true
    · have := h hb a hmem
      rw [hpa] at this; cases this
    · simp [hb]
  | none =>
    by_cases hb : p b = true
    · simp [hb]
    · simp [hb]

theorem byHeight_concat {w : List Blk} {b : Blk} (hf : ∀ a ∈ w, a.height ≠ b.height) (x : Nat) :
    byHeight (w ++ [b]) x = if x = b.height then some b else byHeight w x := by
  unfold byHeight
  rw [find?_concat_fresh]
  · by_cases hx : x = b.height
    · subst hx; simp
    · have : ¬ b.height = x := fun h => hx h.symm
      simp [hx, this]
  · intro hb a ha
    simp only [decide_eq_true_eq] at hb
    have := hf a ha
    simp only [decide_eq_false_iff_not]
    omega

theorem byID_concat {w : List Blk} {b : Blk} (hf : ∀ a ∈ w, a.id ≠ b.id) (i : ID) :
    byID (w ++ [b]) i = if i = b.id then some b else byID w i := by
  unfold byID
  rw [find?_concat_fresh]
  · by_cases hx : i = b.id
    · subst hx; simp
    · have : ¬ b.id = i := fun h => hx h.symm
      simp [hx, this]
  · intro hb a ha
    simp only [decide_eq_true_eq] at hb
    have := hf a ha
    simp only [decide_eq_false_iff_not]
    intro h; exact this (h.trans hb.symm)

theorem byHeight_none_of_fresh {w : List Blk} {x : Nat} (hf : ∀ a ∈ w, a.height ≠ x) :
    byHeight w x = none := by
  unfold byHeight
  rw [List.find?_eq_none]
  intro a ha
  simpa using hf a ha

theorem byID_none_of_fresh {w : List Blk} {i : ID} (hf : ∀ a ∈ w, a.id ≠ i) : byID w i = none := by
  unfold byID
  rw [List.find?_eq_none]
  intro a ha
  simpa using hf a ha

theorem byHeight_cons (a : Blk) (w : List Blk) (x : Nat) :
    byHeight (a :: w) x = if a.height = x then some a else byHeight w x := by
  unfold byHeight
  by_cases h : a.height = x <;> simp [h]

theorem byID_cons (a : Blk) (w : List Blk) (i : ID) :
    byID (a :: w) i = if a.id = i then some a else byID w i := by
  unfold byID
  by_cases h : a.id = i <;> simp [h]

theorem byHeight_some {w : List Blk} {x : Nat} {b : Blk} (h : byHeight w x = some b) :
    b ∈ w ∧ b.height = x := by
  unfold byHeight at h
  exact ⟨List.mem_of_find?_eq_some h, by simpa using List.find?_some h⟩

theorem byID_some {w : List Blk} {i : ID} {b : Blk} (h : byID w i = some b) : b ∈ w ∧ b.id = i := by
  unfold byID at h
  exact ⟨List.mem_of_find?_eq_some h, by simpa using List.find?_some h⟩

/-- with distinct ids, looking up the id of a member returns that member -/
theorem byID_of_mem {w : List Blk} (hn : (w.map (·.id)).Nodup) {b : Blk} (hb : b ∈ w) :
    byID w b.id = some b := by
  induction w with
  | nil => cases hb
  | cons a w ih =>
    rw [List.map_cons, List.nodup_cons] at hn
    rw [byID_cons]
    rcases List.mem_cons.mp hb with rfl | hb
    · simp
    · have : a.id ≠ b.id := fun h => hn.1 (h ▸ List.mem_map.mpr ⟨b, hb, rfl⟩)
      simp [this, ih hn.2 hb]

/-- with distinct heights (consecutive), looking up the height of a member returns that member -/
theorem byHeight_of_mem {g : Nat} {w : List Blk} (hc : ContigFrom g w) {b : Blk} (hb : b ∈ w) :
    byHeight w b.height = some b := by
  induction w generalizing g with
  | nil => cases hb
  | cons a w ih =>
    rw [byHeight_cons]
    rcases List.mem_cons.mp hb with rfl | hb
    · simp
    · have h1 := contig_mem hc.2 hb
      have h2 := hc.1
      have : a.height ≠ b.height := by omega
      simp [this, ih hc.2 hb]

/-- a hit in a suffix of a well-formed chain is the chain's own answer -/
theorem byHeight_suffix {g : Nat} {pre w : List Blk} (hc : ContigFrom g (pre ++ w)) {x : Nat} {b : Blk}
    (h : byHeight w x = some b) : byHeight (pre ++ w) x = some b := by
  obtain ⟨hm, hx⟩ := byHeight_some h
  subst hx
  exact byHeight_of_mem hc (List.mem_append_right _ hm)

theorem byID_suffix {pre w : List Blk} (hn : ((pre ++ w).map (·.id)).Nodup) {i : ID} {b : Blk}
    (h : byID w i = some b) : byID (pre ++ w) i = some b := by
  obtain ⟨hm, hx⟩ := byID_some h
  subst hx
  exact byID_of_mem hn (List.mem_append_right _ hm)

theorem eq_nil_or_snoc {α} (w : List α) : w = [] ∨ ∃ w' l, w = w' ++ [l] := by
  rcases List.eq_nil_or_concat w with h | ⟨w', l, h⟩
  · exact Or.inl h
  · exact Or.inr ⟨w', l, by rw [h, List.concat_eq_append]⟩

/-! ## The window representation is maintained by the statements of push / pop / replace -/

theorem repr_empty (maxSize : Nat) : Repr [] (newBlockCache maxSize) :=
  ⟨rfl, by simp, by simp [newBlockCache, mget, byHeight], by simp [newBlockCache, mget, byID]⟩

/-- block_cache.go:75-79 / 116-120 -/
theorem repr_insert {w : List Blk} {c : Cache} {b : Blk} (hr : Repr w c)
    (hf : ∀ a ∈ w, a.height ≠ b.height ∧ a.id ≠ b.id) : Repr (w ++ [b]) (insertBlock c b) := by
  refine ⟨?_, ?_, ?_, ?_⟩
  · simp only [insertBlock, hr.size, List.length_append, List.length_singleton]; omega
  · intro l hl
    simp only [List.getLast?_append, List.getLast?_singleton, Option.some_or] at hl
    cases hl; rfl
  · intro h
    simp only [insertBlock, mget_mset, hr.idx, byHeight_concat (fun a ha => (hf a ha).1)]
    by_cases hx : h = b.height <;> simp [hx]
  · intro i
    simp only [insertBlock, mget_mset, hr.blk, byID_concat (fun a ha => (hf a ha).2)]

/-- block_cache.go:71-73: the oldest block leaves -/
theorem repr_evict {a : Blk} {w : List Blk} {c : Cache} (hr : Repr (a :: w) c)
    (hf : ∀ x ∈ w, x.height ≠ a.height ∧ x.id ≠ a.id) :
    Repr w { c with heightIndex := mdel c.heightIndex a.height,
                    cachedBlocks := mdel c.cachedBlocks a.id, size := c.size - 1 } := by
  refine ⟨?_, ?_, ?_, ?_⟩
  · simp only [hr.size, List.length_cons]; omega
  · intro l hl
    apply hr.cur
    cases w with
    | nil => simp at hl
    | cons x w => simpa [List.getLast?_cons_cons] using hl
  · intro h
    simp only [mget_mdel, hr.idx, byHeight_cons]
    by_cases hx : h = a.height
    · subst hx
      simp [byHeight_none_of_fresh (fun x hx => (hf x hx).1)]
    · have : ¬ a.height = h := fun e => hx e.symm
      simp [hx, this]
  · intro i
    simp only [mget_mdel, hr.blk, byID_cons]
    by_cases hx : i = a.id
    · subst hx
      simp [byID_none_of_fresh (fun x hx => (hf x hx).2)]
    · have : ¬ a.id = i := fun e => hx e.symm
      simp [hx, this]

/-- block_cache.go:91-94: the newest block leaves -/
theorem repr_unpush {l : Blk} {w : List Blk} {c : Cache} (hr : Repr (w ++ [l]) c)
    (hf : ∀ x ∈ w, x.height ≠ l.height ∧ x.id ≠ l.id)
    (hcur : ∀ b, w.getLast? = some b → b.height = sub32 l.height 1) :
    Repr w { c with heightIndex := mdel c.heightIndex l.height,
                    cachedBlocks := mdel c.cachedBlocks l.id, size := c.size - 1,
                    currentHeight := sub32 c.currentHeight 1 } := by
  have hc : c.currentHeight = l.height := hr.cur l (by simp)
  refine ⟨?_, ?_, ?_, ?_⟩
  · simp only [hr.size, List.length_append, List.length_singleton]; omega
  · intro b hb
    simp only [hc]
    exact (hcur b hb).symm
  · intro h
    simp only [mget_mdel, hr.idx, byHeight_concat (fun a ha => (hf a ha).1)]
    by_cases hx : h = l.height
    · subst hx
      simp [byHeight_none_of_fresh (fun x hx => (hf x hx).1)]
    · simp [hx]
  · intro i
    simp only [mget_mdel, hr.blk, byID_concat (fun a ha => (hf a ha).2)]
    by_cases hx : i = l.id
    · subst hx
      simp [byID_none_of_fresh (fun x hx => (hf x hx).2)]
    · simp [hx]

/-! ## What the readers return, in terms of the window -/

theorem repr_last {g : Nat} {w : List Blk} {c : Cache} (hr : Repr w c) (hw : ChainOK g w) :
    last c = w.getLast? := by
  unfold last
  rcases eq_nil_or_snoc w with rfl | ⟨w', l, rfl⟩
  · simp [hr.idx, byHeight]
  · have hc : c.currentHeight = l.height := hr.cur l (by simp)
    have hf := hw.fresh_last
    simp only [hc, hr.idx, byHeight_concat (fun a ha => (hf a ha).1), if_true, Option.map_some,
      hr.blk, byID_concat (fun a ha => (hf a ha).2)]
    simp

theorem repr_getByHeight {g : Nat} {w : List Blk} {c : Cache} (hr : Repr w c) (hw : ChainOK g w)
    (x : Nat) : getByHeight c x = byHeight w x := by
  unfold getByHeight
  rw [hr.idx]
  cases h : byHeight w x with
  | none => simp
  | some b =>
    simp only [Option.map_some, hr.blk]
    exact byID_of_mem hw.ids (byHeight_some h).1

theorem repr_get {w : List Blk} {c : Cache} (hr : Repr w c) (i : ID) : get c i = byID w i := hr.blk i

theorem repr_len {w : List Blk} {c : Cache} (hr : Repr w c) : len c = w.length := hr.size

/-! ## push / pop / replace on a window -/

theorem push_room {g : Nat} {w : List Blk} {c : Cache} {b : Blk} (hr : Repr w c)
    (hok : ChainOK g (w ++ [b])) (hlt : w.length < c.maxSize) :
    push c b = (insertBlock c b, none) ∧ Repr (w ++ [b]) (insertBlock c b) := by
  refine ⟨?_, repr_insert hr hok.fresh_last⟩
  unfold push
  have h1 : ¬ (c.size ≠ 0 ∧ b.height ≠ add32 c.currentHeight 1) := by
    rintro ⟨hs, hh⟩
    rcases eq_nil_or_snoc w with rfl | ⟨w', l, rfl⟩
    · exact hs (by simp [hr.size])
    · have hc : c.currentHeight = l.height := hr.cur l (by simp)
      have h2 := contig_last hok.contig
      have h3 := contig_last (contig_append.mp hok.contig).1
      have h4 := hok.bound b (by simp)
      simp only [List.length_append, List.length_singleton] at h2
      apply hh
      unfold add32 u32 at *
      omega
  have h2 : ¬ ((c.maxSize : Int) ≤ c.size) := by rw [hr.size]; omega
  simp only [h1, h2, if_false]

theorem push_full {g : Nat} {a : Blk} {w : List Blk} {c : Cache} {b : Blk} (hr : Repr (a :: w) c)
    (hok : ChainOK g (a :: w ++ [b])) (hfull : c.maxSize = (a :: w).length) :
    ∃ c', push c b = (c', none) ∧ Repr (w ++ [b]) c' ∧ c'.maxSize = c.maxSize := by
  obtain ⟨l, hl⟩ : ∃ l, (a :: w).getLast? = some l := by
    cases h : (a :: w).getLast? with
    | none => simp at h
    | some l => exact ⟨l, rfl⟩
  have hc : c.currentHeight = l.height := hr.cur l hl
  have hok1 : ChainOK g (a :: w) := ChainOK.left (p := a :: w) (w := [b]) hok
  have hl1 := contig_getLast hok1.contig hl
  have hb1 := contig_last (w := a :: w) hok.contig
  have hbb := hok.bound b (by simp)
  have ha := hok.contig.1
  simp only [List.length_cons] at hl1 hb1 hfull
  have h1 : ¬ (c.size ≠ 0 ∧ b.height ≠ add32 c.currentHeight 1) := by
    rintro ⟨_, hh⟩
    apply hh
    unfold add32 u32 at *
    omega
  have h2 : (c.maxSize : Int) ≤ c.size := by rw [hr.size, hfull]; simp
  have hold : add32 (sub32 c.currentHeight (c.maxSize % u32)) 1 = a.height := by
    unfold add32 sub32 u32 at *
    omega
  have hidx : mget c.heightIndex a.height = some a.id := by
    rw [hr.idx, byHeight_cons]; simp
  have hfa : ∀ x ∈ w, x.height ≠ a.height ∧ x.id ≠ a.id := hok1.fresh_first
  have hev := repr_evict hr hfa
  have hok2 : ChainOK (g + 1) (w ++ [b]) := by
    have := ChainOK.right (p := [a]) (w := w ++ [b]) (g := g) (by simpa using hok)
    simpa using this
  refine ⟨_, ?_, repr_insert hev hok2.fresh_last, rfl⟩
  unfold push
  simp only [h1, h2, if_false, if_true, hold, hidx]

theorem pop_window {g : Nat} {w : List Blk} {l : Blk} {c : Cache} (hr : Repr (w ++ [l]) c)
    (hok : ChainOK g (w ++ [l])) :
    ∃ c', pop c = (c', some l) ∧ Repr w c' ∧ c'.maxSize = c.maxSize := by
  have hc : c.currentHeight = l.height := hr.cur l (by simp)
  have hf := hok.fresh_last
  have hs : ¬ c.size = 0 := by rw [hr.size]; simp; omega
  have hidx : mget c.heightIndex l.height = some l.id := by
    rw [hr.idx, byHeight_concat (fun a ha => (hf a ha).1)]; simp
  have hblk : mget c.cachedBlocks l.id = some l := by
    rw [hr.blk, byID_concat (fun a ha => (hf a ha).2)]; simp
  have hcur : ∀ b, w.getLast? = some b → b.height = sub32 l.height 1 := by
    intro b hb
    have hw := ChainOK.left hok
    have h1 := contig_getLast hw.contig hb
    have h2 := contig_last hok.contig
    have h3 := hok.bound l (by simp)
    unfold sub32 u32 at *
    omega
  have hrep := repr_unpush hr hf hcur
  refine ⟨{ c with heightIndex := mdel c.heightIndex l.height,
                    cachedBlocks := mdel c.cachedBlocks l.id, size := c.size - 1,
                    currentHeight := sub32 c.currentHeight 1 }, ?_, hrep, rfl⟩
  unfold pop
  simp only [hs, if_false, hc, hidx, Option.getD_some, hblk]

theorem foldl_insert_repr {g : Nat} {w : List Blk} {c : Cache} (bs : List Blk) (hr : Repr w c)
    (hok : ChainOK g (w ++ bs)) : Repr (w ++ bs) (bs.foldl insertBlock c) := by
  induction bs generalizing w c with
  | nil => simpa using hr
  | cons b bs ih =>
    have hok' : ChainOK g ((w ++ [b]) ++ bs) := by simpa using hok
    have := ih (repr_insert hr (ChainOK.left hok').fresh_last) hok'
    simpa using this

theorem foldl_insert_maxSize (bs : List Blk) (c : Cache) :
    (bs.foldl insertBlock c).maxSize = c.maxSize := by
  induction bs generalizing c with
  | nil => rfl
  | cons b bs ih => simp only [List.foldl_cons, ih]; rfl

theorem replace_maxSize (c : Cache) (bs : List Blk) : (replace c bs).maxSize = c.maxSize := by
  unfold replace
  simp only [foldl_insert_maxSize]

/-- `replace` installs the last `maxSize` of the given consecutive blocks, whatever the cache held -/
theorem replace_window {g : Nat} (c : Cache) (bs : List Blk) (hok : ChainOK g bs) :
    Repr (bs.drop (bs.length - c.maxSize)) (replace c bs) := by
  have hempty : Repr [] { c with cachedBlocks := [], heightIndex := [], size := 0 } :=
    ⟨rfl, by simp, by simp [mget, byHeight], by simp [mget, byID]⟩
  have hsplit : bs = bs.take (bs.length - c.maxSize) ++ bs.drop (bs.length - c.maxSize) :=
    (List.take_append_drop _ _).symm
  have hok' : ChainOK (g + (bs.take (bs.length - c.maxSize)).length) (bs.drop (bs.length - c.maxSize)) := by
    rw [hsplit] at hok
    exact ChainOK.right hok
  unfold replace
  by_cases hlen : bs.length > c.maxSize
  · simp only [hlen, if_true]
    have := foldl_insert_repr (w := []) _ hempty (by simpa using hok')
    simpa using this
  · have h0 : bs.length - c.maxSize = 0 := by omega
    simp only [hlen, if_false, h0, List.drop_zero]
    have := foldl_insert_repr (w := []) bs hempty (by simpa using hok)
    simpa using this

/-! ## The invariant `Good` under push / pop / replace, and what readers see -/

/-- first push into the empty cache -/
theorem good_first_push {g : Nat} (pre : List Blk) (b : Blk) (maxSize : Nat) (hcap : 1 ≤ maxSize)
    (hok : ChainOK g (pre ++ [b])) :
    ∃ c', push (newBlockCache maxSize) b = (c', none) ∧ Good (pre ++ [b]) c' ∧ c'.maxSize = maxSize := by
  have hb : ChainOK (g + pre.length) ([] ++ [b]) := by simpa using ChainOK.right hok
  obtain ⟨h1, h2⟩ := push_room (repr_empty maxSize) hb (by simp only [newBlockCache, List.length_nil]; omega)
  exact ⟨_, h1, ⟨pre, [b], rfl, by simp, by simp only [insertBlock, newBlockCache, List.length_singleton]; omega, by simpa using h2⟩, rfl⟩

/-- **push keeps the invariant** (and cannot fail) when the block extends the chain -/
theorem good_push {g : Nat} {chain : List Blk} {c : Cache} {b : Blk} (hg : Good chain c)
    (hok : ChainOK g (chain ++ [b])) :
    ∃ c', push c b = (c', none) ∧ Good (chain ++ [b]) c' ∧ c'.maxSize = c.maxSize := by
  obtain ⟨pre, w, rfl, hne, hle, hr⟩ := hg
  have hokw : ChainOK (g + pre.length) (w ++ [b]) := by
    have : ChainOK g (pre ++ (w ++ [b])) := by simpa using hok
    exact ChainOK.right this
  by_cases hlt : w.length < c.maxSize
  · obtain ⟨h1, h2⟩ := push_room hr hokw hlt
    refine ⟨_, h1, ⟨pre, w ++ [b], by simp, by simp, ?_, h2⟩, rfl⟩
    simp only [List.length_append, List.length_singleton, insertBlock]; omega
  · cases w with
    | nil => exact absurd rfl hne
    | cons a w =>
      have hfull : c.maxSize = (a :: w).length := by omega
      obtain ⟨c', h1, h2, h3⟩ := push_full hr hokw hfull
      refine ⟨c', h1, ⟨pre ++ [a], w ++ [b], by simp, by simp, ?_, h2⟩, h3⟩
      rw [h3, hfull]; simp

/-- **pop keeps the invariant** when more than one block is cached, and returns the tip -/
theorem good_pop {g : Nat} {chain : List Blk} {c : Cache} (hg : Good chain c) (hok : ChainOK g chain)
    (h1 : len c ≠ 1) :
    ∃ c' tip, pop c = (c', some tip) ∧ chain.getLast? = some tip ∧ Good chain.dropLast c' ∧
      c'.maxSize = c.maxSize := by
  obtain ⟨pre, w, rfl, hne, hle, hr⟩ := hg
  rcases eq_nil_or_snoc w with rfl | ⟨w', l, rfl⟩
  · exact absurd rfl hne
  · have hokw : ChainOK (g + pre.length) (w' ++ [l]) := ChainOK.right hok
    obtain ⟨c', hp, hr', hm⟩ := pop_window hr hokw
    refine ⟨c', l, hp, by simp [← List.append_assoc], ⟨pre, w', ?_, ?_, ?_, hr'⟩, hm⟩
    · rw [← List.append_assoc, List.dropLast_concat]
    · rintro rfl
      apply h1
      simp [len, hr.size]
    · rw [hm]; simp only [List.length_append, List.length_singleton] at hle; omega

/-- **replace establishes the invariant**: given the consecutive blocks `bs` that end the chain -/
theorem good_replace {g : Nat} (c : Cache) (pre bs : List Blk) (hne : bs ≠ []) (hcap : 1 ≤ c.maxSize)
    (hok : ChainOK g (pre ++ bs)) :
    Good (pre ++ bs) (replace c bs) ∧ (replace c bs).maxSize = c.maxSize := by
  refine ⟨⟨pre ++ bs.take (bs.length - c.maxSize), bs.drop (bs.length - c.maxSize), ?_, ?_, ?_,
    replace_window c bs (ChainOK.right hok)⟩, replace_maxSize c bs⟩
  · rw [List.append_assoc, List.take_append_drop]
  · intro h
    have := congrArg List.length h
    simp only [List.length_drop, List.length_nil] at this
    have : bs.length ≠ 0 := fun h => hne (List.length_eq_zero_iff.mp h)
    omega
  · rw [replace_maxSize, List.length_drop]; omega

/-- the tip is always there -/
theorem good_last {g : Nat} {chain : List Blk} {c : Cache} (hg : Good chain c) (hok : ChainOK g chain) :
    last c = chain.getLast? ∧ (last c).isSome = true := by
  obtain ⟨pre, w, rfl, hne, _, hr⟩ := hg
  rw [repr_last hr (ChainOK.right hok)]
  rcases eq_nil_or_snoc w with rfl | ⟨w', l, rfl⟩
  · exact absurd rfl hne
  · simp [← List.append_assoc]

/-- a height lookup that hits returns the chain's block at that height -/
theorem good_getByHeight_hit {g : Nat} {chain : List Blk} {c : Cache} (hg : Good chain c)
    (hok : ChainOK g chain) {x : Nat} {b : Blk} (h : getByHeight c x = some b) :
    byHeight chain x = some b := by
  obtain ⟨pre, w, rfl, _, _, hr⟩ := hg
  rw [repr_getByHeight hr (ChainOK.right hok)] at h
  exact byHeight_suffix hok.contig h

/-- an id lookup that hits returns the chain's block with that id -/
theorem good_get_hit {g : Nat} {chain : List Blk} {c : Cache} (hg : Good chain c)
    (hok : ChainOK g chain) {i : ID} {b : Blk} (h : get c i = some b) : byID chain i = some b := by
  obtain ⟨pre, w, rfl, _, _, hr⟩ := hg
  rw [repr_get hr] at h
  exact byID_suffix hok.ids h

/-- exactly the last `len c` heights hit -/
theorem good_getByHeight_window {g : Nat} {chain : List Blk} {c : Cache} (hg : Good chain c)
    (hok : ChainOK g chain) (x : Nat) :
    getByHeight c x =
      if g + chain.length ≤ x + (len c).toNat ∧ x < g + chain.length then byHeight chain x else none := by
  obtain ⟨pre, w, rfl, _, _, hr⟩ := hg
  have hw := ChainOK.right hok
  rw [repr_getByHeight hr hw, repr_len hr]
  simp only [Int.toNat_natCast, List.length_append]
  by_cases hc : g + (pre.length + w.length) ≤ x + w.length ∧ x < g + (pre.length + w.length)
  · simp only [hc, and_self, if_true]
    rw [contig_byHeight hw.contig, contig_byHeight hok.contig]
    have h1 : g + pre.length ≤ x ∧ x < g + pre.length + w.length := by omega
    have h2 : g ≤ x ∧ x < g + (pre ++ w).length := by simp only [List.length_append]; omega
    simp only [h1, h2, and_self, if_true]
    rw [List.getElem?_append_right (by omega)]
    congr 1; omega
  · simp only [hc, if_false]
    rw [contig_byHeight hw.contig]
    have h1 : ¬ (g + pre.length ≤ x ∧ x < g + pre.length + w.length) := by omega
    simp [h1]

end LiskVerif.CacheModel
