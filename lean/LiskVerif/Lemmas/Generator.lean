/- Lemmas about the selection model of `LiskVerif.Model.Generator` (used by Props/C15_Sel.lean). -/
import LiskVerif.Model.Generator
import LiskVerif.Lemmas.Sort

namespace LiskVerif.Generator

/-- well-formed sender lists: distinct senders; every list is non-empty, duplicate free and holds
only transactions of its sender -/
def GroupsWF (g : Groups) : Prop :=
  (g.map (·.1)).Nodup ∧ ∀ p ∈ g, p.2 ≠ [] ∧ p.2.Nodup ∧ ∀ t ∈ p.2, t.sender = p.1

/-! ### erase / replace / advance -/

theorem mem_keys {g : Groups} {k : Nat} {l : List Tx} (h : (k, l) ∈ g) : k ∈ g.map (·.1) :=
  List.mem_map.mpr ⟨(k, l), h, rfl⟩

theorem keys_unique {g : Groups} (hnd : (g.map (·.1)).Nodup) {k : Nat} {l l' : List Tx}
    (h : (k, l) ∈ g) (h' : (k, l') ∈ g) : l = l' := by
  induction g with
  | nil => cases h
  | cons p r ih =>
    obtain ⟨k0, l0⟩ := p
    simp only [List.map_cons, List.nodup_cons] at hnd
    rcases List.mem_cons.mp h with h1 | h1 <;> rcases List.mem_cons.mp h' with h2 | h2
    · cases h1; cases h2; rfl
    · cases h1; exact absurd (mem_keys h2) hnd.1
    · cases h2; exact absurd (mem_keys h1) hnd.1
    · exact ih hnd.2 h1 h2

theorem erase_sublist (s : Nat) (g : Groups) : (erase s g).Sublist g := by
  induction g with
  | nil => exact List.Sublist.refl _
  | cons p r ih =>
    obtain ⟨k, l⟩ := p
    simp only [erase]
    split
    · exact List.sublist_cons_self _ _
    · exact ih.cons_cons _

theorem mem_of_mem_erase {s : Nat} {g : Groups} {p : Nat × List Tx} (h : p ∈ erase s g) : p ∈ g :=
  (erase_sublist s g).subset h

theorem keys_erase_nodup {g : Groups} (hnd : (g.map (·.1)).Nodup) (s : Nat) :
    ((erase s g).map (·.1)).Nodup :=
  hnd.sublist ((erase_sublist s g).map _)

theorem mem_erase_iff {g : Groups} (hnd : (g.map (·.1)).Nodup) (s k : Nat) (l : List Tx) :
    (k, l) ∈ erase s g ↔ (k, l) ∈ g ∧ k ≠ s := by
  induction g with
  | nil => simp [erase]
  | cons p r ih =>
    obtain ⟨k0, l0⟩ := p
    simp only [List.map_cons, List.nodup_cons] at hnd
    simp only [erase]
    split
    · rename_i hk
      subst hk
      constructor
      · intro h
        refine ⟨List.mem_cons_of_mem _ h, ?_⟩
        intro hk; subst hk
        exact hnd.1 (mem_keys h)
      · rintro ⟨h, hk⟩
        rcases List.mem_cons.mp h with h1 | h1
        · cases h1; exact absurd rfl hk
        · exact h1
    · rename_i hk
      rw [List.mem_cons, List.mem_cons, ih hnd.2]
      constructor
      · rintro (h | h)
        · cases h; exact ⟨Or.inl rfl, hk⟩
        · exact ⟨Or.inr h.1, h.2⟩
      · rintro ⟨h | h, hks⟩
        · exact Or.inl h
        · exact Or.inr ⟨h, hks⟩

theorem not_mem_keys_erase {g : Groups} (hnd : (g.map (·.1)).Nodup) (s : Nat) :
    s ∉ (erase s g).map (·.1) := by
  intro h
  obtain ⟨⟨k, l⟩, hp, hk⟩ := List.mem_map.mp h
  simp only at hk
  subst hk
  exact ((mem_erase_iff hnd k k l).mp hp).2 rfl

theorem keys_replace (s : Nat) (l' : List Tx) (g : Groups) :
    (replace s l' g).map (·.1) = g.map (·.1) := by
  induction g with
  | nil => rfl
  | cons p r ih =>
    obtain ⟨k, l⟩ := p
    simp only [replace]
    split
    · rfl
    · simp only [List.map_cons, ih]

theorem mem_replace_iff {g : Groups} (hnd : (g.map (·.1)).Nodup) (s k : Nat) (l l' : List Tx) :
    (k, l) ∈ replace s l' g ↔ (k ≠ s ∧ (k, l) ∈ g) ∨ (k = s ∧ l = l' ∧ s ∈ g.map (·.1)) := by
  induction g with
  | nil => simp [replace]
  | cons p r ih =>
    obtain ⟨k0, l0⟩ := p
    simp only [List.map_cons, List.nodup_cons] at hnd
    simp only [replace]
    split
    · rename_i hk
      subst hk
      constructor
      · intro h
        rcases List.mem_cons.mp h with h1 | h1
        · cases h1; exact Or.inr ⟨rfl, rfl, List.mem_cons_self⟩
        · refine Or.inl ⟨?_, List.mem_cons_of_mem _ h1⟩
          intro hk; subst hk
          exact hnd.1 (mem_keys h1)
      · rintro (⟨hk, h⟩ | ⟨hk, hl, _⟩)
        · rcases List.mem_cons.mp h with h1 | h1
          · cases h1; exact absurd rfl hk
          · exact List.mem_cons_of_mem _ h1
        · subst hk; subst hl; exact List.mem_cons_self
    · rename_i hk
      rw [List.mem_cons, ih hnd.2]
      constructor
      · rintro (h | ⟨h1, h2⟩ | ⟨h1, h2, h3⟩)
        · cases h; exact Or.inl ⟨hk, List.mem_cons_self⟩
        · exact Or.inl ⟨h1, List.mem_cons_of_mem _ h2⟩
        · exact Or.inr ⟨h1, h2, List.mem_cons_of_mem _ h3⟩
      · rintro (⟨h1, h2⟩ | ⟨h1, h2, h3⟩)
        · rcases List.mem_cons.mp h2 with h | h
          · exact Or.inl h
          · exact Or.inr (Or.inl ⟨h1, h⟩)
        · rcases List.mem_cons.mp h3 with h | h
          · exact absurd h.symm hk
          · exact Or.inr (Or.inr ⟨h1, h2, h⟩)

theorem GroupsWF.erase {g : Groups} (h : GroupsWF g) (s : Nat) : GroupsWF (erase s g) :=
  ⟨keys_erase_nodup h.1 s, fun p hp => h.2 p (mem_of_mem_erase hp)⟩

theorem GroupsWF.advance {g : Groups} (h : GroupsWF g) {s : Nat} {t : Tx} {rest : List Tx}
    (hm : (s, t :: rest) ∈ g) : GroupsWF (advance s rest g) := by
  cases rest with
  | nil => exact h.erase s
  | cons a rest' =>
    simp only [Generator.advance]
    refine ⟨by rw [keys_replace]; exact h.1, ?_⟩
    rintro ⟨k, l⟩ hp
    rcases (mem_replace_iff h.1 s k l _).mp hp with ⟨_, hp'⟩ | ⟨hk, hl, _⟩
    · exact h.2 _ hp'
    · subst hk; subst hl
      have := h.2 _ hm
      refine ⟨by simp, (List.nodup_cons.mp this.2.1).2, fun x hx => this.2.2 x (List.mem_cons_of_mem _ hx)⟩

/-- groups of `advance s rest g`: groups of `g` with another sender, or `(s, rest)` -/
theorem mem_advance {g : Groups} (hnd : (g.map (·.1)).Nodup) {s : Nat} {rest : List Tx}
    {k : Nat} {l : List Tx} (h : (k, l) ∈ advance s rest g) :
    (k ≠ s ∧ (k, l) ∈ g) ∨ (k = s ∧ l = rest ∧ rest ≠ []) := by
  cases rest with
  | nil =>
    have := (mem_erase_iff hnd s k l).mp h
    exact Or.inl ⟨this.2, this.1⟩
  | cons a rest' =>
    rcases (mem_replace_iff hnd s k l _).mp h with h1 | ⟨h1, h2, _⟩
    · exact Or.inl h1
    · exact Or.inr ⟨h1, h2, by simp⟩

theorem mem_advance_of_ne {g : Groups} (hnd : (g.map (·.1)).Nodup) {s : Nat} {rest : List Tx}
    {k : Nat} {l : List Tx} (hk : k ≠ s) (h : (k, l) ∈ g) : (k, l) ∈ advance s rest g := by
  cases rest with
  | nil => exact (mem_erase_iff hnd s k l).mpr ⟨h, hk⟩
  | cons a rest' => exact (mem_replace_iff hnd s k l _).mpr (Or.inl ⟨hk, h⟩)

theorem mem_advance_self {g : Groups} (hnd : (g.map (·.1)).Nodup) {s : Nat} {t a : Tx}
    {rest : List Tx} (hm : (s, t :: a :: rest) ∈ g) : (s, a :: rest) ∈ advance s (a :: rest) g :=
  (mem_replace_iff hnd s s _ _).mpr (Or.inr ⟨rfl, rfl, mem_keys hm⟩)

/-! ### heads -/

theorem mem_heads {g : Groups} {t : Tx} : t ∈ heads g ↔ ∃ s rest, (s, t :: rest) ∈ g := by
  simp only [heads, List.mem_filterMap]
  constructor
  · rintro ⟨⟨s, l⟩, hp, hh⟩
    cases l with
    | nil => simp at hh
    | cons a r =>
      simp only [List.head?_cons, Option.some.injEq] at hh
      subst hh
      exact ⟨s, r, hp⟩
  · rintro ⟨s, rest, hp⟩
    exact ⟨(s, t :: rest), hp, rfl⟩

/-! ### runs -/

/-- every selected transaction belongs to a group -/
theorem Run.mem_groups {ok : List Tx → Tx → Bool} {maxSize : Nat} {g : Groups} {total : Nat}
    {acc R : List Tx} {evs : List Ev} (h : Run ok maxSize g total acc R evs) (hwf : GroupsWF g) :
    ∀ x ∈ R, ∃ l, (x.sender, l) ∈ g ∧ x ∈ l := by
  induction h with
  | done total acc => intro x hx; cases hx
  | cut hmax hsz => intro x hx; cases hx
  | skip hmax hsz hok hrun ih =>
    intro x hx
    obtain ⟨l, hl, hxl⟩ := ih (hwf.erase _) x hx
    exact ⟨l, mem_of_mem_erase hl, hxl⟩
  | @take g total acc s t rest R evs hmax hsz hok hrun ih =>
    intro x hx
    rcases List.mem_cons.mp hx with rfl | hx
    · have := (hwf.2 _ hmax.1).2.2 x List.mem_cons_self
      simp only at this
      exact ⟨x :: rest, this ▸ hmax.1, List.mem_cons_self⟩
    · obtain ⟨l, hl, hxl⟩ := ih (hwf.advance hmax.1) x hx
      rcases mem_advance hwf.1 hl with ⟨_, h1⟩ | ⟨h1, h2, _⟩
      · exact ⟨l, h1, hxl⟩
      · subst h2
        exact ⟨t :: l, h1 ▸ hmax.1, List.mem_cons_of_mem _ hxl⟩

/-- a sender without a group gets nothing selected -/
theorem Run.sender_mem_keys {ok : List Tx → Tx → Bool} {maxSize : Nat} {g : Groups} {total : Nat}
    {acc R : List Tx} {evs : List Ev} (h : Run ok maxSize g total acc R evs) (hwf : GroupsWF g)
    {x : Tx} (hx : x ∈ R) : x.sender ∈ g.map (·.1) := by
  obtain ⟨l, hl, _⟩ := h.mem_groups hwf x hx
  exact mem_keys hl

/-- after popping `t` from its group, `t` is never selected again -/
theorem Run.head_not_mem {ok : List Tx → Tx → Bool} {maxSize : Nat} {g : Groups} {total : Nat}
    {acc R : List Tx} {evs : List Ev} {s : Nat} {t : Tx} {rest : List Tx} (hwf : GroupsWF g)
    (hm : (s, t :: rest) ∈ g) (h : Run ok maxSize (advance s rest g) total acc R evs) : t ∉ R := by
  intro ht
  obtain ⟨l, hl, htl⟩ := h.mem_groups (hwf.advance hm) t ht
  have hw := hwf.2 _ hm
  have hs : t.sender = s := hw.2.2 t List.mem_cons_self
  rcases mem_advance hwf.1 hl with ⟨h1, _⟩ | ⟨_, h2, _⟩
  · exact h1 hs
  · subst h2
    exact (List.nodup_cons.mp hw.2.1).1 htl

theorem Run.nodup {ok : List Tx → Tx → Bool} {maxSize : Nat} {g : Groups} {total : Nat}
    {acc R : List Tx} {evs : List Ev} (h : Run ok maxSize g total acc R evs) (hwf : GroupsWF g) :
    R.Nodup := by
  induction h with
  | done total acc => exact List.nodup_nil
  | cut hmax hsz => exact List.nodup_nil
  | skip hmax hsz hok hrun ih => exact ih (hwf.erase _)
  | take hmax hsz hok hrun ih =>
    exact List.nodup_cons.mpr ⟨Run.head_not_mem hwf hmax.1 hrun, ih (hwf.advance hmax.1)⟩

theorem Run.filter_eq_nil {ok : List Tx → Tx → Bool} {maxSize : Nat} {g : Groups} {total : Nat}
    {acc R : List Tx} {evs : List Ev} (h : Run ok maxSize g total acc R evs) (hwf : GroupsWF g)
    {s : Nat} (hs : s ∉ g.map (·.1)) : R.filter (fun t => t.sender == s) = [] := by
  apply List.filter_eq_nil_iff.mpr
  intro x hx hxs
  have : x.sender = s := by simpa using hxs
  exact hs (this ▸ h.sender_mem_keys hwf hx)

/-- per sender, the selected transactions are a prefix of the sender's list -/
theorem Run.filter_prefix {ok : List Tx → Tx → Bool} {maxSize : Nat} {g : Groups} {total : Nat}
    {acc R : List Tx} {evs : List Ev} (h : Run ok maxSize g total acc R evs) (hwf : GroupsWF g) :
    ∀ s l, (s, l) ∈ g → R.filter (fun t => t.sender == s) <+: l := by
  induction h with
  | done total acc => intro s l hl; cases hl
  | cut hmax hsz => intro s l hl; exact List.nil_prefix
  | @skip g total acc s0 t0 rest0 R evs hmax hsz hok hrun ih =>
    intro s l hl
    by_cases hs : s = s0
    · subst hs
      rw [hrun.filter_eq_nil (hwf.erase _) (not_mem_keys_erase hwf.1 s)]
      exact List.nil_prefix
    · exact ih (hwf.erase _) s l ((mem_erase_iff hwf.1 s0 s l).mpr ⟨hl, hs⟩)
  | @take g total acc s0 t0 rest0 R evs hmax hsz hok hrun ih =>
    intro s l hl
    have hw := hwf.2 _ hmax.1
    have ht0 : t0.sender = s0 := hw.2.2 t0 List.mem_cons_self
    by_cases hs : s = s0
    · subst hs
      have hl' : l = t0 :: rest0 := keys_unique hwf.1 hl hmax.1
      subst hl'
      have hf : List.filter (fun t => t.sender == s) (t0 :: R) =
          t0 :: List.filter (fun t => t.sender == s) R := by simp [ht0]
      rw [hf]
      apply (List.prefix_cons_inj t0).mpr
      cases rest0 with
      | nil =>
        rw [hrun.filter_eq_nil (hwf.advance hmax.1) (not_mem_keys_erase hwf.1 s)]
        exact List.nil_prefix
      | cons a r => exact ih (hwf.advance hmax.1) s _ (mem_advance_self hwf.1 hmax.1)
    · have hf : List.filter (fun t => t.sender == s) (t0 :: R) =
          List.filter (fun t => t.sender == s) R := by
        simp only [List.filter_cons, ht0]
        rw [if_neg]
        simpa using fun h => hs h.symm
      rw [hf]
      exact ih (hwf.advance hmax.1) s l (mem_advance_of_ne hwf.1 hs hl)

theorem Run.take_mem {ok : List Tx → Tx → Bool} {maxSize : Nat} {g : Groups} {total : Nat}
    {acc R : List Tx} {evs : List Ev} (h : Run ok maxSize g total acc R evs) :
    ∀ t hs, Ev.take t hs ∈ evs → t ∈ R := by
  induction h with
  | done total acc => intro t hs h; cases h
  | cut hmax hsz =>
    intro t hs h
    rcases List.mem_cons.mp h with h | h
    · cases h
    · cases h
  | skip hmax hsz hok hrun ih =>
    intro t hs h
    rcases List.mem_cons.mp h with h | h
    · cases h
    · exact ih t hs h
  | take hmax hsz hok hrun ih =>
    intro t hs h
    rcases List.mem_cons.mp h with h | h
    · cases h; exact List.mem_cons_self
    · exact List.mem_cons_of_mem _ (ih t hs h)

/-- every selected transaction was accepted by `ok` (state-independent verdicts) -/
theorem Run.ok_of_mem {okb : Tx → Bool} {maxSize : Nat} {g : Groups} {total : Nat}
    {acc R : List Tx} {evs : List Ev} (h : Run (fun _ t => okb t) maxSize g total acc R evs) :
    ∀ x ∈ R, okb x = true := by
  induction h with
  | done total acc => intro x hx; cases hx
  | cut hmax hsz => intro x hx; cases hx
  | skip hmax hsz hok hrun ih => exact ih
  | take hmax hsz hok hrun ih =>
    intro x hx
    rcases List.mem_cons.mp hx with rfl | hx
    · exact hok
    · exact ih x hx

/-- a prefix of `l1 ++ u :: l2` not containing `u` consists of elements of `l1` -/
theorem prefix_mem_left {α : Type} {p l1 l2 : List α} {u : α} (h : p <+: l1 ++ u :: l2)
    (hu : u ∉ p) : ∀ w ∈ p, w ∈ l1 := by
  induction l1 generalizing p with
  | nil =>
    cases p with
    | nil => intro w hw; cases hw
    | cons a p' =>
      have := List.cons_prefix_cons.mp h
      exact absurd (this.1 ▸ List.mem_cons_self) hu
  | cons b l1 ih =>
    cases p with
    | nil => intro w hw; cases hw
    | cons a p' =>
      have := List.cons_prefix_cons.mp h
      intro w hw
      rcases List.mem_cons.mp hw with rfl | hw
      · exact this.1 ▸ List.mem_cons_self
      · exact List.mem_cons_of_mem _ (ih this.2 (fun h => hu (List.mem_cons_of_mem _ h)) w hw)

/-! ### initGroups -/

/-- list of sender `s` (first entry with that key; `[]` when there is none) -/
def glookup (s : Nat) : Groups → List Tx
  | [] => []
  | (k, l) :: r => if k = s then l else glookup s r

theorem glookup_of_mem {g : Groups} (hnd : (g.map (·.1)).Nodup) {s : Nat} {l : List Tx}
    (h : (s, l) ∈ g) : glookup s g = l := by
  induction g with
  | nil => cases h
  | cons p r ih =>
    obtain ⟨k0, l0⟩ := p
    simp only [List.map_cons, List.nodup_cons] at hnd
    simp only [glookup]
    rcases List.mem_cons.mp h with h1 | h1
    · cases h1; simp
    · have : k0 ≠ s := fun hk => hnd.1 (hk ▸ mem_keys h1)
      rw [if_neg this]
      exact ih hnd.2 h1

theorem glookup_addTx (s : Nat) (t : Tx) (g : Groups) :
    glookup s (addTx t g) = if t.sender = s then glookup s g ++ [t] else glookup s g := by
  induction g with
  | nil =>
    simp only [addTx, glookup]
    split <;> simp
  | cons p r ih =>
    obtain ⟨k, l⟩ := p
    simp only [addTx]
    by_cases hk : k = t.sender
    · rw [if_pos hk]
      simp only [glookup]
      subst hk
      by_cases hs : t.sender = s
      · simp [hs]
      · simp [hs]
    · rw [if_neg hk]
      simp only [glookup]
      by_cases hs : k = s
      · have : ¬ t.sender = s := fun h => hk (hs.trans h.symm)
        simp [hs, this]
      · simp only [if_neg hs]
        exact ih

theorem glookup_groupBySender (s : Nat) (txs : List Tx) (g : Groups) :
    glookup s (groupBySender txs g) = glookup s g ++ txs.filter (fun t => t.sender == s) := by
  induction txs generalizing g with
  | nil => simp [groupBySender]
  | cons t r ih =>
    simp only [groupBySender]
    rw [ih, glookup_addTx, List.filter_cons]
    by_cases h : t.sender = s
    · simp [h]
    · simp [h]

theorem mem_keys_addTx (t : Tx) (g : Groups) (k : Nat) :
    k ∈ (addTx t g).map (·.1) ↔ k ∈ g.map (·.1) ∨ k = t.sender := by
  induction g with
  | nil => simp [addTx]
  | cons p r ih =>
    obtain ⟨k0, l0⟩ := p
    simp only [addTx]
    split
    · rename_i hk
      simp only [List.map_cons, List.mem_cons]
      constructor
      · exact Or.inl
      · rintro (h | h)
        · exact h
        · exact Or.inl (h.trans hk.symm)
    · simp only [List.map_cons, List.mem_cons, ih]
      constructor
      · rintro (h | h | h)
        · exact Or.inl (Or.inl h)
        · exact Or.inl (Or.inr h)
        · exact Or.inr h
      · rintro ((h | h) | h)
        · exact Or.inl h
        · exact Or.inr (Or.inl h)
        · exact Or.inr (Or.inr h)

theorem keys_addTx_nodup (t : Tx) {g : Groups} (hnd : (g.map (·.1)).Nodup) :
    ((addTx t g).map (·.1)).Nodup := by
  induction g with
  | nil => simp [addTx]
  | cons p r ih =>
    obtain ⟨k0, l0⟩ := p
    simp only [List.map_cons, List.nodup_cons] at hnd
    simp only [addTx]
    split
    · simp only [List.map_cons, List.nodup_cons]; exact hnd
    · rename_i hk
      simp only [List.map_cons, List.nodup_cons]
      refine ⟨?_, ih hnd.2⟩
      intro h
      rcases (mem_keys_addTx t r k0).mp h with h | h
      · exact hnd.1 h
      · exact hk h

theorem keys_groupBySender_nodup (txs : List Tx) {g : Groups} (hnd : (g.map (·.1)).Nodup) :
    ((groupBySender txs g).map (·.1)).Nodup := by
  induction txs generalizing g with
  | nil => exact hnd
  | cons t r ih => exact ih (keys_addTx_nodup t hnd)

theorem addTx_ne_nil (t : Tx) {g : Groups} (h : ∀ p ∈ g, p.2 ≠ []) : ∀ p ∈ addTx t g, p.2 ≠ [] := by
  induction g with
  | nil =>
    intro p hp
    simp only [addTx, List.mem_singleton] at hp
    subst hp; simp
  | cons q r ih =>
    obtain ⟨k0, l0⟩ := q
    intro p hp
    simp only [addTx] at hp
    split at hp
    · rcases List.mem_cons.mp hp with h1 | h1
      · subst h1; simp
      · exact h p (List.mem_cons_of_mem _ h1)
    · rcases List.mem_cons.mp hp with h1 | h1
      · subst h1; exact h _ List.mem_cons_self
      · exact ih (fun p hp => h p (List.mem_cons_of_mem _ hp)) p h1

theorem groupBySender_ne_nil (txs : List Tx) {g : Groups} (h : ∀ p ∈ g, p.2 ≠ []) :
    ∀ p ∈ groupBySender txs g, p.2 ≠ [] := by
  induction txs generalizing g with
  | nil => exact h
  | cons t r ih => exact ih (addTx_ne_nil t h)

theorem initGroups_mem {txs : List Tx} {s : Nat} {l : List Tx} (h : (s, l) ∈ initGroups txs) :
    l = isort nonceLe (txs.filter fun t => t.sender == s) ∧ (txs.filter fun t => t.sender == s) ≠ [] := by
  simp only [initGroups, List.mem_map] at h
  obtain ⟨⟨k, l0⟩, hp, he⟩ := h
  simp only [Prod.mk.injEq] at he
  obtain ⟨hk, hl⟩ := he
  subst hk
  have hnd : ((groupBySender txs []).map (·.1)).Nodup := keys_groupBySender_nodup txs (by simp)
  have h1 := glookup_of_mem hnd hp
  rw [glookup_groupBySender] at h1
  simp only [glookup, List.nil_append] at h1
  have h2 := groupBySender_ne_nil txs (g := []) (by intro p hp; cases hp) _ hp
  subst hl
  exact ⟨by rw [h1], by rw [h1]; exact h2⟩

theorem keys_initGroups (txs : List Tx) :
    (initGroups txs).map (·.1) = (groupBySender txs []).map (·.1) := by
  simp only [initGroups, List.map_map]
  rfl

theorem initGroups_wf {txs : List Tx} (hnd : txs.Nodup) : GroupsWF (initGroups txs) := by
  refine ⟨?_, ?_⟩
  · rw [keys_initGroups]; exact keys_groupBySender_nodup txs (by simp)
  · rintro ⟨s, l⟩ hp
    obtain ⟨hl, hne⟩ := initGroups_mem hp
    have hperm := isort_perm nonceLe (txs.filter fun t => t.sender == s)
    subst hl
    refine ⟨?_, ?_, ?_⟩
    · intro h
      apply hne
      have := hperm.length_eq
      simp only at h
      rw [h] at this
      exact List.length_eq_zero_iff.mp this.symm
    · exact hperm.nodup_iff.mpr (hnd.filter _)
    · intro t ht
      have := (List.mem_filter.mp ((mem_isort _ _ _).mp ht)).2
      simpa using this

theorem nonceLe_trans (a b c : Tx) (h1 : nonceLe a b = true) (h2 : nonceLe b c = true) :
    nonceLe a c = true := by
  simp only [nonceLe, decide_eq_true_eq] at *
  omega

theorem nonceLe_total (a b : Tx) : (nonceLe a b || nonceLe b a) = true := by
  simp only [nonceLe, Bool.or_eq_true, decide_eq_true_eq]
  omega

theorem isort_nonce_sorted (l : List Tx) :
    (isort nonceLe l).Pairwise (fun a b => a.nonce ≤ b.nonce) :=
  (isort_pairwise nonceLe nonceLe_trans nonceLe_total l).imp
    (fun h => by simpa [nonceLe] using h)

/-! ### txCount -/

theorem txCount_cons (k : Nat) (l : List Tx) (r : Groups) :
    txCount ((k, l) :: r) = l.length + txCount r := by
  simp [txCount]

theorem txCount_addTx (t : Tx) (g : Groups) : txCount (addTx t g) = txCount g + 1 := by
  induction g with
  | nil => simp [addTx, txCount]
  | cons p r ih =>
    obtain ⟨k, l⟩ := p
    simp only [addTx]
    split
    · simp only [txCount_cons, List.length_append, List.length_singleton]; omega
    · simp only [txCount_cons, ih]; omega

theorem txCount_groupBySender (txs : List Tx) (g : Groups) :
    txCount (groupBySender txs g) = txCount g + txs.length := by
  induction txs generalizing g with
  | nil => simp [groupBySender]
  | cons t r ih => simp only [groupBySender, ih, txCount_addTx, List.length_cons]; omega

theorem txCount_initGroups (txs : List Tx) : txCount (initGroups txs) = txs.length := by
  have : ∀ g : Groups, txCount (g.map fun p => (p.1, isort nonceLe p.2)) = txCount g := by
    intro g
    induction g with
    | nil => rfl
    | cons p r ih =>
      obtain ⟨k, l⟩ := p
      simp only [List.map_cons, txCount_cons, ih, (isort_perm nonceLe l).length_eq]
  rw [initGroups, this, txCount_groupBySender]
  simp [txCount]

theorem txCount_erase {g : Groups} (hnd : (g.map (·.1)).Nodup) {s : Nat} {l : List Tx}
    (h : (s, l) ∈ g) : txCount (erase s g) + l.length = txCount g := by
  induction g with
  | nil => cases h
  | cons p r ih =>
    obtain ⟨k0, l0⟩ := p
    simp only [List.map_cons, List.nodup_cons] at hnd
    simp only [erase]
    rcases List.mem_cons.mp h with h1 | h1
    · cases h1
      simp only [if_true, txCount_cons]; omega
    · have : k0 ≠ s := fun hk => hnd.1 (hk ▸ mem_keys h1)
      rw [if_neg this]
      simp only [txCount_cons]
      have := ih hnd.2 h1
      omega

theorem txCount_replace {g : Groups} (hnd : (g.map (·.1)).Nodup) {s : Nat} {l l' : List Tx}
    (h : (s, l) ∈ g) : txCount (replace s l' g) + l.length = txCount g + l'.length := by
  induction g with
  | nil => cases h
  | cons p r ih =>
    obtain ⟨k0, l0⟩ := p
    simp only [List.map_cons, List.nodup_cons] at hnd
    simp only [replace]
    rcases List.mem_cons.mp h with h1 | h1
    · cases h1
      simp only [if_true, txCount_cons]; omega
    · have : k0 ≠ s := fun hk => hnd.1 (hk ▸ mem_keys h1)
      rw [if_neg this]
      simp only [txCount_cons]
      have := ih hnd.2 h1
      omega

theorem txCount_advance_lt {g : Groups} (hnd : (g.map (·.1)).Nodup) {s : Nat} {t : Tx}
    {rest : List Tx} (h : (s, t :: rest) ∈ g) : txCount (advance s rest g) < txCount g := by
  cases rest with
  | nil =>
    have := txCount_erase hnd h
    simp only [advance, List.length_cons] at *
    omega
  | cons a r =>
    have := txCount_replace (l' := a :: r) hnd h
    simp only [advance, List.length_cons] at *
    omega

theorem txCount_erase_lt {g : Groups} (hnd : (g.map (·.1)).Nodup) {s : Nat} {t : Tx}
    {rest : List Tx} (h : (s, t :: rest) ∈ g) : txCount (erase s g) < txCount g := by
  have := txCount_erase hnd h
  simp only [List.length_cons] at this
  omega

theorem eq_nil_of_txCount_zero {g : Groups} (hwf : GroupsWF g) (h : txCount g = 0) : g = [] := by
  cases g with
  | nil => rfl
  | cons p r =>
    obtain ⟨k, l⟩ := p
    have := (hwf.2 _ List.mem_cons_self).1
    simp only [txCount_cons] at h
    cases l with
    | nil => exact absurd rfl this
    | cons a l' => simp only [List.length_cons] at h; omega

/-! ### pickMax -/

theorem pickMax_some {g : Groups} {s : Nat} {t : Tx} {rest : List Tx}
    (h : pickMax g = some (s, t, rest)) : IsMaxHead g s t rest := by
  induction g generalizing s t rest with
  | nil => simp [pickMax] at h
  | cons p r ih =>
    obtain ⟨k, l⟩ := p
    cases l with
    | nil =>
      simp only [pickMax] at h
      have := ih h
      refine ⟨List.mem_cons_of_mem _ this.1, ?_⟩
      intro x hx
      apply this.2
      obtain ⟨s', rest', hm⟩ := mem_heads.mp hx
      rcases List.mem_cons.mp hm with h1 | h1
      · cases h1
      · exact mem_heads.mpr ⟨s', rest', h1⟩
    | cons a l' =>
      simp only [pickMax] at h
      split at h
      · rename_i hnone
        cases h
        refine ⟨List.mem_cons_self, ?_⟩
        intro x hx
        obtain ⟨s', rest', hm⟩ := mem_heads.mp hx
        rcases List.mem_cons.mp hm with h1 | h1
        · cases h1; exact Nat.le_refl _
        · -- r has a non-empty list, so pickMax r ≠ none
          exfalso
          clear ih hx
          induction r with
          | nil => cases h1
          | cons q r' ih' =>
            obtain ⟨k2, l2⟩ := q
            cases l2 with
            | nil =>
              simp only [pickMax] at hnone
              rcases List.mem_cons.mp h1 with h2 | h2
              · cases h2
              · exact ih' hnone (List.mem_cons_of_mem _ h2) h2
            | cons b l2' =>
              simp only [pickMax] at hnone
              split at hnone
              · cases hnone
              · split at hnone <;> cases hnone
      · rename_i s' t' rest' hsome
        have ihr := ih hsome
        split at h
        · rename_i hlt
          cases h
          refine ⟨List.mem_cons_of_mem _ ihr.1, ?_⟩
          intro x hx
          obtain ⟨s2, rest2, hm⟩ := mem_heads.mp hx
          rcases List.mem_cons.mp hm with h1 | h1
          · cases h1; exact Nat.le_of_lt hlt
          · exact ihr.2 x (mem_heads.mpr ⟨s2, rest2, h1⟩)
        · rename_i hlt
          cases h
          refine ⟨List.mem_cons_self, ?_⟩
          intro x hx
          obtain ⟨s2, rest2, hm⟩ := mem_heads.mp hx
          rcases List.mem_cons.mp hm with h1 | h1
          · cases h1; exact Nat.le_refl _
          · have := ihr.2 x (mem_heads.mpr ⟨s2, rest2, h1⟩)
            omega

theorem pickMax_none {g : Groups} (h : pickMax g = none) : ∀ p ∈ g, p.2 = [] := by
  induction g with
  | nil => intro p hp; cases hp
  | cons q r ih =>
    obtain ⟨k, l⟩ := q
    cases l with
    | nil =>
      simp only [pickMax] at h
      intro p hp
      rcases List.mem_cons.mp hp with h1 | h1
      · subst h1; rfl
      · exact ih h p h1
    | cons a l' =>
      simp only [pickMax] at h
      split at h
      · cases h
      · split at h <;> cases h

theorem selectLoop_run (ok : List Tx → Tx → Bool) (maxSize : Nat) (fuel : Nat) :
    ∀ (g : Groups) (total : Nat) (acc : List Tx), GroupsWF g → txCount g ≤ fuel →
      ∃ evs, Run ok maxSize g total acc (selectLoop ok maxSize fuel g total acc) evs := by
  induction fuel with
  | zero =>
    intro g total acc hwf hc
    have : g = [] := eq_nil_of_txCount_zero hwf (by omega)
    subst this
    exact ⟨[], Run.done total acc⟩
  | succ fuel ih =>
    intro g total acc hwf hc
    simp only [selectLoop]
    split
    · rename_i hnone
      have hall := pickMax_none hnone
      have : g = [] := by
        cases g with
        | nil => rfl
        | cons p r => exact absurd (hall p List.mem_cons_self) (hwf.2 p List.mem_cons_self).1
      subst this
      exact ⟨[], Run.done total acc⟩
    · rename_i s t rest hsome
      have hmax := pickMax_some hsome
      split
      · rename_i hsz
        exact ⟨_, Run.cut hmax hsz⟩
      · rename_i hsz
        split
        · rename_i hok
          have hlt := txCount_advance_lt hwf.1 hmax.1
          obtain ⟨evs, hr⟩ := ih (advance s rest g) (total + t.size) (acc ++ [t])
            (hwf.advance hmax.1) (by omega)
          exact ⟨_, Run.take hmax (by omega) hok hr⟩
        · rename_i hok
          have hlt := txCount_erase_lt hwf.1 hmax.1
          obtain ⟨evs, hr⟩ := ih (erase s g) total acc (hwf.erase s) (by omega)
          exact ⟨_, Run.skip hmax (by omega) (by simpa using hok) hr⟩

/-! ### validator -/

theorem foldl_max_bound (l : List Tx) (m : Nat) :
    m ≤ l.foldl (fun m t => max m t.prio) m ∧
      ∀ t ∈ l, t.prio ≤ l.foldl (fun m t => max m t.prio) m := by
  induction l generalizing m with
  | nil => exact ⟨Nat.le_refl _, fun t ht => by cases ht⟩
  | cons a r ih =>
    simp only [List.foldl_cons]
    have := ih (max m a.prio)
    refine ⟨by omega, ?_⟩
    intro t ht
    rcases List.mem_cons.mp ht with rfl | ht
    · omega
    · exact this.2 t ht

theorem le_maxPrio {g : Groups} {t : Tx} (h : t ∈ heads g) : t.prio ≤ maxPrio g :=
  (foldl_max_bound (heads g) 0).2 t h

theorem maxPrio_le {g : Groups} {b : Nat} (h : ∀ x ∈ heads g, x.prio ≤ b) : maxPrio g ≤ b := by
  unfold maxPrio
  have key : ∀ (l : List Tx) (m : Nat), m ≤ b → (∀ x ∈ l, x.prio ≤ b) →
      l.foldl (fun m t => max m t.prio) m ≤ b := by
    intro l
    induction l with
    | nil => intro m hm _; simpa using hm
    | cons a r ih =>
      intro m hm hl
      simp only [List.foldl_cons]
      apply ih
      · have := hl a List.mem_cons_self; omega
      · intro x hx; exact hl x (List.mem_cons_of_mem _ hx)
  exact key _ 0 (Nat.zero_le _) h

/-- a head has maximal priority among the heads iff its priority is `maxPrio` -/
theorem isMaxHead_iff {g : Groups} {s : Nat} {t : Tx} {rest : List Tx} (hm : (s, t :: rest) ∈ g) :
    IsMaxHead g s t rest ↔ t.prio = maxPrio g := by
  have hh : t ∈ heads g := mem_heads.mpr ⟨s, rest, hm⟩
  constructor
  · intro h
    have h1 := le_maxPrio hh
    have h2 := maxPrio_le h.2
    omega
  · intro h
    refine ⟨hm, ?_⟩
    intro x hx
    rw [h]
    exact le_maxPrio hx

/-- soundness of the validator: every accepted result is a run -/
theorem checkLoop_run (okb : Tx → Bool) (maxSize : Nat) (fuel : Nat) :
    ∀ (g : Groups) (total : Nat) (R acc : List Tx), checkLoop okb maxSize fuel g total R = true →
      ∃ evs, Run (fun _ t => okb t) maxSize g total acc R evs := by
  induction fuel with
  | zero =>
    intro g total R acc h
    simp only [checkLoop, Bool.and_eq_true, List.isEmpty_iff] at h
    obtain ⟨rfl, rfl⟩ := h
    exact ⟨[], Run.done _ _⟩
  | succ fuel ih =>
    intro g total R acc h
    cases g with
    | nil =>
      simp only [checkLoop, List.isEmpty_iff] at h
      subst h
      exact ⟨[], Run.done _ _⟩
    | cons q r =>
      simp only [checkLoop] at h
      generalize q :: r = g at h ⊢
      obtain ⟨p, hp, hf⟩ := List.any_eq_true.mp h
      obtain ⟨s, l⟩ := p
      cases l with
      | nil => simp at hf
      | cons t rest =>
        simp only [Bool.and_eq_true, decide_eq_true_eq] at hf
        obtain ⟨hprio, hf⟩ := hf
        have hm : IsMaxHead g s t rest := (isMaxHead_iff hp).mpr hprio
        by_cases hsz : t.size + total > maxSize
        · simp only [hsz, ↓reduceIte, List.isEmpty_iff] at hf
          subst hf
          exact ⟨_, Run.cut hm hsz⟩
        · simp only [hsz, ↓reduceIte] at hf
          by_cases hok : okb t = true
          · simp only [hok, ↓reduceIte] at hf
            cases R with
            | nil => simp at hf
            | cons x R' =>
              simp only [Bool.and_eq_true, decide_eq_true_eq] at hf
              obtain ⟨rfl, hf⟩ := hf
              obtain ⟨evs, hr⟩ := ih _ _ _ (acc ++ [x]) hf
              exact ⟨_, Run.take hm (by omega) hok hr⟩
          · simp only [hok, Bool.false_eq_true, ↓reduceIte] at hf
            obtain ⟨evs, hr⟩ := ih _ _ _ acc hf
            exact ⟨_, Run.skip hm (by omega) (by simpa using hok) hr⟩

/-- completeness of the validator: every run is accepted (enough fuel, well-formed lists) -/
theorem run_checkLoop (okb : Tx → Bool) (maxSize : Nat) {g : Groups} {total : Nat} {acc R : List Tx}
    {evs : List Ev} (h : Run (fun _ t => okb t) maxSize g total acc R evs) :
    ∀ fuel, GroupsWF g → txCount g < fuel → checkLoop okb maxSize fuel g total R = true := by
  induction h with
  | done total acc =>
    intro fuel _ _
    cases fuel <;> simp [checkLoop]
  | @cut g total acc s t rest hm hsz =>
    intro fuel _ hf
    cases fuel with
    | zero => omega
    | succ fuel =>
      cases g with
      | nil => exact absurd hm.1 (by simp)
      | cons q r =>
        simp only [checkLoop]
        generalize q :: r = g at hm ⊢
        refine List.any_eq_true.mpr ⟨(s, t :: rest), hm.1, ?_⟩
        simp [(isMaxHead_iff hm.1).mp hm, hsz]
  | @skip g total acc s t rest R evs hm hsz hok _ ih =>
    intro fuel hwf hf
    cases fuel with
    | zero => omega
    | succ fuel =>
      have hlt := txCount_erase_lt hwf.1 hm.1
      have := ih fuel (GroupsWF.erase hwf s) (by omega)
      cases g with
      | nil => exact absurd hm.1 (by simp)
      | cons q r =>
        simp only [checkLoop]
        generalize q :: r = g at hm this ⊢
        refine List.any_eq_true.mpr ⟨(s, t :: rest), hm.1, ?_⟩
        have hsz' : ¬ t.size + total > maxSize := by omega
        simp only [hok] at *
        simp [(isMaxHead_iff hm.1).mp hm, hsz', this]
  | @take g total acc s t rest R evs hm hsz hok _ ih =>
    intro fuel hwf hf
    cases fuel with
    | zero => omega
    | succ fuel =>
      have hlt := txCount_advance_lt hwf.1 hm.1
      have := ih fuel (GroupsWF.advance hwf hm.1) (by omega)
      cases g with
      | nil => exact absurd hm.1 (by simp)
      | cons q r =>
        simp only [checkLoop]
        generalize q :: r = g at hm this ⊢
        refine List.any_eq_true.mpr ⟨(s, t :: rest), hm.1, ?_⟩
        have hsz' : ¬ t.size + total > maxSize := by omega
        simp only [hok] at *
        simp [(isMaxHead_iff hm.1).mp hm, hsz', this]

end LiskVerif.Generator
