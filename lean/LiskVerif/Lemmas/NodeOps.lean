/-
Every operation of the node model preserves the refinement `Ref`; per-step facts about the
finalized height, the finalized prefix and the published events, and their lifting to operation
sequences.
-/
import LiskVerif.Lemmas.NodeLoad

namespace LiskVerif.Node
open LiskVerif LiskVerif.DiffDB

/-! ### deleteBlock -/

/-- a `deleteBlock` that removed the block: `ok`, or `errWritten` when reloading the emptied block
cache failed (the error is returned after the batch was written, no event is published) -/
def Res.removed (r : Res) : Prop := r = .ok ∨ r = .errWritten

theorem deleteTip_done_inv {cd : Codecs} {cfg : Cfg} {s s' : St} {st : Bool} {r : Res}
    (h : deleteTip cd cfg s st = (s', r)) (hr : r.removed) :
    ∃ tip rest fin bytes d, s.cache = tip :: rest ∧ finOf s.db = some fin ∧ fin < tip.hdr.height ∧
      slookup s.db (kDiff tip.hdr.height) = some bytes ∧ cd.decDiff bytes = some d ∧
      s'.db = deleteDb s.db d tip st ∧
      ((r = .ok ∧ s'.log = Ev.delete tip.hdr.id tip.hdr.height :: s.log ∧
        ((rest ≠ [] ∧ s'.cache = rest) ∨
          (rest = [] ∧ loadCache cd cfg (deleteDb s.db d tip st) = some s'.cache))) ∨
       (r = .errWritten ∧ s'.log = s.log ∧ s'.cache = [])) := by
  unfold deleteTip at h
  have hne1 : r ≠ .err := by rcases hr with hr | hr <;> (rw [hr]; simp)
  have hne2 : r ≠ .panic := by rcases hr with hr | hr <;> (rw [hr]; simp)
  cases hc : s.cache with
  | nil => rw [hc] at h; simp only [Prod.mk.injEq] at h; exact absurd h.2.symm hne2
  | cons tip rest =>
    rw [hc] at h
    simp only at h
    cases hf : finOf s.db with
    | none => simp only [hf, Prod.mk.injEq] at h; exact absurd h.2.symm hne1
    | some fin =>
      simp only [hf] at h
      by_cases hle : tip.hdr.height ≤ fin
      · simp only [hle, if_true, Prod.mk.injEq] at h; exact absurd h.2.symm hne1
      · simp only [hle, if_false] at h
        cases hh : headerAt cd s (tip.hdr.height - 1) with
        | none => simp only [hh, Prod.mk.injEq] at h; exact absurd h.2.symm hne1
        | some hd =>
          simp only [hh] at h
          cases hl : slookup s.db (kDiff tip.hdr.height) with
          | none => simp only [hl, Prod.mk.injEq] at h; exact absurd h.2.symm hne1
          | some bytes =>
            simp only [hl] at h
            cases hd' : cd.decDiff bytes with
            | none => simp only [hd', Prod.mk.injEq] at h; exact absurd h.2.symm hne1
            | some d =>
              simp only [hd'] at h
              by_cases hg : tip.hdr.height = cfg.genesisHeight
              · simp only [hg, if_true, Prod.mk.injEq] at h; exact absurd h.2.symm hne1
              · simp only [hg, if_false] at h
                refine ⟨tip, rest, fin, bytes, d, rfl, rfl, by omega, hl, hd', ?_⟩
                cases rest with
                | cons r1 r2 =>
                  simp only [Prod.mk.injEq] at h
                  obtain ⟨h1, h2⟩ := h
                  subst h1
                  exact ⟨rfl, Or.inl ⟨h2.symm, rfl, Or.inl ⟨by simp, rfl⟩⟩⟩
                | nil =>
                  simp only at h
                  cases hlc : loadCache cd cfg (applyBatch (revertDiff s.db d)
                      (BOp.del (kDiff tip.hdr.height) :: removeBlockOps tip st)) with
                  | none =>
                    simp only [hlc, Prod.mk.injEq] at h
                    obtain ⟨h1, h2⟩ := h
                    subst h1
                    exact ⟨rfl, Or.inr ⟨h2.symm, rfl, rfl⟩⟩
                  | some c' =>
                    simp only [hlc, Prod.mk.injEq] at h
                    obtain ⟨h1, h2⟩ := h
                    subst h1
                    exact ⟨rfl, Or.inl ⟨h2.symm, rfl, Or.inr ⟨rfl, hlc⟩⟩⟩

/-- a `deleteBlock` that reports an error before writing (or panics) leaves the state alone -/
theorem deleteTip_not_ok {cd : Codecs} {cfg : Cfg} {s s' : St} {st : Bool} {r : Res}
    (h : deleteTip cd cfg s st = (s', r)) (hr : r = .err ∨ r = .panic) : s' = s := by
  unfold deleteTip at h
  cases hc : s.cache with
  | nil => rw [hc] at h; simp only [Prod.mk.injEq] at h; exact h.1.symm
  | cons tip rest =>
    rw [hc] at h
    simp only at h
    cases hf : finOf s.db with
    | none => simp only [hf, Prod.mk.injEq] at h; exact h.1.symm
    | some fin =>
      simp only [hf] at h
      by_cases hle : tip.hdr.height ≤ fin
      · simp only [hle, if_true, Prod.mk.injEq] at h; exact h.1.symm
      · simp only [hle, if_false] at h
        cases hh : headerAt cd s (tip.hdr.height - 1) with
        | none => simp only [hh, Prod.mk.injEq] at h; exact h.1.symm
        | some hd =>
          simp only [hh] at h
          cases hl : slookup s.db (kDiff tip.hdr.height) with
          | none => simp only [hl, Prod.mk.injEq] at h; exact h.1.symm
          | some bytes =>
            simp only [hl] at h
            cases hd' : cd.decDiff bytes with
            | none => simp only [hd', Prod.mk.injEq] at h; exact h.1.symm
            | some d =>
              simp only [hd'] at h
              by_cases hg : tip.hdr.height = cfg.genesisHeight
              · simp only [hg, if_true, Prod.mk.injEq] at h; exact h.1.symm
              · simp only [hg, if_false] at h
                exfalso
                cases rest with
                | cons r1 r2 =>
                  simp only [Prod.mk.injEq] at h
                  rcases hr with hr | hr <;> (rw [hr] at h; cases h.2)
                | nil =>
                  simp only at h
                  split at h <;>
                    (simp only [Prod.mk.injEq] at h; rcases hr with hr | hr <;> (rw [hr] at h; cases h.2))

theorem cacheRef_pop {cd : Codecs} {base : Store} {baseH : Nat} {tip r1 : Block} {r2 : List Block}
    {c : Chain} {b : Block} {x : Exec}
    (hC : CacheRef cd base baseH (tip :: r1 :: r2) ((b, x) :: c))
    (hh : b.hdr.height = tipH baseH c + 1) : CacheRef cd base baseH (r1 :: r2) c := by
  have htip : tip.hdr.height = b.hdr.height := hC.head tip rfl
  refine ⟨?_, hC.consec.2, ?_, ?_⟩
  · intro t ht
    simp only [List.head?_cons, Option.some.injEq] at ht
    subst ht
    have := hC.consec.1
    omega
  · intro t ht bx hbx hhe
    exact hC.chain t (List.mem_cons_of_mem _ ht) bx (List.mem_cons_of_mem _ hbx) hhe
  · intro t ht hle
    exact hC.baseHdr t (List.mem_cons_of_mem _ ht) hle

/-- `Ref` is preserved by a `deleteBlock` that removed the tip: the chain loses its newest block -/
theorem ref_delete {cd : Codecs} {cfg : Cfg} {base : Store} {baseH : Nat} {s s' : St} {c0 : Chain}
    {st : Bool} {r : Res} (hbase : BaseOK cd base baseH)
    (hR : Ref cd base baseH s c0) (hok : deleteTip cd cfg s st = (s', r)) (hr : r.removed) :
    ∃ b x c, c0 = (b, x) :: c ∧ Ref cd base baseH s' c ∧ finOf s'.db = finOf s.db ∧
      (s'.log = Ev.delete b.hdr.id b.hdr.height :: s.log ∨ s'.log = s.log) ∧
      (r = .ok → s'.log = Ev.delete b.hdr.id b.hdr.height :: s.log) ∧
      (∀ f, finOf s.db = some f → f < b.hdr.height) ∧ s.cache.head? = some b := by
  obtain ⟨tip, rest, fin, bytes, d, hc, hf, hlt, hl, hd, hdb, hrest⟩ := deleteTip_done_inv hok hr
  have htip : tip.hdr.height = tipH baseH c0 := hR.cache.head tip (by rw [hc]; rfl)
  obtain ⟨f0, hf0, hb0, _⟩ := hR.db.finOk
  have hfe : f0 = fin := by rw [hf] at hf0; exact (Option.some.inj hf0).symm
  subst hfe
  cases c0 with
  | nil => simp only [tipH] at htip; omega
  | cons e c =>
    obtain ⟨b, x⟩ := e
    simp only [tipH] at htip
    have hte : tip = b :=
      hR.cache.chain tip (by rw [hc]; exact List.mem_cons_self) (b, x) List.mem_cons_self htip.symm
    subst hte
    obtain ⟨hstep, hheight, hwf⟩ := hR.db.wf
    have hdiff : d = diffOf x.overlay := by
      have hnv : ¬ Vol f0 (kDiff tip.hdr.height) :=
        kDiff_not_vol hstep.block.heightLt (by omega)
      rw [hR.db.agree f0 hf _ hnv, spec_head_persist (bval_persist_diff cd tip x)] at hl
      have : bytes = cd.encDiff (diffOf x.overlay) := (Option.some.inj hl).symm
      rw [this, hstep.diffRt] at hd
      exact (Option.some.inj hd).symm
    subst hdiff
    obtain ⟨hdbR, hfin'⟩ := dbRef_delete (st := st) hR.db hf hlt
    rw [← hdb] at hdbR hfin'
    have hnil : CacheRef cd base baseH [] c :=
      ⟨fun t h => (by cases h), trivial, fun t h => (by cases h), fun t h => (by cases h)⟩
    have hflt : ∀ f, finOf s.db = some f → f < tip.hdr.height := by
      intro f hf'
      rw [hf] at hf'
      have : f = f0 := (Option.some.inj hf').symm
      omega
    rcases hrest with ⟨hrok, hlog, hcache⟩ | ⟨hrw, hlog, hcache⟩
    · refine ⟨tip, x, c, rfl, ⟨hdbR, ?_⟩, by rw [hfin', hf], Or.inl hlog, fun _ => hlog, hflt, by rw [hc]; rfl⟩
      rcases hcache with ⟨hne, hce⟩ | ⟨_, hload⟩
      · rw [hce]
        cases rest with
        | nil => exact absurd rfl hne
        | cons r1 r2 => exact cacheRef_pop (hc ▸ hR.cache) hheight
      · rw [← hdb] at hload
        exact loadCache_cacheRef hbase hdbR hload
    · have hno : r = Res.ok → s'.log = Ev.delete tip.hdr.id tip.hdr.height :: s.log := by
        intro h; rw [hrw] at h; cases h
      exact ⟨tip, x, c, rfl, ⟨hdbR, hcache ▸ hnil⟩, by rw [hfin', hf], Or.inr hlog, hno, hflt,
        by rw [hc]; rfl⟩

/-! ### restart, ClearTempBlocks -/

theorem ref_restart {cd : Codecs} {cfg : Cfg} {base : Store} {baseH : Nat} {s : St} {c : Chain}
    (hbase : BaseOK cd base baseH) (hR : Ref cd base baseH s c) :
    Ref cd base baseH (restart cd cfg s).1 c ∧ (restart cd cfg s).1.db = s.db ∧
      (restart cd cfg s).1.log = s.log := by
  have hnil : CacheRef cd base baseH [] c :=
    ⟨fun t h => (by cases h), trivial, fun t h => (by cases h), fun t h => (by cases h)⟩
  unfold restart
  cases hl : loadCache cd cfg s.db with
  | none => exact ⟨⟨hR.db, hnil⟩, rfl, rfl⟩
  | some cache =>
    cases cache with
    | nil => exact ⟨⟨hR.db, hnil⟩, rfl, rfl⟩
    | cons t r => exact ⟨⟨hR.db, loadCache_cacheRef hbase hR.db hl⟩, rfl, rfl⟩

theorem clearTemp_lookup (db : Store) (k : Bytes) (hk : k.head? ≠ some 7) :
    slookup (applyBatch db ((dbIterate db [7] (-1) true).map fun kv => BOp.del kv.1)) k = slookup db k := by
  rw [slookup_applyBatch, bval_none]
  intro op hop he
  obtain ⟨kv, hkv, rfl⟩ := List.mem_map.mp hop
  have := (C12_db_iterate_mem db [7] true kv).mp hkv
  exact hk (he ▸ (hasPrefix_one kv.1 7).mp this.2)

theorem ref_clearTemp {cd : Codecs} {base : Store} {baseH : Nat} {s : St} {c : Chain}
    (hR : Ref cd base baseH s c) :
    Ref cd base baseH (clearTemp s) c ∧ finOf (clearTemp s).db = finOf s.db ∧ (clearTemp s).log = s.log := by
  have hfin : finOf (clearTemp s).db = finOf s.db := by
    unfold finOf clearTemp
    simp only
    rw [clearTemp_lookup s.db kFin (by simp [kFin])]
  refine ⟨⟨⟨nodup_applyBatch _ _ hR.db.nodup, ?_, ?_, hR.db.wf, hR.db.tipLt⟩, hR.cache⟩, hfin, rfl⟩
  · rw [hfin]; exact hR.db.finOk
  · intro f hf k hk
    rw [hfin] at hf
    have hk7 : k.head? ≠ some 7 := fun h => hk (Or.inr (Or.inl h))
    show slookup (applyBatch s.db _) k = _
    rw [clearTemp_lookup s.db k hk7]
    exact hR.db.agree f hf k hk

end LiskVerif.Node
