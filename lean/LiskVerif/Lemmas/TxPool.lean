/- Helper lemmas for the transaction-pool model (C14): lists, sender lists. -/
import LiskVerif.Model.TxPool
import LiskVerif.Lemmas.Sort

namespace LiskVerif.TxPool

/-! ### generic list facts -/

theorem inj_of_nodup_map {α β : Type} (f : α → β) :
    ∀ (l : List α), (l.map f).Nodup → ∀ x ∈ l, ∀ y ∈ l, f x = f y → x = y := by
  intro l
  induction l with
  | nil => intro _ x hx; cases hx
  | cons a r ih =>
    intro h x hx y hy hxy
    rw [List.map_cons, List.nodup_cons] at h
    rcases List.mem_cons.1 hx with rfl | hx'
    · rcases List.mem_cons.1 hy with rfl | hy'
      · rfl
      · exact absurd (hxy ▸ List.mem_map.2 ⟨y, hy', rfl⟩) h.1
    · rcases List.mem_cons.1 hy with rfl | hy'
      · exact absurd (hxy ▸ List.mem_map.2 ⟨x, hx', rfl⟩) h.1
      · exact ih h.2 x hx' y hy' hxy

theorem nodup_map_filter {α β : Type} (f : α → β) (q : α → Bool) (l : List α)
    (h : (l.map f).Nodup) : ((l.filter q).map f).Nodup :=
  List.Nodup.sublist (List.Sublist.map f List.filter_sublist) h

theorem isort_eq_self {α : Type} (le : α → α → Bool) :
    ∀ (l : List α), l.Pairwise (fun a b => le a b = true) → isort le l = l := by
  intro l
  induction l with
  | nil => intro _; rfl
  | cons a r ih =>
    intro h
    rw [List.pairwise_cons] at h
    show insertBy le a (isort le r) = a :: r
    rw [ih h.2]
    cases r with
    | nil => rfl
    | cons b r' =>
      show (if le a b then a :: b :: r' else b :: insertBy le a r') = _
      rw [if_pos (h.1 b (List.mem_cons_self))]

/-- a strictly ascending list of naturals whose members form an interval -/
def GapFree (l : List Nat) : Prop :=
  l.Pairwise (· < ·) ∧ ∀ x ∈ l, ∀ y ∈ l, ∀ z, x ≤ z → z ≤ y → z ∈ l

theorem gapFree_nil : GapFree [] := ⟨List.Pairwise.nil, by intro x hx; cases hx⟩

theorem mem_demote (proc : List Nat) (t x : Nat) : x ∈ demote proc t ↔ x ∈ proc ∧ x < t := by
  unfold demote
  rw [mem_isort, List.mem_filter]
  simp

theorem demote_eq_filter (proc : List Nat) (t : Nat) (h : proc.Pairwise (· < ·)) :
    demote proc t = proc.filter (fun n => decide (n < t)) := by
  unfold demote
  apply isort_eq_self
  apply List.Pairwise.filter
  exact h.imp (fun hab => by simp [natLe]; omega)

theorem gapFree_demote (proc : List Nat) (t : Nat) (h : GapFree proc) : GapFree (demote proc t) := by
  refine ⟨?_, ?_⟩
  · rw [demote_eq_filter proc t h.1]; exact List.Pairwise.filter _ h.1
  · intro x hx y hy z hxz hzy
    rw [mem_demote] at hx hy ⊢
    exact ⟨h.2 x hx.1 y hy.1 z hxz hzy, by omega⟩

/-! ### `sortUniq` -/

theorem mem_insertNat (x y : Nat) (l : List Nat) : y ∈ insertNat x l ↔ y = x ∨ y ∈ l := by
  induction l with
  | nil => simp [insertNat]
  | cons a r ih =>
    unfold insertNat
    split
    · simp
    · split
      · rename_i h2
        have : x = a := by simpa using h2
        subst this; simp
      · simp [ih]; constructor
        · rintro (h | h | h) <;> simp [h]
        · rintro (h | h | h) <;> simp [h]

theorem mem_sortUniq (l : List Nat) (y : Nat) : y ∈ sortUniq l ↔ y ∈ l := by
  induction l with
  | nil => simp [sortUniq]
  | cons a r ih =>
    show y ∈ insertNat a (sortUniq r) ↔ _
    rw [mem_insertNat, ih]; simp

theorem insertNat_pairwise (x : Nat) (l : List Nat) (h : l.Pairwise (· < ·)) :
    (insertNat x l).Pairwise (· < ·) := by
  induction l with
  | nil => simp [insertNat]
  | cons a r ih =>
    rw [List.pairwise_cons] at h
    unfold insertNat
    split
    · rename_i hxa
      refine List.pairwise_cons.2 ⟨?_, List.pairwise_cons.2 h⟩
      intro b hb
      rcases List.mem_cons.1 hb with rfl | hb
      · exact hxa
      · exact Nat.lt_trans hxa (h.1 b hb)
    · split
      · exact List.pairwise_cons.2 h
      · rename_i h1 h2
        have hne : x ≠ a := by simpa using h2
        refine List.pairwise_cons.2 ⟨?_, ih h.2⟩
        intro b hb
        rcases (mem_insertNat x b r).1 hb with rfl | hb
        · omega
        · exact h.1 b hb

theorem sortUniq_pairwise (l : List Nat) : (sortUniq l).Pairwise (· < ·) := by
  induction l with
  | nil => exact List.Pairwise.nil
  | cons a r ih => exact insertNat_pairwise a _ ih

/-! ### consecutive runs -/

theorem takeRun_range (more : List Nat) :
    ∀ first, first :: takeRun first more = List.range' first (1 + (takeRun first more).length) := by
  induction more with
  | nil => intro first; simp [takeRun]
  | cons n r ih =>
    intro first
    unfold takeRun
    split
    · rename_i h
      have hn : n = first + 1 := by simpa using h
      subst hn
      rw [ih (first + 1), List.length_range', Nat.add_comm 1 (1 + _), List.range'_succ]
    · simp

theorem le_getLast_of_pairwise :
    ∀ (l : List Nat) (hi : Nat), l.Pairwise (· < ·) → l.getLast? = some hi → hi ∈ l ∧ ∀ x ∈ l, x ≤ hi := by
  intro l hi hp hl
  obtain ⟨ys, rfl⟩ := List.getLast?_eq_some_iff.1 hl
  refine ⟨by simp, ?_⟩
  intro x hx
  rw [List.pairwise_append] at hp
  rcases List.mem_append.1 hx with h | h
  · exact Nat.le_of_lt (hp.2.2 x h hi (by simp))
  · simp at h; omega

/-- appending the run `first, first+1, …` right after the highest element keeps a run -/
theorem gapFree_sortUniq_append (proc : List Nat) (first j : Nat) (h : GapFree proc)
    (hfirst : ∀ hi, proc.getLast? = some hi → first = hi + 1) :
    GapFree (sortUniq (proc ++ List.range' first j)) := by
  refine ⟨sortUniq_pairwise _, ?_⟩
  intro x hx y hy z hxz hzy
  rw [mem_sortUniq, List.mem_append] at hx hy ⊢
  have hr : ∀ w, w ∈ List.range' first j ↔ first ≤ w ∧ w < first + j := by
    intro w; rw [List.mem_range']; constructor
    · rintro ⟨i, hi, rfl⟩; omega
    · rintro ⟨h1, h2⟩; exact ⟨w - first, by omega, by omega⟩
  rcases hx with hx | hx
  · rcases hy with hy | hy
    · exact Or.inl (h.2 x hx y hy z hxz hzy)
    · cases hlast : proc.getLast? with
      | none =>
        have : proc = [] := by simpa using hlast
        subst this; cases hx
      | some hi =>
        have hf := hfirst hi hlast
        obtain ⟨hmem, hmax⟩ := le_getLast_of_pairwise proc hi h.1 hlast
        by_cases hz : z ≤ hi
        · exact Or.inl (h.2 x hx hi hmem z hxz hz)
        · right; rw [hr] at hy ⊢; omega
  · rcases hy with hy | hy
    · cases hlast : proc.getLast? with
      | none =>
        have : proc = [] := by simpa using hlast
        subst this; cases hy
      | some hi =>
        have hf := hfirst hi hlast
        obtain ⟨_, hmax⟩ := le_getLast_of_pairwise proc hi h.1 hlast
        have := hmax y hy
        rw [hr] at hx; omega
    · right; rw [hr] at hx hy ⊢; omega

/-! ### sender lists -/

theorem get_some {a : Acct} {n : Nat} {t : Tx} (h : a.get n = some t) : t ∈ a.txs ∧ t.nonce = n := by
  unfold Acct.get at h
  exact ⟨List.mem_of_find?_eq_some h, by simpa using List.find?_some h⟩

theorem get_none {a : Acct} {n : Nat} (h : a.get n = none) : ∀ t ∈ a.txs, t.nonce ≠ n := by
  unfold Acct.get at h
  intro t ht
  have := List.find?_eq_none.1 h t ht
  simpa using this

theorem get_isSome_of_mem {a : Acct} {t : Tx} (h : t ∈ a.txs) : ∃ t', a.get t.nonce = some t' := by
  cases hg : a.get t.nonce with
  | some t' => exact ⟨t', rfl⟩
  | none => exact absurd rfl (get_none hg t h)

theorem get_of_mem {a : Acct} (hn : (a.txs.map (·.nonce)).Nodup) {t : Tx} (h : t ∈ a.txs) :
    a.get t.nonce = some t := by
  obtain ⟨t', ht'⟩ := get_isSome_of_mem h
  have := get_some ht'
  rw [ht', inj_of_nodup_map _ _ hn t' this.1 t h this.2]

def foldMax (l : List Tx) (m : Nat) : Nat := l.foldl (fun m t => if t.nonce > m then t.nonce else m) m

theorem maxNonce_aux (l : List Tx) : ∀ m : Nat,
    m ≤ foldMax l m ∧ (∀ t ∈ l, t.nonce ≤ foldMax l m) ∧ (foldMax l m = m ∨ ∃ t ∈ l, t.nonce = foldMax l m) := by
  induction l with
  | nil => intro m; simp [foldMax]
  | cons a r ih =>
    intro m
    have hstep : foldMax (a :: r) m = foldMax r (if a.nonce > m then a.nonce else m) := rfl
    rw [hstep]
    by_cases hc : a.nonce > m
    · rw [if_pos hc]
      obtain ⟨h1, h2, h3⟩ := ih a.nonce
      refine ⟨by omega, ?_, ?_⟩
      · intro t ht
        rcases List.mem_cons.1 ht with rfl | ht
        · exact h1
        · exact h2 t ht
      · rcases h3 with h3 | ⟨t, ht, hh⟩
        · right; exact ⟨a, List.mem_cons_self, h3.symm⟩
        · right; exact ⟨t, List.mem_cons_of_mem _ ht, hh⟩
    · rw [if_neg hc]
      obtain ⟨h1, h2, h3⟩ := ih m
      refine ⟨h1, ?_, ?_⟩
      · intro t ht
        rcases List.mem_cons.1 ht with rfl | ht
        · omega
        · exact h2 t ht
      · rcases h3 with h3 | ⟨t, ht, hh⟩
        · left; exact h3
        · right; exact ⟨t, List.mem_cons_of_mem _ ht, hh⟩

theorem maxNonce_eq (a : Acct) : a.maxNonce = foldMax a.txs 0 := rfl

theorem maxNonce_mem (a : Acct) (h : a.txs ≠ []) : ∃ t ∈ a.txs, t.nonce = a.maxNonce := by
  rw [maxNonce_eq]
  obtain ⟨_, h2, h3⟩ := maxNonce_aux a.txs 0
  rcases h3 with h3 | h3
  · cases htx : a.txs with
    | nil => exact absurd htx h
    | cons t r =>
      refine ⟨t, List.mem_cons_self, ?_⟩
      have := h2 t (htx ▸ List.mem_cons_self)
      rw [htx] at h3 this
      omega
  · exact h3

theorem maxNonce_ge (a : Acct) : ∀ t ∈ a.txs, t.nonce ≤ a.maxNonce := (maxNonce_aux a.txs 0).2.1

end LiskVerif.TxPool
