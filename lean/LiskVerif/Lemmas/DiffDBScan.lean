/-
Helper lemmas for the scan refinement theorem of the diffdb model (Props/C12_Scan.lean):
distinct keys through `sset`/`sdel`/`commitCache`, membership in `cacheLive`, monotonicity and
coverage of `absorb`, and uniqueness of the key-sorted arrangement of a list with distinct keys.
-/
import LiskVerif.Lemmas.DiffDB
import LiskVerif.Lemmas.Order
import LiskVerif.Lemmas.Sort

namespace LiskVerif.DiffDB

/-! ### distinct keys -/

theorem nodup_of_nodupKeys {β : Type} (l : List (Bytes × β)) (h : NoDupKeys l) : l.Nodup := by
  unfold NoDupKeys at h
  unfold List.Nodup at *
  rw [List.pairwise_map] at h
  exact h.imp (fun hab heq => hab (by rw [heq]))

/-- two entries of an association list with distinct keys that share their key are equal -/
theorem eq_of_key_eq {β : Type} (l : List (Bytes × β)) (h : NoDupKeys l) (a b : Bytes × β)
    (ha : a ∈ l) (hb : b ∈ l) (hk : a.1 = b.1) : a = b := by
  induction l with
  | nil => cases ha
  | cons e r ih =>
    unfold NoDupKeys at h
    simp only [List.map_cons, List.nodup_cons] at h
    rcases List.mem_cons.mp ha with rfl | ha' <;> rcases List.mem_cons.mp hb with rfl | hb'
    · rfl
    · exfalso; apply h.1; rw [hk]; exact List.mem_map.mpr ⟨b, hb', rfl⟩
    · exfalso; apply h.1; rw [← hk]; exact List.mem_map.mpr ⟨a, ha', rfl⟩
    · exact ih h.2 ha' hb'

theorem nodup_sset (s : Store) (k v : Bytes) (h : NoDupKeys s) : NoDupKeys (sset s k v) :=
  nodup_put s k v h

theorem nodup_sdel (s : Store) (k : Bytes) (h : NoDupKeys s) : NoDupKeys (sdel s k) :=
  nodup_filter s _ h

theorem nodup_commitCache (c : Cache) : ∀ (s : Store) (d : Diff), NoDupKeys s →
    NoDupKeys (commitCache c s d).1 := by
  induction c with
  | nil => intro s d h; exact h
  | cons e r ih =>
    intro s d h
    obtain ⟨k, cv⟩ := e
    unfold commitCache
    cases hi : cv.init with
    | none => exact ih _ _ (nodup_sset s k cv.value h)
    | some i =>
      simp only
      cases hd : cv.deleted with
      | true => simp only [if_true]; exact ih _ _ (nodup_sdel s k h)
      | false =>
        cases hdi : cv.dirty with
        | true => simp only [Bool.false_eq_true, if_false, if_true]; exact ih _ _ (nodup_sset s k cv.value h)
        | false => simp only [Bool.false_eq_true, if_false]; exact ih _ _ h

theorem nodup_commit (st : St) (h : NoDupKeys st.store) : NoDupKeys (commit st).1.store := by
  unfold commit
  exact nodup_commitCache st.cache st.store {} h

/-! ### `cacheLive` -/

theorem cacheLive_keys_sublist (c : Cache) (f : Bytes → Bool) :
    ((cacheLive c f).map (·.1)).Sublist (c.map (·.1)) := by
  induction c with
  | nil => exact List.Sublist.refl _
  | cons e r ih =>
    unfold cacheLive
    simp only [List.filterMap_cons, List.map_cons]
    split
    · exact List.Sublist.cons _ ih
    · rename_i b hb
      split at hb
      · cases hb; exact List.Sublist.cons_cons _ ih
      · cases hb

theorem nodup_cacheLive (c : Cache) (f : Bytes → Bool) (h : NoDupKeys c) :
    NoDupKeys (cacheLive c f) := by
  unfold NoDupKeys at *
  exact List.Sublist.nodup (cacheLive_keys_sublist c f) h

theorem mem_cacheLive (c : Cache) (f : Bytes → Bool) (h : NoDupKeys c) (k v : Bytes) :
    (k, v) ∈ cacheLive c f ↔
      ∃ cv, clookup c k = some cv ∧ cv.deleted = false ∧ f k = true ∧ cv.value = v := by
  unfold cacheLive
  simp only [List.mem_filterMap]
  constructor
  · rintro ⟨⟨k0, cv⟩, he, h2⟩
    by_cases hc : (!cv.deleted && f k0) = true
    · simp only [hc, if_true, Option.some.injEq, Prod.mk.injEq] at h2
      obtain ⟨rfl, rfl⟩ := h2
      simp only [Bool.and_eq_true, Bool.not_eq_eq_eq_not, Bool.not_true] at hc
      exact ⟨cv, (clookup_iff_mem c h k0 cv).mpr he, hc.1, hc.2, rfl⟩
    · simp [hc] at h2
  · rintro ⟨cv, hl, hd, hf, rfl⟩
    exact ⟨(k, cv), (clookup_iff_mem c h k cv).mp hl, by simp [hd, hf]⟩

/-! ### `absorb` -/

/-- `absorb` never removes a key from the overlay -/
theorem absorb_mono (l : List KV) : ∀ (c : Cache) (k : Bytes), clookup c k ≠ none →
    clookup (absorb c l).1 k ≠ none := by
  induction l with
  | nil => intro c k h; exact h
  | cons e r ih =>
    intro c k h
    obtain ⟨k0, v0⟩ := e
    unfold absorb
    cases hc : clookup c k0 with
    | some cv =>
      simp only
      by_cases hd : cv.deleted = true
      · simp only [hd, if_true]; exact ih c k h
      · simp only [hd]; exact ih c k h
    | none =>
      simp only
      apply ih
      unfold ccache
      rw [clookup_cput]
      by_cases hk : k0 = k
      · simp [hk]
      · simp only [hk, if_false]; exact h

/-- every scanned key is in the overlay afterwards -/
theorem absorb_covers (l : List KV) : ∀ (c : Cache) (e : KV), e ∈ l →
    clookup (absorb c l).1 e.1 ≠ none := by
  induction l with
  | nil => intro c e he; cases he
  | cons e0 r ih =>
    intro c e he
    obtain ⟨k0, v0⟩ := e0
    rcases List.mem_cons.mp he with rfl | he'
    · unfold absorb
      cases hc : clookup c k0 with
      | some cv =>
        simp only
        have hne : clookup c k0 ≠ none := by simp [hc]
        by_cases hd : cv.deleted = true
        · simp only [hd, if_true]; exact absorb_mono r c k0 hne
        · simp only [hd]; exact absorb_mono r c k0 hne
      | none =>
        simp only
        apply absorb_mono
        simp [ccache]
    · unfold absorb
      cases hc : clookup c k0 with
      | some cv =>
        simp only
        by_cases hd : cv.deleted = true
        · simp only [hd, if_true]; exact ih c e he'
        · simp only [hd]; exact ih c e he'
      | none =>
        simp only
        exact ih _ e he'

/-! ### the key-sorted arrangement of a list with distinct keys is unique -/

theorem kvLE_trans' (a b c : KV) (h1 : kvLE a b = true) (h2 : kvLE b c = true) : kvLE a c = true :=
  ble_trans _ _ _ h1 h2
theorem kvLE_total' (a b : KV) : (kvLE a b || kvLE b a) = true := ble_total _ _
theorem kvGE_trans' (a b c : KV) (h1 : kvGE a b = true) (h2 : kvGE b c = true) : kvGE a c = true :=
  ble_trans _ _ _ h2 h1
theorem kvGE_total' (a b : KV) : (kvGE a b || kvGE b a) = true := ble_total _ _

theorem sortDir_eq_of_perm (A B : List KV) (hA : NoDupKeys A) (hp : A.Perm B) (rev : Bool) :
    sortDir A rev = sortDir B rev := by
  unfold sortDir
  cases rev with
  | false =>
    simp only [Bool.false_eq_true, if_false]
    have hperm : (isort kvLE A).Perm (isort kvLE B) :=
      (isort_perm kvLE A).trans (hp.trans (isort_perm kvLE B).symm)
    refine List.Perm.eq_of_pairwise (le := fun x y => kvLE x y = true) ?_
      (isort_pairwise _ kvLE_trans' kvLE_total' A) (isort_pairwise _ kvLE_trans' kvLE_total' B) hperm
    intro a b ha hb hab hba
    have ha' : a ∈ A := (mem_isort kvLE A a).mp ha
    have hb' : b ∈ A := hp.mem_iff.mpr ((mem_isort kvLE B b).mp hb)
    exact eq_of_key_eq A hA a b ha' hb' (ble_antisymm _ _ hab hba)
  | true =>
    simp only [if_true]
    have hperm : (isort kvGE A).Perm (isort kvGE B) :=
      (isort_perm kvGE A).trans (hp.trans (isort_perm kvGE B).symm)
    refine List.Perm.eq_of_pairwise (le := fun x y => kvGE x y = true) ?_
      (isort_pairwise _ kvGE_trans' kvGE_total' A) (isort_pairwise _ kvGE_trans' kvGE_total' B) hperm
    intro a b ha hb hab hba
    have ha' : a ∈ A := (mem_isort kvGE A a).mp ha
    have hb' : b ∈ A := hp.mem_iff.mpr ((mem_isort kvGE B b).mp hb)
    exact eq_of_key_eq A hA a b ha' hb' (ble_antisymm _ _ hba hab)

/-- two lists with distinct keys and the same entries have the same sorted arrangement -/
theorem sortDir_eq_of_mem_iff (A B : List KV) (hA : NoDupKeys A) (hB : NoDupKeys B)
    (h : ∀ e, e ∈ A ↔ e ∈ B) (rev : Bool) : sortDir A rev = sortDir B rev :=
  sortDir_eq_of_perm A B hA
    ((List.perm_ext_iff_of_nodup (nodup_of_nodupKeys A hA) (nodup_of_nodupKeys B hB)).mpr h) rev

end LiskVerif.DiffDB
