/-
Helper lemmas about `LiskVerif.Collection` (model of pkg/collection) used by
Props/C12_Lib.lean, Props/C10_Lib.lean and Props/C06_Lib.lean.  Core Lean only.
-/
import LiskVerif.Model.Collection
import LiskVerif.Lemmas.Order
import LiskVerif.Lemmas.Sort

namespace LiskVerif.Collection

/-! ### big-endian integers -/

theorem or_shl (a b i : Nat) (h : b < 2 ^ i) : b ||| a <<< i = a * 2 ^ i + b := by
  rw [Nat.or_comm, ← Nat.shiftLeft_add_eq_or_of_lt h, Nat.shiftLeft_eq]

theorem be_or4 (a b c d : Nat) (ha : a < 256) (hb : b < 256) (hc : c < 256) (hd : d < 256) :
    d ||| c <<< 8 % 2 ^ 32 ||| b <<< 16 % 2 ^ 32 ||| a <<< 24 % 2 ^ 32
      = a * 2 ^ 24 + b * 2 ^ 16 + c * 2 ^ 8 + d := by
  rw [Nat.mod_eq_of_lt (by rw [Nat.shiftLeft_eq]; omega), Nat.mod_eq_of_lt (by rw [Nat.shiftLeft_eq]; omega),
    Nat.mod_eq_of_lt (by rw [Nat.shiftLeft_eq]; omega)]
  rw [or_shl c d 8 (by omega), or_shl b _ 16 (by omega), or_shl a _ 24 (by omega)]
  omega

theorem be_or8 (a b c d e f g h : Nat) (ha : a < 256) (hb : b < 256) (hc : c < 256) (hd : d < 256)
    (he : e < 256) (hf : f < 256) (hg : g < 256) (hh : h < 256) :
    h ||| g <<< 8 % 2 ^ 64 ||| f <<< 16 % 2 ^ 64 ||| e <<< 24 % 2 ^ 64 ||| d <<< 32 % 2 ^ 64 |||
        c <<< 40 % 2 ^ 64 ||| b <<< 48 % 2 ^ 64 ||| a <<< 56 % 2 ^ 64
      = a * 2 ^ 56 + b * 2 ^ 48 + c * 2 ^ 40 + d * 2 ^ 32 + e * 2 ^ 24 + f * 2 ^ 16 + g * 2 ^ 8 + h := by
  rw [Nat.mod_eq_of_lt (by rw [Nat.shiftLeft_eq]; omega), Nat.mod_eq_of_lt (by rw [Nat.shiftLeft_eq]; omega),
    Nat.mod_eq_of_lt (by rw [Nat.shiftLeft_eq]; omega), Nat.mod_eq_of_lt (by rw [Nat.shiftLeft_eq]; omega),
    Nat.mod_eq_of_lt (by rw [Nat.shiftLeft_eq]; omega), Nat.mod_eq_of_lt (by rw [Nat.shiftLeft_eq]; omega),
    Nat.mod_eq_of_lt (by rw [Nat.shiftLeft_eq]; omega)]
  rw [or_shl g h 8 (by omega), or_shl f _ 16 (by omega), or_shl e _ 24 (by omega),
    or_shl d _ 32 (by omega), or_shl c _ 40 (by omega), or_shl b _ 48 (by omega),
    or_shl a _ 56 (by omega)]
  omega

/-- value of a big-endian byte string -/
def beVal : Bytes → Nat
  | [] => 0
  | b :: r => b.toNat * 256 ^ r.length + beVal r

theorem beVal_lt (x : Bytes) : beVal x < 256 ^ x.length := by
  induction x with
  | nil => simp [beVal]
  | cons b r ih =>
    have hb := b.toNat_lt
    simp only [beVal, List.length_cons, Nat.pow_succ]
    have : (b.toNat + 1) * 256 ^ r.length ≤ 256 * 256 ^ r.length :=
      Nat.mul_le_mul_right _ (by omega)
    rw [Nat.add_mul] at this
    rw [Nat.mul_comm (256 ^ r.length) 256]
    omega

/-- On byte strings of equal length the lexicographic order is the numeric order of the big-endian
values. -/
theorem bcmp_eq_compare_beVal (x y : Bytes) (h : x.length = y.length) :
    bcmp x y = compare (beVal x) (beVal y) := by
  induction x generalizing y with
  | nil =>
    cases y with
    | nil => simp [bcmp, beVal]
    | cons _ _ => simp at h
  | cons a as ih =>
    cases y with
    | nil => simp at h
    | cons b bs =>
      have hl : as.length = bs.length := by simpa using h
      have ha := beVal_lt as
      have hb := beVal_lt bs
      simp only [bcmp, beVal]
      rw [← hl]; rw [← hl] at hb
      by_cases h1 : a < b
      · simp only [h1, if_true]
        rw [UInt8.lt_iff_toNat_lt] at h1
        have : (a.toNat + 1) * 256 ^ as.length ≤ b.toNat * 256 ^ as.length :=
          Nat.mul_le_mul_right _ (by omega)
        rw [Nat.add_mul] at this
        exact (Nat.compare_eq_lt.mpr (by omega)).symm
      · by_cases h2 : b < a
        · simp only [h1, h2, if_false, if_true]
          rw [UInt8.lt_iff_toNat_lt] at h2
          have : (b.toNat + 1) * 256 ^ as.length ≤ a.toNat * 256 ^ as.length :=
            Nat.mul_le_mul_right _ (by omega)
          rw [Nat.add_mul] at this
          exact (Nat.compare_eq_gt.mpr (by omega)).symm
        · simp only [h1, h2, if_false]
          have hab : a = b := u8_eq_of_not_lt h1 h2
          subst hab
          rw [ih bs hl]
          rcases Nat.lt_trichotomy (beVal as) (beVal bs) with hlt | heq | hgt
          · rw [Nat.compare_eq_lt.mpr hlt, Nat.compare_eq_lt.mpr (by omega)]
          · rw [heq]; simp
          · rw [Nat.compare_eq_gt.mpr hgt, Nat.compare_eq_gt.mpr (by omega)]

theorem beVal_fromUint16 (v : UInt16) : beVal (fromUint16 v) = v.toNat := by
  have := v.toNat_lt
  simp [fromUint16, beVal, UInt16.toNat_toUInt8, UInt16.toNat_shiftRight, Nat.shiftRight_eq_div_pow]
  omega

theorem beVal_fromUint32 (v : UInt32) : beVal (fromUint32 v) = v.toNat := by
  have := v.toNat_lt
  simp [fromUint32, beVal, UInt32.toNat_toUInt8, UInt32.toNat_shiftRight, Nat.shiftRight_eq_div_pow]
  omega

theorem beVal_fromUint64 (v : UInt64) : beVal (fromUint64 v) = v.toNat := by
  have := v.toNat_lt
  simp [fromUint64, beVal, UInt64.toNat_toUInt8, UInt64.toNat_shiftRight, Nat.shiftRight_eq_div_pow]
  omega

theorem toUint32_toNat (b0 b1 b2 b3 : UInt8) (r : Bytes) :
    ∃ v, toUint32 (b0 :: b1 :: b2 :: b3 :: r) = .ok v ∧ v.toNat = beVal [b0, b1, b2, b3] := by
  refine ⟨_, rfl, ?_⟩
  have h0 := b0.toNat_lt; have h1 := b1.toNat_lt; have h2 := b2.toNat_lt; have h3 := b3.toNat_lt
  simp only [UInt32.toNat_or, UInt32.toNat_shiftLeft, UInt8.toNat_toUInt32]
  refine (be_or4 _ _ _ _ (by omega) (by omega) (by omega) (by omega)).trans ?_
  simp [beVal]; omega

theorem toUint64_toNat (b0 b1 b2 b3 b4 b5 b6 b7 : UInt8) (r : Bytes) :
    ∃ v, toUint64 (b0 :: b1 :: b2 :: b3 :: b4 :: b5 :: b6 :: b7 :: r) = .ok v ∧
      v.toNat = beVal [b0, b1, b2, b3, b4, b5, b6, b7] := by
  refine ⟨_, rfl, ?_⟩
  have h0 := b0.toNat_lt; have h1 := b1.toNat_lt; have h2 := b2.toNat_lt; have h3 := b3.toNat_lt
  have h4 := b4.toNat_lt; have h5 := b5.toNat_lt; have h6 := b6.toNat_lt; have h7 := b7.toNat_lt
  simp only [UInt64.toNat_or, UInt64.toNat_shiftLeft, UInt8.toNat_toUInt64]
  refine (be_or8 _ _ _ _ _ _ _ _ (by omega) (by omega) (by omega) (by omega) (by omega) (by omega)
    (by omega) (by omega)).trans ?_
  simp [beVal]; omega

/-- byte strings of equal length with the same big-endian value are equal -/
theorem beVal_inj (x y : Bytes) (h : x.length = y.length) (hv : beVal x = beVal y) : x = y := by
  have := bcmp_eq_compare_beVal x y h
  rw [hv] at this
  simp at this
  exact (bcmp_eq_iff x y).mp this

/-! ### Join -/

/-- writing `x` over the beginning of `rest` (as far as it fits) -/
def fill (x rest : Bytes) : Bytes := x.take rest.length ++ rest.drop x.length

theorem copyInto_split (done rest v : Bytes) :
    copyInto (done ++ rest) done.length v =
      (done ++ v.take (min rest.length v.length) ++ rest.drop (min rest.length v.length),
        min rest.length v.length) := by
  simp [copyInto, List.drop_append]

theorem fill_cons (v f rest : Bytes) :
    v.take (min rest.length v.length) ++ fill f (rest.drop (min rest.length v.length)) = fill (v ++ f) rest := by
  unfold fill
  by_cases h : v.length ≤ rest.length
  · rw [Nat.min_eq_right h]
    simp [List.take_append, List.take_of_length_le h, List.length_drop, List.drop_drop]
  · have h' : rest.length ≤ v.length := by omega
    rw [Nat.min_eq_left h']
    simp [List.take_append]
    omega

theorem joinLoop_spec (s : List Bytes) (done rest : Bytes) :
    joinLoop s (done ++ rest) done.length = done ++ fill s.flatten rest := by
  induction s generalizing done rest with
  | nil => simp [joinLoop, fill]
  | cons v s ih =>
    simp only [joinLoop, copyInto_split]
    have := ih (done ++ v.take (min rest.length v.length)) (rest.drop (min rest.length v.length))
    have hl : (done ++ List.take (min rest.length v.length) v).length
        = done.length + min rest.length v.length := by
      simp [List.length_take]
    rw [hl] at this
    rw [this, List.flatten_cons, ← fill_cons, List.append_assoc]

theorem totalLen_eq (s : List Bytes) : totalLen s = s.flatten.length := by
  induction s with
  | nil => rfl
  | cons v s ih => simp [totalLen, ih]

theorem joinSize_eq (size : Nat) (s : List Bytes) :
    joinSize size s = .ok (s.flatten.take size ++ List.replicate (size - s.flatten.length) 0) := by
  have := joinLoop_spec s [] (List.replicate size 0)
  simp only [List.nil_append, List.length_nil] at this
  simp [joinSize, this, fill]

theorem join_eq (s : List Bytes) : join s = s.flatten := by
  have := joinLoop_spec s [] (List.replicate (totalLen s) 0)
  simp only [List.nil_append, List.length_nil] at this
  unfold join
  rw [this]
  simp [fill, totalLen_eq]
  rw [← List.length_flatten, List.take_length]

/-! ### FromBools / ToBools / IsBitSet -/

def packByte (l : List Bool) : UInt8 := l.foldl (fun acc b => acc * 2 + (if b then 1 else 0)) 0

theorem packByte_byteBools_nat : ∀ n, n < 256 → packByte (byteBools (UInt8.ofNat n)) = UInt8.ofNat n := by
  decide +kernel

theorem packByte_byteBools (x : UInt8) : packByte (byteBools x) = x := by
  have := packByte_byteBools_nat x.toNat x.toNat_lt
  simpa using this

theorem orbit_nat : ∀ n, n < 256 → ∀ m, m < 8 → ∀ j, j < 8 →
    topBitAfterShift (UInt8.ofNat n ||| ((0x80 : UInt8) >>> m.toUInt8)) j
      = (topBitAfterShift (UInt8.ofNat n) j || decide (j = m)) := by
  decide +kernel

theorem zero_bit : ∀ j, j < 8 → topBitAfterShift 0 j = false := by decide

theorem orbit (x : UInt8) (m j : Nat) (hm : m < 8) (hj : j < 8) :
    topBitAfterShift (x ||| ((0x80 : UInt8) >>> m.toUInt8)) j = (topBitAfterShift x j || decide (j = m)) := by
  have := orbit_nat x.toNat x.toNat_lt m hm j hj
  simpa using this

/-- bit `j` (MSB first) of a byte string, `false` beyond its end -/
def bitAt (bs : Bytes) (j : Nat) : Bool :=
  match bs[j / 8]? with
  | some b => topBitAfterShift b (j % 8)
  | none => false

theorem orAt_length (res : Bytes) (k : Nat) (m : UInt8) : (orAt res k m).length = res.length := by
  induction res generalizing k with
  | nil => rfl
  | cons x r ih => cases k <;> simp [orAt, ih]

theorem orAt_getElem? (res : Bytes) (k : Nat) (m : UInt8) (i : Nat) :
    (orAt res k m)[i]? = if i = k then res[i]?.map (· ||| m) else res[i]? := by
  induction res generalizing k i with
  | nil => cases k <;> simp [orAt]
  | cons x r ih =>
    cases k with
    | zero => cases i <;> simp [orAt]
    | succ k =>
      cases i with
      | zero => simp [orAt]
      | succ i => simp [orAt, ih]

theorem bitAt_orAt (res : Bytes) (k m : Nat) (hm : m < 8) (j : Nat) :
    bitAt (orAt res k ((0x80 : UInt8) >>> m.toUInt8)) j
      = (bitAt res j || decide (j / 8 = k ∧ j % 8 = m ∧ k < res.length)) := by
  unfold bitAt
  rw [orAt_getElem?]
  by_cases hk : j / 8 = k
  · subst hk
    simp only [if_true]
    cases hr : res[j / 8]? with
    | none =>
      have : ¬ j / 8 < res.length := by
        intro h; rw [List.getElem?_eq_getElem h] at hr; cases hr
      simp [this]
    | some b =>
      have hlt : j / 8 < res.length := by
        apply Classical.byContradiction; intro h
        rw [List.getElem?_eq_none (by omega)] at hr; cases hr
      simp only [Option.map_some]
      rw [orbit b m (j % 8) hm (Nat.mod_lt _ (by omega))]
      simp [hlt]
  · simp [hk]

theorem bitAt_zeros (n j : Nat) : bitAt (List.replicate n 0) j = false := by
  unfold bitAt
  by_cases h : j / 8 < n
  · rw [List.getElem?_replicate]; simp [h]; exact zero_bit _ (Nat.mod_lt _ (by omega))
  · rw [List.getElem?_replicate]; simp [h]

theorem fromBoolsLoop_length (t : List Bool) (i : Nat) (res : Bytes) :
    (fromBoolsLoop t i res).length = res.length := by
  induction t generalizing i res with
  | nil => rfl
  | cons x t ih =>
    simp only [fromBoolsLoop]
    rw [ih]
    split <;> simp [orAt_length]

theorem bitAt_fromBoolsLoop (t : List Bool) (i : Nat) (res : Bytes)
    (hfit : i + t.length ≤ 8 * res.length) (j : Nat) :
    bitAt (fromBoolsLoop t i res) j = (bitAt res j || (decide (i ≤ j) && t.getD (j - i) false)) := by
  induction t generalizing i res with
  | nil => simp [fromBoolsLoop]
  | cons x t ih =>
    simp only [fromBoolsLoop]
    have hlen : (if x = true then orAt res (i / 8) ((0x80 : UInt8) >>> (i % 8).toUInt8) else res).length
        = res.length := by split <;> simp [orAt_length]
    rw [ih (i + 1) _ (by rw [hlen]; simp at hfit; omega)]
    by_cases hx : x = true
    · simp only [hx, if_true]
      rw [bitAt_orAt _ _ _ (Nat.mod_lt _ (by omega))]
      simp at hfit
      by_cases hji : j = i
      · subst hji
        have : j / 8 < res.length := by omega
        simp [this]
      · by_cases hlt : i ≤ j
        · have h1 : i + 1 ≤ j := by omega
          have h2 : ¬ (j / 8 = i / 8 ∧ j % 8 = i % 8 ∧ i / 8 < res.length) := by omega
          have h3 : j - i = (j - (i + 1)) + 1 := by omega
          simp [h1, hlt, h2, h3]
        · have h1 : ¬ i + 1 ≤ j := by omega
          have h2 : ¬ (j / 8 = i / 8 ∧ j % 8 = i % 8 ∧ i / 8 < res.length) := by omega
          simp [h1, hlt, h2]
    · have hx' : x = false := by cases x <;> simp_all
      subst hx'
      simp only [Bool.false_eq_true, if_false]
      by_cases hji : j = i
      · subst hji
        have : ¬ j + 1 ≤ j := by omega
        simp [this]
      · by_cases hlt : i ≤ j
        · have h1 : i + 1 ≤ j := by omega
          have h3 : j - i = (j - (i + 1)) + 1 := by omega
          simp [h1, hlt, h3]
        · have h1 : ¬ i + 1 ≤ j := by omega
          simp [h1, hlt]

theorem byteBools_getElem? (x : UInt8) (j : Nat) :
    (byteBools x)[j]? = if j < 8 then some (topBitAfterShift x j) else none := by
  match j with
  | 0 | 1 | 2 | 3 | 4 | 5 | 6 | 7 => rfl
  | j + 8 => simp [byteBools]

theorem toBools_length (b : Bytes) : (toBools b).length = 8 * b.length := by
  induction b with
  | nil => rfl
  | cons x r ih => simp [toBools, byteBools, ih]; omega

theorem toBools_getElem? (b : Bytes) (j : Nat) :
    (toBools b)[j]? = if j < 8 * b.length then some (bitAt b j) else none := by
  induction b generalizing j with
  | nil => simp [toBools]
  | cons x r ih =>
    simp only [toBools]
    by_cases hj : j < 8
    · rw [List.getElem?_append_left (by simp [byteBools]; omega), byteBools_getElem?]
      have h0 : j / 8 = 0 := by omega
      have h1 : j % 8 = j := by omega
      simp [hj, bitAt, h0, h1]; omega
    · rw [List.getElem?_append_right (by simp [byteBools]; omega)]
      have hl : (byteBools x).length = 8 := rfl
      rw [hl, ih]
      have h0 : j / 8 = (j - 8) / 8 + 1 := by omega
      have h1 : j % 8 = (j - 8) % 8 := by omega
      by_cases h : j - 8 < 8 * r.length
      · have : j < 8 * (r.length + 1) := by omega
        simp [h, this, bitAt, h0, h1]
      · have : ¬ j < 8 * (r.length + 1) := by omega
        simp [h, this]

/-- the padded input of `fromBools` -/
def padFront (l : List Bool) : List Bool := List.replicate ((8 - l.length % 8) % 8) false ++ l

theorem fromBools_eq_loop (l : List Bool) :
    fromBools l = fromBoolsLoop (padFront l) 0 (List.replicate ((l.length + 7) / 8) 0) := by
  unfold fromBools padFront
  have : (if l.length % 8 ≠ 0 then l.length + (8 - l.length % 8) else l.length) - l.length
      = (8 - l.length % 8) % 8 := by split <;> omega
  simp only [this]

theorem padFront_length (l : List Bool) : (padFront l).length = 8 * ((l.length + 7) / 8) := by
  simp [padFront]; omega

theorem fromBools_length (l : List Bool) : (fromBools l).length = (l.length + 7) / 8 := by
  rw [fromBools_eq_loop, fromBoolsLoop_length]; simp

theorem bitAt_fromBools (l : List Bool) (j : Nat) :
    bitAt (fromBools l) j = (padFront l).getD j false := by
  rw [fromBools_eq_loop, bitAt_fromBoolsLoop _ _ _ (by simp [padFront_length]), bitAt_zeros]
  simp

theorem toBools_fromBools (l : List Bool) : toBools (fromBools l) = padFront l := by
  apply List.ext_getElem?
  intro j
  rw [toBools_getElem?, fromBools_length, bitAt_fromBools]
  by_cases h : j < 8 * ((l.length + 7) / 8)
  · have h' : j < (padFront l).length := by rw [padFront_length]; exact h
    simp [h, List.getD_eq_getElem?_getD, List.getElem?_eq_getElem h']
  · have h' : (padFront l).length ≤ j := by rw [padFront_length]; omega
    simp [h, List.getElem?_eq_none h']

theorem byte_ext (x y : UInt8) (h : ∀ i, i < 8 → topBitAfterShift x i = topBitAfterShift y i) : x = y := by
  rw [← packByte_byteBools x, ← packByte_byteBools y]
  simp [byteBools, h 0, h 1, h 2, h 3, h 4, h 5, h 6, h 7]

theorem bytes_ext_bitAt (a b : Bytes) (hl : a.length = b.length) (h : ∀ j, bitAt a j = bitAt b j) : a = b := by
  apply List.ext_getElem hl
  intro k h1 h2
  apply byte_ext
  intro i hi
  have := h (8 * k + i)
  unfold bitAt at this
  have e0 : (8 * k + i) / 8 = k := by omega
  have e1 : (8 * k + i) % 8 = i := by omega
  rw [e0, e1, List.getElem?_eq_getElem h1, List.getElem?_eq_getElem h2] at this
  exact this

theorem padFront_of_mul8 (l : List Bool) (h : l.length % 8 = 0) : padFront l = l := by
  simp [padFront, h]

theorem fromBools_toBools (b : Bytes) : fromBools (toBools b) = b := by
  apply bytes_ext_bitAt
  · rw [fromBools_length, toBools_length]; omega
  · intro j
    rw [bitAt_fromBools, padFront_of_mul8 _ (by rw [toBools_length]; omega)]
    rw [List.getD_eq_getElem?_getD, toBools_getElem?]
    by_cases h : j < 8 * b.length
    · simp [h]
    · simp [h, bitAt]
      have : b.length ≤ j / 8 := by omega
      rw [List.getElem?_eq_none this]

/-! ### Reverse -/

variable {α : Type}

theorem swapAt_length (l : List α) (i j : Nat) : (swapAt l i j).length = l.length := by
  unfold swapAt; split <;> simp

theorem swapAt_getElem? (l : List α) (i j : Nat) (hi : i < l.length) (hj : j < l.length) (k : Nat) :
    (swapAt l i j)[k]? = if k = j then l[i]? else if k = i then l[j]? else l[k]? := by
  unfold swapAt
  rw [List.getElem?_eq_getElem hi, List.getElem?_eq_getElem hj]
  simp only [List.getElem?_set]
  by_cases h1 : j = k
  · subst h1; simp [hj]
  · by_cases h2 : i = k
    · subst h2; simp [h1, hi, Ne.symm h1]
    · simp [h1, h2, Ne.symm h1, Ne.symm h2]

/-- the positions mirrored after the iterations `i = k-1 .. 0` on a slice of `n` elements -/
def Mirrored (k n j : Nat) : Prop := j < k ∨ (n - k ≤ j ∧ j < n)

instance (k n j : Nat) : Decidable (Mirrored k n j) := by unfold Mirrored; exact inferInstance

theorem reverseLoop_getElem? (k : Nat) (c : List α) (hk : 2 * k ≤ c.length) (j : Nat) :
    (reverseLoop k c)[j]? = if Mirrored k c.length j then c[c.length - 1 - j]? else c[j]? := by
  induction k generalizing c with
  | zero =>
    have : ¬ Mirrored 0 c.length j := by unfold Mirrored; omega
    rw [if_neg this]; rfl
  | succ k ih =>
    simp only [reverseLoop]
    have hl := swapAt_length c k (c.length - 1 - k)
    rw [ih _ (by rw [hl]; omega), hl]
    have hk1 : k < c.length := by omega
    have hk2 : c.length - 1 - k < c.length := by omega
    by_cases hjl : j < c.length
    · by_cases c1 : j < k
      · have a1 : Mirrored k c.length j := Or.inl c1
        have a2 : Mirrored (k + 1) c.length j := Or.inl (by omega)
        have a3 : c.length - 1 - j ≠ c.length - 1 - k := by omega
        have a4 : c.length - 1 - j ≠ k := by omega
        rw [if_pos a1, if_pos a2, swapAt_getElem? c k _ hk1 hk2, if_neg a3, if_neg a4]
      · by_cases c2 : j = k
        · subst c2
          have a1 : ¬ Mirrored j c.length j := by unfold Mirrored; omega
          have a2 : Mirrored (j + 1) c.length j := Or.inl (by omega)
          rw [if_neg a1, if_pos a2, swapAt_getElem? c j _ hk1 hk2]
          by_cases c3 : j = c.length - 1 - j
          · rw [if_pos c3, ← c3]
          · rw [if_neg c3, if_pos rfl]
        · by_cases c3 : j = c.length - 1 - k
          · have a1 : ¬ Mirrored k c.length j := by unfold Mirrored; omega
            have a2 : Mirrored (k + 1) c.length j := Or.inr (by omega)
            have a3 : c.length - 1 - j = k := by omega
            rw [if_neg a1, if_pos a2, swapAt_getElem? c k _ hk1 hk2, if_pos c3, a3]
          · by_cases c4 : c.length - k ≤ j
            · have a1 : Mirrored k c.length j := Or.inr ⟨c4, hjl⟩
              have a2 : Mirrored (k + 1) c.length j := Or.inr (by omega)
              have a3 : c.length - 1 - j ≠ c.length - 1 - k := by omega
              have a4 : c.length - 1 - j ≠ k := by omega
              rw [if_pos a1, if_pos a2, swapAt_getElem? c k _ hk1 hk2, if_neg a3, if_neg a4]
            · have a1 : ¬ Mirrored k c.length j := by unfold Mirrored; omega
              have a2 : ¬ Mirrored (k + 1) c.length j := by unfold Mirrored; omega
              rw [if_neg a1, if_neg a2, swapAt_getElem? c k _ hk1 hk2, if_neg c3, if_neg c2]
    · have a1 : ¬ Mirrored k c.length j := by unfold Mirrored; omega
      have a2 : ¬ Mirrored (k + 1) c.length j := by unfold Mirrored; omega
      have a3 : j ≠ c.length - 1 - k := by omega
      have a4 : j ≠ k := by omega
      rw [if_neg a1, if_neg a2, swapAt_getElem? c k _ hk1 hk2, if_neg a3, if_neg a4]

theorem reverseLoop_half (c : List α) : reverseLoop (c.length / 2) c = c.reverse := by
  apply List.ext_getElem?
  intro j
  rw [reverseLoop_getElem? _ _ (by omega)]
  by_cases hj : j < c.length
  · rw [List.getElem?_reverse hj]
    by_cases h : Mirrored (c.length / 2) c.length j
    · rw [if_pos h]
    · rw [if_neg h]
      have : j = c.length - 1 - j := by unfold Mirrored at h; omega
      rw [← this]
  · have h : ¬ Mirrored (c.length / 2) c.length j := by unfold Mirrored; omega
    rw [if_neg h, List.getElem?_eq_none (by omega), List.getElem?_eq_none (by simp; omega)]

theorem reverse_eq (l : List α) : reverse l = l.reverse := reverseLoop_half l
theorem bytesReverse_eq (b : Bytes) : bytesReverse b = b.reverse := reverseLoop_half b

/-! ### Equal / FindIndex / Insert / CommonPrefix -/

variable {α : Type}

/-! equal -/
theorem zip_all_eq [DecidableEq α] (a b : List α) (h : a.length = b.length) :
    (a.zip b).all (fun p => decide (p.1 = p.2)) = true ↔ a = b := by
  induction a generalizing b with
  | nil => cases b <;> simp_all
  | cons x xs ih =>
    cases b with
    | nil => simp at h
    | cons y ys =>
      have hl : xs.length = ys.length := by simpa using h
      simp [ih ys hl]

theorem equal_iff [DecidableEq α] (a b : List α) : equal a b = true ↔ a = b := by
  unfold equal
  by_cases h : a.length = b.length
  · simp only [h, ne_eq, not_true_eq_false, if_false]; exact zip_all_eq a b h
  · simp only [ne_eq, h, not_false_eq_true, if_true]
    constructor
    · intro h'; cases h'
    · intro h'; subst h'; exact absurd rfl h

/-! findIndex -/
theorem findIndexFrom_spec (p : α → Bool) (i : Nat) (l : List α) :
    (findIndexFrom p i l = -1 ∧ ∀ x ∈ l, p x = false) ∨
    (∃ k, ∃ hk : k < l.length, findIndexFrom p i l = ((i + k : Nat) : Int) ∧ p l[k] = true ∧
      ∀ j, ∀ hj : j < k, p (l[j]'(by omega)) = false) := by
  induction l generalizing i with
  | nil => left; simp [findIndexFrom]
  | cons v r ih =>
    by_cases hv : p v = true
    · right
      exact ⟨0, by simp, by simp [findIndexFrom, hv], by simpa using hv, by intro j hj; omega⟩
    · have hv' : p v = false := by simpa using hv
      rcases ih (i + 1) with ⟨h1, h2⟩ | ⟨k, hk, h1, h2, h3⟩
      · left
        refine ⟨by simp [findIndexFrom, hv', h1], ?_⟩
        intro x hx
        rcases List.mem_cons.mp hx with rfl | hx
        · exact hv'
        · exact h2 x hx
      · right
        refine ⟨k + 1, by simp; omega, ?_, by simpa using h2, ?_⟩
        · simp only [findIndexFrom, hv', Bool.false_eq_true, if_false, h1]
          congr 1; omega
        · intro j hj
          cases j with
          | zero => simpa using hv'
          | succ j => simpa using h3 j (by omega)

/-! insert -/
theorem insert_ok (list : List α) (i : Nat) (h : i ≤ list.length) (val : α) :
    insert list (i : Int) val = .ok (list.take i ++ val :: list.drop i) := by
  unfold insert
  have h1 : ¬ ((i : Int) < 0) := by omega
  have h2 : ¬ ((i : Int) > (list.length : Int)) := by omega
  simp [h1, h2]

theorem insert_panics (list : List α) (index : Int) (val : α) :
    (∃ e, insert list index val = .error e) ↔ (index < 0 ∨ index > list.length) := by
  unfold insert
  by_cases h1 : index < 0
  · simp [h1]
  · by_cases h2 : index > (list.length : Int)
    · simp [h1, h2]
    · simp [h1, h2]

/-! commonPrefix -/

/-- longest common prefix, by structural recursion on both lists -/
def lcp [DecidableEq α] : List α → List α → List α
  | x :: xs, y :: ys => if x = y then x :: lcp xs ys else []
  | _, _ => []

theorem commonPrefixLoop_zip [DecidableEq α] (s l : List α) : commonPrefixLoop (s.zip l) = lcp s l := by
  induction s generalizing l with
  | nil => cases l <;> simp [commonPrefixLoop, lcp]
  | cons x xs ih =>
    cases l with
    | nil => simp [commonPrefixLoop, lcp]
    | cons y ys =>
      simp only [List.zip_cons_cons, commonPrefixLoop, lcp, ih]
      by_cases h : x = y <;> simp [h]

theorem lcp_comm [DecidableEq α] (a b : List α) : lcp a b = lcp b a := by
  induction a generalizing b with
  | nil => cases b <;> simp [lcp]
  | cons x xs ih =>
    cases b with
    | nil => simp [lcp]
    | cons y ys =>
      simp only [lcp]
      by_cases h : x = y
      · subst h; simp [ih]
      · have : ¬ y = x := fun e => h e.symm
        simp [h, this]

theorem commonPrefix_eq_lcp [DecidableEq α] (a b : List α) : commonPrefix a b = lcp a b := by
  unfold commonPrefix
  by_cases h : a.length < b.length
  · simp only [h, if_true]; exact commonPrefixLoop_zip a b
  · simp only [h, if_false]; rw [commonPrefixLoop_zip, lcp_comm]

theorem lcp_prefix_left [DecidableEq α] (a b : List α) : lcp a b <+: a := by
  induction a generalizing b with
  | nil => cases b <;> simp [lcp]
  | cons x xs ih =>
    cases b with
    | nil => simp [lcp]
    | cons y ys =>
      simp only [lcp]
      by_cases h : x = y
      · simp [h, List.cons_prefix_cons]; subst h; exact ih ys
      · simp [h]

theorem lcp_greatest [DecidableEq α] (p a b : List α) (ha : p <+: a) (hb : p <+: b) : p <+: lcp a b := by
  induction p generalizing a b with
  | nil => simp
  | cons x p ih =>
    cases a with
    | nil => simp at ha
    | cons y ys =>
      cases b with
      | nil => simp at hb
      | cons z zs =>
        rw [List.cons_prefix_cons] at ha hb
        obtain ⟨rfl, ha⟩ := ha
        obtain ⟨rfl, hb⟩ := hb
        simp only [lcp, if_true, List.cons_prefix_cons, true_and]
        exact ih ys zs ha hb

/-- just after the common prefix the two lists differ (or one of them ends) -/
theorem lcp_maximal [DecidableEq α] (a b : List α) (x y : α)
    (ha : a[(lcp a b).length]? = some x) (hb : b[(lcp a b).length]? = some y) : x ≠ y := by
  induction a generalizing b with
  | nil => simp at ha
  | cons u us ih =>
    cases b with
    | nil => simp at hb
    | cons v vs =>
      simp only [lcp] at ha hb
      by_cases h : u = v
      · simp only [h, if_true, List.length_cons, List.getElem?_cons_succ] at ha hb
        subst h
        exact ih vs ha hb
      · simp only [h, if_false, List.length_nil, List.getElem?_cons_zero, Option.some.injEq] at ha hb
        subst ha; subst hb; exact h

/-! ### BinarySearch -/

variable {α : Type}

/-- `low` is `-1` or an index whose element does not satisfy `less` -/
def LowOk (list : List α) (less : α → Bool) (low : Int) : Prop :=
  low = -1 ∨ ∃ x, 0 ≤ low ∧ list[low.toNat]? = some x ∧ less x = false

/-- `high` is `len` or an index whose element satisfies `less` -/
def HighOk (list : List α) (less : α → Bool) (high : Int) : Prop :=
  high = list.length ∨ ∃ x, 0 ≤ high ∧ list[high.toNat]? = some x ∧ less x = true

theorem binarySearchLoop_spec (list : List α) (less : α → Bool) (fuel : Nat) (low high : Int)
    (h1 : -1 ≤ low) (h2 : low < high) (h3 : high ≤ list.length) (hf : high - low - 1 ≤ fuel)
    (hl : LowOk list less low) (hh : HighOk list less high) :
    ∃ r, binarySearchLoop list less fuel low high = .ok r ∧ low < r ∧ r ≤ high ∧
      LowOk list less (r - 1) ∧ HighOk list less r := by
  induction fuel generalizing low high with
  | zero =>
    refine ⟨high, rfl, h2, Int.le_refl _, ?_, hh⟩
    have : high - 1 = low := by omega
    rw [this]; exact hl
  | succ fuel ih =>
    simp only [binarySearchLoop]
    by_cases hc : 1 + low < high
    · simp only [hc, if_true]
      have hm1 : low < low + (high - low) / 2 := by omega
      have hm2 : low + (high - low) / 2 < high := by omega
      have hm0 : ¬ (low + (high - low) / 2 < 0) := by omega
      simp only [hm0, if_false]
      have hidx : (low + (high - low) / 2).toNat < list.length := by omega
      rw [List.getElem?_eq_getElem hidx]
      simp only
      by_cases hx : less list[(low + (high - low) / 2).toNat] = true
      · simp only [hx, if_true]
        obtain ⟨r, e, r1, r2, r3, r4⟩ := ih low (low + (high - low) / 2) h1 hm1 (by omega) (by omega) hl
          (Or.inr ⟨_, by omega, List.getElem?_eq_getElem hidx, hx⟩)
        exact ⟨r, e, r1, by omega, r3, r4⟩
      · have hx' : less list[(low + (high - low) / 2).toNat] = false := by simpa using hx
        simp only [hx', Bool.false_eq_true, if_false]
        obtain ⟨r, e, r1, r2, r3, r4⟩ := ih (low + (high - low) / 2) high (by omega) hm2 h3 (by omega)
          (Or.inr ⟨_, by omega, List.getElem?_eq_getElem hidx, hx'⟩) hh
        exact ⟨r, e, by omega, r2, r3, r4⟩
    · simp only [hc, if_false]
      refine ⟨high, rfl, h2, Int.le_refl _, ?_, hh⟩
      have : high - 1 = low := by omega
      rw [this]; exact hl

/-- `BinarySearch` never panics; its result `r` is in `[0, len]`, the element at `r` (if any) satisfies
the predicate and the element before `r` (if any) does not — for EVERY predicate. -/
theorem binarySearch_boundary (list : List α) (less : α → Bool) :
    ∃ r : Nat, binarySearch list less = .ok (r : Int) ∧ r ≤ list.length ∧
      (∀ x, list[r]? = some x → less x = true) ∧
      (∀ x, 0 < r → list[r - 1]? = some x → less x = false) := by
  obtain ⟨r, e, r1, r2, r3, r4⟩ := binarySearchLoop_spec list less (list.length + 1) (-1) list.length
    (by omega) (by omega) (by omega) (by omega) (Or.inl rfl) (Or.inl rfl)
  refine ⟨r.toNat, ?_, by omega, ?_, ?_⟩
  · unfold binarySearch; rw [e]; congr 1; omega
  · intro y hy
    rcases r4 with h4 | ⟨x, _, h4, h5⟩
    · rw [List.getElem?_eq_none (by omega)] at hy; cases hy
    · rw [hy] at h4; cases h4; exact h5
  · intro y h hy
    rcases r3 with h3 | ⟨x, _, h4, h5⟩
    · omega
    · have e1 : (r - 1).toNat = r.toNat - 1 := by omega
      rw [e1, hy] at h4
      cases h4; exact h5

/-! ### Sort / Unique / Max / Min -/

variable {α : Type}

/-- two sorted permutations of one another are equal (antisymmetric order) -/
theorem sorted_perm_eq (le : α → α → Bool) (anti : ∀ a b, le a b = true → le b a = true → a = b)
    (l1 l2 : List α) (hp : l1.Perm l2)
    (h1 : l1.Pairwise (fun x y => le x y = true)) (h2 : l2.Pairwise (fun x y => le x y = true)) :
    l1 = l2 := by
  induction l1 generalizing l2 with
  | nil => exact (List.Perm.nil_eq hp)
  | cons a t1 ih =>
    cases l2 with
    | nil => exact absurd hp.symm (by simp)
    | cons b t2 =>
      have p1 := List.pairwise_cons.mp h1
      have p2 := List.pairwise_cons.mp h2
      have hab : a = b := by
        have ha : a ∈ b :: t2 := hp.mem_iff.mp (List.mem_cons_self)
        have hb : b ∈ a :: t1 := hp.mem_iff.mpr (List.mem_cons_self)
        rcases List.mem_cons.mp ha with e | ha
        · exact e
        · rcases List.mem_cons.mp hb with e | hb
          · exact e.symm
          · exact anti a b (p1.1 b hb) (p2.1 a ha)
      subst hab
      rw [ih t2 (List.Perm.cons_inv hp) p1.2 p2.2]

theorem ble_iff_not_blt (a b : Bytes) : (!(blt b a)) = ble a b := by
  unfold blt ble
  cases h : bcmp b a
  · have := (bcmp_swap b a).mp h; simp [this]
  · have := (bcmp_eq_iff b a).mp h; subst this; simp [bcmp_self]
  · have : bcmp a b = .lt := (bcmp_swap a b).mpr h
    simp [this]

theorem bytesIsSorted_iff (l : List Bytes) :
    bytesIsSorted l = true ↔ l.Pairwise (fun a b => ble a b = true) := by
  induction l with
  | nil => simp [bytesIsSorted]
  | cons a r ih =>
    cases r with
    | nil => simp [bytesIsSorted]
    | cons b r =>
      simp only [bytesIsSorted, Bool.and_eq_true, ble_iff_not_blt, ih]
      constructor
      · intro ⟨hab, hr⟩
        refine List.pairwise_cons.mpr ⟨?_, hr⟩
        intro x hx
        rcases List.mem_cons.mp hx with rfl | hx
        · exact hab
        · exact ble_trans _ _ _ hab ((List.pairwise_cons.mp hr).1 x hx)
      · intro h
        have := List.pairwise_cons.mp h
        exact ⟨this.1 b (List.mem_cons_self), this.2⟩

/-! dedup -/
theorem mem_dedup [DecidableEq α] (l : List α) (x : α) : x ∈ dedup l ↔ x ∈ l := by
  induction l with
  | nil => simp [dedup]
  | cons a r ih =>
    simp only [dedup, List.mem_cons, List.mem_filter, ih, decide_eq_true_eq]
    by_cases h : x = a <;> simp [h]

theorem nodup_dedup [DecidableEq α] (l : List α) : (dedup l).Nodup := by
  induction l with
  | nil => simp [dedup]
  | cons a r ih =>
    simp only [dedup, List.nodup_cons, List.mem_filter, decide_eq_true_eq]
    exact ⟨fun h => h.2 rfl, ih.filter _⟩

theorem dedup_length_le [DecidableEq α] (l : List α) : (dedup l).length ≤ l.length := by
  induction l with
  | nil => simp [dedup]
  | cons a r ih =>
    simp only [dedup, List.length_cons]
    have := List.length_filter_le (fun x => decide (x ≠ a)) (dedup r)
    omega

theorem dedup_of_nodup [DecidableEq α] (l : List α) (h : l.Nodup) : dedup l = l := by
  induction l with
  | nil => rfl
  | cons a r ih =>
    have hn := List.nodup_cons.mp h
    simp only [dedup, ih hn.2]
    congr 1
    apply List.filter_eq_self.mpr
    intro x hx
    simp only [decide_eq_true_eq]
    intro e; subst e; exact hn.1 hx

theorem dedup_length_eq_iff [DecidableEq α] (l : List α) : (dedup l).length = l.length ↔ l.Nodup := by
  constructor
  · intro h
    induction l with
    | nil => simp
    | cons a r ih =>
      simp only [dedup, List.length_cons] at h
      have h1 := List.length_filter_le (fun x => decide (x ≠ a)) (dedup r)
      have h2 := dedup_length_le r
      have hr : (dedup r).length = r.length := by omega
      have hf : ((dedup r).filter (fun x => decide (x ≠ a))).length = (dedup r).length := by omega
      have hn := ih hr
      refine List.nodup_cons.mpr ⟨?_, hn⟩
      intro ha
      have hall := List.length_filter_eq_length_iff.mp hf
      have := hall a ((mem_dedup r a).mpr ha)
      simp at this
  · intro h; rw [dedup_of_nodup l h]

/-- duplicate-free lists with the same members are permutations of one another -/
theorem perm_of_nodup_mem [DecidableEq α] (l1 l2 : List α) (h1 : l1.Nodup) (h2 : l2.Nodup)
    (hm : ∀ x, x ∈ l1 ↔ x ∈ l2) : l1.Perm l2 := by
  induction l1 generalizing l2 with
  | nil =>
    cases l2 with
    | nil => exact List.Perm.refl _
    | cons b t => exact absurd ((hm b).mpr List.mem_cons_self) (by simp)
  | cons a t ih =>
    have hn := List.nodup_cons.mp h1
    have ha : a ∈ l2 := (hm a).mp List.mem_cons_self
    have hp : l2.Perm (a :: l2.erase a) := List.perm_cons_erase ha
    refine (List.Perm.cons a (ih (l2.erase a) hn.2 (h2.erase a) ?_)).trans hp.symm
    intro x
    rw [h2.mem_erase_iff]
    constructor
    · intro hx
      exact ⟨fun e => hn.1 (e ▸ hx), (hm x).mp (List.mem_cons_of_mem _ hx)⟩
    · intro ⟨hne, hx⟩
      rcases List.mem_cons.mp ((hm x).mpr hx) with e | hx'
      · exact absurd e hne
      · exact hx'

/-! Max / Min -/
theorem isort_head_spec (le : Int → Int → Bool)
    (trans : ∀ a b c, le a b = true → le b c = true → le a c = true)
    (total : ∀ a b, (le a b || le b a) = true) (l : List Int) (x : Int) (r : List Int)
    (h : isort le l = x :: r) : x ∈ l ∧ ∀ y ∈ l, le x y = true := by
  have hp := isort_perm le l
  have hs := isort_pairwise le trans total l
  rw [h] at hp hs
  refine ⟨hp.mem_iff.mp List.mem_cons_self, ?_⟩
  intro y hy
  rcases List.mem_cons.mp (hp.mem_iff.mpr hy) with e | hy'
  · subst e
    have := total y y
    simpa using this
  · exact (List.pairwise_cons.mp hs).1 y hy'

end LiskVerif.Collection
