/-
Lemmas tying the transcription of `Verify` / `CalculateRoot` (Model/SMTVerify.lean) for a SINGLE query to the
specification verifier `SMT.verify1` / `SMT.recon`.
-/
import LiskVerif.Model.SMTVerify
import LiskVerif.Lemmas.SMT

namespace LiskVerif.SMTVerify
open LiskVerif LiskVerif.SMT

/-- one more (deepest) level below a successful reconstruction -/
theorem recon_snoc_of_some (H : HashFn) (dir b : Bool) (s x : Bytes) :
    ∀ (ds : Bits) (bs : List Bool) (ss : List Bytes) (r : Bytes),
      recon H ds bs ss
        (if b then (if dir then branchHash H s x else branchHash H x s)
         else (if dir then branchHash H (emptyHash H) x else branchHash H x (emptyHash H))) = some r →
      recon H (ds ++ [dir]) (bs ++ [b]) (ss ++ (if b then [s] else [])) x = some r := by
  intro ds
  induction ds with
  | nil =>
    intro bs ss r h
    match bs, ss, h with
    | [], [], h =>
      simp only [recon, Option.some.injEq] at h
      cases b <;> simp_all [recon]
  | cons d ds ih =>
    intro bs ss r h
    match bs, h with
    | b' :: bs', h =>
      simp only [recon] at h
      cases b'
      · simp only [Bool.false_eq_true, ↓reduceIte, Option.map_eq_some_iff] at h
        obtain ⟨sub, hs, hr⟩ := h
        simp only [List.cons_append, recon, Bool.false_eq_true, ↓reduceIte, ih _ _ _ hs, Option.map_some, hr]
      · simp only [↓reduceIte] at h
        match ss, h with
        | s1 :: ss1, h =>
          simp only [Option.map_eq_some_iff] at h
          obtain ⟨sub, hs, hr⟩ := h
          simp only [List.cons_append, recon, ↓reduceIte, ih _ _ _ hs, Option.map_some, hr]

theorem insertAndMerge_nil (q : QP) : insertAndMerge q [] = some [q] := by
  simp [insertAndMerge, searchPos, binarySearch, bsLoop, insertAt]

/-- `CalculateRoot`'s loop on a single query computes `recon` along the key bits (lists reversed: the loop works
bottom-up and consumes the sibling hashes deepest first). -/
theorem calcLoop_single (H : HashFn) (key value : Bytes) :
    ∀ (bm : Bits) (fuel : Nat) (x : Bytes) (sibs : List Bytes) (r : Bytes),
      bm.length ≤ (toBools key).length →
      calcLoop H fuel sibs [⟨key, value, bm, x⟩] = some r →
      recon H ((toBools key).take bm.length) bm.reverse sibs.reverse x = some r := by
  intro bm
  induction bm with
  | nil =>
    intro fuel x sibs r _ h
    cases fuel with
    | zero => simp [calcLoop] at h
    | succ f =>
      simp only [calcLoop] at h
      split at h
      · next he =>
        have : sibs = [] := List.isEmpty_iff.mp he
        simp only [Option.some.injEq] at h
        simp [recon, this, h]
      · simp at h
  | cons b0 rest ih =>
    intro fuel x sibs r hlen h
    cases fuel with
    | zero => simp [calcLoop] at h
    | succ f =>
      have hlen' : rest.length < (toBools key).length := Nat.lt_of_succ_le (by simpa using hlen)
      have htake : (toBools key).take (rest.length + 1) =
          (toBools key).take rest.length ++ [(toBools key).getD rest.length false] := by
        rw [List.take_add_one]
        congr 1
        simp [List.getD, List.getElem?_eq_getElem hlen']
      simp only [calcLoop, QP.height, QP.binaryKey, List.length_cons, Nat.add_sub_cancel] at h
      simp only [List.length_cons, List.reverse_cons, htake]
      generalize (toBools key).getD rest.length false = dir at h ⊢
      cases b0
      · -- empty sibling
        simp only [Bool.not_false, ↓reduceIte] at h
        split at h
        · simp at h
        · simp only [insertAndMerge_nil] at h
          have := ih f _ sibs r (by omega) h
          have hs := recon_snoc_of_some H dir false [] x _ _ _ r (by cases dir <;> simpa using this)
          simpa using hs
      · simp only [Bool.not_true, Bool.false_eq_true, ↓reduceIte] at h
        match sibs, h with
        | [], h => simp at h
        | s :: ss, h =>
          simp only at h
          split at h
          · simp at h
          · simp only [insertAndMerge_nil] at h
            have := ih f _ ss r (by omega) h
            have hs := recon_snoc_of_some H dir true s x _ _ _ r (by cases dir <;> simpa using this)
            simpa using hs

end LiskVerif.SMTVerify
