/-
Lemmas for the finality-safety proof (C01) about the unbounded specification `Model/BFTSpec.lean`.
Chains are NEWEST FIRST here: `x :: p` is the block with header `x` whose parent is the block `p`;
"`b` is an ancestor-or-self of `t`" is `b <:+ t` (list suffix).
-/
import LiskVerif.Model.BFTSpec
import LiskVerif.Props.C07

namespace LiskVerif.BFTSpec
open LiskVerif LiskVerif.BFT

/-! ### `maxWith` -/

theorem maxWith_ge_lo (f : Nat → Bool) (lo n : Nat) : lo ≤ maxWith f lo n := by
  induction n with
  | zero => simp [maxWith]
  | succ n ih => unfold maxWith; split <;> omega

theorem maxWith_le (f : Nat → Bool) (lo n : Nat) : maxWith f lo n ≤ lo + n := by
  induction n with
  | zero => simp [maxWith]
  | succ n ih => unfold maxWith; split <;> omega

/-- the result is `lo` or satisfies `f` -/
theorem maxWith_spec (f : Nat → Bool) (lo n : Nat) :
    maxWith f lo n = lo ∨ f (maxWith f lo n) = true := by
  induction n with
  | zero => simp [maxWith]
  | succ n ih =>
    unfold maxWith
    split
    · right; assumption
    · exact ih

theorem maxWith_ge (f : Nat → Bool) (lo n h : Nat) (hf : f h = true) (h1 : lo < h) (h2 : h ≤ lo + n) :
    h ≤ maxWith f lo n := by
  induction n with
  | zero => omega
  | succ n ih =>
    unfold maxWith
    split
    · omega
    · rename_i hn
      by_cases he : h = lo + n + 1
      · subst he; exact absurd hf hn
      · exact ih (by omega)

/-- monotone in the predicate and the range -/
theorem maxWith_mono (f f' : Nat → Bool) (lo n n' : Nat) (hff : ∀ h, f h = true → f' h = true)
    (hn : n ≤ n') : maxWith f lo n ≤ maxWith f' lo n' := by
  rcases maxWith_spec f lo n with h | h
  · rw [h]; exact maxWith_ge_lo f' lo n'
  · have h1 := maxWith_ge_lo f lo n
    have h2 := maxWith_le f lo n
    by_cases heq : maxWith f lo n = lo
    · rw [heq]; exact maxWith_ge_lo f' lo n'
    · exact maxWith_ge f' lo n' _ (hff _ h) (by omega) (by omega)

/-! ### weighted sums over the validator list -/

/-- total weight of the validators whose address satisfies `f` -/
def wsumB (vs : List Validator) (f : Bytes → Bool) : Nat :=
  (vs.map fun v => if f v.address then v.weight else 0).sum

theorem wsumB_nil (f : Bytes → Bool) : wsumB [] f = 0 := rfl

theorem wsumB_cons (v : Validator) (vs : List Validator) (f : Bytes → Bool) :
    wsumB (v :: vs) f = (if f v.address then v.weight else 0) + wsumB vs f := by
  simp [wsumB]

theorem wsumB_le_total (vs : List Validator) (f : Bytes → Bool) :
    wsumB vs f ≤ (vs.map (·.weight)).sum := by
  induction vs with
  | nil => simp [wsumB]
  | cons v vs ih =>
    rw [wsumB_cons]; simp only [List.map_cons, List.sum_cons]
    split <;> omega

theorem wsumB_mono (vs : List Validator) (f g : Bytes → Bool)
    (h : ∀ v ∈ vs, f v.address = true → g v.address = true) : wsumB vs f ≤ wsumB vs g := by
  induction vs with
  | nil => simp [wsumB]
  | cons v vs ih =>
    rw [wsumB_cons, wsumB_cons]
    have ih' := ih (fun u hu => h u (List.mem_cons_of_mem _ hu))
    have hv := h v List.mem_cons_self
    by_cases hf : f v.address = true
    · simp [hf, hv hf]; exact ih'
    · simp [hf]
      split <;> omega

/-- inclusion–exclusion: two sets of validators overlap in at least `w(P)+w(Q)-W` -/
theorem wsumB_inter (vs : List Validator) (f g : Bytes → Bool) :
    wsumB vs f + wsumB vs g ≤ (vs.map (·.weight)).sum + wsumB vs (fun a => f a && g a) := by
  induction vs with
  | nil => simp [wsumB]
  | cons v vs ih =>
    simp only [wsumB_cons, List.map_cons, List.sum_cons]
    cases hf : f v.address <;> cases hg : g v.address <;> simp <;> omega

/-- weight of the first validator with address `a` -/
def weightIn (vs : List Validator) (a : Bytes) : Nat :=
  match findValidator vs a with
  | some v => v.weight
  | none => 0

theorem weightIn_cons (v : Validator) (vs : List Validator) (a : Bytes) :
    weightIn (v :: vs) a = if v.address = a then v.weight else weightIn vs a := by
  unfold weightIn findValidator
  simp only [List.find?_cons]
  by_cases h : v.address = a <;> simp [h]

theorem weightOf_eq (cfg : Cfg) (a : Bytes) : weightOf cfg a = weightIn cfg.validators a := rfl

/-- adding a new voter `a` to a set of voters adds at least its weight -/
theorem wsumB_remove (vs : List Validator) (f : Bytes → Bool) (a : Bytes) (ha : f a = true) :
    wsumB vs (fun c => f c && !(decide (c = a))) + weightIn vs a ≤ wsumB vs f := by
  induction vs with
  | nil => simp [wsumB, weightIn, findValidator]
  | cons v vs ih =>
    rw [wsumB_cons, wsumB_cons, weightIn_cons]
    by_cases hva : v.address = a
    · have h1 : wsumB vs (fun c => f c && !(decide (c = a))) ≤ wsumB vs f :=
        wsumB_mono _ _ _ (by intro u _ hu; simp at hu; exact hu.1)
      simp [hva, ha]; omega
    · simp [hva]
      split <;> omega

/-! ### chain validity -/

/-- chain validity with the regenerated contradiction predicate -/
def Valid (cfg : Cfg) (r : List Header) : Prop :=
  chainValid Gen.areDistinctHeadersContradicting cfg r = true

theorem valid_nil (cfg : Cfg) : Valid cfg [] := rfl

theorem valid_cons (cfg : Cfg) (x : Header) (p : List Header) :
    Valid cfg (x :: p) ↔ x.height = cfg.genesis + p.length + 1 ∧ x.mhp = mhp cfg p ∧
      contradictingSpec Gen.areDistinctHeadersContradicting p x = false ∧ Valid cfg p := by
  unfold Valid
  simp [chainValid, and_assoc]

theorem valid_suffix (cfg : Cfg) {r s : List Header} (hv : Valid cfg r) (hs : s <:+ r) : Valid cfg s := by
  induction r with
  | nil => rw [List.suffix_nil] at hs; subst hs; exact hv
  | cons y r ih =>
    rcases List.suffix_cons_iff.mp hs with h | h
    · subst h; exact hv
    · exact ih ((valid_cons cfg y r).mp hv).2.2.2 h

theorem valid_height (cfg : Cfg) {r p : List Header} {x : Header} (hv : Valid cfg r)
    (hs : x :: p <:+ r) : x.height = cfg.genesis + p.length + 1 :=
  ((valid_cons cfg x p).mp (valid_suffix cfg hv hs)).1

/-- two ancestors of one block are comparable, the shorter one below -/
theorem suffix_of_suffix_le {α : Type} {a b r : List α} (ha : a <:+ r) (hb : b <:+ r)
    (hl : a.length ≤ b.length) : a <:+ b :=
  List.suffix_of_suffix_length_le ha hb hl

/-- heights of the blocks of a valid chain are bounded by the tip height -/
theorem valid_mem_height_le (cfg : Cfg) {r : List Header} (hv : Valid cfg r) {e : Header} (he : e ∈ r) :
    cfg.genesis < e.height ∧ e.height ≤ cfg.genesis + r.length := by
  obtain ⟨s, t, rfl⟩ := List.append_of_mem he
  have hs : e :: t <:+ s ++ e :: t := List.suffix_append _ _
  have := valid_height cfg hv hs
  simp
  omega

/-! ### prevotes -/

theorem prevotes_iff (cfg : Cfg) (x : Header) (h : Nat) :
    prevotes cfg x h = true ↔ x.mhg < x.height ∧ x.mhg < h ∧ cfg.genesis < h ∧ h ≤ x.height := by
  unfold prevotes
  simp
  omega

theorem pvW_cons (cfg : Cfg) (x : Header) (p : List Header) (h : Nat) :
    pvW cfg (x :: p) h = pvW cfg p h + (if prevotes cfg x h then weightOf cfg x.gen else 0) := rfl

theorem pvW_mono (cfg : Cfg) {s r : List Header} (hs : s <:+ r) (h : Nat) : pvW cfg s h ≤ pvW cfg r h := by
  induction r with
  | nil => rw [List.suffix_nil] at hs; subst hs; exact Nat.le_refl _
  | cons y r ih =>
    rcases List.suffix_cons_iff.mp hs with h' | h'
    · subst h'; exact Nat.le_refl _
    · have := ih h'
      rw [pvW_cons]; omega

/-- only heights of the chain carry prevote weight -/
theorem pvW_pos (cfg : Cfg) {r : List Header} (hv : Valid cfg r) {h : Nat} (hp : 0 < pvW cfg r h) :
    cfg.genesis < h ∧ h ≤ cfg.genesis + r.length := by
  induction r with
  | nil => simp [pvW] at hp
  | cons x p ih =>
    have hv' := (valid_cons cfg x p).mp hv
    rw [pvW_cons] at hp
    by_cases hx : prevotes cfg x h = true
    · have := (prevotes_iff cfg x h).mp hx
      simp; omega
    · simp [hx] at hp
      have := ih hv'.2.2.2 hp
      simp; omega

theorem prevoteThreshold_pos (cfg : Cfg) : 0 < prevoteThreshold cfg := by
  unfold prevoteThreshold; omega

/-! ### maxHeightPrevoted -/

theorem mhp_ge_genesis (cfg : Cfg) (r : List Header) : cfg.genesis ≤ mhp cfg r := maxWith_ge_lo _ _ _

theorem mhp_le (cfg : Cfg) (r : List Header) : mhp cfg r ≤ cfg.genesis + r.length := maxWith_le _ _ _

theorem mhp_spec (cfg : Cfg) (r : List Header) :
    mhp cfg r = cfg.genesis ∨ prevoteThreshold cfg ≤ pvW cfg r (mhp cfg r) := by
  rcases maxWith_spec (fun h => decide (prevoteThreshold cfg ≤ pvW cfg r h)) cfg.genesis r.length with h | h
  · left; exact h
  · right; unfold mhp; simpa using h

theorem mhp_ge (cfg : Cfg) {r : List Header} (hv : Valid cfg r) {h : Nat}
    (hq : prevoteThreshold cfg ≤ pvW cfg r h) : h ≤ mhp cfg r := by
  have hpos := pvW_pos cfg hv (h := h) (by have := prevoteThreshold_pos cfg; omega)
  exact maxWith_ge _ _ _ _ (by simpa using hq) hpos.1 hpos.2

theorem mhp_mono (cfg : Cfg) {s r : List Header} (hs : s <:+ r) : mhp cfg s ≤ mhp cfg r := by
  apply maxWith_mono
  · intro h hh
    simp at hh ⊢
    exact Nat.le_trans hh (pvW_mono cfg hs h)
  · exact hs.length_le

/-! ### the blocks of one generator along a valid chain -/

theorem toHdr_gen (x : Header) : (toHdr x).generatorAddress = x.gen := rfl

/-- Along a valid chain every block is a legitimate successor (C07) of every earlier block of the
same generator: the chain rule `contradicting = false` against the most recent own block, the
monotonicity of `maxHeightPrevoted` along the chain and transitivity. -/
theorem valid_legit (cfg : Cfg) {r : List Header} (hv : Valid cfg r) :
    ∀ {x : Header} {p : List Header}, x :: p <:+ r → ∀ e ∈ p, e.gen = x.gen →
      C07LegitSucc (toHdr e) (toHdr x) := by
  induction r with
  | nil => intro x p hs; simp at hs
  | cons y r ih =>
    intro x p hs e he hg
    have hvc := (valid_cons cfg y r).mp hv
    rcases List.suffix_cons_iff.mp hs with h | h
    · injection h with h1 h2
      subst h1; subst h2
      have hc := hvc.2.2.1
      unfold contradictingSpec at hc
      cases hf : p.find? (fun b => decide (b.gen = x.gen)) with
      | none =>
        rw [List.find?_eq_none] at hf
        have := hf e he
        simp [hg] at this
      | some b =>
        rw [hf] at hc
        simp only at hc
        obtain ⟨hb, as, bs, hp, has⟩ := List.find?_eq_some_iff_append.mp hf
        have hbg : b.gen = x.gen := by simpa using hb
        have hsb : b :: bs <:+ p := by rw [hp]; exact List.suffix_append _ _
        have hvb := (valid_cons cfg b bs).mp (valid_suffix cfg hvc.2.2.2 hsb)
        have hbs : bs <:+ p := by rw [hp]; exact (List.suffix_cons b bs).trans (List.suffix_append _ _)
        have hm := mhp_mono cfg hbs
        have hlen : p.length = as.length + bs.length + 1 := by rw [hp]; simp; omega
        have hbx : C07LegitSucc (toHdr b) (toHdr x) := by
          rcases (C07_spec (toHdr b) (toHdr x) hbg).mp hc with h1 | h1
          · exact h1
          · exfalso
            unfold C07LegitSucc toHdr at h1
            simp only at h1
            omega
        rw [hp] at he
        rcases List.mem_append.mp he with he | he
        · have := has e he
          simp [hg] at this
        · rcases List.mem_cons.mp he with he | he
          · subst he; exact hbx
          · exact C07_legit_trans _ _ _ (ih hvc.2.2.2 hsb e he (by rw [hg, hbg])) hbx
    · exact ih hvc.2.2.2 h e he hg

theorem mem_of_cons_suffix {α : Type} {e : α} {pe p : List α} (h : e :: pe <:+ p) : e ∈ p :=
  h.subset List.mem_cons_self

/-- A validator's headers along one valid chain imply at most one prevote for a given height. -/
theorem prevote_once (cfg : Cfg) {x : Header} {p : List Header} (hv : Valid cfg (x :: p)) {h : Nat}
    (hx : prevotes cfg x h = true) {e : Header} {pe : List Header} (hs : e :: pe <:+ p)
    (hg : e.gen = x.gen) (he : prevotes cfg e h = true) : False := by
  have hl := valid_legit cfg hv (List.suffix_refl _) e (mem_of_cons_suffix hs) hg
  have h1 := (prevotes_iff cfg x h).mp hx
  have h2 := (prevotes_iff cfg e h).mp he
  unfold C07LegitSucc toHdr at hl
  simp only at hl
  omega

/-! ### largestHeightPrecommit and precommits -/

theorem lhp_cons (cfg : Cfg) (x : Header) (p : List Header) (v : Bytes) :
    lhp cfg (x :: p) v =
      if x.gen = v ∧ x.mhg < x.height then
        max (lhp cfg p v)
          (maxWith (fun h => decide (minPc cfg (hnp p x) (lhp cfg p v) ≤ h) &&
            decide (prevoteThreshold cfg ≤ pvW cfg p h)) cfg.genesis (p.length + 1))
      else lhp cfg p v := rfl

theorem lhp_mono (cfg : Cfg) {s r : List Header} (hs : s <:+ r) (v : Bytes) : lhp cfg s v ≤ lhp cfg r v := by
  induction r with
  | nil => rw [List.suffix_nil] at hs; subst hs; exact Nat.le_refl _
  | cons y r ih =>
    rcases List.suffix_cons_iff.mp hs with h' | h'
    · subst h'; exact Nat.le_refl _
    · have := ih h'
      rw [lhp_cons]
      split
      · exact Nat.le_trans this (Nat.le_max_left _ _)
      · exact this

theorem minPc_le_iff (cfg : Cfg) (a b h : Nat) : minPc cfg a b ≤ h ↔ cfg.genesis < h ∧ a < h ∧ b < h := by
  unfold minPc; omega

theorem precommits_iff (cfg : Cfg) (p : List Header) (x : Header) (h : Nat) :
    precommits cfg p x h = true ↔ x.mhg < x.height ∧ cfg.genesis < h ∧ hnp p x < h ∧
      lhp cfg p x.gen < h ∧ prevoteThreshold cfg ≤ pvW cfg p h := by
  unfold precommits
  simp [minPc_le_iff, and_assoc]

theorem pcW_cons (cfg : Cfg) (x : Header) (p : List Header) (h : Nat) :
    pcW cfg (x :: p) h = pcW cfg p h + (if precommits cfg p x h then weightOf cfg x.gen else 0) := rfl

/-- a precommit raises the generator's `largestHeightPrecommit` to at least the precommitted height -/
theorem precommit_le_lhp (cfg : Cfg) {p : List Header} (hv : Valid cfg p) {x : Header} {h : Nat}
    (hx : precommits cfg p x h = true) : h ≤ lhp cfg (x :: p) x.gen := by
  have hp := (precommits_iff cfg p x h).mp hx
  have hpos := pvW_pos cfg hv (h := h) (by have := prevoteThreshold_pos cfg; omega)
  rw [lhp_cons, if_pos ⟨rfl, hp.1⟩]
  refine Nat.le_trans (maxWith_ge _ _ _ h ?_ hp.2.1 (by omega)) (Nat.le_max_right _ _)
  simp [minPc_le_iff]
  exact ⟨⟨hp.2.1, hp.2.2.1, hp.2.2.2.1⟩, hp.2.2.2.2⟩

/-- A validator's headers along one chain imply at most one precommit for a given height
(the `largestHeightPrecommit` guard). -/
theorem precommit_once (cfg : Cfg) {p : List Header} (hv : Valid cfg p) {x : Header} {h : Nat}
    (hx : precommits cfg p x h = true) {e : Header} {pe : List Header} (hs : e :: pe <:+ p)
    (hg : e.gen = x.gen) (he : precommits cfg pe e h = true) : False := by
  have hvpe : Valid cfg pe := valid_suffix cfg hv ((List.suffix_cons e pe).trans hs)
  have h1 := precommit_le_lhp cfg hvpe he
  have h2 := lhp_mono cfg hs e.gen
  have h3 := ((precommits_iff cfg p x h).mp hx).2.2.2.1
  rw [hg] at h1 h2
  omega

/-! ### quorum weight is carried by distinct validators -/

theorem pvW_le_wsum (cfg : Cfg) {r : List Header} (hv : Valid cfg r) (h : Nat) :
    ∀ f : Bytes → Bool,
      (∀ x p, x :: p <:+ r → prevotes cfg x h = true → f x.gen = true) →
      pvW cfg r h ≤ wsumB cfg.validators f := by
  induction r with
  | nil => intro f _; simp [pvW]
  | cons x p ih =>
    intro f hf
    have hvp := ((valid_cons cfg x p).mp hv).2.2.2
    rw [pvW_cons]
    by_cases hx : prevotes cfg x h = true
    · have h1 := ih hvp (fun c => f c && !(decide (c = x.gen))) (by
        intro e pe hs he
        have : e.gen ≠ x.gen := fun hg => prevote_once cfg hv hx hs hg he
        simp [this]
        exact hf e pe (hs.trans (List.suffix_cons x p)) he)
      have h2 := wsumB_remove cfg.validators f x.gen (hf x p (List.suffix_refl _) hx)
      rw [if_pos hx, weightOf_eq]
      omega
    · rw [if_neg hx]
      exact ih hvp f (fun e pe hs he => hf e pe (hs.trans (List.suffix_cons x p)) he)

theorem pcW_le_wsum (cfg : Cfg) {r : List Header} (hv : Valid cfg r) (h : Nat) :
    ∀ f : Bytes → Bool,
      (∀ x p, x :: p <:+ r → precommits cfg p x h = true → f x.gen = true) →
      pcW cfg r h ≤ wsumB cfg.validators f := by
  induction r with
  | nil => intro f _; simp [pcW]
  | cons x p ih =>
    intro f hf
    have hvp := ((valid_cons cfg x p).mp hv).2.2.2
    rw [pcW_cons]
    by_cases hx : precommits cfg p x h = true
    · have h1 := ih hvp (fun c => f c && !(decide (c = x.gen))) (by
        intro e pe hs he
        have : e.gen ≠ x.gen := fun hg => precommit_once cfg hvp hx hs hg he
        simp [this]
        exact hf e pe (hs.trans (List.suffix_cons x p)) he)
      have h2 := wsumB_remove cfg.validators f x.gen (hf x p (List.suffix_refl _) hx)
      rw [if_pos hx, weightOf_eq]
      omega
    · rw [if_neg hx]
      exact ih hvp f (fun e pe hs he => hf e pe (hs.trans (List.suffix_cons x p)) he)

/-! ### block trees and honest validators -/

/-- `b` is a block of the tree: an ancestor-or-self of one of its tips -/
def InTree (Tr : List (List Header)) (b : List Header) : Prop := ∃ t ∈ Tr, b <:+ t

theorem InTree.suffix {Tr : List (List Header)} {t s : List Header} (ht : InTree Tr t) (hs : s <:+ t) :
    InTree Tr s := by
  obtain ⟨u, hu, htu⟩ := ht
  exact ⟨u, hu, hs.trans htu⟩

/-- validator `a` is honest in the tree: no two distinct blocks generated by `a` carry
contradicting headers -/
def HonestR (Tr : List (List Header)) (a : Bytes) : Prop :=
  ∀ (x : Header) (p : List Header) (y : Header) (q : List Header),
    InTree Tr (x :: p) → InTree Tr (y :: q) → x.gen = a → y.gen = a → x :: p ≠ y :: q →
    Gen.areDistinctHeadersContradicting (toHdr x) (toHdr y) = false

theorem HonestR.legit {Tr : List (List Header)} {a : Bytes} (hon : HonestR Tr a)
    {x : Header} {p : List Header} {y : Header} {q : List Header}
    (hx : InTree Tr (x :: p)) (hy : InTree Tr (y :: q)) (hxg : x.gen = a) (hyg : y.gen = a)
    (hne : x :: p ≠ y :: q) :
    C07LegitSucc (toHdr x) (toHdr y) ∨ C07LegitSucc (toHdr y) (toHdr x) :=
  (C07_spec (toHdr x) (toHdr y) (by rw [toHdr_gen, toHdr_gen, hxg, hyg])).mp (hon x p y q hx hy hxg hyg hne)

/-- Lemma A, loop form: the walk of `getHeightNotPrevoted` along the own blocks of chain `p` never
drops below the height of a voting block `E = e :: q` of the same honest generator that is not on
the chain, as long as it starts at or above it. -/
theorem hnpLoop_ge {Tr : List (List Header)} {a : Bytes} (hon : HonestR Tr a)
    {p : List Header} (hp : InTree Tr p) {e : Header} {q : List Header} (hE : InTree Tr (e :: q))
    (heg : e.gen = a) (hnot : ¬ (e :: q <:+ p)) (hvote : e.mhg < e.height) :
    ∀ (fuel prev : Nat), e.height ≤ prev → e.height ≤ hnpLoop p a fuel prev := by
  intro fuel
  induction fuel with
  | zero => intro prev h; simpa [hnpLoop] using h
  | succ fuel ih =>
    intro prev h
    unfold hnpLoop
    cases hb : blockAt p prev with
    | none => simpa using h
    | some b =>
      simp only
      split
      · exact h
      · rename_i hcond
        have hbg : b.gen = a := by
          by_cases hh : b.gen = a
          · exact hh
          · exact absurd (Or.inl hh) hcond
        have hbm : b.mhg < prev := by
          by_cases hh : b.mhg < prev
          · exact hh
          · exact absurd (Or.inr (by omega)) hcond
        unfold blockAt at hb
        obtain ⟨hbh, as, bs, hpe, _⟩ := List.find?_eq_some_iff_append.mp hb
        have hbh' : b.height = prev := by simpa using hbh
        have hsb : b :: bs <:+ p := by rw [hpe]; exact List.suffix_append _ _
        have hne : b :: bs ≠ e :: q := by
          intro heq; rw [heq] at hsb; exact hnot hsb
        apply ih
        rcases hon.legit (hp.suffix hsb) hE hbg heg hne with h1 | h1
        · unfold C07LegitSucc toHdr at h1; simp only at h1; omega
        · unfold C07LegitSucc toHdr at h1; simp only at h1; omega

/-- two predicates of weight `≥ τ₁`, `≥ τ₂` share a validator outside `byz` when
`w(byz) + W < τ₁ + τ₂` -/
theorem quorum_honest (vs : List Validator) (f g byz : Bytes → Bool) (t1 t2 : Nat)
    (h1 : t1 ≤ wsumB vs f) (h2 : t2 ≤ wsumB vs g)
    (hthr : wsumB vs byz + (vs.map (·.weight)).sum < t1 + t2) :
    ∃ v ∈ vs, f v.address = true ∧ g v.address = true ∧ byz v.address = false := by
  apply Classical.byContradiction
  intro hne
  have hsub : wsumB vs (fun a => f a && g a) ≤ wsumB vs byz := by
    apply wsumB_mono
    intro v hv hfg
    simp at hfg
    cases hb : byz v.address with
    | true => rfl
    | false => exact absurd ⟨v, hv, hfg.1, hfg.2, hb⟩ hne
  have := wsumB_inter vs f g
  omega

/-! ### the core: no conflicting prevote quorum at or above a precommit quorum -/

/-- If block `b` (of height `g + b.length`) has precommit quorum in the view of some block `t₀` of the
tree, then every block `t₁` of the tree in whose view some height `h ≥ height b` has prevote quorum
is a descendant-or-self of `b`. -/
theorem no_conflicting_prevote_quorum_core (cfg : Cfg) (Tr : List (List Header)) (byz : Bytes → Bool)
    (hval : ∀ t ∈ Tr, Valid cfg t)
    (hthr : wsumB cfg.validators byz + totalWeight cfg < cfg.precommitThreshold + prevoteThreshold cfg)
    (hhon : ∀ v ∈ cfg.validators, byz v.address = false → HonestR Tr v.address)
    {t0 b : List Header} (ht0 : InTree Tr t0) (hb : b <:+ t0)
    (hq : cfg.precommitThreshold ≤ pcW cfg t0 (cfg.genesis + b.length)) :
    ∀ (n : Nat) (t1 : List Header), t1.length = n → InTree Tr t1 →
      ∀ h, cfg.genesis + b.length ≤ h → prevoteThreshold cfg ≤ pvW cfg t1 h → b <:+ t1 := by
  have hvalid : ∀ {t}, InTree Tr t → Valid cfg t := by
    intro t ht
    obtain ⟨u, hu, htu⟩ := ht
    exact valid_suffix cfg (hval u hu) htu
  intro n
  induction n using Nat.strongRecOn with
  | _ n ih =>
    intro t1 hlen ht1 h hh hpv
    have hv0 := hvalid ht0
    have hv1 := hvalid ht1
    -- the voter predicates
    let f : Bytes → Bool := fun a => @decide (∃ x p, x :: p <:+ t0 ∧ x.gen = a ∧
      precommits cfg p x (cfg.genesis + b.length) = true) (Classical.propDecidable _)
    let g : Bytes → Bool := fun a => @decide (∃ y q, y :: q <:+ t1 ∧ y.gen = a ∧
      prevotes cfg y h = true) (Classical.propDecidable _)
    have h1 : pcW cfg t0 (cfg.genesis + b.length) ≤ wsumB cfg.validators f :=
      pcW_le_wsum cfg hv0 _ f (by
        intro x p hs hx
        simp only [f, decide_eq_true_eq]
        exact ⟨x, p, hs, rfl, hx⟩)
    have h2 : pvW cfg t1 h ≤ wsumB cfg.validators g :=
      pvW_le_wsum cfg hv1 _ g (by
        intro y q hs hy
        simp only [g, decide_eq_true_eq]
        exact ⟨y, q, hs, rfl, hy⟩)
    obtain ⟨v, hv, hfv, hgv, hbv⟩ := quorum_honest cfg.validators f g byz
      cfg.precommitThreshold (prevoteThreshold cfg) (Nat.le_trans hq h1) (Nat.le_trans hpv h2)
      (by unfold totalWeight at hthr; exact hthr)
    have hon := hhon v hv hbv
    simp only [f, decide_eq_true_eq] at hfv
    simp only [g, decide_eq_true_eq] at hgv
    obtain ⟨x, p, hsX, hxg, hxpc⟩ := hfv
    obtain ⟨y, q, hsY, hyg, hypv⟩ := hgv
    have hX : InTree Tr (x :: p) := ht0.suffix hsX
    have hY : InTree Tr (y :: q) := ht1.suffix hsY
    have hpt0 : p <:+ t0 := (List.suffix_cons x p).trans hsX
    have hqt1 : q <:+ t1 := (List.suffix_cons y q).trans hsY
    have hP : InTree Tr p := ht0.suffix hpt0
    have hQ : InTree Tr q := ht1.suffix hqt1
    have pcs := (precommits_iff cfg p x _).mp hxpc
    have pvs := (prevotes_iff cfg y h).mp hypv
    have hvp := hvalid hP
    have hpos := pvW_pos cfg hvp (h := cfg.genesis + b.length)
      (by have := prevoteThreshold_pos cfg; omega)
    have hbp : b <:+ p := suffix_of_suffix_le hb hpt0 (by omega)
    have hyh := valid_height cfg hv1 hsY
    by_cases heq : x :: p = y :: q
    · exact (hbp.trans (List.suffix_cons x p)).trans (heq ▸ hsY)
    · rcases hon.legit hX hY hxg hyg heq with hl | hl
      · -- X before Y: the maxHeightPrevoted of Y's parent view is a quorum at or above `b`
        have hxm := ((valid_cons cfg x p).mp (hvalid hX)).2.1
        have hym := ((valid_cons cfg y q).mp (hvalid hY)).2.1
        have hmp := mhp_ge cfg hvp pcs.2.2.2.2
        unfold C07LegitSucc toHdr at hl
        simp only at hl
        have hmq : cfg.genesis + b.length ≤ mhp cfg q := by omega
        have hquo : prevoteThreshold cfg ≤ pvW cfg q (mhp cfg q) := by
          rcases mhp_spec cfg q with h' | h'
          · omega
          · exact h'
        have hlt : q.length < n := by
          have := hsY.length_le
          simp at this
          omega
        exact (ih q.length hlt q rfl hQ (mhp cfg q) hmq hquo).trans hqt1
      · -- Y before X
        by_cases hYX : y :: q <:+ p
        · have : b <:+ y :: q := suffix_of_suffix_le hbp hYX (by simp; omega)
          exact this.trans hsY
        · exfalso
          unfold C07LegitSucc toHdr at hl
          simp only at hl
          have hA := hnpLoop_ge hon hP hY hyg hYX pvs.1 (p.length + 1) x.mhg hl.1
          have hA' : y.height ≤ hnp p x := by unfold hnp; rw [hxg]; exact hA
          omega

/-! ### maxHeightPrecommitted and finality -/

theorem mhpc_ge_genesis (cfg : Cfg) (r : List Header) : cfg.genesis ≤ mhpc cfg r := maxWith_ge_lo _ _ _

theorem mhpc_le (cfg : Cfg) (r : List Header) : mhpc cfg r ≤ cfg.genesis + r.length := maxWith_le _ _ _

theorem mhpc_spec (cfg : Cfg) (r : List Header) :
    mhpc cfg r = cfg.genesis ∨ cfg.precommitThreshold ≤ pcW cfg r (mhpc cfg r) := by
  rcases maxWith_spec (fun h => decide (cfg.precommitThreshold ≤ pcW cfg r h)) cfg.genesis r.length with h | h
  · left; exact h
  · right; unfold mhpc; simpa using h

/-- positive precommit weight comes from some block of the chain that precommits -/
theorem pcW_pos_exists (cfg : Cfg) {r : List Header} {h : Nat} (hp : 0 < pcW cfg r h) :
    ∃ x p, x :: p <:+ r ∧ precommits cfg p x h = true := by
  induction r with
  | nil => simp [pcW] at hp
  | cons x p ih =>
    rw [pcW_cons] at hp
    by_cases hx : precommits cfg p x h = true
    · exact ⟨x, p, List.suffix_refl _, hx⟩
    · rw [if_neg hx] at hp
      obtain ⟨y, q, hs, hy⟩ := ih (by omega)
      exact ⟨y, q, hs.trans (List.suffix_cons x p), hy⟩

/-- the finalized block of `t₀` lies on every chain of the tree that finalizes at least as high -/
theorem finalized_on_chain (cfg : Cfg) (Tr : List (List Header)) (byz : Bytes → Bool)
    (hval : ∀ t ∈ Tr, Valid cfg t) (hpc : 0 < cfg.precommitThreshold)
    (hthr : wsumB cfg.validators byz + totalWeight cfg < cfg.precommitThreshold + prevoteThreshold cfg)
    (hhon : ∀ v ∈ cfg.validators, byz v.address = false → HonestR Tr v.address)
    {t0 t b : List Header} (ht0 : InTree Tr t0) (ht : InTree Tr t) (hle : mhpc cfg t0 ≤ mhpc cfg t)
    (hb : b <:+ t0) (hbl : cfg.genesis + b.length = mhpc cfg t0) : b <:+ t := by
  cases b with
  | nil => exact List.nil_suffix
  | cons y b' =>
    have hlen : (y :: b').length = b'.length + 1 := rfl
    have hq0 : cfg.precommitThreshold ≤ pcW cfg t0 (cfg.genesis + (y :: b').length) := by
      rcases mhpc_spec cfg t0 with h | h
      · omega
      · rw [hbl]; exact h
    have hq1 : cfg.precommitThreshold ≤ pcW cfg t (mhpc cfg t) := by
      rcases mhpc_spec cfg t with h | h
      · omega
      · exact h
    obtain ⟨x, p, hs, hx⟩ := pcW_pos_exists cfg (r := t) (h := mhpc cfg t) (by omega)
    have pcs := (precommits_iff cfg p x _).mp hx
    have hpt : p <:+ t := (List.suffix_cons x p).trans hs
    have := no_conflicting_prevote_quorum_core cfg Tr byz hval hthr hhon ht0 hb hq0 p.length p rfl
      (ht.suffix hpt) (mhpc cfg t) (by omega) pcs.2.2.2.2
    exact this.trans hpt

/-- finality safety on newest-first chains: the finalized blocks of two tips are comparable -/
theorem finality_safety_rev (cfg : Cfg) (Tr : List (List Header)) (byz : Bytes → Bool)
    (hval : ∀ t ∈ Tr, Valid cfg t) (hpc : 0 < cfg.precommitThreshold)
    (hthr : wsumB cfg.validators byz + totalWeight cfg < cfg.precommitThreshold + prevoteThreshold cfg)
    (hhon : ∀ v ∈ cfg.validators, byz v.address = false → HonestR Tr v.address)
    {t1 t2 b1 b2 : List Header} (ht1 : t1 ∈ Tr) (ht2 : t2 ∈ Tr)
    (hb1 : b1 <:+ t1) (hl1 : cfg.genesis + b1.length = mhpc cfg t1)
    (hb2 : b2 <:+ t2) (hl2 : cfg.genesis + b2.length = mhpc cfg t2) :
    b1 <:+ b2 ∨ b2 <:+ b1 := by
  have hi1 : InTree Tr t1 := ⟨t1, ht1, List.suffix_refl _⟩
  have hi2 : InTree Tr t2 := ⟨t2, ht2, List.suffix_refl _⟩
  by_cases hle : mhpc cfg t1 ≤ mhpc cfg t2
  · left
    have := finalized_on_chain cfg Tr byz hval hpc hthr hhon hi1 hi2 hle hb1 hl1
    exact suffix_of_suffix_le this hb2 (by omega)
  · right
    have := finalized_on_chain cfg Tr byz hval hpc hthr hhon hi2 hi1 (by omega) hb2 hl2
    exact suffix_of_suffix_le this hb1 (by omega)

end LiskVerif.BFTSpec
