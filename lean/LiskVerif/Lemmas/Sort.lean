/- Insertion sort: permutation, membership, sortedness. -/
import LiskVerif.Model.Util

namespace LiskVerif

variable {α : Type}

theorem insertBy_perm (le : α → α → Bool) (a : α) (l : List α) : (insertBy le a l).Perm (a :: l) := by
  induction l with
  | nil => exact List.Perm.refl _
  | cons b r ih =>
    unfold insertBy
    split
    · exact List.Perm.refl _
    · exact (List.Perm.cons b ih).trans (List.Perm.swap a b r)

theorem isort_perm (le : α → α → Bool) (l : List α) : (isort le l).Perm l := by
  induction l with
  | nil => exact List.Perm.refl _
  | cons a r ih => exact (insertBy_perm le a _).trans (List.Perm.cons a ih)

@[simp] theorem mem_isort (le : α → α → Bool) (l : List α) (x : α) : x ∈ isort le l ↔ x ∈ l :=
  (isort_perm le l).mem_iff

theorem insertBy_pairwise (le : α → α → Bool)
    (trans : ∀ a b c, le a b = true → le b c = true → le a c = true)
    (total : ∀ a b, (le a b || le b a) = true)
    (a : α) (l : List α) (h : l.Pairwise (fun x y => le x y = true)) :
    (insertBy le a l).Pairwise (fun x y => le x y = true) := by
  induction l with
  | nil => simp [insertBy]
  | cons b r ih =>
    unfold insertBy
    have hb := List.pairwise_cons.mp h
    split
    · rename_i hab
      refine List.pairwise_cons.mpr ⟨?_, h⟩
      intro x hx
      rcases List.mem_cons.mp hx with rfl | hx
      · exact hab
      · exact trans _ _ _ hab (hb.1 x hx)
    · rename_i hab
      have hba : le b a = true := by
        have := total a b
        simp only [Bool.or_eq_true] at this
        rcases this with h1 | h1
        · exact absurd h1 hab
        · exact h1
      refine List.pairwise_cons.mpr ⟨?_, ih hb.2⟩
      intro x hx
      have := (insertBy_perm le a r).mem_iff.mp hx
      rcases List.mem_cons.mp this with rfl | hx
      · exact hba
      · exact hb.1 x hx

theorem isort_pairwise (le : α → α → Bool)
    (trans : ∀ a b c, le a b = true → le b c = true → le a c = true)
    (total : ∀ a b, (le a b || le b a) = true) (l : List α) :
    (isort le l).Pairwise (fun x y => le x y = true) := by
  induction l with
  | nil => simp [isort]
  | cons a r ih => exact insertBy_pairwise le trans total a _ ih

end LiskVerif
