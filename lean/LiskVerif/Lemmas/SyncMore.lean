/-
More lemmas about the sync model (property C19): exact characterisation of `heightOf` / `maxHeight?`,
sorting of permuted segments, soundness of the downloader against EVERY peer, the block appliers,
the common-block search against an honest responder, and the chain states visited by the two
synchronisers.
-/
import LiskVerif.Lemmas.Sync

set_option linter.unusedSectionVars false

namespace LiskVerif.Sync

/-! ### `heightOf` and `maxHeight?` -/

section HeightOf
variable {ι : Type} [DecidableEq ι]

/-- `heightOf c i = some h` exactly when `h` is the FIRST position of `c` holding a block with id `i` -/
theorem heightOf_eq_some_iff (c : List (Blk ι)) (i : ι) (h : Nat) :
    heightOf c i = some h ↔
      (∃ b, c[h]? = some b ∧ b.id = i) ∧ ∀ k b, k < h → c[k]? = some b → b.id ≠ i := by
  induction c generalizing h with
  | nil => simp [heightOf]
  | cons a r ih =>
    simp only [heightOf]
    by_cases ha : a.id = i
    · simp only [ha, if_true, Option.some.injEq]
      constructor
      · intro h0
        subst h0
        exact ⟨⟨a, rfl, ha⟩, fun k b hk => by omega⟩
      · rintro ⟨_, hfirst⟩
        cases h with
        | zero => rfl
        | succ h' => exact absurd ha (hfirst 0 a (by omega) rfl)
    · simp only [ha, if_false]
      constructor
      · intro hm
        cases hr : heightOf r i with
        | none => rw [hr] at hm; cases hm
        | some h' =>
          rw [hr] at hm
          simp only [Option.map_some, Option.some.injEq] at hm
          subst hm
          obtain ⟨⟨b, hb, hbi⟩, hfirst⟩ := (ih h').mp hr
          refine ⟨⟨b, by simpa using hb, hbi⟩, ?_⟩
          intro k x hk hx
          cases k with
          | zero =>
            simp only [List.getElem?_cons_zero, Option.some.injEq] at hx
            subst hx; exact ha
          | succ k' =>
            simp only [List.getElem?_cons_succ] at hx
            exact hfirst k' x (by omega) hx
      · rintro ⟨⟨b, hb, hbi⟩, hfirst⟩
        cases h with
        | zero =>
          simp only [List.getElem?_cons_zero, Option.some.injEq] at hb
          subst hb; exact absurd hbi ha
        | succ h' =>
          simp only [List.getElem?_cons_succ] at hb
          have : heightOf r i = some h' :=
            (ih h').mpr ⟨⟨b, hb, hbi⟩, fun k x hk hx => hfirst (k + 1) x (by omega) (by simpa using hx)⟩
          rw [this]; rfl

theorem heightOf_eq_none_iff (c : List (Blk ι)) (i : ι) : heightOf c i = none ↔ ∀ b ∈ c, b.id ≠ i := by
  induction c with
  | nil => simp [heightOf]
  | cons b r ih =>
    simp only [heightOf]
    by_cases hb : b.id = i
    · simp [hb]
    · simp only [hb, if_false, Option.map_eq_none_iff, ih, List.mem_cons, forall_eq_or_imp, ne_eq,
        not_false_eq_true, true_and]

theorem heightOf_lt_length (c : List (Blk ι)) (i : ι) (h : Nat) (hh : heightOf c i = some h) :
    h < c.length := by
  obtain ⟨⟨b, hb, _⟩, _⟩ := (heightOf_eq_some_iff c i h).mp hh
  rcases Nat.lt_or_ge h c.length with h1 | h1
  · exact h1
  · rw [List.getElem?_eq_none h1] at hb; cases hb

/-- on a chain without duplicate ids the height of the block at position `k` is `k` -/
theorem heightOf_getElem_nodup (c : List (Blk ι)) (hnd : (c.map (·.id)).Nodup) (k : Nat) (b : Blk ι)
    (hb : c[k]? = some b) : heightOf c b.id = some k := by
  induction c generalizing k with
  | nil => cases hb
  | cons a r ih =>
    simp only [List.map_cons, List.nodup_cons] at hnd
    cases k with
    | zero =>
      simp only [List.getElem?_cons_zero, Option.some.injEq] at hb
      subst hb
      simp [heightOf]
    | succ k' =>
      simp only [List.getElem?_cons_succ] at hb
      have hne : a.id ≠ b.id := by
        intro h
        exact hnd.1 (by rw [h]; exact List.mem_map_of_mem (List.mem_of_getElem? hb))
      simp only [heightOf, hne, if_false, ih hnd.2 k' hb, Option.map_some]

theorem maxHeight?_eq_none_iff (l : List Nat) : maxHeight? l = none ↔ l = [] := by
  cases l with
  | nil => simp [maxHeight?]
  | cons a r =>
    simp only [maxHeight?]
    cases h2 : maxHeight? r <;> simp

theorem maxHeight?_eq_some_iff (l : List Nat) (m : Nat) :
    maxHeight? l = some m ↔ m ∈ l ∧ ∀ x ∈ l, x ≤ m := by
  induction l generalizing m with
  | nil => simp [maxHeight?]
  | cons a r ih =>
    simp only [maxHeight?]
    cases hr : maxHeight? r with
    | none =>
      have : r = [] := (maxHeight?_eq_none_iff r).mp hr
      subst this
      simp only [Option.some.injEq, List.mem_singleton]
      constructor
      · intro h; subst h; exact ⟨rfl, fun x hx => by rw [hx]; exact Nat.le_refl _⟩
      · rintro ⟨h, _⟩; exact h.symm
    | some k =>
      obtain ⟨hk, hall⟩ := (ih k).mp hr
      simp only [Option.some.injEq, List.mem_cons]
      constructor
      · intro h
        by_cases hka : k < a
        · simp only [hka, if_true] at h
          subst h
          refine ⟨Or.inl rfl, ?_⟩
          intro x hx
          rcases hx with rfl | hx
          · exact Nat.le_refl _
          · have := hall x hx; omega
        · simp only [hka, if_false] at h
          subst h
          refine ⟨Or.inr hk, ?_⟩
          intro x hx
          rcases hx with rfl | hx
          · omega
          · exact hall x hx
      · rintro ⟨hm, hmax⟩
        have h1 := hmax a (Or.inl rfl)
        have h2 := hmax k (Or.inr hk)
        rcases hm with rfl | hm
        · by_cases hka : k < m
          · simp [hka]
          · simp only [hka, if_false]; omega
        · have := hall m hm
          by_cases hka : k < a
          · simp only [hka, if_true]; omega
          · simp only [hka, if_false]; omega

end HeightOf

/-! ### well-formed chains -/

section Chain
variable {ι : Type} [DecidableEq ι]

/-- a chain whose first block has height 0 and whose blocks are linked (heights consecutive, `prev`
is the id of the block below) -/
def ChainOK : List (Blk ι) → Prop
  | [] => True
  | g :: rest => g.height = 0 ∧ Linked g.id g.height rest

/-- the height of every block is its position -/
def HeightsOK (c : List (Blk ι)) : Prop := ∀ (k : Nat) (b : Blk ι), c[k]? = some b → b.height = k

theorem chainOK_split (p pre : List (Blk ι)) (b : Blk ι) (post : List (Blk ι)) (h : ChainOK p)
    (hp : p = pre ++ b :: post) : b.height = pre.length ∧ Linked b.id b.height post := by
  subst hp
  cases pre with
  | nil =>
    obtain ⟨h0, hl⟩ := h
    exact ⟨h0, hl⟩
  | cons g pre' =>
    obtain ⟨h0, hl⟩ := h
    have hl' : Linked g.id g.height ((pre' ++ [b]) ++ post) := by simpa using hl
    obtain ⟨h1, h2⟩ := (linked_append g.id g.height (pre' ++ [b]) post).mp hl'
    rw [lastOf_append_singleton] at h2
    have h3 := (lastOf_height g.id g.height (pre' ++ [b]) h1).1
    rw [lastOf_append_singleton] at h3
    simp only [List.length_append, List.length_cons, List.length_nil] at h3
    refine ⟨by simp only [List.length_cons]; omega, h2⟩

theorem chainOK_heights (p : List (Blk ι)) (h : ChainOK p) : HeightsOK p := by
  intro k b hb
  have hk : k < p.length := by
    rcases Nat.lt_or_ge k p.length with h1 | h1
    · exact h1
    · rw [List.getElem?_eq_none h1] at hb; cases hb
  have hb' : p[k] = b := by
    rw [List.getElem?_eq_getElem hk] at hb; exact Option.some.inj hb
  have hsplit : p = p.take k ++ b :: p.drop (k + 1) := by
    rw [← hb']; simp
  have := (chainOK_split p _ b _ h hsplit).1
  rw [this, List.length_take]; omega

theorem linked_heights (lid : ι) (lh : Nat) (s : List (Blk ι)) (h : Linked lid lh s) (k : Nat) (b : Blk ι)
    (hb : s[k]? = some b) : b.height = lh + 1 + k := by
  induction s generalizing lid lh k with
  | nil => cases hb
  | cons a r ih =>
    obtain ⟨h1, _, hr⟩ := h
    cases k with
    | zero =>
      simp only [List.getElem?_cons_zero, Option.some.injEq] at hb
      subst hb; omega
    | succ k' =>
      simp only [List.getElem?_cons_succ] at hb
      have := ih a.id a.height hr k' hb
      omega

theorem linked_pairwise_lt (lid : ι) (lh : Nat) (s : List (Blk ι)) (h : Linked lid lh s) :
    s.Pairwise (fun a b => a.height < b.height) ∧ ∀ x ∈ s, lh < x.height := by
  induction s generalizing lid lh with
  | nil => exact ⟨List.Pairwise.nil, fun x hx => by cases hx⟩
  | cons a r ih =>
    obtain ⟨h1, _, hr⟩ := h
    obtain ⟨hp, hgt⟩ := ih a.id a.height hr
    refine ⟨List.pairwise_cons.mpr ⟨fun x hx => hgt x hx, hp⟩, ?_⟩
    intro x hx
    rcases List.mem_cons.mp hx with rfl | hx
    · omega
    · have := hgt x hx; omega

end Chain

/-! ### sorting a permuted segment -/

section SortPerm
variable {ι : Type}

theorem sortAsc_pairwise (t : List (Blk ι)) : (sortAsc t).Pairwise (fun a b => a.height ≤ b.height) := by
  have := isort_pairwise (fun a b : Blk ι => decide (a.height ≤ b.height))
    (by intro a b c h1 h2; simp only [decide_eq_true_eq] at *; omega)
    (by intro a b; simp only [Bool.or_eq_true, decide_eq_true_eq]; omega) t
  unfold sortAsc
  exact this.imp (by intro a b h; simpa using h)

theorem sortAsc_perm (t : List (Blk ι)) : (sortAsc t).Perm t := isort_perm _ t

theorem pairwise_lt_height_inj (s : List (Blk ι)) (hs : s.Pairwise (fun a b => a.height < b.height)) :
    ∀ a ∈ s, ∀ b ∈ s, a.height = b.height → a = b := by
  induction s with
  | nil => intro a ha; cases ha
  | cons x r ih =>
    obtain ⟨hx, hr⟩ := List.pairwise_cons.mp hs
    intro a ha b hb hab
    rcases List.mem_cons.mp ha with rfl | ha'
    · rcases List.mem_cons.mp hb with rfl | hb'
      · rfl
      · have := hx b hb'; omega
    · rcases List.mem_cons.mp hb with rfl | hb'
      · have := hx a ha'; omega
      · exact ih hr a ha' b hb' hab

/-- **sorting undoes any reordering** of blocks with pairwise different heights that are listed in
ascending order in `s` -/
theorem sortAsc_eq_of_perm (t s : List (Blk ι)) (hp : t.Perm s)
    (hs : s.Pairwise (fun a b => a.height < b.height)) : sortAsc t = s := by
  have hperm : (sortAsc t).Perm s := (sortAsc_perm t).trans hp
  have hs' : s.Pairwise (fun a b => a.height ≤ b.height) := hs.imp (fun h => Nat.le_of_lt h)
  have hinj := pairwise_lt_height_inj s hs
  apply List.Perm.eq_of_pairwise (le := fun a b : Blk ι => a.height ≤ b.height) _ (sortAsc_pairwise t) hs' hperm
  intro a b ha hb h1 h2
  exact hinj a (hperm.mem_iff.mp ha) b hb (by omega)

end SortPerm

/-! ### the highest-common-block handler, exactly -/

section Hcb
variable {ι : Type} [DecidableEq ι]

theorem handleHighestCommon_eq_ban_iff (okLen : ι → Bool) (c : List (Blk ι)) (ids : List ι) :
    handleHighestCommon okLen c (some ids) = .ban ↔ ids = [] ∨ ∃ j ∈ ids, okLen j = false := by
  cases ids with
  | nil => simp [handleHighestCommon]
  | cons a r =>
    simp only [handleHighestCommon]
    by_cases hall : (a :: r).all okLen = true
    · simp only [hall, if_true]
      have hok : ∀ i ∈ a :: r, okLen i = true := by simpa using hall
      constructor
      · intro h
        cases hm : maxHeight? ((a :: r).filterMap (heightOf c)) with
        | none => rw [hm] at h; cases h
        | some k =>
          rw [hm] at h
          simp only at h
          cases hc : c[k]? <;> rw [hc] at h <;> cases h
      · rintro (h | ⟨j, hj, hjo⟩)
        · cases h
        · rw [hok j hj] at hjo; cases hjo
    · simp only [hall, Bool.false_eq_true, if_false, true_iff]
      right
      have hf : (a :: r).all okLen = false := by simpa using hall
      obtain ⟨i, hi, hio⟩ := List.all_eq_false.mp hf
      exact ⟨i, hi, by simpa using hio⟩

/-- normal form of the handler on a well-formed request -/
theorem handleHighestCommon_wellformed (okLen : ι → Bool) (c : List (Blk ι)) (ids : List ι)
    (hne : ids ≠ []) (hok : ∀ j ∈ ids, okLen j = true) :
    handleHighestCommon okLen c (some ids) =
      match maxHeight? (ids.filterMap (heightOf c)) with
      | none => .none
      | some h => match c[h]? with
        | some b => .id b.id
        | none => .none := by
  cases ids with
  | nil => exact absurd rfl hne
  | cons a r =>
    have hall : (a :: r).all okLen = true := by simpa using hok
    simp only [handleHighestCommon, hall, if_true]
    rfl

theorem handleHighestCommon_eq_none_iff (okLen : ι → Bool) (c : List (Blk ι)) (ids : List ι) :
    handleHighestCommon okLen c (some ids) = .none ↔
      ids ≠ [] ∧ (∀ j ∈ ids, okLen j = true) ∧ ∀ j ∈ ids, heightOf c j = none := by
  by_cases hwf : ids ≠ [] ∧ ∀ j ∈ ids, okLen j = true
  · obtain ⟨hne, hok⟩ := hwf
    rw [handleHighestCommon_wellformed okLen c ids hne hok]
    cases hm : maxHeight? (ids.filterMap (heightOf c)) with
    | none =>
      simp only [true_iff]
      refine ⟨hne, hok, ?_⟩
      intro j hj
      have hnil := (maxHeight?_eq_none_iff _).mp hm
      cases hh : heightOf c j with
      | none => rfl
      | some k =>
        have : k ∈ ids.filterMap (heightOf c) := List.mem_filterMap.mpr ⟨j, hj, hh⟩
        rw [hnil] at this; cases this
    | some h =>
      obtain ⟨hmem, _⟩ := (maxHeight?_eq_some_iff _ h).mp hm
      obtain ⟨j, hj, hjh⟩ := List.mem_filterMap.mp hmem
      obtain ⟨⟨b, hb, _⟩, _⟩ := (heightOf_eq_some_iff c j h).mp hjh
      simp only [hb]
      constructor
      · intro h; cases h
      · rintro ⟨_, _, hnone⟩
        rw [hnone j hj] at hjh; cases hjh
  · constructor
    · intro h
      have hban : handleHighestCommon okLen c (some ids) = .ban := by
        rw [handleHighestCommon_eq_ban_iff]
        by_cases hne : ids = []
        · exact Or.inl hne
        · right
          apply Classical.byContradiction
          intro hno
          apply hwf
          refine ⟨hne, ?_⟩
          intro j hj
          cases ho : okLen j with
          | true => rfl
          | false => exact absurd ⟨j, hj, ho⟩ hno
      rw [hban] at h; cases h
    · rintro ⟨h1, h2, _⟩
      exact absurd ⟨h1, h2⟩ hwf

theorem handleHighestCommon_eq_id_iff (okLen : ι → Bool) (c : List (Blk ι)) (ids : List ι) (i : ι) :
    handleHighestCommon okLen c (some ids) = .id i ↔
      ids ≠ [] ∧ (∀ j ∈ ids, okLen j = true) ∧ i ∈ ids ∧
      ∃ h, heightOf c i = some h ∧ ∀ j ∈ ids, ∀ hj, heightOf c j = some hj → hj ≤ h := by
  by_cases hwf : ids ≠ [] ∧ ∀ j ∈ ids, okLen j = true
  · obtain ⟨hne, hok⟩ := hwf
    rw [handleHighestCommon_wellformed okLen c ids hne hok]
    cases hm : maxHeight? (ids.filterMap (heightOf c)) with
    | none =>
      have hnil := (maxHeight?_eq_none_iff _).mp hm
      constructor
      · intro h; cases h
      · rintro ⟨_, _, hi, h, hh, _⟩
        have : h ∈ ids.filterMap (heightOf c) := List.mem_filterMap.mpr ⟨i, hi, hh⟩
        rw [hnil] at this; cases this
    | some h =>
      obtain ⟨hmem, hmax⟩ := (maxHeight?_eq_some_iff _ h).mp hm
      obtain ⟨j, hj, hjh⟩ := List.mem_filterMap.mp hmem
      obtain ⟨⟨b, hb, hbj⟩, _⟩ := (heightOf_eq_some_iff c j h).mp hjh
      simp only [hb, HcbOut.id.injEq]
      constructor
      · intro hbi
        rw [hbj] at hbi
        subst hbi
        refine ⟨hne, hok, hj, h, hjh, ?_⟩
        intro k hk hk' hkh
        exact hmax hk' (List.mem_filterMap.mpr ⟨k, hk, hkh⟩)
      · rintro ⟨_, _, hi, h', hh', hmax'⟩
        have h1 : h' ≤ h := hmax h' (List.mem_filterMap.mpr ⟨i, hi, hh'⟩)
        have h2 : h ≤ h' := hmax' j hj h hjh
        have heq : h' = h := by omega
        subst heq
        obtain ⟨⟨b', hb', hbi'⟩, _⟩ := (heightOf_eq_some_iff c i h').mp hh'
        rw [hb] at hb'
        cases hb'
        exact hbi'
  · constructor
    · intro h
      have hban : handleHighestCommon okLen c (some ids) = .ban := by
        rw [handleHighestCommon_eq_ban_iff]
        by_cases hne : ids = []
        · exact Or.inl hne
        · right
          apply Classical.byContradiction
          intro hno
          apply hwf
          refine ⟨hne, ?_⟩
          intro j hj
          cases ho : okLen j with
          | true => rfl
          | false => exact absurd ⟨j, hj, ho⟩ hno
      rw [hban] at h; cases h
    · rintro ⟨h1, h2, _⟩
      exact absurd ⟨h1, h2⟩ hwf

end Hcb

/-! ### the downloader against EVERY peer -/

section DownloadSound
variable {ι : Type} [DecidableEq ι]

/-- no block of `l` is the end block and all are below the end height -/
def Below (endId : ι) (endH : Nat) (l : List (Blk ι)) : Prop := ∀ b ∈ l, b.id ≠ endId ∧ b.height < endH

theorem scanSeg_sound (endId : ι) (endH : Nat) (bs : List (Blk ι)) (lid : ι) (lh : Nat) :
    Linked lid lh (scanSeg endId endH bs lid lh).1 ∧
    (∃ rest, bs = (scanSeg endId endH bs lid lh).1 ++ rest) ∧
    match (scanSeg endId endH bs lid lh).2 with
    | .cont l' h' => (scanSeg endId endH bs lid lh).1 = bs ∧ (l', h') = lastOf bs lid lh ∧ Below endId endH bs
    | .fin => ∃ s e, (scanSeg endId endH bs lid lh).1 = s ++ [e] ∧ e.id = endId ∧ Below endId endH s
    | .bad => Below endId endH (scanSeg endId endH bs lid lh).1 := by
  induction bs generalizing lid lh with
  | nil =>
    simp only [scanSeg, Linked, lastOf, true_and]
    exact ⟨⟨[], rfl⟩, fun b hb => by cases hb⟩
  | cons b r ih =>
    simp only [scanSeg]
    by_cases hbad : b.height ≠ lh + 1 ∨ b.prev ≠ lid ∨ (b.height ≥ endH ∧ b.id ≠ endId)
    · simp only [hbad, if_true, Linked, true_and]
      exact ⟨⟨b :: r, rfl⟩, fun x hx => by cases hx⟩
    · simp only [hbad, if_false]
      have h1 : b.height = lh + 1 := by
        apply Classical.byContradiction; intro h; exact hbad (Or.inl h)
      have h2 : b.prev = lid := by
        apply Classical.byContradiction; intro h; exact hbad (Or.inr (Or.inl h))
      by_cases hend : b.id = endId
      · simp only [hend, if_true]
        refine ⟨⟨h1, h2, trivial⟩, ⟨r, rfl⟩, [], b, rfl, hend, fun x hx => by cases hx⟩
      · simp only [hend, if_false]
        have h3 : b.height < endH := by
          apply Classical.byContradiction; intro h
          exact hbad (Or.inr (Or.inr ⟨by omega, hend⟩))
        obtain ⟨hl, ⟨rest, hrest⟩, hcase⟩ := ih b.id b.height
        refine ⟨⟨h1, h2, hl⟩, ⟨rest, by rw [List.cons_append, ← hrest]⟩, ?_⟩
        generalize hsc : scanSeg endId endH r b.id b.height = res at hcase hl hrest
        rcases res with ⟨em, sc⟩
        cases sc with
        | cont l' h' =>
          simp only at hcase ⊢
          obtain ⟨he, hlast, hbelow⟩ := hcase
          refine ⟨by rw [he], by simp only [lastOf]; exact hlast, ?_⟩
          intro x hx
          rcases List.mem_cons.mp hx with rfl | hx
          · exact ⟨hend, h3⟩
          · exact hbelow x hx
        | fin =>
          simp only at hcase ⊢
          obtain ⟨s, e, hse, he, hbelow⟩ := hcase
          refine ⟨b :: s, e, by rw [hse]; rfl, he, ?_⟩
          intro x hx
          rcases List.mem_cons.mp hx with rfl | hx
          · exact ⟨hend, h3⟩
          · exact hbelow x hx
        | bad =>
          simp only at hcase ⊢
          intro x hx
          rcases List.mem_cons.mp hx with rfl | hx
          · exact ⟨hend, h3⟩
          · exact hcase x hx

theorem lastOf_eq_getLast (lid : ι) (lh : Nat) (s : List (Blk ι)) (x : Blk ι) :
    lastOf (s ++ [x]) lid lh = (x.id, x.height) := lastOf_append_singleton lid lh s x

/-- a non-empty linked list of blocks below the end height ends below the end height, above the start -/
theorem lastOf_bounds (endId : ι) (endH : Nat) (lid : ι) (lh : Nat) (s : List (Blk ι)) (hne : s ≠ [])
    (hl : Linked lid lh s) (hb : Below endId endH s) :
    lh + 1 ≤ (lastOf s lid lh).2 ∧ (lastOf s lid lh).2 < endH := by
  have hs : s = s.dropLast ++ [s.getLast hne] := (List.dropLast_concat_getLast hne).symm
  have hlen := (lastOf_height lid lh s hl).1
  have hpos : 0 < s.length := List.length_pos_iff.mpr hne
  refine ⟨by omega, ?_⟩
  have := lastOf_append_singleton lid lh s.dropLast (s.getLast hne)
  rw [← hs] at this
  rw [this]
  exact (hb _ (List.getLast_mem hne)).2

/-- **Downloader soundness.**  Whatever the peer answers, the blocks put on the channel are linked to
the start block (consecutive heights, `prev` links); when the download completes they end with the
end block and no earlier block is the end block or reaches the end height; when it fails no
delivered block is the end block. Every delivered block was in some response of the peer. -/
theorem dlLoop_sound (seg : ι → Option (List (Blk ι))) (endId : ι) (endH : Nat) (fuel : Nat) (lid : ι) (lh : Nat) :
    Linked lid lh (dlLoop seg endId endH fuel lid lh).1 ∧
    ((dlLoop seg endId endH fuel lid lh).2 = true →
      ∃ s e, (dlLoop seg endId endH fuel lid lh).1 = s ++ [e] ∧ e.id = endId ∧ Below endId endH s) ∧
    ((dlLoop seg endId endH fuel lid lh).2 = false → Below endId endH (dlLoop seg endId endH fuel lid lh).1) ∧
    (∀ b ∈ (dlLoop seg endId endH fuel lid lh).1, ∃ i L, seg i = some L ∧ b ∈ L) := by
  induction fuel generalizing lid lh with
  | zero =>
    simp only [dlLoop, Linked, true_and]
    exact ⟨fun h => (by cases h), fun _ b hb => (by cases hb), fun b hb => (by cases hb)⟩
  | succ f ih =>
    cases hseg : seg lid with
    | none =>
      simp only [dlLoop, hseg, Linked, true_and]
      exact ⟨fun h => (by cases h), fun _ b hb => (by cases hb), fun b hb => (by cases hb)⟩
    | some L =>
      cases L with
      | nil =>
        simp only [dlLoop, hseg, Linked, true_and]
        exact ⟨fun h => (by cases h), fun _ b hb => (by cases hb), fun b hb => (by cases hb)⟩
      | cons x xs =>
        rw [dlLoop_step seg endId endH f lid lh (x :: xs) hseg (by simp)]
        obtain ⟨hl, ⟨rest, hrest⟩, hcase⟩ := scanSeg_sound endId endH (sortAsc (x :: xs)) lid lh
        have hmemL : ∀ b ∈ (scanSeg endId endH (sortAsc (x :: xs)) lid lh).1, b ∈ x :: xs := by
          intro b hb
          have : b ∈ sortAsc (x :: xs) := by rw [hrest]; exact List.mem_append_left _ hb
          exact (sortAsc_perm (x :: xs)).mem_iff.mp this
        generalize hsc : scanSeg endId endH (sortAsc (x :: xs)) lid lh = res at hcase hl hrest hmemL
        rcases res with ⟨em, sc⟩
        cases sc with
        | fin =>
          simp only at hcase hl hmemL ⊢
          exact ⟨hl, fun _ => hcase, fun h => (by cases h), fun b hb => ⟨lid, _, hseg, hmemL b hb⟩⟩
        | bad =>
          simp only at hcase hl hmemL ⊢
          exact ⟨hl, fun h => (by cases h), fun _ => hcase, fun b hb => ⟨lid, _, hseg, hmemL b hb⟩⟩
        | cont l' h' =>
          simp only at hcase hl hmemL ⊢
          obtain ⟨hem, hlast, hbelow⟩ := hcase
          obtain ⟨hl', hfin', hbad', hmem'⟩ := ih l' h'
          have hl'' : Linked (lastOf em lid lh).1 (lastOf em lid lh).2 (dlLoop seg endId endH f l' h').1 := by
            rw [hem, ← hlast]; exact hl'
          refine ⟨(linked_append lid lh em _).mpr ⟨hl, hl''⟩, ?_, ?_, ?_⟩
          · intro h
            obtain ⟨s, e, hse, he, hb⟩ := hfin' h
            refine ⟨em ++ s, e, by rw [hse, List.append_assoc], he, ?_⟩
            intro y hy
            rcases List.mem_append.mp hy with hy | hy
            · exact hbelow y (by rw [← hem]; exact hy)
            · exact hb y hy
          · intro h y hy
            rcases List.mem_append.mp hy with hy | hy
            · exact hbelow y (by rw [← hem]; exact hy)
            · exact hbad' h y hy
          · intro y hy
            rcases List.mem_append.mp hy with hy | hy
            · exact ⟨lid, _, hseg, hmemL y hy⟩
            · exact hmem' y hy

/-- **The download terminates**: any amount of fuel of at least `endH - lh + 1` rounds gives the same
result — every round that does not end the download moves at least one height closer to `endH`. -/
theorem dlLoop_fuel_irrelevant (seg : ι → Option (List (Blk ι))) (endId : ι) (endH : Nat) (f f' : Nat)
    (lid : ι) (lh : Nat) (hf : endH - lh + 1 ≤ f) (hf' : endH - lh + 1 ≤ f') :
    dlLoop seg endId endH f lid lh = dlLoop seg endId endH f' lid lh := by
  induction f generalizing f' lid lh with
  | zero => omega
  | succ f0 ih =>
    cases f' with
    | zero => omega
    | succ f0' =>
      cases hseg : seg lid with
      | none => simp only [dlLoop, hseg]
      | some L =>
        cases L with
        | nil => simp only [dlLoop, hseg]
        | cons x xs =>
          rw [dlLoop_step seg endId endH f0 lid lh (x :: xs) hseg (by simp),
            dlLoop_step seg endId endH f0' lid lh (x :: xs) hseg (by simp)]
          obtain ⟨hl, _, hcase⟩ := scanSeg_sound endId endH (sortAsc (x :: xs)) lid lh
          generalize hsc : scanSeg endId endH (sortAsc (x :: xs)) lid lh = res at hcase hl
          rcases res with ⟨em, sc⟩
          cases sc with
          | fin => rfl
          | bad => rfl
          | cont l' h' =>
            simp only at hcase hl ⊢
            obtain ⟨hem, hlast, hbelow⟩ := hcase
            have hne : sortAsc (x :: xs) ≠ [] := by
              intro h
              have := (sortAsc_perm (x :: xs)).length_eq
              rw [h] at this; simp at this
            have hb := lastOf_bounds endId endH lid lh (sortAsc (x :: xs)) hne (by rw [← hem]; exact hl) hbelow
            rw [← hlast] at hb
            simp only at hb
            rw [ih f0' l' h' (by omega) (by omega)]

end DownloadSound

/-! ### the block appliers, exactly -/

section Appliers
variable {ι : Type}

/-- every block of `app` is accepted by the processor on top of `c` and the blocks before it -/
def Accepted (applies : List (Blk ι) → Blk ι → Bool) (c app : List (Blk ι)) : Prop :=
  ∀ pre b post, app = pre ++ b :: post → applies (c ++ pre) b = true

theorem accepted_nil (applies : List (Blk ι) → Blk ι → Bool) (c : List (Blk ι)) : Accepted applies c [] := by
  intro pre b post h
  cases pre <;> cases h

theorem accepted_cons (applies : List (Blk ι) → Blk ι → Bool) (c : List (Blk ι)) (b : Blk ι) (app : List (Blk ι))
    (hb : applies c b = true) (h : Accepted applies (c ++ [b]) app) : Accepted applies c (b :: app) := by
  intro pre x post hx
  cases pre with
  | nil =>
    simp only [List.nil_append, List.cons.injEq] at hx
    rw [← hx.1]; simpa using hb
  | cons y pre' =>
    simp only [List.cons_append, List.cons.injEq] at hx
    have := h pre' x post hx.2
    rw [← hx.1]
    simpa using this

/-- a valid chain extended by accepted blocks is a valid chain -/
theorem validChain_append (applies : List (Blk ι) → Blk ι → Bool) (c app : List (Blk ι)) (hc : c ≠ [])
    (hv : ValidChain applies c) (ha : Accepted applies c app) : ValidChain applies (c ++ app) := by
  intro pre b post hsplit hpre
  by_cases hlen : pre.length < c.length
  · -- the block is in `c`
    have hpre_c : pre = c.take pre.length := by
      have := congrArg (List.take pre.length) hsplit
      rw [List.take_append_of_le_length (by omega), List.take_left' rfl] at this
      exact this.symm
    have hdrop : c.drop pre.length ++ app = b :: post := by
      have := congrArg (List.drop pre.length) hsplit
      rw [List.drop_append_of_le_length (by omega), List.drop_left' rfl] at this
      exact this
    cases hd : c.drop pre.length with
    | nil =>
      have := congrArg List.length hd
      rw [List.length_drop] at this; simp at this; omega
    | cons x xs =>
      rw [hd] at hdrop
      simp only [List.cons_append, List.cons.injEq] at hdrop
      have hc' : c = pre ++ b :: xs := by
        rw [← hdrop.1, ← hd]
        conv => lhs; rw [← List.take_append_drop pre.length c]
        rw [← hpre_c]
      exact hv pre b xs hc' hpre
  · -- the block is in `app`
    have hc_pre : c = pre.take c.length := by
      have := congrArg (List.take c.length) hsplit
      rw [List.take_left' rfl, List.take_append_of_le_length (by omega)] at this
      exact this
    have hdrop : app = pre.drop c.length ++ b :: post := by
      have := congrArg (List.drop c.length) hsplit
      rw [List.drop_left' rfl, List.drop_append_of_le_length (by omega)] at this
      exact this
    have := ha (pre.drop c.length) b post hdrop
    rw [hc_pre] at this
    rw [List.length_take, Nat.min_eq_left (by omega), List.take_append_drop] at this
    exact this

theorem applyAll_spec (applies : List (Blk ι) → Blk ι → Bool) (c bs c' : List (Blk ι)) (ok : Bool)
    (h : applyAll applies c bs = (c', ok)) :
    ∃ app rest, bs = app ++ rest ∧ c' = c ++ app ∧ Accepted applies c app ∧
      (ok = true → rest = []) ∧ (ok = false → ∃ b t, rest = b :: t ∧ applies c' b = false) := by
  induction bs generalizing c with
  | nil =>
    simp only [applyAll, Prod.mk.injEq] at h
    refine ⟨[], [], rfl, by simp [h.1], accepted_nil _ _, fun _ => rfl, fun hf => ?_⟩
    rw [← h.2] at hf; cases hf
  | cons b r ih =>
    simp only [applyAll] at h
    by_cases hb : applies c b = true
    · simp only [hb, if_true] at h
      obtain ⟨app, rest, h1, h2, h3, h4, h5⟩ := ih (c ++ [b]) h
      exact ⟨b :: app, rest, by rw [h1]; rfl, by rw [h2]; simp, accepted_cons _ _ _ _ hb h3, h4, h5⟩
    · simp only [hb, Bool.false_eq_true, if_false, Prod.mk.injEq] at h
      refine ⟨[], b :: r, rfl, by simp [h.1], accepted_nil _ _, fun ht => ?_, fun _ => ⟨b, r, rfl, ?_⟩⟩
      · rw [← h.2] at ht; cases ht
      · rw [← h.1]; simpa using hb

theorem reapply_spec (applies : List (Blk ι) → Blk ι → Bool) (c ts c'' rem : List (Blk ι))
    (h : reapply applies c ts = (c'', rem)) :
    ∃ app, ts = app ++ rem ∧ c'' = c ++ app ∧ Accepted applies c app ∧
      (∀ b t, rem = b :: t → applies c'' b = false) := by
  induction ts generalizing c with
  | nil =>
    simp only [reapply, Prod.mk.injEq] at h
    refine ⟨[], by simp [h.2], by simp [h.1], accepted_nil _ _, ?_⟩
    intro b t hr; rw [← h.2] at hr; cases hr
  | cons b r ih =>
    simp only [reapply] at h
    by_cases hb : applies c b = true
    · simp only [hb, if_true] at h
      obtain ⟨app, h1, h2, h3, h4⟩ := ih (c ++ [b]) h
      exact ⟨b :: app, by rw [h1]; rfl, by rw [h2]; simp, accepted_cons _ _ _ _ hb h3, h4⟩
    · simp only [hb, Bool.false_eq_true, if_false, Prod.mk.injEq] at h
      refine ⟨[], by simp [h.2], by simp [h.1], accepted_nil _ _, ?_⟩
      intro x t hr
      rw [← h.2] at hr
      simp only [List.cons.injEq] at hr
      rw [← h.1, ← hr.1]; simpa using hb

theorem streamApply_spec (applies : List (Blk ι) → Blk ι → Bool) (c bs c' : List (Blk ι)) (r : Option SyncErr)
    (h : streamApply applies c bs = (c', r)) :
    ∃ app rest, bs = app ++ rest ∧ c' = c ++ app ∧ Accepted applies c app ∧ (∀ b ∈ app, b.ok = true) ∧
      (r = none → rest = []) ∧
      (∀ e, r = some e → ∃ b t, rest = b :: t ∧
          ((e = .invalidBlock ∧ b.ok = false) ∨ (e = .applyFailed ∧ b.ok = true ∧ applies c' b = false))) := by
  induction bs generalizing c with
  | nil =>
    simp only [streamApply, Prod.mk.injEq] at h
    refine ⟨[], [], rfl, by simp [h.1], accepted_nil _ _, fun b hb => (by cases hb), fun _ => rfl, ?_⟩
    intro e he; rw [← h.2] at he; cases he
  | cons b rest ih =>
    simp only [streamApply] at h
    by_cases hok : (!b.ok) = true
    · simp only [hok, if_true, Prod.mk.injEq] at h
      refine ⟨[], b :: rest, rfl, by simp [h.1], accepted_nil _ _, fun x hx => (by cases hx), ?_, ?_⟩
      · intro hr; rw [← h.2] at hr; cases hr
      · intro e he
        rw [← h.2] at he
        cases he
        exact ⟨b, rest, rfl, Or.inl ⟨rfl, by simpa using hok⟩⟩
    · simp only [hok, Bool.false_eq_true, if_false] at h
      have hbok : b.ok = true := by simpa using hok
      by_cases hb : applies c b = true
      · simp only [hb, if_true] at h
        obtain ⟨app, rest', h1, h2, h3, h4, h5, h6⟩ := ih (c ++ [b]) h
        refine ⟨b :: app, rest', by rw [h1]; rfl, by rw [h2]; simp, accepted_cons _ _ _ _ hb h3, ?_, h5, h6⟩
        intro x hx
        rcases List.mem_cons.mp hx with rfl | hx
        · exact hbok
        · exact h4 x hx
      · simp only [hb, Bool.false_eq_true, if_false, Prod.mk.injEq] at h
        refine ⟨[], b :: rest, rfl, by simp [h.1], accepted_nil _ _, fun x hx => (by cases hx), ?_, ?_⟩
        · intro hr; rw [← h.2] at hr; cases hr
        · intro e he
          rw [← h.2] at he
          cases he
          exact ⟨b, rest, rfl, Or.inr ⟨rfl, hbok, by rw [← h.1]; simpa using hb⟩⟩

theorem streamApply_valid (applies : List (Blk ι) → Blk ι → Bool) (p c rest : List (Blk ι))
    (hv : ValidChain applies p) (hp : p = c ++ rest) (hc : c ≠ []) (hok : ∀ b ∈ rest, b.ok = true) :
    streamApply applies c rest = (p, none) := by
  induction rest generalizing c with
  | nil => simp [streamApply, hp]
  | cons b r ih =>
    simp only [streamApply]
    have hb : applies c b = true := hv c b r hp hc
    have hbo : b.ok = true := hok b List.mem_cons_self
    simp only [hb, hbo, Bool.not_true, Bool.false_eq_true, if_false, if_true]
    exact ih (c ++ [b]) (by simp [hp]) (by simp) (fun x hx => hok x (List.mem_cons_of_mem _ hx))

end Appliers

/-! ### an honest responder on a fork of the requester's chain -/

section HonestSearch
variable {ι : Type} [DecidableEq ι]

theorem mem_idsAt (q : List (Blk ι)) (hs : List Nat) (i : ι) :
    i ∈ idsAt q hs ↔ ∃ h ∈ hs, ∃ b, q[h]? = some b ∧ b.id = i := by
  unfold idsAt
  rw [List.mem_filterMap]
  constructor
  · rintro ⟨h, hh, hm⟩
    cases hq : q[h]? with
    | none => rw [hq] at hm; cases hm
    | some b =>
      rw [hq] at hm
      simp only [Option.map_some, Option.some.injEq] at hm
      exact ⟨h, hh, b, hq, hm⟩
  · rintro ⟨h, hh, b, hb, hbi⟩
    exact ⟨h, hh, by rw [hb]; simp [hbi]⟩

theorem honest_common_none_iff (p : List (Blk ι)) (mhp : Nat) (ids : List ι) :
    (honest p mhp).common ids = none ↔ ids = [] := by
  simp only [honest]
  cases hh : handleHighestCommon (fun _ => true) p (some ids) with
  | ban =>
    have := (handleHighestCommon_eq_ban_iff _ p ids).mp hh
    simp only [true_iff]
    rcases this with h | ⟨j, _, hj⟩
    · exact h
    · cases hj
  | none =>
    have := (handleHighestCommon_eq_none_iff _ p ids).mp hh
    simp only [reduceCtorEq, false_iff]
    exact this.1
  | id i =>
    have := (handleHighestCommon_eq_id_iff _ p ids i).mp hh
    simp only [reduceCtorEq, false_iff]
    exact this.1

theorem honest_common_some_none_iff (p : List (Blk ι)) (mhp : Nat) (ids : List ι) :
    (honest p mhp).common ids = some none ↔ ids ≠ [] ∧ ∀ j ∈ ids, heightOf p j = none := by
  simp only [honest]
  cases hh : handleHighestCommon (fun _ => true) p (some ids) with
  | ban =>
    simp only [reduceCtorEq, false_iff]
    rintro ⟨h1, h2⟩
    have : handleHighestCommon (fun _ => true) p (some ids) = .none :=
      (handleHighestCommon_eq_none_iff _ p ids).mpr ⟨h1, fun _ _ => rfl, h2⟩
    rw [hh] at this; cases this
  | none =>
    have := (handleHighestCommon_eq_none_iff _ p ids).mp hh
    simp only [true_iff]
    exact ⟨this.1, this.2.2⟩
  | id i =>
    simp only [Option.some.injEq, reduceCtorEq, false_iff]
    rintro ⟨h1, h2⟩
    have : handleHighestCommon (fun _ => true) p (some ids) = .none :=
      (handleHighestCommon_eq_none_iff _ p ids).mpr ⟨h1, fun _ _ => rfl, h2⟩
    rw [hh] at this; cases this

theorem honest_common_some_some_iff (p : List (Blk ι)) (mhp : Nat) (ids : List ι) (i : ι) :
    (honest p mhp).common ids = some (some i) ↔
      ids ≠ [] ∧ i ∈ ids ∧ ∃ h, heightOf p i = some h ∧ ∀ j ∈ ids, ∀ hj, heightOf p j = some hj → hj ≤ h := by
  have key := handleHighestCommon_eq_id_iff (fun _ => true) p ids i
  simp only [honest]
  cases hh : handleHighestCommon (fun _ => true) p (some ids) with
  | ban =>
    rw [hh] at key
    simp only [reduceCtorEq, false_iff] at key ⊢
    rintro ⟨h1, h2, h3⟩
    exact key ⟨h1, fun _ _ => (by simp), h2, h3⟩
  | none =>
    rw [hh] at key
    simp only [reduceCtorEq, false_iff, Option.some.injEq] at key ⊢
    rintro ⟨h1, h2, h3⟩
    exact key ⟨h1, fun _ _ => (by simp), h2, h3⟩
  | id k =>
    rw [hh] at key
    simp only [HcbOut.id.injEq] at key
    simp only [Option.some.injEq]
    rw [key]
    constructor
    · rintro ⟨h1, _, h2, h3⟩; exact ⟨h1, h2, h3⟩
    · rintro ⟨h1, h2, h3⟩; exact ⟨h1, fun _ _ => (by simp), h2, h3⟩

/-- requester on `com ++ qOwn`, responder on `com ++ pOwn`: block ids are unique on each chain and no
block of the requester's own part is on the responder's chain -/
structure Fork (com qOwn pOwn : List (Blk ι)) : Prop where
  ndq : ((com ++ qOwn).map (·.id)).Nodup
  ndp : ((com ++ pOwn).map (·.id)).Nodup
  disj : ∀ y ∈ qOwn, ∀ x ∈ com ++ pOwn, x.id ≠ y.id

/-- an id that is on both chains of a fork is in the common part, at the same height on both -/
theorem fork_common (com qOwn pOwn : List (Blk ι)) (hf : Fork com qOwn pOwn) (cid : ι) (hq hp : Nat)
    (h1 : heightOf (com ++ qOwn) cid = some hq) (h2 : heightOf (com ++ pOwn) cid = some hp) :
    hq = hp ∧ hq < com.length := by
  obtain ⟨⟨b, hb, hbi⟩, _⟩ := (heightOf_eq_some_iff _ cid hq).mp h1
  obtain ⟨⟨b', hb', hbi'⟩, _⟩ := (heightOf_eq_some_iff _ cid hp).mp h2
  have hlt : hq < com.length := by
    rcases Nat.lt_or_ge hq com.length with h | h
    · exact h
    · rw [List.getElem?_append_right h] at hb
      exact absurd (by rw [hbi, hbi']) (hf.disj b (List.mem_of_getElem? hb) b' (List.mem_of_getElem? hb'))
  refine ⟨?_, hlt⟩
  rw [List.getElem?_append_left hlt] at hb
  have hbp : (com ++ pOwn)[hq]? = some b := by rw [List.getElem?_append_left hlt]; exact hb
  have := heightOf_getElem_nodup _ hf.ndp hq b hbp
  rw [hbi, h2] at this
  exact (Option.some.inj this).symm

theorem u32sub_lt (a b : Nat) : u32sub a b < two32 := by
  unfold u32sub
  exact Nat.mod_lt _ (by unfold two32; omega)

theorem getHeightWithGap_ge (start minimum gap num : Nat) (hs : start < two32)
    (hno : minimum + num * gap < two32) : ∀ e ∈ getHeightWithGap start minimum gap num, minimum ≤ e := by
  intro e he
  by_cases hle : start ≤ minimum
  · simp only [getHeightWithGap, hle, if_true, List.mem_singleton] at he
    omega
  · simp only [getHeightWithGap, hle, if_false] at he
    have hno' : minimum + (0 + (num - 1)) * gap < two32 := by
      have : (0 + (num - 1)) * gap ≤ num * gap := Nat.mul_le_mul_right gap (by omega)
      omega
    obtain ⟨k, _, hlist, hall, _⟩ := gapLoop_spec start minimum gap hs (num - 1) 0 hno'
    rw [hlist] at he
    obtain ⟨j, hj, hje⟩ := List.mem_map.mp he
    have := hall j (by simpa using hj)
    subst hje
    simp only [Nat.zero_add] at this ⊢
    omega

theorem getHeightWithGap_ne_nil (start minimum gap num : Nat) (hnum : 2 ≤ num) (hs : start < two32) :
    start ∈ getHeightWithGap start minimum gap num ∨ (start ≤ minimum ∧ getHeightWithGap start minimum gap num = [minimum]) := by
  by_cases hle : start ≤ minimum
  · right; exact ⟨hle, by simp [getHeightWithGap, hle]⟩
  · left
    simp only [getHeightWithGap, hle, if_false]
    obtain ⟨f, hf⟩ : ∃ f, num - 1 = f + 1 := ⟨num - 2, by omega⟩
    rw [hf]
    have h0 : u32 (0 * gap) = 0 := by simp [u32]
    have h1 : u32 (minimum + 0) = minimum % two32 := by simp [u32]
    have hm : minimum % two32 ≤ minimum := Nat.mod_le _ _
    simp only [gapLoop, h0, h1]
    have : ¬ start < minimum % two32 := by omega
    simp only [this, if_false]
    have : u32sub start 0 = start := u32sub_of_le (Nat.zero_le _) hs
    rw [this]
    exact List.mem_cons_self

/-- the common-block search against an honest responder on a fork: a height it returns is in the
common part and not below the finalized height -/
theorem commonSearch_honest_ok (com qOwn pOwn : List (Blk ι)) (hf : Fork com qOwn pOwn) (mhp n fin : Nat)
    (hov : fin + 10 * n < two32) (trial start : Nat) (hs : start < two32) (ch : Nat)
    (h : commonSearch n fin (com ++ qOwn) (honest (com ++ pOwn) mhp) trial start = .ok ch) :
    ch < com.length ∧ fin ≤ ch := by
  induction trial generalizing start with
  | zero => simp only [commonSearch] at h; cases h
  | succ t ih =>
    simp only [commonSearch] at h
    split at h
    · cases h
    · exact ih _ (u32sub_lt _ _) h
    · rename_i cid hc
      split at h
      · cases h
      · rename_i ch' hch'
        cases h
        obtain ⟨_, hmem, hp, hhp, _⟩ := (honest_common_some_some_iff _ mhp _ cid).mp hc
        obtain ⟨hh, hhh, b, hb, hbi⟩ := (mem_idsAt _ _ cid).mp hmem
        have := heightOf_getElem_nodup _ hf.ndq hh b hb
        rw [hbi, hch'] at this
        have heq : ch = hh := Option.some.inj this
        have hge := getHeightWithGap_ge start fin n 10 hs (by omega) hh hhh
        exact ⟨(fork_common com qOwn pOwn hf cid ch hp hch' hhp).2, by omega⟩

theorem commonSearch_honest_err (q p : List (Blk ι)) (mhp n fin trial start : Nat) (e : SyncErr)
    (h : commonSearch n fin q (honest p mhp) trial start = .error e) :
    e = .noCommon ∨ e = .requestFailed := by
  induction trial generalizing start with
  | zero => simp only [commonSearch] at h; cases h; exact Or.inl rfl
  | succ t ih =>
    simp only [commonSearch] at h
    split at h
    · cases h; exact Or.inr rfl
    · exact ih _ h
    · rename_i cid hc
      split at h
      · rename_i hnone
        obtain ⟨_, hmem, _⟩ := (honest_common_some_some_iff _ mhp _ cid).mp hc
        obtain ⟨hh, _, b, hb, hbi⟩ := (mem_idsAt _ _ cid).mp hmem
        exact absurd hbi ((heightOf_eq_none_iff q cid).mp hnone b (List.mem_of_getElem? hb))
      · cases h

/-- when one of the heights sampled in a round is in the common part, that round finds a common block -/
theorem commonSearch_honest_hit (com qOwn pOwn : List (Blk ι)) (mhp n fin trial start : Nat)
    (hit : ∃ h ∈ getHeightWithGap start fin n 10, h < com.length) :
    ∃ ch, commonSearch n fin (com ++ qOwn) (honest (com ++ pOwn) mhp) (trial + 1) start = .ok ch := by
  obtain ⟨hh, hmem, hlt⟩ := hit
  have hb : (com ++ qOwn)[hh]? = some com[hh] := by
    rw [List.getElem?_append_left hlt, List.getElem?_eq_getElem hlt]
  have hid : com[hh].id ∈ idsAt (com ++ qOwn) (getHeightWithGap start fin n 10) :=
    (mem_idsAt _ _ _).mpr ⟨hh, hmem, _, hb, rfl⟩
  have honp : heightOf (com ++ pOwn) com[hh].id ≠ none := by
    intro hn
    exact (heightOf_eq_none_iff _ _).mp hn com[hh] (List.mem_append_left _ (List.getElem_mem hlt)) rfl
  simp only [commonSearch]
  cases hc : (honest (com ++ pOwn) mhp).common (idsAt (com ++ qOwn) (getHeightWithGap start fin n 10)) with
  | none =>
    have := (honest_common_none_iff _ mhp _).mp hc
    rw [this] at hid; cases hid
  | some o =>
    cases o with
    | none =>
      have := (honest_common_some_none_iff _ mhp _).mp hc
      exact absurd (this.2 _ hid) honp
    | some cid =>
      obtain ⟨_, hmem', _⟩ := (honest_common_some_some_iff _ mhp _ cid).mp hc
      obtain ⟨h2, _, b, hb2, hbi⟩ := (mem_idsAt _ _ cid).mp hmem'
      cases hq : heightOf (com ++ qOwn) cid with
      | none => exact absurd hbi ((heightOf_eq_none_iff _ cid).mp hq b (List.mem_of_getElem? hb2))
      | some ch => exact ⟨ch, by simp only [hq]⟩

/-- the downloader against an honest responder on a well-formed chain delivers the responder's
blocks above the start block, whatever the response cap splits them into -/
theorem download_honest (p : List (Blk ι)) (mhp : Nat) (hnd : (p.map (·.id)).Nodup) (hok : ChainOK p)
    (pre : List (Blk ι)) (b : Blk ι) (s : List (Blk ι)) (e : Blk ι) (hp : p = pre ++ b :: (s ++ [e])) :
    download (honest p mhp).segment b.id pre.length e.id e.height = (s ++ [e], true) := by
  obtain ⟨hbh, hl⟩ := chainOK_split p pre b (s ++ [e]) hok hp
  have hp' : p = (pre ++ b :: s) ++ e :: [] := by rw [hp]; simp
  have heh := (chainOK_split p _ e [] hok hp').1
  simp only [List.length_append, List.length_cons] at heh
  unfold download
  have := dlLoop_honest p mhp hnd e (e.height - pre.length + 1) pre b s hp hl (by omega)
  rw [hbh] at this
  exact this

/-- the common-block search against ANY peer: a height it returns is the height of a block of the
requester's chain -/
theorem commonSearch_ok_height (q : List (Blk ι)) (peer : Peer ι) (n fin trial start ch : Nat)
    (h : commonSearch n fin q peer trial start = .ok ch) : ∃ cid, heightOf q cid = some ch := by
  induction trial generalizing start with
  | zero => simp only [commonSearch] at h; cases h
  | succ t ih =>
    simp only [commonSearch] at h
    split at h
    · cases h
    · exact ih _ h
    · rename_i cid _
      split at h
      · cases h
      · rename_i ch' hch'
        cases h
        exact ⟨cid, hch'⟩

theorem commonSearch_err_cases (q : List (Blk ι)) (peer : Peer ι) (n fin trial start : Nat) (e : SyncErr)
    (h : commonSearch n fin q peer trial start = .error e) :
    e = .noCommon ∨ e = .requestFailed ∨ e = .unknownCommon := by
  induction trial generalizing start with
  | zero => simp only [commonSearch] at h; cases h; exact Or.inl rfl
  | succ t ih =>
    simp only [commonSearch] at h
    split at h
    · cases h; exact Or.inr (Or.inl rfl)
    · exact ih _ h
    · split at h
      · cases h; exact Or.inr (Or.inr rfl)
      · cases h

theorem linked_take (lid : ι) (lh : Nat) (s : List (Blk ι)) (k : Nat) (h : Linked lid lh s) :
    Linked lid lh (s.take k) := by
  rw [← List.take_append_drop k s] at h
  exact ((linked_append lid lh _ _).mp h).1

theorem linked_prefix (lid : ι) (lh : Nat) (a b : List (Blk ι)) (h : Linked lid lh (a ++ b)) :
    Linked lid lh a := ((linked_append lid lh _ _).mp h).1

end HonestSearch

/-! ### the chain states a synchroniser goes through -/

section States
variable {α : Type}

/-- the states while deleting the tip of `c` until `k` blocks are left: `c` without its last block,
…, `c.take k` (none when `c` has at most `k` blocks) -/
def popStates (c : List α) (k : Nat) : List (List α) :=
  (List.range (c.length - k)).map (fun j => c.take (c.length - 1 - j))

/-- the states while appending the blocks of `app` to `c` one after the other -/
def pushStates (c app : List α) : List (List α) :=
  (List.range app.length).map (fun j => c ++ app.take (j + 1))

/-- delete down to `k` blocks, then append `app` -/
def walk (c : List α) (k : Nat) (app : List α) : List (List α) :=
  popStates c k ++ pushStates (c.take k) app

theorem mem_walk (c : List α) (k : Nat) (app : List α) (s : List α) (hs : s ∈ walk c k app) :
    (∃ m, k ≤ m ∧ s = c.take m) ∨ ∃ m, s = c.take k ++ app.take m := by
  unfold walk popStates pushStates at hs
  rcases List.mem_append.mp hs with h | h
  · obtain ⟨j, hj, hjs⟩ := List.mem_map.mp h
    simp only [List.mem_range] at hj
    exact Or.inl ⟨c.length - 1 - j, by omega, hjs.symm⟩
  · obtain ⟨j, _, hjs⟩ := List.mem_map.mp h
    exact Or.inr ⟨j + 1, hjs.symm⟩

/-- every state of a walk that never goes below `f + 1` blocks keeps the first `f + 1` blocks -/
theorem walk_keeps (c : List α) (k : Nat) (app : List α) (f : Nat) (hk : f + 1 ≤ k) (hc : f + 1 ≤ c.length) :
    ∀ s ∈ walk c k app, s.take (f + 1) = c.take (f + 1) := by
  intro s hs
  rcases mem_walk c k app s hs with ⟨m, hm, rfl⟩ | ⟨m, rfl⟩
  · rw [List.take_take]; congr 1; omega
  · exact take_take_append c _ k f hk hc

theorem getLastD_append_singleton (l : List α) (x d : α) : (l ++ [x]).getLastD d = x := by
  induction l generalizing d with
  | nil => rfl
  | cons a r ih => simp only [List.cons_append, List.getLastD_cons]; exact ih a

theorem getLastD_map_range (g : Nat → α) (n : Nat) (d : α) :
    ((List.range n).map g).getLastD d = if n = 0 then d else g (n - 1) := by
  cases n with
  | zero => rfl
  | succ m =>
    rw [List.range_succ, List.map_append, List.map_singleton, getLastD_append_singleton]
    simp

theorem getLastD_append (l1 l2 : List α) (d : α) : (l1 ++ l2).getLastD d = l2.getLastD (l1.getLastD d) := by
  induction l1 generalizing d with
  | nil => rfl
  | cons a r ih =>
    cases l2 with
    | nil => simp
    | cons b r2 =>
      simp only [List.cons_append, List.getLastD_cons]
      rw [ih a]
      simp only [List.getLastD_cons]

/-- the last state of a walk that starts in `c` -/
theorem walk_last (c : List α) (k : Nat) (app : List α) : (walk c k app).getLastD c = c.take k ++ app := by
  unfold walk
  rw [getLastD_append]
  have h1 : (popStates c k).getLastD c = c.take k := by
    unfold popStates
    rw [getLastD_map_range]
    by_cases h : c.length - k = 0
    · simp only [h, if_true]
      exact (List.take_of_length_le (by omega)).symm
    · simp only [h, if_false]
      congr 1; omega
  rw [h1]
  unfold pushStates
  rw [getLastD_map_range]
  by_cases h : app.length = 0
  · simp only [h, if_true]
    have : app = [] := List.length_eq_zero_iff.mp h
    rw [this]; simp
  · simp only [h, if_false]
    have : app.length - 1 + 1 = app.length := by omega
    rw [this, List.take_length]

/-- consecutive states differ by exactly one block at the tip (one block applied or one deleted) -/
def OneBlockSteps : List α → List (List α) → Prop
  | _, [] => True
  | s, s' :: r => ((∃ b, s' = s ++ [b]) ∨ (∃ b, s = s' ++ [b])) ∧ OneBlockSteps s' r

theorem oneBlockSteps_append (s : List α) (l1 l2 : List (List α)) :
    OneBlockSteps s (l1 ++ l2) ↔ OneBlockSteps s l1 ∧ OneBlockSteps (l1.getLastD s) l2 := by
  induction l1 generalizing s with
  | nil => simp [OneBlockSteps]
  | cons a r ih =>
    simp only [List.cons_append, OneBlockSteps, ih a, List.getLastD_cons]
    constructor
    · rintro ⟨h1, h2, h3⟩; exact ⟨⟨h1, h2⟩, h3⟩
    · rintro ⟨⟨h1, h2⟩, h3⟩; exact ⟨h1, h2, h3⟩

theorem popSteps_aux (c : List α) (d m : Nat) (hd : d ≤ m) (hm : m ≤ c.length) :
    OneBlockSteps (c.take m) ((List.range d).map (fun j => c.take (m - 1 - j))) := by
  induction d generalizing m with
  | zero => simp [OneBlockSteps]
  | succ d ih =>
    rw [List.range_succ_eq_map, List.map_cons, List.map_map]
    simp only [OneBlockSteps, Nat.sub_zero]
    refine ⟨Or.inr ⟨c[m - 1]'(by omega), ?_⟩, ?_⟩
    · have : m = (m - 1) + 1 := by omega
      conv => lhs; rw [this, List.take_succ]
      rw [List.getElem?_eq_getElem (by omega)]
      rfl
    · have := ih (m - 1) (by omega) (by omega)
      have hfun : ((fun j => c.take (m - 1 - j)) ∘ Nat.succ) = (fun j => c.take (m - 1 - 1 - j)) := by
        funext j; simp only [Function.comp]; congr 1; omega
      rw [hfun]; exact this

theorem popStates_steps (c : List α) (k : Nat) : OneBlockSteps c (popStates c k) := by
  have := popSteps_aux c (c.length - k) c.length (by omega) (Nat.le_refl _)
  rw [List.take_length] at this
  exact this

theorem pushStates_steps (c app : List α) : OneBlockSteps c (pushStates c app) := by
  induction app generalizing c with
  | nil => simp [pushStates, OneBlockSteps]
  | cons a r ih =>
    unfold pushStates
    rw [List.length_cons, List.range_succ_eq_map, List.map_cons, List.map_map]
    simp only [OneBlockSteps]
    refine ⟨Or.inl ⟨a, by simp⟩, ?_⟩
    have := ih (c ++ [a])
    unfold pushStates at this
    have hfun : ((fun j => c ++ (a :: r).take (j + 1)) ∘ Nat.succ) = (fun j => (c ++ [a]) ++ r.take (j + 1)) := by
      funext j; simp [Function.comp]
    rw [hfun]
    simpa using this

theorem popStates_last (c : List α) (k : Nat) : (popStates c k).getLastD c = c.take k := by
  unfold popStates
  rw [getLastD_map_range]
  by_cases h : c.length - k = 0
  · simp only [h, if_true]
    exact (List.take_of_length_le (by omega)).symm
  · simp only [h, if_false]
    congr 1; omega

theorem walk_steps (c : List α) (k : Nat) (app : List α) : OneBlockSteps c (walk c k app) := by
  unfold walk
  rw [oneBlockSteps_append, popStates_last]
  exact ⟨popStates_steps c k, pushStates_steps _ _⟩

/-- a run: the states `l` visited from `start`, ending in `final`, one block per step, all satisfying `P` -/
def Run (P : List α → Prop) (start : List α) (l : List (List α)) (final : List α) : Prop :=
  l.getLastD start = final ∧ OneBlockSteps start l ∧ ∀ s ∈ l, P s

theorem run_nil (P : List α → Prop) (s : List α) : Run P s [] s := ⟨rfl, trivial, fun _ h => (by cases h)⟩

theorem run_append (P : List α → Prop) (a : List α) (l1 : List (List α)) (b : List α) (l2 : List (List α))
    (c : List α) (h1 : Run P a l1 b) (h2 : Run P b l2 c) : Run P a (l1 ++ l2) c := by
  obtain ⟨e1, s1, p1⟩ := h1
  obtain ⟨e2, s2, p2⟩ := h2
  refine ⟨by rw [getLastD_append, e1, e2], (oneBlockSteps_append a l1 l2).mpr ⟨s1, by rw [e1]; exact s2⟩, ?_⟩
  intro s hs
  rcases List.mem_append.mp hs with h | h
  · exact p1 s h
  · exact p2 s h

theorem run_walk (c : List α) (k : Nat) (app : List α) (f : Nat) (hk : f + 1 ≤ k) (hc : f + 1 ≤ c.length) :
    Run (fun s => s.take (f + 1) = c.take (f + 1)) c (walk c k app) (c.take k ++ app) :=
  ⟨walk_last c k app, walk_steps c k app, walk_keeps c k app f hk hc⟩

end States

section Traces
variable {ι : Type} [DecidableEq ι]

/-- the chain states of one round of `fastSync`, in order, one block deleted or applied per step:
the same decisions as `fastSync`; where that deletes down to the common block, applies the
downloaded blocks, and (on failure) deletes again and re-applies the temp blocks, every intermediate
chain is listed -/
def fastSyncStates (applies : List (Blk ι) → Blk ι → Bool) (finAfter : List (Blk ι) → Nat) (n fin : Nat)
    (q : List (Blk ι)) (target : Blk ι) (peer : Peer ι) : List (List (Blk ι)) :=
  match peer.common (idsAt q (getLastHeights (q.length - 1) (2 * n))) with
  | some (some cid) =>
    match heightOf q cid with
    | some ch =>
      if ch < fin then []
      else if (q.length - 1) - ch > 2 * n ∨ u32sub target.height ch > 2 * n then []
      else
        let dl := download peer.segment cid ch target.id target.height
        if dl.1.any (fun b => !b.ok) then []
        else if !dl.2 then []
        else
          let r := applyAll applies (q.take (ch + 1)) dl.1
          let s1 := walk q (ch + 1) (r.1.drop (ch + 1))
          if r.2 then s1
          else
            let finNow := max fin (finAfter r.1)
            if ch < finNow ∧ ch + 1 < r.1.length then s1 ++ walk r.1 (finNow + 1) []
            else s1 ++ walk r.1 (ch + 1) ((reapply applies (r.1.take (ch + 1)) (q.drop (ch + 1))).1.drop (ch + 1))
    | none => []
  | _ => []

/-- the chain states of one round of `blockSync` (after the start state `q`) -/
def blockSyncStates (applies : List (Blk ι) → Blk ι → Bool) (n fin myMhp : Nat) (q : List (Blk ι))
    (best : Tip ι) (peer : Peer ι) : List (List (Blk ι)) :=
  if !isDifferentChain myMhp best.mhp (q.length - 1) best.height then []
  else
    match peer.last with
    | none => []
    | some (last, lastMhp) =>
      if !last.ok then []
      else if !isDifferentChain myMhp lastMhp (q.length - 1) last.height then []
      else
        match commonSearch n fin q peer 3 (getCommonBlockStartSearchHeight (q.length - 1) n) with
        | .error _ => []
        | .ok ch =>
          if ch < fin then walk q (fin + 1) []
          else
            let cid := match q[ch]? with | some b => b.id | none => last.id
            let dl := download peer.segment cid ch last.id last.height
            walk q (ch + 1) ((streamApply applies (q.take (ch + 1)) dl.1).1.drop (ch + 1))

end Traces

end LiskVerif.Sync
