/-
LIP-0039 roots of different groups of entries differ (for a collision-free hash with outputs of one length,
`GoodHash`): the facts the frame reasoning of the store refinement needs.

* `descend`: basic lemmas (composition, membership, well-formedness, positions);
* the three kinds of root (`H []`, `H (0 :: _)`, `H (1 :: _)`) are separated; equal roots commit to the same
  key/value pairs and to the same number of entries;
* a group of at least two entries and the same group seen from a strictly lower position have different roots;
* `avoids_outside`, `avoids_below`: the form used by the frame reasoning (`Avoids`).
-/
import LiskVerif.Lemmas.SMTImplRep

namespace LiskVerif.SMTImpl
open LiskVerif LiskVerif.SMT

/-! ### descend -/

theorem descend_append (x y : Bits) (es : List Entry) : descend (x ++ y) es = descend y (descend x es) := by
  induction x generalizing es with
  | nil => rfl
  | cons b x ih => cases b <;> simp [descend, ih]

theorem distinct_goL_length_le (es : List Entry) : (goL es).length ≤ es.length := by
  unfold goL; exact List.length_filterMap_le _ _

theorem distinct_goR_length_le (es : List Entry) : (goR es).length ≤ es.length := by
  unfold goR; exact List.length_filterMap_le _ _

theorem descend_length_le (x : Bits) (es : List Entry) : (descend x es).length ≤ es.length := by
  induction x generalizing es with
  | nil => exact Nat.le_refl _
  | cons b x ih =>
    cases b
    · exact Nat.le_trans (ih (goL es)) (distinct_goL_length_le es)
    · exact Nat.le_trans (ih (goR es)) (distinct_goR_length_le es)

theorem wfe_descend {d : Nat} {es : List Entry} (h : WFE d es) (x : Bits) (hx : x.length ≤ d) :
    WFE (d - x.length) (descend x es) := by
  induction x generalizing d es with
  | nil => simpa [descend] using h
  | cons b x ih =>
    match d, hx, h with
    | d + 1, hx, h =>
      have hx' : x.length ≤ d := by simpa using hx
      have e : d + 1 - (b :: x).length = d - x.length := by simp
      rw [e]
      cases b
      · exact ih (wfe_goL h) hx'
      · exact ih (wfe_goR h) hx'

theorem mem_descend {x : Bits} {es : List Entry} {e' : Entry} :
    e' ∈ descend x es ↔ ∃ e ∈ es, e.path = x ++ e'.path ∧ e'.key = e.key ∧ e'.value = e.value := by
  induction x generalizing es e' with
  | nil =>
    simp only [descend, List.nil_append]
    constructor
    · intro h; exact ⟨e', h, rfl, rfl, rfl⟩
    · rintro ⟨e, he, hp, hk, hv⟩
      have : e' = e := by cases e; cases e'; simp_all
      rw [this]; exact he
  | cons b x ih =>
    cases b
    · simp only [descend, List.cons_append]
      rw [ih]
      constructor
      · rintro ⟨e, he, hp, hk, hv⟩
        obtain ⟨e₀, he₀, hp₀, hk₀, hv₀⟩ := mem_goL.mp he
        exact ⟨e₀, he₀, by rw [hp₀, hp], hk.trans hk₀, hv.trans hv₀⟩
      · rintro ⟨e₀, he₀, hp₀, hk₀, hv₀⟩
        refine ⟨⟨x ++ e'.path, e₀.key, e₀.value⟩, mem_goL.mpr ⟨e₀, he₀, hp₀, rfl, rfl⟩, rfl, hk₀, hv₀⟩
    · simp only [descend, List.cons_append]
      rw [ih]
      constructor
      · rintro ⟨e, he, hp, hk, hv⟩
        obtain ⟨e₀, he₀, hp₀, hk₀, hv₀⟩ := mem_goR.mp he
        exact ⟨e₀, he₀, by rw [hp₀, hp], hk.trans hk₀, hv.trans hv₀⟩
      · rintro ⟨e₀, he₀, hp₀, hk₀, hv₀⟩
        refine ⟨⟨x ++ e'.path, e₀.key, e₀.value⟩, mem_goR.mpr ⟨e₀, he₀, hp₀, rfl, rfl⟩, rfl, hk₀, hv₀⟩

theorem under_descend {pre : Bits} {es : List Entry} (h : ∀ e ∈ es, Under pre e) (x : Bits) :
    ∀ e ∈ descend x es, Under (pre ++ x) e := by
  intro e' he'
  obtain ⟨e, he, hp, hk, _⟩ := mem_descend.mp he'
  have := h e he
  unfold Under at *
  rw [hk, this, hp, List.append_assoc]

/-- with `WFE d es`, nothing is left below a position longer than the paths -/
theorem descend_nil_of_gt {d : Nat} {es : List Entry} (h : WFE d es) (x : Bits) (hx : d < x.length) :
    descend x es = [] := by
  apply List.eq_nil_iff_forall_not_mem.mpr
  intro e' he'
  obtain ⟨e, he, hp, _, _⟩ := mem_descend.mp he'
  have hl := h.1 e he
  rw [hp, List.length_append] at hl
  omega

/-! ### the inputs hashed for a root (`treeInputs`) and their closure (`InX`) -/

variable {X : Bytes → Prop}

theorem distinct_treeInputs_nil (H : HashFn) (d : Nat) : treeInputs H d [] = [[]] := by
  cases d <;> rfl

theorem distinct_treeInputs_single (H : HashFn) (d : Nat) (e : Entry) :
    treeInputs H d [e] = [0 :: (e.key ++ e.value)] := by
  cases d <;> rfl

theorem distinct_inX_nil (c : Cfg) (g : GoodHash c X) (d : Nat) : InX c X d [] := by
  intro a ha
  rw [distinct_treeInputs_nil] at ha
  have : a = [] := by simpa using ha
  rw [this]; exact g.nil

theorem distinct_inX_single (c : Cfg) {d : Nat} {e : Entry} (hx : InX c X d [e]) :
    X (0 :: (e.key ++ e.value)) :=
  hx _ (by rw [distinct_treeInputs_single]; simp)

theorem distinct_inX_branch (c : Cfg) {d : Nat} {es : List Entry} (h2 : 2 ≤ es.length)
    (hx : InX c X (d + 1) es) : X (1 :: (root c.H d (goL es) ++ root c.H d (goR es))) := by
  match es, h2 with
  | e₁ :: e₂ :: r, _ => exact hx _ (by simp [treeInputs])

/-- the inputs of a child of a single entry are `[]` or the input of that entry -/
theorem distinct_inX_sub_single (c : Cfg) (g : GoodHash c X) {d d' : Nat} {e : Entry} {l : List Entry}
    (hlen : l.length ≤ 1) (hm : ∀ e' ∈ l, e'.key = e.key ∧ e'.value = e.value) (hx : InX c X d' [e]) :
    InX c X d l := by
  match l, hlen with
  | [], _ => exact distinct_inX_nil c g d
  | [e'], _ =>
    intro a ha
    rw [distinct_treeInputs_single] at ha
    have ha' : a = 0 :: (e'.key ++ e'.value) := by simpa using ha
    obtain ⟨hk, hv⟩ := hm e' (by simp)
    rw [ha', hk, hv]
    exact distinct_inX_single c hx

/-- closure of `InX` -/
theorem inX_goL (c : Cfg) (g : GoodHash c X) {d : Nat} {es : List Entry} (hw : WFE (d + 1) es)
    (hx : InX c X (d + 1) es) : InX c X d (goL es) := by
  rcases root_pre c.H hw with ⟨he, _, _⟩ | ⟨e, he, _, _⟩ | ⟨_, d', hd, _, _, hl, _⟩
  · subst he; exact distinct_inX_nil c g d
  · subst he
    refine distinct_inX_sub_single c g (e := e) (distinct_goL_length_le [e]) ?_ hx
    intro e' he'
    obtain ⟨e₀, he₀, _, hk, hv⟩ := mem_goL.mp he'
    have : e₀ = e := by simpa using he₀
    subst this
    exact ⟨hk, hv⟩
  · obtain rfl : d = d' := by omega
    intro a ha
    exact hx a (hl a ha)

theorem inX_goR (c : Cfg) (g : GoodHash c X) {d : Nat} {es : List Entry} (hw : WFE (d + 1) es)
    (hx : InX c X (d + 1) es) : InX c X d (goR es) := by
  rcases root_pre c.H hw with ⟨he, _, _⟩ | ⟨e, he, _, _⟩ | ⟨_, d', hd, _, _, _, hr⟩
  · subst he; exact distinct_inX_nil c g d
  · subst he
    refine distinct_inX_sub_single c g (e := e) (distinct_goR_length_le [e]) ?_ hx
    intro e' he'
    obtain ⟨e₀, he₀, _, hk, hv⟩ := mem_goR.mp he'
    have : e₀ = e := by simpa using he₀
    subst this
    exact ⟨hk, hv⟩
  · obtain rfl : d = d' := by omega
    intro a ha
    exact hx a (hr a ha)

theorem inX_descend (c : Cfg) (g : GoodHash c X) {d : Nat} {es : List Entry} (hw : WFE d es)
    (hx : InX c X d es) (x : Bits) (hxl : x.length ≤ d) : InX c X (d - x.length) (descend x es) := by
  induction x generalizing d es with
  | nil => simpa [descend] using hx
  | cons b x ih =>
    match d, hxl, hw, hx with
    | d + 1, hxl, hw, hx =>
      have hxl' : x.length ≤ d := by simpa using hxl
      have e : d + 1 - (b :: x).length = d - x.length := by simp
      rw [e]
      cases b
      · exact ih (wfe_goL hw) (inX_goL c g hw hx) hxl'
      · exact ih (wfe_goR hw) (inX_goR c g hw hx) hxl'

/-- `treeInputs` does not depend on the order of the entries (as a set) -/
theorem treeInputs_perm (H : HashFn) : ∀ (d : Nat) {a b : List Entry}, a.Perm b →
    ∀ x, x ∈ treeInputs H d a ↔ x ∈ treeInputs H d b := by
  intro d
  induction d with
  | zero =>
    intro a b h x
    match a, b, h with
    | [], b, h => rw [List.Perm.eq_nil h.symm]
    | [e], b, h => rw [List.perm_singleton.mp h.symm]
    | e₁ :: e₂ :: es, b, h =>
      have hl := h.length_eq
      match b, hl with
      | f₁ :: f₂ :: fs, _ => simp [treeInputs]
  | succ d ih =>
    intro a b h x
    match a, b, h with
    | [], b, h => rw [List.Perm.eq_nil h.symm]
    | [e], b, h => rw [List.perm_singleton.mp h.symm]
    | e₁ :: e₂ :: es, b, h =>
      have hl := h.length_eq
      match b, hl, h with
      | f₁ :: f₂ :: fs, _, h =>
        simp only [treeInputs, List.mem_cons, List.mem_append]
        rw [root_perm H d (goL_perm h), root_perm H d (goR_perm h), ih (goL_perm h) x, ih (goR_perm h) x]

theorem inX_perm (c : Cfg) {d : Nat} {es es' : List Entry} (h : es.Perm es') (hx : InX c X d es') :
    InX c X d es := by
  intro a ha
  exact hx a ((treeInputs_perm c.H d h a).mp ha)

/-! ### roots: the hash of every root has the fixed length; the three kinds of root are separated -/

/-- the shape of the input hashed for the root of a well-formed group; the input is among `X` -/
theorem distinct_root_shape (c : Cfg) (g : GoodHash c X) {d : Nat} {es : List Entry} (hw : WFE d es)
    (hx : InX c X d es) :
    (es = [] ∧ root c.H d es = c.H [] ∧ X []) ∨
    (∃ e, es = [e] ∧ root c.H d es = c.H (0 :: (e.key ++ e.value)) ∧ X (0 :: (e.key ++ e.value))) ∨
    (2 ≤ es.length ∧ ∃ d₀, d = d₀ + 1 ∧
      root c.H d es = c.H (1 :: (root c.H d₀ (goL es) ++ root c.H d₀ (goR es))) ∧
      X (1 :: (root c.H d₀ (goL es) ++ root c.H d₀ (goR es))) ∧
      InX c X d₀ (goL es) ∧ InX c X d₀ (goR es)) := by
  rcases root_pre c.H hw with ⟨he, hr, hm⟩ | ⟨e, he, hr, hm⟩ | ⟨h2, d₀, hd, hr, hm, _, _⟩
  · left; exact ⟨he, hr, hx _ hm⟩
  · right; left; exact ⟨e, he, hr, hx _ hm⟩
  · right; right
    subst hd
    exact ⟨h2, d₀, rfl, hr, hx _ hm, inX_goL c g hw hx, inX_goR c g hw hx⟩

theorem root_length (c : Cfg) (g : GoodHash c X) (d : Nat) (es : List Entry) :
    (root c.H d es).length = c.hashSize := by
  match d, es with
  | _, [] => rw [root_nil]; exact g.len _
  | _, [e] => rw [root_single]; exact g.len _
  | 0, e₁ :: e₂ :: r => rw [root_zero_two c.H _ (by simp)]; exact g.len _
  | d + 1, e₁ :: e₂ :: r => rw [root_succ_two c.H d _ (by simp)]; exact g.len _

theorem root_kind_sep (c : Cfg) (g : GoodHash c X) {d d' : Nat} {es es' : List Entry} (hw : WFE d es)
    (hw' : WFE d' es') (hx : InX c X d es) (hx' : InX c X d' es')
    (h : root c.H d es = root c.H d' es') : kindOfLen es.length = kindOfLen es'.length := by
  rcases distinct_root_shape c g hw hx with ⟨he, hr, hX⟩ | ⟨e, he, hr, hX⟩ | ⟨h2, d₀, _, hr, hX, _, _⟩ <;>
  rcases distinct_root_shape c g hw' hx' with
    ⟨he', hr', hX'⟩ | ⟨e', he', hr', hX'⟩ | ⟨h2', d₀', _, hr', hX', _, _⟩
  · rw [he, he']
  · rw [hr, hr'] at h; have := g.inj _ _ hX hX' h; simp at this
  · rw [hr, hr'] at h; have := g.inj _ _ hX hX' h; simp at this
  · rw [hr, hr'] at h; have := g.inj _ _ hX hX' h; simp at this
  · rw [he, he']; rfl
  · rw [hr, hr'] at h; have := g.inj _ _ hX hX' h; simp at this
  · rw [hr, hr'] at h; have := g.inj _ _ hX hX' h; simp at this
  · rw [hr, hr'] at h; have := g.inj _ _ hX hX' h; simp at this
  · rw [kindOfLen_stub.mpr h2, kindOfLen_stub.mpr h2']

theorem distinct_split (c : Cfg) (g : GoodHash c X) {d₀ d₀' : Nat} {a b a' b' : List Entry}
    (hX : X (1 :: (root c.H d₀ a ++ root c.H d₀ b))) (hX' : X (1 :: (root c.H d₀' a' ++ root c.H d₀' b')))
    (h : c.H (1 :: (root c.H d₀ a ++ root c.H d₀ b)) = c.H (1 :: (root c.H d₀' a' ++ root c.H d₀' b'))) :
    root c.H d₀ a = root c.H d₀' a' ∧ root c.H d₀ b = root c.H d₀' b' := by
  have := g.inj _ _ hX hX' h
  simp only [List.cons.injEq, true_and] at this
  exact List.append_inj this (by rw [root_length c g, root_length c g])

theorem distinct_keylen_goL {n : Nat} {es : List Entry} (h : ∀ e ∈ es, e.key.length = n) :
    ∀ e ∈ goL es, e.key.length = n := by
  intro e' he'
  obtain ⟨e, he, _, hk, _⟩ := mem_goL.mp he'
  rw [hk]; exact h e he

theorem distinct_keylen_goR {n : Nat} {es : List Entry} (h : ∀ e ∈ es, e.key.length = n) :
    ∀ e ∈ goR es, e.key.length = n := by
  intro e' he'
  obtain ⟨e, he, _, hk, _⟩ := mem_goR.mp he'
  rw [hk]; exact h e he

theorem distinct_keylen_descend {n : Nat} {es : List Entry} (h : ∀ e ∈ es, e.key.length = n) (x : Bits) :
    ∀ e ∈ descend x es, e.key.length = n := by
  intro e' he'
  obtain ⟨e, he, _, hk, _⟩ := mem_descend.mp he'
  rw [hk]; exact h e he

/-- equal roots commit to the same key/value pairs (D1) -/
theorem root_keys_subset (c : Cfg) (g : GoodHash c X) (keyLen : Nat) : ∀ (d d' : Nat) (es es' : List Entry),
    WFE d es → WFE d' es' → InX c X d es → InX c X d' es' →
    (∀ e ∈ es, e.key.length = keyLen) → (∀ e ∈ es', e.key.length = keyLen) →
    root c.H d es = root c.H d' es' → ∀ e ∈ es, ∃ e' ∈ es', e'.key = e.key ∧ e'.value = e.value := by
  intro d
  induction d using Nat.strongRecOn with
  | ind d ih =>
    intro d' es es' hw hw' hx hx' hk hk' h e he
    have hkind := root_kind_sep c g hw hw' hx hx' h
    rcases distinct_root_shape c g hw hx with ⟨hes, hr, _⟩ | ⟨e₁, hes, hr, hX⟩ | ⟨h2, d₀, hd, hr, hX, hxl, hxr⟩
    · subst hes; simp at he
    · subst hes
      have hl : kindOfLen es'.length = .leaf := hkind.symm
      obtain ⟨e', rfl⟩ := List.length_eq_one_iff.mp (kindOfLen_leaf.mp hl)
      rw [root_single, root_single] at h
      have hi := g.inj _ _ hX (distinct_inX_single c hx') h
      simp only [List.cons.injEq, true_and] at hi
      have he1 : e = e₁ := by simpa using he
      subst he1
      obtain ⟨ha, hb⟩ := List.append_inj hi (by rw [hk e (by simp), hk' e' (by simp)])
      exact ⟨e', by simp, ha.symm, hb.symm⟩
    · have h2' : 2 ≤ es'.length := kindOfLen_stub.mp (by rw [← hkind]; exact kindOfLen_stub.mpr h2)
      rcases distinct_root_shape c g hw' hx' with
        ⟨hes', _, _⟩ | ⟨e₁', hes', _, _⟩ | ⟨_, d₀', hd', hr', hX', hxl', hxr'⟩
      · subst hes'; simp at h2'
      · subst hes'; simp at h2'
      · subst hd; subst hd'
        rw [hr, hr'] at h
        obtain ⟨hl, hrr⟩ := distinct_split c g hX hX' h
        have hne := wfe_path_ne_nil hw e he
        match hp : e.path with
        | [] => exact absurd hp hne
        | false :: p =>
          have hm : (⟨p, e.key, e.value⟩ : Entry) ∈ goL es := mem_goL.mpr ⟨e, he, hp, rfl, rfl⟩
          obtain ⟨e'', he'', hk'', hv''⟩ := ih d₀ (by omega) d₀' (goL es) (goL es') (wfe_goL hw) (wfe_goL hw')
            hxl hxl' (distinct_keylen_goL hk) (distinct_keylen_goL hk') hl _ hm
          obtain ⟨e₀, he₀, _, hk₀, hv₀⟩ := mem_goL.mp he''
          exact ⟨e₀, he₀, by rw [← hk₀, hk''], by rw [← hv₀, hv'']⟩
        | true :: p =>
          have hm : (⟨p, e.key, e.value⟩ : Entry) ∈ goR es := mem_goR.mpr ⟨e, he, hp, rfl, rfl⟩
          obtain ⟨e'', he'', hk'', hv''⟩ := ih d₀ (by omega) d₀' (goR es) (goR es') (wfe_goR hw) (wfe_goR hw')
            hxr hxr' (distinct_keylen_goR hk) (distinct_keylen_goR hk') hrr _ hm
          obtain ⟨e₀, he₀, _, hk₀, hv₀⟩ := mem_goR.mp he''
          exact ⟨e₀, he₀, by rw [← hk₀, hk''], by rw [← hv₀, hv'']⟩

theorem root_length_eq (c : Cfg) (g : GoodHash c X) : ∀ (d d' : Nat) (es es' : List Entry), WFE d es →
    WFE d' es' → InX c X d es → InX c X d' es' → root c.H d es = root c.H d' es' →
    es.length = es'.length := by
  intro d
  induction d using Nat.strongRecOn with
  | ind d ih =>
    intro d' es es' hw hw' hx hx' h
    have hkind := root_kind_sep c g hw hw' hx hx' h
    rcases distinct_root_shape c g hw hx with ⟨hes, hr, _⟩ | ⟨e₁, hes, hr, _⟩ | ⟨h2, d₀, hd, hr, hX, hxl, hxr⟩
    · subst hes
      have hl : kindOfLen es'.length = .empty := hkind.symm
      rw [kindOfLen_empty.mp hl]; rfl
    · subst hes
      have hl : kindOfLen es'.length = .leaf := hkind.symm
      rw [kindOfLen_leaf.mp hl]; rfl
    · have h2' : 2 ≤ es'.length := kindOfLen_stub.mp (by rw [← hkind]; exact kindOfLen_stub.mpr h2)
      rcases distinct_root_shape c g hw' hx' with
        ⟨hes', _, _⟩ | ⟨e₁', hes', _, _⟩ | ⟨_, d₀', hd', hr', hX', hxl', hxr'⟩
      · subst hes'; simp at h2'
      · subst hes'; simp at h2'
      · subst hd; subst hd'
        rw [hr, hr'] at h
        obtain ⟨hl, hrr⟩ := distinct_split c g hX hX' h
        have e1 := ih d₀ (by omega) d₀' _ _ (wfe_goL hw) (wfe_goL hw') hxl hxl' hl
        have e2 := ih d₀ (by omega) d₀' _ _ (wfe_goR hw) (wfe_goR hw') hxr hxr' hrr
        have s1 := length_goL_add_goR es (wfe_path_ne_nil hw)
        have s2 := length_goL_add_goR es' (wfe_path_ne_nil hw')
        omega

/-- a group of at least two entries and the same group seen from a strictly lower position have different
roots (D2) -/
theorem root_ne_descend (c : Cfg) (g : GoodHash c X) : ∀ (d'' d : Nat) (es : List Entry) (x : Bits), x ≠ [] →
    d = d'' + x.length → WFE d es → InX c X d es → 2 ≤ es.length → (descend x es).length = es.length →
    root c.H d es ≠ root c.H d'' (descend x es) := by
  intro d''
  induction d'' with
  | zero =>
    intro d es x _ hd hw _ h2 hl _
    have hw'' := wfe_descend hw x (by omega)
    have e0 : d - x.length = 0 := by omega
    rw [e0] at hw''
    have := wfe_zero_length hw''
    omega
  | succ d₀ ih =>
    intro d es x hx hd hw hX h2 hl heq
    have e : d - x.length = d₀ + 1 := by omega
    have hw'' : WFE (d₀ + 1) (descend x es) := by
      have := wfe_descend hw x (by omega)
      rwa [e] at this
    have hX'' : InX c X (d₀ + 1) (descend x es) := by
      have := inX_descend c g hw hX x (by omega)
      rwa [e] at this
    have h2'' : 2 ≤ (descend x es).length := by omega
    cases x with
    | nil => exact hx rfl
    | cons b x' =>
      simp only [List.length_cons] at hd
      obtain ⟨dm, rfl⟩ : ∃ dm, d = dm + 1 := ⟨d₀ + 1 + x'.length, by omega⟩
      have hsum := length_goL_add_goR es (wfe_path_ne_nil hw)
      have hsum'' := length_goL_add_goR (descend (b :: x') es) (wfe_path_ne_nil hw'')
      rw [root_succ_two c.H dm es h2, root_succ_two c.H d₀ _ h2''] at heq
      obtain ⟨hL, hR⟩ := distinct_split c g (distinct_inX_branch c h2 hX) (distinct_inX_branch c h2'' hX'') heq
      cases b with
      | false =>
        have hl' : (descend x' (goL es)).length = es.length := hl
        have hle := descend_length_le x' (goL es)
        have hgr : goR es = [] := List.length_eq_zero_iff.mp (by omega)
        have hk := root_kind_sep c g (wfe_goR hw) (wfe_goR hw'') (inX_goR c g hw hX) (inX_goR c g hw'' hX'') hR
        rw [hgr] at hk
        have hk0 : kindOfLen (goR (descend (false :: x') es)).length = .empty := hk.symm
        have hgr'' := kindOfLen_empty.mp hk0
        have hdl : goL (descend (false :: x') es) = descend (x' ++ [false]) (goL es) := by
          rw [descend_append]; rfl
        have hlen : (descend (x' ++ [false]) (goL es)).length = (goL es).length := by
          rw [← hdl]; omega
        rw [hdl] at hL
        have hdm : dm = d₀ + (x' ++ [false]).length := by
          simp only [List.length_append, List.length_cons, List.length_nil]; omega
        exact ih dm (goL es) (x' ++ [false]) (by simp) hdm (wfe_goL hw) (inX_goL c g hw hX) (by omega) hlen hL
      | true =>
        have hl' : (descend x' (goR es)).length = es.length := hl
        have hle := descend_length_le x' (goR es)
        have hgl : goL es = [] := List.length_eq_zero_iff.mp (by omega)
        have hk := root_kind_sep c g (wfe_goL hw) (wfe_goL hw'') (inX_goL c g hw hX) (inX_goL c g hw'' hX'') hL
        rw [hgl] at hk
        have hk0 : kindOfLen (goL (descend (true :: x') es)).length = .empty := hk.symm
        have hgl'' := kindOfLen_empty.mp hk0
        have hdl : goR (descend (true :: x') es) = descend (x' ++ [true]) (goR es) := by
          rw [descend_append]; rfl
        have hlen : (descend (x' ++ [true]) (goR es)).length = (goR es).length := by
          rw [← hdl]; omega
        rw [hdl] at hR
        have hdm : dm = d₀ + (x' ++ [true]).length := by
          simp only [List.length_append, List.length_cons, List.length_nil]; omega
        exact ih dm (goR es) (x' ++ [true]) (by simp) hdm (wfe_goR hw) (inX_goR c g hw hX) (by omega) hlen hR

/-! ### consequences in the form the frame reasoning needs -/

/-- no key lies below two diverging positions -/
theorem distinct_diverge_key {pre pre' : Bits} (hd : Diverge pre pre') {e e₀ : Entry} (hu : Under pre e)
    (hu₀ : Under pre' e₀) (hk : e₀.key = e.key) : False := by
  obtain ⟨cm, b, r₁, r₂, rfl, rfl⟩ := hd
  unfold Under at hu hu₀
  rw [hk, hu, List.append_assoc, List.append_assoc] at hu₀
  have h := List.append_cancel_left hu₀
  simp only [List.cons_append, List.cons.injEq] at h
  cases b <;> simp at h

/-- the root of any group `es` below `pre` is not the record key of any group (≥ 2 entries) below a diverging
position -/
theorem avoids_outside (c : Cfg) (g : GoodHash c X) (keyLen : Nat) {pre pre' : Bits} {d dO : Nat}
    {es eo : List Entry} (hd : Diverge pre pre') (hu : ∀ e ∈ es, Under pre e) (huo : ∀ e ∈ eo, Under pre' e)
    (hw : WFE d es) (hwo : WFE dO eo) (hx : InX c X d es) (hxo : InX c X dO eo)
    (hk : ∀ e ∈ es, e.key.length = keyLen)
    (hko : ∀ e ∈ eo, e.key.length = keyLen) : Avoids c.H (root c.H d es) dO eo := by
  intro x h2 heq
  have hxl : x.length ≤ dO := by
    apply Nat.le_of_not_lt
    intro hlt
    rw [descend_nil_of_gt hwo x hlt] at h2
    simp at h2
  have hwx := wfe_descend hwo x hxl
  have hxx := inX_descend c g hwo hxo x hxl
  have hkind := root_kind_sep c g hw hwx hx hxx heq
  have h2e : 2 ≤ es.length := kindOfLen_stub.mp (by rw [hkind]; exact kindOfLen_stub.mpr h2)
  match es, h2e with
  | e :: _ :: _, _ =>
    obtain ⟨e', he', hke, _⟩ := root_keys_subset c g keyLen d _ _ _ hw hwx hx hxx hk
      (distinct_keylen_descend hko x) heq e (by simp)
    obtain ⟨e₀, he₀, _, hk₀, _⟩ := mem_descend.mp he'
    exact distinct_diverge_key hd (hu e (by simp)) (huo e₀ he₀) (by rw [← hk₀, hke])

/-- the root of a group is not the record key of any group (≥ 2 entries) strictly below it -/
theorem avoids_below (c : Cfg) (g : GoodHash c X) {d : Nat} {es : List Entry} (hw : WFE d es)
    (hx : InX c X d es) (y : Bits)
    (hy : y ≠ []) (hyl : y.length ≤ d) : Avoids c.H (root c.H d es) (d - y.length) (descend y es) := by
  intro x h2 heq
  have _ := hyl
  rw [← descend_append] at h2 heq
  have hxl : (y ++ x).length ≤ d := by
    apply Nat.le_of_not_lt
    intro hlt
    rw [descend_nil_of_gt hw (y ++ x) hlt] at h2
    simp at h2
  have hdd : d - y.length - x.length = d - (y ++ x).length := by
    rw [List.length_append]; omega
  rw [hdd] at heq
  have hwx := wfe_descend hw (y ++ x) hxl
  have hxx := inX_descend c g hw hx (y ++ x) hxl
  have hlen := root_length_eq c g d _ _ _ hw hwx hx hxx heq
  have hne : y ++ x ≠ [] := by
    intro h; exact hy (List.append_eq_nil_iff.mp h).1
  exact root_ne_descend c g (d - (y ++ x).length) d es (y ++ x) hne (by omega) hw hx (by omega) hlen.symm heq

#print axioms inX_goL
#print axioms inX_goR
#print axioms inX_descend
#print axioms treeInputs_perm
#print axioms inX_perm
#print axioms root_length
#print axioms root_kind_sep
#print axioms avoids_outside
#print axioms avoids_below
#print axioms root_keys_subset
#print axioms root_length_eq
#print axioms root_ne_descend

end LiskVerif.SMTImpl
