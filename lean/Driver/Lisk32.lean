import Driver.Common
import LiskVerif.Model.Lisk32

namespace Driver.Lisk32
open LiskVerif LiskVerif.Lisk32

def step (_ : Unit) (w : List String) : Unit × String :=
  let r : String :=
    match w with
    | ["reset"] => "ok"
    | ["tolisk", hex] => match Hex.decode? hex with
      | some b => match bytesToLisk32 b with
        | some s => "ok " ++ Hex.encode s
        | none => "err"
      | none => "bad-op"
    | ["tobytes", hex] => match Hex.decode? hex with
      | some s => match lisk32ToBytes s with
        | some b => "ok " ++ Hex.encode b
        | none => "err"
      | none => "bad-op"
    | ["validate", hex] => match Hex.decode? hex with
      | some s => toString (validate s)
      | none => "bad-op"
    | _ => "bad-op"
  ((), r)

end Driver.Lisk32
