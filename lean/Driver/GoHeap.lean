/-
Line-protocol driver for `LiskVerif.GoHeap` (transcription of Go's container/heap), pseudo-property LIBHEAP.
Elements are `<prio>:<id>`; `less` compares priorities only (`min`: p1 < p2 — NonceMinHeap / FeeMinHeap;
`max`: p1 > p2 — FeeMaxHeap / the generator's FeePriorityTransactions), ids make the layout of ties visible.

Ops (every result ends with the whole underlying array `[e,e,...]`, `[]` when empty)
  reset <min|max|nonce|gen>  -> ok []   (min = txpool.FeeMinHeap, max = txpool.FeeMaxHeap, nonce = txpool.NonceMinHeap,
                                         gen = generator.FeePriorityTransactions: `>` on the priorities)
  load <elist>               set the underlying array WITHOUT heapifying      -> ok <array>
  init                       heap.Init                                       -> ok <array>
  push <e>                   heap.Push                                       -> ok <array>
  pop                        heap.Pop                                        -> <e> <array> | panic <array>
  remove <i>                 heap.Remove                                     -> <e> <array> | panic <array>
  fix <i> <e>                a[i] = e; heap.Fix(i)   (i out of range: panic, array unchanged) -> ok <array> | panic <array>
  isheap                     invariant on the current array                  -> true|false <array>
  drain                      pop until empty (array is emptied)              -> <elist> []
-/
import Driver.Common
import LiskVerif.Model.GoHeap

namespace Driver.GoHeap
open LiskVerif LiskVerif.GoHeap

abbrev Elem := Nat × Nat

structure St where
  maxMode : Bool := false
  a : Array Elem := #[]

def lessOf (m : Bool) : Elem → Elem → Bool := fun x y => if m then decide (x.1 > y.1) else decide (x.1 < y.1)

def showE (e : Elem) : String := toString e.1 ++ ":" ++ toString e.2

def showL (l : List Elem) : String := "[" ++ ",".intercalate (l.map showE) ++ "]"

def parseE (s : String) : Option Elem :=
  match s.splitOn ":" with
  | [p, i] => match p.toNat?, i.toNat? with
    | some p, some i => some (p, i)
    | _, _ => none
  | _ => none

def parseL (s : String) : Option (List Elem) :=
  let s := if s.startsWith "[" && s.endsWith "]" then ((s.drop 1).dropEnd 1).toString else s
  if s == "" then some []
  else (s.splitOn ",").mapM parseE

def step (st : St) (w : List String) : St × String :=
  let less := lessOf st.maxMode
  let arr := fun (a : Array Elem) => showL a.toList
  match w with
  | ["reset", "min"] => ({ maxMode := false, a := #[] }, "ok []")
  | ["reset", "max"] => ({ maxMode := true, a := #[] }, "ok []")
  | ["reset", "nonce"] => ({ maxMode := false, a := #[] }, "ok []")   -- txpool.NonceMinHeap (ids are all 0)
  | ["reset", "gen"] => ({ maxMode := true, a := #[] }, "ok []")      -- generator.FeePriorityTransactions
  | ["load", l] =>
    match parseL l with
    | some l => ({ st with a := l.toArray }, "ok " ++ showL l)
    | none => (st, "bad-op")
  | ["init"] => let a := init less st.a; ({ st with a := a }, "ok " ++ arr a)
  | ["push", e] =>
    match parseE e with
    | some e => let a := push less st.a e; ({ st with a := a }, "ok " ++ arr a)
    | none => (st, "bad-op")
  | ["pop"] =>
    match pop less st.a with
    | some (a, x) => ({ st with a := a }, showE x ++ " " ++ arr a)
    | none => (st, "panic " ++ arr st.a)
  | ["remove", i] =>
    match i.toNat? with
    | some i =>
      match remove less st.a i with
      | some (a, x) => ({ st with a := a }, showE x ++ " " ++ arr a)
      | none => (st, "panic " ++ arr st.a)
    | none => (st, "bad-op")
  | ["fix", i, e] =>
    match i.toNat?, parseE e with
    | some i, some e =>
      if i ≥ st.a.size then (st, "panic " ++ arr st.a)   -- the assignment a[i] = e panics first
      else
        match fix less (st.a.setIfInBounds i e) i with
        | some a => ({ st with a := a }, "ok " ++ arr a)
        | none => (st, "panic " ++ arr st.a)
    | _, _ => (st, "bad-op")
  | ["isheap"] => (st, toString (isHeap less st.a) ++ " " ++ arr st.a)
  | ["drain"] => ({ st with a := #[] }, showL (drain less st.a) ++ " []")
  | _ => (st, "bad-op")

def main : IO Unit := Driver.run ({} : St) step

end Driver.GoHeap
