/-
Driver of C12DUR (harness/c12/durable.go): the C12 op sequences on a database that is flushed, compacted, closed
and reopened. The model of C12 is a finite map: storage maintenance is NOT an operation of it - `flush` / `compact`
answer `ok` and change nothing, `reopen` only ends the life of the staged store (a staged store does not survive
its database handle). That the real pebble behaves like this map across maintenance is the claim
(`Props/C12_Durable.lean` over `Model/KeyHistory.lean`).

Ops next to those of `Driver/DiffDB.lean`: `dreset <mode> <root> <kvs>`, `flush`, `compact`, `reopen <0|1>`,
`commits` / `reverts` (a stack of commits), `dbset <k> <v>` / `dbdel <k>` / `rawbatch <items>` (writes to the
database next to the staged store, on keys outside its prefix).
-/
import Driver.DiffDB

namespace Driver.DiffDBDur
open LiskVerif LiskVerif.DiffDB Driver.DiffDB

structure DD where
  d : DSt := {}
  stack : List Diff := []

/-- `s:<k>:<v>` / `d:<k>` items of a raw batch -/
def parseItems (s : String) : Option (List BOp) :=
  (s.splitOn ",").mapM fun item =>
    match item.splitOn ":" with
    | ["s", k, v] => do
      let k ← hexArg k
      let v ← hexArg v
      pure (BOp.set k v)
    | ["d", k] => do
      let k ← hexArg k
      pure (BOp.del k)
    | _ => none

def withStore (s : DD) (f : Store → Store) : DD :=
  { s with d := { s.d with st := { s.d.st with store := f s.d.st.store } } }

def step (s : DD) (w : List String) : DD × String :=
  let bad := (s, "bad-op")
  match w with
  | ["dreset", _, r, kvs] =>
    let (d', o) := Driver.DiffDB.step s.d ["reset", r, kvs]
    ({ d := d', stack := [] }, o)
  | ["reset", _, _] => bad
  | ["flush"] => (s, "ok")
  | ["compact"] => (s, "ok")
  | ["reopen", _] => ({ s with d := { s.d with st := { store := s.d.st.store }, vsnaps := [], vcounts := [] } }, "ok")
  | ["commits"] =>
    let (st', df) := commit s.d.st
    ({ d := { s.d with st := st', lastDiff := none }, stack := df :: s.stack }, showDiff df ++ " | " ++ dump st'.store)
  | ["reverts"] =>
    match s.stack with
    | df :: rest =>
      let s' := revertDiff s.d.st.store df
      ({ d := { s.d with st := { store := s' }, lastDiff := none }, stack := rest }, dump s')
    | [] => (s, "err")
  | ["commit"] =>
    let (d', o) := Driver.DiffDB.step s.d w
    ({ d := d', stack := [] }, o)
  | ["dbset", k, v] =>
    match hexArg k, hexArg v with
    | some k, some v => (withStore s (fun st => sset st k v), "ok")
    | _, _ => bad
  | ["dbdel", k] =>
    match hexArg k with
    | some k => (withStore s (fun st => sdel st k), "ok")
    | none => bad
  | ["rawbatch", items] =>
    match parseItems items with
    | some b => (withStore s (fun st => applyBatch st b), "ok")
    | none => bad
  | _ =>
    let (d', o) := Driver.DiffDB.step s.d w
    ({ s with d := d' }, o)

def main : IO Unit := Driver.run ({} : DD) step

end Driver.DiffDBDur
