/-
Line-protocol driver of `LiskVerif.Roots` (pseudo-property ROOTS, run as part of C03): the derived commitments
of a block — event encoding / keys / root, validators hash, transaction and asset root, IDs, signing bytes and
signed messages of transactions, headers and certificates — computed by the model on the regenerated schema
table with SHA-256.

Byte strings are hex (`-` = empty); `<list>` = `_` (no element) or `x,y,...` (elements hex, `-` = empty element).
Numbers are decimal; uint32 / uint64 ranges are enforced (otherwise `bad-op`, nothing changes).

  reset <idSize:4|8>                                        -> ok                     (no events, transactions, assets;
                                                               idSize = length of what the real Event.UpdateID returns:
                                                               4 as the code is, 8 with fixes/C03-event-id-not-stored.patch)
  event <module> <name> <data> <topics:list> <height> <index>
                                                            -> enc=<hex> id=<hex> keys=<list> valid=<ok|err>   (appended)
  setevent <i> <module> <name> <data> <topics> <height> <index>   same output (replaces event i)
  swapevents <i> <j> | delevent <i>                         -> ok
  updateindex                                               -> idx=<i0,i1,..|_>       (Events.UpdateIndex)
  eventroot                                                 -> root=<hex> pairs=<n> distinct=<m>
  vhash <threshold> <key:weight,...|_>                      -> h=<hex> | amb <h1,h2,...> | amb-too-large
  tx <module> <command> <nonce> <fee> <senderPublicKey> <params> <signatures:list>
                                                            -> id=<hex> size=<n> sb=<hex> valid=<ok|err>      (appended)
  txmsg <i> <chainID>                                       -> msg=<hex>
  asset <module> <data>                                     -> enc=<hex>              (appended)
  sortassets                                                -> mods=<list>            (BlockAssets.Sort)
  assets                                                    -> valid=<ok|err> root=<hex>
  txroot                                                    -> root=<hex>
  block <chainID> <version> <timestamp> <height> <prev> <gen> <txRoot> <assetRoot> <eventRoot> <stateRoot>
        <maxHeightPrevoted> <maxHeightGenerated> <impliesMaxPrevotes:0|1> <validatorsHash> <ac:_|height:bits:sig> <signature>
                                                            -> id=<hex> sb=<hex> msg=<hex> hvalid=<ok|err> validate=<ok|err>
                                                               cert=<hex> certmsg=<hex>
-/
import Driver.Common
import LiskVerif.Model.Roots
import LiskVerif.Model.Sha256
import LiskVerif.Gen.Schemas

namespace Driver.Roots
open LiskVerif LiskVerif.Codec LiskVerif.Roots

def T : Table := Gen.allSchemas
def N : NFC := asciiNFC
def H : HashFn := Sha256.hash

structure DSt where
  events : List Event := []
  txs : List Tx := []
  assets : List Asset := []
  idSize : Nat := 4

def natArg (s : String) : Option Nat :=
  let cs := s.toList
  if cs.isEmpty || !cs.all (fun c => '0' ≤ c && c ≤ '9') then none
  else some (cs.foldl (fun n c => n * 10 + (c.toNat - 48)) 0)

def u32Arg (s : String) : Option Nat :=
  match natArg s with
  | some n => if n < 4294967296 then some n else none
  | none => none

def u64Arg (s : String) : Option Nat :=
  match natArg s with
  | some n => if n < 18446744073709551616 then some n else none
  | none => none

def listArg (s : String) : Option (List Bytes) :=
  if s == "_" then some [] else (s.splitOn ",").mapM hexArg

def showList (l : List Bytes) : String :=
  if l.isEmpty then "_" else String.intercalate "," (l.map Hex.encode)

def okErr (b : Bool) : String := if b then "ok" else "err"

def parseEvent (m n d tp h i : String) : Option Event := do
  let m ← hexArg m
  let n ← hexArg n
  let d ← hexArg d
  let tp ← listArg tp
  let h ← u32Arg h
  let i ← u32Arg i
  pure { module := m, name := n, data := d, topics := tp, height := h, index := i }

def showEvent (idSize : Nat) (e : Event) : String :=
  "enc=" ++ Hex.encode (e.encode T N) ++ " id=" ++ Hex.encode (e.updateIDWith idSize)
    ++ " keys=" ++ showList ((e.keyPairs T N H).map (·.1)) ++ " valid=" ++ okErr e.validate

def parseValidators (s : String) : Option (List Validator) :=
  if s == "_" then some [] else
    (s.splitOn ",").mapM fun item =>
      match item.splitOn ":" with
      | [k, w] => do
        let k ← hexArg k
        let w ← u64Arg w
        pure { key := k, weight := w }
      | _ => none

def parseAC (s : String) : Option (Option AggCommit) :=
  if s == "_" then some none else
    match s.splitOn ":" with
    | [h, b, g] => do
      let h ← u32Arg h
      let b ← hexArg b
      let g ← hexArg g
      pure (some { height := h, bits := b, sig := g })
    | _ => none

def swapAt {α : Type} (l : List α) (i j : Nat) : List α :=
  match l[i]?, l[j]? with
  | some a, some b => (l.set i b).set j a
  | _, _ => l

def step (d : DSt) (w : List String) : DSt × String :=
  let bad := (d, "bad-op")
  match w with
  | ["reset", sz] =>
    if sz == "4" then ({ idSize := updateIDSize }, "ok")
    else if sz == "8" then ({ idSize := updateIDSizeFixed }, "ok")
    else bad
  | ["event", m, n, dt, tp, h, i] =>
    match parseEvent m n dt tp h i with
    | some e => ({ d with events := d.events ++ [e] }, showEvent d.idSize e)
    | none => bad
  | ["setevent", k, m, n, dt, tp, h, i] =>
    match natArg k, parseEvent m n dt tp h i with
    | some k, some e => if k < d.events.length then ({ d with events := d.events.set k e }, showEvent d.idSize e) else bad
    | _, _ => bad
  | ["swapevents", i, j] =>
    match natArg i, natArg j with
    | some i, some j =>
      if i < d.events.length ∧ j < d.events.length then ({ d with events := swapAt d.events i j }, "ok") else bad
    | _, _ => bad
  | ["delevent", i] =>
    match natArg i with
    | some i => if i < d.events.length then ({ d with events := d.events.eraseIdx i }, "ok") else bad
    | none => bad
  | ["updateindex"] =>
    let evs := updateIndex d.events
    ({ d with events := evs },
      "idx=" ++ (if evs.isEmpty then "_" else String.intercalate "," (evs.map fun e => toString e.index)))
  | ["eventroot"] =>
    let kps := allKeyPairs T N H d.events
    (d, "root=" ++ Hex.encode (eventRoot T N H d.events) ++ " pairs=" ++ toString kps.length
      ++ " distinct=" ++ toString (SMT.dedupFirst kps).length)
  | ["vhash", thr, vs] =>
    match u64Arg thr, parseValidators vs with
    | some thr, some vs =>
      if !vhAmbiguous vs then (d, "h=" ++ Hex.encode (validatorsHash T N H vs thr))
      else if vhArrangementBound vs > 64 then (d, "amb-too-large")
      else (d, "amb " ++ String.intercalate "," ((admissibleHashes T N H vs thr).map Hex.encode))
    | _, _ => bad
  | ["tx", m, c, nonce, fee, spk, params, sigs] =>
    match hexArg m, hexArg c, u64Arg nonce, u64Arg fee, hexArg spk, hexArg params, listArg sigs with
    | some m, some c, some nonce, some fee, some spk, some params, some sigs =>
      let x : Tx := {
        module := m, command := c, nonce := nonce, fee := fee, senderPublicKey := spk,
        params := params, signatures := sigs }
      ({ d with txs := d.txs ++ [x] },
        "id=" ++ Hex.encode (x.id T N H) ++ " size=" ++ toString (x.size T N)
          ++ " sb=" ++ Hex.encode (x.signingBytes T N) ++ " valid=" ++ okErr x.validate)
    | _, _, _, _, _, _, _ => bad
  | ["txmsg", i, chain] =>
    match natArg i, hexArg chain with
    | some i, some chain =>
      match d.txs[i]? with
      | some x => (d, "msg=" ++ Hex.encode (x.signMessage T N H chain))
      | none => bad
    | _, _ => bad
  | ["asset", m, dt] =>
    match hexArg m, hexArg dt with
    | some m, some dt =>
      let a : Asset := { module := m, data := dt }
      ({ d with assets := d.assets ++ [a] }, "enc=" ++ Hex.encode (a.encode T N))
    | _, _ => bad
  | ["sortassets"] =>
    let as := sortAssets d.assets
    ({ d with assets := as }, "mods=" ++ showList (as.map (·.module)))
  | ["assets"] =>
    (d, "valid=" ++ okErr (assetsValid d.assets) ++ " root=" ++ Hex.encode (assetRoot T N H d.assets))
  | ["txroot"] => (d, "root=" ++ Hex.encode (txRoot T N H d.txs))
  | ["block", chain, ver, ts, ht, prv, gen, txr, asr, evr, str, mhp, mhg, imp, vh, ac, sig] =>
    match hexArg chain, u32Arg ver, u32Arg ts, u32Arg ht, hexArg prv, hexArg gen, hexArg txr, hexArg asr with
    | some chain, some ver, some ts, some ht, some prv, some gen, some txr, some asr =>
      match hexArg evr, hexArg str, u32Arg mhp, u32Arg mhg, boolArg imp, hexArg vh, parseAC ac, hexArg sig with
      | some evr, some str, some mhp, some mhg, some imp, some vh, some ac, some sig =>
        let h : Header := {
          version := ver, timestamp := ts, height := ht, previousBlockID := prv,
          generatorAddress := gen, transactionRoot := txr, assetRoot := asr, eventRoot := evr, stateRoot := str,
          maxHeightPrevoted := mhp, maxHeightGenerated := mhg, impliesMaxPrevotes := imp, validatorsHash := vh,
          aggregateCommit := ac, signature := sig }
        (d, "id=" ++ Hex.encode (h.id T N H) ++ " sb=" ++ Hex.encode (h.signingBytes T N)
          ++ " msg=" ++ Hex.encode (h.signMessage T N H chain) ++ " hvalid=" ++ okErr h.validate
          ++ " validate=" ++ okErr (blockValidate T N H h d.txs d.assets)
          ++ " cert=" ++ Hex.encode (certSigningBytes T N H h)
          ++ " certmsg=" ++ Hex.encode (certSignMessage T N H chain h))
      | _, _, _, _, _, _, _, _ => bad
    | _, _, _, _, _, _, _, _ => bad
  | _ => bad

def main : IO Unit := Driver.run ({} : DSt) step

end Driver.Roots
