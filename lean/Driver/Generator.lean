import Driver.Common
import LiskVerif.Model.Generator
import LiskVerif.Model.Boundary

/-! Line-protocol driver for C15 (pkg/generator). See /verif/harness/c15/c15.go for the protocol. -/

namespace Driver.Generator
open LiskVerif LiskVerif.Generator LiskVerif.Boundary

structure DSt where
  gs : GState := {}
  maxSize : Nat := 0
  /-- payload limit of the node's block verification (`reset chain … vmax=`; the node harness keeps the
  engine default of 15 KiB without the key) -/
  verMax : Nat := 15360

/-- `s:n:f:p:z:v:e` — sender, nonce, fee, (parameter padding, ignored), size, verify byte, execute byte -/
def parseTx (id : Nat) (s : String) : Option Tx :=
  match (s.splitOn ":").map String.toNat? with
  | [some sd, some n, some f, some _, some z, some v, some e] =>
    some { id := id, sender := sd, nonce := n, fee := f, size := z,
           vok := v == 0, eok := e == 0 || e == 3 }
  | _ => none

def parseTxsAux : Nat → List String → Option (List Tx)
  | _, [] => some []
  | i, x :: r => do
    let t ← parseTx i x
    let rest ← parseTxsAux (i + 1) r
    pure (t :: rest)

def parseTxs (s : String) : Option (List Tx) :=
  if s == "-" then some [] else parseTxsAux 0 (s.splitOn ",")

def parseIdx (s : String) : Option (List Nat) :=
  if s == "-" then some [] else (s.splitOn ",").mapM String.toNat?

def showIdx (l : List Tx) : String :=
  if l.isEmpty then "-" else String.intercalate "," (l.map fun t => toString t.id)

def kvNat (key : String) (w : List String) : Option Nat :=
  w.findSome? fun x =>
    match x.splitOn "=" with
    | [k, v] => if k == key then v.toNat? else none
    | _ => none

def showInfo (infos : List (Nat × Info)) (v : Nat) : String :=
  match infos.find? (fun p => p.1 == v) with
  | some p => s!"info={p.2.height}/{p.2.mhg}"
  | none => "info=none"

def addr (v : Nat) : Bytes := [UInt8.ofNat v]

def forgeOp (d : DSt) (v : Nat) (txs : List Tx) (o : Outcome) : DSt × String :=
  let h := mkHeader addr d.gs v
  let sel := select okMock d.maxSize txs
  -- the payload rule of `verifyBlock` (Model/Boundary.lean `payloadVerdict`): a block above the verifier's
  -- limit is handed on but not applied (only reachable when `vmax` is below `maxsize`)
  let o := if o == .applied && (payloadVerdict d.verMax sel).isSome then Outcome.dropped else o
  let gs' := applyOp .fixed addr d.gs (.forge v o 0)
  let acc := if o == .applied then "1" else "0"
  ({ d with gs := gs' },
   s!"forged h={h.height} mhg={h.maxHeightGenerated} {showInfo gs'.infos v} sel={showIdx sel} acc={acc}")

def step (d : DSt) (w : List String) : DSt × String :=
  let bad := (d, "bad-op")
  match w with
  | "reset" :: "sel" :: _ => ({}, "ok")
  | "reset" :: "chain" :: rest =>
    match kvNat "maxsize" rest with
    | some m =>
      let vm := match kvNat "vmax" rest with
        | some x => if x == 0 then 15360 else x
        | none => 15360
      ({ maxSize := m, verMax := vm }, "ok")
    | none => bad
  | ["vprobe", _, txs] =>
    -- a block of another generator carrying the whole pool, given to `verifyBlock` only
    match parseTxs txs with
    | some txs =>
      (d, s!"vprobe total={payloadTotal txs} acc={if (payloadVerdict d.verMax txs).isSome then 0 else 1}")
    | none => bad
  | ["sel", m, txs] =>
    match m.toNat?, parseTxs txs with
    | some m, some txs =>
      let r := select okMock m txs
      (d, s!"sel {showIdx r} size={(r.map (·.size)).sum}")
    | _, _ => bad
  | ["selt", m, txs, claimed] =>
    match m.toNat?, parseTxs txs, parseIdx claimed with
    | some m, some txs, some idx =>
      match idx.mapM (fun i => txs[i]?) with
      | some r => (d, if checkSel m txs r then "valid" else "invalid")
      | none => (d, "invalid")
    | _, _, _ => bad
  | ["ext", _] =>
    let gs' := applyOp .fixed addr d.gs (.ext 0)
    ({ d with gs := gs' }, s!"h={gs'.height}")
  | ["del", k] =>
    match k.toNat? with
    | some k =>
      let gs' := applyOp .fixed addr d.gs (.del k 0)
      ({ d with gs := gs' }, s!"h={gs'.height}")
    | none => bad
  | ["forge", v, txs] =>
    match v.toNat?, parseTxs txs with
    | some v, some txs => forgeOp d v txs .applied
    | _, _ => bad
  | ["forge", v, txs, _vc] =>
    -- `vc=…`: the application answers AfterTransactionsExecute of this block with a validator /
    -- threshold change; the header bookkeeping and the selection do not depend on it and the
    -- generated block is valid (Props/C15_Accept.lean: C15_forged_block_accepted_with_validator_change)
    match v.toNat?, parseTxs txs with
    | some v, some txs => forgeOp d v txs .applied
    | _, _ => bad
  | ["forgedrop", v, txs] =>
    match v.toNat?, parseTxs txs with
    | some v, some txs => forgeOp d v txs .dropped
    | _, _ => bad
  | ["forgecrash", v, txs] =>
    match v.toNat?, parseTxs txs with
    | some v, some txs =>
      let (d', out) := forgeOp d v txs .dropped
      ({ d' with gs := applyOp .fixed addr d'.gs .restart }, out)
    | _, _ => bad
  | ["restart"] => ({ d with gs := applyOp .fixed addr d.gs .restart }, "ok")
  | ["crash"] => ({ d with gs := applyOp .fixed addr d.gs .restart }, "ok")
  | ["info", v] =>
    match v.toNat? with
    | some v => (d, showInfo d.gs.infos v)
    | none => bad
  | ["certify", _] => (d, "ok")
  | _ => bad

def main : IO Unit := Driver.run ({} : DSt) step

end Driver.Generator
