import Driver.Common
import LiskVerif.Model.BFT
import LiskVerif.Model.BFTU32
import LiskVerif.Gen.Fns

namespace Driver.BFT
open LiskVerif LiskVerif.BFT

def showInfos (l : List BlockInfo) : String :=
  String.join (l.map fun b => s!" {b.height}:{Hex.encode b.gen}:{b.mhg}:{b.mhp}:{b.prevoteWeight}:{b.precommitWeight}")

def showActive (l : List ActiveVal) : String :=
  String.join (l.map fun a => s!" {Hex.encode a.address}:{a.minActiveHeight}:{a.largestHeightPrecommit}")

def sortByKey {α : Type} (l : List (Nat × α)) : List (Nat × α) := l.mergeSort (fun a b => a.1 ≤ b.1)

def showParams (l : List (Nat × Params)) : String :=
  String.join ((sortByKey l).map fun e =>
    s!" {e.1}={e.2.prevoteThreshold}/{e.2.precommitThreshold}/{e.2.certificateThreshold}[" ++
      String.intercalate "," (e.2.validators.map fun v => s!"{Hex.encode v.address}:{v.weight}") ++ "]")

def showKeys (l : List (Nat × List Bytes)) : String :=
  String.join ((sortByKey l).map fun e => s!" {e.1}=[" ++ String.intercalate "," (e.2.map Hex.encode) ++ "]")

def dump (s : State) : String :=
  s!"{s.mhp} {s.mhpc} {s.mhc} |" ++ showInfos s.infos ++ " |" ++ showActive s.active ++ " |" ++
    showParams s.params ++ " |" ++ showKeys s.keys

def parseValidators (s : String) : Option (List Validator) :=
  if s == "-" then some [] else
  (s.splitOn ",").mapM fun item =>
    match item.splitOn ":" with
    | [a, w] => do
      let a ← Hex.decode? a
      let w ← w.toNat?
      pure { address := a, weight := w }
    | _ => none

def parseAddrs (s : String) : Option (List Bytes) :=
  if s == "-" then some [] else (s.splitOn ",").mapM Hex.decode?

def parseHeader (h g mhg mhp c : String) : Option Header := do
  let h ← h.toNat?
  let g ← Hex.decode? g
  let mhg ← mhg.toNat?
  let mhp ← mhp.toNat?
  let c ← if c == "-" then some none else c.toNat?.map some
  pure { height := h, gen := g, mhg := mhg, mhp := mhp, commitHeight := c }

def step1 (s : State) (w : List String) : State × String :=
  match w with
  | ["reset", bs, gh] =>
    match bs.toNat?, gh.toNat? with
    | some bs, some gh => (initGenesis bs gh, "ok")
    | _, _ => (s, "bad-op")
  | ["setparams", pc, cert, vals] =>
    match pc.toNat?, cert.toNat?, parseValidators vals with
    | some pc, some cert, some vals =>
      match setParams s pc cert vals with
      | .ok s' => (s', "ok " ++ dump s')
      | .error _ => (s, "err")
    | _, _, _ => (s, "bad-op")
  | ["setkeys", addrs] =>
    match parseAddrs addrs with
    | some a => let s' := setKeys s a; (s', "ok " ++ dump s')
    | none => (s, "bad-op")
  | ["block", h, g, mhg, mhp, c] =>
    match parseHeader h g mhg mhp c with
    | some hd =>
      -- `processU32`: `process` with Go's `uint32` behaviour at height / certified height 2^32-1
      match processU32 s hd with
      | .ok s' => (s', "ok " ++ dump s')
      | .error _ => (s, "err")
    | none => (s, "bad-op")
  | ["contra", h, g, mhg, mhp] =>
    match parseHeader h g mhg mhp "-" with
    | some hd => (s, toString (contradicting Gen.areDistinctHeadersContradicting s hd))
    | none => (s, "bad-op")
  | ["implies", h, g, mhg] =>
    match parseHeader h g mhg "0" "-" with
    | some hd => (s, match impliesMaxPrevotes s hd with | some b => toString b | none => "err")
    | none => (s, "bad-op")
  | ["getparams", h] =>
    match h.toNat? with
    | some h => (s, match getParams s h with
      | some p => s!"{p.prevoteThreshold}/{p.precommitThreshold}/{p.certificateThreshold}[" ++
          String.intercalate "," (p.validators.map fun v => s!"{Hex.encode v.address}:{v.weight}") ++ "]"
      | none => "none")
    | none => (s, "bad-op")
  | ["nextparams", h] =>
    match h.toNat? with
    | some h => (s, match nextHeightParamsU32 s h with | some k => toString k | none => "none")
    | none => (s, "bad-op")
  | _ => (s, "bad-op")

/-- Driver state: the BFT state plus, for every block on the chain, the state before it was
processed (what `revert` — deletion of the tip block — goes back to). -/
structure DState where
  cur : State
  stack : List State

/-- `revert` deletes the tip block: the state saved before that block is restored (the block's vote
update and the parameters / keys set while it was the tip are undone). `restart` (new module object
over the same store) and `tryblock` (candidate processed on a staged store which is dropped) do not
change the state: the model has no state besides the store. -/
def step (d : DState) (w : List String) : DState × String :=
  match w with
  | ["revert"] =>
    match d.stack with
    | p :: rest => ({ cur := p, stack := rest }, "ok " ++ dump p)
    | [] => (d, "err")
  | ["restart"] => (d, "ok " ++ dump d.cur)
  | ["tryblock", h, g, mhg, mhp, c] =>
    match parseHeader h g mhg mhp c with
    | some hd =>
      match processU32 d.cur hd with
      | .ok s' => (d, "ok " ++ dump s')
      | .error _ => (d, "err")
    | none => (d, "bad-op")
  | "reset" :: _ =>
    let (s', out) := step1 d.cur w
    ({ cur := s', stack := [] }, out)
  | "block" :: _ =>
    let (s', out) := step1 d.cur w
    if out.startsWith "ok " then ({ cur := s', stack := d.cur :: d.stack }, out) else ({ d with cur := s' }, out)
  | _ =>
    let (s', out) := step1 d.cur w
    ({ d with cur := s' }, out)

def main : IO Unit := Driver.run ({ cur := initGenesis 1 0, stack := [] } : DState) step

end Driver.BFT
