import Driver.Common
import LiskVerif.Model.Codec
import LiskVerif.Model.CodecNFC
import LiskVerif.Gen.Schemas

/-! Driver of the pseudo-property C08NFC: the codec interpreter with NFC instantiated by the table
raw ↦ nfc the harness computed with x/text (see harness/c08/nfc.go for the ops). -/

namespace Driver.CodecNFC
open LiskVerif LiskVerif.Codec LiskVerif.Gen LiskVerif.CodecNFC

def parsePair (s : String) : Option (Bytes × Bytes) :=
  match s.splitOn ":" with
  | [a, b] =>
    match Hex.decode? a, Hex.decode? b with
    | some x, some y => some (x, y)
    | _, _ => none
  | _ => none

def parsePairs (s : String) : Option Tab := (s.splitOn ",").mapM parsePair

/-- `Decode1` of the harness: decode (lenient / strict) and re-encode -/
def dec1 (nfc : NFC) (strict : Bool) (s : Schema) (b : Bytes) : String :=
  let r := if strict then decodeStrict allSchemas nfc s b else decode allSchemas nfc s b
  match r with
  | .ok vals => "ok " ++ Hex.encode (encode allSchemas nfc s vals)
  | .error e => "err " ++ e.name

def encOp (name tplHex pairs : String) : String :=
  match allSchemas.find name, Hex.decode? tplHex, parsePairs pairs with
  | some s, some tpl, some tab =>
    match decode allSchemas asciiNFC s tpl with
    | .error e => "err " ++ e.name
    | .ok vals =>
      -- the Go value: string i of the table in place of placeholder i
      let ph : Tab := (List.range tab.length).zip (tab.map (·.1)) |>.map fun (i, raw) => (placeholder i, raw)
      let vals' := substFields allSchemas (lookup ph) 8 s.enc vals
      let nfc := tabNFC tab
      let e := encode allSchemas nfc s vals'
      "ok " ++ Hex.encode e ++ " | " ++ dec1 nfc false s e ++ " | " ++ dec1 nfc true s e
  | _, _, _ => "bad-op"

def decOp (name hex pairs : String) : String :=
  match allSchemas.find name, Hex.decode? hex, parsePairs pairs with
  | some s, some b, some tab =>
    let nfc := tabNFC tab
    dec1 nfc false s b ++ " " ++ dec1 nfc true s b
  | _, _, _ => "bad-op"

def step (_ : Unit) (w : List String) : Unit × String :=
  let r : String :=
    match w with
    | ["reset"] => "ok"
    | ["enc", name, tpl, pairs] => encOp name tpl pairs
    | ["nfd", name, hex, pairs] => decOp name hex pairs
    | _ => "bad-op"
  ((), r)

def main : IO Unit := Driver.run () step

end Driver.CodecNFC
