import Driver.Common
import LiskVerif.Gen.Fns
import LiskVerif.Gen.Fns2

namespace Driver.Fns
open LiskVerif LiskVerif.Gen

def natArg (s : String) : Option Nat := s.toNat?

def classify (c : FC) : String :=
  if fcIsIdenticalBlock c then "identical"
  else if fcIsValidBlock c then "extendsTip"
  else if fcIsDoubleForging c then "doubleForging"
  else if fcIsTieBreak c then "tieBreak"
  else if fcIsDifferentChain c then "betterChain"
  else "discard"

def nowSlot : Nat := 50

def mkHdr (f : List String) : Option Hdr :=
  match f with
  | [h, p, id, prev, gen, slot] => do
    let h ← natArg h
    let p ← natArg p
    let id ← hexArg id
    let prev ← hexArg prev
    let gen ← hexArg gen
    let slot ← natArg slot
    pure { height := h, maxHeightPrevoted := p, id := id, previousBlockID := prev, generatorAddress := gen,
           timestamp := slot, maxHeightGenerated := 0 }
  | _ => none

def step (_ : Unit) (w : List String) : Unit × String :=
  let r : String :=
    match w with
    | ["reset"] => "ok"
    | ["contra", h1, a1, g1, p1, h2, a2, g2, p2] =>
      match natArg h1, hexArg a1, natArg g1, natArg p1, natArg h2, hexArg a2, natArg g2, natArg p2 with
      | some h1, some a1, some g1, some p1, some h2, some a2, some g2, some p2 =>
        toString (areDistinctHeadersContradicting
          { height := h1, generatorAddress := a1, maxHeightGenerated := g1, maxHeightPrevoted := p1 }
          { height := h2, generatorAddress := a2, maxHeightGenerated := g2, maxHeightPrevoted := p2 })
      | _, _, _, _, _, _, _, _ => "bad-op"
    | ["diffchain", a, b, c, d] =>
      match natArg a, natArg b, natArg c, natArg d with
      | some a, some b, some c, some d => toString (isDifferentChain a b c d)
      | _, _, _, _ => "bad-op"
    | ["prio", v, hh, hp, height, mhp] =>
      match natArg v, natArg hh, natArg hp, natArg height, natArg mhp with
      | some v, some hh, some hp, some height, some mhp =>
        toString (headerHasPriority { version := v, height := hh, maxHeightPrevoted := hp, generatorAddress := [],
                                      maxHeightGenerated := 0 } height mhp 0)
      | _, _, _, _, _ => "bad-op"
    | "fc" :: rest =>
      if rest.length != 13 then "bad-op" else
      match mkHdr (rest.take 6), mkHdr ((rest.drop 6).take 6) with
      | some last, some cur =>
        let recvLast := rest.getD 12 "nil"
        let recvLastIn : Bool := if recvLast == "nil" then true else recvLast.toNat? == some last.timestamp
        let c : FC := { lastHeader := last, currentHeader := cur, slot := { getSlotNumber := fun t => (t : Int) },
                        receivedBlockWithinForgingSlot := cur.timestamp == nowSlot,
                        receivedLastBlockWithinForgingSlot := recvLastIn }
        s!"{fcIsIdenticalBlock c} {fcIsValidBlock c} {fcIsDoubleForging c} {fcIsTieBreak c} {fcIsDifferentChain c} {classify c}"
      | _, _ => "bad-op"
    -- the slot calculator: constructor + GetSlotNumber + GetSlotTime, all regenerated (Gen/Fns2.lean)
    | ["slot", g, bt, t] =>
      match natArg g, natArg bt, natArg t with
      | some g, some bt, some t =>
        match newBlockSlotGenesis g bt, newBlockSlotBlockTime g bt with
        | some g', some bt' =>
          let n := getSlotNumber t g' bt'
          s!"{n} {getSlotTime n g' bt'}"
        | _, _ => "panic"
      | _, _, _ => "bad-op"
    | ["slott", g, bt, k] =>
      match natArg g, natArg bt, k.toInt? with
      | some g, some bt, some k =>
        match newBlockSlotGenesis g bt, newBlockSlotBlockTime g bt with
        | some g', some bt' => s!"{getSlotTime k g' bt'}"
        | _, _ => "panic"
      | _, _, _ => "bad-op"
    -- fork choice with explicit unix times: header timestamps, receive time of the tip (or nil) and of the block
    | "fct" :: g :: bt :: rest =>
      if rest.length != 14 then "bad-op" else
      match natArg g, natArg bt, mkHdr (rest.take 6), mkHdr ((rest.drop 6).take 6), natArg (rest.getD 13 "") with
      | some g, some bt, some last, some cur, some recvCur =>
        let recvLast := rest.getD 12 "nil"
        match newBlockSlotGenesis g bt, newBlockSlotBlockTime g bt with
        | some g', some bt' =>
          let c : FC := { lastHeader := last, currentHeader := cur,
                          slot := { getSlotNumber := fun t => getSlotNumber t g' bt' },
                          receivedBlockWithinForgingSlot := fcReceivedBlockWithinForgingSlot recvCur cur.timestamp g' bt',
                          receivedLastBlockWithinForgingSlot :=
                            fcReceivedLastBlockWithinForgingSlot (recvLast == "nil") ((recvLast.toNat?).getD 0) last.timestamp g' bt' }
          s!"{fcIsIdenticalBlock c} {fcIsValidBlock c} {fcIsDoubleForging c} {fcIsTieBreak c} {fcIsDifferentChain c} {classify c}"
        | _, _ => "panic"
      | _, _, _, _, _ => "bad-op"
    | _ => "bad-op"
  ((), r)

def main : IO Unit := Driver.run () step

end Driver.Fns
