/-
Line-protocol driver for `LiskVerif.Emitter` (model of pkg/event), pseudo-property EMITTER.

Ops (one output line each; after a panic every op answers `dead` until the next `reset`):
  reset [..]                 event.New()                                   -> ok
  newchan                    make(chan interface{})                        -> <id>
  on <topic> <id>            On(topic, ch)                                 -> ok
  sub <topic>                Subscribe(topic)                              -> <id>
  pub <topic> <m>            Publish(topic, m)                             -> ok | panic
  emit <topic> <m>           Emit(topic, m)                                -> ok | panic
  burst <topic> <m0> <n>     n publications m0, m0+1, … back to back       -> ok | panic
  close                      Close()                                       -> ok | panic
  unsuball <topic>           UnsubscribeAll(topic)                         -> ok | notfound | panic
  unsub <topic> <id>         Unsubscribe(topic, ch)                        -> ok | notfound | panic
  recv <id>                  what the channel's receiver got so far        -> m1,m2,… | -
  state                      registrations / keys / closed channels        -> subs=t:c,… topics=… closed=…
-/
import Driver.Common
import LiskVerif.Model.Emitter

namespace Driver.Emitter
open LiskVerif LiskVerif.Emitter

def natArg (s : String) : Option Nat :=
  let cs := s.toList
  if cs.isEmpty || !cs.all (fun c => '0' ≤ c && c ≤ '9') then none
  else some (cs.foldl (fun n c => n * 10 + (c.toNat - 48)) 0)

def joinOrDash (l : List String) : String := if l.isEmpty then "-" else String.intercalate "," l

def sortStr (l : List String) : List String := isort (fun a b => decide (a ≤ b)) l

def fin (s s' : St) (okOut : String) : St × String :=
  if s'.dead then (s', "panic") else (s', okOut)

def burst (s : St) (t : String) : Nat → Nat → St
  | _, 0 => s
  | m, n + 1 => let s' := step s (.publish t m); burst s' t (m + 1) n

def step' (s : St) (w : List String) : St × String :=
  match w with
  | "reset" :: _ => ({}, "ok")
  | _ =>
  if s.dead then (s, "dead") else
  match w with
  | ["newchan"] => let r := newChan s; (r.1, toString r.2)
  | ["on", t, c] =>
    match natArg c with
    | some c => if c < s.next then (on s t c, "ok") else (s, "bad-op")
    | none => (s, "bad-op")
  | ["sub", t] => let r := subscribe s t; (r.1, toString r.2)
  | ["pub", t, m] | ["emit", t, m] =>
    match natArg m with
    | some m => fin s (publish s t m) "ok"
    | none => (s, "bad-op")
  | ["burst", t, m, n] =>
    match natArg m, natArg n with
    | some m, some n => fin s (burst s t m n) "ok"
    | _, _ => (s, "bad-op")
  | ["close"] => fin s (closeAll s) "ok"
  | ["unsuball", t] =>
    let r := unsubscribeAll s t
    fin s r.1 (if r.2 == .ok then "ok" else "notfound")
  | ["unsub", t, c] =>
    match natArg c with
    | some c =>
      if c < s.next then
        let r := unsubscribe s t c
        fin s r.1 (if r.2 == .ok then "ok" else "notfound")
      else (s, "bad-op")
    | none => (s, "bad-op")
  | ["recv", c] =>
    match natArg c with
    | some c => (s, joinOrDash ((s.recvOf c).map toString))
    | none => (s, "bad-op")
  | ["state"] =>
    (s, "subs=" ++ joinOrDash (s.subs.map fun p => p.1 ++ ":" ++ toString p.2)
      ++ " topics=" ++ joinOrDash (sortStr s.topics)
      ++ " closed=" ++ joinOrDash ((isort (fun a b => decide (a ≤ b)) s.closed).map toString))
  | _ => (s, "bad-op")

def main : IO Unit := Driver.run ({} : St) step'

end Driver.Emitter
