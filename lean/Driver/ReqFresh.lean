/-
C17FRESH driver: the responder of Model/ReqFresh.lean with a FRESH writer per request (what Props/C17_Fresh.lean
proves about the code).  Every request of a case gets the next serial number; its handler script is given by
the mode of the request and produces payload / error TOKENS equal to the serial, so an answer names the
request each of its two parts was produced for.

  reset ...                     serial numbers start again
  seq  f:t:proc:mode:size:es …  the requests are served one after the other
  par  f:t:proc:mode:size:es …  all are started, their handler calls interleave round-robin, the responses are
                                sent in reverse order
  check                         `kept=<n> seen=<n>`: one kept response and one handler run per request

Output per request: `d=<serial|-> e=<serial|->` — the owner of the payload and of the error of the response.
-/
import Driver.Common
import LiskVerif.Model.ReqFresh

namespace Driver.ReqFresh
open LiskVerif LiskVerif.ReqFresh

structure DSt where
  serial : Nat := 0

def script (mode : String) (n : Nat) : Option (List (HAct Nat Nat)) :=
  if mode == "data" then some [.write n]
  else if mode == "err" then some [.error n]
  else if mode == "both" then some [.write n, .error n]
  else if mode == "errdata" then some [.error n, .write n]
  else if mode == "none" then some []
  else none

def modeOf (r : String) : Option String :=
  match r.splitOn ":" with
  | [_, _, _, m, _, _] => some m
  | _ => none

def showOpt : Option Nat → String
  | none => "-"
  | some n => toString n

def render (w : Writer Nat Nat) : String := s!"d={showOpt w.data} e={showOpt w.err}"

/-- requests with their serials and scripts (none: malformed) -/
def plan (first : Nat) : List String → List (Option (Nat × List (HAct Nat Nat)))
  | [] => []
  | r :: rest =>
    (match modeOf r with
     | some m => (script m first).map (fun sc => (first, sc))
     | none => none) :: plan (first + 1) rest

def answerOf (s : State Nat Nat) (id : Nat) : String :=
  match s.sent.find? (fun x => x.id == id) with
  | some x => render x.w
  | none => "lost"

def outputs (s : State Nat Nat) (pl : List (Option (Nat × List (HAct Nat Nat)))) : String :=
  " ".intercalate (pl.map (fun e => match e with
    | some (id, _) => answerOf s id
    | none => "bad-op"))

def seqSchedule : List (Nat × List (HAct Nat Nat)) → List (Action Nat Nat)
  | [] => []
  | (id, sc) :: rest => (.start id sc :: sc.map (fun _ => .act id)) ++ (.finish id :: seqSchedule rest)

def parSchedule (l : List (Nat × List (HAct Nat Nat))) : List (Action Nat Nat) :=
  l.map (fun e => .start e.1 e.2)
    ++ (l.map (fun e => Action.act e.1)) ++ (l.reverse.map (fun e => Action.act e.1))
    ++ l.reverse.map (fun e => .finish e.1)

def step (st : DSt) (ws : List String) : DSt × String :=
  match ws with
  | "reset" :: _ => ({ serial := 0 }, "ok")
  | "seq" :: rs =>
    let pl := plan (st.serial + 1) rs
    let good := pl.filterMap id
    let s := LiskVerif.ReqFresh.run .fresh ({} : State Nat Nat) (seqSchedule good)
    ({ serial := st.serial + rs.length }, outputs s pl)
  | "par" :: rs =>
    let pl := plan (st.serial + 1) rs
    let good := pl.filterMap id
    let s := LiskVerif.ReqFresh.run .fresh ({} : State Nat Nat) (parSchedule good)
    ({ serial := st.serial + rs.length }, outputs s pl)
  | ["check"] => (st, s!"kept={st.serial} seen={st.serial}")
  | _ => (st, "bad-op")

def main : IO Unit := Driver.run ({} : DSt) step

end Driver.ReqFresh
