/-
Line-protocol driver for the pseudo-property C03CONV (Model/Convert.lean): the contract between the
application's validator list and what the engine stores / uses.

A list is `_` (empty) or `<address>:<weight>:<generatorKey>:<blsKey>,…` (hex, `-` = empty bytes).

  reset <batchSize> <precommit> <cert> <list> <go-side configuration>
                                -> ok | err        (a node whose genesis validators are the list: ExecuteGenesis)
  conv <list>                   -> bft=<address:weight:blsKey,…|_> gen=<address:generatorKey,…|_> w=<sum of the BFT weights>
                                   (GetBFTValidatorAndGenerators)
  owner <slot> <list>           -> <address>:<generatorKey> | panic
                                   (SetGeneratorKeys / GetGeneratorKeys keep the list; Generators.AtTimestamp = vs[slot % len(vs)])
  back <list>                   -> <list>          (GetLabiValidators of the two results: labi.Consensus.CurrentValidators)
  stored <precommit> <cert> <list>
                                -> h=<activation height> keys=<address,…|_> vals=<address:weight,…|_> thr=<prevote>/<precommit>/<cert> | err
                                   (Executer.SetBFTParameters on a staged store of that node, read back with
                                   GetGeneratorKeys / GetBFTParameters for the activation height; the store is discarded)
  vhash <certThreshold> <list>  -> h=<hex> | amb   (the validatorsHash SetBFTParameters stores for the list;
                                   amb: two voting entries share a BLS key with different weights — sort.Slice is not stable)
-/
import Driver.Common
import LiskVerif.Model.Convert
import LiskVerif.Model.Sha256
import LiskVerif.Gen.Schemas

namespace Driver.Convert
open LiskVerif LiskVerif.Convert

def bytesArg (s : String) : Option Bytes := if s == "-" then some [] else Hex.decode? s

def showBytes (b : Bytes) : String := if b.isEmpty then "-" else Hex.encode b

def parseEntry (s : String) : Option AppValidator :=
  match s.splitOn ":" with
  | [a, w, g, k] => do
    let a ← bytesArg a
    let w ← w.toNat?
    let g ← bytesArg g
    let k ← bytesArg k
    if w < 18446744073709551616 then pure { address := a, weight := w, generatorKey := g, blsKey := k } else none
  | _ => none

def parseList (s : String) : Option (List AppValidator) :=
  if s == "_" then some [] else (s.splitOn ",").mapM parseEntry

def showList (l : List String) : String := if l.isEmpty then "_" else String.intercalate "," l

def showBFT (v : BFTValidator) : String := s!"{showBytes v.address}:{v.weight}:{showBytes v.blsKey}"
def showGen (g : Generator) : String := s!"{showBytes g.address}:{showBytes g.generatorKey}"
def showApp (v : AppValidator) : String :=
  s!"{showBytes v.address}:{v.weight}:{showBytes v.generatorKey}:{showBytes v.blsKey}"

def showStored (base s' : BFT.State) : String :=
  let h := keyHeight base
  let keys := match BFT.getKeys s' h with
    | some ks => showList (ks.map showBytes)
    | none => "none"
  match BFT.getParams s' h with
  | some p =>
    s!"h={h} keys={keys} vals={showList (p.validators.map fun v => s!"{showBytes v.address}:{v.weight}")} " ++
      s!"thr={p.prevoteThreshold}/{p.precommitThreshold}/{p.certificateThreshold}"
  | none => s!"h={h} keys={keys} vals=none"

def step (st : BFT.State) (w : List String) : BFT.State × String :=
  match w with
  | ["reset", bs, pc, cert, l, _goConfig] =>
    match bs.toNat?, pc.toNat?, cert.toNat?, parseList l with
    | some bs, some pc, some cert, some app =>
      match applyApp (BFT.initGenesis bs 0) pc cert app with
      | some s => (s, "ok")
      | none => (BFT.initGenesis bs 0, "err")
    | _, _, _, _ => (st, "bad-op")
  | ["stored", pc, cert, l] =>
    match pc.toNat?, cert.toNat?, parseList l with
    | some pc, some cert, some app =>
      match applyApp st pc cert app with
      | some s' => (st, showStored st s')
      | none => (st, "err")
    | _, _, _ => (st, "bad-op")
  | ["conv", l] =>
    match parseList l with
    | some app =>
      let r := convert app
      (st, s!"bft={showList (r.1.map showBFT)} gen={showList (r.2.map showGen)} w={(r.1.map (·.weight)).sum}")
    | none => (st, "bad-op")
  | ["owner", slot, l] =>
    match slot.toNat?, parseList l with
    | some slot, some app =>
      match engineOwner app slot with
      | some g => (st, showGen g)
      | none => (st, "panic")
    | _, _ => (st, "bad-op")
  | ["back", l] =>
    match parseList l with
    | some app => (st, showList ((roundTrip app).map showApp))
    | none => (st, "bad-op")
  | ["vhash", cert, l] =>
    match cert.toNat?, parseList l with
    | some cert, some app =>
      if cert ≥ 18446744073709551616 then (st, "bad-op")
      else if Roots.vhAmbiguous (hashInput app) then (st, "amb")
      else (st, "h=" ++ Hex.encode (engineValidatorsHash Gen.allSchemas Codec.asciiNFC Sha256.hash app cert))
    | _, _ => (st, "bad-op")
  | _ => (st, "bad-op")

def main : IO Unit := Driver.run (BFT.initGenesis 1 0) step

end Driver.Convert
