/-
C17 driver: executes the scenario ops of the harness on the interleaving model of the fixed
request/response protocol (`LiskVerif.ReqResp.step`) — every op is mapped to the schedule (list of
model actions) that the harness forces on the real code — and prints the outcome class.
-/
import Driver.Common
import LiskVerif.Model.ReqResp

namespace Driver.ReqResp
open LiskVerif LiskVerif.ReqResp

/-- bookkeeping mirrored by the harness (not part of the model) -/
structure ReqInfo where
  /-- the first `short` attempts run with the short timeout, later ones with the long one -/
  short : Nat
  /-- (request id, gate already released) per attempt, oldest first -/
  attempts : List (Nat × Bool)

structure DSt where
  st : State := init
  info : List ReqInfo := []

def P (id : Nat) : Nat := id

def nat? (s : String) : Option Nat := s.toNat?

def runA (s : State) (l : List Action) : Option State := LiskVerif.ReqResp.run P s l

def pcOf (s : State) (k : Nat) : Option RPc := (s.reqs[k]?).map (·.pc)
def waiting (s : State) (k : Nat) : Bool := pcOf s k == some .wait

/-- run handler `j` to completion (at most 4 statements) -/
def runHdl (s : State) (j : Nat) : Nat → Option State
  | 0 => some s
  | fuel + 1 =>
    match s.hdls[j]? with
    | some h => if h.pc == .done then some s else
      match LiskVerif.ReqResp.step P s (.hStep j) with
      | some s' => runHdl s' j fuel
      | none => none
    | none => none

/-- the remote answers request `id`, the network delivers it, `onResponse` runs to completion -/
def deliverOne (s : State) (id : Nat) : Option State := do
  let j := s.hdls.length
  let s ← runA s [.nRespond id, .nDeliver 0]
  runHdl s j 4

def deliverN (s : State) (id : Nat) : Nat → Option State
  | 0 => some s
  | n + 1 => do
    let s ← deliverOne s id
    deliverN s id n

/-- statements of requester `k` from the top of an attempt up to the `select` -/
def toWait (s : State) (k : Nat) : Option State :=
  runA s [.rStep k, .rStep k, .rStep k, .rStep k, .rSendOk k]

/-- unregister sequence after the select -/
def unreg (s : State) (k : Nat) : Option State :=
  runA s [.rStep k, .rStep k, .rStep k]

def curAttempt (i : ReqInfo) : Option (Nat × Bool) := i.attempts.getLast?

def setInfo (d : DSt) (k : Nat) (i : ReqInfo) : DSt := { d with info := d.info.set k i }

def addAttempt (i : ReqInfo) (id : Nat) (released : Bool) : ReqInfo :=
  { i with attempts := i.attempts ++ [(id, released)] }

def releaseCur (i : ReqInfo) : ReqInfo :=
  { i with attempts := i.attempts.set (i.attempts.length - 1) ((i.attempts.getLast?.map (·.1)).getD 0, true) }

def outcomeWord (s : State) (k : Nat) : String :=
  match s.reqs[k]? with
  | some r =>
    match r.out with
    | some (.got m) => if m.rid == r.id && m.payload == P r.id then "ok" else "miscorrelated"
    | some .timeout => "timeout"
    | some .cancelled => "cancelled"
    | some .sendErr => "senderr"
    | none => "none"
  | none => "none"

/-- after the unregister sequence of a timed-out attempt: either the retry loop starts the next
attempt (which runs up to its select) or the call returns -/
def afterTimeout (d : DSt) (s : State) (k : Nat) (i : ReqInfo) : DSt × String :=
  match pcOf s k with
  | some .start =>
    match toWait s k with
    | some s' =>
      let id := ((s'.reqs[k]?).map (·.id)).getD 0
      (setInfo { d with st := s' } k (addAttempt i id false), "retry")
    | none => (d, "model-stuck")
  | some .done => ({ d with st := s }, outcomeWord s k)
  | _ => (d, "model-stuck")

/-- the current attempt of request `k` runs with the short timeout -/
def isShort (i : ReqInfo) : Bool := i.attempts.length ≤ i.short

/-- index of a request that waits in its select with the short timeout (it will time out by itself:
only `timeout k` / `race k` may be scheduled then) -/
def shortWaiting (d : DSt) : Option Nat :=
  (List.range d.info.length).find? fun k =>
    waiting d.st k && ((d.info[k]?).map isShort).getD false

def skeletonLine : String :=
  "sendRequestMessage=" ++ renderList skelSendRequestMessage ++ " onResponse=" ++ renderList skelOnResponse

def step (d : DSt) (w : List String) : DSt × String :=
  let bad := (d, "bad")
  let stuck := (d, "model-stuck")
  match w with
  | ["reset"] => ({}, "ok")
  | ["skeleton"] => (d, skeletonLine)
  | "stress" :: _ => if (shortWaiting d).isSome then bad else (d, "done")
  | ["len"] => if (shortWaiting d).isSome then bad else (d, "len " ++ toString d.st.resCh.length)
  | ["start", mode, sh] =>
    match nat? sh with
    | some sh =>
      if (mode != "once" && mode != "retry") || sh > 4 || d.info.length ≥ 16 || (shortWaiting d).isSome then bad else
      let k := d.st.reqs.length
      match runA d.st [.spawn (if mode == "retry" then 3 else 0)] >>= (toWait · k) with
      | some s =>
        let id := ((s.reqs[k]?).map (·.id)).getD 0
        ({ st := s, info := d.info ++ [{ short := sh, attempts := [(id, false)] }] }, "started")
      | none => stuck
    | none => bad
  | ["fast", mode, n] =>
    match nat? n with
    | some n =>
      if (mode != "once" && mode != "retry") || n > 3 || d.info.length ≥ 16 || (shortWaiting d).isSome then bad else
      let k := d.st.reqs.length
      let u0 := d.st.unknown.length
      match runA d.st [.spawn (if mode == "retry" then 3 else 0)] >>= (toWait · k) with
      | some s =>
        let id := ((s.reqs[k]?).map (·.id)).getD 0
        match deliverN s id (if n == 0 then 1 else n) >>= (runA · [.rRecv k]) >>= (unreg · k) with
        | some s' =>
          ({ st := s', info := d.info ++ [{ short := 0, attempts := [(id, n == 0)] }] },
            outcomeWord s' k ++ " unknown=" ++ toString (s'.unknown.length - u0))
        | none => stuck
      | none => stuck
    | none => bad
  | ["respond", k] =>
    match nat? k with
    | some k =>
      match d.info[k]? with
      | some i =>
        match curAttempt i with
        | some (id, false) =>
          if !waiting d.st k || (shortWaiting d).isSome then bad else
          match deliverOne d.st id >>= (runA · [.rRecv k]) >>= (unreg · k) with
          | some s => (setInfo { d with st := s } k (releaseCur i), outcomeWord s k)
          | none => stuck
        | _ => bad
      | none => bad
    | none => bad
  | ["timeout", k] =>
    match nat? k with
    | some k =>
      match d.info[k]? with
      | some i =>
        match curAttempt i with
        | some (_, false) =>
          if !waiting d.st k || !isShort i then bad else
          match runA d.st [.rTimeout k] >>= (unreg · k) with
          | some s => afterTimeout d s k i
          | none => stuck
        | _ => bad
      | none => bad
    | none => bad
  | ["cancel", k] =>
    match nat? k with
    | some k =>
      match d.info[k]? with
      | some i =>
        match curAttempt i with
        | some (_, false) =>
          if !waiting d.st k || (shortWaiting d).isSome then bad else
          match runA d.st [.rCancel k] >>= (unreg · k) with
          | some s => ({ d with st := s }, outcomeWord s k)
          | none => stuck
        | _ => bad
      | none => bad
    | none => bad
  | ["inject", k, a, n] =>
    match nat? k, nat? a, nat? n with
    | some k, some a, some n =>
      match d.info[k]? with
      | some i =>
        match i.attempts[a]? with
        | some (id, released) =>
          if n == 0 || n > 3 || (shortWaiting d).isSome then bad else
          let cur := waiting d.st k && a + 1 == i.attempts.length
          if cur && released then bad else
          let u0 := d.st.unknown.length
          if cur then
            match deliverOne d.st id >>= (runA · [.rRecv k]) >>= (unreg · k) >>= (deliverN · id (n - 1)) with
            | some s => ({ d with st := s }, outcomeWord s k ++ " unknown=" ++ toString (s.unknown.length - u0))
            | none => stuck
          else
            match deliverN d.st id n with
            | some s => ({ d with st := s }, "- unknown=" ++ toString (s.unknown.length - u0))
            | none => stuck
        | none => bad
      | none => bad
    | _, _, _ => bad
  | ["late", k, a] =>
    match nat? k, nat? a with
    | some k, some a =>
      match d.info[k]? with
      | some i =>
        match i.attempts[a]? with
        | some (id, false) =>
          if (waiting d.st k && a + 1 == i.attempts.length) || (shortWaiting d).isSome then bad else
          let u0 := d.st.unknown.length
          match deliverOne d.st id with
          | some s =>
            (setInfo { d with st := s } k { i with attempts := i.attempts.set a (id, true) },
              if s.unknown.length == u0 + 1 then "miss" else "hit")
          | none => stuck
        | _ => bad
      | none => bad
    | _, _ => bad
  | ["race", k, order] =>
    match nat? k with
    | some k =>
      match d.info[k]? with
      | some i =>
        match curAttempt i with
        | some (id, false) =>
          if !waiting d.st k || !isShort i || (order != "hfirst" && order != "rfirst") then bad else
          let j := d.st.hdls.length
          -- the requester leaves its select by timeout; the response reaches onResponse; then both
          -- compete for resMu
          match runA d.st [.rTimeout k, .nRespond id, .nDeliver 0] with
          | some s =>
            let r := if order == "hfirst" then runHdl s j 4 >>= (unreg · k) else unreg s k >>= (runHdl · j 4)
            match r with
            | some s' => afterTimeout d s' k i
            | none => stuck
          | none => stuck
        | _ => bad
      | none => bad
    | none => bad
  | _ => (d, "bad-op")

def main : IO Unit := Driver.run ({} : DSt) step

end Driver.ReqResp
