/-
Driver ops for objects with a cached identity (Model/CodecLife.lean), C08:

  life tx|hdr <encoding> <source> <step>...
      source: bytes (NewTransaction / NewBlockHeader) | lit (Decode, no Init) | json=<id|-> | jsonsz=<id|->
      step:   init | copy | set=<fieldNumber>=<value> | addsig=<hex> | sign=<signature>[=…]
              | setsig=<index>=<hex>   (element of the signatures array replaced; no-op beyond the end)
              a value `nil` (Go: nil byte string / nil array element) is the empty byte string of the model:
              absent and empty are identified by the encoder
      output: ok then, per source/step, <cached id>/<cached size>/<first 8 bytes of hash(Encode())>
  blkjson <header encoding> <header id|-> <tx encoding>:<id|->,… | -
      a Block unmarshalled from JSON, then Block.Init; output: ok <header id> <tx id>/<size>,… | -
-/
import Driver.Common
import LiskVerif.Model.CodecLife
import LiskVerif.Gen.Schemas
import LiskVerif.Model.Sha256

namespace Driver.CodecLife
open LiskVerif LiskVerif.Codec LiskVerif.Gen LiskVerif.Validators LiskVerif.CodecLife

def T : Table := allSchemas

def schemaOf (kind : String) : String :=
  if kind == "tx" then "blockchain.Transaction" else "blockchain.BlockHeader"

def show1 (kind : String) (o : Obj) : String :=
  Hex.encode o.id ++ "/" ++ toString (if kind == "tx" then o.size else 0) ++ "/" ++
    Hex.encode ((Sha256.hash (encoding T asciiNFC o)).take 8)

def fieldAt : List Field → Nat → Nat → Option (Nat × Kind)
  | [], _, _ => none
  | f :: fs, num, i => if f.num == num then some (i, f.kind) else fieldAt fs num (i + 1)

/-- hex, `-` (empty) or `nil` (Go nil: encodes as the empty byte string) -/
def bytesOrNil (s : String) : Option Bytes :=
  if s == "nil" then some [] else Hex.decode? s

def setVal (k : Kind) (s : String) : Option Value :=
  match k with
  | .uint | .uint32 => s.toNat?.map Value.uint
  | .bool => if s == "1" then some (.bool true) else if s == "0" then some (.bool false) else none
  | .bytes => (bytesOrNil s).map Value.bytes
  | .string => (Hex.decode? s).map Value.bytes
  | _ => none

/-- the first word after the encoding: where the object comes from -/
def source (kind : String) (enc : Bytes) (w : String) : Option (Except Err Obj) :=
  let name := schemaOf kind
  let lenient := decodeNamed T asciiNFC false name enc
  match w.splitOn "=" with
  | ["bytes"] =>
    -- NewTransaction: DecodeStrict + Init; NewBlockHeader: Decode + ID
    match decodeNamed T asciiNFC (kind == "tx") name enc with
    | .error e => some (.error e)
    | .ok vals => some (.ok (init T asciiNFC Sha256.hash (load name vals [])))
  | ["lit"] =>
    match lenient with
    | .error e => some (.error e)
    | .ok vals => some (.ok (load name vals []))
  | [j, idHex] =>
    if j == "json" || j == "jsonsz" then
      match lenient, Hex.decode? idHex with
      | .error e, _ => some (.error e)
      | .ok vals, some id => some (.ok (load name vals id))
      | _, none => none
    else none
  | _ => none

def parseStep (o : Obj) (w : String) : Option Step :=
  match T.find o.schema with
  | none => none
  | some s =>
    match w.splitOn "=" with
    | ["init"] => some .init
    | ["copy"] => some .copy
    | ["set", num, v] =>
      match num.toNat? with
      | none => none
      | some n =>
        match fieldAt s.enc n 0 with
        | none => none
        | some (i, k) => (setVal k v).map (Step.set i)
    | ["addsig", hex] =>
      -- append to the `signatures` array of a transaction (field 7)
      match fieldAt s.enc 7 0, bytesOrNil hex with
      | some (i, .bytesArr), some sig =>
        match o.vals[i]? with
        | some (.bytesArr l) => some (.set i (.bytesArr (l ++ [sig])))
        | _ => none
      | _, _ => none
    | ["setsig", idx, hex] =>
      -- assignment to one element of the `signatures` array
      match fieldAt s.enc 7 0, bytesOrNil hex, idx.toNat? with
      | some (i, .bytesArr), some sig, some k =>
        match o.vals[i]? with
        | some (.bytesArr l) => some (.set i (.bytesArr (l.set k sig)))
        | _ => none
      | _, _, _ => none
    | "sign" :: hex :: _ =>
      match fieldAt s.enc 15 0, Hex.decode? hex with
      | some (i, .bytes), some sig => some (.sign i sig)
      | _, _ => none
    | _ => none

def runSteps (kind : String) : Obj → List String → String → String
  | _, [], acc => acc
  | o, w :: rest, acc =>
    match parseStep o w with
    | none => "bad-op"
    | some st =>
      let o' := step T asciiNFC Sha256.hash o st
      runSteps kind o' rest (acc ++ " " ++ show1 kind o')

def life (kind encHex : String) (words : List String) : String :=
  match Hex.decode? encHex, words with
  | some enc, src :: steps =>
    match source kind enc src with
    | none => "bad-op"
    | some (.error e) => "err " ++ e.name
    | some (.ok o) => runSteps kind o steps ("ok " ++ show1 kind o)
  | _, _ => "bad-op"

def parseTx (w : String) : Option Obj :=
  match w.splitOn ":" with
  | [encHex, idHex] =>
    match Hex.decode? encHex, Hex.decode? idHex with
    | some enc, some id =>
      match decodeNamed T asciiNFC false "blockchain.Transaction" enc with
      | .ok vals => some (load "blockchain.Transaction" vals id)
      | .error _ => none
    | _, _ => none
  | _ => none

def blkjson (hdrHex hidHex txs : String) : String :=
  match Hex.decode? hdrHex, Hex.decode? hidHex with
  | some henc, some hid =>
    match decodeNamed T asciiNFC false "blockchain.BlockHeader" henc with
    | .error e => "err " ++ e.name
    | .ok hvals =>
      let txObjs := if txs == "-" then some [] else (txs.splitOn ",").mapM parseTx
      match txObjs with
      | none => "bad-op"
      | some l =>
        let (h, l') := blockInit T asciiNFC Sha256.hash (load "blockchain.BlockHeader" hvals hid) l
        "ok " ++ Hex.encode h.id ++ " " ++
          (if l'.isEmpty then "-" else ",".intercalate (l'.map fun o => Hex.encode o.id ++ "/" ++ toString o.size))
  | _, _ => "bad-op"

end Driver.CodecLife
