import Driver.Common
import LiskVerif.Model.Cert

/-!
Line-protocol driver for C06 (certificates).  Op vocabulary: see harness/c06/c06.go.

The chain itself (blocks, finality) is produced by the real node on the Go side; the ops `params`
and `state` hand the abstract chain state to the model (the Go runner checks that they describe the
real node).  Own blocks have the abstract id `height`; foreign blocks `1000000 + height`; the own
chain id is 1, the foreign one 2.
-/
namespace Driver.Cert
open LiskVerif LiskVerif.Cert

structure DSt where
  holderKeys : List Nat := []
  tip : Nat := 0
  mhpc : Nat := 0
  mhc : Nat := 0
  rh : Nat := 0
  params : ParamStore := []
  pool : Pool := Pool.empty
  lastSel : List Commit := []
  /-- number of times the block at a height was replaced -/
  gens : List (Nat × Nat) := []
  /-- (tip, maxHeightCertified at that tip), newest first: deleting blocks restores the value of the new tip -/
  hist : List (Nat × Nat) := []
  /-- sync rule: the chain changed and no `state` op followed yet -/
  dirty : Bool := false
  /-- number of params / noparams ops since the reset -/
  np : Nat := 0

def genOf (gens : List (Nat × Nat)) (h : Nat) : Nat := ((gens.find? (fun e => e.1 == h)).map (·.2)).getD 0

/-- abstract id of the own block at a height -/
def DSt.ownId (d : DSt) (h : Nat) : Nat := h + 10000 * genOf d.gens h

def DSt.state (d : DSt) : State :=
  { chainId := 1
    blockAt := fun h => if h ≤ d.tip then some ⟨d.ownId h, if h = d.mhpc then d.rh else 0⟩ else none
    params := d.params
    mhpc := d.mhpc
    mhc := d.mhc }

/-- maxHeightCertified at the tip `t`: the newest record at or below it (0 at genesis) -/
def mhcAt (hist : List (Nat × Nat)) (t : Nat) : Nat := ((hist.find? (fun e => e.1 ≤ t)).map (·.2)).getD 0

/-- record the certified height of the tip `t` (records above `t` belong to deleted blocks) -/
def record (hist : List (Nat × Nat)) (t mhc : Nat) : List (Nat × Nat) := (t, mhc) :: hist.filter (fun e => e.1 < t)

/-- `k` more replacements for each of the heights `t, t-1, .., t-k+1` -/
def bumpGens (gens : List (Nat × Nat)) : Nat → Nat → List (Nat × Nat)
  | _, 0 => gens
  | t, k + 1 => bumpGens ((gens.filter (fun e => e.1 != t)) ++ [(t, genOf gens t + 1)]) (t - 1) k

def natList (s : String) : Option (List Nat) :=
  if s == "-" then some [] else (s.splitOn ",").mapM (·.toNat?)

def parseValidator (s : String) : Option Validator :=
  match s.splitOn ":" with
  | [a, k, w] =>
    match a.toNat?, k.toNat?, w.toNat? with
    | some a, some k, some w => some ⟨a, k, w⟩
    | _, _, _ => none
  | _ => none

def kv (s : String) (key : String) : Option String :=
  match s.splitOn "=" with
  | [k, v] => if k == key then some v else none
  | _ => none

def holderKey (d : DSt) (v : Nat) : Nat := d.holderKeys.getD v 999999

def foreignId (h : Nat) : Nat := 1000000 + h

/-- commit spec `v:h:variant` → (wf, block, height, signer, sig) -/
def parseCommit (d : DSt) (s : String) : Option Incoming :=
  match s.splitOn ":" with
  | [v, h, var] =>
    match v.toNat?, h.toNat? with
    | some v, some h =>
      let b := d.ownId h
      let own : Msg := ⟨1, b⟩
      let k := holderKey d v
      if var == "ok" then some ⟨true, b, h, v, sign k own⟩
      else if var == "fork" then some ⟨true, foreignId h, h, v, sign k ⟨1, foreignId h⟩⟩
      else if var == "wrongid" then some ⟨true, foreignId h, h, v, sign k own⟩
      else if var == "chain2" then some ⟨true, b, h, v, sign k ⟨2, b⟩⟩
      else if var == "garbage" || var == "inf" then some ⟨true, b, h, v, .garbage⟩
      else if var == "short" then some ⟨false, b, h, v, .garbage⟩
      else match kv var "sigby" with
        | some w => w.toNat?.map (fun w => ⟨true, b, h, v, sign (holderKey d w) own⟩)
        | none =>
          match kv var "relabel" with
          | some h2 => h2.toNat?.map (fun h2 =>
              if h2 ≤ d.tip then ⟨true, d.ownId h2, h, v, sign k ⟨1, d.ownId h2⟩⟩
              else ⟨true, foreignId h, h, v, sign k own⟩)
          | none => none
    | _, _ => none
  | _ => none

/-- signature spec: `-` | `garbage` | `S/<holders>/<own|fork|chain2>:<h>` -/
def parseSig (d : DSt) (s : String) : Option (Option Sig) :=
  if s == "-" then some none
  else if s == "garbage" || s == "inf" then some (some .garbage)
  else match s.splitOn "/" with
    | ["X", _, _] => some (some .garbage)
    | ["S", hs, m] =>
      match natList hs, m.splitOn ":" with
      | some (w0 :: ws), [kind, h] =>
        match h.toNat? with
        | some h =>
          let msg? : Option Msg :=
            if kind == "own" then some ⟨1, d.ownId h⟩ else if kind == "fork" then some ⟨1, foreignId h⟩
            else if kind == "chain2" then some ⟨2, d.ownId h⟩ else none
          msg?.map (fun msg => some (aggSigs (sign (holderKey d w0) msg) (ws.map (fun w => sign (holderKey d w) msg))))
        | none => none
      | _, _ => none
    | _ => none

def blockTag (d : DSt) (c : Commit) : String := if c.height ≤ d.tip ∧ c.block = d.ownId c.height then "o" else "f"

def commitStr (d : DSt) (c : Commit) : String :=
  toString c.height ++ ":" ++ toString c.signer ++ ":" ++ blockTag d c ++ ":" ++ (if c.internal then "1" else "0")

def commitLe (d : DSt) (a b : Commit) : Bool :=
  if a.height ≠ b.height then decide (a.height < b.height)
  else if a.signer ≠ b.signer then decide (a.signer < b.signer)
  else if blockTag d a ≠ blockTag d b then blockTag d a == "o"
  else (!a.internal) || b.internal

def joinOr (l : List String) : String := if l.isEmpty then "-" else String.intercalate "," l

def listStr (d : DSt) (l : List Commit) : String := joinOr ((isort (commitLe d) l).map (commitStr d))

def poolStr (d : DSt) (p : Pool) : String := "ng=" ++ listStr d p.nonGossiped ++ " g=" ++ listStr d p.gossiped

def verdictStr : Verdict → String
  | .accept => "accept"
  | .reject _ => "reject"
  | .error => "reject"

def vresStr : VRes → String
  | .accept => "accept"
  | .reject => "reject"
  | .ignore => "ignore"

def acStr (d : DSt) (ac : AggCommit) : String :=
  toString ac.height ++ " " ++ Hex.encode (Bits.toBytes ac.bits) ++ " " ++ verdictStr (verifyAggregateCommit d.state ac)

/-- effect of a block that carries `ac` and is otherwise valid -/
def applyBlock (d : DSt) (ac : AggCommit) : DSt × String :=
  match verifyAggregateCommit d.state ac with
  | .accept =>
    let d1 := { d with tip := d.tip + 1 }
    let d2 := if ac.isEmpty then d1 else { d1 with mhc := ac.height }
    ({ d2 with hist := record d2.hist d2.tip d2.mhc }, "applied")
  | _ => (d, "rejected")

def step0 (d : DSt) (w : List String) : DSt × String :=
  match w with
  | "reset" :: rest =>
    let keys := (rest.filterMap (fun a => kv a "keys")).head?.bind natList
    match keys with
    | some ks => ({ holderKeys := ks }, "ok")
    | none => ({}, "bad-reset")
  | ["params", k, thr, vals] =>
    match k.toNat?, thr.toNat?, (vals.splitOn ",").mapM parseValidator with
    | some k, some thr, some vs =>
      ({ d with params := (d.params.filter (fun e => e.1 != k)) ++ [(k, ⟨vs, thr⟩)] }, "ok")
    | _, _, _ => (d, "bad-op")
  | ["noparams", k] =>
    match k.toNat? with
    | some k => ({ d with params := d.params.filter (fun e => e.1 != k) }, "ok")
    | none => (d, "bad-op")
  | ["extend", _] => (d, "ok")
  | "change" :: _ => (d, "ok")
  | ["liveness", _] => (d, "ok")
  | ["state", tip, mhpc, mhc, rh, np] =>
    match tip.toNat?, mhpc.toNat?, mhc.toNat?, rh.toNat?, np.toNat? with
    | some tip, some mhpc, some mhc, some rh, some np =>
      if np ≠ d.np then (d, "unsynced")
      else if mhc ≠ d.mhc then (d, "mhc-diverged " ++ toString d.mhc)
      else ({ d with tip := tip, mhpc := mhpc, rh := rh, hist := record d.hist tip mhc, dirty := false }, "ok")
    | _, _, _, _, _ => (d, "bad-op")
  | "sc" :: specs =>
    match specs.mapM (parseCommit d) with
    | some ms =>
      let (p, v) := singleCommitValidator d.state d.pool ms
      ({ d with pool := p }, vresStr v)
    | none => (d, "bad-op")
  | ["raw", b] => (d, if b == "-" then "ignore" else "reject")
  | "certify" :: v :: f :: t :: opt =>
    match v.toNat?, f.toNat?, t.toNat? with
    | some v, some f, some t =>
      let keyHolder := match opt with
        | [o] => ((kv o "key").bind (·.toNat?)).getD v
        | _ => v
      let (p, ok) := certify d.state d.pool f t v (holderKey d keyHolder)
      ({ d with pool := p }, if ok then "ok" else "err")
    | _, _, _ => (d, "bad-op")
  | ["inject", spec, intern] =>
    match parseCommit d spec with
    | some m => ({ d with pool := d.pool.add { m.commit with internal := intern == "1" } }, "ok")
    | none => (d, "bad-op")
  | ["pool"] => (d, poolStr d d.pool)
  | "reorg" :: _ =>
    -- the certified height is the one below the replaced tip (the replacing block carries the empty commit)
    ({ d with gens := (d.gens.filter (fun e => e.1 != d.tip)) ++ [(d.tip, genOf d.gens d.tip + 1)],
              mhc := mhcAt d.hist (d.tip - 1), hist := d.hist.filter (fun e => e.1 < d.tip) }, "ok")
  | ["rewind", k] =>
    -- the k tip blocks are deleted: their heights get new block ids when they are filled again, the
    -- certified height is the one of the new tip (the consensus state of the deleted blocks is reverted)
    match k.toNat? with
    | some k =>
      let k := min k d.tip
      let t := d.tip - k
      ({ d with gens := bumpGens d.gens d.tip k, tip := t, mhc := mhcAt d.hist t, hist := d.hist.filter (fun e => e.1 ≤ t) }, "ok")
    | none => (d, "bad-op")
  | ["alt", _, "empty"] => (d, "ok")
  | ["alt", _, "change", _, _, _] => (d, "ok")
  | ["alt", _, "own"] =>
    match getAggregateCommit d.state d.pool with
    | .ok ac => applyBlock d ac
    | .err => (d, "err")
    | .panic => (d, "panic")
  | ["alt", _, "agg", h, bits, sig] =>
    match h.toNat?, Hex.decode? bits, parseSig d sig with
    | some h, some bs, some s => applyBlock d ⟨h, Bits.ofBytes bs, s⟩
    | _, _, _ => (d, "bad-op")
  -- `nv <holder> <t|h> ..`: a block of a chosen generator (standby generator, validator removed from the BFT
  -- set, header declaring maxHeightGenerated = height, ..).  What a block does to the certified height does
  -- not depend on who generated it or on whether its header implies votes: exactly `block` / `vblock`.
  | ["nv", _, _, "own"] =>
    match getAggregateCommit d.state d.pool with
    | .ok ac => applyBlock d ac
    | .err => (d, "err")
    | .panic => (d, "panic")
  | ["nv", _, _, "empty"] => applyBlock d (emptyCommit d.state)
  | ["nv", _, _, "agg", h, bits, sig] =>
    match h.toNat?, Hex.decode? bits, parseSig d sig with
    | some h, some bs, some s => applyBlock d ⟨h, Bits.ofBytes bs, s⟩
    | _, _, _ => (d, "bad-op")
  | ["restart"] => ({ d with pool := Pool.empty, lastSel := [] }, "ok")
  | ["clear"] => ({ d with pool := Pool.empty }, "ok")
  | ["cleanup"] =>
    match broadcastCleanup d.state d.pool with
    | some p => ({ d with pool := p }, poolStr d p)
    | none => (d, "err")
  | ["select", limit] =>
    match limit.toNat? with
    | some limit =>
      let (p, sel) := d.pool.select d.mhpc limit
      ({ d with pool := p, lastSel := sel }, joinOr (sel.map (commitStr d)))
    | none => (d, "bad-op")
  | ["upgrade"] =>
    let p := d.pool.upgrade d.lastSel
    ({ d with pool := p }, poolStr d p)
  | ["getac"] =>
    match getAggregateCommit d.state d.pool with
    | .ok ac => (d, acStr d ac)
    | .err => (d, "err")
    | .panic => (d, "panic")
  | ["block"] =>
    match getAggregateCommit d.state d.pool with
    | .ok ac => applyBlock d ac
    | .err => (d, "err")
    | .panic => (d, "panic")
  | [op, h, bits, sig] =>
    if op == "verify" || op == "vblock" then
      match h.toNat?, Hex.decode? bits, parseSig d sig with
      | some h, some bs, some s =>
        let ac : AggCommit := ⟨h, Bits.ofBytes bs, s⟩
        if op == "verify" then (d, verdictStr (verifyAggregateCommit d.state ac))
        else applyBlock d ac
      | _, _, _ => (d, "bad-op")
    else (d, "bad-op")
  | _ => (d, "bad-op")

/-- the sync rule of the line protocol (harness/c06/c06.go): `some d'` = the op runs on `d'`, `none` = `unsynced` -/
def syncRule (d : DSt) (w : List String) : Option DSt :=
  match w with
  | "params" :: _ => some { d with np := d.np + 1 }
  | "noparams" :: _ => some { d with np := d.np + 1 }
  | "extend" :: _ => some { d with dirty := true }
  | "change" :: _ => some { d with dirty := true }
  | "reorg" :: _ => some { d with dirty := true }
  | "rewind" :: _ => some { d with dirty := true }
  | "alt" :: _ :: "own" :: _ => if d.dirty then none else some d
  | "alt" :: _ :: "agg" :: _ => if d.dirty then none else some d
  | "alt" :: _ => some { d with dirty := true }
  | op :: _ =>
    if ["sc", "certify", "inject", "pool", "cleanup", "select", "upgrade", "getac", "block", "verify", "vblock", "nv"].contains op
      && d.dirty then none else some d
  | [] => some d

def step (d : DSt) (w : List String) : DSt × String :=
  match w with
  | "reset" :: _ => step0 d w
  | _ =>
    match syncRule d w with
    | some d' => step0 d' w
    | none => (d, "unsynced")

def main : IO Unit := Driver.run ({} : DSt) step

end Driver.Cert
