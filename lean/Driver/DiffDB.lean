import Driver.Common
import LiskVerif.Model.DiffDB
import LiskVerif.Model.DiffDBCommit
import LiskVerif.Model.DiffDBViews

namespace Driver.DiffDB
open LiskVerif LiskVerif.DiffDB

structure DSt where
  st : St := { store := [] }
  lastDiff : Option Diff := none
  root : Bytes := []
  -- snapshot tables of the view handles (Model/DiffDBViews.lean); emptied whenever the overlay's life ends
  vsnaps : List ((Bytes × Nat) × Cache) := []
  vcounts : List (Bytes × Nat) := []

def showKVs (l : List KV) (strip : Nat) : String :=
  if l.isEmpty then "-" else
    String.intercalate "," (l.map fun kv => Hex.encode (kv.1.drop strip) ++ "=" ++ Hex.encode kv.2)

def sortKV (l : List KV) : List KV := l.mergeSort kvLE

def dump (s : Store) : String := showKVs (sortKV s) 0

def parseKVs (s : String) : Option (List KV) :=
  if s == "-" then some [] else
    (s.splitOn ",").mapM fun item =>
      match item.splitOn "=" with
      | [k, v] => do
        let k ← Hex.decode? k
        let v ← Hex.decode? v
        pure (k, v)
      | _ => none

def showDiff (d : Diff) : String :=
  let ks := (d.added.mergeSort (fun a b => ble a b)).map Hex.encode
  "A:" ++ (if ks.isEmpty then "-" else String.intercalate "," ks)
    ++ " U:" ++ showKVs (sortKV d.updated) 0 ++ " D:" ++ showKVs (sortKV d.deleted) 0

/-- the batch a `Commit` handed to its writer: keys set (sorted, with values), keys deleted (sorted) -/
def showBatch (b : Batch) : String :=
  let ds := ((batchDels b).mergeSort (fun a b => ble a b)).map Hex.encode
  "S:" ++ showKVs (sortKV (batchSets b)) 0 ++ " X:" ++ (if ds.isEmpty then "-" else String.intercalate "," ds)

def step (d : DSt) (w : List String) : DSt × String :=
  let bad := (d, "bad-op")
  let hexArgP (s : String) : Option Bytes := (hexArg s).map (d.root ++ ·)
  match w with
  | ["reset", r, kvs] =>
    match hexArg r, parseKVs kvs with
    | some r, some l => ({ st := { store := l.foldl (fun s kv => sset s kv.1 kv.2) [] }, root := r }, "ok")
    | _, _ => bad
  | ["get", p, k] =>
    match hexArgP p, hexArg k with
    | some p, some k =>
      let (st', r) := get d.st (p ++ k)
      ({ d with st := st' }, match r with | some v => "some " ++ Hex.encode v | none => "none")
    | _, _ => bad
  | ["has", p, k] =>
    match hexArgP p, hexArg k with
    | some p, some k =>
      let (st', r) := get d.st (p ++ k)
      ({ d with st := st' }, if r.isSome then "true" else "false")
    | _, _ => bad
  | ["set", p, k, v] =>
    match hexArgP p, hexArg k, hexArg v with
    | some p, some k, some v => ({ d with st := set d.st (p ++ k) v }, "ok")
    | _, _, _ => bad
  | ["del", p, k] =>
    match hexArgP p, hexArg k with
    | some p, some k => ({ d with st := del d.st (p ++ k) }, "ok")
    | _, _ => bad
  | ["range", p, s, e, lim, rev] =>
    match hexArgP p, hexArg s, hexArg e, intArg lim, boolArg rev with
    | some p, some s, some e, some lim, some rev =>
      let (st', r) := range d.st (p ++ s) (p ++ e) lim rev
      ({ d with st := st' }, showKVs r p.length)
    | _, _, _, _, _ => bad
  | ["iter", p, pre, lim, rev] =>
    match hexArgP p, hexArg pre, intArg lim, boolArg rev with
    | some p, some pre, some lim, some rev =>
      let (st', r) := iterate d.st (p ++ pre) lim rev
      ({ d with st := st' }, showKVs r p.length)
    | _, _, _, _ => bad
  | ["snap"] =>
    let (st', id) := snapshot d.st
    ({ d with st := st' }, toString id)
  | ["restore", id] =>
    match id.toNat? with
    | some id =>
      let (st', ok) := restore d.st id
      ({ d with st := st' }, if ok then "ok" else "err")
    | none => bad
  | ["delsnap", id] =>
    match id.toNat? with
    | some id => ({ d with st := deleteSnapshot d.st id }, "ok")
    | none => bad
  | ["vsnap", p] =>
    -- Snapshot through the view handle with (relative) prefix p; `-` is the root handle
    match hexArg p with
    | some p =>
      let (v, id) := vsnapshot { st := d.st, vsnaps := d.vsnaps, vcounts := d.vcounts } p
      ({ d with st := v.st, vsnaps := v.vsnaps, vcounts := v.vcounts }, toString id)
    | none => bad
  | ["vrestore", p, id] =>
    match hexArg p, id.toNat? with
    | some p, some id =>
      let (v, ok) := vrestore { st := d.st, vsnaps := d.vsnaps, vcounts := d.vcounts } p id
      ({ d with st := v.st, vsnaps := v.vsnaps, vcounts := v.vcounts }, if ok then "ok" else "err")
    | _, _ => bad
  | ["vdelsnap", p, id] =>
    match hexArg p, id.toNat? with
    | some p, some id =>
      let v := vdelete { st := d.st, vsnaps := d.vsnaps, vcounts := d.vcounts } p id
      ({ d with st := v.st, vsnaps := v.vsnaps, vcounts := v.vcounts }, "ok")
    | _, _ => bad
  | ["commit"] =>
    let (st', df) := commit d.st
    ({ d with st := st', lastDiff := some df, vsnaps := [], vcounts := [] }, showDiff df ++ " | " ++ dump st'.store)
  | ["commitd"] =>
    -- Commit into a batch that is thrown away (dry run): the staged store stays in use
    let (st', b, df) := commitKeep d.st
    ({ d with st := st' }, showDiff df ++ " | " ++ showBatch b)
  | ["revert"] =>
    match d.lastDiff with
    | some df =>
      let s' := revertDiff d.st.store df
      ({ d with st := { store := s' }, lastDiff := none, vsnaps := [], vcounts := [] }, dump s')
    | none => (d, "err")
  | ["dbrange", s, e, lim, rev] =>
    match hexArg s, hexArg e, intArg lim, boolArg rev with
    | some s, some e, some lim, some rev => (d, showKVs (dbRange d.st.store s e lim rev) 0)
    | _, _, _, _ => bad
  | ["dbiter", p, lim, rev] =>
    match hexArg p, intArg lim, boolArg rev with
    | some p, some lim, some rev => (d, showKVs (dbIterate d.st.store p lim rev) 0)
    | _, _, _ => bad
  | ["dump"] => (d, dump d.st.store)
  | _ => bad

def main : IO Unit := Driver.run ({} : DSt) step

end Driver.DiffDB
