/-
C17CTX driver: the entry points of the request/response layer under every state of the caller's
context, executed on the sequential model Model/ReqRetry.lean.

  reset <n>                                   n answering peers are connected
  call <entry> <kind> <point> <target>
     entry  : send (one sendRequestMessage) | request | RequestFrom | Broadcast
     kind   : live | cancel | expire          (how the context ends; the model only knows "ended")
     point  : never | pre | send | wait | retry1 | retry2 | retry3
     target : index of a connected peer | x (a peer nobody is connected to) | all (Broadcast)

While the context is live the remote handlers answer at once; in every other case they stay silent
until the call has returned (the harness gates them), so that the outcome class is determined.
Output: ok | err-timeout | err-ctx | err-send | err (target x: some error) | nilnil | panic | bad.
-/
import Driver.Common
import LiskVerif.Model.ReqRetry

namespace Driver.ReqCtx
open LiskVerif LiskVerif.ReqRetry

structure DSt where
  peers : Nat := 0
  ready : Bool := false

def pointOf : String → Option CancelAt
  | "never" => some .never
  | "pre" => some (.before 0)
  | "send" => some (.duringSend 0)
  | "wait" => some (.duringWait 0)
  | "retry1" => some (.before 1)
  | "retry2" => some (.before 2)
  | "retry3" => some (.before 3)
  | _ => none

def isRetry (p : String) : Bool := p == "retry1" || p == "retry2" || p == "retry3"

def step (d : DSt) (w : List String) : DSt × String :=
  match w with
  | ["reset", n] =>
    match n.toNat? with
    | some n => if n ≤ 8 then ({ peers := n, ready := true }, "ok") else ({}, "bad")
    | none => ({}, "bad")
  | ["call", entry, kind, point, target] =>
    if !d.ready then (d, "bad") else
    match pointOf point with
    | none => (d, "bad")
    | some c =>
      let kindOk := (kind == "live" && point == "never") || ((kind == "cancel" || kind == "expire") && point != "never")
      let entryOk := entry == "send" || entry == "request" || entry == "RequestFrom" || entry == "Broadcast"
      if !kindOk || !entryOk || (entry == "send" && isRetry point) then (d, "bad") else
      let budget := if entry == "send" then 0 else 3
      let remote : Nat → Option Nat := fun _ => if point == "never" then some 1 else none
      if entry == "Broadcast" then
        if target != "all" || (d.peers == 0 && point != "never" && point != "pre") then (d, "bad") else
        let first := attemptOf c remote (fun _ => false)
        let later := attemptOf (if point == "never" then .never else .before 0) remote (fun _ => false)
        let peers := if d.peers == 0 then [] else first :: List.replicate (d.peers - 1) later
        (d, bcWord (broadcast (request budget) peers))
      else if target == "x" then
        if point != "never" && point != "pre" then (d, "bad") else
        -- nobody is connected under that id: the send fails (or the done context is noticed first)
        let r := request budget (attemptOf c remote (fun _ => true))
        (d, if r.res.isNone && r.err.isSome then "err" else r.word)
      else
        match target.toNat? with
        | some t =>
          if t ≥ d.peers then (d, "bad") else
          let r := request budget (attemptOf c remote (fun _ => false))
          (d, if entry == "RequestFrom" then (requestFrom r).word else r.word)
        | none => (d, "bad")
  | _ => (d, "bad-op")

def main : IO Unit := Driver.run ({} : DSt) step

end Driver.ReqCtx
