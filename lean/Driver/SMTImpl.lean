import Driver.Common
import LiskVerif.Model.SMTSpec
import LiskVerif.Model.SMTImpl
import LiskVerif.Model.Sha256

/-
C10IMPL driver: the transcription of the batched subtree update (Model/SMTImpl.lean) over an association-list
database, SHA-256 as hash.  ops:
  reset <keylen> <subtree height> <spec 0|1>  -> ok
  upd <keys> <values>                         -> <root>|err|panic n=<records> d=<digest> spec=<SMTSpec.mapRoot|->
        lists: comma separated hex, `-` = the empty byte string, `.` = the empty list
  reopen                                      -> root of a trie opened at the current root (NewTrie)
  dump                                        -> all stored records key:value,... sorted by key | -
digest = SHA-256 over the records sorted by key, each as be32(len key) key be32(len value) value.
`spec` = LIP-0039 root (SMTSpec.mapRoot) of the reference map after SMTSpec.applyBatch (only with spec = 1,
that is in histories of well-formed keys).
-/
namespace Driver.SMTImpl
open LiskVerif LiskVerif.SMT LiskVerif.SMTImpl

structure DSt where
  cfg : Cfg := ⟨Sha256.hash, 32, 8⟩
  trie : Trie := ⟨emptyHash Sha256.hash⟩
  db : DB := []
  spec : Bool := true
  m : List KV := []

def parseList (s : String) : Option (List Bytes) :=
  if s == "." then some [] else (s.splitOn ",").mapM Hex.decode?

def be32 (n : Nat) : Bytes :=
  [UInt8.ofNat (n / 16777216), UInt8.ofNat (n / 65536), UInt8.ofNat (n / 256), UInt8.ofNat n]

def sortedDB (db : DB) : DB := db.mergeSort fun a b => ble a.1 b.1

def digest (db : DB) : String :=
  let ser := (sortedDB db).flatMap fun kv => be32 kv.1.length ++ kv.1 ++ be32 kv.2.length ++ kv.2
  Hex.encode (Sha256.hash ser)

def showDump (db : DB) : String :=
  if db.isEmpty then "-" else
    String.intercalate "," ((sortedDB db).map fun kv => Hex.encode kv.1 ++ ":" ++ Hex.encode kv.2)

def step (d : DSt) (w : List String) : DSt × String :=
  let bad := (d, "bad-op")
  match w with
  | ["reset", n, h, sp] =>
    match n.toNat?, h.toNat? with
    | some n, some h => ({ cfg := ⟨Sha256.hash, n, h⟩, spec := sp == "1" }, "ok")
    | _, _ => bad
  | ["upd", ks, vs] =>
    match parseList ks, parseList vs with
    | some keys, some values =>
      let (t, db, r) := update d.cfg d.trie d.db keys values
      let m' := match r with
        | .ok _ => if d.spec then applyBatch d.m (keys.zip values) else d.m
        | .error _ => d.m
      let head := match r with
        | .ok root => Hex.encode root
        | .error .panic => "panic"
        | .error (.err _) => "err"
        | .error .fuel => "fuel"
      let sp := if d.spec then Hex.encode (mapRoot d.cfg.H d.cfg.keyLen m') else "-"
      ({ d with trie := t, db := db, m := m' },
        head ++ " n=" ++ toString db.length ++ " d=" ++ digest db ++ " spec=" ++ sp)
    | _, _ => bad
  | ["reopen"] =>
    let t := newTrie d.cfg.H d.trie.root
    ({ d with trie := t }, Hex.encode t.root)
  | ["dump"] => (d, showDump d.db)
  | _ => bad

def main : IO Unit := Driver.run ({} : DSt) step

end Driver.SMTImpl
