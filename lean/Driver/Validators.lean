import Driver.Common
import Driver.Codec
import LiskVerif.Model.Validators
import LiskVerif.Model.Sha256
import LiskVerif.Gen.Schemas

/-! Line-protocol driver for C09: the stateless verdicts of the network-facing validators and
handlers (`LiskVerif.Validators`) over the regenerated schema table, plus the codec ops of C08. -/
namespace Driver.Validators
open LiskVerif LiskVerif.Codec LiskVerif.Gen LiskVerif.Validators

def T : Table := allSchemas

def blockV (payload : Bytes) : String := (blockValidator T asciiNFC Sha256.hash payload).name
def txV (payload : Bytes) : String := (transactionValidator T asciiNFC payload).name
def scV (payload : Bytes) : String := (commitsPrefix T asciiNFC payload).name

def withHex (hex : String) (f : Bytes → String) : String :=
  match Hex.decode? hex with
  | some b => f b
  | none => "bad-op"

def step (_ : Unit) (w : List String) : Unit × String :=
  let r : String :=
    match w with
    | ["reset", _] => "ok"
    | ["blk", h] => withHex h blockV
    | ["tx", h] => withHex h txV
    | ["sc", h] => withHex h scV
    | ["gblk", h] => withHex h (gossip T asciiNFC "reject" "panic" blockV)
    | ["gtx", h] => withHex h (gossip T asciiNFC "reject" "panic" txV)
    | ["gsc", h] => withHex h (gossip T asciiNFC "reject" "panic" scV)
    | ["req", h] => withHex h fun b => (requestVerdict T asciiNFC b).name
    | ["resp", h] => withHex h fun b =>
        match responseVerdict T asciiNFC b with
        | .serve => "ok"
        | v => v.name
    | "x" :: _ => "-"
    | _ => (Driver.Codec.step () w).2
  ((), r)

def main : IO Unit := Driver.run () step

end Driver.Validators
