import Driver.Common
import LiskVerif.Model.Node
import LiskVerif.Model.NodeFail
import LiskVerif.Model.NodeStale
import LiskVerif.Model.Codec
import LiskVerif.Gen.Schemas

/-!
Line-protocol driver of `LiskVerif.Model.Node` (properties C04 and C05).

Every token after the op name is `key=value`. A block is described by
`id h prev gen mhp mhg ts hb txs as`, the result of executing it by `mhpc evs ov`
(`ov`: `a:<key>:<new>`, `u:<key>:<old>:<new>`, `d:<key>:<old>` — the consensus store commit);
a second execution result (tie-break, previous tip) uses the prefix `o.`.
The codecs that the model takes as parameters are instantiated with the codec model
(`diffdb.Diff`) and with a registry of the blocks seen so far (header / block / list decode).
-/

namespace Driver.Node
open LiskVerif LiskVerif.Node
open LiskVerif.DiffDB (Store KV CV Cache Diff kvLE)

structure DSt where
  st : Node.St := { db := [] }
  cfg : Cfg := { maxCache := 515, keepEvents := 0, genesisHeight := 0 }
  gts : Nat := 0
  bt : Nat := 10
  hdrs : List (Bytes × Hdr) := []
  blocks : List (Bytes × Block) := []
  lists : List (Bytes × List Bytes) := []

def arg (w : List String) (key : String) : Option String :=
  match w with
  | [] => none
  | t :: r => if t.startsWith (key ++ "=") then some (t.drop (key.length + 1)).toString else arg r key

def natArg (w : List String) (key : String) : Option Nat := (arg w key).bind String.toNat?
def hexA (w : List String) (key : String) : Option Bytes := (arg w key).bind Hex.decode?
def boolA (w : List String) (key : String) : Option Bool := (arg w key).bind Driver.boolArg

def hexList (s : String) : Option (List Bytes) :=
  if s == "-" then some [] else (s.splitOn ",").mapM Hex.decode?

def parseTxs (s : String) : Option (List (Bytes × Bytes)) :=
  if s == "-" then some [] else
    (s.splitOn ",").mapM fun item =>
      match item.splitOn ":" with
      | [i, t] => do pure ((← Hex.decode? i), (← Hex.decode? t))
      | _ => none

def clean (v : Bytes) : CV := { init := some v, value := v, dirty := false, deleted := false }

def parseOverlay (s : String) : Option Cache :=
  if s == "-" then some [] else
    (s.splitOn ",").mapM fun item =>
      match item.splitOn ":" with
      | ["a", k, v] => do
        pure ((← Hex.decode? k), { init := none, value := (← Hex.decode? v), dirty := false, deleted := false })
      | ["u", k, o, v] => do
        pure ((← Hex.decode? k), { init := some (← Hex.decode? o), value := (← Hex.decode? v), dirty := true, deleted := false })
      | ["d", k, o] => do
        let o ← Hex.decode? o
        pure ((← Hex.decode? k), { init := some o, value := o, dirty := false, deleted := true })
      | _ => none

def parseBlock (w : List String) : Option Block := do
  let hdr : Hdr := {
    version := (natArg w "ver").getD 2
    height := (← natArg w "h")
    generatorAddress := (← hexA w "gen")
    maxHeightGenerated := (← natArg w "mhg")
    maxHeightPrevoted := (← natArg w "mhp")
    id := (← hexA w "id")
    previousBlockID := (← hexA w "prev")
    timestamp := (← natArg w "ts") }
  pure { hdr := hdr, hdrBytes := (← hexA w "hb"), txs := (← (arg w "txs").bind parseTxs),
         assets := (← (arg w "as").bind hexList) }

def parseExec (w : List String) (pre : String) : Option Exec := do
  pure { overlay := (← (arg w (pre ++ "ov")).bind parseOverlay), mhpc := (← natArg w (pre ++ "mhpc")),
         events := (← (arg w (pre ++ "evs")).bind hexList) }

def emptyExec : Exec := { overlay := [], mhpc := 0, events := [] }

/-! ### codecs -/

open LiskVerif.Codec in
def encDiff (d : Diff) : Bytes :=
  match Gen.allSchemas.find "diffdb.Diff" with
  | some s =>
    encode Gen.allSchemas asciiNFC s
      [.bytesArr d.added, .msgArr (d.updated.map fun kv => [.bytes kv.1, .bytes kv.2]),
       .msgArr (d.deleted.map fun kv => [.bytes kv.1, .bytes kv.2])]
  | none => []

open LiskVerif.Codec in
def decKVs (l : List (List Value)) : Option (List KV) :=
  l.mapM fun vs => match vs with
    | [.bytes k, .bytes v] => some (k, v)
    | _ => none

open LiskVerif.Codec in
def decDiff (b : Bytes) : Option Diff :=
  match Gen.allSchemas.find "diffdb.Diff" with
  | some s =>
    match decode Gen.allSchemas asciiNFC s b with
    | .ok [.bytesArr a, .msgArr u, .msgArr d] =>
      match decKVs u, decKVs d with
      | some u, some d => some { added := a, updated := u, deleted := d }
      | _, _ => none
    | _ => none
  | none => none

def lookupReg {α : Type} (l : List (Bytes × α)) (k : Bytes) : Option α :=
  match l with
  | [] => none
  | (a, v) :: r => if a = k then some v else lookupReg r k

def codecs (d : DSt) : Codecs :=
  { encDiff := encDiff, decDiff := decDiff, decHdr := lookupReg d.hdrs,
    decList := lookupReg d.lists, decBlock := lookupReg d.blocks }

def register (d : DSt) (b : Block) : DSt :=
  { d with hdrs := (b.hdrBytes, b.hdr) :: d.hdrs, blocks := (encBlock b, b) :: d.blocks,
           lists := (encList b.assets, b.assets) :: d.lists }

def slotOf (d : DSt) : Slot :=
  { getSlotNumber := fun ts => (((ts + u32 - d.gts) % u32) / d.bt : Nat) }

/-! ### output -/

def sortStore (s : Store) : Store := s.mergeSort kvLE

def showKVList (l : List KV) : String :=
  if l.isEmpty then "-" else
    String.intercalate ";" ((sortStore l).map fun kv => Hex.encode kv.1 ++ ":" ++ Hex.encode kv.2)

/-- canonical form of a value: state diffs are printed decoded and sorted (the order of the
entries of a diff is the iteration order of a Go map) -/
def showVal (k v : Bytes) : String :=
  if hasPrefix k [51] then
    match decDiff v with
    | some df =>
      let a := (df.added.mergeSort fun x y => ble x y).map Hex.encode
      "A." ++ (if a.isEmpty then "-" else String.intercalate ";" a) ++ "|U." ++ showKVList df.updated
        ++ "|D." ++ showKVList df.deleted
    | none => "raw." ++ Hex.encode v
  else Hex.encode v

partial def deltaLoop (a b : List KV) (acc : List String) : List String :=
  match a, b with
  | [], [] => acc.reverse
  | (k, _) :: ra, [] => deltaLoop ra [] (("-" ++ Hex.encode k) :: acc)
  | [], (k, v) :: rb => deltaLoop [] rb (("+" ++ Hex.encode k ++ "=" ++ showVal k v) :: acc)
  | (k, v) :: ra, (k', v') :: rb =>
    match bcmp k k' with
    | .lt => deltaLoop ra b (("-" ++ Hex.encode k) :: acc)
    | .gt => deltaLoop a rb (("+" ++ Hex.encode k' ++ "=" ++ showVal k' v') :: acc)
    | .eq =>
      if showVal k v == showVal k' v' then deltaLoop ra rb acc
      else deltaLoop ra rb (("~" ++ Hex.encode k' ++ "=" ++ showVal k' v') :: acc)

def delta (old new : Store) : String :=
  let l := deltaLoop (sortStore old) (sortStore new) []
  if l.isEmpty then "-" else String.intercalate "," l

def short (b : Bytes) : String := Hex.encode (b.take 4)

def showEv : Ev → String
  | .finalize o n _ => "fin:" ++ toString o ++ ":" ++ toString n
  | .new id h => "new:" ++ toString h ++ ":" ++ short id
  | .delete id h => "del:" ++ toString h ++ ":" ++ short id

def showEvs (old new : List Node.Ev) : String :=
  let fresh := (new.take (new.length - old.length)).reverse
  if fresh.isEmpty then "-" else String.intercalate "," (fresh.map showEv)

def showState (d : DSt) (old : Node.St) (res : String) : String :=
  let s := d.st
  let cd := codecs d
  let fin := finOf s.db
  let tip := match s.cache with
    | [] => "none"
    | t :: _ => short t.hdr.id ++ "@" ++ toString t.hdr.height
  let fz := match fin with
    | none => "none"
    | some f => match idAt cd s f with | some i => short i | none => "none"
  res ++ " fin=" ++ (match fin with | some f => toString f | none => "none") ++ " tip=" ++ tip
    ++ " fz=" ++ fz ++ " ev=" ++ showEvs old.log s.log ++ " d=" ++ delta old.db s.db

def showRes : Res → String
  | .ok => "ok" | .err => "err" | .panic => "panic" | .errWritten => "errWritten"

def showPRes : PRes → String
  | .identical => "identical" | .doubleForging => "doubleForging" | .discard => "discard"
  | .wouldSync => "wouldSync" | .err => "err" | .applied => "applied"
  | .tieBreakApplied => "tieBreakApplied" | .tieBreakReverted => "tieBreakReverted"
  | .tieBreakLost => "tieBreakLost" | .panic => "panic"

def showVerdict : Verdict → String
  | .identical => "identical" | .valid => "valid" | .doubleForging => "doubleForging"
  | .tieBreak => "tieBreak" | .differentChain => "differentChain" | .discard => "discard"

def showNats (l : List Nat) : String :=
  if l.isEmpty then "-" else String.intercalate "," (l.map toString)

def step (d : DSt) (w : List String) : DSt × String :=
  let bad := (d, "bad-op")
  match w with
  | "reset" :: r =>
    match parseBlock r, parseExec r "", natArg r "cache", (arg r "keep").bind String.toInt?,
        natArg r "gts", natArg r "bt" with
    | some g, some x, some cache, some keep, some gts, some bt =>
      let cfg : Cfg := { maxCache := cache, keepEvents := keep, genesisHeight := g.hdr.height }
      let d0 : DSt := register { cfg := cfg, gts := gts, bt := bt } g
      let s := genesis (codecs d0) cfg [] g x
      let d1 := { d0 with st := s }
      (d1, showState d1 { db := [] } "ok")
    | _, _, _, _, _, _ => bad
  | "pv" :: r =>
    match parseBlock r, parseExec r "", boolA r "valid", boolA r "rt" with
    | some b, some x, some valid, some rt =>
      let d := register d b
      let (s', res) := apply (codecs d) d.cfg d.st b valid x rt
      let d' := { d with st := s' }
      (d', showState d' d.st (showRes res))
    | _, _, _, _ => bad
  | "proc" :: r =>
    match parseBlock r, parseExec r "", boolA r "sv", boolA r "valid", boolA r "rb", boolA r "rl" with
    | some b, some x, some sv, some valid, some rb, some rl =>
      let d := register d b
      let i : Incoming := {
        block := b, flags := { receivedBlockWithinForgingSlot := rb, receivedLastBlockWithinForgingSlot := rl },
        staticValid := sv, valid := valid, exec := x,
        oldValid := (boolA r "o.valid").getD true, oldExec := (parseExec r "o.").getD emptyExec }
      let fc := match d.st.cache with
        | [] => "none"
        | t :: _ => showVerdict (forkChoice (slotOf d) t.hdr b.hdr i.flags)
      -- `ab=0` (harness/c04/inject.go): the application refused the removal a tie-break starts with
      let (s', res) := processA (codecs d) d.cfg (slotOf d) d.st i ((boolA r "ab").getD true)
      let d' := { d with st := s' }
      (d', showState d' d.st (showPRes res ++ " fc=" ++ fc))
    | _, _, _, _, _, _ => bad
  | "del" :: r =>
    match boolA r "st" with
    | some st =>
      let (s', res) := deleteTipA (codecs d) d.cfg d.st st ((boolA r "ab").getD true)
      let d' := { d with st := s' }
      (d', showState d' d.st (showRes res))
    | none => bad
  | "delat" :: r =>
    -- Executer.deleteBlock on the block object stored at a height: only heights at or below the
    -- finalized height (refused by the first guard) and the tip itself are used by the harness
    match natArg r "h", boolA r "st" with
    | some h, some st =>
      match d.st.cache, finOf d.st.db with
      | t :: _, some fin =>
        if h ≤ fin then (d, showState d d.st "err")
        else if h = t.hdr.height then
          let (s', res) := deleteTipA (codecs d) d.cfg d.st st ((boolA r "ab").getD true)
          let d' := { d with st := s' }
          (d', showState d' d.st (showRes res))
        else (d, "unsupported")
      | _, _ => (d, "unsupported")
    | _, _ => bad
  | "delarg" :: r =>
    -- Executer.deleteBlock with an explicit argument block (harness/c04/stale.go): any block - the tip, a block
    -- removed earlier, a block of another branch, a fabricated block, a finalized block; `ab=0`: the application
    -- refused the revert request. The block is not registered with the codecs: it is not stored anywhere.
    match parseBlock r, boolA r "st" with
    | some b, some st =>
      let (s', res) := deleteBlockArg (codecs d) d.cfg d.st b st ((boolA r "ab").getD true)
      let d' := { d with st := s' }
      (d', showState d' d.st (showRes res))
    | _, _ => bad
  | ["restart"] =>
    let (s', res) := restart (codecs d) d.cfg d.st
    let d' := { d with st := s' }
    (d', showState d' d.st (showRes res))
  | "restartg" :: r =>
    -- Executer.Init on the existing database with other start-up inputs (harness/c04 `restartg`):
    -- v=genesis: a foreign genesis block (id `gid`, height `gh`) - the previous inputs stay in effect
    -- afterwards; v=cfg: block cache size / event retention changed from now on; v=chainid: nothing the
    -- database knows about changes
    match arg r "v" with
    | some "genesis" =>
      match hexA r "gid", natArg r "gh" with
      | some gid, some gh =>
        let g : Block := { hdr := { version := 0, height := gh, generatorAddress := [], maxHeightGenerated := 0,
                                     maxHeightPrevoted := 0, id := gid, previousBlockID := [], timestamp := 0 },
                           hdrBytes := [], txs := [], assets := [] }
        let (s', res) := restartG (codecs d) d.cfg d.st g emptyExec
        let d' := { d with st := s' }
        (d', showState d' d.st (showRes res))
      | _, _ => bad
    | some "cfg" =>
      match natArg r "cache", (arg r "keep").bind String.toInt? with
      | some cache, some keep =>
        let cfg : Cfg := { d.cfg with maxCache := cache, keepEvents := keep }
        let (s', res) := restart (codecs d) cfg d.st
        let d' := { d with st := s', cfg := cfg }
        (d', showState d' d.st (showRes res))
      | _, _ => bad
    | some "chainid" =>
      let (s', res) := restart (codecs d) d.cfg d.st
      let d' := { d with st := s' }
      (d', showState d' d.st (showRes res))
    | _ => bad
  | ["sctx"] =>
    -- Executer.createSyncContext: the finalized block header the synchronisers get
    match d.st.cache with
    | [] => (d, "unsupported")
    | _ :: _ =>
      match syncFinalized (codecs d) d.st with
      | some h => (d, "ok sfin=" ++ toString h.height ++ " sfz=" ++ short h.id)
      | none => (d, "err")
  | ["twin"] => (d, "ok")
  -- `forge <block>` (harness/c04/reorgfresh.go): the BFT step of a candidate block on a staged store that is
  -- dropped (what the generator does for its own block): the model has no component memory, nothing changes
  | "forge" :: _ => (d, "ok")
  | ["cleartemp"] =>
    let d' := { d with st := clearTemp d.st }
    (d', showState d' d.st "ok")
  | ["temps"] =>
    match tempBlocks (codecs d) d.st with
    | none => (d, "err")
    | some l =>
      (d, "temps=" ++ (if l.isEmpty then "-" else
        String.intercalate "," (l.map fun b => toString b.hdr.height ++ ":" ++ short b.hdr.id)))
  | "till" :: r =>
    match natArg r "h" with
    | some h =>
      let fuel := match d.st.cache with | [] => 1 | t :: _ => t.hdr.height + 2
      let (s', res) := deleteTillA (codecs d) d.cfg fuel d.st h ((boolA r "ab").getD true)
      let d' := { d with st := s' }
      (d', showState d' d.st (showRes res))
    | none => bad
  | ["gap", s, m, g, n] =>
    match s.toNat?, m.toNat?, g.toNat?, n.toNat? with
    | some s, some m, some g, some n => (d, showNats (getHeightWithGap s m g n))
    | _, _, _, _ => bad
  | ["lasth", s, n] =>
    match s.toNat?, n.toNat? with
    | some s, some n => (d, showNats (getLastHeights s n))
    | _, _ => bad
  | ["fsync", l, c, f, b, nv] =>
    match l.toNat?, c.toNat?, f.toNat?, b.toNat?, nv.toNat? with
    | some l, some c, some f, some b, some nv =>
      (d, match fastSyncDecide l c f b nv with
          | .banBelowFinalized => "ban" | .abortTooFar => "abort" | .proceed => "proceed")
    | _, _, _, _, _ => bad
  | _ => bad

def main : IO Unit := Driver.run ({} : DSt) step

end Driver.Node
