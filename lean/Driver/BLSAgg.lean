import Driver.Common
import LiskVerif.Model.BLSAgg
import LiskVerif.Model.Cert

/-!
Line-protocol driver for the pseudo-property C06BLS: the pure logic of pkg/crypto/bls.go
(Model/BLSAgg.lean) with the ideal aggregate-signature functionality of Model/Cert.lean in the place
of blst.  Op vocabulary: see harness/c06bls/c06bls.go.  Keys are holder numbers, messages are message
numbers (chain 0); a signature is `G` (any byte string that is no aggregate of single signatures) or
`S:<holders>:<msg>` (aggregate of the single signatures of the holders over the message).
-/
namespace Driver.BLSAgg
open LiskVerif LiskVerif.BLSAgg

def natList (s : String) : Option (List Nat) :=
  if s == "-" then some [] else (s.splitOn ",").mapM (·.toNat?)

def hexBytes (s : String) : Option Bytes := if s == "-" then some [] else Hex.decode? s

def hexOut (b : Bytes) : String := if b.isEmpty then "-" else Hex.encode b

def msgOf (n : Nat) : Cert.Msg := ⟨0, n⟩

def aggOf : List Cert.Sig → Cert.Sig
  | [] => .garbage
  | s :: r => Cert.aggSigs s r

def parseSig (s : String) : Option Cert.Sig :=
  if s == "G" then some .garbage
  else match s.splitOn ":" with
    | ["S", hs, m] =>
      match natList hs, m.toNat? with
      | some hs, some m => some (aggOf (hs.map (fun h => Cert.sign h (msgOf m))))
      | _, _ => none
    | _ => none

/-- pair `holder:signer:msg` -/
def parsePair (s : String) : Option (Nat × Cert.Sig) :=
  match s.splitOn ":" with
  | [h, sg, m] =>
    match h.toNat?, sg.toNat?, m.toNat? with
    | some h, some sg, some m => some (h, Cert.sign sg (msgOf m))
    | _, _, _ => none
  | _ => none

def pairSigner (s : String) : Option Nat :=
  match s.splitOn ":" with
  | [_, sg, _] => sg.toNat?
  | _ => none

def pairMsg (s : String) : Option Nat :=
  match s.splitOn ":" with
  | [_, _, m] => m.toNat?
  | _ => none

def resStr : Option Bool → String
  | none => "panic"
  | some true => "true"
  | some false => "false"

def fav (keys : List Nat) (m : Cert.Msg) (s : Cert.Sig) : Bool := Cert.fastAggregateVerify keys m s

def step (_ : Unit) (w : List String) : Unit × String :=
  match w with
  | "reset" :: _ => ((), "ok")
  | ["len", nk, nb] =>
    match nk.toNat?, nb.toNat? with
    | some nk, some nb => ((), if validBitsLength nk nb then "true" else "false")
    | _, _ => ((), "bad-op")
  | ["rd", bits, i] =>
    match hexBytes bits, i.toInt? with
    | some b, some i =>
      if i < 0 then ((), "panic")
      else match bitsRead b i.toNat with
        | none => ((), "panic")
        | some true => ((), "1")
        | some false => ((), "0")
    | _, _ => ((), "bad-op")
  | ["wr", bits, i, v] =>
    match hexBytes bits, i.toInt?, Driver.boolArg v with
    | some b, some i, some v =>
      if i < 0 then ((), "panic")
      else match bitsWrite b i.toNat v with
        | none => ((), "panic")
        | some b' => ((), hexOut b')
    | _, _, _ => ((), "bad-op")
  | ["wv", keys, bits, weights, thr, sig, m] =>
    match natList keys, hexBytes bits, natList weights, thr.toNat?, parseSig sig, m.toNat? with
    | some ks, some b, some ws, some thr, some s, some m =>
      ((), resStr (verifyWeightedAggSig fav ks b s ws thr (msgOf m)))
    | _, _, _, _, _, _ => ((), "bad-op")
  | ["av", keys, bits, sig, m] =>
    match natList keys, hexBytes bits, parseSig sig, m.toNat? with
    | some ks, some b, some s, some m => ((), resStr (verifyAggSig fav ks b s (msgOf m)))
    | _, _, _, _ => ((), "bad-op")
  | ["cr", keys, pairs] =>
    match natList keys, (if pairs == "-" then some [] else (pairs.splitOn ",").mapM parsePair),
        (if pairs == "-" then some [] else (pairs.splitOn ",").mapM pairSigner),
        (if pairs == "-" then none else ((pairs.splitOn ",").head?.bind pairMsg)) with
    | some ks, some ps, some signers, some m0 =>
      match createAggSig aggOf ks ps with
      | none => ((), "panic")
      | some (b, s) =>
        -- the produced signature, checked against the SIGNERS of the pairs and the first pair's message
        ((), hexOut b ++ " " ++ (if fav signers (msgOf m0) s then "true" else "false"))
    | _, _, _, _ => ((), "bad-op")
  | _ => ((), "bad-op")

def main : IO Unit := Driver.run () step

end Driver.BLSAgg
