/-
Line-protocol driver for property C03 (Model/Verify.lean).

  reset <batchSize> <genesisTimestamp> <blockTime> <now> <maxTxLen> <acBound 0|1> <genesisID>
        <precommit> <cert> <addr:weight,...> <generatorAddr,...> <go-side configuration>
  apply <label> <expect> <via> <pre> <27 fact tokens> <hex block>   process and keep the result
  cand  <label> <expect> <via> <pre> <27 fact tokens> <hex block>   process, report, keep the old state
  dump                                                              the committed BFT store
  restart                                                           no effect on the model

`pre` is the id of the tip the op was planned for: on any other state both sides answer `skip`
(this keeps shrunken cases meaningful).

When the generator-list token is `app`, the token before it is the APPLICATION's list (`addr:weight,...` with
EVERY entry, weight 0 included) and the model derives both lists itself through `Convert.convert`
(Model/Convert.lean: `GetBFTValidatorAndGenerators`); the same in the `change` fact `<precommit>/<cert>/<list>/app`.

`via` is `P` (Executer.process) or `V` (Block.Validate + processValidated, the synchroniser path).
`label`, `expect` and the hex block are for the implementation runner only.
-/
import Driver.Common
import Driver.BFT
import LiskVerif.Model.Verify
import LiskVerif.Model.Convert

namespace Driver.Verify
open LiskVerif LiskVerif.BFT LiskVerif.Verify

def emptyNode : Node :=
  { cfg := { genesisTimestamp := 0, blockTime := 1, now := 0, maxTxLen := 0 },
    tipHeight := 0, tipID := [], tipTimestamp := 0, chain := [], bft := initGenesis 1 0, finalized := 0 }

def parseTxV (c : Char) : Option TxV :=
  match c with
  | '0' => some .ok | '1' => some .invalid | '2' => some .error | '3' => some .fail
  | _ => none

def parseBits (s : String) : Option (List Bool) :=
  if s == "-" then some [] else
  s.toList.mapM fun c => if c == '1' then some true else if c == '0' then some false else none

def parseTxs (s : String) : Option (List (TxV × TxV)) :=
  if s == "-" then some [] else
  (s.splitOn ".").mapM fun p =>
    match p.toList with
    | [a, b] => do
      let a ← parseTxV a
      let b ← parseTxV b
      pure (a, b)
    | _ => none

/-- the application's list `addr:weight,...` (every entry; generator and BLS keys play no role in this model) -/
def parseApp (s : String) : Option (List Convert.AppValidator) :=
  (Driver.BFT.parseValidators s).map fun l =>
    l.map fun v => { address := v.address, weight := v.weight, generatorKey := [], blsKey := [] }

def parseChange (s : String) : Option (Option Change) :=
  if s == "-" then some none else
  match s.splitOn "/" with
  | [pc, cert, app, "app"] => do
    let pc ← pc.toNat?
    let cert ← cert.toNat?
    let app ← parseApp app
    pure (some (Convert.changeOf pc cert app))
  | [pc, cert, vals, gens] => do
    let pc ← pc.toNat?
    let cert ← cert.toNat?
    let vals ← Driver.BFT.parseValidators vals
    let gens ← Driver.BFT.parseAddrs gens
    pure (some { precommit := pc, cert := cert, validators := vals, generators := gens })
  | _ => none

def parseAssets (s : String) : Option AssetsV :=
  match s with
  | "0" => some .ok | "1" => some .unsorted | "2" => some .duplicate | _ => none

def parseCand (w : List String) : Option Cand :=
  match w with
  | [version, height, timestamp, prev, gen, id, mhp, mhg, imp, ach, acb, acs, acok, sl, sok, txst, txr,
     assets, asr, size, hooks, txs, change, vh, nev, er, commit] => do
    let version ← version.toNat?
    let height ← height.toNat?
    let timestamp ← timestamp.toNat?
    let prev ← Hex.decode? prev
    let gen ← Hex.decode? gen
    let id ← Hex.decode? id
    let mhp ← mhp.toNat?
    let mhg ← mhg.toNat?
    let imp ← Driver.boolArg imp
    let ach ← ach.toNat?
    let acb ← acb.toNat?
    let acs ← acs.toNat?
    let acok ← Driver.boolArg acok
    -- `<signature length>` or `<signature length>/<stateRoot length>` (32 when left out)
    let (sl, srl) ← (match sl.splitOn "/" with
      | [a] => a.toNat?.map (fun x => (x, 32))
      | [a, b] => a.toNat?.bind (fun x => b.toNat?.map (fun y => (x, y)))
      | _ => none)
    let sok ← Driver.boolArg sok
    let txst ← parseBits txst
    let txr ← Driver.boolArg txr
    let assets ← parseAssets assets
    let asr ← Driver.boolArg asr
    let size ← size.toNat?
    let hooks ← parseBits hooks
    let txs ← parseTxs txs
    let change ← parseChange change
    let vh ← Driver.boolArg vh
    let nev ← nev.toNat?
    let er ← Driver.boolArg er
    let commit ← Driver.boolArg commit
    match hooks with
    | [h0, h1, h2, h3] =>
      pure { version := version, height := height, timestamp := timestamp, prevID := prev, gen := gen,
             id := id, mhp := mhp, mhg := mhg, impliesMaxPrevotes := imp,
             ac := { height := ach, bitsLen := acb, sigLen := acs, sigOK := acok },
             sigLen := sl, stateRootLen := srl, sigOK := sok, txStatic := txst, txRootOK := txr, assets := assets,
             assetRootOK := asr, payloadSize := size, abiInit := h0, abiVerifyAssets := h1,
             abiBefore := h2, abiAfter := h3, txs := txs, change := change, vhOK := vh, nEvents := nev,
             eventRootOK := er, commitOK := commit }
    | _ => none
  | _ => none

def showEv : Ev → String
  | .finalize o n t => s!"fin:{o}->{n}@{t}"
  | .newBlock h id k => s!"new:{h}:{Hex.encode id}:{k}"
  | .validators n pc cert => s!"val:{n}:{pc}:{cert}"

def showAccepted (old new : Node) : String :=
  let evs := new.events.drop old.events.length
  s!"acc h={new.tipHeight} fin={new.finalized} bft={new.bft.mhp}/{new.bft.mhpc}/{new.bft.mhc} ev=" ++
    (if evs.isEmpty then "-" else String.intercalate ";" (evs.map showEv))

/-- run one candidate; returns the node afterwards and the output line -/
def runCand (n : Node) (via : String) (b : Cand) : Node × String :=
  if via == "P" then
    match process n b with
    | (n', .ignored) => (n', "ign")
    | (n', .other) => (n', "other")
    | (n', .rejected e) => (n', "rej " ++ e.name)
    | (n', .accepted) => (n', showAccepted n n')
  else
    match applyBlock n b with
    | (n', some e) => (n', "rej " ++ e.name)
    | (n', none) => (n', showAccepted n n')

def step (n : Node) (w : List String) : Node × String :=
  match w with
  | ["reset", bs, gts, bt, now, maxLen, acBound, gid, pc, cert, app, "app", _goConfig] =>
    -- genesis: the application's list goes through the conversion of the model (`ExecuteGenesis`)
    match bs.toNat?, gts.toNat?, bt.toNat?, now.toNat?, maxLen.toNat?, Driver.boolArg acBound,
          Hex.decode? gid, pc.toNat?, cert.toNat?, parseApp app with
    | some bs, some gts, some bt, some now, some maxLen, some acBound, some gid, some pc, some cert, some app =>
      match Convert.applyApp (initGenesis bs 0) pc cert app with
      | none => (emptyNode, "err")
      | some s =>
        ({ cfg := { genesisTimestamp := gts, blockTime := bt, now := now, maxTxLen := maxLen, acBound := acBound },
           tipHeight := 0, tipID := gid, tipTimestamp := gts, chain := [(0, gid)], bft := s, finalized := 0 }, "ok")
    | _, _, _, _, _, _, _, _, _, _ => (n, "bad-op")
  | ["reset", bs, gts, bt, now, maxLen, acBound, gid, pc, cert, vals, gens, _goConfig] =>
    match bs.toNat?, gts.toNat?, bt.toNat?, now.toNat?, maxLen.toNat?, Driver.boolArg acBound,
          Hex.decode? gid, pc.toNat?, cert.toNat?, Driver.BFT.parseValidators vals, Driver.BFT.parseAddrs gens with
    | some bs, some gts, some bt, some now, some maxLen, some acBound, some gid, some pc, some cert,
      some vals, some gens =>
      match setParams (initGenesis bs 0) pc cert vals with
      | .error _ => (emptyNode, "err")
      | .ok s =>
        let s := setKeys s gens
        ({ cfg := { genesisTimestamp := gts, blockTime := bt, now := now, maxTxLen := maxLen, acBound := acBound },
           tipHeight := 0, tipID := gid, tipTimestamp := gts, chain := [(0, gid)], bft := s, finalized := 0 }, "ok")
    | _, _, _, _, _, _, _, _, _, _, _ => (n, "bad-op")
  | "apply" :: _label :: _expect :: via :: pre :: rest =>
    if pre != Hex.encode n.tipID then (n, "skip") else
    match parseCand rest.dropLast with
    | some b =>
      -- events already published are not needed any more: keep the log short
      let (n', out) := runCand { n with events := [] } via b
      (n', out)
    | none => (n, "bad-op")
  | "cand" :: _label :: _expect :: via :: pre :: rest =>
    if pre != Hex.encode n.tipID then (n, "skip") else
    match parseCand rest.dropLast with
    | some b => (n, (runCand { n with events := [] } via b).2)
    | none => (n, "bad-op")
  | ["dump"] => (n, Driver.BFT.dump n.bft)
  | ["restart"] => (n, "ok")
  | _ => (n, "bad-op")

def main : IO Unit := Driver.run emptyNode step

end Driver.Verify
