import Driver.Common
import LiskVerif.Model.TxPool
import LiskVerif.Model.TxPoolSplit

/-! Line-protocol driver for C14 (transaction pool).  See /verif/harness/c14/c14.go for the op grammar. -/

namespace Driver.TxPool
open LiskVerif LiskVerif.TxPool

def B : Nat := 2 ^ 64

structure DSt where
  cfg : Cfg := { maxTx := 1, maxPerAcct := 1, minFeeDiff := 1, minEntrance := 0 }
  pool : Pool := {}
  /-- set after an eviction whose victim the Go code picks by map order; the rest of the case is skipped -/
  dead : Bool := false

/-- `S.N.F.Z.X` (sender index, nonce, fee, size, salt); the id is the mixed-radix number of the five -/
def parseTx (s : String) : Option Tx :=
  match (s.splitOn ".").mapM String.toNat? with
  | some [sd, n, f, z, x] => some { id := (((sd * B + n) * B + f) * B + z) * B + x, sender := sd, nonce := n, fee := f, size := z }
  | _ => none

def showId (id : Nat) : String :=
  let x := id % B
  let z := id / B % B
  let f := id / (B * B) % B
  let n := id / (B * B * B) % B
  let s := id / (B * B * B * B)
  s!"{s}.{n}.{f}.{z}.{x}"

def parseVerdict (s : String) : Option Verdict :=
  if s == "o" then some .ok else if s == "p" then some .pending else if s == "i" then some .invalid else none

def joinOr (l : List String) : String := if l.isEmpty then "-" else String.intercalate "," l

def sortIds (l : List Nat) : List Nat := l.mergeSort (fun a b => decide (a ≤ b))

def showAcct (e : Nat × Acct) : String :=
  let txs := e.2.txs.mergeSort (fun a b => decide (a.nonce ≤ b.nonce))
  s!"{e.1}[" ++ joinOr (txs.map fun t => s!"{t.nonce}={showId t.id}") ++ ";p=" ++ joinOr (e.2.proc.map toString) ++ "]"

def snapshot (p : Pool) : String :=
  let heap := p.heap.mergeSort (fun a b => decide (a.id ≤ b.id))
  let accts := p.accts.mergeSort (fun a b => decide (a.1 ≤ b.1))
  "all=" ++ joinOr ((sortIds (p.all.map (·.id))).map showId)
    ++ " heap=" ++ joinOr (heap.map fun t => s!"{showId t.id}@{t.prio}")
    ++ " accts=" ++ (if accts.isEmpty then "-" else String.intercalate "," (accts.map showAcct))

def showBool (b : Bool) : String := if b then "true" else "false"

def parseAddArg (s : String) : Option AddArg :=
  match s.splitOn ":" with
  | [t, v, pb] => do
    let tx ← parseTx t
    let v ← parseVerdict v
    let pb ← boolArg pb
    pure { tx := tx, v := v, pubOk := pb, tie := 0 }
  | _ => none

def parseVerdicts (l : List String) : Option (List (Nat × Verdict)) :=
  l.mapM fun s =>
    match s.splitOn ":" with
    | [t, v] => do
      let tx ← parseTx t
      let v ← parseVerdict v
      pure (tx.id, v)
    | _ => none

def verdictFn (l : List (Nat × Verdict)) (id : Nat) : Verdict :=
  match l.find? (fun e => e.1 == id) with
  | some e => e.2
  | none => .ok

/-- adds one after the other; `none` as soon as an eviction is ambiguous -/
def addMany (cfg : Cfg) : Pool → List AddArg → String → Option (Pool × String)
  | p, [], acc => some (p, acc)
  | p, x :: r, acc =>
    if addAmbiguous cfg p x.tx x.v then none
    else
      let res := add cfg p x.tx x.v x.pubOk 0
      addMany cfg res.1 r (acc ++ (if res.2 then "t" else "f"))

def finish (d : DSt) (p : Pool) (res : String) : DSt × String :=
  if p.fault then ({ d with pool := p, dead := true }, "panic")
  else ({ d with pool := p }, res ++ " " ++ snapshot p)

/-! ### operations interleaved into a window (`reorgx`, `annx`, `addx`; see harness/c14/interleave.go) -/

/-- splits the words of an op at the `|` separators -/
def splitBars (w : List String) : List (List String) :=
  w.foldr (fun x acc =>
    if x == "|" then [] :: acc
    else match acc with
      | g :: r => (x :: g) :: r
      | [] => [[x]]) [[]]

inductive Inner
  | ok (st : Pool × List Nat) (res : String)
  | amb
  | bad

/-- adds one after the other with the bookkeeping of list identity; `none` = ambiguous eviction -/
def addManyT (cfg : Cfg) : Pool × List Nat → List AddArg → String → Option ((Pool × List Nat) × String)
  | st, [], acc => some (st, acc)
  | st, x :: r, acc =>
    if addAmbiguous cfg st.1 x.tx x.v then none
    else
      let res := add cfg st.1 x.tx x.v x.pubOk 0
      addManyT cfg (addT cfg st { x with tie := 0 }) r (acc ++ (if res.2 then "t" else "f"))

/-- one inner operation: `add TX:V:P` | `remove TX` | `applied TX ...` | `reverted TX:V:P ...` -/
def innerOp (cfg : Cfg) (st : Pool × List Nat) (g : List String) : Inner :=
  match g with
  | ["add", x] =>
    match parseAddArg x with
    | some x =>
      match addManyT cfg st [x] "" with
      | none => .amb
      | some (st', r) => .ok st' r
    | none => .bad
  | ["remove", t] =>
    match parseTx t with
    | some t =>
      let r := remove st.1 t.id
      .ok (applyOpT cfg st (.remove t.id)) (if r.2 then "t" else "f")
    | none => .bad
  | "applied" :: ts =>
    match ts.mapM parseTx with
    | some l =>
      let r := l.foldl (fun (acc : Pool × String) t =>
        let r := remove acc.1 t.id
        (r.1, acc.2 ++ (if r.2 then "t" else "f"))) (st.1, "")
      .ok (applyOpT cfg st (.applied (l.map (·.id)))) (if r.2.isEmpty then "-" else r.2)
    | none => .bad
  | "reverted" :: xs =>
    match xs.mapM parseAddArg with
    | some l =>
      match addManyT cfg st l "" with
      | none => .amb
      | some (st', r) => .ok st' (if r.isEmpty then "-" else r)
    | none => .bad
  | _ => .bad

def innerOps (cfg : Cfg) : Pool × List Nat → List (List String) → List String → Inner
  | st, [], acc => .ok st (if acc.isEmpty then "-" else String.intercalate "/" acc)
  | st, g :: r, acc =>
    match innerOp cfg st g with
    | .ok st' res => innerOps cfg st' r (acc ++ [res])
    | .amb => .amb
    | .bad => .bad

def stepX (d : DSt) (w : List String) : Option (DSt × String) :=
  match splitBars w with
  | ("reorgx" :: vs) :: groups =>
    match parseVerdicts vs with
    | some l =>
      let snaps := reorgSnap d.pool
      match innerOps d.cfg (d.pool, snaps.map (·.sender)) groups [] with
      | .ok st res =>
        let p := snaps.foldl (fun q sn => reorgApply Acct.promoteChecked (verdictFn l) (st.2.contains sn.sender) q sn) st.1
        some (finish d p ("ok:" ++ res))
      | .amb => some ({ d with dead := true }, "ambiguous")
      | .bad => some (d, "bad-op")
    | none => some (d, "bad-op")
  | ["annx", x] :: groups =>
    match parseAddArg x with
    | some x =>
      match innerOps d.cfg (d.pool, []) groups [] with
      | .ok st res =>
        if x.v == Verdict.invalid then some (finish d st.1 ("ok:" ++ res))
        else
          match addMany d.cfg st.1 [x] "" with
          | none => some ({ d with dead := true }, "ambiguous")
          | some (p, _) => some (finish d p ("ok:" ++ res))
      | .amb => some ({ d with dead := true }, "ambiguous")
      | .bad => some (d, "bad-op")
    | none => some (d, "bad-op")
  | ["addx", x, _] :: groups =>
    -- `Add` holds the pool lock from beginning to end: what is started from inside its verifier or publish
    -- callback takes effect after it
    match parseAddArg x with
    | some x =>
      match addMany d.cfg d.pool [x] "" with
      | none => some ({ d with dead := true }, "ambiguous")
      | some (p, r) =>
        match innerOps d.cfg (p, []) groups [] with
        | .ok st res => some (finish d st.1 ((if r == "t" then "true" else "false") ++ ":" ++ res))
        | .amb => some ({ d with dead := true }, "ambiguous")
        | .bad => some (d, "bad-op")
    | none => some (d, "bad-op")
  | _ => none

def step (d : DSt) (w : List String) : DSt × String :=
  let bad := (d, "bad-op")
  match w with
  | ["reset", a, b, c, e] =>
    match a.toNat?, b.toNat?, c.toNat?, e.toNat? with
    | some a, some b, some c, some e =>
      ({ cfg := { maxTx := a, maxPerAcct := b, minFeeDiff := c, minEntrance := e } }, "ok")
    | _, _, _, _ => bad
  | _ =>
  if d.dead then (d, "skipped") else
  match w with
  | ["add", x] =>
    match parseAddArg x with
    | some x =>
      match addMany d.cfg d.pool [x] "" with
      | none => ({ d with dead := true }, "ambiguous")
      | some (p, r) => finish d p (if r == "t" then "true" else "false")
    | none => bad
  | ["remove", t] =>
    match parseTx t with
    | some t => let r := remove d.pool t.id; finish d r.1 (showBool r.2)
    | none => bad
  | "reorg" :: vs =>
    match parseVerdicts vs with
    | some l => finish d (reorg (verdictFn l) d.pool) "ok"
    | none => bad
  | "applied" :: ts =>
    match ts.mapM parseTx with
    | some l =>
      let r := l.foldl (fun (acc : Pool × String) t =>
        let r := remove acc.1 t.id
        (r.1, acc.2 ++ (if r.2 then "t" else "f"))) (d.pool, "")
      finish d r.1 (if r.2.isEmpty then "-" else r.2)
    | none => bad
  | "reverted" :: xs =>
    match xs.mapM parseAddArg with
    | some l =>
      match addMany d.cfg d.pool l "" with
      | none => ({ d with dead := true }, "ambiguous")
      | some (p, r) => finish d p (if r.isEmpty then "-" else r)
    | none => bad
  | ["snapshot"] => finish d d.pool "ok"
  | _ =>
    match stepX d w with
    | some r => r
    | none => bad

def main : IO Unit := Driver.run ({} : DSt) step

end Driver.TxPool
