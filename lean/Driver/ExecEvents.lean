import Driver.Exec
import LiskVerif.Model.ExecEvents

/-! Line-protocol driver for the pseudo-property C16WIDE (ops mirror /verif/harness/c16/wide.go): the ops of
`Driver/Exec.lean`, with

* scripts that may hold event items with explicit topics (`E:<topics>:<data>`, `U:<topics>:<data>`), run on
  `Model/ExecEvents.lean`; EVERY field of every event is printed (the default topic of the call, which is
  always the first topic, is printed as `T`);
* `diff <height>`: the diff record stored for the block of that height. -/

namespace Driver.ExecEvents
open LiskVerif LiskVerif.DiffDB LiskVerif.Exec LiskVerif.ExecEvents Driver.Exec

def parseTopics (s : String) : Option (List Bytes) :=
  if s == "." then some [] else (s.splitOn "+").mapM hexArg

def parseItemT (s : String) : Option ItemT :=
  match s.splitOn ":" with
  | ["E", ts, d] => do
    let ts ← parseTopics ts
    let d ← parseData d
    pure (.ev false ts d)
  | ["U", ts, d] => do
    let ts ← parseTopics ts
    let d ← parseData d
    pure (.ev true ts d)
  | _ => (parseItem s).map .plain

def parseSectionT (s : String) : Option (List ItemT) :=
  if s == "" || s == "-" then some [] else (s.splitOn ",").mapM parseItemT

def parseTxT (cmd script : String) : Option TxT :=
  match script.splitOn "/" with
  | [v, p, c, a] => do
    let v ← parseSectionT v
    let p ← parseSectionT p
    let c ← parseSectionT c
    let a ← parseSectionT a
    pure { cmdKnown := cmd == "run", verify := v, pre := p, cmd := c, post := a }
  | _ => none

/-- the default topic of the model runs; it is printed as `T` -/
def dtSym : Bytes := []

def showTopics : List Bytes → String
  | [] => "none"
  | _ :: r => String.intercalate "+" ("T" :: r.map Hex.encode)

def showEventT (e : EventT) : String :=
  e.event.module ++ "." ++ e.event.name ++ "." ++ toString e.event.index ++ "." ++
    toString e.event.height ++ "." ++ showTopics e.topics ++ "." ++ Hex.encode e.event.data

def showEventsT (l : List EventT) : String :=
  if l.isEmpty then "-" else String.intercalate ";" (l.map showEventT)

def strLE (a b : String) : Bool := a ≤ b

def showList (l : List String) : String :=
  if l.isEmpty then "-" else String.intercalate "," (l.mergeSort strLE)

def showDiff (d : Diff) : String :=
  "a=" ++ showList (d.added.map Hex.encode) ++
  " u=" ++ showList (d.updated.map fun kv => Hex.encode kv.1 ++ "=" ++ Hex.encode kv.2) ++
  " d=" ++ showList (d.deleted.map fun kv => Hex.encode kv.1 ++ "=" ++ Hex.encode kv.2)

def step (d : DSt) (w : List String) : DSt × String :=
  let bad := (d, "bad-op")
  let a := d.app
  match w with
  | ["diff", h] =>
    match h.toNat? with
    | some h =>
      match findDiff a.diffs h with
      | some df => (d, showDiff df)
      | none => (d, "none")
    | none => bad
  | ["bte", sec] | ["ate", sec] =>
    match parseSectionT sec with
    | some items =>
      let r := blockHookT a dtSym items
      ({ d with app := r.1 }, match r.2 with | some evs => "ok ev=" ++ showEventsT evs | none => "err")
    | none => bad
  | ["vtx", cmd, script] =>
    match parseTxT cmd script with
    | some tx =>
      let r := verifyTransaction a tx.erase
      ({ d with app := r.1 }, if r.2 then "res=1" else "res=-1")
    | none => bad
  | "etx" :: cmd :: script :: rest =>
    match parseTxT cmd script with
    | some tx =>
      let nc := rest.contains "nc"
      match rest with
      | "dry" :: h :: _ =>
        match h.toNat? with
        | some h =>
          if nc then (d, "err") else
          let r := executeTxDryT a h dtSym tx
          (d, "res=" ++ toString r.1.code ++ " ev=" ++ showEventsT r.2)
        | none => bad
      | _ =>
        if nc then (d, "err") else
        let r := executeTxT a dtSym tx
        match r.2 with
        | some (res, evs) => ({ d with app := r.1 }, "res=" ++ toString res.code ++ " ev=" ++ showEventsT evs)
        | none => (d, "err")
    | none => bad
  | _ => Driver.Exec.step d w

def main : IO Unit := Driver.run ({} : DSt) step

end Driver.ExecEvents
