import Driver.Common
import LiskVerif.Model.Codec
import LiskVerif.Gen.Schemas
import Driver.Lisk32
import LiskVerif.Model.CodecEntry
import LiskVerif.Model.Sha256
import Driver.CodecLife

namespace Driver.Codec
open LiskVerif LiskVerif.Codec LiskVerif.Gen

def run1 (strict : Bool) (name hex : String) (nfc : NFC := asciiNFC) : String :=
  match allSchemas.find name, Hex.decode? hex with
  | some s, some b =>
    let r := if strict then decodeStrict allSchemas nfc s b else decode allSchemas nfc s b
    match r with
    | .ok vals => "ok " ++ Hex.encode (encode allSchemas asciiNFC s vals)
    | .error e => "err " ++ e.name
  | _, _ => "bad-op"

/-- the entry points `NewBlock` / `NewTransaction` / `NewBlockAsset` / `NewBlockHeader` (Model/CodecEntry) -/
def entry (kind hex : String) : String :=
  match Hex.decode? hex with
  | none => "bad-op"
  | some b =>
    let T := allSchemas
    let res (r : Except Err String) : String :=
      match r with
      | .ok s => "ok " ++ s
      | .error e => "err " ++ e.name
    match kind with
    | "newtx" => res ((CodecEntry.newTransaction T asciiNFC Sha256.hash b).map fun p => Hex.encode p.2)
    | "newasset" => res ((CodecEntry.newBlockAsset T asciiNFC b).map fun a =>
        Hex.encode (Validators.encodeNamed T asciiNFC "blockchain.BlockAsset" a))
    | "newheader" => res ((CodecEntry.newBlockHeader T asciiNFC Sha256.hash b).map fun p =>
        Hex.encode p.2 ++ " " ++ Hex.encode (Validators.encodeNamed T asciiNFC "blockchain.BlockHeader" p.1))
    | _ => res ((CodecEntry.newBlock T asciiNFC Sha256.hash b).map fun a =>
        Hex.encode a.headerID ++ " " ++
        (if a.txIDs.isEmpty then "-" else ",".intercalate (a.txIDs.map Hex.encode)) ++ " " ++
        Hex.encode a.reencoded)

def step (_ : Unit) (w : List String) : Unit × String :=
  let r : String :=
    match w with
    | ["reset"] => "ok"
    | ["nfcdec", name, hex, bit] =>
      -- NFC verdict for non-ASCII strings supplied by the harness (x/text oracle)
      let nfc : NFC := { normal := fun b => b.all (·.toNat < 128) || bit == "1", normalize := id }
      run1 false name hex nfc ++ " " ++ run1 true name hex nfc
    | ["rt", name, hex] => run1 false name hex ++ " " ++ run1 true name hex
    | ["dec", name, hex] => run1 false name hex
    | ["decs", name, hex] => run1 true name hex
    | ["newblock", hex] => entry "newblock" hex
    | ["newtx", hex] => entry "newtx" hex
    | ["newasset", hex] => entry "newasset" hex
    | ["newheader", hex] => entry "newheader" hex
    | "life" :: kind :: hex :: rest => Driver.CodecLife.life kind hex rest
    | ["blkjson", hdr, hid, txs] => Driver.CodecLife.blkjson hdr hid txs
    | ["tolisk", _] | ["tobytes", _] | ["validate", _] => (Driver.Lisk32.step () w).2
    | ["uvarint", n] => match n.toNat? with
      | some n => Hex.encode (putUvarint n)
      | none => "bad-op"
    | _ => "bad-op"
  ((), r)

def main : IO Unit := Driver.run () step

end Driver.Codec
