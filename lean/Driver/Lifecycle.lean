import Driver.ConnGater
import LiskVerif.Model.Lifecycle

/-!
Line-protocol driver for C18LIFE (life cycle of the Connection: C18 ops plus `restart <blacklist>` and
`bind`).  See harness/c18/life.go.

Ops that reach the gater through a long-lived component (`req` / `res`: MessageProtocol.peer and
rateLimit.peer; `rlcheck`: rateLimit.peer; `applypen` / `banpid`: Connection.Peer) are run by the C18 driver
on the current run's node when that component is bound to the current generation.  That is always the
case (`C18_life_bound_invariant`, Props/C18_Life.lean); the other branch answers `stale-binding`.
-/
namespace Driver.Lifecycle
open LiskVerif LiskVerif.ConnGater LiskVerif.RateLimit LiskVerif.Lifecycle

abbrev DSt := Option LNode

def genStr (l : LNode) : Option Nat → String
  | none => "nil"
  | some b => if b = l.gen then "cur" else "old"

def bindStr (l : LNode) : String :=
  "b=" ++ genStr l l.mpGen ++ "/" ++ genStr l l.rlGen ++ "/" ++ genStr l l.connGen

def isCur (l : LNode) (b : Option Nat) : Bool := b == some l.gen

/-- is every component the op goes through bound to the current Peer (or not started at all)? -/
def routesCurrent (l : LNode) (w : List String) : Bool :=
  match w with
  | op :: _ =>
    if op == "req" || op == "res" then
      (l.mpGen.isNone && l.rlGen.isNone) || (isCur l l.mpGen && isCur l l.rlGen)
    else if op == "rlcheck" then l.rlGen.isNone || isCur l l.rlGen
    else if op == "applypen" || op == "banpid" then isCur l l.connGen
    else true
  | [] => true

def stepL (l : LNode) (w : List String) : LNode × String :=
  match w with
  | ["restart", bl] =>
    match Driver.ConnGater.parseIPList bl with
    | some bl =>
      let (l', ok) := restart l bl
      (l', (if ok then "ok " else "err-invalid ") ++ bindStr l')
    | none => (l, "bad-op")
  | ["bind"] => (l, bindStr l)
  | ["mpstart"] => (lmpStart l, "ok")
  | _ =>
    if routesCurrent l w then
      let (n', o) := Driver.ConnGater.stepNode l.node w
      ({ l with node := n' }, o)
    else (l, "stale-binding")

def step (st : DSt) (w : List String) : DSt × String :=
  match w with
  | ["reset", e, i] =>
    match e.toInt?, i.toInt? with
    | some e, some i =>
      match mk? e i with
      | some g => (some (Lifecycle.init g), "ok")
      | none => (none, "err-duration")
    | _, _ => (none, "bad-op")
  | _ =>
    match st with
    | none => (none, "no-node")
    | some l => let (l', o) := stepL l w; (some l', o)

def main : IO Unit := Driver.run (none : DSt) step

end Driver.Lifecycle
