import Driver.Common
import LiskVerif.Model.Sync
import LiskVerif.Model.SyncCtx
import LiskVerif.Model.Codec
import LiskVerif.Gen.Schemas

/-!
Line-protocol driver for C19 (sync).  See harness/c19/c19.go for the op vocabulary.

Block ids are byte strings.  Symbolic tokens of the protocol: `p<h>` block of the responder chain at
height h, `q<h>` block of the requester chain (equal to `p<h>` up to the fork height), `a<h>` block of
the attacker chain (relinked copy of the responder chain from the tampered height on), `u<k>` an
unknown 32 byte id, `x<hex>` literal bytes.
-/
namespace Driver.Sync
open LiskVerif LiskVerif.Sync

abbrev Id := Bytes

def be32 (n : Nat) : Bytes :=
  [UInt8.ofNat (n / 16777216 % 256), UInt8.ofNat (n / 65536 % 256), UInt8.ofNat (n / 256 % 256), UInt8.ofNat (n % 256)]

def mkId (tag : UInt8) (n : Nat) : Id := tag :: be32 n ++ List.replicate 27 0

def tagP : UInt8 := 0x70
def tagQ : UInt8 := 0x71
def tagA : UInt8 := 0x61
def tagU : UInt8 := 0x75
def tagS : UInt8 := 0x73

structure Scn where
  lenP : Nat := 0      -- tip height of the responder chain
  fork : Nat := 0      -- last common height
  lenQ : Nat := 0      -- tip height of the requester chain
  n : Nat := 1         -- number of validators
  finQ : Nat := 0
  mhpQ : Nat := 0
  mhpP : Nat := 0
  cur : Option (List (Blk Bytes)) := none   -- the responder's chain once `chain` ops changed it
  ctr : Nat := 0                            -- number of `chain new` ops so far

def Scn.pid (_ : Scn) (h : Nat) : Id := mkId tagP h
def Scn.qid (s : Scn) (h : Nat) : Id := if h ≤ s.fork then mkId tagP h else mkId tagQ h

def zero32 : Id := List.replicate 32 0

def Scn.chainP (s : Scn) : List (Blk Id) :=
  (List.range (s.lenP + 1)).map fun h => { id := s.pid h, prev := if h = 0 then zero32 else s.pid (h - 1), height := h }

def Scn.chainQ (s : Scn) : List (Blk Id) :=
  (List.range (s.lenQ + 1)).map fun h => { id := s.qid h, prev := if h = 0 then zero32 else s.qid (h - 1), height := h }

/-- attacker chain: the responder chain with the block at height `bad` replaced (new id, statically
valid or not) and all later blocks relinked -/
def Scn.chainA (s : Scn) (bad : Nat) (static : Bool) : List (Blk Id) :=
  let aid (h : Nat) : Id := if h < bad then s.pid h else mkId tagA h
  (List.range (s.lenP + 1)).map fun h =>
    { id := aid h, prev := if h = 0 then zero32 else aid (h - 1), height := h, ok := !(static && h == bad) }

/-- the responder's current chain -/
def Scn.resp (s : Scn) : List (Blk Id) := s.cur.getD s.chainP

def num? (s : String) : Option Nat := s.toNat?

def parseTok (s : Scn) (t : String) : Option Id :=
  match t.toList with
  | 'p' :: r => (String.ofList r).toNat?.map s.pid
  | 'q' :: r => (String.ofList r).toNat?.map s.qid
  | 'a' :: r => (String.ofList r).toNat?.map (mkId tagA)
  | 'u' :: r => (String.ofList r).toNat?.map (mkId tagU)
  | 's' :: r => (String.ofList r).toNat?.map (mkId tagS)
  | 'x' :: r => Hex.decode? (String.ofList r)
  | _ => none

def parseToks (s : Scn) : List String → Option (List Id)
  | [] => some []
  | t :: r => match parseTok s t, parseToks s r with
    | some i, some l => some (i :: l)
    | _, _ => none

def dec32 (b : Bytes) : Nat := b.foldl (fun a x => a * 256 + x.toNat) 0

def tokOf (s : Scn) (i : Id) : String :=
  match i with
  | tag :: r =>
    let h := dec32 (r.take 4)
    if i.length == 32 && r.drop 4 == List.replicate 27 0 && (tag == tagP || tag == tagQ || tag == tagA || tag == tagU || tag == tagS) then
      if tag == tagP then "p" ++ toString h
      else if tag == tagQ then (if h ≤ s.fork then "x" ++ Hex.encode i else "q" ++ toString h)
      else if tag == tagA then "a" ++ toString h
      else if tag == tagS then "s" ++ toString h
      else "u" ++ toString h
    else "x" ++ Hex.encode i
  | [] => "x-"

def okLen (i : Id) : Bool := i.length == 32

def kv (w : List String) (key : String) : Option Nat :=
  match w.find? (fun t => t.startsWith (key ++ "=")) with
  | some t => ((t.drop (key.length + 1)).toString).toNat?
  | none => none

def kvs (w : List String) (key : String) : Option String :=
  match w.find? (fun t => t.startsWith (key ++ "=")) with
  | some t => some ((t.drop (key.length + 1)).toString)
  | none => none

def joinNats (l : List Nat) : String :=
  if l.isEmpty then "-" else String.intercalate "," (l.map toString)

/-! handlers -/

def decodeHcb (data : Bytes) : Option (List Id) :=
  match Gen.allSchemas.find "sync.GetHighestCommonBlockRequest" with
  | some sch =>
    match Codec.decode Gen.allSchemas Codec.asciiNFC sch data with
    | .ok [.bytesArr l] => some l
    | _ => none
  | none => none

def decodeBfi (data : Bytes) : Option Id :=
  match Gen.allSchemas.find "sync.GetBlocksFromIDRequest" with
  | some sch =>
    match Codec.decode Gen.allSchemas Codec.asciiNFC sch data with
    | .ok [.bytes b] => some b
    | _ => none
  | none => none

def hcbStr (s : Scn) : HcbOut Id → String
  | .ban => "ban"
  | .none => "none"
  | .id i => "id " ++ tokOf s i

def bfiStr (s : Scn) : BfiOut Id → String
  | .ban => "ban"
  | .err => "err"
  | .blocks l => "blocks " ++ toString l.length ++ (if l.isEmpty then "" else " " ++ String.intercalate " " (l.map fun b => tokOf s b.id))

/-! best peer: tips `mhp.height.id` -/

def parseTip (idx : Nat) (t : String) : Option (Tip String) :=
  match t.splitOn "." with
  | [m, h, i] => match m.toNat?, h.toNat? with
    | some m, some h => some { peer := idx, height := h, mhp := m, id := i }
    | _, _ => none
  | _ => none

def parseTips : Nat → List String → Option (List (Tip String))
  | _, [] => some []
  | k, t :: r => match parseTip k t, parseTips (k + 1) r with
    | some a, some l => some (a :: l)
    | _, _ => none

def bestStr (l : List (Tip String)) : String :=
  if l.isEmpty then "err" else joinNats (isort (fun a b => decide (a ≤ b)) ((possibleBest l).map (·.peer)))

/-! sync scenarios -/

structure Behav where
  cap : Option Nat := none          -- at most that many blocks per response
  stop : Option Nat := none         -- blocks above that height are not served
  badStatic : Option Nat := none
  badExec : Option Nat := none
  common : Option (Option Id) := none   -- override of the getHighestCommonBlock answer
  force : Option Mode := none       -- run that synchroniser directly
  finPeak : Nat := 0                -- finalized height implied by the applicable part of the served chain
  target : Option Nat := none       -- the peer announced its block of that height (its tip is above)
  tmhp : Nat := 0                   -- maxHeightPrevoted of the announced block
  age : Option Nat := none          -- recent chains: current slot - slot of the requester's finalized block
  extra : List Char := []           -- more connected peers (harness/c19/multipeer.go)
  mainFail : Bool := false          -- the announcing peer fails the getLastBlock request of the peer selection
  failAt : Option Nat := none       -- getBlocksFromId for a start block of that height or above fails (error reply)
  muteAt : Option Nat := none       -- ... is never answered (request time-out): a failed request as well

def parseBehav (s : Scn) (w : List String) : Behav :=
  { cap := kv w "cap", stop := kv w "stop", badStatic := kv w "badstatic", badExec := kv w "badexec",
    common := match kvs w "common" with
      | some "none" => some none
      | some t => (parseTok s t).map some
      | none => none,
    finPeak := (kv w "finpeak").getD 0,
    target := kv w "target", tmhp := (kv w "tmhp").getD 0, age := kv w "age",
    extra := ((kvs w "extra").getD "").toList, mainFail := kvs w "main" == some "e",
    failAt := kv w "fail", muteAt := kv w "mute",
    force := match kvs w "force" with
      | some "fast" => some .fast
      | some "block" => some .block
      | _ => none }

def servedChain (s : Scn) (b : Behav) : List (Blk Id) :=
  match b.badStatic, b.badExec with
  | some h, _ => s.chainA h true
  | none, some h => s.chainA h false
  | none, none => s.chainP

def mkPeer (s : Scn) (b : Behav) : Peer Id :=
  let c := servedChain s b
  let hp := honest c s.mhpP
  { last := match b.target with
      | some t => (c[t]?).map (fun x => (x, b.tmhp))   -- the block it announced; the rest from its longer chain
      | none => hp.last,
    common := match b.common with
      | some ans => fun _ => some ans
      | none => hp.common,
    segment := fun i =>
      let refused : Bool := match heightOf c i with
        | some h => (match b.failAt with | some a => decide (a ≤ h) | none => false)
                    || (match b.muteAt with | some a => decide (a ≤ h) | none => false)
        | none => false
      if refused then none else
      match hp.segment i with
      | none => none
      | some l =>
        let l := match b.stop with | some h => l.filter (fun x => decide (x.height ≤ h)) | none => l
        let l := match b.cap with | some k => l.take k | none => l
        some l }

def applies (b : Behav) (c : List (Blk Id)) (x : Blk Id) : Bool :=
  x.height == c.length && (match c.getLast? with | some t => t.id == x.prev | none => false)
    && x.ok && !(b.badExec == some x.height && (x.id.head? == some tagA))

def modeStr : Mode → String
  | .fast => "fast" | .block => "block" | .none => "none"

/-- the connected peers of a block synchronisation: what each answers to getLastBlock during the peer
selection (`none`: the request fails) and how it behaves afterwards -/
def connectedPeers (s : Scn) (b : Behav) (target : Blk Id) : List (Option (Nat × Nat × Id) × Peer Id) :=
  let tm := if b.target.isSome then b.tmhp else s.mhpP
  let main := mkPeer s b
  let hp := honest s.chainP s.mhpP
  let tipP : Option (Nat × Nat × Id) := some (s.lenP, s.mhpP, s.pid s.lenP)
  (if b.mainFail then none else some (target.height, tm, target.id), main) ::
  b.extra.map fun k =>
    match k with
    | 'h' => (some (target.height, tm, target.id), main)
    | 'l' => (some (s.fork, 0, s.pid s.fork), { hp with last := (s.chainP[s.fork]?).map (fun x => (x, 0)) })
    | 'v' => (some (target.height, tm + 1000, mkId tagA target.height),
              { main with last := some ({ target with id := mkId tagA target.height, ok := false }, tm + 1000) })
    | 'c' => (tipP, { hp with common := fun _ => none })
    | 'b' => (tipP, { hp with segment := fun _ => none })
    | _ => (none, main)

/-- `blockSyncer.Sync` with all connected peers (`Model.blockSyncPeers`; the scenarios are generated
such that all possible choices of `getBestNodeInfo` behave alike: one map order / random value) -/
def blockSyncMulti (s : Scn) (b : Behav) (target : Blk Id) : Out Id :=
  let ps := connectedPeers s b target
  blockSyncPeers (applies b) s.n s.finQ s.mhpQ s.chainQ ps ((answeringFrom 0 ps).map (·.id)) 0

/-- `sync ... rb=d<k> rmhp=<m> rmhpc=<c>` (harness/c19/rollback.go): before the synchronisation the requester's
tip was rolled back by k blocks (`Executer.deleteBlock`): its chain ends at height Q-k, the header of the new tip
has maxHeightPrevoted m, the BFT store of the node has maxHeightPrecommitted c, the stored finalized height is
still finQ.  Returns the scenario as it is then and the precommitted height of the BFT store (without rollback:
the stored finalized height, the two agree on a chain that only grew). -/
def rolledBack (s : Scn) (w : List String) : Scn × Nat :=
  match kvs w "rb" with
  | some v =>
    match ((v.drop 1).toString).toNat? with
    | some k =>
      if k ≤ s.lenQ then
        ({ s with lenQ := s.lenQ - k, fork := min s.fork (s.lenQ - k), mhpQ := (kv w "rmhp").getD 0 },
         (kv w "rmhpc").getD 0)
      else (s, s.finQ)
    | none => (s, s.finQ)
  | none => (s, s.finQ)

/-- one `sync` op: the node state (chain, stored finalized height, BFT store) is handed to `SyncCtx.syncNode`, which
builds the sync context from it (`createSyncContext`: the finalized block is read at the STORED finalized height)
and runs the synchroniser -/
def runSync (s : Scn) (b : Behav) (storeMhpc : Nat) : String :=
  let q := s.chainQ
  let c := servedChain s b
  match (match b.target with | some t => (if t = 0 then none else c[t]?) | none => c.getLast?) with
  | none => "bad-op"
  | some target =>
    let stale : Bool := match b.age with | some a => shouldSync s.n (Int.ofNat a) 0 | none => true
    let mode := match b.force with
      | some m => m
      | none => chooseMode s.n s.lenQ target.height true stale
    let st : SyncCtx.NodeSt Id := { chain := q, marker := s.finQ }
    let env : SyncCtx.Env Id :=
      { applies := applies b, mhpc := fun c => if c.length == q.length then storeMhpc else 0, nvals := fun _ => s.n }
    let out : Out Id :=
      if mode == .block && !(b.extra.isEmpty && !b.mainFail) then
        (if b.force.isNone && !target.ok then ⟨q, [], false, some .invalidBlock⟩ else blockSyncMulti s b target)
      else
        match SyncCtx.syncNode .marker env (fun _ => b.finPeak) st s.mhpQ target
            (if b.target.isSome then b.tmhp else s.mhpP) true stale b.force (mkPeer s b) with
        | some o => o
        | none => ⟨q, [], false, some .requestFailed⟩
    let tip := match out.chain.getLast? with | some t => tokOf s t.id | none => "-"
    "mode=" ++ modeStr mode ++ " err=" ++ (if out.err.isSome then "1" else "0") ++ " tip=" ++ tip
      ++ " h=" ++ toString (out.chain.length - 1) ++ " ban=" ++ (if out.banned then "1" else "0")
      ++ " temp=" ++ toString out.temp.length

def step (s : Scn) (w : List String) : Scn × String :=
  match w with
  | "reset" :: r =>
    let s' : Scn := { lenP := (kv r "P").getD 0, fork := (kv r "F").getD 0, lenQ := (kv r "Q").getD 0,
                      n := (kv r "n").getD 1, finQ := (kv r "finQ").getD 0, mhpQ := (kv r "mhpQ").getD 0,
                      mhpP := (kv r "mhpP").getD 0 }
    (s', "ok")
  | ["glb"] => (s, match handleLastBlock s.resp with | some b => "tip " ++ tokOf s b.id | none => "none")
  | "hcb" :: toks =>
    (s, match parseToks s toks with
      | some ids => hcbStr s (handleHighestCommon okLen s.resp (some ids))
      | none => "bad-op")
  | ["hcbnil"] => (s, hcbStr s (handleHighestCommon okLen s.resp none))
  | "hreq" :: kind :: r =>
    -- the request an honest synchroniser with `n` validators builds from the requester chain cut at `tip`
    (s, match kv r "n", kv r "tip" with
      | some n, some tip =>
        if n < 1 ∨ tip > s.lenQ then "bad-op" else
        let q := s.chainQ.take (tip + 1)
        let heights? : Option (List Nat) := match kind with
          | "fast" => some (getLastHeights tip (2 * n))
          | "block" => (match kv r "fin" with
            | some fin => if fin > tip then none else
                some (getHeightWithGap (getCommonBlockStartSearchHeight tip n) fin n 10)
            | none => none)
          | _ => none
        (match heights? with
          | some hs =>
            let ids := idsAt q hs
            "req " ++ toString ids.length ++ " " ++ hcbStr s (handleHighestCommon okLen s.resp (some ids))
          | none => "bad-op")
      | _, _ => "bad-op")
  | ["hcbraw", hex] =>
    (s, match Hex.decode? hex with
      | some data => hcbStr s (handleHighestCommon okLen s.resp (decodeHcb data))
      | none => "bad-op")
  | ["bfi", tok] =>
    (s, match parseTok s tok with
      | some i => bfiStr s (handleBlocksFromID okLen s.resp (some i))
      | none => "bad-op")
  | ["bfinil"] => (s, bfiStr s (handleBlocksFromID okLen s.resp none))
  | ["bfiraw", hex] =>
    (s, match Hex.decode? hex with
      | some data => bfiStr s (handleBlocksFromID okLen s.resp (decodeBfi data))
      | none => "bad-op")
  | ["gap", a, b, c, d] =>
    (s, match a.toNat?, b.toNat?, c.toNat?, d.toNat? with
      | some a, some b, some c, some d => joinNats (getHeightWithGap a b c d)
      | _, _, _, _ => "bad-op")
  | ["lasth", a, b] =>
    (s, match a.toNat?, b.toNat? with
      | some a, some b => joinNats (getLastHeights a b)
      | _, _ => "bad-op")
  | ["cbs", a, b] =>
    (s, match a.toNat?, b.toNat? with
      | some a, some b => toString (getCommonBlockStartSearchHeight a b)
      | _, _ => "bad-op")
  | "best" :: tips =>
    (s, match parseTips 0 (tips.filter (· ≠ "-")) with
      | some l => bestStr l
      | none => "bad-op")
  | "sync" :: r =>
    let (s', storeMhpc) := rolledBack s r
    (s, runSync s' (parseBehav s' r) storeMhpc)
  | ["dl", st, sh, et, eh] =>
    (s, match parseTok s st, sh.toNat?, parseTok s et, eh.toNat? with
      | some sid, some sh, some eid, some eh =>
        let d := download (honest s.chainP s.mhpP).segment sid sh eid eh
        let first := match d.1.head? with | some b => tokOf s b.id | none => "-"
        let last := match d.1.getLast? with | some b => tokOf s b.id | none => "-"
        "dl n=" ++ toString d.1.length ++ " first=" ++ first ++ " last=" ++ last ++ " done=" ++ (if d.2 then "1" else "0")
      | _, _, _, _ => "bad-op")
  | ["chain", what] =>
    let c := s.resp
    let tipStr (c : List (Blk Id)) : String :=
      match c.getLast? with
      | some t => "tip " ++ tokOf s t.id ++ " h=" ++ toString (c.length - 1)
      | none => "refused"
    (match what with
      | "del" =>
        if c.length ≤ 1 then (s, "refused")
        else ({ s with cur := some c.dropLast }, tipStr c.dropLast)
      | "p" =>
        -- the next block of the original chain, when the current chain is a prefix of it
        (match c.getLast?, s.chainP[c.length - 1]?, s.chainP[c.length]? with
          | some t, some o, some nx =>
            if t.id == o.id then ({ s with cur := some (c ++ [nx]) }, tipStr (c ++ [nx])) else (s, "refused")
          | _, _, _ => (s, "refused"))
      | "new" =>
        (match c.getLast? with
          | some t =>
            let nb : Blk Id := { id := mkId tagS s.ctr, prev := t.id, height := c.length }
            ({ s with cur := some (c ++ [nb]), ctr := s.ctr + 1 }, tipStr (c ++ [nb]))
          | none => (s, "refused"))
      | "restart" => ({ s with cur := some c }, tipStr c)
      | _ => (s, "bad-op"))
  | "sfs" :: r =>
    (s, match kv r "h", kv r "n", kv r "gen" with
      | some h, some n, some g =>
        if chooseMode n s.lenP h (g == 1 && n > 0) false == .fast then "fast=1" else "fast=0"
      | _, _, _ => "bad-op")
  | "ss" :: r =>
    (s, match (kvs r "d").bind String.toInt?, kv r "n" with
      | some d, some n => if shouldSync n d 0 then "stale=1" else "stale=0"
      | _, _ => "bad-op")
  | "fs" :: r =>
    (s, match kv r "fin", kv r "n" with
      | some fin, some n =>
        if n < 1 ∨ fin > s.lenQ then "bad-op" else
        match fastCommon n s.chainQ (honest s.chainP s.mhpP) with
        | .ok ch => "common " ++ tokOf s (s.qid ch)
        | .error _ => "err"
      | _, _ => "bad-op")
  | "cs" :: r =>
    (s, match kv r "fin", kv r "n" with
      | some fin, some n =>
        if n < 1 ∨ fin > s.lenQ then "bad-op" else
        match commonSearch n fin s.chainQ (honest s.chainP s.mhpP) 3 (getCommonBlockStartSearchHeight s.lenQ n) with
        | .ok ch => "common " ++ tokOf s (s.qid ch)
        | .error _ => "err"
      | _, _ => "bad-op")
  | _ => (s, "bad-op")

def main : IO Unit := Driver.run ({} : Scn) step

end Driver.Sync
