import Driver.Common
import LiskVerif.Model.Exec
import LiskVerif.Model.Sha256

/-! Line-protocol driver for property C16 (ops mirror /verif/harness/c16). -/

namespace Driver.Exec
open LiskVerif LiskVerif.DiffDB LiskVerif.Exec

def sortKV (l : List KV) : List KV := l.mergeSort kvLE

/-- the abstract root of the driver: the sorted leaves, written key ++ value (fixed sizes 38 + 32);
the harness replaces it by the root of a fresh sparse Merkle trie over these leaves -/
def leavesRoot (l : Leaves) : Bytes := (sortKV l).foldr (fun kv acc => kv.1 ++ kv.2 ++ acc) []

def params : Params := { H := Sha256.hash, smtRoot := leavesRoot }

def bogusRoot : Bytes := List.replicate 32 0xbb

structure DSt where
  app : App := {}
  /-- what the engine remembers: the root committed at each height -/
  roots : List (Nat × Bytes) := []

def findRoot (l : List (Nat × Bytes)) (h : Nat) : Option Bytes :=
  match l with
  | [] => none
  | (i, r) :: rest => if i = h then some r else findRoot rest h

def putRoot (l : List (Nat × Bytes)) (h : Nat) (r : Bytes) : List (Nat × Bytes) :=
  (h, r) :: l.filter (fun e => e.1 ≠ h)

/-! ### parsing of the scripts -/

def storePrefix (i : Nat) : Option Bytes :=
  match i with
  | 0 => some [0, 0, 0, 1, 0x00, 0x00]
  | 1 => some [0, 0, 0, 1, 0x80, 0x00]
  | 2 => some [0, 0, 0, 2, 0x00, 0x00]
  | 3 => some [0, 0, 0, 1, 0x00, 0x01]
  | _ => none

def parseData (s : String) : Option Bytes :=
  if s.startsWith "z" then (s.drop 1).toNat?.map fun n => List.replicate n 0
  else hexArg s

def parseKey (st k : String) : Option Bytes := do
  let i ← st.toNat?
  let p ← storePrefix i
  let k ← hexArg k
  pure (p ++ k)

def parseItem (s : String) : Option Item :=
  match s.splitOn ":" with
  | ["s", st, k, v] => do
    let k ← parseKey st k
    let v ← hexArg v
    pure (.set k v)
  | ["c", st, k, v] => do
    let k ← parseKey st k
    let v ← hexArg v
    pure (.chk k v)
  | ["d", st, k] => (parseKey st k).map .del
  | ["g", st, k] => (parseKey st k).map .get
  | ["e", n, d] => do
    let n ← n.toNat?
    let d ← parseData d
    pure (.ev false n d)
  | ["u", n, d] => do
    let n ← n.toNat?
    let d ← parseData d
    pure (.ev true n d)
  | ["b"] => some .badEv
  | ["p"] => some .push
  | ["q"] => some .pop
  | ["x"] => some .fail
  | _ => none

def parseSection (s : String) : Option (List Item) :=
  if s == "" || s == "-" then some [] else (s.splitOn ",").mapM parseItem

def parseTx (cmd script : String) : Option Tx :=
  match script.splitOn "/" with
  | [v, p, c, a] => do
    let v ← parseSection v
    let p ← parseSection p
    let c ← parseSection c
    let a ← parseSection a
    pure { cmdKnown := cmd == "run", verify := v, pre := p, cmd := c, post := a }
  | _ => none

/-! ### rendering -/

def showKVs (l : List KV) : String :=
  if l.isEmpty then "-" else
    String.intercalate "," (l.map fun kv => Hex.encode kv.1 ++ "=" ++ Hex.encode kv.2)

def showData (d : Bytes) : String :=
  if d.length > 8 then "len" ++ toString d.length else Hex.encode d

def showEvent (e : Event) : String :=
  e.module ++ "." ++ e.name ++ "." ++ toString e.index ++ "." ++ toString e.height ++ "." ++
    toString e.ntopics ++ "." ++ showData e.data

def showEvents (l : List Event) : String :=
  if l.isEmpty then "-" else String.intercalate ";" (l.map showEvent)

def showRoot (r : Bytes) : String := "@" ++ Hex.encode r

def showTreeState (a : App) : String :=
  match a.treeState with
  | none => "ts=none"
  | some (h, r) => "ts=" ++ toString h ++ ":" ++ showRoot r

def expectedOf (sel : String) (good : Bytes) : Option (Option Bytes) :=
  if sel == "none" then some none
  else if sel == "ok" then some (some good)
  else if sel == "bad" then some (some bogusRoot)
  else none

/-- the state root of the specification: the root of the tree that holds exactly the state -/
def specRoot (s : Store) : Bytes := params.smtRoot (leavesOf params.H s)

def step (d : DSt) (w : List String) : DSt × String :=
  let bad := (d, "bad-op")
  let a := d.app
  match w with
  | ["reset"] => ({}, "ok")
  | ["restart"] => ({ d with app := clear a }, "ok")
  | ["clear"] => ({ d with app := clear a }, "ok")
  | ["ism", h] =>
    match h.toNat? with
    | some h =>
      let r := initStateMachine a h
      ({ d with app := r.1 }, if r.2 then "ok" else "err")
    | none => bad
  | [hook, sec] =>
    if hook == "bte" || hook == "ate" then
      match parseSection sec with
      | some items =>
        let r := blockHook a items
        ({ d with app := r.1 }, match r.2 with | some evs => "ok ev=" ++ showEvents evs | none => "err")
      | none => bad
    else if hook == "commit" then
      -- `commit <sel>`
      match a.ctx with
      | none => (d, "err")
      | some c =>
        match expectedOf sec (specRoot (applyStore a.store (batchOfCache c.cache))) with
        | some exp =>
          let r := commit params a exp false
          match r.2 with
          | some root => ({ app := r.1, roots := putRoot d.roots c.height root }, "ok root=" ++ showRoot root)
          | none => (d, "err")
        | none => bad
    else if hook == "revert" then
      match a.ctx with
      | none => (d, "err")
      | some c =>
        let exp : Option (Option Bytes) :=
          if sec == "ok" then some (findRoot d.roots (c.height - 1)) else expectedOf sec []
        match exp with
        | some exp =>
          let r := revert params a (if c.height = 0 && sec == "ok" then none else exp)
          match r.2 with
          | some root => ({ d with app := r.1 }, "ok root=" ++ showRoot root)
          | none => (d, "err")
        | none => bad
    else if hook == "fin" then
      match sec.toNat? with
      | some f => ({ d with app := finalize a f }, "ok")
      | none => bad
    else bad
  | ["commit", sel, "dry"] =>
    match a.ctx with
    | none => (d, "err")
    | some c =>
      match expectedOf sel (specRoot (applyStore a.store (batchOfCache c.cache))) with
      | some exp =>
        match (commit params a exp true).2 with
        | some root => (d, "ok root=" ++ showRoot root)
        | none => (d, "err")
      | none => bad
  | ["vtx", cmd, script] =>
    match parseTx cmd script with
    | some tx =>
      let r := verifyTransaction a tx
      ({ d with app := r.1 }, if r.2 then "res=1" else "res=-1")
    | none => bad
  | "etx" :: cmd :: script :: rest =>
    match parseTx cmd script with
    | some tx =>
      let nc := rest.contains "nc"
      match rest with
      | "dry" :: h :: _ =>
        match h.toNat? with
        | some h =>
          if nc then (d, "err") else
          let r := executeTxDry a h tx
          (d, "res=" ++ toString r.1.code ++ " ev=" ++ showEvents r.2)
        | none => bad
      | _ =>
        if nc then (d, "err") else
        let r := executeTx a tx
        match r.2 with
        | some (res, evs) => ({ d with app := r.1 }, "res=" ++ toString res.code ++ " ev=" ++ showEvents evs)
        | none => (d, "err")
    | none => bad
  | ["dump"] =>
    let r := stagedState a
    let st := match r.2 with | some kvs => showKVs kvs | none => "none"
    ({ d with app := r.1 }, "st=" ++ st ++ " db=" ++ showKVs (sortKV a.store) ++ " " ++ showTreeState a)
  | ["init", e, sel] =>
    match e.toNat? with
    | some e =>
      let last : Bytes :=
        if sel == "bad" then bogusRoot else (findRoot d.roots e).getD (params.smtRoot [])
      let r := init params a e last
      ({ d with app := r.1 }, (if r.2 then "ok " else "err ") ++ showTreeState r.1)
    | none => bad
  | _ => bad

def main : IO Unit := Driver.run ({} : DSt) step

end Driver.Exec
