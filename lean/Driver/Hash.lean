import Driver.Common
import LiskVerif.Model.Sha256

namespace Driver.Hash
open LiskVerif

def step (_ : Unit) (w : List String) : Unit × String :=
  ((), match w with
    | ["reset"] => "ok"
    | ["sha256", h] => match Hex.decode? h with
      | some b => Hex.encode (Sha256.hash b)
      | none => "bad-op"
    | _ => "bad-op")

def main : IO Unit := Driver.run () step
end Driver.Hash
