/-
C17LIVES driver: the request/response layer over several lives of the requesting node, executed on
Model/ReqRespLives.lean with ids FRESH across lives (what Props/C17_Id.lean proves about the code).

  reset            a responder, no life of the requester yet
  spawn            the requester node starts (same seed, same peer id as every earlier life)
  crash | stop     the current life ends (killed / closed); its pending requests die with it
  req              the current life issues a request; the remote handler receives it and holds it
  answer <r>       the remote handler of request r (numbered over all lives) answers now
  abandon <r>      the caller of request r (current life) cancels its context

Output of `answer`: `ok` (request r returned the answer to request r), `dropped` (nobody waits for that
id: "unknown request ID"), `misdelivered` (another request returned it — impossible in the model).
-/
import Driver.Common
import LiskVerif.Model.ReqRespLives

namespace Driver.ReqLives
open LiskVerif LiskVerif.ReqResp

def P (u : Nat) : Nat := u

structure RInfo where
  life : Nat
  k : Nat          -- index of the requester thread within its life
  id : Nat         -- wire id
  answered : Bool

structure DSt where
  st : LState := linit
  up : Bool := false
  started : Bool := false   -- some life has existed
  reqs : List RInfo := []

def runI (s : LState) (l : List Action) : Option LState := runL true P s (l.map .inner)

def runHdl (s : LState) (j : Nat) : Nat → Option LState
  | 0 => some s
  | fuel + 1 =>
    match s.cur.hdls[j]? with
    | some h => if h.pc == .done then some s else
      match stepL true P s (.inner (.hStep j)) with
      | some s' => runHdl s' j fuel
      | none => none
    | none => none

def waiting (s : LState) (k : Nat) : Bool := ((s.cur.reqs[k]?).map (·.pc)) == some .wait

def step (d : DSt) (w : List String) : DSt × String :=
  let bad := (d, "bad")
  let stuck := (d, "model-stuck")
  match w with
  | ["reset"] => ({}, "ok")
  | ["spawn"] =>
    if d.up then bad else
    if !d.started then ({ d with up := true, started := true }, "up") else
    match stepL true P d.st .restart with
    | some s => ({ d with st := s, up := true }, "up")
    | none => stuck
  | ["crash"] => if !d.up then bad else ({ d with up := false }, "down")
  | ["stop"] => if !d.up then bad else ({ d with up := false }, "down")
  | ["req"] =>
    if !d.up || d.reqs.length ≥ 24 then bad else
    let k := d.st.cur.reqs.length
    match runI d.st [.spawn 3, .rStep k, .rStep k, .rStep k, .rStep k, .rSendOk k] with
    | some s =>
      let id := ((s.cur.reqs[k]?).map (·.id)).getD 0
      ({ d with st := s, reqs := d.reqs ++ [{ life := s.lives, k := k, id := id, answered := false }] }, "sent")
    | none => stuck
  | ["answer", r] =>
    match r.toNat? with
    | some r =>
      match d.reqs[r]? with
      | some ri =>
        if !d.up || ri.answered then bad else
        let u0 := d.st.cur.unknown.length
        let j := d.st.cur.hdls.length
        match runI d.st [.nRespond ri.id, .nDeliver 0] >>= (runHdl · j 4) with
        | some s =>
          let d' := { d with st := s, reqs := d.reqs.set r { ri with answered := true } }
          if s.cur.unknown.length > u0 then (d', "dropped") else
          -- delivered: the requester that holds it returns it
          match (List.range s.cur.reqs.length).find? (fun k => waiting s k && ((s.cur.reqs[k]?).map (·.buf.isSome)) == some true) with
          | some k =>
            match runI s [.rRecv k, .rStep k, .rStep k, .rStep k] with
            | some s' =>
              let own := ri.life == s'.lives && ri.k == k
              let good := match s'.cur.reqs[k]? with
                | some q => q.out == some (.got ⟨q.id, expectedPayload P s' q⟩)
                | none => false
              ({ d' with st := s' }, if own && good then "ok" else "misdelivered")
            | none => stuck
          | none => (d', "dup")
        | none => stuck
      | none => bad
    | none => bad
  | ["abandon", r] =>
    match r.toNat? with
    | some r =>
      match d.reqs[r]? with
      | some ri =>
        if !d.up || ri.life != d.st.lives || !waiting d.st ri.k then bad else
        match runI d.st [.rCancel ri.k, .rStep ri.k, .rStep ri.k, .rStep ri.k] with
        | some s => ({ d with st := s }, "cancelled")
        | none => stuck
      | none => bad
    | none => bad
  | _ => (d, "bad-op")

def main : IO Unit := Driver.run ({} : DSt) step

end Driver.ReqLives
