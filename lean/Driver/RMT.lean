import Driver.Common
import LiskVerif.Model.RMT
import LiskVerif.Model.Sha256

/-! Line-protocol driver for C11 (regular Merkle tree); mirrors /verif/harness/c11. -/

namespace Driver.RMT
open LiskVerif LiskVerif.RMT

def hf : HashFns :=
  { leaf := fun d => Sha256.hash (0 :: d)
    branch := fun l r => Sha256.hash (1 :: (l ++ r))
    empty := Sha256.hash [] }

structure DSt where
  t : Tree := emptyTree hf
  data : List Bytes := []
  hashes : List Bytes := []
  lastQ : List Bytes := []
  lastP : Option Proof := none

def hexList (l : List Bytes) : String :=
  if l.isEmpty then "-" else String.intercalate "," (l.map Hex.encode)

def natList (l : List Nat) : String :=
  if l.isEmpty then "-" else String.intercalate "," (l.map toString)

def parseHexList (s : String) : Option (List Bytes) :=
  if s == "-" then some [] else
    (s.splitOn ",").mapM fun item => if item == "e" then some [] else Hex.decode? item

def parseNatList (s : String) : Option (List Nat) :=
  if s == "-" then some [] else (s.splitOn ",").mapM String.toNat?

def triple (c : Core) : String :=
  "root=" ++ Hex.encode c.root ++ " size=" ++ toString c.size ++ " path=" ++ hexList c.path

def be32 (n : Nat) : Bytes :=
  [UInt8.ofNat (n / 16777216 % 256), UInt8.ofNat (n / 65536 % 256), UInt8.ofNat (n / 256 % 256), UInt8.ofNat (n % 256)]

def genLeaf (seed : Bytes) (i mod : Nat) : Bytes :=
  seed ++ be32 (if mod > 0 then i % mod else i)

def doAppend (d : DSt) (v : Bytes) : Option DSt :=
  match append hf d.t v with
  | (t', true) => some { d with t := t', data := d.data ++ [v], hashes := d.hashes ++ [hf.leaf v] }
  | (_, false) => none

def appendMany (seed : Bytes) (mod : Nat) : Nat → DSt → Bytes → Option (DSt × Bytes)
  | 0, d, acc => some (d, acc)
  | k + 1, d, acc =>
    match doAppend d (genLeaf seed d.t.core.size mod) with
    | none => none
    | some d' => appendMany seed mod k d' (acc ++ d'.t.core.root)

def flip (b : Bytes) : Bytes :=
  match b with
  | [] => [1]
  | x :: r => (x ^^^ 1) :: r

def modifyAt {α : Type} (l : List α) (k : Nat) (f : α → α) : List α :=
  l.mapIdx fun i x => if i == k then f x else x

def tamper (mode : String) (q : List Bytes) (p : Proof) (root : Bytes) : Option (List Bytes × Proof × Bytes) :=
  let w := mode.splitOn ":"
  let k := (w.getD 1 "0").toNat?.getD 0
  match w.getD 0 "" with
  | "ok" => some (q, p, root)
  | "root" => some (q, p, flip root)
  | "q" => if q.isEmpty then some (q, p, root) else some (modifyAt q (k % q.length) flip, p, root)
  | "sib" =>
    if p.sibs.isEmpty then some (q, p, root)
    else some (q, { p with sibs := modifyAt p.sibs (k % p.sibs.length) flip }, root)
  | "idx" =>
    if p.idxs.isEmpty then some (q, p, root)
    else some (q, { p with idxs := modifyAt p.idxs (k % p.idxs.length) (· ^^^ 1) }, root)
  | "size" => some (q, { p with size := if k == 0 then p.size + 1 else p.size - 1 }, root)
  | "dropsib" => some (q, { p with sibs := p.sibs.dropLast }, root)
  | "addsib" => some (q, { p with sibs := p.sibs ++ [hf.empty] }, root)
  | "swapq" =>
    match q with
    | a :: b :: r => some (b :: a :: r, p, root)
    | _ => some (q, p, root)
  | _ => none

def prove (d : DSt) (q : List Bytes) : DSt × String :=
  match generateProof d.t q with
  | none => ({ d with lastQ := [], lastP := none }, "err")
  | some p =>
    ({ d with lastQ := q, lastP := some p },
      "size=" ++ toString p.size ++ " idxs=" ++ natList p.idxs ++ " sib=" ++ hexList p.sibs)

def absentHash (pos : Nat) : Bytes := hf.leaf ("absent-" ++ toString pos).toUTF8.toList

def distinct : List Nat → Bool
  | [] => true
  | a :: r => !r.contains a && distinct r

def setAll (l : List Bytes) : List Nat → List Bytes → List Bytes
  | p :: ps, v :: vs => setAll (l.set p v) ps vs
  | _, _ => l

def step (d : DSt) (w : List String) : DSt × String :=
  let bad := (d, "bad-op")
  match w with
  | "reset" :: _ => ({}, "ok")
  | "append" :: rest =>
    match (match rest with | [] => some [] | h :: _ => hexArg h) with
    | none => bad
    | some v =>
      match doAppend d v with
      | none => (d, "err")
      | some d' => (d', "ok " ++ triple d'.t.core)
  | "appendn" :: k :: seed :: rest =>
    match k.toNat?, hexArg seed with
    | some k, some seed =>
      let mod := (rest.head?.bind String.toNat?).getD 0
      match appendMany seed mod k d [] with
      | none => (d, "err")
      | some (d', acc) => (d', "ok " ++ triple d'.t.core ++ " acc=" ++ Hex.encode (Sha256.hash acc))
    | _, _ => bad
  | ["batchroot"] => (d, Hex.encode (root hf d.data))
  | "predict" :: rest =>
    match (match rest with | [] => some [] | h :: _ => hexArg h) with
    | none => bad
    | some v =>
      match rootFromAppendPath hf v d.t.core.path d.t.core.size with
      | none => (d, "panic")
      | some c => (d, triple c)
  | ["reload"] =>
    match reload d.t with
    | none => (d, "err")
    | some t' => ({ d with t := t' }, "ok " ++ triple t'.core)
  | ["prove", qs] =>
    match parseHexList qs with
    | none => bad
    | some q => prove d q
  | ["provepos", ps] =>
    match parseNatList ps with
    | none => bad
    | some ps => prove d (ps.map fun p => match d.hashes[p]? with | some h => h | none => absentHash p)
  | "verify" :: rest =>
    match d.lastP with
    | none => (d, "noproof")
    | some p =>
      match tamper (rest.headD "ok") d.lastQ p d.t.core.root with
      | none => bad
      | some (q, p, r) => (d, if verifyProof hf q p r then "true" else "false")
  | ["updproof", us] =>
    match d.lastP, parseHexList us with
    | none, _ => (d, "noproof")
    | some p, some upd =>
      match rootFromUpdateData hf upd p with
      | none => (d, "err")
      | some r => (d, Hex.encode r)
    | _, _ => bad
  | ["update", ps, us] =>
    match parseNatList ps, parseHexList us with
    | some ps, some upd =>
      let n := d.t.core.size
      let height := if n = 0 then 0 else getHeight n
      let idxs := ps.map fun p => 2 ^ height + p
      let valid := ps.length > 0 && ps.length == upd.length && ps.all (· < d.data.length) && distinct ps
      match update hf d.t idxs upd with
      | none => (d, "err")
      | some t' =>
        let d' := if valid then
            { d with t := t', data := setAll d.data ps upd, hashes := setAll d.hashes ps (upd.map hf.leaf) }
          else { d with t := t' }
        (d', "ok " ++ triple t'.core)
    | _, _ => bad
  -- crafted index lists (harness/c11/crafted.go): size and sibling hashes of the last proof, the given indexes
  | ["vcraft", is, qs] =>
    match d.lastP, parseNatList is, parseHexList qs with
    | none, _, _ => (d, "noproof")
    | some p, some idxs, some q =>
      (d, if verifyProof hf q { p with idxs := idxs } d.t.core.root then "true" else "false")
    | _, _, _ => bad
  | ["ucraft", is, us] =>
    match d.lastP, parseNatList is, parseHexList us with
    | none, _, _ => (d, "noproof")
    | some p, some idxs, some upd =>
      match rootFromUpdateData hf upd { p with idxs := idxs } with
      | none => (d, "err")
      | some r => (d, Hex.encode r)
    | _, _, _ => bad
  | ["updidx", is, us] =>
    match parseNatList is, parseHexList us with
    | some idxs, some upd =>
      match update hf d.t idxs upd with
      | none => (d, "err")
      | some t' =>
        let base := 2 ^ getHeight d.t.core.size
        let pairs := (idxs.zip upd).filter fun e => decide (base ≤ e.1) && decide (e.1 - base < d.data.length)
        let ps := pairs.map fun e => e.1 - base
        let vs := pairs.map (·.2)
        ({ d with t := t', data := setAll d.data ps vs, hashes := setAll d.hashes ps (vs.map hf.leaf) },
          "ok " ++ triple t'.core)
    | _, _ => bad
  | ["witness", i] =>
    match i.toNat? with
    | none => bad
    | some i =>
      match genWitness d.t i with
      | none => (d, "err")
      | some wit =>
        if i > d.hashes.length then (d, "w=" ++ hexList wit)
        else
          let partialPath := peaks hf (d.hashes.take i)
          match rootFromRightWitness hf i partialPath wit with
          | none => (d, "w=" ++ hexList wit ++ " root=-")
          | some r => (d, "w=" ++ hexList wit ++ " root=" ++ Hex.encode r)
  | ["rwraw", i, aps, rws] =>
    match i.toNat?, parseHexList aps, parseHexList rws with
    | some i, some ap, some rw =>
      match rootFromRightWitness hf i ap rw with
      | none => (d, "-")
      | some r => (d, Hex.encode r)
    | _, _, _ => bad
  | ["specpath", p] =>
    match p.toNat? with
    | none => bad
    | some p =>
      if p ≥ d.hashes.length then (d, "none")
      else
        let path := pathSpec hf d.hashes p
        let sides := String.ofList (path.map fun s => if s.1 then 'R' else 'L')
        (d, "sides=" ++ (if sides.isEmpty then "-" else sides) ++ " sib=" ++ hexList (path.map (·.2)))
  | ["nodes"] =>
    let nodes := nodeList hf d.hashes 0
    let badN := (nodes.filter fun e => d.t.getHash e.1 != some e.2).length
    (d, "nodes=" ++ toString nodes.length ++ " bad=" ++ toString badN)
  | _ => bad

def main : IO Unit := Driver.run ({} : DSt) step

end Driver.RMT
