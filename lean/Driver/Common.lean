/-
Line-protocol loop shared by all model drivers: one operation per input line, one result per line.
-/
import LiskVerif.Model.Util

namespace Driver
open LiskVerif

partial def loop {σ : Type} (hin : IO.FS.Stream) (hout : IO.FS.Stream) (st : σ)
    (step : σ → List String → σ × String) : IO Unit := do
  let line ← hin.getLine
  if line.isEmpty then
    hout.flush
    return ()
  let words := splitWords (line.trimAscii.toString)
  let (st', out) := step st words
  hout.putStrLn out
  loop hin hout st' step

def run {σ : Type} (init : σ) (step : σ → List String → σ × String) : IO Unit := do
  let hin ← IO.getStdin
  let hout ← IO.getStdout
  loop hin hout init step

def hexArg (s : String) : Option Bytes := Hex.decode? s

def boolArg (s : String) : Option Bool :=
  if s == "1" || s == "true" then some true
  else if s == "0" || s == "false" then some false else none

def intArg (s : String) : Option Int := s.toInt?

end Driver
