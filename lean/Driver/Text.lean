/-
Driver of the pseudo-property C09TEXT (harness/c09/text.go): the text-level Lisk32 model with explicit panics
(`Model/Lisk32Text.lean`) on arbitrary byte strings. Operations whose first word is `x` are model-free on the Go
side (endpoints, hex fields, names) and answered with `-`.
  validate <text>            -> true | false | panic
  tobytes  <text>            -> ok <bytes> | err | panic
  tolisk   <bytes>           -> ok <text> | err | panic
  unjson   <json> <string|!> -> ok <bytes> | err | panic   (second argument: the string encoding/json produced,
                                                             `!` if the JSON text is not a string)
-/
import Driver.Common
import LiskVerif.Model.Lisk32Text

namespace Driver.Text
open LiskVerif LiskVerif.Lisk32Text

def showBytes : Res Bytes → String
  | .ok b => "ok " ++ Hex.encode b
  | .err => "err"
  | .panic => "panic"

def step (_ : Unit) (w : List String) : Unit × String :=
  let r : String :=
    match w with
    | "reset" :: _ => "ok"
    | "x" :: _ => "-"
    | ["validate", hex] => match Hex.decode? hex with
      | some s => match goValidate s with
        | .ok () => "true"
        | .err => "false"
        | .panic => "panic"
      | none => "bad-op"
    | ["tobytes", hex] => match Hex.decode? hex with
      | some s => showBytes (goToBytes s)
      | none => "bad-op"
    | ["tolisk", hex] => match Hex.decode? hex with
      | some b => showBytes (goFromBytes b)
      | none => "bad-op"
    | ["unjson", _, "!"] => showBytes (goUnmarshal none)
    | ["unjson", _, hex] => match Hex.decode? hex with
      | some s => showBytes (goUnmarshal (some s))
      | none => "bad-op"
    | _ => "bad-op"
  ((), r)

def main : IO Unit := Driver.run () step

end Driver.Text
