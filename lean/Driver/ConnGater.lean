import Driver.Common
import LiskVerif.Model.RateLimit
import LiskVerif.Model.Envelope
import LiskVerif.Gen.Schemas

/-!
Line-protocol driver for C18 (connection gater, penalties, rate limiter).  See harness/c18/c18.go
for the op vocabulary.
-/
namespace Driver.ConnGater
open LiskVerif LiskVerif.ConnGater LiskVerif.RateLimit

abbrev DSt := Option Node

def parseIP (s : String) : Option IP :=
  match s.splitOn ":" with
  | [k, h] =>
    match Hex.decode? h with
    | some b =>
      if (k == "4" || k == "r") && b.length == 4 then some (canonIP b)
      else if (k == "6" || k == "z") && b.length == 16 then some (canonIP b)
      else none
    | none => none
  | _ => none

/-- address token `host/transport/pid` -/
def parseAddr (s : String) : Option Addr :=
  match s.splitOn "/" with
  | [h, _, p] =>
    let pid? : Option (Option Nat) := if p == "-" then some none else p.toNat?.map some
    match pid? with
    | none => none
    | some pid =>
      if h == "d" || h == "n" then some ⟨none, pid⟩
      else match parseIP h with
        | some ip => some ⟨some ip, pid⟩
        | none => none
  | _ => none

def ipStr (ip : IP) : String := Hex.encode ip

def sortStrs (l : List String) : List String := isort (fun a b => decide (a ≤ b)) l

def joinOr (l : List String) : String := if l.isEmpty then "-" else String.intercalate "," l

def entryStr (g : Gater) (a : Addr) : String :=
  match a.ip with
  | none => "noip"
  | some ip =>
    match find g.peerScore ip with
    | none => "-"
    | some i => toString i.score ++ "/" ++ toString i.expiration

def errStr : Err → String
  | .notRunning => "err-notrunning"
  | .notIP => "err-noip"
  | .noPeerID => "err-nopid"

def penOutStr : PenOut → String
  | .err e => errStr e
  | .ok _ => "ok"

/-- take and clear the ClosePeer log -/
def takeClosed (n : Node) : Node × String :=
  ({ n with closed := [] }, "d:" ++ joinOr (n.closed.map toString))

def dump (n : Node) : String :=
  let s := sortStrs (n.g.peerScore.map fun e => ipStr e.1 ++ "=" ++ toString e.2.score ++ "/" ++ toString e.2.expiration)
  let b := sortStrs (n.g.blocked.map ipStr)
  let c := n.conns.map fun c => toString c.1 ++ "@" ++ (match c.2.ip with | some ip => ipStr ip | none => "-")
  let r := sortStrs (n.counters.map fun c =>
    c.name ++ ":" ++ toString c.limit ++ ":" ++ toString c.penalty ++ "["
      ++ String.intercalate ";" (sortStrs ((c.counts.filter (·.2 ≠ 0)).map fun pc => toString pc.1 ++ "=" ++ toString pc.2)) ++ "]")
  "S:" ++ joinOr s ++ " B:" ++ joinOr b ++ " C:" ++ joinOr c ++ " R:" ++ joinOr r
    ++ " st=" ++ (if n.g.started then "1" else "0") ++ (if n.mpStarted then "1" else "0")
    ++ " h=" ++ toString n.handled

def parseKind (s : String) : Option MsgKind :=
  if s.startsWith "bad" then some .malformed
  else if s.startsWith "p:" then some (.proc (s.drop 2).toString)
  else none

/-- kind token of a `req` / `res` op. `bad<i>` / `p:<name>`: a message already classified by the
generator. `x:<hex>[:...]`: the raw bytes the stream delivered (`-` = none); `e:<hex>[:...]`: the remote
reset the stream (the read fails). Raw streams go through `Envelope.receiveStream`, i.e. they are
classified by the MODEL's decoder over the regenerated p2p schemas; whatever follows a second `:` is
the harness's own expectation and is not read here. -/
inductive KindTok
  | kind (k : MsgKind)
  | stream (s : Envelope.StreamIn)

def parseStream (s : String) : Option KindTok :=
  match s.splitOn ":" with
  | "x" :: h :: _ => (Hex.decode? h).map fun raw => .stream (.data raw)
  | "e" :: h :: _ => (Hex.decode? h).map fun _ => .stream .readError
  | _ => (parseKind s).map .kind

def receiveTok (n : Node) (t : Nat) (isReq : Bool) (a : Addr) (p : Nat) : KindTok → Node × Option MsgKind
  | .kind k => (receive n t isReq a p k, some k)
  | .stream s =>
    (Envelope.receiveStream Gen.allSchemas Codec.asciiNFC n t isReq a p s,
      match s with
      | .data raw => some (Envelope.kindOf Gen.allSchemas Codec.asciiNFC isReq raw)
      | .readError => none)

def parseIPList (s : String) : Option (List (Option IP)) :=
  if s == "-" then some [] else
    some ((s.splitOn ",").map fun t => if t.startsWith "x" then none else parseIP t)

def b01 (b : Bool) : String := if b then "1" else "0"

def stepNode (n : Node) (w : List String) : Node × String :=
  let bad := (n, "bad-op")
  match w with
  | ["start"] => ({ n with g := start n.g }, "ok")
  | ["reg", name] =>
    let (n', o) := register n name none
    (n', match o with | .ok => "ok" | .errStarted => "err-started" | .errExists => "err-exists")
  | ["reg", name, l, p] =>
    match l.toInt?, p.toInt? with
    | some l, some p =>
      let (n', o) := register n name (some (l, p))
      (n', match o with | .ok => "ok" | .errStarted => "err-started" | .errExists => "err-exists")
    | _, _ => bad
  | ["mpstart"] => (mpStart n, "ok")
  | ["pen", t, a, s] =>
    match t.toNat?, parseAddr a, s.toInt? with
    | some t, some a, some s =>
      let (g', r) := addPenalty n.g t a s
      ({ n with g := g' }, (match r with | .ok v => "ok " ++ toString v | .error e => errStr e)
        ++ " s=" ++ entryStr g' a)
    | _, _, _ => bad
  | ["ppen", t, a, s] =>
    match t.toNat?, parseAddr a, s.toInt? with
    | some t, some a, some s =>
      let (n', o) := nodeAddPenalty n t a s
      let (n'', d) := takeClosed n'
      (n'', penOutStr o ++ " " ++ d ++ " s=" ++ entryStr n''.g a)
    | _, _, _ => bad
  | ["ban", t, a] =>
    match t.toNat?, parseAddr a with
    | some t, some a =>
      let (n', o) := nodeBan n t a
      let (n'', d) := takeClosed n'
      (n'', penOutStr o ++ " " ++ d ++ " s=" ++ entryStr n''.g a)
    | _, _ => bad
  | ["applypen", t, p, s] =>
    match t.toNat?, p.toNat?, s.toInt? with
    | some t, some p, some s =>
      let (n', d) := takeClosed (applyPenalty n t p s)
      (n', d)
    | _, _, _ => bad
  | ["banpid", t, p] =>
    match t.toNat?, p.toNat? with
    | some t, some p =>
      let (n', d) := takeClosed (banPeerID n t p)
      (n', d)
    | _, _ => bad
  | ["sweep", t] =>
    match t.toNat? with
    | some t =>
      let g' := sweep n.g t
      ({ n with g := g' }, "B:" ++ joinOr (sortStrs ((listBanned g').map ipStr)))
    | none => bad
  | ["block", ip] =>
    match parseIP ip with
    | some ip => ({ n with g := blockAddr n.g ip }, "ok")
    | none => bad
  | ["unblock", ip] =>
    match parseIP ip with
    | some ip => ({ n with g := unblockAddr n.g ip }, "ok")
    | none => bad
  | ["blacklist", l] =>
    match parseIPList l with
    | some l =>
      let (g', ok) := blacklist n.g l
      ({ n with g := g' }, if ok then "ok" else "err-invalid")
    | none => bad
  | ["gate", a, p] =>
    match parseAddr a, p.toNat? with
    | some a, some p =>
      (n, b01 (interceptPeerDial n.g p) ++ b01 (interceptAddrDial n.g p a) ++ b01 (interceptAccept n.g a)
        ++ b01 (interceptSecured n.g true p a) ++ b01 (interceptSecured n.g false p a)
        ++ b01 (interceptUpgraded n.g))
    | _, _ => bad
  | ["connect", dir, a, p] =>
    match parseAddr a, p.toNat? with
    | some a, some p =>
      let (n', ok) := connect n (dir == "in") a p
      (n', if ok then "ok" else "refused")
    | _, _ => bad
  | ["disc", p] =>
    match p.toNat? with
    | some p => ((takeClosed (disconnect n p)).1, "ok")
    | none => bad
  | ["rlinc", proc, p] =>
    match p.toNat? with
    | some p =>
      if (findCounter n.counters proc).isNone then (n, "panic") else
      let n' := increase n proc p
      (n', toString (count n' proc p))
    | none => bad
  | ["rlcheck", t, proc, p, a] =>
    match t.toNat?, p.toNat?, parseAddr a with
    | some t, some p, some a =>
      let (n', o, _) := checkLimit n t proc p a
      let (n'', d) := takeClosed n'
      (n'', (match o with
        | .ok => "ok" | .notStarted => "err-notstarted" | .unknownProc => "panic"
        | .penErr e => errStr e) ++ " " ++ d ++ " c=" ++ toString (count n'' proc p)
        ++ " s=" ++ entryStr n''.g a)
    | _, _, _ => bad
  | ["tick"] => (tick n, "ok")
  | [op, t, a, p, k] =>
    if op == "req" || op == "res" then
      match t.toNat?, parseAddr a, p.toNat?, parseStream k with
      | some t, some a, some p, some k =>
        if !n.mpStarted then (n, "not-started") else
        let (n1, kind) := receiveTok n t (op == "req") a p k
        let (n', d) := takeClosed n1
        let c := match kind with
          | some (.proc name) => if (findCounter n'.counters name).isSome then toString (count n' name p) else "-"
          | _ => "-"
        (n', "h=" ++ toString n'.handled ++ " " ++ d ++ " s=" ++ entryStr n'.g a ++ " c=" ++ c)
      | _, _, _, _ => bad
    else bad
  | ["dump"] => (n, dump n)
  | _ => bad

def step (st : DSt) (w : List String) : DSt × String :=
  match w with
  | ["reset", e, i] =>
    match e.toInt?, i.toInt? with
    | some e, some i =>
      match mk? e i with
      | some g => (some { g := g }, "ok")
      | none => (none, "err-duration")
    | _, _ => (none, "bad-op")
  | _ =>
    match st with
    | none => (none, "no-node")
    | some n => let (n', o) := stepNode n w; (some n', o)

def main : IO Unit := Driver.run (none : DSt) step

end Driver.ConnGater
