import Driver.Common
import LiskVerif.Model.GenStatus
import LiskVerif.Gen.Fns

/-! Line-protocol driver for C15STATUS (generator RPC endpoint + `Generator.Init` over the generator
database). See /verif/harness/c15status/c15status.go for the protocol.

The chain's maxHeightPrevoted after every chain step is an INPUT of the model (as in
Model/Generator.lean). The driver supplies it from the rule of the harness' chain environment
(validator weights 1,1,1,9: a block of the "king" at height h above everything the king generated
before moves maxHeightPrevoted to h, no other block moves it, nothing is finalized), keeps the
values per height so that a deletion returns to the older value, and evaluates `HeaderHasPriority`
(regenerated from the Go source, `Gen.headerHasPriority`) on the tip header to obtain the `synced`
input of the model's `update`. The real values are printed by the harness in every output line
(`t=<height>/<maxHeightPrevoted>`), so the rule itself is checked on every op. -/

namespace Driver.GenStatus
open LiskVerif LiskVerif.Generator LiskVerif.GenStatus

structure DSt where
  s : SState := {}
  hist : List Nat := []                 -- chain maxHeightPrevoted after height n, n-1, …, 1
  file : List (Nat × KeyKind) := []     -- the keys file
  kingMax : Nat := 0                    -- largest height the king generated (its maxHeightGenerated)

def addr (v : Nat) : Bytes := [UInt8.ofNat v]

def kvStr (key : String) (w : List String) : Option String :=
  w.findSome? fun x =>
    match x.splitOn "=" with
    | [k, v] => if k == key then some v else none
    | _ => none

def kvNat (key : String) (w : List String) : Option Nat := (kvStr key w).bind String.toNat?

def tracked : List Nat := [0, 1, 2, 9]

def showRec : Option Info → String
  | some i => s!"{i.height}/{i.mhp}/{i.mhg}"
  | none => "-"

def showKey : Option KeyKind → String
  | none => "-"
  | some .plain => "p"
  | some (.encrypted _) => "e"
  | some .unusable => "u"

def commaOr (l : List String) : String := if l.isEmpty then "-" else String.intercalate "," l

def tail (d : DSt) : String :=
  let infos := String.join (tracked.map fun v => s!" i{v}={showRec (lookupInfo d.s.gs.infos v)}")
  let en := commaOr ((tracked.filter fun v => isEnabled d.s v).map toString)
  let ks := String.join (tracked.map fun v => showKey (getKey d.s.keys v))
  s!" t={d.s.gs.height}/{d.s.gs.mhp} |{infos} en={en} k={ks}"

def parseFileTok (v : Nat) (t : String) : Option (List (Nat × KeyKind)) :=
  if t == "-" then some []
  else if t == "p" then some [(v, .plain)]
  else if t.startsWith "e" then (t.drop 1).toNat?.map fun n => [(v, .encrypted n)]
  else none

def parseFile (s : String) : Option (List (Nat × KeyKind)) :=
  match s.splitOn "," with
  | [a, b] => do
    let x ← parseFileTok 0 a
    let y ← parseFileTok 1 b
    pure (x ++ y)
  | _ => none

/-- the header of the tip as far as `HeaderHasPriority` reads it: the genesis block has version 0; a
block's maxHeightPrevoted is the chain's value before the block -/
def tipHdr (d : DSt) : Hdr :=
  { version := if d.s.gs.height = 0 then 0 else 2
    height := d.s.gs.height
    generatorAddress := []
    maxHeightGenerated := 0
    maxHeightPrevoted := (d.hist.drop 1).headD 0 }

def showUpd : UpdRes → String
  | .badParams => "err:params"
  | .notStored => "err:notstored"
  | .badKeys => "err:keys"
  | .badPassword => "err:password"
  | .disabled => "disabled"
  | .notSynced => "err:notsynced"
  | .contradicting => "err:contradicting"
  | .noPrevious => "err:noprevious"
  | .enabled => "enabled"
  | .crashed => "crashed"

def forgeOp (d : DSt) (v : Nat) (o : Outcome) (m : Nat) (crash : Bool) : DSt × String :=
  let h := mkHeader addr d.s.gs v
  let (s', r) := GenStatus.forge .fixed addr d.s v o m
  match r with
  | .notEnabled => (d, "noforge" ++ tail d)
  | .forged =>
    let hist' := if o == .applied then m :: d.hist else d.hist
    let s'' := if crash then restart .fixed addr s' [] else s'
    let d' := { d with s := s'', hist := hist' }
    let acc := if o == .applied then "1" else "0"
    (d', s!"forged h={h.height} g={h.maxHeightGenerated} p={h.maxHeightPrevoted} acc={acc}" ++ tail d')

def isort' (l : List Nat) : List Nat := isort (fun a b => decide (a ≤ b)) l

def step (d : DSt) (w : List String) : DSt × String :=
  let bad := (d, "bad-op")
  let fin (d' : DSt) (r : String) : DSt × String := (d', r ++ tail d')
  match w with
  | "reset" :: rest =>
    match (kvStr "file" rest).bind parseFile with
    | some file =>
      let d' : DSt := { s := restart .fixed addr {} file, file := file }
      fin d' "ok"
    | none => bad
  | ["ext"] =>
    let h := d.s.gs.height + 1
    let m := if d.kingMax < h then h else d.s.gs.mhp
    fin { d with s := applyS .fixed addr d.s (.ext m), hist := m :: d.hist, kingMax := max d.kingMax h } "ext"
  | ["del", k] =>
    match k.toNat? with
    | some k =>
      let k := min k d.s.gs.height
      let hist' := d.hist.drop k
      fin { d with s := applyS .fixed addr d.s (.del k (hist'.headD 0)), hist := hist' } "del"
    | none => bad
  | ["forge", v] =>
    match v.toNat? with
    | some v => forgeOp d v .applied d.s.gs.mhp false
    | none => bad
  | ["forgedrop", v] =>
    match v.toNat? with
    | some v => forgeOp d v .dropped 0 false
    | none => bad
  | ["forgecrash", v] =>
    match v.toNat? with
    | some v => forgeOp d v .dropped 0 true
    | none => bad
  | [op, f] =>
    if op == "restart" || op == "crash" then
      match kvNat "f" [f] with
      | some f => fin { d with s := restart .fixed addr d.s (if f == 1 then d.file else []) } "ok"
      | none => bad
    else if op == "haskeys" then
      match f.toNat? with
      | some v => (d, if hasKeys d.s v then "has=1" else "has=0")
      | none => bad
    else if op == "badjson" then fin d "err:params"
    else bad
  | "update" :: v :: rest =>
    match v.toNat?, kvNat "pw" rest, kvNat "en" rest, kvNat "h" rest, kvNat "p" rest, kvNat "g" rest with
    | some v, some pw, some en, some h, some p, some g =>
      let c : CrashPt := match kvStr "c" rest with
        | some "b" => .beforeWrite
        | some "a" => .afterWrite
        | _ => .none
      let synced := Gen.headerHasPriority (tipHdr d) h p g
      let (s', r) := update .fixed addr d.s { v := v, pw := pw, enable := en == 1, height := h, mhp := p, mhg := g } synced c
      fin { d with s := s' } (showUpd r)
    | _, _, _, _, _, _ => bad
  | ["setstatus", v, h, p, g] =>
    match v.toNat?, kvNat "h" [h], kvNat "p" [p], kvNat "g" [g] with
    | some v, some h, some p, some g =>
      let (s', r) := setStatus d.s v h p g
      fin { d with s := s' } (if r == .ok then "ok" else "err:params")
    | _, _, _, _ => bad
  | ["getstatus"] =>
    let st := getStatus d.s
    let ents := (isort' (st.map (·.1))).filterMap fun v =>
      (st.find? fun e => e.1 == v).map fun e =>
        s!"{e.1}:{if e.2.1 then 1 else 0}:{e.2.2.height}/{e.2.2.mhp}/{e.2.2.mhg}"
    (d, "status " ++ commaOr ents)
  | ["setkeys", v, k] =>
    match v.toNat? with
    | some v =>
      if k == "p" || k == "e" then fin { d with s := setKeys d.s v (k == "p") } "ok" else bad
    | none => bad
  | ["allkeys"] =>
    let ents := (isort' (d.s.keys.map (·.1))).filterMap fun v =>
      (getKey d.s.keys v).map fun k => s!"{v}:{if k == KeyKind.plain then "plain" else "encrypted"}"
    (d, "keys " ++ commaOr ents)
  | _ => bad

def main : IO Unit := Driver.run ({} : DSt) step

end Driver.GenStatus
