/-
Line-protocol driver for the block-cache model `LiskVerif.CacheModel` (`Lemmas/LocksData.lean`,
core-only), pseudo-property C20CACHE: ties the model about which `Props/C20_Data.lean` proves the
data-level clause of C20 to `/repo/pkg/blockchain/block_cache.go`.

Ops (one output line each):
  reset <maxSize>            newBlockCache(maxSize); the block serial counter restarts at 0     -> ok
  push <idhex> <height>      push(&Block{ID, Height})                                -> ok | err-height | err-oldest
  pop                        pop()                                                   -> nil | <blk>
  last                       last()                                                  -> none | some <blk>
  get <idhex>                get(id)                                                 -> none | some <blk>
  byheight <h>               getByHeight(h)                                          -> none | some <blk>
  len                        len()                                                   -> <int>
  replace <id:h,id:h,...|->  replace(blocks)                                         -> ok
  dump                       blocks=<id>=<blk>,..|- index=<h>=<id>,..|- size=<int> cur=<h> max=<n>
                             (both maps sorted by key)
<blk> = <idhex>:<height>:<serial>. Every block object made by `push` / `replace` gets the next serial
(the model's `Blk.body`; the harness stores it in `Header.Timestamp`), so that two block objects with the
same id and height are told apart, as Go's pointers are. Heights are `uint32` (anything else: `bad-op`),
`maxSize` is a non-negative `int`. A `bad-op` changes nothing (no serial is consumed).
-/
import Driver.Common
import LiskVerif.Lemmas.LocksData

namespace Driver.Cache
open LiskVerif LiskVerif.CacheModel

structure DSt where
  c : Cache := newBlockCache 0
  ctr : Nat := 0

/-- decimal natural number: digits only (no sign, no `_`), as `strconv.ParseUint(s, 10, _)` -/
def natArg (s : String) : Option Nat :=
  let cs := s.toList
  if cs.isEmpty || !cs.all (fun c => '0' ≤ c && c ≤ '9') then none
  else some (cs.foldl (fun n c => n * 10 + (c.toNat - 48)) 0)

def u32Arg (s : String) : Option Nat :=
  match natArg s with
  | some n => if n < u32 then some n else none
  | none => none

/-- `maxSize`: a non-negative Go `int` (64 bit) -/
def sizeArg (s : String) : Option Nat :=
  match natArg s with
  | some n => if n < 9223372036854775808 then some n else none
  | none => none

def showBlk (b : Blk) : String := Hex.encode b.id ++ ":" ++ toString b.height ++ ":" ++ toString b.body

def showOpt : Option Blk → String
  | none => "none"
  | some b => "some " ++ showBlk b

def joinOrDash (l : List String) : String := if l.isEmpty then "-" else String.intercalate "," l

def dump (c : Cache) : String :=
  let bs := c.cachedBlocks.mergeSort (fun a b => ble a.1 b.1)
  let ix := c.heightIndex.mergeSort (fun a b => decide (a.1 ≤ b.1))
  "blocks=" ++ joinOrDash (bs.map fun e => Hex.encode e.1 ++ "=" ++ showBlk e.2)
    ++ " index=" ++ joinOrDash (ix.map fun e => toString e.1 ++ "=" ++ Hex.encode e.2)
    ++ " size=" ++ toString c.size ++ " cur=" ++ toString c.currentHeight ++ " max=" ++ toString c.maxSize

/-- `id:h,id:h,...` or `-` (no blocks): ids and heights, serials are assigned by `number` -/
def parseBlocks (s : String) : Option (List (ID × Nat)) :=
  if s == "-" then some [] else
    (s.splitOn ",").mapM fun item =>
      match item.splitOn ":" with
      | [i, h] => do
        let i ← hexArg i
        let h ← u32Arg h
        pure (i, h)
      | _ => none

def number : Nat → List (ID × Nat) → List Blk
  | _, [] => []
  | n, (i, h) :: r => { id := i, height := h, body := n } :: number (n + 1) r

def step (d : DSt) (w : List String) : DSt × String :=
  let bad := (d, "bad-op")
  match w with
  | ["reset", m] =>
    match sizeArg m with
    | some m => ({ c := newBlockCache m, ctr := 0 }, "ok")
    | none => bad
  | ["push", i, h] =>
    match hexArg i, u32Arg h with
    | some i, some h =>
      let (c', e) := push d.c { id := i, height := h, body := d.ctr }
      ({ c := c', ctr := d.ctr + 1 },
        match e with
        | none => "ok"
        | some .heightMismatch => "err-height"
        | some .oldestMissing => "err-oldest")
    | _, _ => bad
  | ["pop"] =>
    let (c', b) := pop d.c
    ({ d with c := c' }, match b with | none => "nil" | some b => showBlk b)
  | ["last"] => (d, showOpt (last d.c))
  | ["get", i] =>
    match hexArg i with
    | some i => (d, showOpt (get d.c i))
    | none => bad
  | ["byheight", h] =>
    match u32Arg h with
    | some h => (d, showOpt (getByHeight d.c h))
    | none => bad
  | ["len"] => (d, toString (len d.c))
  | ["replace", l] =>
    match parseBlocks l with
    | some l => ({ c := replace d.c (number d.ctr l), ctr := d.ctr + l.length }, "ok")
    | none => bad
  | ["dump"] => (d, dump d.c)
  | _ => bad

def main : IO Unit := Driver.run ({} : DSt) step

end Driver.Cache
