import Driver.Common
import LiskVerif.Model.SMTSpec
import LiskVerif.Model.SMTVerify
import LiskVerif.Model.SMTBatch
import LiskVerif.Model.SMTWire
import LiskVerif.Model.Sha256

/-
C10 driver.  ops:
  reset <keylen> [<subtree height>]    -> ok
  update k=v,k=v,...|-                 -> root of the accumulated map (SMT.mapRoot with SHA-256)
  reopen                               -> root
  uniq k=v,...|-                       -> the batch normalised by UniqueAndSort (Model/SMTBatch.lean): k=v,...|-
  nupdate k=v,...|-                    -> update with the normalised batch
  prove k,k,...|-                      -> S:<hashes> Q:<key:value:bitmap;...>  | err
  verify <tag> <root> <keylen> <keys> <siblings> <queries>  -> true|false|err  (single query: + /1:<verify1>)
  reverify <n> same|copy|wire          -> the verdict for the arguments of the n-th most recent verify op, computed
                                          again (`wire`: for the proof after Encode / Decode through the codec
                                          model and the regenerated smt.Proof schema, Model/SMTWire.lean) | none
-/
namespace Driver.SMT
open LiskVerif LiskVerif.SMT LiskVerif.SMTVerify

structure DSt where
  keyLen : Nat := 32
  m : List KV := []
  tree : Option HT := none
  /-- arguments of the verify ops so far, newest first -/
  hist : List (Bytes × Nat × List Bytes × Proof) := []

def H : HashFn := Sha256.hash

def parseList (s : String) (sep : String) : List String :=
  if s == "-" then [] else s.splitOn sep

def parseHexList (s : String) : Option (List Bytes) := (parseList s ",").mapM Hex.decode?

def parseKVs (s : String) : Option (List KV) :=
  (parseList s ",").mapM fun item =>
    match item.splitOn "=" with
    | [k, v] => do
      let k ← Hex.decode? k
      let v ← Hex.decode? v
      pure (k, v)
    | _ => none

def parseQueries (s : String) : Option (List Query) :=
  (parseList s ";").mapM fun item =>
    match item.splitOn ":" with
    | [k, v, b] => do
      let k ← Hex.decode? k
      let v ← Hex.decode? v
      let b ← Hex.decode? b
      pure ⟨k, v, b⟩
    | _ => none

def showList (l : List String) (sep : String) : String :=
  if l.isEmpty then "-" else String.intercalate sep l

def showProof (p : Proof) : String :=
  "S:" ++ showList (p.siblings.map Hex.encode) "," ++ " Q:" ++
    showList (p.queries.map fun q => Hex.encode q.key ++ ":" ++ Hex.encode q.value ++ ":" ++ Hex.encode q.bitmap) ";"

/-- the output of a `verify` / `reverify` op -/
def showVerify (rt : Bytes) (kl : Nat) (keys : List Bytes) (p : Proof) : String :=
  let s := match verify H keys p rt kl with
    | .ok true => "true"
    | .ok false => "false"
    | .err => "err"
  let s1 := match keys, p.queries with
    | [k], [q] => "/1:" ++ toString (verifySingle H kl k q p.siblings rt)
    | _, _ => ""
  s ++ s1

def step (d : DSt) (w : List String) : DSt × String :=
  let bad := (d, "bad-op")
  match w with
  | ["reset", n] =>
    match n.toNat? with
    | some n => ({ keyLen := n }, "ok")
    | none => bad
  | ["reset", n, _subtreeHeight] =>  -- the storage layout does not enter the specification
    match n.toNat? with
    | some n => ({ keyLen := n }, "ok")
    | none => bad
  | ["update", kvs] =>
    match parseKVs kvs with
    | some b =>
      let m' := applyBatch d.m b
      ({ d with m := m', tree := none }, Hex.encode (mapRoot H d.keyLen m'))
    | none => bad
  | ["reopen"] => (d, Hex.encode (mapRoot H d.keyLen d.m))
  | ["evroot", kvs] =>  -- event root of a block: the spec root of the pair map (12-byte keys), state untouched
    match parseKVs kvs with
    | some b => (d, Hex.encode (mapRoot H 12 (applyBatch [] b)))
    | none => bad
  | ["uniq", kvs] =>
    match parseKVs kvs with
    | some b => (d, showList ((uniqueAndSort b).map fun kv => Hex.encode kv.1 ++ "=" ++ Hex.encode kv.2) ",")
    | none => bad
  | ["nupdate", kvs] =>
    match parseKVs kvs with
    | some b =>
      let m' := applyBatch d.m (uniqueAndSort b)
      ({ d with m := m', tree := none }, Hex.encode (mapRoot H d.keyLen m'))
    | none => bad
  | ["prove", ks] =>
    match parseHexList ks with
    | some keys =>
      let t := match d.tree with
        | some t => t
        | none => buildH H (8 * d.keyLen) (entriesOf d.m)
      ({ d with tree := some t }, match prove H d.keyLen t keys with
        | some p => showProof p
        | none => "err")
    | none => bad
  | ["verify", _tag, rt, kl, ks, sibs, qs] =>
    match Hex.decode? rt, kl.toNat?, parseHexList ks, parseHexList sibs, parseQueries qs with
    | some rt, some kl, some keys, some sibs, some qs =>
      ({ d with hist := (rt, kl, keys, ⟨sibs, qs⟩) :: d.hist }, showVerify rt kl keys ⟨sibs, qs⟩)
    | _, _, _, _, _ => bad
  | ["reverify", n, mode] =>
    match n.toNat? with
    | none => bad
    | some n =>
      match (if n = 0 then none else d.hist[n - 1]?) with
      | none => (d, "none")
      | some (rt, kl, keys, p) =>
        if mode == "same" || mode == "copy" then (d, showVerify rt kl keys p)
        else if mode == "wire" then
          match SMTWire.wireClone Codec.asciiNFC p with
          | some p' => (d, showVerify rt kl keys p')
          | none => (d, "wire-err")
        else bad
  | _ => bad

def main : IO Unit := Driver.run ({} : DSt) step

end Driver.SMT
