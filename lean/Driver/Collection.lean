/-
Line-protocol driver for `LiskVerif.Collection` (model of /repo/pkg/collection/**), pseudo-property
LIBCOLL.  One op per exported function.

Tokens
  <hex>      byte string: lower-case hex, `-` = empty, `nil` = nil slice (the model treats it as empty)
  <hexlist>  `[]` = empty list, `nil` = nil slice, else <hex>,<hex>,...   (elements may be `-` / `nil`)
  <int>      decimal, optional leading `-`
  <intlist>  `[]` | `nil` | <int>,<int>,...   all elements in [-2^63, 2^63) or all in [0, 2^64)
  <bits>     `[]` | `nil` | string of `0` / `1`
  <pred>     T | F | lt:N | le:N | gt:N | ge:N | eq:N | ne:N | mod:M:R (x mod M = R, M > 0) | in:a;b;c
  results    lists are printed in the same syntax; this driver never prints `nil` (the package never
             returns a nil slice); `panic` for every Go panic; `bad-op` for malformed ops

Ops
  reset                                  -> ok
  copy <intlist>                         collection.Copy            -> <intlist>
  equal <intlist> <intlist>              collection.Equal           -> true|false
  find <intlist> <pred>                  collection.Find            -> <int> | zero
  findindex <intlist> <pred>             collection.FindIndex       -> <int>
  insert <intlist> <index> <int>         collection.Insert          -> <intlist> | panic
  prefix <intlist> <intlist>             collection.CommonPrefix    -> <intlist>
  reverse <intlist>                      collection.Reverse         -> <intlist>
  bsearch <intlist> <pred>               collection.BinarySearch    -> <int> | panic
  beq <hex> <hex>                        bytes.Equal                -> true|false
  bcmp <hex> <hex>                       bytes.Compare              -> -1|0|1
  repeat <hex> <count>                   bytes.Repeat               -> <hex> | panic
  newreader <hex>                        bytes.NewReader            -> <Len> <Size> <ReadAll hex>
  isbitset <hex> <index>                 bytes.IsBitSet             -> true|false|panic
  frombools <bits>                       bytes.FromBools            -> <hex>
  tobools <hex>                          bytes.ToBools              -> <bits>
  bcopy <hex>                            bytes.Copy                 -> <hex>
  bfindindex <hexlist> <hex>             bytes.FindIndex            -> <int>
  fromu16|fromu32|fromu64 <n>            bytes.FromUint16/32/64     -> <hex>     (n outside the type: bad-op)
  tou32|tou64 <hex>                      bytes.ToUint32/64          -> <n> | panic
  join <hexlist>                         bytes.Join                 -> <hex>
  joinsize <size> <hexlist>              bytes.JoinSize             -> <hex> | panic
  joinslice <hexlist> <hexlist>          bytes.JoinSlice            -> <hexlist>
  bsort <hexlist>                        bytes.Sort                 -> <hexlist>
  bissorted <hexlist>                    bytes.IsSorted             -> true|false
  breverse <hex>                         bytes.Reverse              -> <hex>
  bunique <hexlist>                      bytes.Unique               -> <hexlist> (ascending; the harness sorts)
  bisunique <hexlist>                    bytes.IsUnique             -> true|false
  iinclude <intlist> <int>               ints.Include               -> true|false
  imax|imin <intlist>                    ints.Max / ints.Min        -> <int> | panic
  iunique <intlist>                      ints.Unique                -> <intlist> (ascending; the harness sorts)
  iisunique <intlist>                    ints.IsUnique              -> true|false
  scontain <hexlist> <hex>               strings.Contain            -> true|false   (strings = hex of their bytes)
  sunique <hexlist>                      strings.Unique             -> <hexlist> (ascending; the harness sorts)
  sisunique <hexlist>                    strings.IsUnique           -> true|false
  genrandom <n>                          strings.GenerateRandom     -> len=<n> alpha=true | panic
-/
import Driver.Common
import LiskVerif.Model.Collection

namespace Driver.Collection
open LiskVerif LiskVerif.Collection

def natArg (s : String) : Option Nat :=
  let cs := s.toList
  if cs.isEmpty || !cs.all (fun c => '0' ≤ c && c ≤ '9') then none
  else some (cs.foldl (fun n c => n * 10 + (c.toNat - 48)) 0)

/-- decimal integer with optional `-` (no `+`, `-0` is not canonical and rejected) -/
def intArg' (s : String) : Option Int :=
  match s.toList with
  | '-' :: r =>
    match natArg (String.ofList r) with
    | some n => if n = 0 then none else some (-(n : Int))
    | none => none
  | _ => (natArg s).map (fun n => (n : Int))

/-- canonical decimal only (no leading zeros), so that printing a parsed token gives the token back -/
def canonInt (s : String) : Option Int :=
  match intArg' s with
  | some i => if toString i == s then some i else none
  | none => none

def i63 : Int := 9223372036854775808
def u64 : Int := 18446744073709551616

/-- a Go `int` argument -/
def goInt (s : String) : Option Int :=
  match canonInt s with
  | some i => if -i63 ≤ i && i < i63 then some i else none
  | none => none

/-- all values fit one Go integer type (`int64` or `uint64`) -/
def oneType (l : List Int) : Bool :=
  l.all (fun i => -i63 ≤ i && i < i63) || l.all (fun i => 0 ≤ i && i < u64)

def intList (s : String) : Option (List Int) :=
  if s == "[]" || s == "nil" then some [] else
    match (s.splitOn ",").mapM canonInt with
    | some l => if oneType l then some l else none
    | none => none

/-- two lists of one element type -/
def intList2 (a b : String) : Option (List Int × List Int) :=
  match intList a, intList b with
  | some a, some b => if oneType (a ++ b) then some (a, b) else none
  | _, _ => none

/-- the list with one more value must still fit one Go integer type -/
def intListWith (s : String) (v : String) : Option (List Int × Int) :=
  match intList s, canonInt v with
  | some l, some x =>
    let l' := x :: l
    if l'.all (fun i => -i63 ≤ i && i < i63) || l'.all (fun i => 0 ≤ i && i < u64) then some (l, x) else none
  | _, _ => none

def showInts (l : List Int) : String :=
  if l.isEmpty then "[]" else String.intercalate "," (l.map toString)

def hexTok (s : String) : Option Bytes :=
  if s == "nil" then some [] else
  if s.isEmpty then none else
  if s.toList.any (fun c => 'A' ≤ c && c ≤ 'F') then none else Hex.decode? s

def hexList (s : String) : Option (List Bytes) :=
  if s == "[]" || s == "nil" then some [] else (s.splitOn ",").mapM hexTok

def showHexList (l : List Bytes) : String :=
  if l.isEmpty then "[]" else String.intercalate "," (l.map Hex.encode)

def bitsTok (s : String) : Option (List Bool) :=
  if s == "[]" || s == "nil" then some [] else
    s.toList.mapM (fun c => if c == '0' then some false else if c == '1' then some true else none)

def showBits (l : List Bool) : String :=
  if l.isEmpty then "[]" else String.ofList (l.map (fun b => if b then '1' else '0'))

def showBool (b : Bool) : String := if b then "true" else "false"

/-- constant of a predicate: any value of `int64` or `uint64` -/
def predInt (s : String) : Option Int :=
  match canonInt s with
  | some i => if -i63 ≤ i && i < u64 then some i else none
  | none => none

/-- canonical natural number below 2^63 -/
def natCanon (s : String) : Option Nat :=
  match canonInt s with
  | some i => if 0 ≤ i && i < i63 then some i.toNat else none
  | none => none

def parsePred (s : String) : Option (Int → Bool) :=
  match s.splitOn ":" with
  | ["T"] => some (fun _ => true)
  | ["F"] => some (fun _ => false)
  | ["lt", n] => (predInt n).map (fun n x => decide (x < n))
  | ["le", n] => (predInt n).map (fun n x => decide (x ≤ n))
  | ["gt", n] => (predInt n).map (fun n x => decide (x > n))
  | ["ge", n] => (predInt n).map (fun n x => decide (x ≥ n))
  | ["eq", n] => (predInt n).map (fun n x => decide (x = n))
  | ["ne", n] => (predInt n).map (fun n x => decide (x ≠ n))
  | ["mod", m, r] =>
    match natCanon m, natCanon r with
    | some m, some r => if m = 0 then none else some (fun x => decide (x.emod (m : Int) = (r : Int)))
    | _, _ => none
  | ["in", l] =>
    match (l.splitOn ";").mapM predInt with
    | some l => some (fun x => l.contains x)
    | none => none
  | _ => none

def showR {α : Type} (f : α → String) : R α → String
  | .ok a => f a
  | .error _ => "panic"

def step (st : Unit) (w : List String) : Unit × String :=
  let bad := (st, "bad-op")
  let out (s : String) := (st, s)
  match w with
  | ["reset"] => out "ok"
  | ["copy", l] =>
    match intList l with
    | some l => out (showInts (Collection.copy l))
    | none => bad
  | ["equal", a, b] =>
    match intList2 a b with
    | some (a, b) => out (showBool (equal a b))
    | none => bad
  | ["find", l, p] =>
    match intList l, parsePred p with
    | some l, some p =>
      -- `zero` is printed for the zero value returned when nothing matches (told apart from a
      -- matching element 0 on both sides by the Go runner's own scan)
      out (if l.any p then toString (find (0 : Int) l p) else "zero")
    | _, _ => bad
  | ["findindex", l, p] =>
    match intList l, parsePred p with
    | some l, some p => out (toString (findIndex l p))
    | _, _ => bad
  | ["insert", l, i, v] =>
    match intListWith l v, goInt i with
    | some (l, v), some i => out (showR showInts (insert l i v))
    | _, _ => bad
  | ["prefix", a, b] =>
    match intList2 a b with
    | some (a, b) => out (showInts (commonPrefix a b))
    | none => bad
  | ["reverse", l] =>
    match intList l with
    | some l => out (showInts (reverse l))
    | none => bad
  | ["bsearch", l, p] =>
    match intList l, parsePred p with
    | some l, some p => out (showR toString (binarySearch l p))
    | _, _ => bad
  | ["beq", a, b] =>
    match hexTok a, hexTok b with
    | some a, some b => out (showBool (bytesEqual a b))
    | _, _ => bad
  | ["bcmp", a, b] =>
    match hexTok a, hexTok b with
    | some a, some b => out (toString (bytesCompare a b))
    | _, _ => bad
  | ["repeat", b, c] =>
    match hexTok b, goInt c with
    | some b, some c =>
      -- results the Go process could not allocate (a fatal error, not a panic) are outside the model
      if c > 0 && b.length > 0 && b.length ≤ maxInt / c.toNat && b.length * c.toNat > 1048576 then bad
      else out (showR Hex.encode (bytesRepeat b c))
    | _, _ => bad
  | ["newreader", b] =>
    match hexTok b with
    | some b =>
      let r := newReader b
      out (toString r.len ++ " " ++ toString r.size ++ " " ++ Hex.encode r.readAll)
    | none => bad
  | ["isbitset", b, i] =>
    match hexTok b, goInt i with
    | some b, some i => out (showR showBool (isBitSet b i))
    | _, _ => bad
  | ["frombools", l] =>
    match bitsTok l with
    | some l => out (Hex.encode (fromBools l))
    | none => bad
  | ["tobools", b] =>
    match hexTok b with
    | some b => out (showBits (toBools b))
    | none => bad
  | ["bcopy", b] =>
    match hexTok b with
    | some b => out (Hex.encode (bytesCopy b))
    | none => bad
  | ["bfindindex", l, t] =>
    match hexList l, hexTok t with
    | some l, some t => out (toString (bytesFindIndex l t))
    | _, _ => bad
  | ["fromu16", n] =>
    match natArg n with
    | some v => if v < 65536 && toString v == n then out (Hex.encode (fromUint16 v.toUInt16)) else bad
    | none => bad
  | ["fromu32", n] =>
    match natArg n with
    | some v => if v < 4294967296 && toString v == n then out (Hex.encode (fromUint32 v.toUInt32)) else bad
    | none => bad
  | ["fromu64", n] =>
    match natArg n with
    | some v =>
      if v < 18446744073709551616 && toString v == n then out (Hex.encode (fromUint64 v.toUInt64)) else bad
    | none => bad
  | ["tou32", b] =>
    match hexTok b with
    | some b => out (showR (fun v => toString v.toNat) (toUint32 b))
    | none => bad
  | ["tou64", b] =>
    match hexTok b with
    | some b => out (showR (fun v => toString v.toNat) (toUint64 b))
    | none => bad
  | ["join", l] =>
    match hexList l with
    | some l => out (Hex.encode (join l))
    | none => bad
  | ["joinsize", n, l] =>
    match goInt n, hexList l with
    | some n, some l => if n > 1048576 then bad else out (showR Hex.encode (joinSize n l))
    | _, _ => bad
  | ["joinslice", a, b] =>
    match hexList a, hexList b with
    | some a, some b => out (showHexList (joinSlice a b))
    | _, _ => bad
  | ["bsort", l] =>
    match hexList l with
    | some l => out (showHexList (bytesSort l))
    | none => bad
  | ["bissorted", l] =>
    match hexList l with
    | some l => out (showBool (bytesIsSorted l))
    | none => bad
  | ["breverse", b] =>
    match hexTok b with
    | some b => out (Hex.encode (bytesReverse b))
    | none => bad
  | ["bunique", l] =>
    match hexList l with
    | some l => out (showHexList (bytesUnique l))
    | none => bad
  | ["bisunique", l] =>
    match hexList l with
    | some l => out (showBool (bytesIsUnique l))
    | none => bad
  | ["iinclude", l, v] =>
    match intListWith l v with
    | some (l, v) => out (showBool (intsInclude l v))
    | none => bad
  | ["imax", l] =>
    match intList l with
    | some l => out (showR toString (intsMax l))
    | none => bad
  | ["imin", l] =>
    match intList l with
    | some l => out (showR toString (intsMin l))
    | none => bad
  | ["iunique", l] =>
    match intList l with
    | some l => out (showInts (intsUnique l))
    | none => bad
  | ["iisunique", l] =>
    match intList l with
    | some l => out (showBool (intsIsUnique l))
    | none => bad
  -- strings are represented by the (canonical, order-preserving) hex tokens of their bytes:
  -- Contain / Unique only compare for equality, the canonical order of `sunique` is the byte order
  | ["scontain", l, t] =>
    match hexList l, hexTok t with
    | some l, some t => out (showBool (stringsContain (l.map Hex.encode) (Hex.encode t)))
    | _, _ => bad
  | ["sunique", l] =>
    match hexList l with
    | some l =>
      let r := stringsUnique (l.map Hex.encode)
      out (if r.isEmpty then "[]" else String.intercalate "," r)
    | none => bad
  | ["sisunique", l] =>
    match hexList l with
    | some l => out (showBool (stringsIsUnique (l.map Hex.encode)))
    | none => bad
  | ["genrandom", n] =>
    match goInt n with
    | some n =>
      if n > 65536 then bad else
      out (showR (fun s => "len=" ++ toString s.length ++ " alpha=" ++
        showBool (s.toList.all (fun c => letterRunes.contains c))) (generateRandom n (fun i => i * 7 + 3)))
    | none => bad
  | _ => bad

def main : IO Unit := Driver.run () step

end Driver.Collection
