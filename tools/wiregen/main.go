// wiregen: go/ast fact extractor for the start-up path of the engine (tie A).
//
// For a fixed list of functions (engine start-up, configuration defaults, component constructors and
// Init methods) it emits, as Lean data:
//   - fieldInits: every `Key: value` of every composite literal and every assignment `recv.field = expr`
//     (function, literal type, field, expression text);
//   - calls: every call expression in source order with its lexical context (inside `go`, `defer`, a loop,
//     the condition text of enclosing ifs), callee text and argument texts;
//   - defaults: every `if c.F == Z { c.F = V }` of the configuration default methods with the value
//     resolved to a natural number where it is a constant expression over literals and package-level
//     variables / constants.
// Anything unexpected is still emitted verbatim (the Lean side states expectations about the table; a
// missing or changed entry breaks a named theorem).
package main

import (
	"bytes"
	"flag"
	"fmt"
	"go/ast"
	"go/parser"
	"go/printer"
	"go/token"
	"os"
	"path/filepath"
	"sort"
	"strconv"
	"strings"
)

type target struct {
	file  string
	funcs []string // "Recv.Name" or "Name"; empty = all functions of the file
}

var targets = []target{
	{"pkg/engine/engine.go", []string{"NewEngine", "Engine.Start", "Engine.Stop", "Engine.init"}},
	{"pkg/engine/config/config.go", nil},
	{"pkg/engine/config/genesis_block.go", nil},
	{"pkg/blockchain/chain.go", []string{"NewChain", "Chain.Init"}},
	{"pkg/blockchain/data_access.go", []string{"NewDataAccess"}},
	{"pkg/consensus/execute.go", []string{"NewExecuter", "Executer.Init", "Executer.Start", "Executer.Stop"}},
	{"pkg/consensus/liskbft/module.go", []string{"NewModule", "Module.Init"}},
	{"pkg/txpool/txpool.go", []string{"TransactionPoolConfig.SetDefault", "NewTransactionPool", "TransactionPool.Init", "TransactionPool.Start", "TransactionPool.End"}},
	{"pkg/generator/generator.go", []string{"NewGenerator", "Generator.Init", "Generator.Start"}},
}

var fset = token.NewFileSet()

func src(n ast.Node) string {
	if n == nil {
		return ""
	}
	var b bytes.Buffer
	printer.Fprint(&b, fset, n)
	s := b.String()
	s = strings.Join(strings.Fields(s), " ")
	return s
}

// short is src with function literals abbreviated (their bodies are walked separately)
func short(n ast.Expr) string {
	if _, ok := n.(*ast.FuncLit); ok {
		return "funclit"
	}
	return src(n)
}

func lstr(s string) string { return strconv.Quote(s) }

type fieldInit struct{ fn, typ, field, expr string }
type call struct {
	fn     string
	seq    int
	callee string
	args   []string
	ctx    []string
}
type dflt struct {
	fn, field, zero, value string
	nat                    int64 // -1 = not a constant
}

var (
	inits    []fieldInit
	calls    []call
	defaults []dflt
	pkgVals  = map[string]ast.Expr{} // package-level var/const initialisers per file's package (flat)
)

func evalConst(e ast.Expr, depth int) (int64, bool) {
	if depth > 8 {
		return 0, false
	}
	switch x := e.(type) {
	case *ast.BasicLit:
		if x.Kind == token.INT {
			v, err := strconv.ParseInt(x.Value, 0, 64)
			return v, err == nil
		}
	case *ast.ParenExpr:
		return evalConst(x.X, depth+1)
	case *ast.Ident:
		if in, ok := pkgVals[x.Name]; ok {
			return evalConst(in, depth+1)
		}
	case *ast.CallExpr:
		// conversions uint32(x), int(x) and the helper intPtr(x)
		if id, ok := x.Fun.(*ast.Ident); ok && len(x.Args) == 1 {
			switch id.Name {
			case "uint32", "uint64", "int", "int64", "uint", "intPtr":
				return evalConst(x.Args[0], depth+1)
			}
		}
	case *ast.BinaryExpr:
		a, ok1 := evalConst(x.X, depth+1)
		b, ok2 := evalConst(x.Y, depth+1)
		if ok1 && ok2 {
			switch x.Op {
			case token.MUL:
				return a * b, true
			case token.ADD:
				return a + b, true
			case token.SUB:
				return a - b, true
			case token.QUO:
				if b != 0 {
					return a / b, true
				}
			}
		}
	}
	return 0, false
}

type walker struct {
	fn   string
	recv string
	seq  int
}

func (w *walker) expr(e ast.Node, ctx []string) {
	if e == nil {
		return
	}
	ast.Inspect(e, func(n ast.Node) bool {
		switch x := n.(type) {
		case *ast.FuncLit:
			w.block(x.Body, append(append([]string{}, ctx...), "funclit"))
			return false
		case *ast.CompositeLit:
			typ := src(x.Type)
			for _, el := range x.Elts {
				if kv, ok := el.(*ast.KeyValueExpr); ok {
					inits = append(inits, fieldInit{w.fn, typ, src(kv.Key), src(kv.Value)})
				}
			}
			return true
		case *ast.CallExpr:
			c := call{fn: w.fn, seq: w.seq, callee: short(x.Fun), ctx: append([]string{}, ctx...)}
			for _, a := range x.Args {
				c.args = append(c.args, short(a))
			}
			w.seq++
			calls = append(calls, c)
			return true
		}
		return true
	})
}

func (w *walker) block(b *ast.BlockStmt, ctx []string) {
	if b == nil {
		return
	}
	for _, s := range b.List {
		w.stmt(s, ctx)
	}
}

func (w *walker) stmt(s ast.Stmt, ctx []string) {
	switch x := s.(type) {
	case *ast.BlockStmt:
		w.block(x, ctx)
	case *ast.GoStmt:
		w.expr(x.Call, append(append([]string{}, ctx...), "go"))
	case *ast.DeferStmt:
		w.expr(x.Call, append(append([]string{}, ctx...), "defer"))
	case *ast.IfStmt:
		if x.Init != nil {
			w.stmt(x.Init, ctx)
		}
		w.expr(x.Cond, ctx)
		w.defaultPattern(x)
		w.block(x.Body, append(append([]string{}, ctx...), "if "+src(x.Cond)))
		if x.Else != nil {
			w.stmt(x.Else, append(append([]string{}, ctx...), "else "+src(x.Cond)))
		}
	case *ast.ForStmt:
		if x.Init != nil {
			w.stmt(x.Init, ctx)
		}
		w.expr(x.Cond, ctx)
		w.block(x.Body, append(append([]string{}, ctx...), "for "+src(x.Cond)))
	case *ast.RangeStmt:
		w.expr(x.X, ctx)
		w.block(x.Body, append(append([]string{}, ctx...), "range "+src(x.X)))
	case *ast.SelectStmt:
		for _, c := range x.Body.List {
			cc := c.(*ast.CommClause)
			nctx := append(append([]string{}, ctx...), "select "+src(cc.Comm))
			if cc.Comm != nil {
				w.stmt(cc.Comm, nctx)
			}
			for _, b := range cc.Body {
				w.stmt(b, nctx)
			}
		}
	case *ast.SwitchStmt:
		if x.Init != nil {
			w.stmt(x.Init, ctx)
		}
		w.expr(x.Tag, ctx)
		for _, c := range x.Body.List {
			cc := c.(*ast.CaseClause)
			nctx := append(append([]string{}, ctx...), "case")
			for _, b := range cc.Body {
				w.stmt(b, nctx)
			}
		}
	case *ast.AssignStmt:
		for i, l := range x.Lhs {
			if sel, ok := l.(*ast.SelectorExpr); ok && i < len(x.Rhs) && len(x.Lhs) == len(x.Rhs) {
				if id, ok := sel.X.(*ast.Ident); ok && id.Name == w.recv && w.recv != "" {
					inits = append(inits, fieldInit{w.fn, "recv", sel.Sel.Name, src(x.Rhs[i])})
				}
			}
		}
		for _, r := range x.Rhs {
			w.expr(r, ctx)
		}
	case *ast.ReturnStmt:
		for _, r := range x.Results {
			w.expr(r, ctx)
		}
	case *ast.ExprStmt:
		w.expr(x.X, ctx)
	case *ast.DeclStmt:
		w.expr(x.Decl, ctx)
	case *ast.SendStmt:
		w.expr(x.Value, ctx)
	case *ast.LabeledStmt:
		w.stmt(x.Stmt, ctx)
	default:
		if s != nil {
			w.expr(s, ctx)
		}
	}
}

// `if c.F == Z { c.F = V }`
func (w *walker) defaultPattern(x *ast.IfStmt) {
	be, ok := x.Cond.(*ast.BinaryExpr)
	if !ok || be.Op != token.EQL || x.Else != nil || len(x.Body.List) != 1 {
		return
	}
	as, ok := x.Body.List[0].(*ast.AssignStmt)
	if !ok || len(as.Lhs) != 1 || len(as.Rhs) != 1 || src(as.Lhs[0]) != src(be.X) {
		return
	}
	sel, ok := be.X.(*ast.SelectorExpr)
	if !ok {
		return
	}
	d := dflt{fn: w.fn, field: sel.Sel.Name, zero: src(be.Y), value: src(as.Rhs[0]), nat: -1}
	if v, ok := evalConst(as.Rhs[0], 0); ok && v >= 0 {
		d.nat = v
	}
	defaults = append(defaults, d)
}

func main() {
	repo := flag.String("repo", "/repo", "")
	out := flag.String("out", "", "")
	flag.Parse()
	for _, t := range targets {
		path := filepath.Join(*repo, t.file)
		f, err := parser.ParseFile(fset, path, nil, 0)
		if err != nil {
			fmt.Fprintln(os.Stderr, "wiregen:", err)
			os.Exit(1)
		}
		pkgVals = map[string]ast.Expr{}
		for _, d := range f.Decls {
			if gd, ok := d.(*ast.GenDecl); ok && (gd.Tok == token.VAR || gd.Tok == token.CONST) {
				for _, sp := range gd.Specs {
					vs := sp.(*ast.ValueSpec)
					for i, n := range vs.Names {
						if i < len(vs.Values) {
							pkgVals[n.Name] = vs.Values[i]
						}
					}
				}
			}
		}
		want := map[string]bool{}
		for _, fn := range t.funcs {
			want[fn] = true
		}
		found := map[string]bool{}
		for _, d := range f.Decls {
			fd, ok := d.(*ast.FuncDecl)
			if !ok || fd.Body == nil {
				continue
			}
			name, recv := fd.Name.Name, ""
			if fd.Recv != nil && len(fd.Recv.List) == 1 {
				rt := fd.Recv.List[0].Type
				if st, ok := rt.(*ast.StarExpr); ok {
					rt = st.X
				}
				name = src(rt) + "." + name
				if len(fd.Recv.List[0].Names) == 1 {
					recv = fd.Recv.List[0].Names[0].Name
				}
			}
			if len(want) > 0 && !want[name] {
				continue
			}
			found[name] = true
			w := &walker{fn: name, recv: recv}
			w.block(fd.Body, nil)
		}
		var missing []string
		for fn := range want {
			if !found[fn] {
				missing = append(missing, fn)
			}
		}
		sort.Strings(missing)
		for _, m := range missing {
			// a renamed / removed function is reported as a fact, the Lean side notices the hole
			inits = append(inits, fieldInit{m, "MISSING", "", ""})
		}
	}
	var b strings.Builder
	b.WriteString("/- GENERATED by tools/wiregen from /repo — do not edit. Regenerated on every check run.\n")
	b.WriteString("   Start-up wiring of the engine: configuration defaults, constructor / Init field wiring, call order. -/\n\n")
	b.WriteString("namespace LiskVerif.Gen.Wiring\n\n")
	b.WriteString("structure FieldInit where\n  fn : String\n  typ : String\n  field : String\n  expr : String\nderiving Repr, DecidableEq\n\n")
	b.WriteString("structure Call where\n  fn : String\n  seq : Nat\n  callee : String\n  args : List String\n  ctx : List String\nderiving Repr, DecidableEq\n\n")
	b.WriteString("structure Default where\n  fn : String\n  field : String\n  zero : String\n  value : String\n  nat : Option Nat\nderiving Repr, DecidableEq\n\n")
	b.WriteString("def fieldInits : List FieldInit := [\n")
	for i, x := range inits {
		sep := ","
		if i == len(inits)-1 {
			sep = ""
		}
		fmt.Fprintf(&b, "  ⟨%s, %s, %s, %s⟩%s\n", lstr(x.fn), lstr(x.typ), lstr(x.field), lstr(x.expr), sep)
	}
	b.WriteString("]\n\n")
	b.WriteString("def calls : List Call := [\n")
	for i, c := range calls {
		sep := ","
		if i == len(calls)-1 {
			sep = ""
		}
		as := make([]string, len(c.args))
		for j, a := range c.args {
			as[j] = lstr(a)
		}
		cs := make([]string, len(c.ctx))
		for j, a := range c.ctx {
			cs[j] = lstr(a)
		}
		fmt.Fprintf(&b, "  ⟨%s, %d, %s, [%s], [%s]⟩%s\n", lstr(c.fn), c.seq, lstr(c.callee), strings.Join(as, ", "), strings.Join(cs, ", "), sep)
	}
	b.WriteString("]\n\n")
	b.WriteString("def defaults : List Default := [\n")
	for i, d := range defaults {
		sep := ","
		if i == len(defaults)-1 {
			sep = ""
		}
		nat := "none"
		if d.nat >= 0 {
			nat = fmt.Sprintf("some %d", d.nat)
		}
		fmt.Fprintf(&b, "  ⟨%s, %s, %s, %s, %s⟩%s\n", lstr(d.fn), lstr(d.field), lstr(d.zero), lstr(d.value), nat, sep)
	}
	b.WriteString("]\n\nend LiskVerif.Gen.Wiring\n")
	tmp := *out + ".tmp"
	if err := os.WriteFile(tmp, []byte(b.String()), 0o644); err != nil {
		fmt.Fprintln(os.Stderr, err)
		os.Exit(1)
	}
	if err := os.Rename(tmp, *out); err != nil {
		fmt.Fprintln(os.Stderr, err)
		os.Exit(1)
	}
	fmt.Printf("wiregen: %d field inits, %d calls, %d defaults\n", len(inits), len(calls), len(defaults))
}
