#!/bin/sh
# regenerate lean/LiskVerif/Gen/Wiring.lean (configuration defaults, constructor wiring, Init/Start call order) from /repo
set -e
cd "$(dirname "$0")"
export GOFLAGS=-mod=mod GOPROXY=off GOSUMDB=off GOTOOLCHAIN=local
mkdir -p ../../.build ../../lean/LiskVerif/Gen
go build -o ../../.build/wiregen .
../../.build/wiregen -repo "${VERIF_REPO:-/repo}" -out ../../lean/LiskVerif/Gen/Wiring.lean
