module wiregen

go 1.21
