#!/bin/sh
# regenerate lean/LiskVerif/Gen/Life.lean (statement skeleton of the start functions that bind the long-lived
# p2p components to the Peer of a run: rateLimit.start, MessageProtocol.start, Connection.Start) from /repo.
# VERIF_REPO / VERIF_LEAN override the repository and the Lean project (private copies).
set -e
cd "$(dirname "$0")"
export GOFLAGS=-mod=mod GOPROXY=off GOSUMDB=off GOTOOLCHAIN=local
LEAN="${VERIF_LEAN:-../../lean}"
mkdir -p ../../.build "$LEAN/LiskVerif/Gen"
go build -o ../../.build/lifegen .
../../.build/lifegen -repo "${VERIF_REPO:-/repo}" -out "$LEAN/LiskVerif/Gen/Life.lean"
