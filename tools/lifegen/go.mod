module lifegen

go 1.21
